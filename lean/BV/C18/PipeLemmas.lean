/-
C18 helper lemmas for the pipeline model: invariants preserved by every step.
-/
import BV.C18.Pipe
namespace BV.C18.Pipe

/-- Where a message can be: every message is in exactly one of these places. -/
def places (s : Sys) : List Nat :=
  s.todo ++ s.checked ++ s.outQ ++ s.pending ++ s.sendQ ++ s.oh.held ++ s.done

def OPhase.busy : OPhase → Nat
  | .holding _ | .announced _ | .wrote _ _ | .owesDone => 1
  | _ => 0

/-- Tokens of the queueHandler/outHandler hand-off: at most one message is between
`sendQueue` and `sendDoneQueue` at any time. -/
def busy (s : Sys) : Nat := s.sendQ.length + s.oh.busy + s.sendDone

/-- Control-state invariants (no message bookkeeping). -/
structure CtlInv (s : Sys) : Prop where
  qdisc : s.qh ≠ .main → s.disc = true
  odisc : (s.oh = .waitQ ∨ s.oh = .cleanup ∨ s.oh = .done) → s.disc = true
  oq : (s.oh = .cleanup ∨ s.oh = .done) → s.qh = .done
  qpend : (s.qh = .cleanup ∨ s.qh = .done) → s.pending = []
  osend : s.oh = .done → s.sendQ = []
  busy1 : busy s ≤ 1
  idle : s.waiting = false → busy s = 0 ∧ s.pending = []
  indisc : s.inDone = true → s.disc = true
  hsdisc : (s.hs = .abandoned ∨ s.hs = .drained) → s.disc = true
  unstarted : s.hs ≠ .started → s.qh = .main ∧ s.oh = .main ∧ s.sendQ = [] ∧ s.pending = []

theorem ctl_init (ids : List Nat) : CtlInv (init ids) := by
  constructor <;> simp [init, busy, OPhase.busy]

theorem ctl_step (c : Cfg) (s : Sys) (ch : Choice) (h : CtlInv s) : CtlInv (step c s ch) := by
  obtain ⟨h1, h2, h3, h4, h5, h6, h7, h9, h10, h11⟩ := h
  unfold step
  cases ch <;> simp only [stepOpt, hStep]
  all_goals (repeat' split)
  all_goals (simp only [Option.getD_some, Option.getD_none])
  all_goals (first | exact ⟨h1, h2, h3, h4, h5, h6, h7, h9, h10, h11⟩ | skip)
  all_goals (constructor <;> simp_all [busy, OPhase.busy] <;> try omega)

/-- Stall-handler invariant of the repaired handler: it is gone only when both the in and the
out handler are. -/
structure StallInv (s : Sys) : Prop where
  seen : ∀ si so, s.sh = .running si so →
    (si = true → s.inDone = true) ∧ (so = true → s.oh = .done) ∧ ¬(si = true ∧ so = true)
  gone : s.sh = .done → s.oh = .done ∧ s.inDone = true

theorem stall_init (ids : List Nat) : StallInv (init ids) := by
  constructor <;> simp [init]

theorem stall_step (c : Cfg) (hb : c.stallBug = false) (s : Sys) (ch : Choice) (h : StallInv s) :
    StallInv (step c s ch) := by
  obtain ⟨h1, h2⟩ := h
  unfold step
  cases ch <;> simp only [stepOpt, hStep]
  all_goals (repeat' split)
  all_goals (simp only [Option.getD_some, Option.getD_none])
  all_goals (first | exact ⟨h1, h2⟩ | skip)
  all_goals (constructor <;> simp_all)


/-! ### every message is in exactly one place -/

theorem count_erase_add (l : List Nat) (m x : Nat) (h : m ∈ l) :
    (l.erase m).count x + (if x = m then 1 else 0) = l.count x := by
  by_cases hx : x = m
  · subst hx
    have : 0 < l.count x := List.count_pos_iff.2 h
    simp [List.count_erase_self]; omega
  · have hx' : ¬ (m = x) := fun e => hx e.symm
    simp [hx, List.count_erase_of_ne hx]

theorem cnt_step (c : Cfg) (ids : List Nat) (s : Sys) (ch : Choice)
    (h : ∀ x, (places s).count x = ids.count x) :
    ∀ x, (places (step c s ch)).count x = ids.count x := by
  intro x
  have hx := h x
  clear h
  unfold step
  cases ch <;> simp only [stepOpt, hStep]
  case check m =>
    split
    · rename_i hg
      have := count_erase_add s.todo m x hg.1
      split <;> simp only [Option.getD_some] <;>
        simp only [places, List.count_append, List.count_cons, List.count_nil, OPhase.held] at hx ⊢ <;>
        (by_cases hxm : x = m
         · subst hxm; simp only [beq_self_eq_true, if_true] at this ⊢; omega
         · have h1 : (m == x) = false := by simp [Ne.symm hxm]
           simp only [h1, hxm, if_false, Bool.false_eq_true] at this ⊢; omega)
    · simpa using hx
  case send m =>
    split
    · rename_i hg
      have := count_erase_add s.checked m x hg.1
      simp only [Option.getD_some]
      simp only [places, List.count_append, List.count_cons, List.count_nil, OPhase.held] at hx ⊢
      by_cases hxm : x = m
      · subst hxm; simp only [beq_self_eq_true, if_true] at this ⊢; omega
      · have h1 : (m == x) = false := by simp [Ne.symm hxm]
        simp only [h1, hxm, if_false, Bool.false_eq_true] at this ⊢; omega
    · simpa using hx
  all_goals (repeat' split)
  all_goals (simp only [Option.getD_some, Option.getD_none])
  all_goals (first | exact hx | skip)
  all_goals
    (simp_all only [places, List.count_append, List.count_cons, List.count_nil, OPhase.held]
     try omega
     try (split <;> simp_all <;> omega))


/-! ### first-in-first-out -/

structure FifoInv (s : Sys) : Prop where
  pre : ∃ t, s.sent = s.written ++ t
  eq : s.disc = false →
    s.sent = s.written ++ s.oh.unwritten ++ s.sendQ ++ s.pending ++ s.outQ
  sbeq : s.disc = false → s.sentBefore = s.sent
  wsub : ∀ m ∈ s.written, m ∈ s.sentBefore

theorem fifo_init (ids : List Nat) : FifoInv (init ids) := by
  constructor <;> simp [init, OPhase.unwritten]

theorem length_lt_one {α} (l : List α) (h : l.length < 1) : l = [] := by
  cases l <;> simp_all

theorem fifo_step (c : Cfg) (s : Sys) (ch : Choice) (hc : CtlInv s) (h : FifoInv s) :
    FifoInv (step c s ch) := by
  obtain ⟨⟨t, hpre⟩, heq, hsb, hws⟩ := h
  have hidle := hc.idle
  have hb := hc.busy1
  have hq := hc.qdisc
  have ho := hc.odisc
  have hhs := hc.hsdisc
  unfold step
  cases ch <;> simp only [stepOpt, hStep]
  all_goals (repeat' split)
  all_goals (simp only [Option.getD_some, Option.getD_none])
  all_goals (first | exact ⟨⟨t, hpre⟩, heq, hsb, hws⟩ | skip)
  all_goals (constructor <;> simp_all [OPhase.unwritten, busy, OPhase.busy])
  intro m hm; rcases hm with hm | hm
  · exact Or.inl hm
  · exact Or.inr (Or.inl hm)


/-! ### messages queued before the disconnect request -/

def SbInv (ids : List Nat) (s : Sys) : Prop :=
  ∀ m ∈ s.sentBefore, m ∉ s.todo ∧ m ∉ s.checked ∧
    ((s.qh = .done ∨ s.hs = .drained) → m ∉ s.outQ) ∧ 1 ≤ ids.count m

theorem sb_init (ids : List Nat) : SbInv ids (init ids) := by
  intro m hm; simp [init] at hm

theorem sb_step (c : Cfg) (ids : List Nat) (s : Sys) (ch : Choice) (hn : ids.Nodup)
    (hc : CtlInv s) (hcnt : ∀ x, (places s).count x = ids.count x) (h : SbInv ids s) :
    SbInv ids (step c s ch) := by
  have hq := hc.qdisc
  unfold step
  cases ch <;> simp only [stepOpt, hStep]
  case check m' =>
    split
    · rename_i hg
      split <;> simp only [Option.getD_some] <;> intro m hm <;> have hm' := h m hm <;>
        refine ⟨fun hh => hm'.1 (List.mem_of_mem_erase hh), ?_, hm'.2.2.1, hm'.2.2.2⟩
      · exact hm'.2.1
      · simp only [List.mem_append, List.mem_singleton, not_or]
        refine ⟨hm'.2.1, ?_⟩
        intro e; subst e; exact hm'.1 hg.1
    · simpa using h
  case send m' =>
    split
    · rename_i hg
      simp only [Option.getD_some]
      have hcm := hcnt m'
      have hle : ids.count m' ≤ 1 := List.nodup_iff_count.1 hn m'
      have hpos : 0 < s.checked.count m' := List.count_pos_iff.2 hg.1
      simp only [places, List.count_append] at hcm
      have old : ∀ m ∈ s.sentBefore, m ∉ s.todo ∧ m ∉ s.checked.erase m' ∧
          ((s.qh = .done ∨ s.hs = .drained) → m ∉ s.outQ ++ [m']) ∧ 1 ≤ ids.count m := by
        intro m hm
        have hm' := h m hm
        refine ⟨hm'.1, fun hh => hm'.2.1 (List.mem_of_mem_erase hh), ?_, hm'.2.2.2⟩
        intro hd
        simp only [List.mem_append, List.mem_singleton, not_or]
        refine ⟨hm'.2.2.1 hd, ?_⟩
        intro e; subst e; exact hm'.2.1 hg.1
      intro m hm
      by_cases hd : s.disc = true
      · simp only [hd, if_true] at hm
        exact old m hm
      · simp only [hd] at hm
        simp only [Bool.false_eq_true, if_false, List.mem_append, List.mem_singleton] at hm
        rcases hm with hm | hm
        · exact old m hm
        · subst hm
          refine ⟨?_, ?_, ?_, by omega⟩
          · intro hh
            have : 0 < s.todo.count m := List.count_pos_iff.2 hh
            omega
          · intro hh
            have : 0 < (s.checked.erase m).count m := List.count_pos_iff.2 hh
            rw [List.count_erase_self] at this
            omega
          · intro hd'
            have : s.disc = true := by
              rcases hd' with hd' | hd'
              · exact hq (by rw [hd']; intro e; cases e)
              · exact hc.hsdisc (Or.inr hd')
            exact absurd this hd
    · simpa using h
  all_goals (repeat' split)
  all_goals (simp only [Option.getD_some, Option.getD_none])
  all_goals (first | exact h | skip)
  all_goals (intro m hm; have hm' := h m hm; simp_all)


/-! ### combined invariant along every schedule -/

structure Inv (ids : List Nat) (s : Sys) : Prop where
  ctl : CtlInv s
  cnt : ∀ x, (places s).count x = ids.count x
  fifo : FifoInv s
  sb : SbInv ids s

theorem inv_init (ids : List Nat) : Inv ids (init ids) :=
  ⟨ctl_init ids, by intro x; simp [places, init, OPhase.held], fifo_init ids, sb_init ids⟩

theorem inv_step (c : Cfg) (ids : List Nat) (hn : ids.Nodup) (s : Sys) (ch : Choice)
    (h : Inv ids s) : Inv ids (step c s ch) :=
  ⟨ctl_step c s ch h.ctl, cnt_step c ids s ch h.cnt, fifo_step c s ch h.ctl h.fifo,
    sb_step c ids s ch hn h.ctl h.cnt h.sb⟩

theorem inv_exec (c : Cfg) (ids : List Nat) (hn : ids.Nodup) :
    ∀ (sched : List Choice) (s : Sys), Inv ids s → Inv ids (exec c s sched)
  | [], _, h => h
  | ch :: rest, s, h => inv_exec c ids hn rest _ (inv_step c ids hn s ch h)

/-- FIFO needs no distinctness assumption. -/
theorem fifo_exec (c : Cfg) :
    ∀ (sched : List Choice) (s : Sys), CtlInv s → FifoInv s →
      CtlInv (exec c s sched) ∧ FifoInv (exec c s sched)
  | [], _, h1, h2 => ⟨h1, h2⟩
  | ch :: rest, s, h1, h2 => fifo_exec c rest _ (ctl_step c s ch h1) (fifo_step c s ch h1 h2)

theorem stall_exec (c : Cfg) (hb : c.stallBug = false) :
    ∀ (sched : List Choice) (s : Sys), StallInv s → StallInv (exec c s sched)
  | [], _, h => h
  | ch :: rest, s, h => stall_exec c hb rest _ (stall_step c hb s ch h)

theorem done_count_le (ids : List Nat) (hn : ids.Nodup) (s : Sys) (h : Inv ids s) (m : Nat) :
    s.done.count m ≤ 1 := by
  have h1 := h.cnt m
  have h2 : ids.count m ≤ 1 := List.nodup_iff_count.1 hn m
  simp only [places, List.count_append] at h1
  omega

theorem final_places (s : Sys) (hc : CtlInv s) (hf : final s = true) :
    s.pending = [] ∧ s.sendQ = [] ∧ s.oh.held = [] ∧ (s.qh = .done ∨ s.hs = .drained) := by
  simp only [final, Bool.decide_or, Bool.or_eq_true, decide_eq_true_eq] at hf
  rcases hf with hf | hf
  · exact ⟨hc.qpend (Or.inr hf.2.1), hc.osend hf.2.2.1, by simp [hf.2.2.1, OPhase.held], Or.inl hf.2.1⟩
  · have := hc.unstarted (by rw [hf]; intro e; cases e)
    exact ⟨this.2.2.2, this.2.2.1, by simp [this.2.1, OPhase.held], Or.inr hf⟩

theorem done_exactly_once (ids : List Nat) (hn : ids.Nodup) (s : Sys) (h : Inv ids s)
    (hf : final s = true) (m : Nat) (hm : m ∈ s.sentBefore) : s.done.count m = 1 := by
  have h1 := h.cnt m
  have h2 : ids.count m ≤ 1 := List.nodup_iff_count.1 hn m
  obtain ⟨a, b, c', d⟩ := h.sb m hm
  obtain ⟨hp, hs, hh, hq⟩ := final_places s h.ctl hf
  have c0 : s.todo.count m = 0 := List.count_eq_zero.2 a
  have c1 : s.checked.count m = 0 := List.count_eq_zero.2 b
  have c2 : s.outQ.count m = 0 := List.count_eq_zero.2 (c' hq)
  simp only [places, List.count_append, hp, hs, hh, List.count_nil] at h1
  omega

/-- Complete accounting: when the handlers are done and no caller is still inside
`QueueMessage`, every message has exactly one done signal. -/
theorem all_done_once (ids : List Nat) (hn : ids.Nodup) (s : Sys) (h : Inv ids s)
    (hf : final s = true) (h0 : s.todo = []) (h1 : s.checked = []) (h2 : s.outQ = [])
    (m : Nat) (hm : m ∈ ids) : s.done.count m = 1 := by
  have hc := h.cnt m
  have hid : ids.count m = 1 := by
    have := List.nodup_iff_count.1 hn m
    have : 0 < ids.count m := List.count_pos_iff.2 hm
    omega
  obtain ⟨hp, hs, hh, _⟩ := final_places s h.ctl hf
  simp only [places, List.count_append, hp, hs, hh, List.count_nil, h0, h1, h2] at hc
  omega

/-- A message without any completion signal in a final state is still inside a `QueueMessage`
call (not started, or between the check and the channel send), or it entered the buffer after
the disconnect request. -/
theorem unsignalled_in_flight (ids : List Nat) (hn : ids.Nodup) (s : Sys) (h : Inv ids s)
    (hf : final s = true) (m : Nat) (hm : m ∈ ids) (h0 : s.done.count m = 0) :
    m ∈ s.todo ∨ m ∈ s.checked ∨ (m ∈ s.outQ ∧ m ∉ s.sentBefore) := by
  have hc := h.cnt m
  have hid : 0 < ids.count m := List.count_pos_iff.2 hm
  obtain ⟨hp, hs, hh, _⟩ := final_places s h.ctl hf
  simp only [places, List.count_append, hp, hs, hh, List.count_nil, h0] at hc
  by_cases h1 : m ∈ s.todo
  · exact Or.inl h1
  by_cases h2 : m ∈ s.checked
  · exact Or.inr (Or.inl h2)
  have c1 : s.todo.count m = 0 := List.count_eq_zero.2 h1
  have c2 : s.checked.count m = 0 := List.count_eq_zero.2 h2
  have h3 : m ∈ s.outQ := List.count_pos_iff.1 (by omega)
  refine Or.inr (Or.inr ⟨h3, ?_⟩)
  intro hsb
  have := done_exactly_once ids hn s h hf m hsb
  omega

/-! ### termination -/

def QPhase.w : QPhase → Nat
  | .main => 3 | .drain => 2 | .cleanup => 1 | .done => 0

def OPhase.w : OPhase → Nat
  | .main => 3 | .holding _ => 10 | .announced _ => 8 | .wrote _ _ => 7 | .owesDone => 5
  | .waitQ => 2 | .cleanup => 1 | .done => 0

def SPhase.w : SPhase → Nat
  | .running si so => if si || so then 2 else 3
  | .done => 0

def HPhase.w : HPhase → Nat
  | .pre => 3 | .abandoned => 2 | .started => 0 | .drained => 0

def measure (s : Sys) : Nat :=
  12 * s.todo.length + 11 * s.checked.length + 10 * s.outQ.length + 9 * s.pending.length +
    8 * s.sendQ.length + s.oh.w + s.qh.w + s.sendDone + s.sh.w + s.stallCh + s.hs.w +
    (if s.disc then 0 else 1) + (if s.connLost then 0 else 1) + (if s.inDone then 0 else 1)

theorem step_decreases (c : Cfg) (s s' : Sys) (ch : Choice) (h : stepOpt c s ch = some s') :
    measure s' < measure s := by
  cases ch <;> simp only [stepOpt, hStep] at h
  case check m =>
    split at h
    · rename_i hg
      have := List.length_erase_of_mem hg.1
      have : 0 < s.todo.length := List.length_pos_of_mem hg.1
      split at h <;> simp only [Option.some.injEq] at h <;> subst h <;>
        simp_all [measure] <;> omega
    · cases h
  case send m =>
    split at h
    · rename_i hg
      have := List.length_erase_of_mem hg.1
      have : 0 < s.checked.length := List.length_pos_of_mem hg.1
      simp only [Option.some.injEq] at h; subst h
      simp_all [measure]; omega
    · cases h
  all_goals (repeat' split at h)
  all_goals (first | (cases h; done) | skip)
  all_goals (simp only [Option.some.injEq] at h; subst h)
  all_goals (simp_all [measure, QPhase.w, OPhase.w, SPhase.w, HPhase.w] <;> (try split) <;> (try simp_all) <;> try omega)

/-- Number of scheduler choices of `sched` that were enabled when taken. -/
def effective (c : Cfg) : Sys → List Choice → Nat
  | _, [] => 0
  | s, ch :: rest => (if (stepOpt c s ch).isSome then 1 else 0) + effective c (step c s ch) rest

theorem effective_le (c : Cfg) : ∀ (sched : List Choice) (s : Sys),
    effective c s sched + measure (exec c s sched) ≤ measure s
  | [], s => by simp [effective, exec]
  | ch :: rest, s => by
    have ih := effective_le c rest (step c s ch)
    simp only [effective, exec]
    unfold step at ih ⊢
    cases hs : stepOpt c s ch with
    | none => simp [hs] at ih ⊢; exact ih
    | some s' =>
      have := step_decreases c s s' ch hs
      simp [hs] at ih ⊢; omega

/-- After the disconnect request, as long as a handler goroutine is still alive one of the
handler actions is enabled (no deadlock among queueHandler / outHandler / inHandler /
stallHandler) — for the repaired stall handler. -/
theorem progress (c : Cfg) (hdb : c.drainBug = false) (hcd : 1 ≤ c.capDone) (hcs : 1 ≤ c.capStall)
    (s : Sys) (hc : CtlInv s) (hst : StallInv s)
    (hd : s.disc = true) (hf : final s = false) :
    ∃ ch ∈ [Choice.qQuit, .qStep, .oQuit, .oStep, .iExit, .sRecv, .sInQuit, .sOutQuit, .abandon,
      .aStep], (stepOpt c s ch).isSome := by
  have hb := hc.busy1
  cases hh : s.hs with
  | pre => exact ⟨.abandon, by simp, by simp [stepOpt, hh, hd]⟩
  | abandoned => exact ⟨.aStep, by simp, by simp [stepOpt, hh, hdb] <;> split <;> simp⟩
  | drained => simp [final, hh] at hf
  | started =>
  cases hq : s.qh with
  | main => exact ⟨.qQuit, by simp, by simp [stepOpt, hStep, hh, hq, hd]⟩
  | drain => exact ⟨.qStep, by simp, by simp [stepOpt, hStep, hh, hq] <;> split <;> simp⟩
  | cleanup => exact ⟨.qStep, by simp, by simp [stepOpt, hStep, hh, hq] <;> split <;> simp⟩
  | done =>
    cases ho : s.oh with
    | main => exact ⟨.oQuit, by simp, by simp [stepOpt, hStep, hh, ho, hd]⟩
    | holding m =>
      by_cases hfull : s.stallCh < c.capStall
      · exact ⟨.oStep, by simp, by simp [stepOpt, hStep, hh, ho, hfull]⟩
      · -- the buffer is full: the stall handler is still there (it leaves only after outHandler)
        cases hsh : s.sh with
        | done => have := (hst.gone hsh).1; simp [ho] at this
        | running si so =>
          refine ⟨.sRecv, by simp, ?_⟩
          have : 0 < s.stallCh := by omega
          simp [stepOpt, hStep, hh, hsh, this]
    | announced m => exact ⟨.oStep, by simp, by simp [stepOpt, hStep, hh, ho] <;> split <;> (try split) <;> simp⟩
    | wrote m ok => exact ⟨.oStep, by simp, by simp [stepOpt, hStep, hh, ho]⟩
    | owesDone =>
      have : s.sendDone = 0 := by simp [busy, OPhase.busy, ho] at hb; omega
      have hlt : s.sendDone < c.capDone := by omega
      exact ⟨.oStep, by simp, by simp [stepOpt, hStep, hh, ho, hlt]⟩
    | waitQ => exact ⟨.oStep, by simp, by simp [stepOpt, hStep, hh, ho, hq]⟩
    | cleanup => exact ⟨.oStep, by simp, by simp [stepOpt, hStep, hh, ho] <;> split <;> simp⟩
    | done =>
      cases hin : s.inDone with
      | false => exact ⟨.iExit, by simp, by simp [stepOpt, hStep, hh, hd, hin]⟩
      | true =>
        cases hsh : s.sh with
        | done => simp [final, hh, hq, ho, hin, hsh] at hf
        | running si so =>
          cases si with
          | false => exact ⟨.sInQuit, by simp, by simp [stepOpt, hStep, hh, hsh, hin] <;> split <;> simp⟩
          | true =>
            cases so with
            | false => exact ⟨.sOutQuit, by simp, by simp [stepOpt, hStep, hh, hsh, ho]⟩
            | true =>
              -- both observed cannot persist: the second observation leaves
              exact absurd ⟨rfl, rfl⟩ (hst.seen true true hsh).2.2

end BV.C18.Pipe
