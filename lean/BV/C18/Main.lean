import BV.Common.Loop
import BV.C18.Driver
/-! `drv_c18`: one case per input line `C18 <op> <args…>`, one canonical result line back.
Imports only core-only modules so that it links as a native executable. -/
def main : IO Unit := BV.Loop.run "C18" BV.C18.Driver.handle
