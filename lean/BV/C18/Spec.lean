/-
C18 Spec: the property's clauses as predicates over event traces (handshake) — stated
directly, independent of how the automaton is organised. Core-only.
-/
import BV.C18.Model
namespace BV.C18.Spec
open BV.C18

/-- Listener callbacks that are part of the handshake itself. Everything else is an
application-level delivery. -/
def isHandshakeKind : Kind → Bool
  | .version | .verack | .sendaddrv2 => true
  | _ => false

/-- The version the remote sent is acceptable for configuration `c`. -/
def acceptableVersion (c : Cfg) (v : Nat) (self : Bool) : Prop :=
  MinAcceptableProtocolVersion ≤ v ∧ (self = true → c.allowSelf = true)

/-- A valid version/verack exchange has happened within the trace `es`: the remote's
acceptable version was read and delivered to `OnVersion` (which did not veto it), our version
and verack were written, and the remote's verack was read and delivered. -/
def HandshakeDone (c : Cfg) (es : List Ev) : Prop :=
  c.rejectVersion = false ∧
  (∃ v self, Ev.rd (.version v self) ∈ es ∧ acceptableVersion c v self) ∧
  Ev.cb .version ∈ es ∧ Ev.wr (.version c.ours) ∈ es ∧ Ev.wr .verack ∈ es ∧
  Ev.rd (.other .verack) ∈ es ∧ Ev.cb .verack ∈ es

/-- No application callback before the handshake: every callback in the trace that is not one
of the three handshake callbacks is preceded by a complete exchange. -/
def NoDeliveryBeforeHandshake (c : Cfg) (es : List Ev) : Prop :=
  ∀ pre k post, es = pre ++ Ev.cb k :: post → isHandshakeKind k = false → HandshakeDone c pre

/-- The trace delivers nothing at all to listeners. -/
def NoCallbacks (es : List Ev) : Prop := ∀ k, Ev.cb k ∉ es

/-- The trace delivers no application callback. -/
def NoAppCallbacks (es : List Ev) : Prop := ∀ k, Ev.cb k ∈ es → isHandshakeKind k = true

end BV.C18.Spec
