/-
C18 model, part 2: the send pipeline of `peer.Peer` as interleaved processes
(`QueueMessageWithEncoding` callers, `queueHandler`, `outHandler`, `Disconnect`, connection loss),
channels as bounded FIFOs, `quit` as a broadcast flag. Core-only.

Message identities are natural numbers; every message carries a done channel. One scheduler
choice = one atomic action of one process (`stepOpt`, `none` when the action is not enabled —
a blocked channel operation or a guard that does not hold). `step` stutters on disabled choices,
`exec` folds a schedule.

Faithfulness notes (what the Go code does, and how it is modelled):
* `QueueMessageWithEncoding`: `if !p.Connected() { go func(){ doneChan <- … }(); return }` then the
  blocking send `p.outputQueue <- msg`. Two actions: `check m` (reads the disconnect flag; when set,
  the done signal is produced at once) and `send m` (enabled when the buffer has room).
* `Disconnect`: the atomic flag (`disconnect`), `conn.Close()`, `close(p.quit)`. Modelled as one
  action setting `disc`: every behaviour in the window between the flag and the channel close is
  also a behaviour after the close, because a `select` with `quit` ready may still pick any other
  ready case.
* `queueHandler`: main `select` (outputQueue / sendDoneQueue / quit — three separate choices),
  then the `pendingMsgs` drain loop, then the `cleanup` loop draining `outputQueue` until empty.
* `outHandler`: receive from `sendQueue`; `writeMessage` (skipped without error when the flag is
  set; on a write error: `Disconnect()`, done signal, *no* sendDone); done signal; sendDone;
  on `quit`: wait for `queueQuit`, drain `sendQueue`, finish.
* `stallHandler`: receives from `stallControl` (capacity 1) until it has observed `inQuit` and
  `outQuit`; `outHandler` announces every message on `stallControl` before writing it. `inHandler`
  is reduced to its exit (it returns once the disconnect made its read fail, closing `inQuit`); its
  own `stallControl` sends happen before that exit, while the stall handler is necessarily alive.
* Timers (trickle, ping, stall ticks) and the inventory path are outside this part of the model.
-/
namespace BV.C18.Pipe

inductive QPhase | main | drain | cleanup | done
  deriving DecidableEq, Repr, Inhabited

inductive OPhase
  | main
  | holding (m : Nat)              -- received from sendQueue, before `stallControl <-`
  | announced (m : Nat)            -- stall handler told, before writeMessage
  | wrote (m : Nat) (ok : Bool)    -- after writeMessage, before the done signal
  | owesDone                       -- after the done signal, before `sendDoneQueue <-`
  | waitQ                          -- saw quit, waiting for queueQuit
  | cleanup
  | done
  deriving DecidableEq, Repr, Inhabited

/-- `stallHandler`: which of the two quit channels it has observed so far. -/
inductive SPhase
  | running (seenIn seenOut : Bool)
  | done
  deriving DecidableEq, Repr, Inhabited

/-- Life cycle of the handler goroutines: `start()` launches them after a successful negotiation;
if the peer is disconnected first (failed negotiation, timeout, `Disconnect` during negotiation)
they are never launched and `AssociateConnection`'s goroutine drains the output queue instead. -/
inductive HPhase | pre | started | abandoned | drained
  deriving DecidableEq, Repr, Inhabited

structure Cfg where
  /-- capacity of `outputQueue` -/
  cap : Nat
  /-- capacities of `sendQueue`, `sendDoneQueue`, `stallControl` (internal tuning of the
  implementation; the theorems hold for every value ≥ 1) -/
  capSend : Nat
  capDone : Nat
  capStall : Nat
  /-- `true` = before the repair of F-C18-b: nothing drains `outputQueue` when the handlers are
  never started. -/
  drainBug : Bool
  /-- `true` = the stall handler as found in the tree before the repair of F-C18-a: the closed
  `inQuit` (resp. `outQuit`) channel stays selectable after it was observed. `false` = repaired
  (each quit channel is observed once). -/
  stallBug : Bool
  /-- program order of the callers: `pred m = some p` when the same goroutine queues `p` right
  before `m` -/
  pred : Nat → Option Nat

structure Sys where
  todo : List Nat          -- QueueMessage calls not yet started
  checked : List Nat       -- calls that passed the Connected() check, before the channel send
  outQ : List Nat          -- outputQueue contents
  disc : Bool              -- disconnect flag set / quit closed
  connLost : Bool          -- writes to the connection fail
  hs : HPhase
  qh : QPhase
  waiting : Bool
  pending : List Nat       -- pendingMsgs
  sendQ : List Nat         -- sendQueue contents (capacity 1)
  sendDone : Nat           -- sendDoneQueue contents (capacity 1)
  oh : OPhase
  stallCh : Nat            -- stallControl contents (capacity 1)
  sh : SPhase              -- stallHandler
  inDone : Bool            -- inHandler returned (inQuit closed)
  written : List Nat       -- messages put on the wire, in order
  done : List Nat          -- done signals delivered, in order
  sent : List Nat          -- ghost: order of sends into outputQueue
  sentBefore : List Nat    -- ghost: those sent while the disconnect flag was clear
  deriving DecidableEq, Repr, Inhabited

def init (ids : List Nat) : Sys :=
  { todo := ids, checked := [], outQ := [], disc := false, connLost := false, hs := .pre, qh := .main,
    waiting := false, pending := [], sendQ := [], sendDone := 0, oh := .main, stallCh := 0,
    sh := .running false false, inDone := false, written := [],
    done := [], sent := [], sentBefore := [] }

inductive Choice
  | check (m : Nat)     -- a caller evaluates `!p.Connected()`
  | send (m : Nat)      -- a caller completes `p.outputQueue <- msg`
  | disconnect          -- first effective `Disconnect()`
  | loseConn            -- the connection breaks
  | qRecvOut | qRecvDone | qQuit | qStep
  | oRecv | oQuit | oStep
  | iExit               -- inHandler returns (its read failed after the disconnect): closes inQuit
  | sRecv | sInQuit | sOutQuit   -- stallHandler's select cases
  | start               -- `start()` launches the handler goroutines
  | abandon             -- `start()` returns an error: the handlers will never run
  | aStep               -- one iteration of the drain loop that replaces them
  deriving DecidableEq, Repr, Inhabited

/-- Actions of the handler goroutines (only once they have been started). -/
def hStep (c : Cfg) (s : Sys) : Choice → Option Sys
  | .qRecvOut =>
    match s.qh, s.outQ with
    | .main, m :: rest =>
      if s.waiting then some { s with outQ := rest, pending := s.pending ++ [m] }
      else if s.sendQ.length < c.capSend then
        some { s with outQ := rest, sendQ := s.sendQ ++ [m], waiting := true }
      else none
    | _, _ => none
  | .qRecvDone =>
    -- (at most one completion is ever outstanding, for any capacity: invariant `busy ≤ 1`)
    if s.qh = .main ∧ s.sendDone = 1 then
      match s.pending with
      | [] => some { s with sendDone := 0, waiting := false }
      | m :: rest =>
        if s.sendQ.length < c.capSend then
          some { s with sendDone := 0, pending := rest, sendQ := s.sendQ ++ [m] }
        else none
    else none
  | .qQuit => if s.qh = .main ∧ s.disc then some { s with qh := .drain } else none
  | .qStep =>
    match s.qh with
    | .drain =>
      match s.pending with
      | m :: rest => some { s with pending := rest, done := s.done ++ [m] }
      | [] => some { s with qh := .cleanup }
    | .cleanup =>
      match s.outQ with
      | m :: rest => some { s with outQ := rest, done := s.done ++ [m] }
      | [] => some { s with qh := .done }
    | _ => none
  | .oRecv =>
    match s.oh, s.sendQ with
    | .main, m :: rest => some { s with sendQ := rest, oh := .holding m }
    | _, _ => none
  | .oQuit => if s.oh = .main ∧ s.disc then some { s with oh := .waitQ } else none
  | .oStep =>
    match s.oh with
    | .holding m =>   -- `p.stallControl <- …` (blocks while the buffer is full)
      if s.stallCh < c.capStall then some { s with oh := .announced m, stallCh := s.stallCh + 1 } else none
    | .announced m =>
      if s.disc then some { s with oh := .wrote m true }                      -- write skipped
      else if s.connLost then some { s with oh := .wrote m false, disc := true } -- error: Disconnect
      else some { s with oh := .wrote m true, written := s.written ++ [m] }
    | .wrote m ok =>
      some { s with done := s.done ++ [m], oh := if ok then .owesDone else .main }
    | .owesDone => if s.sendDone < c.capDone then some { s with sendDone := s.sendDone + 1, oh := .main } else none
    | .waitQ => if s.qh = .done then some { s with oh := .cleanup } else none
    | .cleanup =>
      match s.sendQ with
      | m :: rest => some { s with sendQ := rest, done := s.done ++ [m] }
      | [] => some { s with oh := .done }
    | _ => none
  | .iExit => if s.disc ∧ s.inDone = false then some { s with inDone := true } else none
  | .sRecv =>
    match s.sh with
    | .running _ _ => if 0 < s.stallCh then some { s with stallCh := s.stallCh - 1 } else none
    | .done => none
  | .sInQuit =>
    match s.sh with
    | .running si so =>
      if s.inDone ∧ (c.stallBug ∨ si = false) then
        -- `if ioStopped { break out }; ioStopped = true`, then the exit drains stallControl
        if si ∨ so then some { s with sh := .done, stallCh := 0 }
        else some { s with sh := .running true so }
      else none
    | .done => none
  | .sOutQuit =>
    match s.sh with
    | .running si so =>
      if s.oh = .done ∧ (c.stallBug ∨ so = false) then
        if si ∨ so then some { s with sh := .done, stallCh := 0 }
        else some { s with sh := .running si true }
      else none
    | .done => none
  | _ => none

def stepOpt (c : Cfg) (s : Sys) : Choice → Option Sys
  | .check m =>
    if m ∈ s.todo ∧ (∀ p, c.pred m = some p → p ∉ s.todo ∧ p ∉ s.checked) then
      if s.disc then some { s with todo := s.todo.erase m, done := s.done ++ [m] }
      else some { s with todo := s.todo.erase m, checked := s.checked ++ [m] }
    else none
  | .send m =>
    if m ∈ s.checked ∧ s.outQ.length < c.cap then
      some { s with checked := s.checked.erase m, outQ := s.outQ ++ [m], sent := s.sent ++ [m],
                    sentBefore := if s.disc then s.sentBefore else s.sentBefore ++ [m] }
    else none
  | .disconnect => if s.disc then none else some { s with disc := true }
  | .loseConn => if s.connLost then none else some { s with connLost := true }
  | .start => if s.hs = .pre then some { s with hs := .started } else none
  | .abandon => if s.hs = .pre ∧ s.disc then some { s with hs := .abandoned } else none
  | .aStep =>
    if s.hs = .abandoned ∧ c.drainBug = false then
      match s.outQ with
      | m :: rest => some { s with outQ := rest, done := s.done ++ [m] }
      | [] => some { s with hs := .drained }
    else none
  | ch => if s.hs = .started then hStep c s ch else none

def step (c : Cfg) (s : Sys) (ch : Choice) : Sys := (stepOpt c s ch).getD s

def exec (c : Cfg) : Sys → List Choice → Sys
  | s, [] => s
  | s, ch :: rest => exec c (step c s ch) rest

/-- All handler goroutines (queue, out, in, stall) have returned — or they were never started and
the replacement drain loop has finished. -/
def final (s : Sys) : Bool :=
  (s.hs = .started ∧ s.qh = .done ∧ s.oh = .done ∧ s.sh = .done ∧ s.inDone = true) ∨ s.hs = .drained

/-- Message the out handler holds whose done signal is still to come. -/
def OPhase.held : OPhase → List Nat
  | .holding m => [m]
  | .announced m => [m]
  | .wrote m _ => [m]
  | _ => []

/-- Message received by the out handler but not yet passed to `writeMessage`. -/
def OPhase.unwritten : OPhase → List Nat
  | .holding m => [m]
  | .announced m => [m]
  | _ => []

end BV.C18.Pipe
