/-
C18 model, part 1: the per-connection protocol automaton of `peer.Peer`
(`negotiateInboundProtocol` / `negotiateOutboundProtocol`, `readRemoteVersionMsg`,
`waitToFinishNegotiation`, `inHandler`), as a total function over the list of wire
messages the remote sends. Core-only.

Inputs are *tokens*: what the remote put on the wire (well-formed messages of a given kind,
or one of the malformed framings). `classify pver tok` mirrors `wire.ReadMessageWithEncodingN`
for that token at the protocol version the peer reads with (`p.ProtocolVersion()`).
Outputs are *events*: `rd` (what `OnRead` saw), `cb` (listener callback delivered),
`wr` (message the peer put on the wire).
-/
namespace BV.C18

/-! ### protocol constants (pinned against btcd by `Props.pin_*`) -/
def MaxProtocolVersion : Nat := 70016
def MinAcceptableProtocolVersion : Nat := 209
def BIP0031Version : Nat := 60000
def BIP0035Version : Nat := 60002
def BIP0037Version : Nat := 70001
def RejectVersion : Nat := 70002
def SendHeadersVersion : Nat := 70012
def FeeFilterVersion : Nat := 70013
def AddrV2Version : Nat := 70016

def rejectMalformed : Nat := 0x01
def rejectInvalid : Nat := 0x10
def rejectObsolete : Nat := 0x11
def rejectDuplicate : Nat := 0x12

/-- Message kinds used by the scripts (a subset of `wire`'s commands). -/
inductive Kind
  | version | verack | sendaddrv2 | ping | pong | getaddr | addr | mempool | sendheaders
  | feefilter | inv | headers | getheaders | getblocks | getdata | notfound | reject
  | filterclear | cfcheckpt
  deriving DecidableEq, Repr, Inhabited

/-- What the remote puts on the wire. -/
inductive Tok
  /-- well-formed `version` advertising `pver` (as uint32); `self` = its nonce is in `sentNonces` -/
  | version (pver : Nat) (self : Bool)
  /-- well-formed message of kind `k` (`k ≠ version`, `k ≠ ping`), empty lists where applicable -/
  | msg (k : Kind)
  /-- `ping` carrying an 8-byte nonce -/
  | ping (nonce : Nat)
  /-- `ping` with an empty payload -/
  | pingEmpty
  /-- `ping` with a 4-byte payload -/
  | pingShort
  /-- well-framed message with a command `wire` does not know -/
  | unknown
  /-- well-formed message carrying another network's magic -/
  | wrongMagic
  /-- payload checksum mismatch -/
  | badChecksum
  /-- command bytes that are not valid UTF-8 -/
  | badCommand
  /-- valid message followed by undeclared extra payload bytes (declared in the header) -/
  | extraBytes
  /-- header declaring a payload above `MaxProtocolMessageLength` -/
  | oversize
  /-- payload longer than the message type's `MaxPayloadLength` -/
  | overMpl
  /-- a partial header followed by end of stream -/
  | trunc
  /-- end of stream (remote closed its sending side) -/
  | eof
  deriving DecidableEq, Repr, Inhabited

/-- Result of one `readMessage`. -/
inductive Rd
  | version (pver : Nat) (self : Bool)
  | ping (nonce : Nat)
  | other (k : Kind)
  | unknown      -- wire.ErrUnknownMessage
  | merr         -- *wire.MessageError
  | eof          -- io.EOF
  | ueof         -- io.ErrUnexpectedEOF
  deriving DecidableEq, Repr, Inhabited

/-- Lowest protocol version at which `wire` decodes a well-formed message of this kind. -/
def Kind.minPver : Kind → Nat
  | .sendaddrv2 => AddrV2Version
  | .pong => BIP0031Version + 1
  | .mempool => BIP0035Version
  | .sendheaders => SendHeadersVersion
  | .feefilter => FeeFilterVersion
  | .reject => RejectVersion
  | .filterclear => BIP0037Version
  | _ => 0

/-- `wire.ReadMessageWithEncodingN` on one token at protocol version `pver`. -/
def classify (pver : Nat) : Tok → Rd
  | .version v s => .version v s
  | .msg k => if k.minPver ≤ pver then .other k else .merr
  | .ping n => if BIP0031Version < pver then .ping n else .merr
  | .pingEmpty => if BIP0031Version < pver then .eof else .ping 0
  | .pingShort => if BIP0031Version < pver then .ueof else .merr
  | .unknown => .unknown
  | .wrongMagic => .merr
  | .badChecksum => .merr
  | .badCommand => .merr
  | .extraBytes => .merr
  | .oversize => .merr
  | .overMpl => .merr
  | .trunc => .ueof
  | .eof => .eof

/-- Commands named in reject messages the peer itself produces. -/
inductive RCmd | version | verack | malformed
  deriving DecidableEq, Repr, Inhabited

/-- Messages the peer writes. -/
inductive W
  | version (adv : Nat)
  | verack
  | sendaddrv2
  | pong (nonce : Nat)
  | reject (cmd : RCmd) (code : Nat)
  deriving DecidableEq, Repr, Inhabited

inductive Ev
  | rd (r : Rd)
  | cb (k : Kind)
  | wr (w : W)
  deriving DecidableEq, Repr, Inhabited

structure Cfg where
  inbound : Bool
  /-- `cfg.ProtocolVersion` (after defaulting) -/
  ours : Nat
  allowSelf : Bool
  /-- regression-test network and remote on localhost: `isAllowedReadError` -/
  allowMalformed : Bool
  /-- the `OnVersion` listener returns a reject message -/
  rejectVersion : Bool
  deriving DecidableEq, Repr, Inhabited

inductive Phase | awaitVersion | awaitVerack | ready | closed
  deriving DecidableEq, Repr, Inhabited

structure St where
  phase : Phase
  /-- `p.protocolVersion` -/
  pver : Nat
  versionKnown : Bool
  verAck : Bool
  deriving DecidableEq, Repr, Inhabited

/-- A reject message reaches the wire only if it can be encoded at the current version. -/
def wrReject (pver : Nat) (cmd : RCmd) (code : Nat) : List Ev :=
  if RejectVersion ≤ pver then [.wr (.reject cmd code)] else []

def St.close (s : St) : St := { s with phase := .closed }

/-- What the peer does before reading anything. -/
def init (c : Cfg) : St × List Ev :=
  let s : St := ⟨.awaitVersion, c.ours, false, false⟩
  if c.inbound then (s, []) else (s, [.wr (.version c.ours)])

/-- Kinds for which `inHandler` invokes a listener (every listener is installed). -/
def Kind.hasListener : Kind → Bool
  | .cfcheckpt => false
  | _ => true

/-- `readRemoteVersionMsg` + the writes that follow it in `negotiate*Protocol`. -/
def stepAwaitVersion (c : Cfg) (s : St) (r : Rd) : St × List Ev :=
  match r with
  | .version v self =>
    if !c.allowSelf && self then (s.close, [])
    else
      let n := min s.pver v
      let s1 : St := { s with pver := n, versionKnown := true }
      if c.rejectVersion then
        (s1.close, [.cb .version] ++ wrReject n .version rejectInvalid)
      else if v < MinAcceptableProtocolVersion then
        (s1.close, [.cb .version] ++ wrReject n .version rejectObsolete)
      else
        let w1 : List Ev := if c.inbound then [.wr (.version c.ours)] else []
        let w2 : List Ev := if AddrV2Version ≤ n then [.wr .sendaddrv2] else []
        ({ s1 with phase := .awaitVerack }, [.cb .version] ++ w1 ++ w2 ++ [.wr .verack])
  | .ping _ | .other _ => (s.close, wrReject s.pver .version rejectMalformed)
  | .unknown | .merr | .eof | .ueof => (s.close, [])

/-- `waitToFinishNegotiation`. -/
def stepAwaitVerack (_c : Cfg) (s : St) (r : Rd) : St × List Ev :=
  match r with
  | .unknown => (s, [])
  | .other .sendaddrv2 =>
    if AddrV2Version ≤ s.pver then (s, [.cb .sendaddrv2]) else (s, [])
  | .other .verack => ({ s with phase := .ready, verAck := true }, [.cb .verack])
  | _ => (s.close, [])

/-- One iteration of the `inHandler` loop. -/
def stepReady (c : Cfg) (s : St) (r : Rd) : St × List Ev :=
  match r with
  | .unknown => (s, [])
  | .merr =>
    if c.allowMalformed then (s, [])
    else (s.close, wrReject s.pver .malformed rejectMalformed)
  | .ueof => (s.close, wrReject s.pver .malformed rejectMalformed)
  | .eof => (s.close, [])
  | .version _ _ => (s.close, wrReject s.pver .version rejectDuplicate)
  | .other .verack => (s.close, wrReject s.pver .verack rejectDuplicate)
  | .other .sendaddrv2 => (s.close, [])
  | .ping n =>
    (s, (if BIP0031Version < s.pver then [.wr (.pong n)] else []) ++ [.cb .ping])
  | .other k => (s, if k.hasListener then [.cb k] else [])

/-- The peer consumes one token (nothing is read once the peer has closed). -/
def step (c : Cfg) (s : St) (t : Tok) : St × List Ev :=
  match s.phase with
  | .closed => (s, [])
  | .awaitVersion =>
    let r := classify s.pver t
    let (s', e) := stepAwaitVersion c s r
    (s', .rd r :: e)
  | .awaitVerack =>
    let r := classify s.pver t
    let (s', e) := stepAwaitVerack c s r
    (s', .rd r :: e)
  | .ready =>
    let r := classify s.pver t
    let (s', e) := stepReady c s r
    (s', .rd r :: e)

/-- Fold of `step` over the remote's tokens, accumulating the events. -/
def runFrom (c : Cfg) : St → List Tok → St × List Ev
  | s, [] => (s, [])
  | s, t :: ts =>
    let (s1, e1) := step c s t
    let (s2, e2) := runFrom c s1 ts
    (s2, e1 ++ e2)

/-- Whole connection: initial writes, then the tokens, then end of stream. -/
def run (c : Cfg) (ts : List Tok) : St × List Ev :=
  let (s0, e0) := init c
  let (s, e) := runFrom c s0 (ts ++ [.eof])
  (s, e0 ++ e)


/-! ### BIP324 (v2) transport variants of the connection

The message-level automaton is the same; what differs is how the byte stream starts and ends.
* `runV2`: both sides speak v2. Messages arrive as decrypted packets; a transport-level end of
  stream is not reported through `readMessage`'s `OnRead`, so the run is the fold over the tokens
  without the final `eof` token (closing in any phase emits nothing).
* `runV2dgIn`: inbound peer configured for v2, remote speaks v1. `RespondV2Handshake` compares the
  first 16 bytes with magic ‖ "version": a well-formed first `version` message downgrades the
  connection to v1 and the run is the v1 run; anything else makes the peer answer with its
  ElligatorSwift key (`keyOnly`) and the handshake then dies; an empty stream yields nothing.
* outbound peer configured for v2, remote speaks v1: the peer sends its key, nothing else is
  observable, and `ShouldDowngradeToV1` is set exactly when the remote hung up without sending
  a byte (`v2dgOutDowngrade`); the caller then reconnects with v1 (an ordinary `run`). -/

def runV2 (c : Cfg) (ts : List Tok) : St × List Ev :=
  let (s0, e0) := init c
  let (s, e) := runFrom c s0 ts
  (s, e0 ++ e)

inductive V2dgIn
  | v1 (r : St × List Ev)   -- downgraded: ordinary v1 run
  | keyOnly                 -- peer answered with its v2 key; nothing delivered
  | nothing                 -- stream ended before a byte arrived

def runV2dgIn (c : Cfg) : List Tok → V2dgIn
  | [] => .nothing
  | .version v b :: ts => .v1 (run c (.version v b :: ts))
  | _ :: _ => .keyOnly

def v2dgOutDowngrade (ts : List Tok) : Bool := ts.isEmpty

/-! ### accessor values derived from the run (`WantsHeaders`, `WantsAddrV2`, `IsWitnessEnabled`,
and the `ProtocolVersion()` an `OnVerAck` listener sees) -/

/-- `sendHeadersPreferred` is set exactly when a `sendheaders` message is dispatched. -/
def wantsHeaders (es : List Ev) : Bool := es.any (fun e => decide (e = Ev.cb .sendheaders))

/-- `sendAddrV2` is set exactly when `waitToFinishNegotiation` accepts a `sendaddrv2`. -/
def wantsAddrV2 (es : List Ev) : Bool := es.any (fun e => decide (e = Ev.cb .sendaddrv2))

/-- Script convention: a version token whose pver is divisible by 3 advertises SFNodeWitness. -/
def advertisesWitness (v : Nat) : Bool := v % 3 == 0

/-- `witnessEnabled` is set together with `versionKnown` from the advertised services. -/
def witnessEnabled (s : St) (es : List Ev) : Bool :=
  s.versionKnown &&
    match es.find? (fun e => match e with | .rd (.version _ _) => true | _ => false) with
    | some (.rd (.version v _)) => advertisesWitness v
    | _ => false

/-- The negotiated version is final by the time `OnVerAck` runs. -/
def ackPver (s : St) : Option Nat := if s.verAck then some s.pver else none

end BV.C18
