/-
C18 model, part 5: the ordering obligation behind self-connection detection.

`Tok.version v self` abstracts "the nonce of the received version message is in `sentNonces` at
the moment `readRemoteVersionMsg` checks it". When a node connects to itself, the sender is an
outbound peer of the same process: its negotiation goroutine generates the nonce, REGISTERS it in
the process-wide cache (`localVersionMsg`: `sentNonces.Add`) and EMITS the version message
(`writeMessage`: first byte observable by the remote), while the inbound peer's goroutine reads and
checks concurrently. The flag is sound only if registration precedes emission in program order.
Ghost state: `registered`, `visible`; `checked = some b` records the flag the inbound side saw.
Core-only.
-/
namespace BV.C18.SelfConn

inductive OStep | register | emit
  deriving DecidableEq, Repr

structure St where
  prog : List OStep        -- what the outbound goroutine still has to do
  registered : Bool        -- nonce ∈ sentNonces
  visible : Bool           -- the version bytes can be observed by the remote
  checked : Option Bool    -- result of the inbound side's `sentNonces.Contains`, once made
  deriving DecidableEq, Repr

def init (prog : List OStep) : St := ⟨prog, false, false, none⟩

/-- the order in the code: `localVersionMsg` registers, then `writeMessage` emits -/
def codeOrder : List OStep := [.register, .emit]

inductive Choice | o | i
  deriving DecidableEq, Repr

def step (s : St) : Choice → St
  | .o =>
    match s.prog with
    | .register :: rest => { s with prog := rest, registered := true }
    | .emit :: rest => { s with prog := rest, visible := true }
    | [] => s
  | .i =>
    -- the inbound side can only check a version message it has received
    if s.visible ∧ s.checked = none then { s with checked := some s.registered } else s

def exec : St → List Choice → St
  | s, [] => s
  | s, c :: cs => exec (step s c) cs

/-- Invariant of the code order: nothing is visible before it is registered. -/
def Good (s : St) : Prop :=
  ((s.prog = [.register, .emit] ∧ s.visible = false) ∨
   (s.prog = [.emit] ∧ s.registered = true ∧ s.visible = false) ∨
   (s.prog = [] ∧ s.registered = true)) ∧
  (∀ b, s.checked = some b → b = true)

theorem good_step (s : St) (c : Choice) (h : Good s) : Good (step s c) := by
  obtain ⟨hp, hc⟩ := h
  cases c with
  | o =>
    rcases hp with ⟨h1, h2⟩ | ⟨h1, h2, h3⟩ | ⟨h1, h2⟩
    · refine ⟨Or.inr (Or.inl ?_), ?_⟩ <;> simp_all [step]
    · refine ⟨Or.inr (Or.inr ?_), ?_⟩ <;> simp_all [step]
    · refine ⟨Or.inr (Or.inr ?_), ?_⟩ <;> simp_all [step]
  | i =>
    unfold step
    by_cases hv : s.visible = true ∧ s.checked = none
    · simp only [hv, and_self, if_true]
      refine ⟨?_, ?_⟩
      · rcases hp with ⟨h1, h2⟩ | ⟨h1, h2, h3⟩ | ⟨h1, h2⟩
        · simp_all
        · simp_all
        · exact Or.inr (Or.inr ⟨h1, h2⟩)
      · intro b hb
        simp only [Option.some.injEq] at hb
        rcases hp with ⟨h1, h2⟩ | ⟨h1, h2, h3⟩ | ⟨h1, h2⟩
        · simp_all
        · simp_all
        · rw [← hb]; exact h2
    · simp only [hv, if_false]; exact ⟨hp, hc⟩

theorem good_exec : ∀ (cs : List Choice) (s : St), Good s → Good (exec s cs)
  | [], _, h => h
  | c :: cs, s, h => good_exec cs _ (good_step s c h)

theorem good_init : Good (init codeOrder) := by
  refine ⟨Or.inl ⟨rfl, rfl⟩, ?_⟩
  intro b hb; cases hb

end BV.C18.SelfConn
