/-
Allocation bounds for the codec algebra, proved once per combinator. Core-only.

`AllocB c A B`  : a successful decode allocates ≤ B bytes per consumed byte, a failing one ≤ A + B·|input|
`Consumes c m`  : every successful decode consumes at least `m` bytes
Both are classes with out-parameters so that the bound of a combinator term is computed by instance
resolution (`A`/`B` come out as closed arithmetic expressions).
-/
import BV.Common.CodecLemmas
namespace BV.Codec

/-- `Consumes` (Codec.lean) as a class with the amount as out-parameter -/
class ConsumesC {α : Type} (c : Codec α) (m : outParam Nat) : Prop where
  h : Consumes c m

/-- lawfulness + allocation law, bundled (lawfulness gives `|rest| ≤ |input|`) -/
class AllocB {α : Type} (c : Codec α) (A B : outParam Nat) : Prop where
  lawful : Lawful c
  law : AllocLaw c A B

theorem shrinks_of_lawful {α : Type} {c : Codec α} (h : Lawful c) : Shrinks c := by
  intro b a r hd
  have := (h.enc_dec b a r hd).1
  rw [this]; simp

theorem AllocLaw.weaken {α : Type} {c : Codec α} {A B A' B' : Nat} (h : AllocLaw c A B)
    (hA : A ≤ A') (hB : B ≤ B') : AllocLaw c A' B' where
  ok b a r hd := Nat.le_trans (h.ok b a r hd) (Nat.mul_le_mul_right _ hB)
  err b e hd := by
    have h1 := h.err b e hd
    have h2 : B * b.length ≤ B' * b.length := Nat.mul_le_mul_right _ hB
    omega

theorem AllocB.weaken {α : Type} {c : Codec α} {A B : Nat} (A' B' : Nat) (h : AllocB c A B)
    (hA : A ≤ A') (hB : B ≤ B') : AllocB c A' B' :=
  ⟨h.lawful, h.law.weaken hA hB⟩

/-- no allocation at all -/
theorem allocLaw_zero {α : Type} {c : Codec α} (h : ∀ b, c.alloc b = 0) : AllocLaw c 0 0 where
  ok b a r _ := by simp [h b]
  err b e _ := by simp [h b]

instance (n : Nat) : AllocB (bytesN n) 0 0 := ⟨inferInstance, allocLaw_zero (fun _ => rfl)⟩
instance (n : Nat) : AllocB (uintLE n) 0 0 := ⟨inferInstance, allocLaw_zero (fun _ => rfl)⟩
instance (n : Nat) : AllocB (uintBE n) 0 0 := ⟨inferInstance, allocLaw_zero (fun _ => rfl)⟩
instance : AllocB u8 0 0 := ⟨inferInstance, allocLaw_zero (fun _ => rfl)⟩
instance : AllocB u16le 0 0 := ⟨inferInstance, allocLaw_zero (fun _ => rfl)⟩
instance : AllocB u32le 0 0 := ⟨inferInstance, allocLaw_zero (fun _ => rfl)⟩
instance : AllocB u64le 0 0 := ⟨inferInstance, allocLaw_zero (fun _ => rfl)⟩
instance : AllocB u16be 0 0 := ⟨inferInstance, allocLaw_zero (fun _ => rfl)⟩
instance : AllocB varint 0 0 := ⟨inferInstance, allocLaw_zero (fun _ => rfl)⟩
instance {α : Type} (a : α) : AllocB (konst a) 0 0 := ⟨inferInstance, allocLaw_zero (fun _ => rfl)⟩
instance (m : Bytes) : AllocB (magic m) 0 0 := ⟨inferInstance, allocLaw_zero (fun _ => rfl)⟩

/-! ### consumption -/

theorem consumes_of_size {α : Type} {c : Codec α} (h : Lawful c) (m : Nat)
    (hs : ∀ a, c.wf a → m ≤ (c.enc a).length) : Consumes c m := by
  intro b a r hd
  obtain ⟨e, w⟩ := h.enc_dec b a r hd
  have := hs a w
  rw [e]; simp; omega

instance (n : Nat) : ConsumesC (bytesN n) n :=
  ⟨consumes_of_size inferInstance n (fun a w => by have : a.length = n := w; simp [bytesN, this])⟩
instance (n : Nat) : ConsumesC (uintLE n) n :=
  ⟨consumes_of_size inferInstance n (fun a _ => by simp [uintLE])⟩
instance (n : Nat) : ConsumesC (uintBE n) n :=
  ⟨consumes_of_size inferInstance n (fun a _ => by simp [uintBE])⟩
instance : ConsumesC u8 1 := ⟨(inferInstance : ConsumesC (uintLE 1) 1).h⟩
instance : ConsumesC u16le 2 := ⟨(inferInstance : ConsumesC (uintLE 2) 2).h⟩
instance : ConsumesC u32le 4 := ⟨(inferInstance : ConsumesC (uintLE 4) 4).h⟩
instance : ConsumesC u64le 8 := ⟨(inferInstance : ConsumesC (uintLE 8) 8).h⟩
instance : ConsumesC u16be 2 := ⟨(inferInstance : ConsumesC (uintBE 2) 2).h⟩

theorem varintEnc_pos (x : Nat) : 1 ≤ (varintEnc x).length := by
  rw [← varintSize_eq]; unfold varintSize
  split
  · omega
  · split
    · omega
    · split <;> omega

instance : ConsumesC varint 1 := ⟨consumes_of_size inferInstance 1 (fun a _ => varintEnc_pos a)⟩
instance {α : Type} (a : α) : ConsumesC (konst a) 0 := ⟨fun b x r hd => by
  simp only [konst] at hd; injection hd with hd; injection hd with _ h2; subst h2; simp⟩
instance (m : Bytes) : ConsumesC (magic m) m.length :=
  ⟨consumes_of_size inferInstance _ (fun a _ => by simp [magic])⟩

instance {α β : Type} (c1 : Codec α) (c2 : α → Codec β) (m1 m2 : Nat) [h1 : ConsumesC c1 m1]
    [h2 : ∀ a, ConsumesC (c2 a) m2] : ConsumesC (seqDep c1 c2) (m1 + m2) := ⟨by
  intro b p r hd
  simp only [seqDep] at hd
  split at hd
  · cases hd
  · rename_i a r1 hd1
    split at hd
    · cases hd
    · rename_i x r2 hd2
      injection hd with hd; injection hd with _ hr
      subst hr
      have := h1.h b a r1 hd1
      have := (h2 a).h r1 x r2 hd2
      omega⟩

instance {α β : Type} (c1 : Codec α) (c2 : Codec β) (m1 m2 : Nat) [h1 : ConsumesC c1 m1]
    [h2 : ConsumesC c2 m2] : ConsumesC (seq c1 c2) (m1 + m2) :=
  inferInstanceAs (ConsumesC (seqDep c1 (fun _ => c2)) (m1 + m2))

instance {α β : Type} (c : Codec α) (f : α → β) (g : β → α) (m : Nat) [h : ConsumesC c m] :
    ConsumesC (imap c f g) m := ⟨by
  intro b x r hd
  simp only [imap] at hd
  split at hd
  · cases hd
  · rename_i a r' hd'
    injection hd with hd; injection hd with _ hr
    subst hr
    exact h.h b a r' hd'⟩

instance {α : Type} (c : Codec α) (p : α → Bool) (e : DErr) (m : Nat) [h : ConsumesC c m] :
    ConsumesC (guard c p e) m := ⟨by
  intro b x r hd
  simp only [guard] at hd
  split at hd
  · cases hd
  · rename_i a r' hd'
    split at hd
    · injection hd with hd; injection hd with ha hr
      subst ha hr
      exact h.h b a r' hd'
    · cases hd⟩

instance {α : Type} (c : Codec α) (k : α → Nat) (m : Nat) [h : ConsumesC c m] :
    ConsumesC (charge c k) m := ⟨h.h⟩

instance {α : Type} (p : Prop) [Decidable p] (a b : Codec α) (m : Nat) [ha : ConsumesC a m]
    [hb : ConsumesC b m] : ConsumesC (if p then a else b) m := by split <;> assumption

theorem Consumes.mono {α : Type} {c : Codec α} {m m' : Nat} (h : Consumes c m) (hm : m' ≤ m) :
    Consumes c m' := fun b a r hd => by have := h b a r hd; omega

/-- a counted list / byte string consumes at least its count prefix -/
instance {α : Type} (max esz : Nat) (c : Codec α) [h : Lawful c] : ConsumesC (listOf max esz c) 1 :=
  ⟨consumes_of_size (listOf_lawful max esz h) 1 (fun l _ => by
    have := varintEnc_pos l.length
    simp only [listOf, imap, seqDep, charge, guard, varint, List.length_append]; omega)⟩
instance (max : Nat) : ConsumesC (varBytes max) 1 :=
  ⟨consumes_of_size (varBytes_lawful max) 1 (fun l _ => by
    have := varintEnc_pos l.length
    simp only [varBytes, imap, seqDep, charge, guard, varint, List.length_append]; omega)⟩
instance (max : Nat) : ConsumesC (varBytesPooled max) 1 :=
  ⟨consumes_of_size (varBytesPooled_lawful max) 1 (fun l _ => by
    have := varintEnc_pos l.length
    simp only [varBytesPooled, imap, seqDep, guard, varint, List.length_append]; omega)⟩

/-! ### allocation laws of the combinators -/

theorem seqDep_allocLaw {α β : Type} {c1 : Codec α} {c2 : α → Codec β} {A B : Nat}
    (l1 : Lawful c1) (l2 : ∀ a, Lawful (c2 a)) (h1 : AllocLaw c1 A B) (h2 : ∀ a, AllocLaw (c2 a) A B) :
    AllocLaw (seqDep c1 c2) A B where
  ok b p r hd := by
    simp only [seqDep] at hd ⊢
    split at hd
    · cases hd
    · rename_i a r1 hd1
      split at hd
      · cases hd
      · rename_i x r2 hd2
        injection hd with hd; injection hd with _ hr
        subst hr
        have s1 := shrinks_of_lawful l1 b a r1 hd1
        have s2 := shrinks_of_lawful (l2 a) r1 x r2 hd2
        have a1 := h1.ok b a r1 hd1
        have a2 := (h2 a).ok r1 x r2 hd2
        have e : B * (b.length - r1.length) + B * (r1.length - r2.length) = B * (b.length - r2.length) := by
          rw [← Nat.mul_add]; congr 1; omega
        omega
  err b e hd := by
    simp only [seqDep] at hd ⊢
    split at hd
    · rename_i e1 hd1
      have := h1.err b e1 hd1
      omega
    · rename_i a r1 hd1
      have s1 := shrinks_of_lawful l1 b a r1 hd1
      have a1 := h1.ok b a r1 hd1
      split at hd
      · rename_i e2 hd2
        have a2 := (h2 a).err r1 e2 hd2
        have e : B * (b.length - r1.length) + B * r1.length = B * b.length := by
          rw [← Nat.mul_add]; congr 1; omega
        omega
      · cases hd

instance {α β : Type} (c1 : Codec α) (c2 : α → Codec β) (A1 B1 A2 B2 : Nat) [h1 : AllocB c1 A1 B1]
    [h2 : ∀ a, AllocB (c2 a) A2 B2] : AllocB (seqDep c1 c2) (max A1 A2) (max B1 B2) :=
  ⟨seqDep_lawful h1.lawful (fun a => (h2 a).lawful),
   seqDep_allocLaw h1.lawful (fun a => (h2 a).lawful)
     (h1.law.weaken (Nat.le_max_left _ _) (Nat.le_max_left _ _))
     (fun a => (h2 a).law.weaken (Nat.le_max_right _ _) (Nat.le_max_right _ _))⟩

instance {α β : Type} (c1 : Codec α) (c2 : Codec β) (A1 B1 A2 B2 : Nat) [h1 : AllocB c1 A1 B1]
    [h2 : AllocB c2 A2 B2] : AllocB (seq c1 c2) (max A1 A2) (max B1 B2) :=
  inferInstanceAs (AllocB (seqDep c1 (fun _ => c2)) (max A1 A2) (max B1 B2))

theorem guard_allocLaw {α : Type} {c : Codec α} (p : α → Bool) (e : DErr) {A B : Nat}
    (l : Lawful c) (h : AllocLaw c A B) : AllocLaw (guard c p e) A B where
  ok b a r hd := by
    simp only [guard] at hd ⊢
    split at hd
    · cases hd
    · rename_i a' r' hd'
      split at hd
      · injection hd with hd; injection hd with ha hr
        subst ha hr
        exact h.ok b a' r' hd'
      · cases hd
  err b e' hd := by
    simp only [guard] at hd ⊢
    split at hd
    · rename_i e1 hd1
      exact h.err b e1 hd1
    · rename_i a' r' hd'
      have := h.ok b a' r' hd'
      have s := shrinks_of_lawful l b a' r' hd'
      have : B * (b.length - r'.length) ≤ B * b.length := Nat.mul_le_mul_left _ (by omega)
      omega

instance {α : Type} (c : Codec α) (p : α → Bool) (e : DErr) (A B : Nat) [h : AllocB c A B] :
    AllocB (guard c p e) A B := ⟨guard_lawful p e h.lawful, guard_allocLaw p e h.lawful h.law⟩

theorem imap_allocLaw {α β : Type} {c : Codec α} (f : α → β) (g : β → α) {A B : Nat}
    (h : AllocLaw c A B) : AllocLaw (imap c f g) A B where
  ok b x r hd := by
    simp only [imap] at hd ⊢
    split at hd
    · cases hd
    · rename_i a r' hd'
      injection hd with hd; injection hd with _ hr
      subst hr
      exact h.ok b a r' hd'
  err b e hd := by
    simp only [imap] at hd ⊢
    split at hd
    · rename_i e1 hd1
      exact h.err b e1 hd1
    · cases hd

/-- `imap` needs its inverse proof, so it is not an instance: use `AllocB.imap`. -/
theorem AllocB.imap {α β : Type} {c : Codec α} {A B : Nat} (h : AllocB c A B) (f : α → β) (g : β → α)
    (inv : ∀ a, c.wf a → g (f a) = a) : AllocB (imap c f g) A B :=
  ⟨imap_lawful h.lawful inv, imap_allocLaw f g h.law⟩

/-- a charge proportional to what the decode consumed -/
theorem charge_allocLaw {α : Type} {c : Codec α} (k : α → Nat) {A B : Nat} (E : Nat)
    (l : Lawful c) (h : AllocLaw c A B)
    (hk : ∀ b a r, c.dec b = .ok (a, r) → k a ≤ E * (b.length - r.length)) :
    AllocLaw (charge c k) A (B + E) where
  ok b a r hd := by
    have hd' : c.dec b = .ok (a, r) := hd
    simp only [charge, hd']
    have := h.ok b a r hd'
    have := hk b a r hd'
    rw [Nat.add_mul]; omega
  err b e hd := by
    have hd' : c.dec b = .error e := hd
    simp only [charge, hd']
    have := h.err b e hd'
    rw [Nat.add_mul]; omega

theorem alt_allocLaw {α : Type} (p : α → Bool) (disc : Bytes → Bool) {cT cF : Codec α} {A B : Nat}
    (hT : AllocLaw cT A B) (hF : AllocLaw cF A B) : AllocLaw (alt p disc cT cF) A B where
  ok b a r hd := by
    simp only [alt] at hd ⊢
    split
    · rename_i hdisc; simp only [hdisc, if_true] at hd; exact hT.ok b a r hd
    · rename_i hdisc; simp only [hdisc, if_false] at hd; exact hF.ok b a r hd
  err b e hd := by
    simp only [alt] at hd ⊢
    split
    · rename_i hdisc; simp only [hdisc, if_true] at hd; exact hT.err b e hd
    · rename_i hdisc; simp only [hdisc, if_false] at hd; exact hF.err b e hd

instance {α : Type} (p : Prop) [Decidable p] (a b : Codec α) (A1 B1 A2 B2 : Nat) [ha : AllocB a A1 B1]
    [hb : AllocB b A2 B2] : AllocB (if p then a else b) (max A1 A2) (max B1 B2) := by
  split
  · exact ha.weaken _ _ (Nat.le_max_left _ _) (Nat.le_max_left _ _)
  · exact hb.weaken _ _ (Nat.le_max_right _ _) (Nat.le_max_right _ _)

/-! ### lists -/

theorem decList_shrinks {α : Type} {c : Codec α} (l : Lawful c) (n : Nat) (b : Bytes) (xs : List α)
    (r : Bytes) (hd : decList c n b = .ok (xs, r)) : r.length ≤ b.length :=
  shrinks_of_lawful (listN_lawful n l) b xs r hd

theorem decList_consumes {α : Type} {c : Codec α} {m : Nat} (hc : Consumes c m) (n : Nat) (b : Bytes)
    (xs : List α) (r : Bytes) (hd : decList c n b = .ok (xs, r)) : r.length + n * m ≤ b.length := by
  induction n generalizing b xs with
  | zero =>
    simp only [decList] at hd
    injection hd with hd; injection hd with _ h2; subst h2; simp
  | succ n ih =>
    simp only [decList] at hd
    split at hd
    · cases hd
    · rename_i x r1 hd1
      split at hd
      · cases hd
      · rename_i ys r2 hd2
        injection hd with hd; injection hd with _ hr
        subst hr
        have := hc b x r1 hd1
        have := ih r1 ys hd2
        rw [Nat.succ_mul]; omega

theorem listN_allocLaw {α : Type} {c : Codec α} {A B : Nat} (l : Lawful c) (h : AllocLaw c A B) (n : Nat) :
    AllocLaw (listN n c) A B where
  ok b xs r hd := by
    simp only [listN] at hd ⊢
    induction n generalizing b xs with
    | zero => simp [allocList]
    | succ n ih =>
      simp only [decList] at hd
      split at hd
      · cases hd
      · rename_i x r1 hd1
        split at hd
        · cases hd
        · rename_i ys r2 hd2
          injection hd with hd; injection hd with _ hr
          subst hr
          simp only [allocList, hd1]
          have s1 := shrinks_of_lawful l b x r1 hd1
          have s2 := decList_shrinks l n r1 ys r2 hd2
          have a1 := h.ok b x r1 hd1
          have a2 := ih r1 ys hd2
          have e : B * (b.length - r1.length) + B * (r1.length - r2.length) = B * (b.length - r2.length) := by
            rw [← Nat.mul_add]; congr 1; omega
          omega
  err b e hd := by
    simp only [listN] at hd ⊢
    induction n generalizing b e with
    | zero => simp [decList] at hd
    | succ n ih =>
      simp only [decList] at hd
      split at hd
      · rename_i e1 hd1
        simp only [allocList, hd1]
        have := h.err b e1 hd1
        omega
      · rename_i x r1 hd1
        simp only [allocList, hd1]
        have s1 := shrinks_of_lawful l b x r1 hd1
        have a1 := h.ok b x r1 hd1
        split at hd
        · rename_i e2 hd2
          have a2 := ih r1 e2 hd2
          have e : B * (b.length - r1.length) + B * r1.length = B * b.length := by
            rw [← Nat.mul_add]; congr 1; omega
          omega
        · cases hd

instance {α : Type} (n : Nat) (c : Codec α) (A B : Nat) [h : AllocB c A B] : AllocB (listN n c) A B :=
  ⟨listN_lawful n h.lawful, listN_allocLaw h.lawful h.law n⟩

/-- count (≤ `Kmax / unit`), charged `k` at once, then a body that consumes enough to pay for the
charge at rate `E` — the shape of every "count, make, fill" decoder. -/
theorem charged_prefix_allocLaw {κ β : Type} {c1 : Codec κ} {c2 : κ → Codec β} (k : κ → Nat)
    {A B : Nat} (Kmax E : Nat) (l1 : Lawful c1) (l2 : ∀ a, Lawful (c2 a))
    (h1 : AllocLaw c1 0 0) (h2 : ∀ a, AllocLaw (c2 a) A B)
    (hmax : ∀ b a r, c1.dec b = .ok (a, r) → k a ≤ Kmax)
    (hcons : ∀ a b x r, (c2 a).dec b = .ok (x, r) → k a ≤ E * (b.length - r.length)) :
    AllocLaw (seqDep (charge c1 k) c2) (Kmax + A) (B + E) where
  ok b p r hd := by
    simp only [seqDep, charge] at hd ⊢
    split at hd
    · cases hd
    · rename_i a r1 hd1
      split at hd
      · cases hd
      · rename_i x r2 hd2
        injection hd with hd; injection hd with _ hr
        subst hr
        have s1 := shrinks_of_lawful l1 b a r1 hd1
        have s2 := shrinks_of_lawful (l2 a) r1 x r2 hd2
        have a1 := h1.ok b a r1 hd1
        have a2 := (h2 a).ok r1 x r2 hd2
        have a3 := hcons a r1 x r2 hd2
        have m1 : (B + E) * (r1.length - r2.length) ≤ (B + E) * (b.length - r2.length) :=
          Nat.mul_le_mul_left _ (by omega)
        rw [Nat.add_mul] at m1
        simp at a1
        omega
  err b e hd := by
    simp only [seqDep, charge] at hd ⊢
    split at hd
    · rename_i e1 hd1
      have := h1.err b e1 hd1
      simp at this
      omega
    · rename_i a r1 hd1
      have s1 := shrinks_of_lawful l1 b a r1 hd1
      have a1 := h1.ok b a r1 hd1
      have a0 := hmax b a r1 hd1
      simp at a1
      split at hd
      · rename_i e2 hd2
        have a2 := (h2 a).err r1 e2 hd2
        have m1 : B * r1.length ≤ (B + E) * b.length := by
          have : B * r1.length ≤ B * b.length := Nat.mul_le_mul_left _ s1
          rw [Nat.add_mul]; omega
        omega
      · cases hd

theorem guardedCount_dec_le {c : Codec Nat} (max : Nat) (e : DErr) (b : Bytes) (n : Nat) (r : Bytes)
    (hd : (guard c (fun n => decide (n ≤ max)) e).dec b = .ok (n, r)) : n ≤ max := by
  simp only [guard] at hd
  split at hd
  · cases hd
  · split at hd
    · rename_i hp
      injection hd with hd; injection hd with ha _
      subst ha
      simpa using hp
    · cases hd

/-- ceil(esz / m) bytes of slice per consumed byte pay for `n * esz` when every item consumes `m ≥ 1` -/
theorem listOf_allocLaw {α : Type} (max esz : Nat) {c : Codec α} {A B m : Nat} (l : Lawful c)
    (h : AllocLaw c A B) (hc : Consumes c m) (hm : 0 < m) :
    AllocLaw (listOf max esz c) (max * esz + A) (B + (esz + m - 1) / m) := by
  unfold listOf
  refine imap_allocLaw _ _ ?_
  refine charged_prefix_allocLaw (fun n => n * esz) (max * esz) ((esz + m - 1) / m)
    (guard_lawful _ _ varint_lawful) (fun n => listN_lawful n l)
    (guard_allocLaw _ _ varint_lawful (allocLaw_zero (fun _ => rfl)))
    (fun n => listN_allocLaw l h n) ?_ ?_
  · intro b n r hd
    exact Nat.mul_le_mul_right _ (guardedCount_dec_le max _ b n r hd)
  · intro n b xs r hd
    have hcons := decList_consumes hc n b xs r hd
    have hE : esz ≤ (esz + m - 1) / m * m := by
      have h1 := Nat.div_add_mod (esz + m - 1) m
      have h2 := Nat.mod_lt (esz + m - 1) hm
      rw [Nat.mul_comm ((esz + m - 1) / m) m]
      generalize (esz + m - 1) / m = q at *
      generalize (esz + m - 1) % m = rr at *
      omega
    have : n * m ≤ b.length - r.length := by omega
    calc n * esz ≤ n * ((esz + m - 1) / m * m) := Nat.mul_le_mul_left _ hE
      _ = (esz + m - 1) / m * (n * m) := by
        rw [Nat.mul_comm n, Nat.mul_assoc, Nat.mul_comm m n]
      _ ≤ (esz + m - 1) / m * (b.length - r.length) := Nat.mul_le_mul_left _ this

instance {α : Type} (max esz : Nat) (c : Codec α) (A B m : Nat) [h : AllocB c A B] [hc : ConsumesC c m]
    [hm : NeZero m] : AllocB (listOf max esz c) (max * esz + A) (B + (esz + m - 1) / m) :=
  ⟨listOf_lawful max esz h.lawful,
   listOf_allocLaw max esz h.lawful h.law hc.h (Nat.pos_of_ne_zero hm.out)⟩

theorem varBytes_allocLaw (max : Nat) : AllocLaw (varBytes max) max 1 := by
  unfold varBytes
  refine imap_allocLaw _ _ ?_
  have := charged_prefix_allocLaw (c1 := guard varint (fun n => decide (n ≤ max)) .tooBig)
    (c2 := fun n => bytesN n) (fun n => n) (A := 0) (B := 0) max 1
    (guard_lawful _ _ varint_lawful) (fun n => bytesN_lawful n)
    (guard_allocLaw _ _ varint_lawful (allocLaw_zero (fun _ => rfl)))
    (fun n => allocLaw_zero (fun _ => rfl)) ?_ ?_
  · simpa using this
  · intro b n r hd
    exact guardedCount_dec_le max _ b n r hd
  · intro n b x r hd
    have := (inferInstance : ConsumesC (bytesN n) n).h b x r hd
    omega

instance (max : Nat) : AllocB (varBytes max) max 1 := ⟨varBytes_lawful max, varBytes_allocLaw max⟩

instance (max : Nat) : AllocB (varBytesPooled max) 0 0 :=
  ⟨varBytesPooled_lawful max, by
    unfold varBytesPooled
    exact imap_allocLaw _ _ (seqDep_allocLaw (guard_lawful _ _ varint_lawful) (fun n => bytesN_lawful n)
      (guard_allocLaw _ _ varint_lawful (allocLaw_zero (fun _ => rfl)))
      (fun n => allocLaw_zero (fun _ => rfl)))⟩

/-- the headline form: whatever the input claims, at most `A + B·|input|` bytes are requested -/
theorem AllocB.bound {α : Type} {c : Codec α} {A B : Nat} (h : AllocB c A B) (b : Bytes) :
    c.alloc b ≤ A + B * b.length := by
  cases hd : c.dec b with
  | error e => exact h.law.err b e hd
  | ok p =>
    obtain ⟨a, r⟩ := p
    have := h.law.ok b a r hd
    have : B * (b.length - r.length) ≤ B * b.length := Nat.mul_le_mul_left _ (by omega)
    omega

end BV.Codec
