/-
Codec combinator algebra (DESIGN Appendix A.1). Core-only; proofs are in `CodecLemmas.lean`.

A `Codec α` bundles the encoder, the decoder (total; `Except DErr`, there is no panic outcome
because every decoder below is a total function), the arithmetic size function (mirror of the
`SerializeSize` family), the explicit domain `wf`, and `alloc`: the number of bytes the decoder
asks the allocator for while working on an input (successful or not), following the
count caps of the Go code (`make([]T, count)` is charged `count * sizeof T` at the moment the count
has been accepted).
-/
namespace BV.Codec

abbrev Bytes := List UInt8

inductive DErr | short | nonCanonical | tooBig | badValue | trailing
  deriving DecidableEq, Repr

structure Codec (α : Type) where
  enc   : α → Bytes
  dec   : Bytes → Except DErr (α × Bytes)
  size  : α → Nat
  wf    : α → Prop
  alloc : Bytes → Nat

/-- The three value laws. `enc_dec` is canonicity: whatever decodes is the encoding of the
decoded value (plus the untouched rest), and the decoded value lies in the domain. -/
structure Lawful {α : Type} (c : Codec α) : Prop where
  dec_enc : ∀ a r, c.wf a → c.dec (c.enc a ++ r) = .ok (a, r)
  enc_dec : ∀ b a r, c.dec b = .ok (a, r) → b = c.enc a ++ r ∧ c.wf a
  size_eq : ∀ a, c.wf a → c.size a = (c.enc a).length

/-- Allocation law: a successful decode allocates at most `B` bytes per consumed input byte;
a failing one at most `A` more than `B` per offered byte. -/
structure AllocLaw {α : Type} (c : Codec α) (A B : Nat) : Prop where
  ok  : ∀ b a r, c.dec b = .ok (a, r) → c.alloc b ≤ B * (b.length - r.length)
  err : ∀ b e, c.dec b = .error e → c.alloc b ≤ A + B * b.length

/-- decoders never lengthen the input (needed to bound list allocations) -/
def Shrinks {α : Type} (c : Codec α) : Prop :=
  ∀ b a r, c.dec b = .ok (a, r) → r.length ≤ b.length

/-- every successful decode consumes at least `m` bytes -/
def Consumes {α : Type} (c : Codec α) (m : Nat) : Prop :=
  ∀ b a r, c.dec b = .ok (a, r) → r.length + m ≤ b.length

/-! ### little and big endian naturals -/

def leBytes : Nat → Nat → Bytes
  | 0, _ => []
  | n+1, x => UInt8.ofNat (x % 256) :: leBytes n (x / 256)

def leNat : Bytes → Nat
  | [] => 0
  | b :: bs => b.toNat + 256 * leNat bs

def beBytes (n x : Nat) : Bytes := (leBytes n x).reverse
def beNat (bs : Bytes) : Nat := leNat bs.reverse

/-- `b.length < n` without walking the whole input -/
def lenLt : Bytes → Nat → Bool
  | _, 0 => false
  | [], _+1 => true
  | _ :: xs, n+1 => lenLt xs n

/-! ### primitives -/

/-- exactly `n` raw bytes (hashes, IPs, checksums, command field) -/
def bytesN (n : Nat) : Codec Bytes where
  enc a := a
  dec b := if lenLt b n then .error .short else .ok (b.take n, b.drop n)
  size _ := n
  wf a := a.length = n
  alloc _ := 0

/-- `n`-byte little-endian unsigned integer -/
def uintLE (n : Nat) : Codec Nat where
  enc x := leBytes n x
  dec b := if lenLt b n then .error .short else .ok (leNat (b.take n), b.drop n)
  size _ := n
  wf x := x < 256 ^ n
  alloc _ := 0

/-- `n`-byte big-endian unsigned integer -/
def uintBE (n : Nat) : Codec Nat where
  enc x := beBytes n x
  dec b := if lenLt b n then .error .short else .ok (beNat (b.take n), b.drop n)
  size _ := n
  wf x := x < 256 ^ n
  alloc _ := 0

def u8 := uintLE 1
def u16le := uintLE 2
def u32le := uintLE 4
def u64le := uintLE 8
def u16be := uintBE 2

/-- `WriteVarInt` -/
def varintEnc (x : Nat) : Bytes :=
  if x < 0xfd then [UInt8.ofNat x]
  else if x ≤ 0xffff then 0xfd :: leBytes 2 x
  else if x ≤ 0xffffffff then 0xfe :: leBytes 4 x
  else 0xff :: leBytes 8 x

/-- `VarIntSerializeSize` -/
def varintSize (x : Nat) : Nat :=
  if x < 0xfd then 1 else if x ≤ 0xffff then 3 else if x ≤ 0xffffffff then 5 else 9

/-- `ReadVarInt`: non-minimal encodings are rejected. -/
def varintDec : Bytes → Except DErr (Nat × Bytes)
  | [] => .error .short
  | d :: rest =>
    if d = 0xff then
      if lenLt rest 8 then .error .short else
      let v := leNat (rest.take 8)
      if v < 0x100000000 then .error .nonCanonical else .ok (v, rest.drop 8)
    else if d = 0xfe then
      if lenLt rest 4 then .error .short else
      let v := leNat (rest.take 4)
      if v < 0x10000 then .error .nonCanonical else .ok (v, rest.drop 4)
    else if d = 0xfd then
      if lenLt rest 2 then .error .short else
      let v := leNat (rest.take 2)
      if v < 0xfd then .error .nonCanonical else .ok (v, rest.drop 2)
    else .ok (d.toNat, rest)

def varint : Codec Nat where
  enc := varintEnc
  dec := varintDec
  size := varintSize
  wf x := x < 2 ^ 64
  alloc _ := 0

/-- the empty encoding of one fixed value (absent field at an old protocol version) -/
def konst {α : Type} (a : α) : Codec α where
  enc _ := []
  dec b := .ok (a, b)
  size _ := 0
  wf x := x = a
  alloc _ := 0

/-- fixed marker bytes (BIP144 `00 01`) -/
def magic (m : Bytes) : Codec Unit where
  enc _ := m
  dec b := if b.take m.length = m then .ok ((), b.drop m.length)
           else if lenLt b m.length then .error .short else .error .badValue
  size _ := m.length
  wf _ := True
  alloc _ := 0

/-! ### combinators -/

/-- dependent sequence: the second codec may depend on the first value (count, then items) -/
def seqDep {α β : Type} (c1 : Codec α) (c2 : α → Codec β) : Codec (α × β) where
  enc p := c1.enc p.1 ++ (c2 p.1).enc p.2
  dec b := match c1.dec b with
    | .error e => .error e
    | .ok (a, r) => match (c2 a).dec r with
      | .error e => .error e
      | .ok (x, r') => .ok ((a, x), r')
  size p := c1.size p.1 + (c2 p.1).size p.2
  wf p := c1.wf p.1 ∧ (c2 p.1).wf p.2
  alloc b := c1.alloc b + match c1.dec b with
    | .error _ => 0
    | .ok (a, r) => (c2 a).alloc r

def seq {α β : Type} (c1 : Codec α) (c2 : Codec β) : Codec (α × β) := seqDep c1 (fun _ => c2)

/-- change of representation: `f` after decoding, `g` before encoding -/
def imap {α β : Type} (c : Codec α) (f : α → β) (g : β → α) : Codec β where
  enc b := c.enc (g b)
  dec x := match c.dec x with
    | .error e => .error e
    | .ok (a, r) => .ok (f a, r)
  size b := c.size (g b)
  wf b := c.wf (g b) ∧ f (g b) = b
  alloc := c.alloc

/-- restrict the domain by a decidable predicate checked after decoding -/
def guard {α : Type} (c : Codec α) (p : α → Bool) (e : DErr := .badValue) : Codec α where
  enc := c.enc
  dec b := match c.dec b with
    | .error e => .error e
    | .ok (a, r) => if p a then .ok (a, r) else .error e
  size := c.size
  wf a := c.wf a ∧ p a = true
  alloc := c.alloc

/-- charge `k a` bytes of allocation when the decode of `c` succeeded with value `a`
(`make([]T, count)` right after an accepted count) -/
def charge {α : Type} (c : Codec α) (k : α → Nat) : Codec α where
  enc := c.enc
  dec := c.dec
  size := c.size
  wf := c.wf
  alloc b := c.alloc b + match c.dec b with
    | .error _ => 0
    | .ok (a, _) => k a

/-- two layouts told apart by looking at the input (`disc`) resp. at the value (`p`) -/
def alt {α : Type} (p : α → Bool) (disc : Bytes → Bool) (cT cF : Codec α) : Codec α where
  enc a := if p a then cT.enc a else cF.enc a
  dec b := if disc b then cT.dec b else cF.dec b
  size a := if p a then cT.size a else cF.size a
  wf a := if p a then cT.wf a else cF.wf a
  alloc b := if disc b then cT.alloc b else cF.alloc b

/-! exactly `n` items, no count prefix -/

def encList {α : Type} (c : Codec α) : List α → Bytes
  | [] => []
  | x :: xs => c.enc x ++ encList c xs

def sizeList {α : Type} (c : Codec α) : List α → Nat
  | [] => 0
  | x :: xs => c.size x + sizeList c xs

def decList {α : Type} (c : Codec α) : Nat → Bytes → Except DErr (List α × Bytes)
  | 0, b => .ok ([], b)
  | n+1, b => match c.dec b with
    | .error e => .error e
    | .ok (x, r) => match decList c n r with
      | .error e => .error e
      | .ok (xs, r') => .ok (x :: xs, r')

def allocList {α : Type} (c : Codec α) : Nat → Bytes → Nat
  | 0, _ => 0
  | n+1, b => c.alloc b + match c.dec b with
    | .error _ => 0
    | .ok (_, r) => allocList c n r

def listN {α : Type} (n : Nat) (c : Codec α) : Codec (List α) where
  enc := encList c
  dec := decList c n
  size := sizeList c
  wf l := l.length = n ∧ ∀ x ∈ l, c.wf x
  alloc := allocList c n

/-- varint count `≤ max` (else `tooBig`), then that many items; the slice of `esz`-byte elements is
allocated as soon as the count is accepted. -/
def listOf {α : Type} (max esz : Nat) (c : Codec α) : Codec (List α) :=
  imap (seqDep (charge (guard varint (fun n => n ≤ max) .tooBig) (fun n => n * esz))
          (fun n => listN n c))
    (fun p => p.2) (fun l => (l.length, l))

/-- `ReadVarBytes` with `maxAllowed` -/
def varBytes (max : Nat) : Codec Bytes :=
  imap (seqDep (charge (guard varint (fun n => n ≤ max) .tooBig) (fun n => n))
          (fun n => bytesN n))
    (fun p => p.2) (fun l => (l.length, l))

/-- like `varBytes`, but the bytes land in a pre-allocated pool (`readScriptBuf`): no allocation -/
def varBytesPooled (max : Nat) : Codec Bytes :=
  imap (seqDep (guard varint (fun n => n ≤ max) .tooBig) (fun n => bytesN n))
    (fun p => p.2) (fun l => (l.length, l))

/-- run a decoder on a whole buffer: trailing bytes are an error (`NewTxFromBytes`, message payloads) -/
def decodeAll {α : Type} (c : Codec α) (b : Bytes) : Except DErr α :=
  match c.dec b with
  | .error e => .error e
  | .ok (a, []) => .ok a
  | .ok (_, _ :: _) => .error .trailing

end BV.Codec
