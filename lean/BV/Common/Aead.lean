/-
The RFC 8439 AEAD construction (§2.8) over ABSTRACT primitives: a byte-addressed key stream
`stream key nonce offset len` and a one-time authenticator `mac otk msg`. Theorems about the
transport quantify over `Prims`; drivers instantiate it with ChaCha20 and Poly1305 (`chachaPoly`).
Core-only, executable.
-/
import BV.Common.Hex
import BV.Common.ChaCha20
import BV.Common.Poly1305
namespace BV.Aead
open BV.Hex

structure Prims where
  /-- `len` key-stream bytes from byte offset `off` (block 0 starts at offset 0) -/
  stream : (key nonce : List UInt8) → (off len : Nat) → List UInt8
  /-- one-time authenticator: 32-byte key, message ↦ tag -/
  mac : (otk msg : List UInt8) → List UInt8

/-- XOR `m` with a key stream; bytes beyond the end of the key stream are left alone (the key
stream is padded with zeros), so the result always has the length of `m`. -/
def xorBytes (m ks : List UInt8) : List UInt8 :=
  List.zipWith (· ^^^ ·) m (ks ++ List.replicate (m.length - ks.length) 0)

def pad16 (n : Nat) : List UInt8 := List.replicate ((16 - n % 16) % 16) 0

/-- the authenticated string: aad ‖ pad ‖ ct ‖ pad ‖ le64 |aad| ‖ le64 |ct| -/
def macData (aad ct : List UInt8) : List UInt8 :=
  aad ++ (pad16 aad.length ++ (ct ++ (pad16 ct.length ++ (natLE aad.length 8 ++ natLE ct.length 8))))

def tagLen : Nat := 16

/-- one-time key = first 32 bytes of block 0; encryption key stream starts at block 1 -/
def otk (P : Prims) (key nonce : List UInt8) : List UInt8 := P.stream key nonce 0 32

def encStream (P : Prims) (key nonce : List UInt8) (len : Nat) : List UInt8 := P.stream key nonce 64 len

def aeadSeal (P : Prims) (key nonce aad pt : List UInt8) : List UInt8 :=
  let ct := xorBytes pt (encStream P key nonce pt.length)
  ct ++ P.mac (otk P key nonce) (macData aad ct)

def aeadOpen? (P : Prims) (key nonce aad c : List UInt8) : Option (List UInt8) :=
  if c.length < tagLen then none else
  let ct := c.take (c.length - tagLen)
  let tag := c.drop (c.length - tagLen)
  if P.mac (otk P key nonce) (macData aad ct) = tag then
    some (xorBytes ct (encStream P key nonce ct.length))
  else none

/-- the concrete instance: ChaCha20 key stream, Poly1305 authenticator -/
def chachaPoly : Prims := ⟨BV.ChaCha20.stream, BV.Poly1305.mac⟩

end BV.Aead
