/-
Lawfulness of every combinator of `BV.Common.Codec`, proved once. Core-only.
-/
import BV.Common.Codec
namespace BV.Codec

deriving instance DecidableEq for Except

/-! ### endian helpers -/

@[simp] theorem length_leBytes (n x : Nat) : (leBytes n x).length = n := by
  induction n generalizing x with
  | zero => rfl
  | succ n ih => simp [leBytes, ih]

theorem leNat_leBytes (n x : Nat) (h : x < 256 ^ n) : leNat (leBytes n x) = x := by
  induction n generalizing x with
  | zero => simp at h; subst h; rfl
  | succ n ih =>
    have h' : x / 256 < 256 ^ n := by
      rw [Nat.pow_succ] at h
      exact Nat.div_lt_of_lt_mul (by rw [Nat.mul_comm]; exact h)
    simp only [leBytes, leNat, ih _ h']
    have : (UInt8.ofNat (x % 256)).toNat = x % 256 := by simp
    rw [this]; omega

theorem leBytes_leNat (bs : Bytes) : leBytes bs.length (leNat bs) = bs := by
  induction bs with
  | nil => rfl
  | cons b bs ih =>
    have hb := b.toNat_lt
    have h1 : (b.toNat + 256 * leNat bs) % 256 = b.toNat := by omega
    have h2 : (b.toNat + 256 * leNat bs) / 256 = leNat bs := by omega
    simp only [List.length_cons, leBytes, leNat, h1, h2, ih]
    simp

theorem leNat_lt (bs : Bytes) : leNat bs < 256 ^ bs.length := by
  induction bs with
  | nil => simp [leNat]
  | cons b bs ih =>
    have hb := b.toNat_lt
    simp only [leNat, List.length_cons, Nat.pow_succ]
    omega

@[simp] theorem length_beBytes (n x : Nat) : (beBytes n x).length = n := by
  simp [beBytes]

theorem beNat_beBytes (n x : Nat) (h : x < 256 ^ n) : beNat (beBytes n x) = x := by
  simp [beNat, beBytes, leNat_leBytes n x h]

theorem beBytes_beNat (bs : Bytes) : beBytes bs.length (beNat bs) = bs := by
  have := leBytes_leNat bs.reverse
  simp only [List.length_reverse] at this
  simp [beBytes, beNat, this]

theorem beNat_lt (bs : Bytes) : beNat bs < 256 ^ bs.length := by
  have := leNat_lt bs.reverse
  simpa [beNat] using this

/-! ### generic list facts -/

theorem take_drop_of_append {l r : Bytes} {n : Nat} (h : l.length = n) :
    (l ++ r).take n = l ∧ (l ++ r).drop n = r := by
  subst h; simp

theorem not_lt_length_append {l r : Bytes} {n : Nat} (h : l.length = n) : ¬ (l ++ r).length < n := by
  simp [h.symm]

@[simp] theorem lenLt_iff (b : Bytes) (n : Nat) : lenLt b n = true ↔ b.length < n := by
  induction b generalizing n with
  | nil => cases n <;> simp [lenLt]
  | cons x xs ih => cases n with
    | zero => simp [lenLt]
    | succ n => simp [lenLt, ih]

/-! ### primitives -/

theorem bytesN_lawful (n : Nat) : Lawful (bytesN n) where
  dec_enc a r h := by
    have h' : a.length = n := h
    simp only [bytesN, lenLt_iff, not_lt_length_append h', if_false, (take_drop_of_append (r := r) h').1,
      (take_drop_of_append (r := r) h').2]
  enc_dec b a r h := by
    simp only [bytesN, lenLt_iff] at h ⊢
    split at h
    · cases h
    · rename_i hl
      injection h with h; injection h with h1 h2
      subst h1 h2
      refine ⟨(List.take_append_drop n b).symm, ?_⟩
      simp [List.length_take]; omega
  size_eq a h := by simp only [bytesN]; exact h.symm

theorem uintLE_lawful (n : Nat) : Lawful (uintLE n) where
  dec_enc a r h := by
    have hl := length_leBytes n a
    simp only [uintLE, lenLt_iff, not_lt_length_append hl, if_false, (take_drop_of_append (r := r) hl).1,
      (take_drop_of_append (r := r) hl).2, leNat_leBytes n a h]
  enc_dec b a r h := by
    simp only [uintLE, lenLt_iff] at h ⊢
    split at h
    · cases h
    · rename_i hl
      injection h with h; injection h with h1 h2
      subst h1 h2
      have hlen : (b.take n).length = n := by simp [List.length_take]; omega
      have := leBytes_leNat (b.take n)
      rw [hlen] at this
      refine ⟨by rw [this, List.take_append_drop], ?_⟩
      have := leNat_lt (b.take n); rwa [hlen] at this
  size_eq a _ := by simp [uintLE]

theorem uintBE_lawful (n : Nat) : Lawful (uintBE n) where
  dec_enc a r h := by
    have hl := length_beBytes n a
    simp only [uintBE, lenLt_iff, not_lt_length_append hl, if_false, (take_drop_of_append (r := r) hl).1,
      (take_drop_of_append (r := r) hl).2, beNat_beBytes n a h]
  enc_dec b a r h := by
    simp only [uintBE, lenLt_iff] at h ⊢
    split at h
    · cases h
    · rename_i hl
      injection h with h; injection h with h1 h2
      subst h1 h2
      have hlen : (b.take n).length = n := by simp [List.length_take]; omega
      have := beBytes_beNat (b.take n)
      rw [hlen] at this
      refine ⟨by rw [this, List.take_append_drop], ?_⟩
      have := beNat_lt (b.take n); rwa [hlen] at this
  size_eq a _ := by simp [uintBE]

theorem konst_lawful {α : Type} (a : α) : Lawful (konst a) where
  dec_enc x r h := by cases (show x = a from h); simp [konst]
  enc_dec b x r h := by
    simp only [konst] at h ⊢
    injection h with h; injection h with h1 h2
    subst h1 h2; exact ⟨rfl, rfl⟩
  size_eq x _ := by simp [konst]

theorem magic_lawful (m : Bytes) : Lawful (magic m) where
  dec_enc a r _ := by simp [magic]
  enc_dec b a r h := by
    simp only [magic] at h ⊢
    split at h
    · rename_i ht
      injection h with h; injection h with h1 h2
      subst h2
      refine ⟨?_, trivial⟩
      have := List.take_append_drop m.length b
      rw [ht] at this; exact this.symm
    · split at h <;> cases h
  size_eq a _ := by simp [magic]

/-! ### varint -/

theorem varintSize_eq (x : Nat) : varintSize x = (varintEnc x).length := by
  unfold varintSize varintEnc
  split
  · rfl
  · split
    · simp
    · split <;> simp

theorem u8_toNat_ofNat_lt (x : Nat) (h : x < 256) : (UInt8.ofNat x).toNat = x := by
  simp; omega

theorem varint_dec_enc (x : Nat) (r : Bytes) (h : x < 2 ^ 64) :
    varintDec (varintEnc x ++ r) = .ok (x, r) := by
  unfold varintEnc
  by_cases h1 : x < 0xfd
  · simp only [h1, if_true, List.cons_append, List.nil_append, varintDec, lenLt_iff]
    have hx : (UInt8.ofNat x).toNat = x := u8_toNat_ofNat_lt x (by omega)
    have e1 : UInt8.ofNat x ≠ 0xff := by intro c; have := congrArg UInt8.toNat c; rw [hx] at this; simp at this; omega
    have e2 : UInt8.ofNat x ≠ 0xfe := by intro c; have := congrArg UInt8.toNat c; rw [hx] at this; simp at this; omega
    have e3 : UInt8.ofNat x ≠ 0xfd := by intro c; have := congrArg UInt8.toNat c; rw [hx] at this; simp at this; omega
    simp only [e1, e2, e3, if_false, hx]
  · by_cases h2 : x ≤ 0xffff
    · simp only [h1, h2, if_true, if_false, List.cons_append, varintDec, lenLt_iff]
      have hl := length_leBytes 2 x
      have hv := leNat_leBytes 2 x (by simp; omega)
      simp only [show (0xfd : UInt8) ≠ 0xff by decide, show (0xfd : UInt8) ≠ 0xfe by decide, if_false,
        not_lt_length_append hl, (take_drop_of_append (r := r) hl).1,
        (take_drop_of_append (r := r) hl).2, hv, h1]
    · by_cases h3 : x ≤ 0xffffffff
      · simp only [h1, h2, h3, if_true, if_false, List.cons_append, varintDec, lenLt_iff]
        have hl := length_leBytes 4 x
        have hv := leNat_leBytes 4 x (by simp; omega)
        have : ¬ x < 0x10000 := by omega
        simp only [show (0xfe : UInt8) ≠ 0xff by decide, if_false,
          not_lt_length_append hl, (take_drop_of_append (r := r) hl).1,
          (take_drop_of_append (r := r) hl).2, hv, this]
      · simp only [h1, h2, h3, if_false, List.cons_append, varintDec, lenLt_iff]
        have hl := length_leBytes 8 x
        have hv := leNat_leBytes 8 x (by simpa using h)
        have : ¬ x < 0x100000000 := by omega
        simp only [if_true, if_false, not_lt_length_append hl, (take_drop_of_append (r := r) hl).1,
          (take_drop_of_append (r := r) hl).2, hv, this]

theorem take_len {b : Bytes} {n : Nat} (h : ¬ b.length < n) : (b.take n).length = n := by
  simp [List.length_take]; omega

theorem varint_enc_dec (b : Bytes) (x : Nat) (r : Bytes) (h : varintDec b = .ok (x, r)) :
    b = varintEnc x ++ r ∧ x < 2 ^ 64 := by
  cases b with
  | nil => simp [varintDec] at h
  | cons d rest =>
    simp only [varintDec, lenLt_iff] at h
    split at h
    · rename_i hd
      split at h
      · cases h
      · rename_i hl
        split at h
        · cases h
        · rename_i hv
          injection h with h; injection h with h1 h2
          subst h1 h2 hd
          have hlen := take_len hl
          have hlt := leNat_lt (rest.take 8); rw [hlen] at hlt
          have hb := leBytes_leNat (rest.take 8); rw [hlen] at hb
          refine ⟨?_, by simpa using hlt⟩
          unfold varintEnc
          have a1 : ¬ leNat (rest.take 8) < 0xfd := by omega
          have a2 : ¬ leNat (rest.take 8) ≤ 0xffff := by omega
          have a3 : ¬ leNat (rest.take 8) ≤ 0xffffffff := by omega
          simp only [a1, a2, a3, if_false, hb, List.cons_append, List.take_append_drop]
    · split at h
      · rename_i hd
        split at h
        · cases h
        · rename_i hl
          split at h
          · cases h
          · rename_i hv
            injection h with h; injection h with h1 h2
            subst h1 h2 hd
            have hlen := take_len hl
            have hlt := leNat_lt (rest.take 4); rw [hlen] at hlt
            have hb := leBytes_leNat (rest.take 4); rw [hlen] at hb
            simp at hlt
            refine ⟨?_, by omega⟩
            unfold varintEnc
            have a1 : ¬ leNat (rest.take 4) < 0xfd := by omega
            have a2 : ¬ leNat (rest.take 4) ≤ 0xffff := by omega
            have a3 : leNat (rest.take 4) ≤ 0xffffffff := by omega
            simp only [a1, a2, a3, if_false, if_true, hb, List.cons_append, List.take_append_drop]
      · split at h
        · rename_i hd
          split at h
          · cases h
          · rename_i hl
            split at h
            · cases h
            · rename_i hv
              injection h with h; injection h with h1 h2
              subst h1 h2 hd
              have hlen := take_len hl
              have hlt := leNat_lt (rest.take 2); rw [hlen] at hlt
              have hb := leBytes_leNat (rest.take 2); rw [hlen] at hb
              simp at hlt
              refine ⟨?_, by omega⟩
              unfold varintEnc
              have a1 : ¬ leNat (rest.take 2) < 0xfd := by omega
              have a2 : leNat (rest.take 2) ≤ 0xffff := by omega
              simp only [a1, a2, if_false, if_true, hb, List.cons_append, List.take_append_drop]
        · rename_i h1 h2 h3
          injection h with h; injection h with ha hb
          subst ha hb
          have hd := d.toNat_lt
          have hlt : d.toNat < 0xfd := by
            have n1 : d.toNat ≠ 0xff := fun c => h1 (UInt8.toNat_inj.mp (by simpa using c))
            have n2 : d.toNat ≠ 0xfe := fun c => h2 (UInt8.toNat_inj.mp (by simpa using c))
            have n3 : d.toNat ≠ 0xfd := fun c => h3 (UInt8.toNat_inj.mp (by simpa using c))
            omega
          refine ⟨?_, by omega⟩
          unfold varintEnc
          simp [hlt]

theorem varint_lawful : Lawful varint where
  dec_enc a r h := varint_dec_enc a r h
  enc_dec b a r h := varint_enc_dec b a r h
  size_eq a _ := varintSize_eq a

/-! ### combinators -/

theorem seqDep_lawful {α β : Type} {c1 : Codec α} {c2 : α → Codec β}
    (h1 : Lawful c1) (h2 : ∀ a, Lawful (c2 a)) : Lawful (seqDep c1 c2) where
  dec_enc p r h := by
    obtain ⟨a, x⟩ := p
    obtain ⟨wa, wx⟩ := h
    simp only [seqDep, List.append_assoc, h1.dec_enc a _ wa, (h2 a).dec_enc x r wx]
  enc_dec b p r h := by
    obtain ⟨a, x⟩ := p
    simp only [seqDep] at h ⊢
    split at h
    · cases h
    · rename_i a' r1 hd1
      split at h
      · cases h
      · rename_i x' r2 hd2
        injection h with h; injection h with hp hr
        injection hp with ha hx
        subst ha hx hr
        obtain ⟨e1, w1⟩ := h1.enc_dec _ _ _ hd1
        obtain ⟨e2, w2⟩ := (h2 a').enc_dec _ _ _ hd2
        exact ⟨by rw [e1, e2, List.append_assoc], w1, w2⟩
  size_eq p h := by
    obtain ⟨a, x⟩ := p
    obtain ⟨wa, wx⟩ := h
    simp only [seqDep, List.length_append, h1.size_eq a wa, (h2 a).size_eq x wx]

theorem seq_lawful {α β : Type} {c1 : Codec α} {c2 : Codec β}
    (h1 : Lawful c1) (h2 : Lawful c2) : Lawful (seq c1 c2) :=
  seqDep_lawful h1 (fun _ => h2)

theorem imap_lawful {α β : Type} {c : Codec α} {f : α → β} {g : β → α}
    (h : Lawful c) (inv : ∀ a, c.wf a → g (f a) = a) : Lawful (imap c f g) where
  dec_enc b r hw := by
    obtain ⟨w, e⟩ := hw
    simp only [imap, h.dec_enc _ r w, e]
  enc_dec x b r hd := by
    simp only [imap] at hd ⊢
    split at hd
    · cases hd
    · rename_i a r' hd'
      injection hd with hd; injection hd with hb hr
      subst hb hr
      obtain ⟨e, w⟩ := h.enc_dec _ _ _ hd'
      rw [inv a w]
      exact ⟨e, w, rfl⟩
  size_eq b hw := by simp only [imap]; exact h.size_eq _ hw.1

theorem guard_lawful {α : Type} {c : Codec α} (p : α → Bool) (e : DErr) (h : Lawful c) :
    Lawful (guard c p e) where
  dec_enc a r hw := by
    obtain ⟨w, hp⟩ := hw
    simp only [guard, h.dec_enc a r w, hp, if_true]
  enc_dec b a r hd := by
    simp only [guard] at hd ⊢
    split at hd
    · cases hd
    · rename_i a' r' hd'
      split at hd
      · rename_i hp
        injection hd with hd; injection hd with ha hr
        subst ha hr
        obtain ⟨e1, w⟩ := h.enc_dec _ _ _ hd'
        exact ⟨e1, w, hp⟩
      · cases hd
  size_eq a hw := by simp only [guard]; exact h.size_eq a hw.1

theorem charge_lawful {α : Type} {c : Codec α} (k : α → Nat) (h : Lawful c) : Lawful (charge c k) where
  dec_enc := h.dec_enc
  enc_dec := h.enc_dec
  size_eq := h.size_eq

theorem alt_lawful {α : Type} {p : α → Bool} {disc : Bytes → Bool} {cT cF : Codec α}
    (hT : Lawful cT) (hF : Lawful cF)
    (pT : ∀ a, cT.wf a → p a = true) (pF : ∀ a, cF.wf a → p a = false)
    (dT : ∀ a r, cT.wf a → disc (cT.enc a ++ r) = true)
    (dF : ∀ a r, cF.wf a → disc (cF.enc a ++ r) = false) : Lawful (alt p disc cT cF) where
  dec_enc a r hw := by
    simp only [alt] at hw ⊢
    cases hp : p a with
    | true =>
      simp only [hp, if_true] at hw ⊢
      simp only [dT a r hw, if_true, hT.dec_enc a r hw]
    | false =>
      simp only [hp, if_false, Bool.false_eq_true] at hw ⊢
      simp only [dF a r hw, if_false, Bool.false_eq_true, hF.dec_enc a r hw]
  enc_dec b a r hd := by
    simp only [alt] at hd ⊢
    cases hdisc : disc b with
    | true =>
      simp only [hdisc, if_true] at hd
      obtain ⟨e, w⟩ := hT.enc_dec _ _ _ hd
      simp only [pT a w, if_true]; exact ⟨e, w⟩
    | false =>
      simp only [hdisc, if_false, Bool.false_eq_true] at hd
      obtain ⟨e, w⟩ := hF.enc_dec _ _ _ hd
      simp only [pF a w, if_false, Bool.false_eq_true]; exact ⟨e, w⟩
  size_eq a hw := by
    simp only [alt] at hw ⊢
    cases hp : p a with
    | true => simp only [hp, if_true] at hw ⊢; exact hT.size_eq a hw
    | false => simp only [hp, if_false, Bool.false_eq_true] at hw ⊢; exact hF.size_eq a hw

theorem listN_lawful {α : Type} (n : Nat) {c : Codec α} (h : Lawful c) : Lawful (listN n c) where
  dec_enc l r hw := by
    obtain ⟨hl, hall⟩ := hw
    simp only [listN]
    induction l generalizing n with
    | nil => simp at hl; subst hl; rfl
    | cons x xs ih =>
      simp at hl; subst hl
      have wx : c.wf x := hall x (by simp)
      have := ih xs.length rfl (fun y hy => hall y (by simp [hy]))
      simp only [encList, decList, List.append_assoc, h.dec_enc x _ wx, this]
  enc_dec b l r hd := by
    simp only [listN] at hd ⊢
    induction n generalizing b l with
    | zero =>
      simp only [decList] at hd
      injection hd with hd; injection hd with h1 h2
      subst h1 h2
      exact ⟨rfl, rfl, by simp⟩
    | succ n ih =>
      simp only [decList] at hd
      split at hd
      · cases hd
      · rename_i x r1 hd1
        split at hd
        · cases hd
        · rename_i xs r2 hd2
          injection hd with hd; injection hd with h1 h2
          subst h1 h2
          obtain ⟨e1, w1⟩ := h.enc_dec _ _ _ hd1
          obtain ⟨e2, l2, w2⟩ := ih _ _ hd2
          refine ⟨by rw [e1, e2]; simp [encList], by simp [l2], ?_⟩
          intro y hy
          simp at hy
          rcases hy with rfl | hy
          · exact w1
          · exact w2 y hy
  size_eq l hw := by
    have hall := hw.2
    clear hw
    simp only [listN]
    induction l with
    | nil => rfl
    | cons x xs ih =>
      simp only [sizeList, encList, List.length_append, h.size_eq x (hall x (by simp)),
        ih (fun y hy => hall y (by simp [hy]))]

theorem listN_wf_length {α : Type} {n : Nat} {c : Codec α} {l : List α} (h : (listN n c).wf l) :
    l.length = n := h.1

theorem countGuard_lawful (max : Nat) (k : Nat → Nat) :
    Lawful (charge (guard varint (fun n => n ≤ max) .tooBig) k) :=
  charge_lawful _ (guard_lawful _ _ varint_lawful)

theorem listOf_lawful {α : Type} (max esz : Nat) {c : Codec α} (h : Lawful c) :
    Lawful (listOf max esz c) := by
  unfold listOf
  refine imap_lawful (seqDep_lawful (countGuard_lawful max _) (fun n => listN_lawful n h)) ?_
  intro p hw
  obtain ⟨n, l⟩ := p
  have : l.length = n := hw.2.1
  simp [this]

theorem varBytes_lawful (max : Nat) : Lawful (varBytes max) := by
  unfold varBytes
  refine imap_lawful (seqDep_lawful (countGuard_lawful max _) (fun n => bytesN_lawful n)) ?_
  intro p hw
  obtain ⟨n, l⟩ := p
  have : l.length = n := hw.2
  simp [this]

theorem varBytesPooled_lawful (max : Nat) : Lawful (varBytesPooled max) := by
  unfold varBytesPooled
  refine imap_lawful (seqDep_lawful (guard_lawful _ _ varint_lawful) (fun n => bytesN_lawful n)) ?_
  intro p hw
  obtain ⟨n, l⟩ := p
  have : l.length = n := hw.2
  simp [this]

/-! ### readable domain characterisations -/

theorem listOf_wf_iff {α : Type} (max esz : Nat) (c : Codec α) (l : List α) (hmax : max < 2 ^ 64) :
    (listOf max esz c).wf l ↔ l.length ≤ max ∧ ∀ x ∈ l, c.wf x := by
  simp only [listOf, imap, seqDep, charge, guard, varint, listN, decide_eq_true_eq]
  constructor
  · rintro ⟨⟨⟨_, h2⟩, _, h4⟩, _⟩; exact ⟨h2, h4⟩
  · rintro ⟨h1, h2⟩; exact ⟨⟨⟨by omega, h1⟩, trivial, h2⟩, trivial⟩

theorem varBytes_wf_iff (max : Nat) (l : Bytes) (hmax : max < 2 ^ 64) :
    (varBytes max).wf l ↔ l.length ≤ max := by
  simp only [varBytes, imap, seqDep, charge, guard, varint, bytesN, decide_eq_true_eq]
  constructor
  · rintro ⟨⟨⟨_, h2⟩, _⟩, _⟩; exact h2
  · intro h1; exact ⟨⟨⟨by omega, h1⟩, trivial⟩, trivial⟩

/-! ### whole-buffer decoding -/

theorem decodeAll_enc {α : Type} {c : Codec α} (h : Lawful c) (a : α) (hw : c.wf a) :
    decodeAll c (c.enc a) = .ok a := by
  have := h.dec_enc a [] hw
  simp only [List.append_nil] at this
  simp [decodeAll, this]

theorem enc_of_decodeAll {α : Type} {c : Codec α} (h : Lawful c) (b : Bytes) (a : α)
    (hd : decodeAll c b = .ok a) : b = c.enc a ∧ c.wf a := by
  unfold decodeAll at hd
  split at hd
  · cases hd
  · rename_i a' hd'
    injection hd with hd; subst hd
    have := h.enc_dec _ _ _ hd'
    simpa using this
  · cases hd



/-! ### `Lawful` as a class: lawfulness of a combinator term is found by instance resolution -/

attribute [class] Lawful

instance (n : Nat) : Lawful (bytesN n) := bytesN_lawful n
instance (n : Nat) : Lawful (uintLE n) := uintLE_lawful n
instance (n : Nat) : Lawful (uintBE n) := uintBE_lawful n
instance : Lawful u8 := uintLE_lawful 1
instance : Lawful u16le := uintLE_lawful 2
instance : Lawful u32le := uintLE_lawful 4
instance : Lawful u64le := uintLE_lawful 8
instance : Lawful u16be := uintBE_lawful 2
instance : Lawful varint := varint_lawful
instance {α : Type} (a : α) : Lawful (konst a) := konst_lawful a
instance (m : Bytes) : Lawful (magic m) := magic_lawful m
instance {α β : Type} (c1 : Codec α) (c2 : α → Codec β) [h1 : Lawful c1] [h2 : ∀ a, Lawful (c2 a)] :
    Lawful (seqDep c1 c2) := seqDep_lawful h1 h2
instance {α β : Type} (c1 : Codec α) (c2 : Codec β) [h1 : Lawful c1] [h2 : Lawful c2] :
    Lawful (seq c1 c2) := seq_lawful h1 h2
instance {α : Type} (c : Codec α) (p : α → Bool) (e : DErr) [h : Lawful c] : Lawful (guard c p e) :=
  guard_lawful p e h
instance {α : Type} (c : Codec α) (k : α → Nat) [h : Lawful c] : Lawful (charge c k) :=
  charge_lawful k h
instance {α : Type} (n : Nat) (c : Codec α) [h : Lawful c] : Lawful (listN n c) := listN_lawful n h
instance {α : Type} (max esz : Nat) (c : Codec α) [h : Lawful c] : Lawful (listOf max esz c) :=
  listOf_lawful max esz h
instance (max : Nat) : Lawful (varBytes max) := varBytes_lawful max
instance (max : Nat) : Lawful (varBytesPooled max) := varBytesPooled_lawful max
instance {α : Type} (p : Prop) [Decidable p] (a b : Codec α) [ha : Lawful a] [hb : Lawful b] :
    Lawful (if p then a else b) := by split <;> assumption

/-- head byte of a varint is zero only for the value zero (BIP144 marker discrimination) -/
theorem varintEnc_head_zero (n : Nat) (r : Bytes) (h : n < 2 ^ 64) :
    ((varintEnc n ++ r).head? = some 0) ↔ n = 0 := by
  unfold varintEnc
  by_cases h1 : n < 0xfd
  · simp only [h1, if_true, List.cons_append, List.nil_append, List.head?_cons, Option.some.injEq]
    constructor
    · intro hh
      have := congrArg UInt8.toNat hh
      rw [u8_toNat_ofNat_lt n (by omega)] at this
      simpa using this
    · intro hh; subst hh; rfl
  · simp only [h1, if_false]
    have hn : n ≠ 0 := by omega
    split
    · simp [hn]
    · split <;> simp [hn]

end BV.Codec
