/-
Bitcoin HASH160 = RIPEMD-160 ∘ SHA-256, on top of BV/Common/Sha256.lean and
BV/Common/Ripemd160.lean. Core-only, executable.
-/
import BV.Common.Sha256
import BV.Common.Ripemd160

namespace BV.Hash160

def hash160 (msg : ByteArray) : ByteArray := BV.Ripemd160.hash (BV.Sha256.hash msg)

def hash160List (l : List UInt8) : List UInt8 := BV.Ripemd160.hashList (BV.Sha256.hashList l)

end BV.Hash160
