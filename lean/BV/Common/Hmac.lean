/-
HMAC-SHA256 (RFC 2104) and HKDF-SHA256 (RFC 5869) on top of BV/Common/Sha256.lean. Core-only,
executable. Validated against crypto/hmac + x/crypto/hkdf by the C19 correspondence runs.
-/
import BV.Common.Sha256
namespace BV.Hmac

def blockSize : Nat := 64

def xorPad (key : ByteArray) (b : UInt8) : ByteArray := Id.run do
  let mut out := ByteArray.emptyWithCapacity blockSize
  for i in [0:blockSize] do
    out := out.push ((if i < key.size then key.get! i else 0) ^^^ b)
  return out

def hmac (key msg : ByteArray) : ByteArray :=
  let k := if key.size > blockSize then BV.Sha256.hash key else key
  BV.Sha256.hash (xorPad k 0x5c ++ BV.Sha256.hash (xorPad k 0x36 ++ msg))

/-- HKDF-Extract(salt, ikm) -/
def extract (salt ikm : ByteArray) : ByteArray := hmac salt ikm

/-- HKDF-Expand(prk, info, len), len ≤ 255·32 -/
def expand (prk info : ByteArray) (len : Nat) : ByteArray := Id.run do
  let mut t := ByteArray.empty
  let mut out := ByteArray.empty
  for i in [0:(len + 31) / 32] do
    t := hmac prk ((t ++ info).push (UInt8.ofNat (i + 1)))
    out := out ++ t
  return out.extract 0 len

def hmacList (key msg : List UInt8) : List UInt8 := (hmac ⟨key.toArray⟩ ⟨msg.toArray⟩).toList
def extractList (salt ikm : List UInt8) : List UInt8 := (extract ⟨salt.toArray⟩ ⟨ikm.toArray⟩).toList
def expandList (prk info : List UInt8) (len : Nat) : List UInt8 := (expand ⟨prk.toArray⟩ ⟨info.toArray⟩ len).toList

end BV.Hmac
