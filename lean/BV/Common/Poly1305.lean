/-
Reference Poly1305 (RFC 8439 §2.5) over `Nat` arithmetic modulo 2^130 - 5. Core-only, executable.
Validated against golang.org/x/crypto/chacha20poly1305 by the C19 correspondence runs.
-/
import BV.Common.Hex
namespace BV.Poly1305
open BV.Hex

def P : Nat := 2 ^ 130 - 5
def clampMask : Nat := 0x0ffffffc0ffffffc0ffffffc0fffffff

/-- absorb the message in 16-byte chunks; `fuel` bounds the number of chunks (`msg.length` suffices). -/
def absorb (r : Nat) : Nat → Nat → List UInt8 → Nat
  | 0, acc, _ => acc
  | _ + 1, acc, [] => acc
  | fuel + 1, acc, m@(_ :: _) =>
    let chunk := m.take 16
    let n := leToNat chunk + 2 ^ (8 * chunk.length)
    absorb r fuel ((acc + n) * r % P) (m.drop 16)

/-- 16-byte tag of `msg` under the 32-byte one-time key `key = r ‖ s`. -/
def mac (key msg : List UInt8) : List UInt8 :=
  let r := leToNat (key.take 16) &&& clampMask
  let s := leToNat ((key.drop 16).take 16)
  natLE ((absorb r msg.length 0 msg + s) % 2 ^ 128) 16

end BV.Poly1305
