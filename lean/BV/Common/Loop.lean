/- Line-protocol loop shared by every per-property driver executable (core-only). -/
namespace BV.Loop

def tokens (line : String) : List String :=
  (line.trimAscii.toString.splitOn " ").filter (· ≠ "")

partial def loop (pid : String) (handle : List String → String) (hin hout : IO.FS.Stream) : IO Unit := do
  let line ← hin.getLine
  if line.isEmpty then return ()
  let out := match tokens line with
    | p :: rest => if p == pid then handle rest else "bad-op"
    | [] => "bad-op"
  hout.putStrLn out
  hout.flush
  loop pid handle hin hout

def run (pid : String) (handle : List String → String) : IO Unit := do
  loop pid handle (← IO.getStdin) (← IO.getStdout)

end BV.Loop
