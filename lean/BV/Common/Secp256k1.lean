/-
Executable reference arithmetic for secp256k1 (core-only, no Mathlib).

* field F_p as `Nat` reduced mod `p`; scalars as `Nat` reduced mod `n`
* affine points with an explicit point at infinity: `add`, `double`, `neg`, `mulAffine` (double-and-add)
  -- this is the textbook definition and the REFERENCE
* `mul`: same function computed in Jacobian coordinates with one final inversion (fast path used by
  the drivers; `mulAffine` and `mul` are cross-checked against each other and against btcec on every
  correspondence run of C11, op `mulchk`)
* `liftX` (BIP340: the point with even y), `decompress` (SEC1 02/03), `sqrt` via a^((p+1)/4)

Nothing here is proved to be a group; the algebraic theorems of C11 are stated over an abstract group and
this file is the oracle for the differential run only.
-/
namespace BV.Secp256k1

def p : Nat := 0xFFFFFFFFFFFFFFFFFFFFFFFFFFFFFFFFFFFFFFFFFFFFFFFFFFFFFFFEFFFFFC2F
def n : Nat := 0xFFFFFFFFFFFFFFFFFFFFFFFFFFFFFFFEBAAEDCE6AF48A03BBFD25E8CD0364141
def Gx : Nat := 0x79BE667EF9DCBBAC55A06295CE870B07029BFCDB2DCE28D959F2815B16F81798
def Gy : Nat := 0x483ADA7726A3C4655DA4FBFC0E1108A8FD17B448A68554199C47D08FFB10D4B8
def curveB : Nat := 7
/-- n / 2 (a scalar s is "high" iff s > halfN) -/
def halfN : Nat := n / 2

/-- square-and-multiply `a^e mod m`, structural on `fuel` (≥ bit length of `e`). -/
def powModAux (m : Nat) : Nat → Nat → Nat → Nat → Nat
  | 0, _, _, acc => acc
  | fuel + 1, a, e, acc =>
    if e = 0 then acc
    else powModAux m fuel (a * a % m) (e / 2) (if e % 2 = 1 then acc * a % m else acc)

def powMod (m a e : Nat) : Nat := powModAux m (e.log2 + 1) (a % m) e (1 % m)

/-! ### field -/
def fadd (a b : Nat) : Nat := (a + b) % p
def fsub (a b : Nat) : Nat := (a + (p - b % p)) % p
def fmul (a b : Nat) : Nat := (a * b) % p
def fneg (a : Nat) : Nat := (p - a % p) % p
def fsqr (a : Nat) : Nat := (a * a) % p
def finv (a : Nat) : Nat := powMod p a (p - 2)
/-- a square root of `a` (if one exists): `a^((p+1)/4)`, valid because p ≡ 3 (mod 4). -/
def fsqrt (a : Nat) : Option Nat :=
  let r := powMod p a ((p + 1) / 4)
  if r * r % p = a % p then some r else none

/-! ### scalars -/
def sadd (a b : Nat) : Nat := (a + b) % n
def smul (a b : Nat) : Nat := (a * b) % n
def sneg (a : Nat) : Nat := (n - a % n) % n
def sinv (a : Nat) : Nat := powMod n a (n - 2)

/-! ### affine points -/
inductive Point where
  | inf : Point
  | aff (x y : Nat) : Point
  deriving DecidableEq, Repr, Inhabited

def G : Point := .aff Gx Gy

def onCurve : Point → Bool
  | .inf => true
  | .aff x y => x < p && y < p && (y * y) % p == (x * x % p * x + curveB) % p

def neg : Point → Point
  | .inf => .inf
  | .aff x y => .aff x (fneg y)

def double : Point → Point
  | .inf => .inf
  | .aff x y =>
    if y % p = 0 then .inf else
    let l := fmul (fmul 3 (fsqr x)) (finv (fmul 2 y))
    let x3 := fsub (fsqr l) (fmul 2 x)
    .aff x3 (fsub (fmul l (fsub x x3)) y)

def add : Point → Point → Point
  | .inf, q => q
  | q, .inf => q
  | .aff x1 y1, .aff x2 y2 =>
    if x1 % p = x2 % p then
      if y1 % p = y2 % p then double (.aff x1 y1) else .inf
    else
      let l := fmul (fsub y2 y1) (finv (fsub x2 x1))
      let x3 := fsub (fsub (fsqr l) x1) x2
      .aff x3 (fsub (fmul l (fsub x1 x3)) y1)

def sub (a b : Point) : Point := add a (neg b)

/-- LSB-first double-and-add, structural on `fuel`. -/
def mulAux : Nat → Nat → Point → Point → Point
  | 0, _, _, acc => acc
  | fuel + 1, k, q, acc =>
    if k = 0 then acc
    else mulAux fuel (k / 2) (double q) (if k % 2 = 1 then add acc q else acc)

/-- reference scalar multiplication (textbook affine double-and-add). -/
def mulAffine (k : Nat) (q : Point) : Point := mulAux (k.log2 + 1) k q .inf

/-! ### Jacobian fast path (a = 0) -/
structure J where
  x : Nat
  y : Nat
  z : Nat

def J.inf : J := ⟨1, 1, 0⟩

def J.ofPoint : Point → J
  | .inf => J.inf
  | .aff x y => ⟨x % p, y % p, 1⟩

def J.toPoint (q : J) : Point :=
  if q.z = 0 then .inf else
  let zi := finv q.z
  let zi2 := fsqr zi
  .aff (fmul q.x zi2) (fmul q.y (fmul zi2 zi))

/-- field ops for operands already reduced mod p (no division) -/
@[inline] def radd (a b : Nat) : Nat := let s := a + b; if s ≥ p then s - p else s
@[inline] def rsub (a b : Nat) : Nat := if a ≥ b then a - b else a + p - b

def J.double (q : J) : J :=
  if q.z = 0 || q.y = 0 then J.inf else
  let a := fsqr q.x
  let b := fsqr q.y
  let c := fsqr b
  let t := rsub (rsub (fsqr (radd q.x b)) a) c
  let d := radd t t
  let e := radd (radd a a) a
  let f := fsqr e
  let x3 := rsub f (radd d d)
  let c2 := radd c c
  let c4 := radd c2 c2
  let y3 := rsub (fmul e (rsub d x3)) (radd c4 c4)
  let yz := fmul q.y q.z
  ⟨x3, y3, radd yz yz⟩

/-- mixed addition: Jacobian + affine (x2, y2 reduced). -/
def J.addAff (q : J) (x2 y2 : Nat) : J :=
  if q.z = 0 then ⟨x2, y2, 1⟩ else
  let z2 := fsqr q.z
  let u2 := fmul x2 z2
  let s2 := fmul y2 (fmul z2 q.z)
  let h := rsub u2 q.x
  let r := rsub s2 q.y
  if h = 0 then (if r = 0 then q.double else J.inf) else
  let h2 := fsqr h
  let h3 := fmul h2 h
  let v := fmul q.x h2
  let x3 := rsub (rsub (fsqr r) h3) (radd v v)
  let y3 := rsub (fmul r (rsub v x3)) (fmul q.y h3)
  ⟨x3, y3, fmul q.z h⟩

/-- MSB-first double-and-add over bit positions `i-1 … 0`. -/
def jmulAux (k x y : Nat) : Nat → J → J
  | 0, acc => acc
  | i + 1, acc =>
    let d := acc.double
    jmulAux k x y i (if k.testBit i then d.addAff x y else d)

/-- fast scalar multiplication; agrees with `mulAffine` (cross-checked, not proved). -/
def mul (k : Nat) : Point → Point
  | .inf => .inf
  | .aff x y => (jmulAux k (x % p) (y % p) (k.log2 + 1) J.inf).toPoint

/-- the affine points 2^i·G, i = 0 … 255 (computed once with the reference `double`) -/
def gTableAux : Nat → Point → List (Nat × Nat) → List (Nat × Nat)
  | 0, _, acc => acc.reverse
  | i + 1, q, acc =>
    match q with
    | .inf => acc.reverse
    | .aff x y => gTableAux i (double q) ((x, y) :: acc)

def gTable : Array (Nat × Nat) := (gTableAux 256 G []).toArray

def mulGAux (k : Nat) : Nat → J → J
  | 0, acc => acc
  | i + 1, acc =>
    mulGAux k i (if k.testBit i then
      (match gTable[i]? with
       | some (x, y) => acc.addAff x y
       | none => acc) else acc)

/-- k·G for k < 2^256 by adding the tabulated 2^i·G (no doublings); falls back to `mul` for larger k. -/
def mulG (k : Nat) : Point :=
  if k < 2 ^ 256 then (mulGAux k 256 J.inf).toPoint else mul k G

/-! ### x-only / compressed -/
def Point.x? : Point → Option Nat
  | .inf => none
  | .aff x _ => some x

def Point.isInf : Point → Bool
  | .inf => true
  | _ => false

def hasEvenY : Point → Bool
  | .inf => false
  | .aff _ y => y % 2 == 0

/-- y with `y² = x³ + 7` and the requested parity, for `x < p`. -/
def decompress (x : Nat) (odd : Bool) : Option Point :=
  if x ≥ p then none else
  match fsqrt ((x * x % p * x + curveB) % p) with
  | none => none
  | some y => some (.aff x (if (y % 2 == 1) == odd then y else p - y))

/-- BIP340 lift_x -/
def liftX (x : Nat) : Option Point := decompress x false

end BV.Secp256k1
