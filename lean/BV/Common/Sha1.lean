/-
Reference SHA-1 (FIPS 180-4). Core-only, executable. Validated against Go's crypto/sha1 by the C06
correspondence run (`C06 sha1 <hex>`); trusted base: "modelled, not verified".
-/
namespace BV.Sha1

@[inline] def rotl (x : UInt32) (n : UInt32) : UInt32 := (x <<< n) ||| (x >>> (32 - n))

def be32 (b : ByteArray) (i : Nat) : UInt32 :=
  ((b.get! i).toUInt32 <<< 24) ||| ((b.get! (i+1)).toUInt32 <<< 16) |||
  ((b.get! (i+2)).toUInt32 <<< 8) ||| (b.get! (i+3)).toUInt32

structure St where
  a : UInt32
  b : UInt32
  c : UInt32
  d : UInt32
  e : UInt32

def init : St := ⟨0x67452301, 0xefcdab89, 0x98badcfe, 0x10325476, 0xc3d2e1f0⟩

def compress (s : St) (blk : ByteArray) (off : Nat) : St := Id.run do
  let mut w : Array UInt32 := Array.mkEmpty 80
  for i in [0:16] do
    w := w.push (be32 blk (off + 4*i))
  for i in [16:80] do
    w := w.push (rotl (w[i-3]! ^^^ w[i-8]! ^^^ w[i-14]! ^^^ w[i-16]!) 1)
  let mut a := s.a; let mut b := s.b; let mut c := s.c; let mut d := s.d; let mut e := s.e
  for i in [0:80] do
    let (f, k) : UInt32 × UInt32 :=
      if i < 20 then ((b &&& c) ||| ((~~~ b) &&& d), 0x5a827999)
      else if i < 40 then (b ^^^ c ^^^ d, 0x6ed9eba1)
      else if i < 60 then ((b &&& c) ||| (b &&& d) ||| (c &&& d), 0x8f1bbcdc)
      else (b ^^^ c ^^^ d, 0xca62c1d6)
    let t := rotl a 5 + f + e + k + w[i]!
    e := d; d := c; c := rotl b 30; b := a; a := t
  return ⟨s.a + a, s.b + b, s.c + c, s.d + d, s.e + e⟩

def pad (msg : ByteArray) : ByteArray := Id.run do
  let len := msg.size
  let mut m := msg.push 0x80
  while m.size % 64 != 56 do
    m := m.push 0
  let bits := len * 8
  for i in [0:8] do
    m := m.push (UInt8.ofNat (bits >>> (8 * (7 - i)) % 256))
  return m

def put32 (out : ByteArray) (x : UInt32) : ByteArray :=
  (((out.push (x >>> 24).toUInt8).push (x >>> 16).toUInt8).push (x >>> 8).toUInt8).push x.toUInt8

def hash (msg : ByteArray) : ByteArray := Id.run do
  let m := pad msg
  let mut s := init
  for i in [0:m.size / 64] do
    s := compress s m (64 * i)
  let mut out := ByteArray.emptyWithCapacity 20
  for x in [s.a, s.b, s.c, s.d, s.e] do
    out := put32 out x
  return out

def hashList (l : List UInt8) : List UInt8 := (hash (ByteArray.mk l.toArray)).toList

end BV.Sha1
