/-
Reference SHA-256 (FIPS 180-4). Core-only, executable; used by drivers as the
hash `H` that theorems keep abstract. Validated against Go's crypto/sha256 by
the correspondence runs (trusted base: "modelled, not verified").
-/
namespace BV.Sha256

def K : Array UInt32 := #[
  0x428a2f98, 0x71374491, 0xb5c0fbcf, 0xe9b5dba5, 0x3956c25b, 0x59f111f1, 0x923f82a4, 0xab1c5ed5,
  0xd807aa98, 0x12835b01, 0x243185be, 0x550c7dc3, 0x72be5d74, 0x80deb1fe, 0x9bdc06a7, 0xc19bf174,
  0xe49b69c1, 0xefbe4786, 0x0fc19dc6, 0x240ca1cc, 0x2de92c6f, 0x4a7484aa, 0x5cb0a9dc, 0x76f988da,
  0x983e5152, 0xa831c66d, 0xb00327c8, 0xbf597fc7, 0xc6e00bf3, 0xd5a79147, 0x06ca6351, 0x14292967,
  0x27b70a85, 0x2e1b2138, 0x4d2c6dfc, 0x53380d13, 0x650a7354, 0x766a0abb, 0x81c2c92e, 0x92722c85,
  0xa2bfe8a1, 0xa81a664b, 0xc24b8b70, 0xc76c51a3, 0xd192e819, 0xd6990624, 0xf40e3585, 0x106aa070,
  0x19a4c116, 0x1e376c08, 0x2748774c, 0x34b0bcb5, 0x391c0cb3, 0x4ed8aa4a, 0x5b9cca4f, 0x682e6ff3,
  0x748f82ee, 0x78a5636f, 0x84c87814, 0x8cc70208, 0x90befffa, 0xa4506ceb, 0xbef9a3f7, 0xc67178f2]

@[inline] def rotr (x : UInt32) (n : UInt32) : UInt32 := (x >>> n) ||| (x <<< (32 - n))

structure St where
  a : UInt32
  b : UInt32
  c : UInt32
  d : UInt32
  e : UInt32
  f : UInt32
  g : UInt32
  h : UInt32

def init : St :=
  ⟨0x6a09e667, 0xbb67ae85, 0x3c6ef372, 0xa54ff53a, 0x510e527f, 0x9b05688c, 0x1f83d9ab, 0x5be0cd19⟩

def be32 (b : ByteArray) (i : Nat) : UInt32 :=
  ((b.get! i).toUInt32 <<< 24) ||| ((b.get! (i+1)).toUInt32 <<< 16) |||
  ((b.get! (i+2)).toUInt32 <<< 8) ||| (b.get! (i+3)).toUInt32

def schedule (blk : ByteArray) (off : Nat) : Array UInt32 := Id.run do
  let mut w : Array UInt32 := Array.mkEmpty 64
  for i in [0:16] do
    w := w.push (be32 blk (off + 4*i))
  for i in [16:64] do
    let w15 := w[i-15]!
    let w2 := w[i-2]!
    let s0 := rotr w15 7 ^^^ rotr w15 18 ^^^ (w15 >>> 3)
    let s1 := rotr w2 17 ^^^ rotr w2 19 ^^^ (w2 >>> 10)
    w := w.push (w[i-16]! + s0 + w[i-7]! + s1)
  return w

def compress (s : St) (blk : ByteArray) (off : Nat) : St := Id.run do
  let w := schedule blk off
  let mut a := s.a; let mut b := s.b; let mut c := s.c; let mut d := s.d
  let mut e := s.e; let mut f := s.f; let mut g := s.g; let mut h := s.h
  for i in [0:64] do
    let s1 := rotr e 6 ^^^ rotr e 11 ^^^ rotr e 25
    let ch := (e &&& f) ^^^ ((~~~ e) &&& g)
    let t1 := h + s1 + ch + K[i]! + w[i]!
    let s0 := rotr a 2 ^^^ rotr a 13 ^^^ rotr a 22
    let mj := (a &&& b) ^^^ (a &&& c) ^^^ (b &&& c)
    let t2 := s0 + mj
    h := g; g := f; f := e; e := d + t1; d := c; c := b; b := a; a := t1 + t2
  return ⟨s.a + a, s.b + b, s.c + c, s.d + d, s.e + e, s.f + f, s.g + g, s.h + h⟩

def pad (msg : ByteArray) : ByteArray := Id.run do
  let len := msg.size
  let mut m := msg.push 0x80
  while m.size % 64 != 56 do
    m := m.push 0
  let bits := len * 8
  for i in [0:8] do
    m := m.push (UInt8.ofNat (bits >>> (8 * (7 - i)) % 256))
  return m

def put32 (out : ByteArray) (x : UInt32) : ByteArray :=
  (((out.push (x >>> 24).toUInt8).push (x >>> 16).toUInt8).push (x >>> 8).toUInt8).push x.toUInt8

def hash (msg : ByteArray) : ByteArray := Id.run do
  let m := pad msg
  let mut s := init
  for i in [0:m.size / 64] do
    s := compress s m (64 * i)
  let mut out := ByteArray.emptyWithCapacity 32
  for x in [s.a, s.b, s.c, s.d, s.e, s.f, s.g, s.h] do
    out := put32 out x
  return out

def hash2 (msg : ByteArray) : ByteArray := hash (hash msg)

def hashList (l : List UInt8) : List UInt8 := (hash (ByteArray.mk l.toArray)).toList
def hash2List (l : List UInt8) : List UInt8 := (hash2 (ByteArray.mk l.toArray)).toList

/-- BIP340 tagged hash -/
def tagged (tag : String) (msg : ByteArray) : ByteArray :=
  let t := hash tag.toUTF8
  hash (t ++ t ++ msg)

end BV.Sha256
