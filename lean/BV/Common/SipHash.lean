/-
SipHash-2-4 with 64-bit output (Aumasson/Bernstein reference algorithm), UInt64 arithmetic.
Core-only. Used by the C20 driver as the reference for github.com/aead/siphash `Sum64`.
-/
namespace BV.SipHash

structure St where
  v0 : UInt64
  v1 : UInt64
  v2 : UInt64
  v3 : UInt64

@[inline] def rotl (x : UInt64) (r : UInt64) : UInt64 := (x <<< r) ||| (x >>> (64 - r))

@[inline] def round (s : St) : St :=
  let v0 := s.v0 + s.v1
  let v1 := rotl s.v1 13
  let v1 := v1 ^^^ v0
  let v0 := rotl v0 32
  let v2 := s.v2 + s.v3
  let v3 := rotl s.v3 16
  let v3 := v3 ^^^ v2
  let v0 := v0 + v3
  let v3 := rotl v3 21
  let v3 := v3 ^^^ v0
  let v2 := v2 + v1
  let v1 := rotl v1 17
  let v1 := v1 ^^^ v2
  let v2 := rotl v2 32
  ⟨v0, v1, v2, v3⟩

@[inline] def absorb (s : St) (m : UInt64) : St :=
  let s := { s with v3 := s.v3 ^^^ m }
  let s := round (round s)
  { s with v0 := s.v0 ^^^ m }

/-- little-endian 64-bit word of up to 8 bytes -/
def le64 (bs : List UInt8) : UInt64 :=
  bs.foldr (fun b acc => (acc <<< 8) ||| b.toUInt64) 0

def initSt (k0 k1 : UInt64) : St :=
  ⟨k0 ^^^ 0x736f6d6570736575, k1 ^^^ 0x646f72616e646f6d,
   k0 ^^^ 0x6c7967656e657261, k1 ^^^ 0x7465646279746573⟩

/-- absorb the full 8-byte blocks, then the last block `tail ‖ 0… ‖ (len mod 256)` -/
def blocks (s : St) (len : Nat) : List UInt8 → Nat → St
  | _, 0 => s   -- fuel exhausted (never reached: fuel = len/8 + 1)
  | msg, fuel+1 =>
    if msg.length ≥ 8 then
      blocks (absorb s (le64 (msg.take 8))) len (msg.drop 8) fuel
    else
      absorb s (le64 msg ||| ((UInt64.ofNat (len % 256)) <<< 56))

def finalize (s : St) : UInt64 :=
  let s := { s with v2 := s.v2 ^^^ 0xff }
  let s := round (round (round (round s)))
  s.v0 ^^^ s.v1 ^^^ s.v2 ^^^ s.v3

/-- SipHash-2-4 of `msg` under the 128-bit key `(k0, k1)` (each the LE word of 8 key bytes). -/
def sum64 (k0 k1 : UInt64) (msg : List UInt8) : UInt64 :=
  finalize (blocks (initSt k0 k1) msg.length msg (msg.length / 8 + 1))

/-- key given as 16 bytes -/
def sum64Key (key : List UInt8) (msg : List UInt8) : UInt64 :=
  sum64 (le64 (key.take 8)) (le64 ((key.drop 8).take 8)) msg

end BV.SipHash
