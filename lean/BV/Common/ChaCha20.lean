/-
Reference ChaCha20 (RFC 8439 §2.3/§2.4): block function and byte-addressed key stream.
Core-only, executable. Used by drivers as the concrete `stream` that theorems keep abstract.
Validated against golang.org/x/crypto/chacha20 by the C19 correspondence runs
(trusted base: "modelled, not verified").
-/
namespace BV.ChaCha20

@[inline] def rotl (x : UInt32) (n : UInt32) : UInt32 := (x <<< n) ||| (x >>> (32 - n))

structure St where
  x0 : UInt32
  x1 : UInt32
  x2 : UInt32
  x3 : UInt32
  x4 : UInt32
  x5 : UInt32
  x6 : UInt32
  x7 : UInt32
  x8 : UInt32
  x9 : UInt32
  x10 : UInt32
  x11 : UInt32
  x12 : UInt32
  x13 : UInt32
  x14 : UInt32
  x15 : UInt32

/-- RFC 8439 §2.1 quarter round on four words. -/
@[inline] def qr (a b c d : UInt32) : UInt32 × UInt32 × UInt32 × UInt32 :=
  let a := a + b; let d := rotl (d ^^^ a) 16
  let c := c + d; let b := rotl (b ^^^ c) 12
  let a := a + b; let d := rotl (d ^^^ a) 8
  let c := c + d; let b := rotl (b ^^^ c) 7
  (a, b, c, d)

/-- one double round: 4 column rounds then 4 diagonal rounds -/
def doubleRound (s : St) : St :=
  let (x0, x4, x8, x12) := qr s.x0 s.x4 s.x8 s.x12
  let (x1, x5, x9, x13) := qr s.x1 s.x5 s.x9 s.x13
  let (x2, x6, x10, x14) := qr s.x2 s.x6 s.x10 s.x14
  let (x3, x7, x11, x15) := qr s.x3 s.x7 s.x11 s.x15
  let (x0, x5, x10, x15) := qr x0 x5 x10 x15
  let (x1, x6, x11, x12) := qr x1 x6 x11 x12
  let (x2, x7, x8, x13) := qr x2 x7 x8 x13
  let (x3, x4, x9, x14) := qr x3 x4 x9 x14
  ⟨x0, x1, x2, x3, x4, x5, x6, x7, x8, x9, x10, x11, x12, x13, x14, x15⟩

def rounds : Nat → St → St
  | 0, s => s
  | n + 1, s => rounds n (doubleRound s)

def le32 (b : List UInt8) (i : Nat) : UInt32 :=
  (b.getD i 0).toUInt32 ||| ((b.getD (i+1) 0).toUInt32 <<< 8) |||
  ((b.getD (i+2) 0).toUInt32 <<< 16) ||| ((b.getD (i+3) 0).toUInt32 <<< 24)

def put32 (x : UInt32) (tl : List UInt8) : List UInt8 :=
  x.toUInt8 :: (x >>> 8).toUInt8 :: (x >>> 16).toUInt8 :: (x >>> 24).toUInt8 :: tl

/-- The 64-byte key-stream block for a 32-byte key, 12-byte nonce and 32-bit block counter,
prepended to `tl`. -/
def blockOnto (key nonce : List UInt8) (ctr : Nat) (tl : List UInt8) : List UInt8 :=
  let i : St := ⟨0x61707865, 0x3320646e, 0x79622d32, 0x6b206574,
    le32 key 0, le32 key 4, le32 key 8, le32 key 12, le32 key 16, le32 key 20, le32 key 24, le32 key 28,
    UInt32.ofNat ctr, le32 nonce 0, le32 nonce 4, le32 nonce 8⟩
  let w := rounds 10 i
  put32 (w.x0 + i.x0) <| put32 (w.x1 + i.x1) <| put32 (w.x2 + i.x2) <| put32 (w.x3 + i.x3) <|
  put32 (w.x4 + i.x4) <| put32 (w.x5 + i.x5) <| put32 (w.x6 + i.x6) <| put32 (w.x7 + i.x7) <|
  put32 (w.x8 + i.x8) <| put32 (w.x9 + i.x9) <| put32 (w.x10 + i.x10) <| put32 (w.x11 + i.x11) <|
  put32 (w.x12 + i.x12) <| put32 (w.x13 + i.x13) <| put32 (w.x14 + i.x14) <| put32 (w.x15 + i.x15) tl

def block (key nonce : List UInt8) (ctr : Nat) : List UInt8 := blockOnto key nonce ctr []

/-- blocks `first, first+1, …, first+n-1` concatenated in front of `acc` (built from the last
block backwards so that the recursion is a loop). -/
def blocksOnto (key nonce : List UInt8) (first : Nat) : Nat → List UInt8 → List UInt8
  | 0, acc => acc
  | n + 1, acc => blocksOnto key nonce first n (blockOnto key nonce (first + n) acc)

def blocks (key nonce : List UInt8) (first n : Nat) : List UInt8 := blocksOnto key nonce first n []

/-- `len` key-stream bytes starting at byte offset `off` of the stream that begins with block 0. -/
def stream (key nonce : List UInt8) (off len : Nat) : List UInt8 :=
  ((blocks key nonce (off / 64) ((off % 64 + len + 63) / 64)).drop (off % 64)).take len

end BV.ChaCha20
