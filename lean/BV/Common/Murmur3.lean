/-
MurmurHash3 x86_32 (Austin Appleby's reference algorithm) over UInt32 arithmetic. Core-only.
Used by the C20 bloom driver as the reference for btcutil/bloom `MurmurHash3`.
-/
namespace BV.Murmur3

@[inline] def rotl (x : UInt32) (r : UInt32) : UInt32 := (x <<< r) ||| (x >>> (32 - r))

def c1 : UInt32 := 0xcc9e2d51
def c2 : UInt32 := 0x1b873593

/-- scramble of one (partial) 32-bit block -/
@[inline] def mixK (k : UInt32) : UInt32 := rotl (k * c1) 15 * c2

/-- absorb one full block into the running hash -/
@[inline] def mixH (h k : UInt32) : UInt32 := rotl (h ^^^ mixK k) 13 * 5 + 0xe6546b64

/-- little-endian 32-bit word -/
@[inline] def le32 (a b c d : UInt8) : UInt32 :=
  a.toUInt32 ||| (b.toUInt32 <<< 8) ||| (c.toUInt32 <<< 16) ||| (d.toUInt32 <<< 24)

/-- all full 4-byte blocks, then the 1..3-byte tail -/
def body : UInt32 → List UInt8 → UInt32
  | h, a :: b :: c :: d :: rest => body (mixH h (le32 a b c d)) rest
  | h, [a, b, c] => h ^^^ mixK ((c.toUInt32 <<< 16) ^^^ (b.toUInt32 <<< 8) ^^^ a.toUInt32)
  | h, [a, b] => h ^^^ mixK ((b.toUInt32 <<< 8) ^^^ a.toUInt32)
  | h, [a] => h ^^^ mixK a.toUInt32
  | h, [] => h

/-- finalisation mix (avalanche) -/
def fmix (h : UInt32) : UInt32 :=
  let h := h ^^^ (h >>> 16)
  let h := h * 0x85ebca6b
  let h := h ^^^ (h >>> 13)
  let h := h * 0xc2b2ae35
  h ^^^ (h >>> 16)

/-- MurmurHash3_x86_32(data, seed); the length is mixed in modulo 2^32 as in the 32-bit reference -/
def hash (seed : UInt32) (data : List UInt8) : UInt32 :=
  fmix (body seed data ^^^ UInt32.ofNat data.length)

/-! known vectors (reference implementation / btcutil/bloom/murmurhash3_test.go) -/
example : hash 0 [] = 0 := by decide
example : hash 1 [] = 0x514E28B7 := by decide
example : hash 0xffffffff [] = 0x81F16F39 := by decide
example : hash 0 [0x21, 0x43, 0x65, 0x87] = 0xF55B516B := by decide
example : hash 0xfba4c795 [] = 0x6a396f08 := by decide
example : hash 0 [0x00] = 0x514e28b7 := by decide
example : hash 0xfba4c795 [0x00] = 0xea3f0b17 := by decide
example : hash 0 [0xff] = 0xfd6cf10d := by decide
example : hash 0 [0x00, 0x11] = 0x16c6b7ab := by decide
example : hash 0 [0x00, 0x11, 0x22] = 0x8eb51c3d := by decide
example : hash 0 [0x00, 0x11, 0x22, 0x33] = 0xb4471bf8 := by decide
example : hash 0 [0x00, 0x11, 0x22, 0x33, 0x44] = 0xe2301fa8 := by decide
example : hash 0 [0x00, 0x11, 0x22, 0x33, 0x44, 0x55] = 0xfc2e4a15 := by decide
example : hash 0 [0x00, 0x11, 0x22, 0x33, 0x44, 0x55, 0x66] = 0xb074502c := by decide
example : hash 0 [0x00, 0x11, 0x22, 0x33, 0x44, 0x55, 0x66, 0x77] = 0x8034d2a0 := by decide
example : hash 0 [0x00, 0x11, 0x22, 0x33, 0x44, 0x55, 0x66, 0x77, 0x88] = 0xb4698def := by decide

end BV.Murmur3
