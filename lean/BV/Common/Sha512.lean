/-
Reference SHA-512 (FIPS 180-4) and HMAC-SHA512 (RFC 2104). Core-only,
executable; same shape as `BV.Sha256`. Validated against the FIPS / RFC 4231
vectors and Go's crypto/sha512, crypto/hmac (trusted base: "modelled, not
verified").
-/
namespace BV.Sha512

def K : Array UInt64 := #[
  0x428a2f98d728ae22, 0x7137449123ef65cd, 0xb5c0fbcfec4d3b2f, 0xe9b5dba58189dbbc, 0x3956c25bf348b538,
  0x59f111f1b605d019, 0x923f82a4af194f9b, 0xab1c5ed5da6d8118, 0xd807aa98a3030242, 0x12835b0145706fbe,
  0x243185be4ee4b28c, 0x550c7dc3d5ffb4e2, 0x72be5d74f27b896f, 0x80deb1fe3b1696b1, 0x9bdc06a725c71235,
  0xc19bf174cf692694, 0xe49b69c19ef14ad2, 0xefbe4786384f25e3, 0x0fc19dc68b8cd5b5, 0x240ca1cc77ac9c65,
  0x2de92c6f592b0275, 0x4a7484aa6ea6e483, 0x5cb0a9dcbd41fbd4, 0x76f988da831153b5, 0x983e5152ee66dfab,
  0xa831c66d2db43210, 0xb00327c898fb213f, 0xbf597fc7beef0ee4, 0xc6e00bf33da88fc2, 0xd5a79147930aa725,
  0x06ca6351e003826f, 0x142929670a0e6e70, 0x27b70a8546d22ffc, 0x2e1b21385c26c926, 0x4d2c6dfc5ac42aed,
  0x53380d139d95b3df, 0x650a73548baf63de, 0x766a0abb3c77b2a8, 0x81c2c92e47edaee6, 0x92722c851482353b,
  0xa2bfe8a14cf10364, 0xa81a664bbc423001, 0xc24b8b70d0f89791, 0xc76c51a30654be30, 0xd192e819d6ef5218,
  0xd69906245565a910, 0xf40e35855771202a, 0x106aa07032bbd1b8, 0x19a4c116b8d2d0c8, 0x1e376c085141ab53,
  0x2748774cdf8eeb99, 0x34b0bcb5e19b48a8, 0x391c0cb3c5c95a63, 0x4ed8aa4ae3418acb, 0x5b9cca4f7763e373,
  0x682e6ff3d6b2b8a3, 0x748f82ee5defb2fc, 0x78a5636f43172f60, 0x84c87814a1f0ab72, 0x8cc702081a6439ec,
  0x90befffa23631e28, 0xa4506cebde82bde9, 0xbef9a3f7b2c67915, 0xc67178f2e372532b, 0xca273eceea26619c,
  0xd186b8c721c0c207, 0xeada7dd6cde0eb1e, 0xf57d4f7fee6ed178, 0x06f067aa72176fba, 0x0a637dc5a2c898a6,
  0x113f9804bef90dae, 0x1b710b35131c471b, 0x28db77f523047d84, 0x32caab7b40c72493, 0x3c9ebe0a15c9bebc,
  0x431d67c49c100d4c, 0x4cc5d4becb3e42b6, 0x597f299cfc657e2a, 0x5fcb6fab3ad6faec, 0x6c44198c4a475817]

@[inline] def rotr (x : UInt64) (n : UInt64) : UInt64 := (x >>> n) ||| (x <<< (64 - n))

structure St where
  a : UInt64
  b : UInt64
  c : UInt64
  d : UInt64
  e : UInt64
  f : UInt64
  g : UInt64
  h : UInt64

def init : St :=
  ⟨0x6a09e667f3bcc908, 0xbb67ae8584caa73b, 0x3c6ef372fe94f82b, 0xa54ff53a5f1d36f1,
   0x510e527fade682d1, 0x9b05688c2b3e6c1f, 0x1f83d9abfb41bd6b, 0x5be0cd19137e2179⟩

def be64 (b : ByteArray) (i : Nat) : UInt64 :=
  ((b.get! i).toUInt64 <<< 56) ||| ((b.get! (i+1)).toUInt64 <<< 48) |||
  ((b.get! (i+2)).toUInt64 <<< 40) ||| ((b.get! (i+3)).toUInt64 <<< 32) |||
  ((b.get! (i+4)).toUInt64 <<< 24) ||| ((b.get! (i+5)).toUInt64 <<< 16) |||
  ((b.get! (i+6)).toUInt64 <<< 8) ||| (b.get! (i+7)).toUInt64

def schedule (blk : ByteArray) (off : Nat) : Array UInt64 := Id.run do
  let mut w : Array UInt64 := Array.mkEmpty 80
  for i in [0:16] do
    w := w.push (be64 blk (off + 8*i))
  for i in [16:80] do
    let w15 := w[i-15]!
    let w2 := w[i-2]!
    let s0 := rotr w15 1 ^^^ rotr w15 8 ^^^ (w15 >>> 7)
    let s1 := rotr w2 19 ^^^ rotr w2 61 ^^^ (w2 >>> 6)
    w := w.push (w[i-16]! + s0 + w[i-7]! + s1)
  return w

def compress (s : St) (blk : ByteArray) (off : Nat) : St := Id.run do
  let w := schedule blk off
  let mut a := s.a; let mut b := s.b; let mut c := s.c; let mut d := s.d
  let mut e := s.e; let mut f := s.f; let mut g := s.g; let mut h := s.h
  for i in [0:80] do
    let s1 := rotr e 14 ^^^ rotr e 18 ^^^ rotr e 41
    let ch := (e &&& f) ^^^ ((~~~ e) &&& g)
    let t1 := h + s1 + ch + K[i]! + w[i]!
    let s0 := rotr a 28 ^^^ rotr a 34 ^^^ rotr a 39
    let mj := (a &&& b) ^^^ (a &&& c) ^^^ (b &&& c)
    let t2 := s0 + mj
    h := g; g := f; f := e; e := d + t1; d := c; c := b; b := a; a := t1 + t2
  return ⟨s.a + a, s.b + b, s.c + c, s.d + d, s.e + e, s.f + f, s.g + g, s.h + h⟩

/-- 0x80, zeros up to 112 mod 128, then the bit length as a 128-bit big-endian integer. -/
def pad (msg : ByteArray) : ByteArray := Id.run do
  let len := msg.size
  let mut m := msg.push 0x80
  while m.size % 128 != 112 do
    m := m.push 0
  let bits := len * 8
  for i in [0:16] do
    m := m.push (UInt8.ofNat (bits >>> (8 * (15 - i)) % 256))
  return m

def put64 (out : ByteArray) (x : UInt64) : ByteArray :=
  (((((((out.push (x >>> 56).toUInt8).push (x >>> 48).toUInt8).push (x >>> 40).toUInt8).push
    (x >>> 32).toUInt8).push (x >>> 24).toUInt8).push (x >>> 16).toUInt8).push
    (x >>> 8).toUInt8).push x.toUInt8

def hash (msg : ByteArray) : ByteArray := Id.run do
  let m := pad msg
  let mut s := init
  for i in [0:m.size / 128] do
    s := compress s m (128 * i)
  let mut out := ByteArray.emptyWithCapacity 64
  for x in [s.a, s.b, s.c, s.d, s.e, s.f, s.g, s.h] do
    out := put64 out x
  return out

def hashList (l : List UInt8) : List UInt8 := (hash (ByteArray.mk l.toArray)).toList

/-- HMAC block size of SHA-512 in bytes. -/
def blockSize : Nat := 128

/-- key normalised to exactly `blockSize` bytes: hashed first when longer, then zero-padded. -/
def hmacKey (key : ByteArray) : ByteArray := Id.run do
  let mut k := if key.size > blockSize then hash key else key
  while k.size < blockSize do
    k := k.push 0
  return k

def xorPad (k : ByteArray) (c : UInt8) : ByteArray := Id.run do
  let mut out := ByteArray.emptyWithCapacity k.size
  for b in k do
    out := out.push (b ^^^ c)
  return out

/-- HMAC-SHA512 (RFC 2104): H((K ⊕ opad) ‖ H((K ⊕ ipad) ‖ msg)). -/
def hmac (key msg : ByteArray) : ByteArray :=
  let k := hmacKey key
  hash (xorPad k 0x5c ++ hash (xorPad k 0x36 ++ msg))

def hmacList (key msg : List UInt8) : List UInt8 :=
  (hmac (ByteArray.mk key.toArray) (ByteArray.mk msg.toArray)).toList

end BV.Sha512
