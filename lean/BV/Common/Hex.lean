/-
Hex / decimal helpers shared by every driver. Core-only.
-/
namespace BV.Hex

def hexDigit (n : Nat) : Char :=
  if n < 10 then Char.ofNat (48 + n) else Char.ofNat (87 + n)

def byteToHex (b : UInt8) : String :=
  String.ofList [hexDigit (b.toNat / 16), hexDigit (b.toNat % 16)]

def listToHex (bs : List UInt8) : String :=
  String.ofList (bs.foldr (fun b acc => hexDigit (b.toNat / 16) :: hexDigit (b.toNat % 16) :: acc) [])

def bytesToHex (bs : ByteArray) : String := listToHex bs.toList

def digitVal? (c : Char) : Option Nat :=
  if '0' ≤ c ∧ c ≤ '9' then some (c.toNat - 48)
  else if 'a' ≤ c ∧ c ≤ 'f' then some (c.toNat - 87)
  else if 'A' ≤ c ∧ c ≤ 'F' then some (c.toNat - 55)
  else none

def hexToListAux : List Char → List UInt8 → Option (List UInt8)
  | [], acc => some acc.reverse
  | [_], _ => none
  | a :: b :: rest, acc =>
    match digitVal? a, digitVal? b with
    | some x, some y => hexToListAux rest (UInt8.ofNat (x * 16 + y) :: acc)
    | _, _ => none

/-- "-" denotes the empty byte string (so that every field is a non-empty token). -/
def hexToList? (s : String) : Option (List UInt8) :=
  if s == "-" then some [] else hexToListAux s.toList []

def hexToBytes? (s : String) : Option ByteArray :=
  (hexToList? s).map (fun l => ByteArray.mk l.toArray)

def listToHexTok (bs : List UInt8) : String :=
  if bs.isEmpty then "-" else listToHex bs

/-- big-endian hex of a natural number, no leading zeros ("0" for zero). -/
def natToHex (n : Nat) : String :=
  String.ofList (Nat.toDigits 16 n)

def hexToNat? (s : String) : Option Nat :=
  if s.isEmpty then none else
  s.toList.foldlM (fun acc c => (digitVal? c).map (fun d => acc * 16 + d)) 0

/-- signed decimal -/
def intOfString? (s : String) : Option Int := s.toInt?

def natBE (n : Nat) (len : Nat) : List UInt8 :=
  (List.range len).map (fun i => UInt8.ofNat (n / 256 ^ (len - 1 - i) % 256))

def natLE (n : Nat) (len : Nat) : List UInt8 :=
  (List.range len).map (fun i => UInt8.ofNat (n / 256 ^ i % 256))

def beToNat (bs : List UInt8) : Nat := bs.foldl (fun acc b => acc * 256 + b.toNat) 0
def leToNat (bs : List UInt8) : Nat := bs.foldr (fun b acc => acc * 256 + b.toNat) 0

end BV.Hex
