/-
Reference RIPEMD-160. Core-only, executable. Validated against golang.org/x/crypto/ripemd160 by the
C06 correspondence run (`C06 ripemd160 <hex>`); trusted base: "modelled, not verified".
-/
namespace BV.Ripemd160

@[inline] def rotl (x : UInt32) (n : UInt32) : UInt32 := (x <<< n) ||| (x >>> (32 - n))

def rL : Array Nat := #[
  0, 1, 2, 3, 4, 5, 6, 7, 8, 9, 10, 11, 12, 13, 14, 15,
  7, 4, 13, 1, 10, 6, 15, 3, 12, 0, 9, 5, 2, 14, 11, 8,
  3, 10, 14, 4, 9, 15, 8, 1, 2, 7, 0, 6, 13, 11, 5, 12,
  1, 9, 11, 10, 0, 8, 12, 4, 13, 3, 7, 15, 14, 5, 6, 2,
  4, 0, 5, 9, 7, 12, 2, 10, 14, 1, 3, 8, 11, 6, 15, 13]

def rR : Array Nat := #[
  5, 14, 7, 0, 9, 2, 11, 4, 13, 6, 15, 8, 1, 10, 3, 12,
  6, 11, 3, 7, 0, 13, 5, 10, 14, 15, 8, 12, 4, 9, 1, 2,
  15, 5, 1, 3, 7, 14, 6, 9, 11, 8, 12, 2, 10, 0, 4, 13,
  8, 6, 4, 1, 3, 11, 15, 0, 5, 12, 2, 13, 9, 7, 10, 14,
  12, 15, 10, 4, 1, 5, 8, 7, 6, 2, 13, 14, 0, 3, 9, 11]

def sL : Array UInt32 := #[
  11, 14, 15, 12, 5, 8, 7, 9, 11, 13, 14, 15, 6, 7, 9, 8,
  7, 6, 8, 13, 11, 9, 7, 15, 7, 12, 15, 9, 11, 7, 13, 12,
  11, 13, 6, 7, 14, 9, 13, 15, 14, 8, 13, 6, 5, 12, 7, 5,
  11, 12, 14, 15, 14, 15, 9, 8, 9, 14, 5, 6, 8, 6, 5, 12,
  9, 15, 5, 11, 6, 8, 13, 12, 5, 12, 13, 14, 11, 8, 5, 6]

def sR : Array UInt32 := #[
  8, 9, 9, 11, 13, 15, 15, 5, 7, 7, 8, 11, 14, 14, 12, 6,
  9, 13, 15, 7, 12, 8, 9, 11, 7, 7, 12, 7, 6, 15, 13, 11,
  9, 7, 15, 11, 8, 6, 6, 14, 12, 13, 5, 14, 13, 13, 7, 5,
  15, 5, 8, 11, 14, 14, 6, 14, 6, 9, 12, 9, 12, 5, 15, 8,
  8, 5, 12, 9, 12, 5, 14, 6, 8, 13, 6, 5, 15, 13, 11, 11]

def kL : Array UInt32 := #[0x00000000, 0x5a827999, 0x6ed9eba1, 0x8f1bbcdc, 0xa953fd4e]
def kR : Array UInt32 := #[0x50a28be6, 0x5c4dd124, 0x6d703ef3, 0x7a6d76e9, 0x00000000]

@[inline] def f (j : Nat) (x y z : UInt32) : UInt32 :=
  if j < 16 then x ^^^ y ^^^ z
  else if j < 32 then (x &&& y) ||| ((~~~ x) &&& z)
  else if j < 48 then (x ||| (~~~ y)) ^^^ z
  else if j < 64 then (x &&& z) ||| (y &&& (~~~ z))
  else x ^^^ (y ||| (~~~ z))

def le32 (b : ByteArray) (i : Nat) : UInt32 :=
  (b.get! i).toUInt32 ||| ((b.get! (i+1)).toUInt32 <<< 8) |||
  ((b.get! (i+2)).toUInt32 <<< 16) ||| ((b.get! (i+3)).toUInt32 <<< 24)

structure St where
  a : UInt32
  b : UInt32
  c : UInt32
  d : UInt32
  e : UInt32

def init : St := ⟨0x67452301, 0xefcdab89, 0x98badcfe, 0x10325476, 0xc3d2e1f0⟩

def compress (s : St) (blk : ByteArray) (off : Nat) : St := Id.run do
  let mut x : Array UInt32 := Array.mkEmpty 16
  for i in [0:16] do
    x := x.push (le32 blk (off + 4*i))
  let mut al := s.a; let mut bl := s.b; let mut cl := s.c; let mut dl := s.d; let mut el := s.e
  let mut ar := s.a; let mut br := s.b; let mut cr := s.c; let mut dr := s.d; let mut er := s.e
  for j in [0:80] do
    let t := rotl (al + f j bl cl dl + x[rL[j]!]! + kL[j / 16]!) sL[j]! + el
    al := el; el := dl; dl := rotl cl 10; cl := bl; bl := t
    let t := rotl (ar + f (79 - j) br cr dr + x[rR[j]!]! + kR[j / 16]!) sR[j]! + er
    ar := er; er := dr; dr := rotl cr 10; cr := br; br := t
  let t := s.b + cl + dr
  return ⟨t, s.c + dl + er, s.d + el + ar, s.e + al + br, s.a + bl + cr⟩

def pad (msg : ByteArray) : ByteArray := Id.run do
  let len := msg.size
  let mut m := msg.push 0x80
  while m.size % 64 != 56 do
    m := m.push 0
  let bits := len * 8
  for i in [0:8] do
    m := m.push (UInt8.ofNat (bits >>> (8 * i) % 256))
  return m

def put32 (out : ByteArray) (x : UInt32) : ByteArray :=
  (((out.push x.toUInt8).push (x >>> 8).toUInt8).push (x >>> 16).toUInt8).push (x >>> 24).toUInt8

def hash (msg : ByteArray) : ByteArray := Id.run do
  let m := pad msg
  let mut s := init
  for i in [0:m.size / 64] do
    s := compress s m (64 * i)
  let mut out := ByteArray.emptyWithCapacity 20
  for x in [s.a, s.b, s.c, s.d, s.e] do
    out := put32 out x
  return out

def hashList (l : List UInt8) : List UInt8 := (hash (ByteArray.mk l.toArray)).toList

end BV.Ripemd160
