/-
C13 helper lemmas: weight/size arithmetic, witness commitment, finality, sequence locks. Core-only.
-/
import BV.C13.Model
namespace BV.C13.Lemmas
open BV.C13 BV.C13.Spec

/-! ### sizes -/
theorem leBytes_length (n k : Nat) : (leBytes n k).length = k := by
  induction k generalizing n with
  | zero => rfl
  | succ k ih => simp [leBytes, ih]

theorem varInt_length (n : Nat) : (varInt n).length = varIntSize n := by
  unfold varInt varIntSize
  split
  · rfl
  · split
    · simp [leBytes_length]
    · split <;> simp [leBytes_length]

theorem serIn_length (i : TxIn) (h : i.prevHash.length = 32) : (serIn i).length = inSize i := by
  simp only [serIn, inSize, List.length_append, leBytes_length, varInt_length, h]; omega

theorem serOut_length (o : TxOut) : (serOut o).length = outSize o := by
  simp only [serOut, outSize, List.length_append, leBytes_length, varInt_length]

theorem flatten_map_length {β : Type} (f : β → Bytes) (g : β → Nat) (l : List β)
    (h : ∀ x ∈ l, (f x).length = g x) : ((l.map f).flatten).length = (l.map g).sum := by
  induction l with
  | nil => rfl
  | cons a r ih =>
    simp only [List.map_cons, List.flatten_cons, List.length_append, List.sum_cons]
    rw [h a (by simp), ih (fun x hx => h x (by simp [hx]))]

theorem serWitness_length (w : List Bytes) : (serWitness w).length = witnessSize w := by
  simp only [serWitness, witnessSize, List.length_append, varInt_length]
  rw [flatten_map_length (fun x => varInt x.length ++ x) (fun x => varIntSize x.length + x.length)]
  intro x _; simp [varInt_length]

def Tx.wf (t : Tx) : Prop := ∀ i ∈ t.ins, i.prevHash.length = 32

theorem serialize_stripped_length (t : Tx) (h : Tx.wf t) : (t.serialize false).length = t.baseSize := by
  simp only [Tx.serialize, Tx.baseSize, Bool.false_and, List.length_append, leBytes_length,
    varInt_length, List.length_nil, Bool.false_eq_true, if_false]
  rw [flatten_map_length serIn inSize t.ins (fun i hi => serIn_length i (h i hi)),
    flatten_map_length serOut outSize t.outs (fun o _ => serOut_length o)]
  omega

theorem serialize_full_length (t : Tx) (h : Tx.wf t) : (t.serialize true).length = t.totalSize := by
  simp only [Tx.serialize, Tx.totalSize, Tx.baseSize, Bool.true_and, List.length_append, leBytes_length,
    varInt_length]
  rw [flatten_map_length serIn inSize t.ins (fun i hi => serIn_length i (h i hi)),
    flatten_map_length serOut outSize t.outs (fun o _ => serOut_length o)]
  by_cases hw : t.hasWitness = true
  · simp only [hw, if_true, List.length_cons, List.length_nil]
    rw [flatten_map_length (fun i => serWitness i.witness) (fun i => witnessSize i.witness) t.ins
      (fun i _ => serWitness_length i.witness)]
    omega
  · have hw' : t.hasWitness = false := by simpa using hw
    simp only [hw', Bool.false_eq_true, if_false, List.length_nil]; omega

theorem txWeight_def (t : Tx) (h : Tx.wf t) :
    txWeight t = 3 * (t.serialize false).length + (t.serialize true).length := by
  rw [serialize_stripped_length t h, serialize_full_length t h]
  unfold txWeight WITNESS_SCALE_FACTOR; omega

theorem sum_weights (txs : List Tx) :
    (txs.map txWeight).sum = 3 * (txs.map Tx.baseSize).sum + (txs.map Tx.totalSize).sum := by
  induction txs with
  | nil => rfl
  | cons t r ih =>
    simp only [List.map_cons, List.sum_cons, ih]
    unfold txWeight WITNESS_SCALE_FACTOR; omega

theorem blockWeight_def (txs : List Tx) :
    blockWeight txs = 4 * (80 + varIntSize txs.length) + (txs.map txWeight).sum := by
  rw [sum_weights]; unfold blockWeight WITNESS_SCALE_FACTOR; simp only []; omega

theorem baseSize_le_totalSize (t : Tx) : t.baseSize ≤ t.totalSize := by
  unfold Tx.totalSize; omega

/-! ### sigop cost accumulator -/
theorem witnessLoop_acc : ∀ (l : List (TxIn × Utxo)) (a : Nat),
    witnessLoop l a = (witnessLoop l 0).map (a + ·) := by
  intro l
  induction l with
  | nil => intro a; simp [witnessLoop]
  | cons x r ih =>
    intro a
    obtain ⟨i, u⟩ := x
    cases u with
    | none => simp [witnessLoop]
    | some pk =>
      simp only [witnessLoop]
      rw [ih (a + _), ih (0 + _)]
      cases witnessLoop r 0 with
      | none => rfl
      | some v => simp only [Option.map_some]; congr 1; omega

/-! ### witness commitment -/
theorem isPrefixOf_iff_take (p l : Bytes) : p.isPrefixOf l = true ↔ l.take p.length = p := by
  rw [List.isPrefixOf_iff_prefix, List.prefix_iff_eq_take]
  constructor <;> intro h <;> exact h.symm

theorem extractLoop_eq (l : List Bytes) :
    extractLoop l = match l.find? isCommitmentScript with
      | some pk => some ((pk.drop 6).take 32)
      | none => none := by
  induction l with
  | nil => rfl
  | cons pk r ih =>
    have hiff : (pk.length ≥ CoinbaseWitnessPkScriptLength ∧ WitnessMagicBytes.isPrefixOf pk = true) ↔
        isCommitmentScript pk = true := by
      unfold isCommitmentScript COMMITMENT_MIN_LEN CoinbaseWitnessPkScriptLength
      rw [isPrefixOf_iff_take]
      simp only [WitnessMagicBytes, COMMITMENT_MAGIC, List.length_cons, List.length_nil, ge_iff_le]
      exact ⟨fun h => decide_eq_true h, fun h => of_decide_eq_true h⟩
    rw [extractLoop, List.find?_cons]
    by_cases hc : isCommitmentScript pk = true
    · rw [if_pos (hiff.mpr hc)]; simp only [hc]
      simp only [CoinbaseWitnessPkScriptLength, WitnessMagicBytes, List.length_cons, List.length_nil,
        List.drop_take]
    · have hc' : isCommitmentScript pk = false := by simpa using hc
      rw [if_neg (fun h => hc (hiff.mp h))]; simp only [hc']; exact ih

theorem extractCommitment_eq_spec (t : Tx) :
    extractWitnessCommitment t = if t.isCoinBase then commitment (t.outs.map (·.pk)) else none := by
  unfold extractWitnessCommitment commitment
  by_cases h : t.isCoinBase = true
  · simp only [h, Bool.not_true, Bool.false_eq_true, if_false, if_true]; exact extractLoop_eq _
  · simp [h]

/-! ### finality -/
theorem finalized_eq_spec (lt : Nat) (seqs : List Nat) (h t : Int) :
    isFinalizedTransaction lt seqs h t = isFinal lt seqs h t := by
  unfold isFinalizedTransaction isFinal LOCKTIME_THRESHOLD SEQUENCE_FINAL
  by_cases h0 : lt = 0
  · simp [h0]
  · by_cases h1 : (lt : Int) < (if lt < 500000000 then h else t)
    · simp [h0, h1]
    · rw [Bool.eq_iff_iff]; simp [h0, h1, List.all_eq_true]

/-! ### sequence locks -/
theorem toInt32_id (n : Nat) (h : n < 2^31) : toInt32 n = n := by
  unfold toInt32
  have : n % 2^32 = n := Nat.mod_eq_of_lt (by omega)
  rw [this]; simp [h]

theorem wrap32_id (x : Int) (h0 : -2^31 ≤ x) (h1 : x < 2^31) : wrap32 x = x := by
  unfold wrap32 toInt32
  by_cases hx : 0 ≤ x
  · have e : (x % 2^32).toNat = x.toNat := by congr 1; omega
    rw [e]
    have : x.toNat % 2^32 = x.toNat := Nat.mod_eq_of_lt (by omega)
    rw [this]
    have : x.toNat < 2^31 := by omega
    simp only [this, if_true]; omega
  · have e : (x % 2^32).toNat = (x + 2^32).toNat := by congr 1; omega
    rw [e]
    have : (x + 2^32).toNat % 2^32 = (x + 2^32).toNat := Nat.mod_eq_of_lt (by omega)
    rw [this]
    have : ¬ (x + 2^32).toNat < 2^31 := by omega
    simp only [this, if_false]; omega

/-- the input as BIP68 sees it -/
def toSeqInput (nextHeight : Int) (i : LockInput) : SeqInput :=
  ⟨i.seq, (match i.height with | some h => if h = 0x7fffffff then nextHeight else h | none => 0), i.prevMtp⟩

/-- every input is in the view and its (effective) height leaves room for the 16-bit offset -/
def LockInputsOk (nextHeight : Int) (ins : List LockInput) : Prop :=
  ∀ i ∈ ins, ∃ h, i.height = some h ∧
    0 ≤ (if h = 0x7fffffff then nextHeight else h) ∧ (if h = 0x7fffffff then nextHeight else h) + 65535 < 2^31

def bipStep (acc : Int × Int) (i : SeqInput) : Int × Int :=
  if i.seq / SEQ_DISABLE_FLAG % 2 = 1 then acc
  else if i.seq / SEQ_TYPE_FLAG % 2 = 1 then
    (acc.1, max acc.2 (i.prevMtp + ((i.seq % (SEQ_MASK + 1) * 2^SEQ_GRANULARITY : Nat) : Int) - 1))
  else (max acc.1 (i.height + ((i.seq % (SEQ_MASK + 1) : Nat) : Int) - 1), acc.2)

theorem lockLoop_eq (nh : Int) : ∀ (ins : List LockInput) (secs ht : Int), LockInputsOk nh ins →
    -1 ≤ ht → ht < 2^31 →
    lockLoop nh ins secs ht =
      (let r := (ins.map (toSeqInput nh)).foldl bipStep (ht, secs); LockResult.ok r.2 r.1) := by
  intro ins
  induction ins with
  | nil => intro secs ht _ _ _; rfl
  | cons i r ih =>
    intro secs ht hok hlo hhi
    obtain ⟨h0, hh, hge, hlt⟩ := hok i (by simp)
    have hok' : LockInputsOk nh r := fun x hx => hok x (by simp [hx])
    simp only [lockLoop, hh, List.map_cons, List.foldl_cons]
    have hmask : i.seq % 2^16 < 65536 := Nat.mod_lt _ (by decide)
    by_cases hd : i.seq / 2^31 % 2 = 1
    · simp only [hd, if_true]
      rw [ih secs ht hok' hlo hhi]
      simp [bipStep, toSeqInput, SEQ_DISABLE_FLAG, hd]
    · simp only [hd, if_false]
      by_cases ht' : i.seq / 2^22 % 2 = 1
      · simp only [ht', if_true]
        rw [ih _ ht hok' hlo hhi]
        have e : (if i.prevMtp + (((i.seq % 2^16 : Nat) : Int) * 512 - 1) > secs
            then i.prevMtp + (((i.seq % 2^16 : Nat) : Int) * 512 - 1) else secs) =
            max secs (i.prevMtp + ((i.seq % (SEQ_MASK + 1) * 2^SEQ_GRANULARITY : Nat) : Int) - 1) := by
          simp only [SEQ_MASK, SEQ_GRANULARITY]
          omega
        simp only [e, bipStep, toSeqInput, SEQ_DISABLE_FLAG, SEQ_TYPE_FLAG, hd, ht', hh, if_true, if_false]
      · simp only [ht', if_false]
        have hrel : wrap32 (((i.seq % 2^16 : Nat) : Int) - 1) = ((i.seq % 2^16 : Nat) : Int) - 1 :=
          wrap32_id _ (by omega) (by omega)
        have hsum : wrap32 ((if h0 = 0x7fffffff then nh else h0) + (((i.seq % 2^16 : Nat) : Int) - 1)) =
            (if h0 = 0x7fffffff then nh else h0) + (((i.seq % 2^16 : Nat) : Int) - 1) :=
          wrap32_id _ (by omega) (by omega)
        rw [hrel, hsum]
        have e : (if (if h0 = 0x7fffffff then nh else h0) + (((i.seq % 2^16 : Nat) : Int) - 1) > ht
            then (if h0 = 0x7fffffff then nh else h0) + (((i.seq % 2^16 : Nat) : Int) - 1) else ht) =
            max ht ((if h0 = 0x7fffffff then nh else h0) + ((i.seq % (SEQ_MASK + 1) : Nat) : Int) - 1) := by
          simp only [SEQ_MASK]
          omega
        rw [ih secs _ hok' (by rw [e]; omega) (by rw [e]; omega)]
        simp only [e, bipStep, toSeqInput, SEQ_DISABLE_FLAG, SEQ_TYPE_FLAG, hd, ht', hh, if_false]

theorem lockActive_eq_spec (s h bh mtp : Int) :
    sequenceLockActive s h bh mtp = locksSatisfied h s bh mtp := by
  unfold sequenceLockActive locksSatisfied
  by_cases h1 : s ≥ mtp <;> by_cases h2 : h ≥ bh <;> simp [h1, h2] <;> omega

end BV.C13.Lemmas
