/-
C13 helper lemmas: witness-program recognition and witness sigops equal the protocol definitions.
-/
import BV.C13.LemmasScript2
namespace BV.C13.Lemmas
open BV.C13 BV.C13.Spec

theorem tokNext_opcode {b : UInt8} {rest : Bytes} {o : Nat} {d r : Bytes}
    (h : tokNext (b :: rest) = .op o d r) : o = b.toNat := by
  simp only [tokNext] at h
  split at h
  · injection h with h _ _; exact h.symm
  · split at h
    · split at h
      · cases h
      · injection h with h _ _; exact h.symm
    · split at h
      · cases h
      · split at h
        · cases h
        · injection h with h _ _; exact h.symm

/-- the second instruction of a witness program: one canonical push that ends the script -/
def secondTok (x : Nat) (s : Bytes) : Option (Nat × Bytes) :=
  match tokNext s with
  | .op o2 d2 r2 =>
    if !isCanonicalPush o2 d2 then none
    else if r2 = [] then some (x, d2) else none
  | _ => none

theorem getOp_opcode {b : UInt8} {rest : Bytes} {o : Nat} {d r : Bytes}
    (h : getOp (b :: rest) = some (o, d, r)) : o = b.toNat := by
  simp only [getOp] at h
  split at h
  · injection h with h; injection h with h _; exact h.symm
  · split at h
    · cases h
    · injection h with h; injection h with h _; exact h.symm
  · split at h
    · cases h
    · split at h
      · cases h
      · injection h with h; injection h with h _; exact h.symm

theorem secondTok_eq (x : Nat) (l : UInt8) (prog : Bytes) (h2 : 2 ≤ prog.length) (h40 : prog.length ≤ 40) :
    secondTok x (l :: prog) = if l.toNat = prog.length then some (x, prog) else none := by
  unfold secondTok
  rw [tokNext_eq (l :: prog) (by simp only [List.length_cons]; omega)]
  unfold tokOfGetOp
  have hn := l.toNat_lt
  by_cases hd : 1 ≤ l.toNat ∧ l.toNat ≤ 75
  · have hk : opKind l.toNat = .direct l.toNat := by unfold opKind; rw [if_pos hd]
    simp only [getOp]
    rw [hk]; simp only []
    by_cases hr : prog.length < l.toNat
    · have : ¬ l.toNat = prog.length := by omega
      simp [hr, this]
    · simp only [hr, if_false]
      by_cases he : l.toNat = prog.length
      · have hdrop : prog.drop l.toNat = [] := by rw [he]; simp
        have htake : prog.take l.toNat = prog := by rw [he]; simp
        rw [htake, hdrop, he]
        have hc : isCanonicalPush prog.length prog = true := by
          unfold isCanonicalPush
          rw [if_neg (by omega), if_neg (by omega), if_neg (by omega), if_neg (by omega), if_neg (by omega)]
        simp only [hc, he, Bool.not_true, Bool.false_eq_true, if_false, if_true]
      · have hdrop : prog.drop l.toNat ≠ [] := by
          intro h; have := congrArg List.length h; simp at this; omega
        simp [he, hdrop]
  · by_cases hpd : l.toNat = 76 ∨ l.toNat = 77 ∨ l.toNat = 78
    · have hl : ¬ l.toNat = prog.length := by omega
      rw [if_neg hl]
      cases hg : getOp (l :: prog) with
      | none => simp
      | some y =>
        obtain ⟨o, d, r⟩ := y
        have ho := getOp_opcode hg
        have hlen := getOp_data_len hg
        simp only [List.length_cons] at hlen
        simp only []
        have hc : isCanonicalPush o d = false := by
          unfold isCanonicalPush
          rcases hpd with h | h | h
          · rw [if_neg (by omega), if_neg (by omega), if_pos ⟨by omega, by omega⟩]
          · rw [if_neg (by omega), if_neg (by omega), if_neg (by omega), if_pos ⟨by omega, by omega⟩]
          · rw [if_neg (by omega), if_neg (by omega), if_neg (by omega), if_neg (by omega), if_pos ⟨by omega, by omega⟩]
        simp [hc]
    · have hk : opKind l.toNat = .plain := by
        unfold opKind; rw [if_neg hd, if_neg (by omega), if_neg (by omega), if_neg (by omega)]
      simp only [getOp]
      rw [hk]; simp only []
      have hl : ¬ l.toNat = prog.length := by omega
      have hp : prog ≠ [] := by intro h; subst h; simp at h2
      simp [hl, hp]

theorem witnessProgram_eq_spec (s : Bytes) : extractWitnessProgramInfo s = witnessProgram s := by
  match s with
  | [] => simp [extractWitnessProgramInfo, witnessProgram]
  | [v] => simp [extractWitnessProgramInfo, witnessProgram]
  | v :: l :: prog =>
    unfold extractWitnessProgramInfo witnessProgram
    simp only []
    by_cases hlen : (v :: l :: prog).length < 4 ∨ (v :: l :: prog).length > 42
    · rw [if_pos hlen]
      simp only [List.length_cons] at hlen
      have : ¬ (4 ≤ (v :: l :: prog).length ∧ (v :: l :: prog).length ≤ 42 ∧
          (v.toNat = 0 ∨ (OP_1 ≤ v.toNat ∧ v.toNat ≤ OP_16)) ∧ l.toNat + 2 = (v :: l :: prog).length) := by
        simp only [List.length_cons]; omega
      rw [if_neg this]
    · rw [if_neg hlen]
      simp only [List.length_cons] at hlen
      by_cases hsm : v.toNat = 0 ∨ (0x51 ≤ v.toNat ∧ v.toNat ≤ 0x60)
      · have hl : opLen v.toNat = 1 := by
          unfold opLen
          rcases hsm with h | h
          · rw [if_pos h]
          · rw [if_neg (by omega), if_neg (by omega), if_neg (by omega), if_neg (by omega), if_neg (by omega)]
        have ht : tokNext (v :: l :: prog) = .op v.toNat [] (l :: prog) := by
          simp only [tokNext, hl, if_true]
        rw [ht]; simp only []
        have hs : isSmallInt v.toNat = true := by
          unfold isSmallInt; simpa using hsm
        simp only [hs, Bool.not_true, Bool.false_eq_true, if_false]
        have := secondTok_eq (asSmallInt v.toNat) l prog (by omega) (by omega)
        change secondTok (asSmallInt v.toNat) (l :: prog) = _
        rw [this]
        by_cases he : l.toNat = prog.length
        · have hc : (4 ≤ (v :: l :: prog).length ∧ (v :: l :: prog).length ≤ 42 ∧
              (v.toNat = 0 ∨ (OP_1 ≤ v.toNat ∧ v.toNat ≤ OP_16)) ∧ l.toNat + 2 = (v :: l :: prog).length) := by
            simp only [List.length_cons, OP_1, OP_16]
            exact ⟨by omega, by omega, hsm, by omega⟩
          rw [if_pos he, if_pos hc]
          rfl
        · have hc : ¬ (4 ≤ (v :: l :: prog).length ∧ (v :: l :: prog).length ≤ 42 ∧
              (v.toNat = 0 ∨ (OP_1 ≤ v.toNat ∧ v.toNat ≤ OP_16)) ∧ l.toNat + 2 = (v :: l :: prog).length) := by
            simp only [List.length_cons]
            intro h; omega
          rw [if_neg he, if_neg hc]
      · have hs : isSmallInt v.toNat = false := by
          unfold isSmallInt; simpa using hsm
        have : ¬ (4 ≤ (v :: l :: prog).length ∧ (v :: l :: prog).length ≤ 42 ∧
            (v.toNat = 0 ∨ (OP_1 ≤ v.toNat ∧ v.toNat ≤ OP_16)) ∧ l.toNat + 2 = (v :: l :: prog).length) := by
          simp only [OP_1, OP_16]; intro h; exact hsm h.2.2.1
        rw [if_neg this]
        cases ht : tokNext (v :: l :: prog) with
        | op o d r =>
          have := tokNext_opcode ht
          subst this
          simp [hs]
        | done => rfl
        | err => rfl

theorem getWitnessSigOps_eq (pk : Bytes) (wit : List Bytes) (hw : ∀ w ∈ wit, w.length < 2^31) :
    getWitnessSigOps pk wit = match witnessProgram pk with
      | some (v, p) => witnessProgSigOps v p wit
      | none => 0 := by
  unfold getWitnessSigOps
  rw [witnessProgram_eq_spec]
  cases witnessProgram pk with
  | none => rfl
  | some x =>
    obtain ⟨v, p⟩ := x
    simp only [witnessProgSigOps]
    by_cases hv : v = 0
    · simp only [hv, if_true]
      by_cases h20 : p.length = 20
      · simp [h20]
      · simp only [h20, if_false]
        by_cases hne : wit = []
        · subst hne; simp
        · have hl : wit.length > 0 := List.length_pos_iff.mpr hne
          by_cases h32 : p.length = 32
          · have hlast : (wit.getLast?.getD []).length < 2^31 := by
              cases hgl : wit.getLast? with
              | none => simp
              | some w => simp only [Option.getD_some]; exact hw w (List.mem_of_getLast? hgl)
            simp only [h32, hl, hne, and_self, if_true, ne_eq, not_false_eq_true]
            exact countSigOpsV0_eq_spec _ true hlast
          · simp [h32]
    · simp [hv]

theorem witnessSigOps_eq_spec (sig pk : Bytes) (wit : List Bytes) (hs : sig.length < 2^31)
    (hw : ∀ w ∈ wit, w.length < 2^31) :
    getWitnessSigOpCount sig pk wit = witnessSigOps sig pk wit := by
  unfold getWitnessSigOpCount witnessSigOps
  rw [getWitnessSigOps_eq pk wit hw, witnessProgram_eq_spec, isScriptHash_eq]
  cases hp : witnessProgram pk with
  | some x => obtain ⟨v, p⟩ := x; simp
  | none =>
    simp only [Option.isSome_none, Bool.false_eq_true, if_false]
    by_cases h2 : isP2SH pk = true
    · simp only [h2, true_and, if_true]
      rw [pushOnlyLast_eq sig.length sig [] (Nat.le_refl _) hs]
      by_cases he : sig = []
      · subst he
        rw [isPushOnly_done (by simp [tokNext]), finalLoop_done _ (by simp [tokNext])]
        simp
      · have hl : sig.length > 0 := List.length_pos_iff.mpr he
        by_cases hpo : isPushOnly sig = true
        · simp only [hpo, hl, and_self, if_true, he, if_false]
          unfold finalOpcodeData
          simp only [he, if_false]
          cases hf : finalLoop [] sig with
          | none => simp
          | some d =>
            simp only [Option.getD_some]
            rw [getWitnessSigOps_eq d wit hw, witnessProgram_eq_spec]
            by_cases hd : d = []
            · subst hd; simp [witnessProgram]
            · have : d.length > 0 := List.length_pos_iff.mpr hd
              cases hwp : witnessProgram d with
              | none => simp
              | some y => obtain ⟨v, p⟩ := y; simp [this]
        · have hpo' : isPushOnly sig = false := by simpa using hpo
          simp [hpo']
    · have h2' : isP2SH pk = false := by simpa using h2
      simp [h2']

end BV.C13.Lemmas
