/-
C13 helper lemmas: merkle store and rolling store equal the protocol root. Core-only.
-/
import BV.C13.Model
namespace BV.C13.Lemmas
open BV.C13 BV.C13.Spec

section
variable {α : Type} (H : α → α → α) (zero : α)

/-! ### mroot unfolding -/
theorem mroot_nil : mroot H zero [] = zero := by rw [mroot]
theorem mroot_one (a : α) : mroot H zero [a] = a := by rw [mroot]
theorem mroot_two (a b : α) (r : List α) :
    mroot H zero (a :: b :: r) = mroot H zero (pairUp H (a :: b :: r)) := by rw [mroot]

theorem mroot_pair {l : List α} (h : 2 ≤ l.length) : mroot H zero l = mroot H zero (pairUp H l) := by
  match l, h with
  | a :: b :: r, _ => exact mroot_two H zero a b r

theorem pairUp_append_even (l1 l2 : List α) (h : l1.length % 2 = 0) :
    pairUp H (l1 ++ l2) = pairUp H l1 ++ pairUp H l2 := by
  induction l1 using pairUp.induct with
  | case1 => simp [pairUp]
  | case2 a => simp at h
  | case3 a b r ih =>
    simp only [List.length_cons] at h
    simp only [List.cons_append, pairUp]
    rw [ih (by omega)]

/-! ### the linear store -/

def pairOpt : List (Option α) → List (Option α)
  | a :: b :: r => combine H a b :: pairOpt r
  | _ => []

theorem pairOpt_length (l : List (Option α)) : (pairOpt H l).length = l.length / 2 := by
  induction l using pairOpt.induct with
  | case1 a b r ih => simp only [pairOpt, List.length_cons, ih]; omega
  | case2 l h =>
    match l with
    | [] => simp [pairOpt]
    | [a] => simp [pairOpt]
    | a :: b :: r => exact absurd rfl (h a b r)

/-- one level: `m` iterations read the `2m` entries of `todo` and append their parents -/
theorem storeLoop_level (m : Nat) : ∀ (f : Nat) (pre todo out : List (Option α)),
    todo.length = 2 * m →
    storeLoop H (m + f) pre.length (pre ++ todo ++ out) =
      storeLoop H f (pre.length + 2 * m) (pre ++ todo ++ out ++ pairOpt H todo) := by
  induction m with
  | zero =>
    intro f pre todo out h
    have : todo = [] := List.eq_nil_of_length_eq_zero (by omega)
    subst this; simp [pairOpt]
  | succ m ih =>
    intro f pre todo out h
    match todo, h with
    | a :: b :: t, h =>
      have e : m + 1 + f = (m + f) + 1 := by omega
      rw [e, storeLoop]
      have g1 : (pre ++ a :: b :: t ++ out).getD pre.length none = a := by
        simp [List.getD_eq_getElem?_getD, List.getElem?_append_right]
      have g2 : (pre ++ a :: b :: t ++ out).getD (pre.length + 1) none = b := by
        simp [List.getD_eq_getElem?_getD, List.getElem?_append_right]
      rw [g1, g2]
      have := ih f (pre ++ [a, b]) t (out ++ [combine H a b]) (by simp at h; omega)
      simp only [List.length_append, List.length_cons, List.length_nil, List.append_assoc,
        List.cons_append, List.nil_append] at this
      simp only [List.append_assoc, List.cons_append, pairOpt]
      have e2 : pre.length + 2 = pre.length + (0 + 1 + 1) := by omega
      rw [e2, this]
      congr 1
      omega

/-- root of a complete optional tree with `2^k` slots -/
def optRoot : Nat → List (Option α) → Option α
  | 0, l => l.headD none
  | k+1, l => optRoot k (pairOpt H l)

/-- all levels: the loop ends with the root in the last slot -/
theorem storeLoop_last (k : Nat) : ∀ (pre lvl : List (Option α)), lvl.length = 2^k →
    (storeLoop H (2^k - 1) pre.length (pre ++ lvl)).getLast?.getD none = optRoot H k lvl := by
  induction k with
  | zero =>
    intro pre lvl h
    match lvl, h with
    | [x], _ => simp [storeLoop, optRoot]
  | succ k ih =>
    intro pre lvl h
    have hp : 0 < 2^k := Nat.pow_pos (by decide)
    have e : 2^(k+1) - 1 = 2^k + (2^k - 1) := by rw [Nat.pow_succ]; omega
    rw [e]
    have := storeLoop_level H (2^k) (2^k - 1) pre lvl [] (by rw [h, Nat.pow_succ]; omega)
    simp only [List.append_nil] at this
    rw [this]
    have hl : (pairOpt H lvl).length = 2^k := by rw [pairOpt_length, h, Nat.pow_succ]; omega
    have := ih (pre ++ lvl) (pairOpt H lvl) hl
    simp only [List.length_append] at this
    have e3 : pre.length + 2 * 2^k = pre.length + lvl.length := by rw [h, Nat.pow_succ]; omega
    rw [e3, this, optRoot]

theorem pairOpt_replicate : ∀ (j : Nat), j % 2 = 0 →
    pairOpt H (List.replicate j (none : Option α)) = List.replicate (j / 2) none := by
  intro j
  induction j using Nat.strongRecOn with
  | _ j ih =>
    intro hj
    match j, hj with
    | 0, _ => simp [pairOpt]
    | 1, h => simp at h
    | j+2, h =>
      simp only [List.replicate_succ, pairOpt, combine, ih j (by omega) (by omega)]
      rw [show (j+2)/2 = j/2 + 1 by omega, List.replicate_succ]

theorem pairOpt_pad (l : List α) (j : Nat) (h : (l.length + j) % 2 = 0) :
    pairOpt H (l.map some ++ List.replicate j none) =
      (pairUp H l).map some ++ List.replicate ((l.length + j) / 2 - (l.length + 1) / 2) none := by
  induction l using pairUp.induct generalizing j with
  | case1 =>
    simp only [List.length_nil, Nat.zero_add] at h
    simp only [List.map_nil, List.nil_append, pairUp, List.length_nil, Nat.zero_add]
    rw [pairOpt_replicate H j h]
    congr 1
  | case2 a =>
    match j, h with
    | j+1, h =>
      simp only [List.length_cons, List.length_nil] at h
      simp only [List.map_cons, List.map_nil, List.cons_append, List.nil_append, List.replicate_succ,
        pairOpt, combine, pairUp, List.length_cons, List.length_nil]
      rw [pairOpt_replicate H j (by omega)]
      congr 2
      omega
  | case3 a b r ih =>
    simp only [List.length_cons] at h
    have := ih j (by omega)
    simp only [List.map_cons, List.cons_append, pairOpt, combine, pairUp, this, List.length_cons]
    congr 3
    omega

/-- the padded leaf level reduces to the protocol root when `2^k` is the least power ≥ n -/
theorem optRoot_pad (k : Nat) : ∀ (l : List α), 0 < l.length → l.length ≤ 2^k →
    (k = 0 ∨ 2^(k-1) < l.length) →
    optRoot H k (l.map some ++ List.replicate (2^k - l.length) none) = some (mroot H zero l) := by
  induction k with
  | zero =>
    intro l h0 h1 _
    match l, h0, h1 with
    | [a], _, _ => simp [optRoot, mroot_one]
  | succ k ih =>
    intro l h0 h1 h2
    have hp : 0 < 2^k := Nat.pow_pos (by decide)
    have h2 : 2^k < l.length := by
      cases h2 with
      | inl h => omega
      | inr h => simpa using h
    have hl2 : 2 ≤ l.length := by omega
    have hpow : 2^(k+1) = 2 * 2^k := by rw [Nat.pow_succ]; omega
    rw [hpow] at h1
    rw [optRoot, hpow, pairOpt_pad H l _ (by omega), mroot_pair H zero hl2]
    have hpl := pairUp_length H l
    have := ih (pairUp H l) (by rw [hpl]; omega) (by rw [hpl]; omega)
      (by
        cases k with
        | zero => left; rfl
        | succ k =>
          right; simp only [Nat.add_sub_cancel]; rw [hpl]
          have : 2^(k+1) = 2 * 2^k := by rw [Nat.pow_succ]; omega
          omega)
    rw [← this]
    congr 3
    rw [hpl]; omega

/-! ### nextPowerOfTwo -/
theorem nextPow2Aux_spec : ∀ (fuel j n : Nat), 0 < n → n ≤ 2^j * 2^fuel → (j = 0 ∨ 2^(j-1) < n) →
    ∃ k, nextPow2Aux fuel (2^j) n = 2^k ∧ n ≤ 2^k ∧ (k = 0 ∨ 2^(k-1) < n) := by
  intro fuel
  induction fuel with
  | zero => intro j n h0 h1 h2; exact ⟨j, rfl, by simpa using h1, h2⟩
  | succ f ih =>
    intro j n h0 h1 h2
    rw [nextPow2Aux]
    by_cases h : n ≤ 2^j
    · simp only [h, if_true]; exact ⟨j, rfl, h, h2⟩
    · simp only [h, if_false]
      have := ih (j+1) n h0 (by rw [← Nat.pow_add] at *; rwa [show j + 1 + f = j + (f+1) by omega])
        (by right; simp only [Nat.add_sub_cancel]; omega)
      rw [Nat.pow_succ, Nat.mul_comm] at this
      exact this

theorem nextPowerOfTwo_spec (n : Nat) (h : 0 < n) :
    ∃ k, nextPowerOfTwo n = 2^k ∧ n ≤ 2^k ∧ (k = 0 ∨ 2^(k-1) < n) := by
  unfold nextPowerOfTwo
  have hn : n ≠ 0 := by omega
  simp only [hn, if_false]
  have hlt : n ≤ 2^n := Nat.le_of_lt Nat.lt_two_pow_self
  have := nextPow2Aux_spec n 0 n h (by simpa using hlt) (Or.inl rfl)
  simpa using this

theorem storeRoot_eq_spec (l : List α) (h : l ≠ []) : storeRoot H zero l = some (mroot H zero l) := by
  unfold storeRoot buildStore
  simp only [h, if_false]
  have hl : 0 < l.length := List.length_pos_iff.mpr h
  obtain ⟨k, hk, hle, hlow⟩ := nextPowerOfTwo_spec l.length hl
  rw [hk]
  have := storeLoop_last H k [] (l.map some ++ List.replicate (2^k - l.length) none)
    (by simp only [List.length_append, List.length_cons, List.length_nil, List.length_map, List.length_replicate]; omega)
  simp only [List.length_nil, List.nil_append] at this
  rw [this]
  exact optRoot_pad H zero k l hl hle hlow

/-! ### the rolling store -/

/-- two perfect subtrees of equal size: the root of the concatenation is the hash of the roots -/
theorem mroot_perfect (k : Nat) : ∀ (xs ys : List α), xs.length = 2^k → ys.length = 2^k →
    mroot H zero (xs ++ ys) = H (mroot H zero xs) (mroot H zero ys) := by
  induction k with
  | zero =>
    intro xs ys hx hy
    match xs, ys, hx, hy with
    | [a], [b], _, _ => simp [mroot_two, pairUp, mroot_one]
  | succ k ih =>
    intro xs ys hx hy
    have hp : 0 < 2^k := Nat.pow_pos (by decide)
    have hpow : 2^(k+1) = 2 * 2^k := by rw [Nat.pow_succ]; omega
    rw [mroot_pair H zero (l := xs ++ ys) (by simp only [List.length_append, List.length_cons, List.length_nil, List.length_map, List.length_replicate]; omega), pairUp_append_even H xs ys (by omega),
      ih _ _ (by rw [pairUp_length]; omega) (by rw [pairUp_length]; omega),
      ← mroot_pair H zero (l := xs) (by omega), ← mroot_pair H zero (l := ys) (by omega)]

/-- duplicating the last level-`j` subtree of an odd level (> 1 node) does not change the root:
    this is exactly the protocol's "hash the last node with itself" rule at level `j` -/
theorem mroot_dup (j : Nat) : ∀ (m : Nat) (L1 L2 : List α), 1 ≤ m → L1.length = 2 * m * 2^j →
    L2.length = 2^j → mroot H zero (L1 ++ L2 ++ L2) = mroot H zero (L1 ++ L2) := by
  induction j with
  | zero =>
    intro m L1 L2 hm h1 h2
    match L2, h2 with
    | [x], _ =>
      simp only [Nat.pow_zero, Nat.mul_one] at h1
      rw [mroot_pair H zero (l := L1 ++ [x] ++ [x]) (by simp only [List.length_append, List.length_cons, List.length_nil, List.length_map, List.length_replicate]; omega),
        mroot_pair H zero (l := L1 ++ [x]) (by simp only [List.length_append, List.length_cons, List.length_nil, List.length_map, List.length_replicate]; omega), List.append_assoc,
        pairUp_append_even H L1 _ (by omega), pairUp_append_even H L1 _ (by omega)]
      simp [pairUp]
  | succ j ih =>
    intro m L1 L2 hm h1 h2
    have hp : 0 < 2^j := Nat.pow_pos (by decide)
    have hpow : 2^(j+1) = 2 * 2^j := by rw [Nat.pow_succ]; omega
    have hmp : 1 * 2^j ≤ m * 2^j := Nat.mul_le_mul_right _ hm
    have h1' : L1.length = 2 * (2 * (m * 2^j)) := by rw [h1, hpow]; simp only [Nat.mul_assoc, Nat.mul_left_comm]
    rw [mroot_pair H zero (l := L1 ++ L2 ++ L2) (by simp only [List.length_append, List.length_cons, List.length_nil, List.length_map, List.length_replicate]; omega),
      mroot_pair H zero (l := L1 ++ L2) (by simp only [List.length_append, List.length_cons, List.length_nil, List.length_map, List.length_replicate]; omega), List.append_assoc,
      pairUp_append_even H L1 _ (by omega), pairUp_append_even H L2 _ (by omega),
      pairUp_append_even H L1 _ (by omega), ← List.append_assoc]
    exact ih m _ _ hm (by rw [pairUp_length, h1', Nat.mul_assoc]; omega) (by rw [pairUp_length]; omega)

/-- `Rep n j roots L`: `roots` (top of the stack first = lowest level first) are the roots of the
    perfect subtrees given by the binary expansion of `n`, bit `i` of `n` standing for a subtree
    over `2^(j+i)` leaves; `L` is the concatenation of their leaves (higher levels to the left). -/
def Rep (n j : Nat) (roots L : List α) : Prop :=
  if n = 0 then roots = [] ∧ L = []
  else if n % 2 = 1 then
    ∃ r rs L1 L2, roots = r :: rs ∧ L = L1 ++ L2 ∧ L2.length = 2^j ∧ r = mroot H zero L2 ∧
      Rep (n / 2) (j + 1) rs L1
  else Rep (n / 2) (j + 1) roots L
termination_by n
decreasing_by all_goals omega

theorem rep_zero (j : Nat) (roots L : List α) : Rep H zero 0 j roots L ↔ roots = [] ∧ L = [] := by
  rw [Rep]; simp

theorem rep_odd {n : Nat} (h : n % 2 = 1) (j : Nat) (roots L : List α) :
    Rep H zero n j roots L ↔ ∃ r rs L1 L2, roots = r :: rs ∧ L = L1 ++ L2 ∧ L2.length = 2^j ∧
      r = mroot H zero L2 ∧ Rep H zero (n / 2) (j + 1) rs L1 := by
  have h0 : n ≠ 0 := by omega
  rw [Rep]; simp only [h0, h, if_true, if_false]

theorem rep_even {n : Nat} (h0 : n ≠ 0) (h : n % 2 = 0) (j : Nat) (roots L : List α) :
    Rep H zero n j roots L ↔ Rep H zero (n / 2) (j + 1) roots L := by
  have h1 : ¬ n % 2 = 1 := by omega
  rw [Rep]; simp only [h0, h1, if_false]

theorem rep_length : ∀ (n j : Nat) (roots L : List α), Rep H zero n j roots L → L.length = n * 2^j := by
  intro n
  induction n using Nat.strongRecOn with
  | _ n ih =>
    intro j roots L h
    by_cases h0 : n = 0
    · subst h0; rw [rep_zero] at h; simp [h.2]
    · have hpow : 2^(j+1) = 2 * 2^j := by rw [Nat.pow_succ]; omega
      by_cases h1 : n % 2 = 1
      · rw [rep_odd H zero h1] at h
        obtain ⟨r, rs, L1, L2, _, hL, hl2, _, hrep⟩ := h
        have := ih (n/2) (by omega) _ _ _ hrep
        rw [hL, List.length_append, this, hl2, hpow]
        have e : n = 2 * (n/2) + 1 := by omega
        calc n / 2 * (2 * 2^j) + 2^j = (2 * (n/2) + 1) * 2^j := by
              rw [Nat.add_mul, Nat.one_mul, Nat.mul_left_comm, Nat.mul_assoc]
          _ = n * 2^j := by rw [← e]
      · rw [rep_even H zero h0 (by omega)] at h
        have := ih (n/2) (by omega) _ _ _ h
        rw [this, hpow]
        have e : n = 2 * (n/2) := by omega
        calc n / 2 * (2 * 2^j) = (2 * (n/2)) * 2^j := by rw [Nat.mul_left_comm, Nat.mul_assoc]
          _ = n * 2^j := by rw [← e]

theorem rep_nil_roots : ∀ (n j : Nat) (L : List α), Rep H zero n j [] L → n = 0 ∧ L = [] := by
  intro n
  induction n using Nat.strongRecOn with
  | _ n ih =>
    intro j L h
    by_cases h0 : n = 0
    · subst h0; rw [rep_zero] at h; exact ⟨rfl, h.2⟩
    · by_cases h1 : n % 2 = 1
      · rw [rep_odd H zero h1] at h
        obtain ⟨r, rs, L1, L2, hr, _⟩ := h
        cases hr
      · rw [rep_even H zero h0 (by omega)] at h
        have := (ih (n/2) (by omega) _ _ h).1
        omega

theorem rep_single : ∀ (n j : Nat) (r : α) (L : List α), Rep H zero n j [r] L → r = mroot H zero L := by
  intro n
  induction n using Nat.strongRecOn with
  | _ n ih =>
    intro j r L h
    by_cases h0 : n = 0
    · subst h0; rw [rep_zero] at h; cases h.1
    · by_cases h1 : n % 2 = 1
      · rw [rep_odd H zero h1] at h
        obtain ⟨r', rs, L1, L2, hr, hL, _, hr2, hrep⟩ := h
        injection hr with hr hrs
        subst hrs hr
        have := (rep_nil_roots H zero _ _ _ hrep).2
        subst this
        rw [hL, hr2]; simp
      · rw [rep_even H zero h0 (by omega)] at h
        exact ih (n/2) (by omega) _ _ _ h

theorem addLoop_odd {n : Nat} (h : n % 2 = 1) (r : α) (rs : List α) (x : α) :
    addLoop H n (r :: rs) x = addLoop H (n / 2) rs (H r x) := by
  rw [addLoop.eq_def]; simp only [h, if_true]

theorem addLoop_even {n : Nat} (h : ¬ n % 2 = 1) (roots : List α) (x : α) :
    addLoop H n roots x = some (x :: roots) := by
  rw [addLoop.eq_def]; simp only [h, if_false]

/-- `add` is binary increment with carry = `H` -/
theorem addLoop_rep : ∀ (n j : Nat) (roots L xs : List α), Rep H zero n j roots L → xs.length = 2^j →
    ∃ roots', addLoop H n roots (mroot H zero xs) = some roots' ∧ Rep H zero (n + 1) j roots' (L ++ xs) := by
  intro n
  induction n using Nat.strongRecOn with
  | _ n ih =>
    intro j roots L xs h hx
    by_cases h0 : n = 0
    · subst h0
      rw [rep_zero] at h
      obtain ⟨hr, hL⟩ := h
      subst hr hL
      refine ⟨[mroot H zero xs], addLoop_even H (by decide) _ _, ?_⟩
      rw [rep_odd H zero (by decide)]
      exact ⟨_, [], [], xs, rfl, rfl, hx, rfl, by rw [rep_zero]; exact ⟨rfl, rfl⟩⟩
    · by_cases h1 : n % 2 = 1
      · rw [rep_odd H zero h1] at h
        obtain ⟨r, rs, L1, L2, hr, hL, hl2, hr2, hrep⟩ := h
        subst hr hL
        have hpow : 2^(j+1) = 2 * 2^j := by rw [Nat.pow_succ]; omega
        obtain ⟨roots', ha, hrep'⟩ := ih (n/2) (by omega) (j+1) rs L1 (L2 ++ xs) hrep
          (by rw [List.length_append, hl2, hx, hpow]; omega)
        refine ⟨roots', ?_, ?_⟩
        · rw [addLoop_odd H h1, hr2, ← mroot_perfect H zero j L2 xs hl2 hx]; exact ha
        · rw [rep_even H zero (by omega) (by omega)]
          rw [show (n + 1) / 2 = n / 2 + 1 by omega, List.append_assoc]; exact hrep'
      · have h2 := h
        rw [rep_even H zero h0 (by omega)] at h2
        refine ⟨mroot H zero xs :: roots, addLoop_even H h1 _ _, ?_⟩
        rw [rep_odd H zero (by omega)]
        exact ⟨_, roots, L, xs, rfl, rfl, hx, rfl, by rw [show (n + 1) / 2 = n / 2 by omega]; exact h2⟩

theorem stripZeros_odd {n : Nat} (h : n % 2 = 1) : stripZeros n = n := by
  rw [stripZeros]; have : n ≠ 0 := by omega
  simp [this]; omega

theorem stripZeros_even {n : Nat} (h0 : n ≠ 0) (h : n % 2 = 0) : stripZeros n = stripZeros (n / 2) := by
  rw [stripZeros]; simp [h0, h]

theorem strip_rep : ∀ (n j : Nat) (roots L : List α), n ≠ 0 → Rep H zero n j roots L →
    ∃ z, Rep H zero (stripZeros n) (j + z) roots L ∧ stripZeros n % 2 = 1 ∧
      (n % 2 = 0 → stripZeros n ≤ n / 2) := by
  intro n
  induction n using Nat.strongRecOn with
  | _ n ih =>
    intro j roots L h0 h
    by_cases h1 : n % 2 = 1
    · exact ⟨0, by rw [stripZeros_odd h1]; exact h, by rw [stripZeros_odd h1]; exact h1, by omega⟩
    · rw [rep_even H zero h0 (by omega)] at h
      obtain ⟨z, hz, ho, hle⟩ := ih (n/2) (by omega) (j+1) roots L (by omega) h
      refine ⟨z + 1, ?_, ?_, ?_⟩
      · rw [stripZeros_even h0 (by omega), show j + (z + 1) = j + 1 + z by omega]; exact hz
      · rw [stripZeros_even h0 (by omega)]; exact ho
      · intro _
        rw [stripZeros_even h0 (by omega)]
        by_cases h2 : n / 2 % 2 = 0
        · have := hle h2; omega
        · rw [stripZeros_odd (by omega)]; omega

/-- the finishing loop returns the protocol root of the leaves represented at its entry -/
theorem finLoop_rep : ∀ (fuel n j : Nat) (roots L : List α), n ≠ 0 → n % 2 = 0 ∨ roots.length ≤ 1 →
    n ≤ fuel → Rep H zero n j roots L → finLoop H fuel ⟨roots, n⟩ = some (mroot H zero L) := by
  intro fuel
  induction fuel with
  | zero => intro n j roots L h0 _ hf _; omega
  | succ f ih =>
    intro n j roots L h0 hev hf h
    rw [finLoop]
    by_cases hlen : roots.length > 1
    · simp only [hlen, if_true]
      have hn2 : n % 2 = 0 := by cases hev with | inl h => exact h | inr h => omega
      obtain ⟨z, hz, ho, hle⟩ := strip_rep H zero n j roots L h0 h
      have hle := hle hn2
      rw [rep_odd H zero ho] at hz
      obtain ⟨r, rs, L1, L2, hr, hL, hl2, hr2, hrep⟩ := hz
      subst hr
      subst hr2
      have hrs : rs ≠ [] := by intro e; subst e; simp at hlen
      have hm : stripZeros n / 2 ≠ 0 := by
        intro e; rw [e, rep_zero] at hrep; exact hrs hrep.1
      have hL1 := rep_length H zero _ _ _ _ hrep
      have hpow : 2^(j+z+1) = 2 * 2^(j+z) := by rw [Nat.pow_succ]; omega
      have hrep2 : Rep H zero (stripZeros n) (j+z) (mroot H zero L2 :: rs) L := by
        rw [rep_odd H zero ho]; exact ⟨_, rs, L1, L2, rfl, hL, hl2, rfl, hrep⟩
      obtain ⟨roots', ha, hrep'⟩ := addLoop_rep H zero _ _ _ _ L2 hrep2 hl2
      simp only [Roll.add]
      rw [ha]
      simp only [Option.map_some, Option.bind_some]
      rw [ih (stripZeros n + 1) (j+z) roots' (L ++ L2) (by omega) (Or.inl (by omega)) (by omega) hrep']
      rw [hL]
      rw [mroot_dup H zero (j+z) (stripZeros n / 2) L1 L2 (by omega)
        (by rw [hL1, hpow]; simp only [Nat.mul_assoc, Nat.mul_left_comm]) hl2]
    · simp only [hlen, if_false]
      clear hev
      match roots, hlen, h with
      | [], _, h => exact absurd (rep_nil_roots H zero _ _ _ h).1 h0
      | [r], _, h => simp [rep_single H zero _ _ _ _ h]
      | _ :: _ :: _, hl, _ => exact absurd (by simp) hl

theorem addAll_rep : ∀ (xs : List α) (n : Nat) (roots L : List α), Rep H zero n 0 roots L →
    ∃ roots', addAll H ⟨roots, n⟩ xs = some ⟨roots', n + xs.length⟩ ∧
      Rep H zero (n + xs.length) 0 roots' (L ++ xs) := by
  intro xs
  induction xs with
  | nil => intro n roots L h; exact ⟨roots, rfl, by simpa using h⟩
  | cons x xs ih =>
    intro n roots L h
    obtain ⟨r1, ha, hrep⟩ := addLoop_rep H zero n 0 roots L [x] h rfl
    rw [mroot_one] at ha
    obtain ⟨r2, hb, hrep2⟩ := ih (n+1) r1 (L ++ [x]) hrep
    refine ⟨r2, ?_, ?_⟩
    · simp only [addAll, Roll.add, ha, Option.map_some, Option.bind_some, hb, List.length_cons]
      congr 2; omega
    · simp only [List.length_cons]
      rw [show n + (xs.length + 1) = n + 1 + xs.length by omega]
      simpa using hrep2

theorem rollingRoot_eq_spec (l : List α) (h : l ≠ []) : rollingRoot H zero l = some (mroot H zero l) := by
  unfold rollingRoot
  simp only [h, if_false]
  obtain ⟨roots, ha, hrep⟩ := addAll_rep H zero l 0 [] [] (by rw [rep_zero]; exact ⟨rfl, rfl⟩)
  simp only [Nat.zero_add, List.nil_append] at ha hrep
  rw [ha]
  simp only [Option.bind_some]
  have hl : 0 < l.length := List.length_pos_iff.mpr h
  by_cases h1 : l.length = 1
  · simp only [h1, if_true]
    rw [h1, rep_odd H zero (by decide)] at hrep
    obtain ⟨r, rs, L1, L2, hr, hL, _, hr2, hrep⟩ := hrep
    rw [show 1 / 2 = 0 by decide, rep_zero] at hrep
    obtain ⟨e1, e2⟩ := hrep
    subst e1 e2 hr
    simp [hL, hr2]
  · simp only [h1, if_false]
    by_cases hodd : l.length % 2 ≠ 0
    · rw [if_pos hodd]
      obtain ⟨l', x, hl'⟩ : ∃ l' x, l = l' ++ [x] := ⟨l.dropLast, l.getLast h, (List.dropLast_concat_getLast h).symm⟩
      subst hl'
      simp only [List.getLast?_concat, Option.getD_some]
      obtain ⟨r2, hb, hrep2⟩ := addLoop_rep H zero _ 0 roots _ [x] hrep rfl
      rw [mroot_one] at hb
      simp only [Roll.add, hb, Option.map_some, Option.bind_some]
      simp only [List.length_append, List.length_cons, List.length_nil] at *
      rw [finLoop_rep H zero _ _ 0 r2 _ (by omega) (Or.inl (by omega)) (Nat.le_refl _) hrep2]
      rw [mroot_dup H zero 0 (l'.length / 2) l' [x] (by omega) (by rw [Nat.pow_zero]; omega) rfl]
    · rw [if_neg hodd]
      simp only [Option.bind_some]
      exact finLoop_rep H zero _ _ 0 roots l (by omega) (Or.inl (by omega)) (Nat.le_refl _) hrep

end
end BV.C13.Lemmas
