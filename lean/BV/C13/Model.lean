/-
C13 Model — executable mirror of
  blockchain/merkle.go          (nextPowerOfTwo, BuildMerkleTreeStore, CalcMerkleRoot,
                                 ExtractWitnessCommitment, ValidateWitnessCommitment)
  blockchain/rolling_merkle.go  (rollingMerkleTreeStore.add, calcMerkleRoot)
  blockchain/weight.go          (GetTransactionWeight, GetBlockWeight, GetSigOpCost)
  blockchain/validate.go        (CountSigOps, CountP2SHSigOps, ExtractCoinbaseHeight,
                                 IsFinalizedTransaction, SequenceLockActive, IsCoinBaseTx)
  blockchain/chain.go           (calcSequenceLock)
  txscript/tokenizer.go, script.go, standard.go, scriptbuilder.go, scriptnum.go
                                (ScriptTokenizer.Next, countSigOpsV0, GetSigOpCount,
                                 GetPreciseSigOpCount, GetWitnessSigOpCount, IsPushOnlyScript,
                                 finalOpcodeData, extractWitnessProgramInfo, isCanonicalPush,
                                 AddInt64)
  wire/msgtx.go                 (btcEncode, baseSize, SerializeSize, HasWitness, TxHash, WitnessHash)
Go panics are the outcome `none` where the merkle code can panic. Core-only.
-/
import BV.C13.Spec
set_option linter.unusedVariables false
namespace BV.C13
open Spec (Bytes)

/-! ### merkle: linear store -/
section merkle
variable {α : Type} (H : α → α → α)

/-- `nextPowerOfTwo` for n ≥ 1 (doubling search; the Go code uses `math.Log2` on a float64, exact
    for every slice length that fits in memory). `nextPowerOfTwo(0) = 0`. -/
def nextPow2Aux : Nat → Nat → Nat → Nat
  | 0, p, _ => p
  | fuel+1, p, n => if n ≤ p then p else nextPow2Aux fuel (2 * p) n

def nextPowerOfTwo (n : Nat) : Nat := if n = 0 then 0 else nextPow2Aux n 1 n

/-- parent of two (possibly nil) children, the three `switch` cases of the store loop -/
def combine : Option α → Option α → Option α
  | none, _ => none
  | some x, none => some (H x x)
  | some x, some y => some (H x y)

/-- the store loop: `i` is the read index, the write index `offset` is `arr.length` (slots at and
    after `offset` are never read before they are written, so the pre-allocated nil slots are
    represented by growing the list). `fuel` = number of iterations `(arraySize-1)/2`. -/
def storeLoop : Nat → Nat → List (Option α) → List (Option α)
  | 0, _, arr => arr
  | fuel+1, i, arr =>
    storeLoop fuel (i + 2) (arr ++ [combine H (arr.getD i none) (arr.getD (i+1) none)])

/-- `BuildMerkleTreeStore` on the leaf hashes (after the `fix:` guard for the empty list);
    `zero` is the all-zero hash. -/
def buildStore (zero : α) (leaves : List α) : List (Option α) :=
  if leaves = [] then [some zero] else
  let p := nextPowerOfTwo leaves.length
  storeLoop H (p - 1) 0 (leaves.map some ++ List.replicate (p - leaves.length) none)

/-- the root as callers take it: the last element of the store -/
def storeRoot (zero : α) (leaves : List α) : Option α :=
  (buildStore H zero leaves).getLast?.getD none

/-! ### merkle: rolling store. `roots` is kept top-first (head = last element of the Go slice). -/

/-- the loop of `add`: while bit `h` of numLeaves is set pop a root and hash; each recursion
    step is `h++` (the bit test `(numLeaves>>h)&1` becomes `n % 2` on the shifted count).
    Popping from an empty slice panics (`none`). -/
def addLoop (n : Nat) (roots : List α) (x : α) : Option (List α) :=
  if n % 2 = 1 then
    match roots with
    | [] => none
    | r :: rs => addLoop (n / 2) rs (H r x)
  else some (x :: roots)
termination_by n
decreasing_by omega

structure Roll (α : Type) where
  roots : List α
  numLeaves : Nat

def Roll.add (s : Roll α) (x : α) : Option (Roll α) :=
  (addLoop H s.numLeaves s.roots x).map (fun r => ⟨r, s.numLeaves + 1⟩)

def addAll : Roll α → List α → Option (Roll α)
  | s, [] => some s
  | s, x :: xs => (s.add H x).bind (fun s => addAll s xs)

/-- `for h := 0; (currentLeaves>>h)&1 == 0; h++ { numLeaves >>= 1 }`; does not terminate on 0 in
    Go (unreachable: guarded by `len(roots) > 1`); the model returns 0. -/
def stripZeros (n : Nat) : Nat :=
  if n = 0 then 0 else if n % 2 = 0 then stripZeros (n / 2) else n
termination_by n
decreasing_by omega

/-- the `for len(s.roots) > 1` loop; running out of fuel is reported as `none` -/
def finLoop : Nat → Roll α → Option α
  | 0, s => if s.roots.length > 1 then none else s.roots.getLast?
  | fuel+1, s =>
    if s.roots.length > 1 then
      let s' : Roll α := ⟨s.roots, stripZeros s.numLeaves⟩
      match s'.roots with
      | [] => none
      | h :: _ => (s'.add H h).bind (finLoop fuel)
    else s.roots.getLast?

/-- `rollingMerkleTreeStore.calcMerkleRoot` on the leaf hashes (with the `fix:` guard) -/
def rollingRoot (zero : α) (leaves : List α) : Option α :=
  if leaves = [] then some zero else
  (addAll H ⟨[], 0⟩ leaves).bind fun s =>
    if s.numLeaves = 1 then s.roots.getLast? else
    let s2 := if leaves.length % 2 ≠ 0 then s.add H (leaves.getLast?.getD zero) else some s
    s2.bind fun s => finLoop H s.numLeaves s

/-- the leaves both constructions hash: txids, or (witness form) wtxids with the coinbase's
    replaced by the zero hash (`case witness && i == 0`) -/
def leafHashes {τ : Type} (txid wtxid : τ → α) (zero : α) (witness : Bool) (txs : List τ) : List α :=
  if witness then
    match txs with
    | [] => []
    | _ :: rest => zero :: rest.map wtxid
  else txs.map txid

end merkle

/-! ### transactions and their wire form -/

structure TxIn where
  prevHash : Bytes        -- 32 bytes
  prevIdx : Nat           -- uint32
  script : Bytes
  seq : Nat               -- uint32
  witness : List Bytes
  deriving Repr

structure TxOut where
  value : Nat             -- the 8 value bytes as a uint64
  pk : Bytes
  deriving Repr

structure Tx where
  version : Nat           -- the 4 version bytes as a uint32
  ins : List TxIn
  outs : List TxOut
  lockTime : Nat          -- uint32
  deriving Repr

def leBytes (n : Nat) : Nat → Bytes
  | 0 => []
  | k+1 => UInt8.ofNat (n % 256) :: leBytes (n / 256) k

/-- `WriteVarInt` -/
def varInt (n : Nat) : Bytes :=
  if n < 0xfd then [UInt8.ofNat n]
  else if n ≤ 0xffff then 0xfd :: leBytes n 2
  else if n ≤ 0xffffffff then 0xfe :: leBytes n 4
  else 0xff :: leBytes n 8

/-- `VarIntSerializeSize` -/
def varIntSize (n : Nat) : Nat :=
  if n < 0xfd then 1 else if n ≤ 0xffff then 3 else if n ≤ 0xffffffff then 5 else 9

def Tx.hasWitness (t : Tx) : Bool := t.ins.any (fun i => i.witness.length ≠ 0)

def serIn (i : TxIn) : Bytes :=
  i.prevHash ++ leBytes i.prevIdx 4 ++ varInt i.script.length ++ i.script ++ leBytes i.seq 4
def serOut (o : TxOut) : Bytes := leBytes o.value 8 ++ varInt o.pk.length ++ o.pk
def serWitness (w : List Bytes) : Bytes :=
  varInt w.length ++ (w.map (fun x => varInt x.length ++ x)).flatten

/-- `MsgTx.btcEncode`; `wit` = WitnessEncoding requested -/
def Tx.serialize (t : Tx) (wit : Bool) : Bytes :=
  let doWit := wit && t.hasWitness
  leBytes t.version 4 ++ (if doWit then [0x00, 0x01] else []) ++
  varInt t.ins.length ++ (t.ins.map serIn).flatten ++
  varInt t.outs.length ++ (t.outs.map serOut).flatten ++
  (if doWit then (t.ins.map (fun i => serWitness i.witness)).flatten else []) ++
  leBytes t.lockTime 4

/-- `TxIn.SerializeSize`, `TxOut.SerializeSize`, `TxWitness.SerializeSize`, `MsgTx.baseSize`,
    `MsgTx.SerializeSize` — the size ARITHMETIC the weight functions use -/
def inSize (i : TxIn) : Nat := 40 + varIntSize i.script.length + i.script.length
def outSize (o : TxOut) : Nat := 8 + varIntSize o.pk.length + o.pk.length
def witnessSize (w : List Bytes) : Nat :=
  varIntSize w.length + (w.map (fun x => varIntSize x.length + x.length)).sum
def Tx.baseSize (t : Tx) : Nat :=
  8 + varIntSize t.ins.length + varIntSize t.outs.length +
    (t.ins.map inSize).sum + (t.outs.map outSize).sum
def Tx.totalSize (t : Tx) : Nat :=
  t.baseSize + (if t.hasWitness then 2 + (t.ins.map (fun i => witnessSize i.witness)).sum else 0)

/-- `GetTransactionWeight` -/
def txWeight (t : Tx) : Nat := t.baseSize * (Spec.WITNESS_SCALE_FACTOR - 1) + t.totalSize

/-- `GetBlockWeight` (header 80 bytes) -/
def blockWeight (txs : List Tx) : Nat :=
  let base := 80 + varIntSize txs.length + (txs.map Tx.baseSize).sum
  let total := 80 + varIntSize txs.length + (txs.map Tx.totalSize).sum
  base * (Spec.WITNESS_SCALE_FACTOR - 1) + total

/-- `IsCoinBaseTx` -/
def Tx.isCoinBase (t : Tx) : Bool :=
  match t.ins with
  | [i] => i.prevIdx = 0xffffffff ∧ i.prevHash = List.replicate 32 0
  | _ => false

/-! ### witness commitment -/

def WitnessMagicBytes : Bytes := [0x6a, 0x24, 0xaa, 0x21, 0xa9, 0xed]
def CoinbaseWitnessPkScriptLength : Nat := 38
def CoinbaseWitnessDataLen : Nat := 32

/-- the backwards loop of `ExtractWitnessCommitment` over the output scripts, given reversed -/
def extractLoop : List Bytes → Option Bytes
  | [] => none
  | pk :: rest =>
    if pk.length ≥ CoinbaseWitnessPkScriptLength ∧ WitnessMagicBytes.isPrefixOf pk then
      some ((pk.take CoinbaseWitnessPkScriptLength).drop WitnessMagicBytes.length)
    else extractLoop rest

/-- `ExtractWitnessCommitment` -/
def extractWitnessCommitment (t : Tx) : Option Bytes :=
  if !t.isCoinBase then none else extractLoop (t.outs.map (·.pk)).reverse

inductive VwcResult | ok | noTransactions | noTxInputs | unexpectedWitness | invalidCommitment | mismatch | panic
  deriving DecidableEq, Repr

/-- `ValidateWitnessCommitment`; `root` = CalcMerkleRoot(txs, witness=true) (an `Option`: panic),
    `dhash` = double-SHA-256 -/
def validateWitnessCommitment (dhash : Bytes → Bytes) (root : Option Bytes) (txs : List Tx) : VwcResult :=
  match txs with
  | [] => .noTransactions
  | cb :: _ =>
    match cb.ins with
    | [] => .noTxInputs
    | in0 :: _ =>
      match extractWitnessCommitment cb with
      | none => if txs.any Tx.hasWitness then .unexpectedWitness else .ok
      | some c =>
        match in0.witness with
        | [nonce] =>
          if nonce.length ≠ CoinbaseWitnessDataLen then .invalidCommitment else
          match root with
          | none => .panic
          | some r => if dhash (r ++ nonce) = c then .ok else .mismatch
        | _ => .invalidCommitment

/-! ### script tokenizer and signature-operation counting -/

/-- `opcodeArray[op].length` -/
def opLen (op : Nat) : Int :=
  if op = 0 then 1
  else if op ≤ 75 then (op : Int) + 1
  else if op = 76 then -1
  else if op = 77 then -2
  else if op = 78 then -4
  else 1

inductive Tok
  | done                                   -- offset ≥ len(script)
  | err                                    -- ErrMalformedPush
  | op (opcode : Nat) (data rest : Bytes)

/-- `ScriptTokenizer.Next` on the unread remainder of the script -/
def tokNext : Bytes → Tok
  | [] => .done
  | b :: rest =>
    let len := opLen b.toNat
    if len = 1 then .op b.toNat [] rest
    else if len > 1 then
      if (rest.length : Int) + 1 < len then .err
      else .op b.toNat (rest.take (len.toNat - 1)) (rest.drop (len.toNat - 1))
    else
      let k := (-len).toNat
      if rest.length < k then .err else
      let dataLen := Spec.leNat (rest.take k)       -- ≥ 2^31 is negative as int32: also an error
      let script := rest.drop k
      if dataLen > script.length ∨ dataLen ≥ 2^31 then .err
      else .op b.toNat (script.take dataLen) (script.drop dataLen)

theorem tokNext_shorter {s : Bytes} {o : Nat} {d r : Bytes} (h : tokNext s = .op o d r) :
    r.length < s.length := by
  cases s with
  | nil => simp [tokNext] at h
  | cons b rest =>
    simp only [tokNext] at h
    split at h
    · injection h with _ _ h; subst h; simp
    · split at h
      · split at h
        · cases h
        · injection h with _ _ h; subst h; simp only [List.length_drop, List.length_cons]; omega
      · split at h
        · cases h
        · split at h
          · cases h
          · injection h with _ _ h; subst h; simp only [List.length_drop, List.length_cons]; omega

def OP_INVALIDOPCODE : Nat := 0xff
def MaxPubKeysPerMultiSig : Nat := 20

/-- the loop of `countSigOpsV0` -/
def countLoop (precise : Bool) (prevOp : Nat) (s : Bytes) : Nat :=
  match h : tokNext s with
  | .op o _ rest =>
    let n :=
      if o = 0xac ∨ o = 0xad then 1
      else if o = 0xae ∨ o = 0xaf then
        if precise ∧ prevOp ≥ 0x51 ∧ prevOp ≤ 0x60 then prevOp - (0x51 - 1) else MaxPubKeysPerMultiSig
      else 0
    n + countLoop precise o rest
  | _ => 0
termination_by s.length
decreasing_by exact tokNext_shorter h

def countSigOpsV0 (s : Bytes) (precise : Bool) : Nat := countLoop precise OP_INVALIDOPCODE s
/-- `GetSigOpCount` -/
def getSigOpCount (s : Bytes) : Nat := countSigOpsV0 s false

/-- `IsPushOnlyScript` -/
def isPushOnly (s : Bytes) : Bool :=
  match h : tokNext s with
  | .op o _ rest => if o > 0x60 then false else isPushOnly rest
  | .done => true
  | .err => false
termination_by s.length
decreasing_by exact tokNext_shorter h

/-- the loop of `finalOpcodeData`: `none` = nil because of a parse error -/
def finalLoop (data : Bytes) (s : Bytes) : Option Bytes :=
  match h : tokNext s with
  | .op _ d rest => finalLoop d rest
  | .done => some data
  | .err => none
termination_by s.length
decreasing_by exact tokNext_shorter h

/-- `finalOpcodeData` (nil and empty are both `[]`: callers only test `len(...) == 0`) -/
def finalOpcodeData (s : Bytes) : Bytes := if s = [] then [] else (finalLoop [] s).getD []

/-- `isScriptHashScript` -/
def isScriptHash (s : Bytes) : Bool :=
  s.length = 23 ∧ s.getD 0 0 = 0xa9 ∧ s.getD 1 0 = 0x14 ∧ s.getD 22 0 = 0x87

/-- `isCanonicalPush` -/
def isCanonicalPush (opcode : Nat) (data : Bytes) : Bool :=
  if opcode > 0x60 then true
  else if opcode < 76 ∧ opcode > 0 ∧ (data.length = 1 ∧ (data.getD 0 0).toNat ≤ 16) then false
  else if opcode = 76 ∧ data.length < 76 then false
  else if opcode = 77 ∧ data.length ≤ 0xff then false
  else if opcode = 78 ∧ data.length ≤ 0xffff then false
  else true

def isSmallInt (op : Nat) : Bool := op = 0 ∨ (op ≥ 0x51 ∧ op ≤ 0x60)
def asSmallInt (op : Nat) : Nat := if op = 0 then 0 else op - (0x51 - 1)

/-- `extractWitnessProgramInfo`: (version, program) when valid -/
def extractWitnessProgramInfo (s : Bytes) : Option (Nat × Bytes) :=
  if s.length < 4 ∨ s.length > 42 then none else
  match tokNext s with
  | .op o1 _ r1 =>
    if !isSmallInt o1 then none else
    match tokNext r1 with
    | .op o2 d2 r2 =>
      if !isCanonicalPush o2 d2 then none
      else if r2 = [] then some (asSmallInt o1, d2) else none     -- Done() && Err() == nil
    | _ => none
  | _ => none

/-- `getWitnessSigOps` -/
def getWitnessSigOps (pk : Bytes) (witness : List Bytes) : Nat :=
  match extractWitnessProgramInfo pk with
  | none => 0
  | some (ver, prog) =>
    if ver = 0 then
      if prog.length = 20 then 1
      else if prog.length = 32 ∧ witness.length > 0 then
        countSigOpsV0 (witness.getLast?.getD []) true
      else 0
    else 0

/-- `GetWitnessSigOpCount` -/
def getWitnessSigOpCount (sigScript pk : Bytes) (witness : List Bytes) : Nat :=
  if (extractWitnessProgramInfo pk).isSome then getWitnessSigOps pk witness
  else if isScriptHash pk ∧ isPushOnly sigScript ∧ sigScript.length > 0 then
    let redeem := finalOpcodeData sigScript
    if redeem.length > 0 ∧ (extractWitnessProgramInfo redeem).isSome then getWitnessSigOps redeem witness
    else 0
  else 0

/-- `GetPreciseSigOpCount` -/
def getPreciseSigOpCount (scriptSig pk : Bytes) : Nat :=
  if !isScriptHash pk then countSigOpsV0 pk true
  else if scriptSig.length = 0 ∨ !isPushOnly scriptSig then 0
  else
    let redeem := finalOpcodeData scriptSig
    if redeem.length = 0 then 0 else countSigOpsV0 redeem true

/-- `CountSigOps` -/
def countSigOps (t : Tx) : Nat :=
  (t.ins.map (fun i => getSigOpCount i.script)).sum + (t.outs.map (fun o => getSigOpCount o.pk)).sum

/-- the spent output of an input as the view reports it: `none` = missing or spent -/
abbrev Utxo := Option Bytes

/-- `CountP2SHSigOps`; `none` = ErrMissingTxOut. (The int-overflow branch needs > 2^63 sigops.) -/
def countP2SHLoop : List (TxIn × Utxo) → Nat → Option Nat
  | [], acc => some acc
  | (_, none) :: _, _ => none
  | (i, some pk) :: rest, acc =>
    if !isScriptHash pk then countP2SHLoop rest acc
    else countP2SHLoop rest (acc + getPreciseSigOpCount i.script pk)

def countP2SHSigOps (t : Tx) (isCoinBase : Bool) (utxos : List Utxo) : Option Nat :=
  if isCoinBase then some 0 else countP2SHLoop (t.ins.zip utxos) 0

/-- the segwit loop of `GetSigOpCost` -/
def witnessLoop : List (TxIn × Utxo) → Nat → Option Nat
  | [], acc => some acc
  | (_, none) :: _, _ => none
  | (i, some pk) :: rest, acc => witnessLoop rest (acc + getWitnessSigOpCount i.script pk i.witness)

/-- `GetSigOpCost`: `none` = ErrMissingTxOut. A missing output while counting P2SH sigops makes the
    Go function return `(0, nil)` (sic: `return 0, nil`). -/
def getSigOpCost (t : Tx) (isCoinBase : Bool) (utxos : List Utxo) (bip16 segWit : Bool) : Option Nat :=
  let n := countSigOps t * Spec.WITNESS_SCALE_FACTOR
  match (if bip16 then (countP2SHSigOps t isCoinBase utxos).map (· * Spec.WITNESS_SCALE_FACTOR) else some 0) with
  | none => some 0
  | some p =>
    let n := n + p
    if segWit ∧ !isCoinBase then witnessLoop (t.ins.zip utxos) n else some n

/-! ### coinbase height -/

/-- `scriptNum(n).Bytes()` -/
def scriptNumMag (n : Nat) : Bytes :=
  if n = 0 then [] else UInt8.ofNat (n % 256) :: scriptNumMag (n / 256)
termination_by n
decreasing_by omega

def scriptNumBytes (v : Int) : Bytes :=
  if v = 0 then [] else
  let mag := scriptNumMag v.natAbs
  let last := (mag.getLast?.getD 0).toNat
  if last ≥ 0x80 then mag ++ [if v < 0 then 0x80 else 0x00]
  else if v < 0 then mag.dropLast ++ [UInt8.ofNat (last + 0x80)]
  else mag

/-- `addData` for data of at most 75 bytes (the only sizes `AddInt64` produces: ≤ 9 bytes) -/
def addDataSmall (d : Bytes) : Bytes :=
  if d.length = 0 ∨ (d.length = 1 ∧ d.getD 0 0 = 0) then [0x00]
  else if d.length = 1 ∧ (d.getD 0 0).toNat ≤ 16 then [UInt8.ofNat (0x50 + (d.getD 0 0).toNat)]
  else if d.length = 1 ∧ d.getD 0 0 = 0x81 then [0x4f]
  else UInt8.ofNat d.length :: d

/-- `NewScriptBuilder().AddInt64(v).Script()` -/
def addInt64 (v : Int) : Bytes :=
  if v = 0 then [0x00]
  else if v = -1 ∨ (1 ≤ v ∧ v ≤ 16) then [UInt8.ofNat (0x50 + v).toNat]
  else addDataSmall (scriptNumBytes v)

inductive HeightResult | ok (h : Int) | missing | bad
  deriving DecidableEq, Repr

/-- int32 reinterpretation of a uint32 -/
def toInt32 (n : Nat) : Int := if n % 2^32 < 2^31 then (n % 2^32 : Nat) else (n % 2^32 : Nat) - 2^32

/-- `ExtractCoinbaseHeight` on the coinbase signature script -/
def extractCoinbaseHeight (s : Bytes) : HeightResult :=
  match s with
  | [] => .missing
  | op :: rest =>
    if op.toNat = 0 then .ok 0
    else if op.toNat ≥ 0x51 ∧ op.toNat ≤ 0x60 then .ok (op.toNat - 0x50 : Nat)
    else if rest.length < op.toNat then .missing
    else
      let h := toInt32 (Spec.leNat ((rest.take op.toNat).take 4))
      if (addInt64 h).isPrefixOf s then .ok h else .bad

/-! ### finality and sequence locks -/

/-- `IsFinalizedTransaction` (blockHeight int32, blockTime unix seconds) -/
def isFinalizedTransaction (lockTime : Nat) (seqs : List Nat) (blockHeight blockTime : Int) : Bool :=
  if lockTime = 0 then true else
  let x := if lockTime < 500000000 then blockHeight else blockTime
  if (lockTime : Int) < x then true
  else seqs.all (fun s => s = 0xffffffff)

/-- int32 wrap-around of an Int -/
def wrap32 (x : Int) : Int := toInt32 (x % 2^32).toNat

/-- one input for `calcSequenceLock`: sequence number, `utxo.BlockHeight()` (`none` = no entry in
    the view), and the median time past of `node.Ancestor(max(inputHeight-1,0))` -/
structure LockInput where
  seq : Nat
  height : Option Int
  prevMtp : Int

inductive LockResult | ok (seconds height : Int) | missing
  deriving DecidableEq, Repr

def lockLoop (nextHeight : Int) : List LockInput → Int → Int → LockResult
  | [], secs, ht => .ok secs ht
  | i :: rest, secs, ht =>
    match i.height with
    | none => .missing
    | some h0 =>
      let inputHeight := if h0 = 0x7fffffff then nextHeight else h0
      let relativeLock : Int := (i.seq % 2^16 : Nat)              -- seq & 0xffff
      if i.seq / 2^31 % 2 = 1 then lockLoop nextHeight rest secs ht
      else if i.seq / 2^22 % 2 = 1 then
        let timeLock := i.prevMtp + (relativeLock * 512 - 1)
        lockLoop nextHeight rest (if timeLock > secs then timeLock else secs) ht
      else
        let bh := wrap32 (inputHeight + wrap32 (relativeLock - 1))
        lockLoop nextHeight rest secs (if bh > ht then bh else ht)

/-- `calcSequenceLock`; `csvActive` = mempool ∨ CSV deployment active, `version` the uint32 cast -/
def calcSequenceLock (csvActive : Bool) (version : Nat) (isCoinBase : Bool) (nodeHeight : Int)
    (ins : List LockInput) : LockResult :=
  if !(version ≥ 2 && csvActive) || isCoinBase then .ok (-1) (-1)
  else lockLoop (nodeHeight + 1) ins (-1) (-1)

/-- `SequenceLockActive` -/
def sequenceLockActive (seconds height : Int) (blockHeight mtp : Int) : Bool :=
  if seconds ≥ mtp ∨ height ≥ blockHeight then false else true

/-- `CalcPastMedianTime` on the timestamps of a node and its ancestors (node first): the upper
    median of the first ≤ 11 -/
def insertSorted (x : Int) : List Int → List Int
  | [] => [x]
  | y :: ys => if x ≤ y then x :: y :: ys else y :: insertSorted x ys
def medianTime (ts : List Int) : Int :=
  let w := ts.take 11
  (w.foldr insertSorted []).getD (w.length / 2) 0

/-! ### the part of `checkBlockSanity` that uses the accounting primitives -/

/-- the duplicate-transaction loop (map of seen hashes) -/
def hasDup {β : Type} [DecidableEq β] : List β → Bool
  | [] => false
  | a :: r => r.contains a || hasDup r

/-- the legacy sigop loop: running total of `CountSigOps(tx) * WitnessScaleFactor` against
    `MaxBlockSigOpsCost` (the int-overflow test needs > 2^61 sigops) -/
def sigOpsLoop (maxCost : Nat) : List Nat → Nat → Bool
  | [], _ => true
  | c :: r, total =>
    let t := total + c * Spec.WITNESS_SCALE_FACTOR
    if t > maxCost then false else sigOpsLoop maxCost r t

inductive SanityResult | ok | badMerkle | dupTx | tooManySigOps
  deriving DecidableEq, Repr

/-- `checkBlockSanity` after the header / coinbase / per-transaction checks: header root against
    `CalcMerkleRoot(txs, false)` (`none` = panic), duplicates, legacy sigop cost -/
def checkBlockSanityTail {β : Type} [DecidableEq β] (headerRoot : β) (computed : Option β) (txids : List β)
    (sigops : List Nat) : Option SanityResult :=
  match computed with
  | none => none
  | some c =>
    if headerRoot ≠ c then some .badMerkle
    else if hasDup txids then some .dupTx
    else if !sigOpsLoop 80000 sigops 0 then some .tooManySigOps
    else some .ok

/-- `ShouldHaveSerializedBlockHeight` (header version as int32) -/
def shouldHaveSerializedBlockHeight (version : Int) : Bool := version ≥ 2

/-- `LockTimeToSequence` (uint32 arithmetic) -/
def lockTimeToSequence (isSeconds : Bool) (locktime : Nat) : Nat :=
  if !isSeconds then locktime % 2^32 else (2^22 ||| (locktime % 2^32 / 2^9)) % 2^32

/-- `CalcPastMedianTime(node.Ancestor(height))` on the chain's timestamps (index = height) -/
def mtpAt (times : List Int) (height : Nat) : Int := medianTime (times.take (height + 1)).reverse

/-- what `calcSequenceLock` reads for one input: the view's height for the spent output (`none` =
    not in the view, 0x7fffffff = in the mempool → next block), and the median time past of the
    block BEFORE the one that contains it (`prevInputHeight = max(inputHeight-1, 0)`).
    `times` are the timestamps of the chain ending in `node` (so `node.height = times.length - 1`). -/
def lockInputOf (times : List Int) (seq : Nat) (height : Option Int) : LockInput :=
  let nodeHeight : Int := (times.length : Int) - 1
  let h : Int := match height with
    | some h => if h = 0x7fffffff then nodeHeight + 1 else h
    | none => 0
  let prev := if h - 1 < 0 then 0 else h - 1
  ⟨seq, height, mtpAt times prev.toNat⟩

/-- `BlockChain.calcSequenceLock(node, tx, view, mempool)` from the chain's timestamps -/
def calcSequenceLockChain (csvActive : Bool) (version : Nat) (isCoinBase : Bool) (times : List Int)
    (ins : List (Nat × Option Int)) : LockResult :=
  calcSequenceLock csvActive version isCoinBase ((times.length : Int) - 1)
    (ins.map (fun p => lockInputOf times p.1 p.2))

end BV.C13
