/-
C13 helper lemmas: the whole linear store is the level-by-level protocol tree. Core-only.
-/
import BV.C13.LemmasMerkle
namespace BV.C13.Lemmas
open BV.C13 BV.C13.Spec

section
variable {α : Type} (H : α → α → α) (zero : α)

/-- a level of `2^k` slots followed by all the levels above it -/
def levelsConcat : Nat → List (Option α) → List (Option α)
  | 0, l => l
  | k+1, l => l ++ levelsConcat k (pairOpt H l)

theorem storeLoop_levels (k : Nat) : ∀ (pre lvl : List (Option α)), lvl.length = 2^k →
    storeLoop H (2^k - 1) pre.length (pre ++ lvl) = pre ++ levelsConcat H k lvl := by
  induction k with
  | zero => intro pre lvl _; simp [storeLoop, levelsConcat]
  | succ k ih =>
    intro pre lvl h
    have hp : 0 < 2^k := Nat.pow_pos (by decide)
    have hpow : 2^(k+1) = 2 * 2^k := by rw [Nat.pow_succ]; omega
    have e : 2^(k+1) - 1 = 2^k + (2^k - 1) := by omega
    rw [e]
    have := storeLoop_level H (2^k) (2^k - 1) pre lvl [] (by omega)
    simp only [List.append_nil] at this
    rw [this]
    have hl : (pairOpt H lvl).length = 2^k := by rw [pairOpt_length]; omega
    have := ih (pre ++ lvl) (pairOpt H lvl) hl
    simp only [List.length_append] at this
    have e3 : pre.length + 2 * 2^k = pre.length + lvl.length := by omega
    rw [e3, this, levelsConcat, List.append_assoc]

/-- level `j` of the protocol tree over `l`, padded with nil slots to `2^(k-j)` -/
def paddedLevel (k : Nat) (l : List α) : List (Option α) :=
  l.map some ++ List.replicate (2^k - l.length) none

/-- the protocol tree level by level: `l`, `pairUp l`, …, each padded to its power of two -/
def specLevels : Nat → List α → List (Option α)
  | 0, l => paddedLevel 0 l
  | k+1, l => paddedLevel (k+1) l ++ specLevels k (pairUp H l)

theorem levelsConcat_padded (k : Nat) : ∀ (l : List α), l.length ≤ 2^k →
    levelsConcat H k (paddedLevel k l) = specLevels H k l := by
  induction k with
  | zero => intro l _; rfl
  | succ k ih =>
    intro l h
    have hpow : 2^(k+1) = 2 * 2^k := by rw [Nat.pow_succ]; omega
    rw [levelsConcat, specLevels]
    congr 1
    have hpl := pairUp_length H l
    have := pairOpt_pad H l (2^(k+1) - l.length) (by omega)
    unfold paddedLevel
    rw [this, ← ih (pairUp H l) (by rw [hpl]; omega)]
    unfold paddedLevel
    congr 3
    rw [hpl]; omega

/-- `BuildMerkleTreeStore` returns exactly the protocol tree, level by level, nil-padded -/
theorem buildStore_eq_levels (l : List α) (h : l ≠ []) :
    ∃ k, l.length ≤ 2^k ∧ (k = 0 ∨ 2^(k-1) < l.length) ∧ buildStore H zero l = specLevels H k l := by
  have hl : 0 < l.length := List.length_pos_iff.mpr h
  obtain ⟨k, hk, hle, hlow⟩ := nextPowerOfTwo_spec l.length hl
  refine ⟨k, hle, hlow, ?_⟩
  unfold buildStore
  simp only [h, if_false]
  rw [hk]
  have := storeLoop_levels H k [] (paddedLevel k l) (by simp [paddedLevel]; omega)
  simp only [List.length_nil, List.nil_append] at this
  unfold paddedLevel at this
  rw [this]
  exact levelsConcat_padded H k l hle

end
end BV.C13.Lemmas
