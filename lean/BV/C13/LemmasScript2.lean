/-
C13 helper lemmas: P2SH and witness sigop counting equal the protocol definitions. Core-only.
-/
import BV.C13.LemmasScript
namespace BV.C13.Lemmas
open BV.C13 BV.C13.Spec

theorem getOp_data_len {s : Bytes} {o : Nat} {d r : Bytes} (h : getOp s = some (o, d, r)) :
    d.length + r.length < s.length := by
  cases s with
  | nil => simp [getOp] at h
  | cons b rest =>
    simp only [getOp] at h
    split at h
    · injection h with h; injection h with _ h; injection h with h1 h2; subst h1 h2; simp
    · split at h
      · cases h
      · injection h with h; injection h with _ h; injection h with h1 h2; subst h1 h2
        simp only [List.length_take, List.length_drop, List.length_cons]; omega
    · split at h
      · cases h
      · split at h
        · cases h
        · injection h with h; injection h with _ h; injection h with h1 h2; subst h1 h2
          simp only [List.length_take, List.length_drop, List.length_cons]; omega

theorem isPushOnly_op {s : Bytes} {o : Nat} {d r : Bytes} (h : tokNext s = .op o d r) :
    isPushOnly s = if o > 0x60 then false else isPushOnly r := by
  rw [isPushOnly]
  split
  · next o' d' r' heq => rw [h] at heq; injection heq with e1 e2 e3; subst e1 e2 e3; rfl
  · next heq => rw [h] at heq; cases heq
  · next heq => rw [h] at heq; cases heq
theorem isPushOnly_done {s : Bytes} (h : tokNext s = .done) : isPushOnly s = true := by
  rw [isPushOnly]
  split
  · next heq => rw [h] at heq; cases heq
  · rfl
  · next heq => rw [h] at heq; cases heq
theorem isPushOnly_err {s : Bytes} (h : tokNext s = .err) : isPushOnly s = false := by
  rw [isPushOnly]
  split
  · next heq => rw [h] at heq; cases heq
  · next heq => rw [h] at heq; cases heq
  · rfl
theorem finalLoop_op {s : Bytes} {o : Nat} {d r : Bytes} (last : Bytes) (h : tokNext s = .op o d r) :
    finalLoop last s = finalLoop d r := by
  rw [finalLoop]
  split
  · next o' d' r' heq => rw [h] at heq; injection heq with e1 e2 e3; subst e1 e2 e3; rfl
  · next heq => rw [h] at heq; cases heq
  · next heq => rw [h] at heq; cases heq
theorem finalLoop_done {s : Bytes} (last : Bytes) (h : tokNext s = .done) : finalLoop last s = some last := by
  rw [finalLoop]
  split
  · next heq => rw [h] at heq; cases heq
  · rfl
  · next heq => rw [h] at heq; cases heq
theorem finalLoop_err {s : Bytes} (last : Bytes) (h : tokNext s = .err) : finalLoop last s = none := by
  rw [finalLoop]
  split
  · next heq => rw [h] at heq; cases heq
  · next heq => rw [h] at heq; cases heq
  · rfl

theorem pushOnlyLast_some {s : Bytes} {o : Nat} {d r : Bytes} (last : Bytes) (h : getOp s = some (o, d, r)) :
    pushOnlyLast last s = if o > OP_16 then none else pushOnlyLast d r := by
  rw [pushOnlyLast]
  split
  · next heq => rw [h] at heq; cases heq
  · next o' d' r' heq => rw [h] at heq; injection heq with e; injection e with e1 e; injection e with e2 e3; subst e1 e2 e3; rfl
theorem pushOnlyLast_none {s : Bytes} (last : Bytes) (h : getOp s = none) :
    pushOnlyLast last s = if s = [] then some last else none := by
  rw [pushOnlyLast]
  split
  · rfl
  · next heq => rw [h] at heq; cases heq

/-- `IsPushOnlyScript` + `finalOpcodeData` = the protocol's "push-only, last push" -/
theorem pushOnlyLast_eq : ∀ (n : Nat) (s last : Bytes), s.length ≤ n → s.length < 2^31 →
    pushOnlyLast last s = if isPushOnly s then finalLoop last s else none := by
  intro n
  induction n with
  | zero =>
    intro s last h _
    have : s = [] := List.eq_nil_of_length_eq_zero (by omega)
    subst this
    rw [pushOnlyLast_none _ (by simp [getOp]), isPushOnly_done (by simp [tokNext]),
      finalLoop_done _ (by simp [tokNext])]
    simp
  | succ n ih =>
    intro s last h hs
    have ht := tokNext_eq s hs
    unfold tokOfGetOp at ht
    cases hg : getOp s with
    | none =>
      rw [hg] at ht; simp only [] at ht
      rw [pushOnlyLast_none _ hg]
      by_cases he : s = []
      · simp only [he, if_true] at ht ⊢
        subst he
        rw [isPushOnly_done ht, finalLoop_done _ ht]; simp
      · simp only [he, if_false] at ht ⊢
        rw [isPushOnly_err ht]; simp
    | some x =>
      obtain ⟨o, d, r⟩ := x
      rw [hg] at ht; simp only [] at ht
      have hsh := getOp_shorter hg
      rw [pushOnlyLast_some _ hg, isPushOnly_op ht, finalLoop_op _ ht]
      simp only [OP_16]
      by_cases ho : o > 0x60
      · simp [ho]
      · simp only [ho, if_false]
        exact ih r d (by omega) (by omega)

theorem finalLoop_len : ∀ (n : Nat) (s last d : Bytes), s.length ≤ n → s.length < 2^31 →
    finalLoop last s = some d → d = last ∨ d.length < s.length := by
  intro n
  induction n with
  | zero =>
    intro s last d h _ hf
    have : s = [] := List.eq_nil_of_length_eq_zero (by omega)
    subst this
    rw [finalLoop_done _ (by simp [tokNext])] at hf
    injection hf with hf; exact Or.inl hf.symm
  | succ n ih =>
    intro s last d h hs hf
    have ht := tokNext_eq s hs
    unfold tokOfGetOp at ht
    cases hg : getOp s with
    | none =>
      rw [hg] at ht; simp only [] at ht
      by_cases he : s = []
      · simp only [he, if_true] at ht
        subst he
        rw [finalLoop_done _ ht] at hf
        injection hf with hf; exact Or.inl hf.symm
      · simp only [he, if_false] at ht
        rw [finalLoop_err _ ht] at hf; cases hf
    | some x =>
      obtain ⟨o, d0, r⟩ := x
      rw [hg] at ht; simp only [] at ht
      rw [finalLoop_op _ ht] at hf
      have hl := getOp_data_len hg
      rcases ih r d0 d (by omega) (by omega) hf with h1 | h1
      · right; rw [h1]; omega
      · right; omega

theorem isScriptHash_eq (s : Bytes) : isScriptHash s = isP2SH s := by
  unfold isScriptHash isP2SH
  by_cases h : s.length = 23
  · have h0 : s[0]? = some (s.getD 0 0) := by
      rw [List.getD_eq_getElem?_getD, List.getElem?_eq_getElem (by omega)]; rfl
    have h1 : s[1]? = some (s.getD 1 0) := by
      rw [List.getD_eq_getElem?_getD, List.getElem?_eq_getElem (by omega)]; rfl
    have h22 : s[22]? = some (s.getD 22 0) := by
      rw [List.getD_eq_getElem?_getD, List.getElem?_eq_getElem (by omega)]; rfl
    rw [h0, h1, h22]
    simp only [Option.some.injEq]
  · simp [h]

theorem sigOps_nil (a : Bool) : sigOps a [] = 0 := by
  unfold sigOps; rw [sigOpsFrom]; simp [getOp]

theorem preciseSigOps_eq_spec (sig pk : Bytes) (h1 : sig.length < 2^31) (h2 : pk.length < 2^31) :
    getPreciseSigOpCount sig pk = p2shSigOps sig pk := by
  unfold getPreciseSigOpCount p2shSigOps
  rw [isScriptHash_eq]
  by_cases hp : isP2SH pk = true
  · simp only [hp, Bool.not_true, Bool.false_eq_true, if_false, if_true]
    rw [pushOnlyLast_eq sig.length sig [] (Nat.le_refl _) h1]
    by_cases he : sig = []
    · subst he
      rw [isPushOnly_done (by simp [tokNext]), finalLoop_done _ (by simp [tokNext])]
      simp [sigOps_nil]
    · have hl : ¬ sig.length = 0 := by intro h; exact he (List.eq_nil_of_length_eq_zero h)
      by_cases hpo : isPushOnly sig = true
      · simp only [hl, hpo, Bool.not_true, Bool.false_eq_true, or_self, if_false, if_true]
        unfold finalOpcodeData
        simp only [he, if_false]
        cases hf : finalLoop [] sig with
        | none => simp
        | some d =>
          simp only [Option.getD_some]
          by_cases hd : d.length = 0
          · have : d = [] := List.eq_nil_of_length_eq_zero hd
            subst this; simp [sigOps_nil]
          · simp only [hd, if_false]
            have := finalLoop_len sig.length sig [] d (Nat.le_refl _) h1 hf
            have hdl : d.length < 2^31 := by
              rcases this with h | h
              · subst h; simp at hd
              · omega
            exact countSigOpsV0_eq_spec d true hdl
      · have hpo' : isPushOnly sig = false := by simpa using hpo
        simp [hpo']
  · have hp' : isP2SH pk = false := by simpa using hp
    simp only [hp', Bool.not_false, if_true, Bool.false_eq_true, if_false]
    exact countSigOpsV0_eq_spec pk true h2

end BV.C13.Lemmas
