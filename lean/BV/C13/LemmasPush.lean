/-
C13 helper lemmas: `IsPushOnlyScript` is the protocol's `IsPushOnly`. Core-only.
-/
import BV.C13.LemmasScript2
namespace BV.C13.Lemmas
open BV.C13 BV.C13.Spec

theorem finalLoop_some_of_pushOnly : ∀ (n : Nat) (s last : Bytes), s.length ≤ n → s.length < 2^31 →
    isPushOnly s = true → (finalLoop last s).isSome = true := by
  intro n
  induction n with
  | zero =>
    intro s last h _ _
    have : s = [] := List.eq_nil_of_length_eq_zero (by omega)
    subst this
    rw [finalLoop_done _ (by simp [tokNext])]; rfl
  | succ n ih =>
    intro s last h hs hp
    have ht := tokNext_eq s hs
    unfold tokOfGetOp at ht
    cases hg : getOp s with
    | none =>
      rw [hg] at ht; simp only [] at ht
      by_cases he : s = []
      · simp only [he, if_true] at ht; subst he
        rw [finalLoop_done _ ht]; rfl
      · simp only [he, if_false] at ht
        rw [isPushOnly_err ht] at hp; cases hp
    | some x =>
      obtain ⟨o, d, r⟩ := x
      rw [hg] at ht; simp only [] at ht
      have hsh := getOp_shorter hg
      rw [isPushOnly_op ht] at hp
      rw [finalLoop_op _ ht]
      by_cases ho : o > 0x60
      · simp [ho] at hp
      · simp only [ho, if_false] at hp
        exact ih r d (by omega) (by omega) hp

theorem isPushOnly_eq_spec (s : Bytes) (hs : s.length < 2^31) :
    isPushOnly s = (pushOnlyLast [] s).isSome := by
  rw [pushOnlyLast_eq s.length s [] (Nat.le_refl _) hs]
  by_cases hp : isPushOnly s = true
  · simp only [hp, if_true]
    exact (finalLoop_some_of_pushOnly s.length s [] (Nat.le_refl _) hs hp).symm
  · have hp' : isPushOnly s = false := by simpa using hp
    simp [hp']

end BV.C13.Lemmas
