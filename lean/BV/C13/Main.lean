import BV.Common.Loop
import BV.C13.Driver
/-! `drv_c13`: one case per input line `C13 <op> <args…>`, one canonical result line back.
Imports only core-only modules so that it links as a native executable. -/
def main : IO Unit := BV.Loop.run "C13" BV.C13.Driver.handle
