/-
C13 Spec — the protocol definitions of the consensus accounting primitives, stated directly
(Bitcoin Core: ComputeMerkleRoot / BlockWitnessMerkleRoot, GetWitnessCommitmentIndex,
GetTransactionWeight / GetBlockWeight, GetLegacySigOpCount / GetP2SHSigOpCount /
CountWitnessSigOps / GetTransactionSigOpCost, BIP34 height, IsFinalTx, BIP68
CalculateSequenceLocks / EvaluateSequenceLocks). Core-only.

The node hash `H` of the merkle tree is a parameter everywhere (double-SHA-256 of the
concatenation in the driver), so nothing here depends on SHA-256.
-/
set_option linter.unusedVariables false
namespace BV.C13.Spec

abbrev Bytes := List UInt8

/-! ### protocol constants (pinned against the code's values in Props) -/
def WITNESS_SCALE_FACTOR : Nat := 4
def MAX_PUBKEYS_PER_MULTISIG : Nat := 20
def LOCKTIME_THRESHOLD : Nat := 500000000
def SEQUENCE_FINAL : Nat := 0xffffffff
def SEQ_DISABLE_FLAG : Nat := 2^31
def SEQ_TYPE_FLAG : Nat := 2^22
def SEQ_MASK : Nat := 0xffff
def SEQ_GRANULARITY : Nat := 9
def COMMITMENT_MIN_LEN : Nat := 38
def COMMITMENT_MAGIC : Bytes := [0x6a, 0x24, 0xaa, 0x21, 0xa9, 0xed]
def MEDIAN_TIME_SPAN : Nat := 11

/-! ### merkle root -/
section merkle
variable {α : Type} (H : α → α → α)

/-- one level of the tree: hash adjacent pairs, the last node of an odd level with itself -/
def pairUp : List α → List α
  | [] => []
  | [a] => [H a a]
  | a :: b :: r => H a b :: pairUp r

theorem pairUp_length (l : List α) : (pairUp H l).length = (l.length + 1) / 2 := by
  induction l using pairUp.induct with
  | case1 => simp [pairUp]
  | case2 a => simp [pairUp]
  | case3 a b r ih => simp only [pairUp, List.length_cons, ih]; omega

/-- Core's `ComputeMerkleRoot`: the empty list has the all-zero root, one leaf is its own root,
    otherwise reduce level by level. -/
def mroot (zero : α) : List α → α
  | [] => zero
  | [a] => a
  | a :: b :: r => mroot zero (pairUp H (a :: b :: r))
termination_by l => l.length
decreasing_by
  rw [pairUp_length]; simp only [List.length_cons]; omega

end merkle

/-! ### script primitives -/

/-- what the byte at the head of a script announces: an opcode without immediate data, a direct
    push of `n` bytes (1..75), or a push whose length is in the next 1/2/4 bytes (0x4c..0x4e). -/
inductive OpKind | plain | direct (n : Nat) | pushdata (lenBytes : Nat)
  deriving DecidableEq, Repr

def opKind (op : Nat) : OpKind :=
  if 1 ≤ op ∧ op ≤ 75 then .direct op
  else if op = 76 then .pushdata 1
  else if op = 77 then .pushdata 2
  else if op = 78 then .pushdata 4
  else .plain

def leNat : Bytes → Nat
  | [] => 0
  | b :: r => b.toNat + 256 * leNat r

/-- Core's `GetOp`: next (opcode, pushed data, rest) or `none` when the script is exhausted or
    the push runs past the end. -/
def getOp : Bytes → Option (Nat × Bytes × Bytes)
  | [] => none
  | b :: rest =>
    match opKind b.toNat with
    | .plain => some (b.toNat, [], rest)
    | .direct n => if rest.length < n then none else some (b.toNat, rest.take n, rest.drop n)
    | .pushdata k =>
      if rest.length < k then none else
      let n := leNat (rest.take k)
      let rest := rest.drop k
      if rest.length < n then none else some (b.toNat, rest.take n, rest.drop n)

theorem getOp_shorter {s : Bytes} {op : Nat} {d r : Bytes} (h : getOp s = some (op, d, r)) :
    r.length < s.length := by
  cases s with
  | nil => simp [getOp] at h
  | cons b rest =>
    simp only [getOp] at h
    split at h
    · injection h with h; injection h with _ h; injection h with _ h; subst h; simp
    · split at h
      · cases h
      · injection h with h; injection h with _ h; injection h with _ h; subst h
        simp only [List.length_drop, List.length_cons]; omega
    · split at h
      · cases h
      · split at h
        · cases h
        · injection h with h; injection h with _ h; injection h with _ h; subst h
          simp only [List.length_drop, List.length_cons]; omega

def OP_CHECKSIG : Nat := 0xac
def OP_CHECKSIGVERIFY : Nat := 0xad
def OP_CHECKMULTISIG : Nat := 0xae
def OP_CHECKMULTISIGVERIFY : Nat := 0xaf
def OP_1 : Nat := 0x51
def OP_16 : Nat := 0x60

/-- Core's `CScript::GetSigOpCount(fAccurate)`: walk the opcodes; CHECKSIG(VERIFY) counts 1,
    CHECKMULTISIG(VERIFY) counts the preceding OP_1..OP_16 in accurate mode and 20 otherwise;
    a malformed push ends the walk and keeps what was counted. -/
def sigOpsFrom (accurate : Bool) (prev : Nat) (s : Bytes) : Nat :=
  match h : getOp s with
  | none => 0
  | some (op, _, rest) =>
    let here :=
      if op = OP_CHECKSIG ∨ op = OP_CHECKSIGVERIFY then 1
      else if op = OP_CHECKMULTISIG ∨ op = OP_CHECKMULTISIGVERIFY then
        if accurate ∧ OP_1 ≤ prev ∧ prev ≤ OP_16 then prev - (OP_1 - 1) else MAX_PUBKEYS_PER_MULTISIG
      else 0
    here + sigOpsFrom accurate op rest
termination_by s.length
decreasing_by exact getOp_shorter h

def sigOps (accurate : Bool) (s : Bytes) : Nat := sigOpsFrom accurate 0xff s

/-- whole script parses, every opcode ≤ OP_16; returns the data of the last push -/
def pushOnlyLast (last : Bytes) (s : Bytes) : Option Bytes :=
  match h : getOp s with
  | none => if s = [] then some last else none
  | some (op, d, rest) => if op > OP_16 then none else pushOnlyLast d rest
termination_by s.length
decreasing_by exact getOp_shorter h

def isP2SH (s : Bytes) : Bool :=
  s.length = 23 ∧ s[0]? = some 0xa9 ∧ s[1]? = some 0x14 ∧ s[22]? = some 0x87

/-- `CScript::GetSigOpCount(scriptSig)` on a scriptPubKey: P2SH → accurate count of the last push of
    a push-only scriptSig, else accurate count of the scriptPubKey itself. -/
def p2shSigOps (scriptSig pk : Bytes) : Nat :=
  if isP2SH pk then
    match pushOnlyLast [] scriptSig with
    | some redeem => sigOps true redeem
    | none => 0
  else sigOps true pk

/-- `IsWitnessProgram`: 4..42 bytes, version opcode OP_0 / OP_1..OP_16, then one direct push
    covering the rest (2..40 bytes). Returns (version, program). -/
def witnessProgram (s : Bytes) : Option (Nat × Bytes) :=
  match s with
  | v :: l :: prog =>
    if 4 ≤ s.length ∧ s.length ≤ 42 ∧ (v.toNat = 0 ∨ (OP_1 ≤ v.toNat ∧ v.toNat ≤ OP_16)) ∧
        l.toNat + 2 = s.length then
      some (if v.toNat = 0 then 0 else v.toNat - (OP_1 - 1), prog)
    else none
  | _ => none

/-- `WitnessSigOps` -/
def witnessProgSigOps (ver : Nat) (prog : Bytes) (witness : List Bytes) : Nat :=
  if ver = 0 then
    if prog.length = 20 then 1
    else if prog.length = 32 ∧ witness ≠ [] then sigOps true (witness.getLast?.getD [])
    else 0
  else 0

/-- `CountWitnessSigOps` -/
def witnessSigOps (scriptSig pk : Bytes) (witness : List Bytes) : Nat :=
  match witnessProgram pk with
  | some (v, p) => witnessProgSigOps v p witness
  | none =>
    if isP2SH pk then
      match pushOnlyLast [] scriptSig with
      | some redeem =>
        if scriptSig = [] then 0 else
        match witnessProgram redeem with
        | some (v, p) => witnessProgSigOps v p witness
        | none => 0
      | none => 0
    else 0

/-- `GetTransactionSigOpCost` (P2SH and witness flags on, not a coinbase) on the scripts of a
    transaction: one `(scriptSig, witness, spent scriptPubKey)` per input, the output scripts. -/
def txSigOpCost (ins : List (Bytes × List Bytes × Bytes)) (outs : List Bytes) : Nat :=
  WITNESS_SCALE_FACTOR * ((ins.map (fun i => sigOps false i.1)).sum + (outs.map (sigOps false)).sum)
  + WITNESS_SCALE_FACTOR * (ins.map (fun i => if isP2SH i.2.2 then p2shSigOps i.1 i.2.2 else 0)).sum
  + (ins.map (fun i => witnessSigOps i.1 i.2.2 i.2.1)).sum

/-! ### witness commitment -/

def isCommitmentScript (pk : Bytes) : Bool :=
  COMMITMENT_MIN_LEN ≤ pk.length ∧ pk.take 6 = COMMITMENT_MAGIC

/-- the 32 bytes after the magic in the LAST output whose script is a commitment script -/
def commitment (outs : List Bytes) : Option Bytes :=
  match outs.reverse.find? isCommitmentScript with
  | some pk => some ((pk.drop 6).take 32)
  | none => none

/-! ### lock-time finality (IsFinalTx) -/

def isFinal (lockTime : Nat) (seqs : List Nat) (height time : Int) : Bool :=
  lockTime = 0 ∨
  ((lockTime : Int) < (if lockTime < LOCKTIME_THRESHOLD then height else time)) ∨
  seqs.all (· = SEQUENCE_FINAL)

/-! ### BIP68 -/

/-- one input as BIP68 sees it: its sequence number, the height of the block that contains the
    spent output, and the median time past of the block BEFORE that one -/
structure SeqInput where
  seq : Nat
  height : Int
  prevMtp : Int

/-- BIP68 `CalculateSequenceLocks`: (minHeight, minTime), −1 = no constraint. -/
def sequenceLocks (enforce : Bool) (ins : List SeqInput) : Int × Int :=
  if !enforce then (-1, -1) else
  ins.foldl (fun (acc : Int × Int) i =>
    if i.seq / SEQ_DISABLE_FLAG % 2 = 1 then acc
    else if i.seq / SEQ_TYPE_FLAG % 2 = 1 then
      (acc.1, max acc.2 (i.prevMtp + ((i.seq % (SEQ_MASK + 1) * 2^SEQ_GRANULARITY : Nat) : Int) - 1))
    else (max acc.1 (i.height + ((i.seq % (SEQ_MASK + 1) : Nat) : Int) - 1), acc.2)) (-1, -1)

/-- BIP68 `EvaluateSequenceLocks` -/
def locksSatisfied (minHeight minTime : Int) (blockHeight blockMtp : Int) : Bool :=
  minHeight < blockHeight ∧ minTime < blockMtp

/-! ### BIP34 height push -/

/-- minimal CScriptNum bytes of a positive number: little-endian magnitude, plus a 0x00 byte when
    the top bit of the last byte is set (that bit is the sign) -/
def scriptNumBytes (n : Nat) : Bytes :=
  if n < 128 then [UInt8.ofNat n]
  else if n < 256 then [UInt8.ofNat n, 0]
  else UInt8.ofNat (n % 256) :: scriptNumBytes (n / 256)
termination_by n
decreasing_by omega

/-- `CScript() << height` : OP_0, OP_1..OP_16, or a direct push of the minimal number -/
def heightScript (h : Nat) : Bytes :=
  if h = 0 then [0x00]
  else if h ≤ 16 then [UInt8.ofNat (0x50 + h)]
  else
    let b := scriptNumBytes h
    UInt8.ofNat b.length :: b

end BV.C13.Spec
