/-
C13: the median-time helper of the sequence-lock model is C09's `calcPastMedianTime`
(proved there to be the upper median of the last ≤ 11 timestamps). Core-only.
-/
import BV.C13.Model
import BV.C09.Lemmas
namespace BV.C13.Lemmas
open BV.C13

theorem insertSorted_eq (x : Int) (l : List Int) : insertSorted x l = BV.C09.insertSorted x l := by
  induction l with
  | nil => rfl
  | cons y ys ih => simp only [insertSorted, BV.C09.insertSorted, ih]

theorem sort_eq (l : List Int) : l.foldr insertSorted [] = BV.C09.sortInts l := by
  unfold BV.C09.sortInts
  induction l with
  | nil => rfl
  | cons x r ih => simp only [List.foldr_cons, ih, insertSorted_eq]

theorem medianTime_eq_c09 (ts : List Int) :
    medianTime ts = BV.C09.calcPastMedianTime (ts.map (fun t => ⟨t, 0⟩)) := by
  unfold medianTime BV.C09.calcPastMedianTime BV.C09.Spec.MEDIAN_TIME_SPAN
  simp only [sort_eq]
  have : ((ts.map (fun t => (⟨t, 0⟩ : BV.C09.Hdr))).take 11).map (·.time) = ts.take 11 := by
    rw [← List.map_take, List.map_map]
    conv => rhs; rw [← List.map_id (ts.take 11)]
    rfl
  rw [this]

/-- the median time past is the upper median of the (≤ 11) most recent timestamps -/
theorem medianTime_is_median (ts : List Int) (hne : ts ≠ []) :
    let w := ts.take 11
    let m := medianTime ts
    m ∈ w ∧ (w.filter (· < m)).length ≤ w.length / 2 ∧ (w.filter (· > m)).length ≤ (w.length - 1) / 2 := by
  have h := BV.C09.Lemmas.mtp_is_median (ts.map (fun t => ⟨t, 0⟩)) (by simpa using hne)
  have e : ((ts.map (fun t => (⟨t, 0⟩ : BV.C09.Hdr))).take BV.C09.Spec.MEDIAN_TIME_SPAN).map (·.time) = ts.take 11 := by
    unfold BV.C09.Spec.MEDIAN_TIME_SPAN
    rw [← List.map_take, List.map_map]
    conv => rhs; rw [← List.map_id (ts.take 11)]
    rfl
  simp only [e, ← medianTime_eq_c09] at h
  exact h

end BV.C13.Lemmas
