/-
C13 helper lemmas: the unified sigop cost equals the protocol definition. Core-only.
-/
import BV.C13.LemmasWitness
import BV.C13.LemmasBasic
namespace BV.C13.Lemmas
open BV.C13 BV.C13.Spec

/-- every script involved is shorter than 2 GiB (int32 tokenizer offsets) -/
def SizesOk (l : List (TxIn × Bytes)) : Prop :=
  ∀ x ∈ l, x.1.script.length < 2^31 ∧ x.2.length < 2^31 ∧ ∀ w ∈ x.1.witness, w.length < 2^31

theorem countP2SHLoop_eq : ∀ (l : List (TxIn × Bytes)) (acc : Nat), SizesOk l →
    countP2SHLoop (l.map (fun x => (x.1, some x.2))) acc =
      some (acc + (l.map (fun x => if isP2SH x.2 then p2shSigOps x.1.script x.2 else 0)).sum) := by
  intro l
  induction l with
  | nil => intro acc _; simp [countP2SHLoop]
  | cons x r ih =>
    intro acc hok
    obtain ⟨i, pk⟩ := x
    obtain ⟨h1, h2, _⟩ := hok (i, pk) (by simp)
    have hok' : SizesOk r := fun y hy => hok y (by simp [hy])
    simp only [List.map_cons, countP2SHLoop, List.sum_cons]
    rw [isScriptHash_eq]
    by_cases hp : isP2SH pk = true
    · simp only [hp, Bool.not_true, Bool.false_eq_true, if_false, if_true]
      rw [ih _ hok', preciseSigOps_eq_spec i.script pk h1 h2]
      congr 1; omega
    · have hp' : isP2SH pk = false := by simpa using hp
      simp only [hp', Bool.not_false, if_true, Bool.false_eq_true, if_false]
      rw [ih _ hok']
      congr 1; omega

theorem witnessLoop_eq : ∀ (l : List (TxIn × Bytes)) (acc : Nat), SizesOk l →
    witnessLoop (l.map (fun x => (x.1, some x.2))) acc =
      some (acc + (l.map (fun x => witnessSigOps x.1.script x.2 x.1.witness)).sum) := by
  intro l
  induction l with
  | nil => intro acc _; simp [witnessLoop]
  | cons x r ih =>
    intro acc hok
    obtain ⟨i, pk⟩ := x
    obtain ⟨h1, _, h3⟩ := hok (i, pk) (by simp)
    have hok' : SizesOk r := fun y hy => hok y (by simp [hy])
    simp only [List.map_cons, witnessLoop, List.sum_cons]
    rw [ih _ hok', witnessSigOps_eq_spec i.script pk i.witness h1 h3]
    congr 1; omega

theorem sum_map_congr {β : Type} (f g : β → Nat) (l : List β) (h : ∀ x ∈ l, f x = g x) :
    (l.map f).sum = (l.map g).sum := by
  induction l with
  | nil => rfl
  | cons a r ih =>
    simp only [List.map_cons, List.sum_cons]
    rw [h a (by simp), ih (fun x hx => h x (by simp [hx]))]

theorem zip_fst_sum (f : TxIn → Nat) : ∀ (ins : List TxIn) (pks : List Bytes), pks.length = ins.length →
    ((ins.zip pks).map (fun x => f x.1)).sum = (ins.map f).sum := by
  intro ins
  induction ins with
  | nil => intro pks _; simp
  | cons a r ih =>
    intro pks h
    match pks, h with
    | p :: ps, h =>
      simp only [List.zip_cons_cons, List.map_cons, List.sum_cons]
      rw [ih ps (by simpa using h)]

theorem sigOpCost_eq_spec (t : Tx) (pks : List Bytes) (hlen : pks.length = t.ins.length)
    (hok : SizesOk (t.ins.zip pks)) (houts : ∀ o ∈ t.outs, o.pk.length < 2^31) :
    getSigOpCost t false (pks.map some) true true =
      some (txSigOpCost ((t.ins.zip pks).map (fun x => (x.1.script, x.1.witness, x.2))) (t.outs.map (·.pk))) := by
  unfold getSigOpCost countP2SHSigOps txSigOpCost
  have hz : t.ins.zip (pks.map some) = (t.ins.zip pks).map (fun x => (x.1, some x.2)) := by
    rw [List.zip_map_right]; rfl
  simp only [Bool.false_eq_true, if_false, if_true, Bool.not_false, and_self]
  rw [hz, countP2SHLoop_eq _ 0 hok]
  simp only [Option.map_some, Nat.zero_add]
  rw [witnessLoop_eq _ _ hok]
  simp only [List.map_map]
  unfold countSigOps getSigOpCount
  have e1 : (t.ins.map (fun i => countSigOpsV0 i.script false)).sum =
      ((t.ins.zip pks).map (fun x => sigOps false x.1.script)).sum := by
    rw [zip_fst_sum (fun i => sigOps false i.script) t.ins pks hlen]
    apply sum_map_congr
    intro i hi
    have : ∃ pk, (i, pk) ∈ t.ins.zip pks := by
      obtain ⟨n, hn, rfl⟩ := List.mem_iff_getElem.mp hi
      exact ⟨pks[n]'(by omega), List.mem_iff_getElem.mpr ⟨n, by simp [hlen, hn], by simp⟩⟩
    obtain ⟨pk, hm⟩ := this
    exact countSigOpsV0_eq_spec _ false (hok _ hm).1
  have e2 : (t.outs.map (fun o => countSigOpsV0 o.pk false)).sum = (t.outs.map (fun o => sigOps false o.pk)).sum :=
    sum_map_congr _ _ _ (fun o ho => countSigOpsV0_eq_spec _ false (houts o ho))
  rw [e1, e2]
  simp only [WITNESS_SCALE_FACTOR, Function.comp_def]
  congr 1
  omega

end BV.C13.Lemmas
