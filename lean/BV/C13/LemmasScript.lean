/-
C13 helper lemmas: the tokenizer-based sigop counters equal the protocol definitions. Core-only.
-/
import BV.C13.Model
namespace BV.C13.Lemmas
open BV.C13 BV.C13.Spec

/-- what `getOp` says, as a tokenizer outcome -/
def tokOfGetOp (s : Bytes) : Tok :=
  match getOp s with
  | some (o, d, r) => .op o d r
  | none => if s = [] then .done else .err

theorem leNat_lt (l : Bytes) : leNat l < 256 ^ l.length := by
  induction l with
  | nil => simp [leNat]
  | cons b r ih =>
    have := b.toNat_lt
    simp only [leNat, List.length_cons, Nat.pow_succ]
    omega

theorem tokNext_eq (s : Bytes) (hs : s.length < 2^31) : tokNext s = tokOfGetOp s := by
  cases s with
  | nil => simp [tokNext, tokOfGetOp, getOp]
  | cons b rest =>
    have hn := b.toNat_lt
    simp only [List.length_cons] at hs
    by_cases h0 : b.toNat = 0
    · simp [tokNext, tokOfGetOp, getOp, opLen, opKind, h0]
    · by_cases h1 : b.toNat ≤ 75
      · have hk : opKind b.toNat = .direct b.toNat := by simp [opKind]; omega
        have hl : opLen b.toNat = (b.toNat : Int) + 1 := by simp [opLen, h0, h1]
        simp only [tokNext, tokOfGetOp, getOp, hk, hl]
        have e1 : ¬ ((b.toNat : Int) + 1 = 1) := by omega
        have e2 : (b.toNat : Int) + 1 > 1 := by omega
        have e3 : ((b.toNat : Int) + 1).toNat - 1 = b.toNat := by omega
        simp only [e1, e2, e3, if_true, if_false]
        by_cases hr : rest.length < b.toNat
        · have : (rest.length : Int) + 1 < (b.toNat : Int) + 1 := by omega
          simp [hr, this]
        · have : ¬ ((rest.length : Int) + 1 < (b.toNat : Int) + 1) := by omega
          simp [hr, this]
      · by_cases h76 : b.toNat = 76
        · have hk : opKind b.toNat = .pushdata 1 := by simp [opKind, h76]
          have hl : opLen b.toNat = -1 := by simp [opLen, h76]
          simp only [tokNext, tokOfGetOp, getOp, hk, hl]
          simp only [show ¬ ((-1 : Int) = 1) by decide, show ¬ ((-1 : Int) > 1) by decide, if_false,
            show (-(-1 : Int)).toNat = 1 by decide]
          by_cases hr : rest.length < 1
          · simp [hr]
          · simp only [hr, if_false]
            have hlt := leNat_lt (rest.take 1)
            have : (rest.take 1).length ≤ 1 := by simp; omega
            have hb : leNat (rest.take 1) < 2^31 := by
              have : 256 ^ (rest.take 1).length ≤ 256 ^ 1 := Nat.pow_le_pow_right (by decide) this
              omega
            by_cases hd : (rest.drop 1).length < leNat (rest.take 1)
            · have : True := trivial
              simp only [gt_iff_lt, hd, true_or, if_true, reduceCtorEq, if_false]
            · have this : ¬ (leNat (rest.take 1) ≥ 2^31) := by omega
              simp only [gt_iff_lt, hd, this, false_or, or_self, if_false]
        · by_cases h77 : b.toNat = 77
          · have hk : opKind b.toNat = .pushdata 2 := by simp [opKind, h77]
            have hl : opLen b.toNat = -2 := by simp [opLen, h77]
            simp only [tokNext, tokOfGetOp, getOp, hk, hl]
            simp only [show ¬ ((-2 : Int) = 1) by decide, show ¬ ((-2 : Int) > 1) by decide, if_false,
              show (-(-2 : Int)).toNat = 2 by decide]
            by_cases hr : rest.length < 2
            · simp [hr]
            · simp only [hr, if_false]
              have hlt := leNat_lt (rest.take 2)
              have : (rest.take 2).length ≤ 2 := by simp; omega
              have hb : leNat (rest.take 2) < 2^31 := by
                have : 256 ^ (rest.take 2).length ≤ 256 ^ 2 := Nat.pow_le_pow_right (by decide) this
                omega
              by_cases hd : (rest.drop 2).length < leNat (rest.take 2)
              · simp only [gt_iff_lt, hd, true_or, if_true, reduceCtorEq, if_false]
              · have this : ¬ (leNat (rest.take 2) ≥ 2^31) := by omega
                simp only [gt_iff_lt, hd, this, false_or, or_self, if_false]
          · by_cases h78 : b.toNat = 78
            · have hk : opKind b.toNat = .pushdata 4 := by simp [opKind, h78]
              have hl : opLen b.toNat = -4 := by simp [opLen, h78]
              simp only [tokNext, tokOfGetOp, getOp, hk, hl]
              simp only [show ¬ ((-4 : Int) = 1) by decide, show ¬ ((-4 : Int) > 1) by decide, if_false,
                show (-(-4 : Int)).toNat = 4 by decide]
              by_cases hr : rest.length < 4
              · simp [hr]
              · simp only [hr, if_false]
                have hdl : (rest.drop 4).length < 2^31 := by simp; omega
                by_cases hd : (rest.drop 4).length < leNat (rest.take 4)
                · simp only [gt_iff_lt, hd, true_or, if_true, reduceCtorEq, if_false]
                · have this : ¬ (leNat (rest.take 4) ≥ 2^31) := by omega
                  simp only [gt_iff_lt, hd, this, false_or, or_self, if_false]
            · have hk : opKind b.toNat = .plain := by
                unfold opKind; rw [if_neg (by omega), if_neg h76, if_neg h77, if_neg h78]
              have hl : opLen b.toNat = 1 := by
                unfold opLen; rw [if_neg h0, if_neg h1, if_neg h76, if_neg h77, if_neg h78]
              simp [tokNext, tokOfGetOp, getOp, hk, hl]

theorem getOp_shorter' {s : Bytes} {o : Nat} {d r : Bytes} (h : getOp s = some (o, d, r)) :
    r.length < s.length := getOp_shorter h

/-- `countSigOpsV0` = protocol sigop count -/
theorem countLoop_eq (precise : Bool) : ∀ (n : Nat) (s : Bytes) (prev : Nat), s.length ≤ n → s.length < 2^31 →
    countLoop precise prev s = sigOpsFrom precise prev s := by
  intro n
  induction n with
  | zero =>
    intro s prev h _
    have : s = [] := List.eq_nil_of_length_eq_zero (by omega)
    subst this
    rw [countLoop, sigOpsFrom]; simp [tokNext, getOp]
  | succ n ih =>
    intro s prev h hs
    rw [countLoop, sigOpsFrom]
    have ht := tokNext_eq s hs
    unfold tokOfGetOp at ht
    cases hg : getOp s with
    | none =>
      rw [hg] at ht; simp only [] at ht
      split
      · next o d r heq => rw [heq] at ht; split at ht <;> cases ht
      · rfl
    | some x =>
      obtain ⟨o, d, r⟩ := x
      rw [hg] at ht; simp only [] at ht
      have hsh := getOp_shorter hg
      split
      · next o' d' r' heq =>
        rw [heq] at ht
        injection ht with e1 e2 e3
        subst e1 e2 e3
        simp only []
        rw [ih r' o' (by omega) (by omega)]
        simp only [OP_CHECKSIG, OP_CHECKSIGVERIFY, OP_CHECKMULTISIG, OP_CHECKMULTISIGVERIFY, OP_1, OP_16,
          MAX_PUBKEYS_PER_MULTISIG, MaxPubKeysPerMultiSig, ge_iff_le]
        rfl
      · next hne => exact absurd ht (by intro h; exact hne _ _ _ h)

theorem countSigOpsV0_eq_spec (s : Bytes) (precise : Bool) (hs : s.length < 2^31) :
    countSigOpsV0 s precise = sigOps precise s := by
  unfold countSigOpsV0 sigOps OP_INVALIDOPCODE
  exact countLoop_eq precise s.length s 0xff (Nat.le_refl _) hs

end BV.C13.Lemmas
