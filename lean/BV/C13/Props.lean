/-
C13 property theorems (statements only; helper lemmas are in Lemmas*.lean).
-/
import BV.C13.LemmasMerkle
import BV.Generated.C13
namespace BV.C13
open Spec

/-! ### merkle roots: every construction path equals the protocol root, for every leaf list and
    every node hash `H` (kept abstract: nothing depends on SHA-256) -/

/-- `BuildMerkleTreeStore`: the last element of the linear store is the protocol root. -/
theorem store_root_eq_spec {α : Type} (H : α → α → α) (zero : α) (l : List α) (h : l ≠ []) :
    storeRoot H zero l = some (mroot H zero l) := Lemmas.storeRoot_eq_spec H zero l h

/-- `CalcMerkleRoot` (rolling, O(log n) roots): never panics and returns the protocol root. -/
theorem rolling_root_eq_spec {α : Type} (H : α → α → α) (zero : α) (l : List α) (h : l ≠ []) :
    rollingRoot H zero l = some (mroot H zero l) := Lemmas.rollingRoot_eq_spec H zero l h

/-- Both paths on EVERY list of 0..N leaves (the empty list after the `fix:` guard). -/
theorem merkle_paths_eq_spec {α : Type} (H : α → α → α) (zero : α) (l : List α) :
    storeRoot H zero l = some (mroot H zero l) ∧ rollingRoot H zero l = some (mroot H zero l) := by
  by_cases h : l = []
  · subst h; simp [storeRoot, buildStore, rollingRoot, Lemmas.mroot_nil]
  · exact ⟨store_root_eq_spec H zero l h, rolling_root_eq_spec H zero l h⟩

/-- Witness form: both paths return the root over `0 :: wtxid(tx₁) :: … :: wtxid(txₙ₋₁)`. -/
theorem witness_root_eq_spec {α τ : Type} (H : α → α → α) (zero : α) (txid wtxid : τ → α)
    (cb : τ) (rest : List τ) :
    storeRoot H zero (leafHashes txid wtxid zero true (cb :: rest)) =
        some (mroot H zero (zero :: rest.map wtxid)) ∧
    rollingRoot H zero (leafHashes txid wtxid zero true (cb :: rest)) =
        some (mroot H zero (zero :: rest.map wtxid)) :=
  merkle_paths_eq_spec H zero _

/-- The protocol root of an odd level duplicates its last node (CVE-2012-2459 shape): appending
    a copy of the last leaf to an odd list of ≥ 3 leaves does not change the root. -/
theorem mroot_dup_last {α : Type} (H : α → α → α) (zero : α) (l : List α) (x : α)
    (h2 : 2 ≤ l.length) (he : l.length % 2 = 0) :
    mroot H zero (l ++ [x] ++ [x]) = mroot H zero (l ++ [x]) :=
  Lemmas.mroot_dup H zero 0 (l.length / 2) l [x] (by omega) (by rw [Nat.pow_zero]; omega) rfl

example : storeRoot (fun a b : Nat => 10 * a + b) 0 [1, 2, 3] = some 153 := by
  rw [store_root_eq_spec _ 0 [1, 2, 3] (by simp)]; simp [mroot, pairUp]

/-! ### pinning of regenerated facts (T2) -/
set_option maxRecDepth 100000 in
theorem pin_opcodeLengths : Generated.C13.opcodeLengths = (List.range 256).map opLen := by decide

end BV.C13
