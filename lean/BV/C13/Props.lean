/-
C13 property theorems (statements only; helper lemmas are in Lemmas*.lean).
-/
import BV.C13.Model
import BV.Generated.C13
namespace BV.C13
open Spec

set_option maxRecDepth 100000 in
theorem pin_opcodeLengths : Generated.C13.opcodeLengths = (List.range 256).map opLen := by decide

end BV.C13
