/-
C13 property theorems (statements only; helper lemmas are in Lemmas*.lean).
-/
import BV.C13.LemmasMerkle
import BV.C13.LemmasBasic
import BV.C13.LemmasScript
import BV.C13.LemmasScript2
import BV.C13.LemmasWitness
import BV.C13.LemmasHeight
import BV.C13.LemmasCost
import BV.C13.LemmasMtp
import BV.C13.LemmasStore
import BV.C13.LemmasBip68
import BV.C13.LemmasPush
import BV.C13.LemmasSanity
import BV.C13.LemmasRound3
import BV.Generated.C13
namespace BV.C13
open Spec

/-! ### merkle roots: every construction path equals the protocol root, for every leaf list and
    every node hash `H` (kept abstract: nothing depends on SHA-256) -/

/-- `BuildMerkleTreeStore`: the last element of the linear store is the protocol root. -/
theorem store_root_eq_spec {α : Type} (H : α → α → α) (zero : α) (l : List α) (h : l ≠ []) :
    storeRoot H zero l = some (mroot H zero l) := Lemmas.storeRoot_eq_spec H zero l h

/-- `CalcMerkleRoot` (rolling, O(log n) roots): never panics and returns the protocol root. -/
theorem rolling_root_eq_spec {α : Type} (H : α → α → α) (zero : α) (l : List α) (h : l ≠ []) :
    rollingRoot H zero l = some (mroot H zero l) := Lemmas.rollingRoot_eq_spec H zero l h

/-- The WHOLE store (not only its last slot) is the protocol tree level by level — the leaves, then
    `pairUp` of them, … — each level nil-padded to its power of two; `2^k` is the least power ≥ n. -/
theorem store_eq_levels {α : Type} (H : α → α → α) (zero : α) (l : List α) (h : l ≠ []) :
    ∃ k, l.length ≤ 2^k ∧ (k = 0 ∨ 2^(k-1) < l.length) ∧ buildStore H zero l = Lemmas.specLevels H k l :=
  Lemmas.buildStore_eq_levels H zero l h

example : buildStore (fun a b : Nat => 10 * a + b) 0 [1, 2, 3] =
    [some 1, some 2, some 3, none, some 12, some 33, some 153] := by decide

/-- `nextPowerOfTwo n` is the least power of two ≥ n (n ≥ 1) -/
theorem nextPowerOfTwo_least (n : Nat) (h : 0 < n) :
    ∃ k, nextPowerOfTwo n = 2^k ∧ n ≤ 2^k ∧ (k = 0 ∨ 2^(k-1) < n) := Lemmas.nextPowerOfTwo_spec n h

/-- `rollingMerkleTreeStore.add` is a binary-counter increment whose carry is the node hash: from a
    store that represents `L` (one perfect-subtree root per set bit of the count) adding a leaf yields
    the store that represents `L ++ [x]`, never popping an empty slice. -/
theorem rolling_add_increments {α : Type} (H : α → α → α) (zero : α) (n : Nat) (roots L : List α) (x : α)
    (h : Lemmas.Rep H zero n 0 roots L) :
    ∃ roots', (⟨roots, n⟩ : Roll α).add H x = some ⟨roots', n + 1⟩ ∧ Lemmas.Rep H zero (n + 1) 0 roots' (L ++ [x]) := by
  obtain ⟨r, ha, hr⟩ := Lemmas.addLoop_rep H zero n 0 roots L [x] h rfl
  rw [Lemmas.mroot_one] at ha
  exact ⟨r, by simp [Roll.add, ha], hr⟩

/-- O(log n) memory: a store that represents `n` leaves keeps at most log₂(n+1) roots -/
theorem rolling_roots_log {α : Type} (H : α → α → α) (zero : α) : ∀ (n j : Nat) (roots L : List α),
    Lemmas.Rep H zero n j roots L → 2^roots.length ≤ n + 1 := by
  intro n
  induction n using Nat.strongRecOn with
  | _ n ih =>
    intro j roots L h
    by_cases h0 : n = 0
    · subst h0; rw [Lemmas.rep_zero] at h; rw [h.1]; simp
    · by_cases h1 : n % 2 = 1
      · rw [Lemmas.rep_odd H zero h1] at h
        obtain ⟨r, rs, L1, L2, hr, _, _, _, hrep⟩ := h
        have := ih (n/2) (by omega) _ _ _ hrep
        rw [hr, List.length_cons, Nat.pow_succ]; omega
      · rw [Lemmas.rep_even H zero h0 (by omega)] at h
        have := ih (n/2) (by omega) _ _ _ h
        omega

/-- With a collision-free node hash (an explicit hypothesis, never an axiom) the root commits to
    the leaf list once the number of leaves is fixed — without the count it does not
    (`mroot_dup_last`), which is why `checkBlockSanity` also rejects duplicates. -/
theorem mroot_injective {α : Type} (H : α → α → α) (zero : α)
    (Hinj : ∀ a b c d, H a b = H c d → a = c ∧ b = d) (l1 l2 : List α) (hl : l1.length = l2.length)
    (h : mroot H zero l1 = mroot H zero l2) : l1 = l2 :=
  Lemmas.mroot_injective H zero Hinj l1.length l1 l2 rfl hl.symm h

/-- the hypothesis is satisfiable: the free binary tree constructor is an injective node hash -/
inductive FreeNode | leaf (n : Nat) | node (l r : FreeNode)
example : ∀ a b c d : FreeNode, FreeNode.node a b = FreeNode.node c d → a = c ∧ b = d :=
  fun _ _ _ _ h => by injection h with h1 h2; exact ⟨h1, h2⟩

/-- Both paths on EVERY list of 0..N leaves (the empty list after the `fix:` guard). -/
theorem merkle_paths_eq_spec {α : Type} (H : α → α → α) (zero : α) (l : List α) :
    storeRoot H zero l = some (mroot H zero l) ∧ rollingRoot H zero l = some (mroot H zero l) := by
  by_cases h : l = []
  · subst h; simp [storeRoot, buildStore, rollingRoot, Lemmas.mroot_nil]
  · exact ⟨store_root_eq_spec H zero l h, rolling_root_eq_spec H zero l h⟩

/-- Witness form: both paths return the root over `0 :: wtxid(tx₁) :: … :: wtxid(txₙ₋₁)`. -/
theorem witness_root_eq_spec {α τ : Type} (H : α → α → α) (zero : α) (txid wtxid : τ → α)
    (cb : τ) (rest : List τ) :
    storeRoot H zero (leafHashes txid wtxid zero true (cb :: rest)) =
        some (mroot H zero (zero :: rest.map wtxid)) ∧
    rollingRoot H zero (leafHashes txid wtxid zero true (cb :: rest)) =
        some (mroot H zero (zero :: rest.map wtxid)) :=
  merkle_paths_eq_spec H zero _

/-- The protocol root of an odd level duplicates its last node (CVE-2012-2459 shape): appending
    a copy of the last leaf to an odd list of ≥ 3 leaves does not change the root. -/
theorem mroot_dup_last {α : Type} (H : α → α → α) (zero : α) (l : List α) (x : α)
    (h2 : 2 ≤ l.length) (he : l.length % 2 = 0) :
    mroot H zero (l ++ [x] ++ [x]) = mroot H zero (l ++ [x]) :=
  Lemmas.mroot_dup H zero 0 (l.length / 2) l [x] (by omega) (by rw [Nat.pow_zero]; omega) rfl

example : storeRoot (fun a b : Nat => 10 * a + b) 0 [1, 2, 3] = some 153 := by
  rw [store_root_eq_spec _ 0 [1, 2, 3] (by simp)]; simp [mroot, pairUp]

/-! ### witness commitment -/

/-- `ExtractWitnessCommitment` returns the 32 bytes after the magic of the LAST coinbase output whose
    script is ≥ 38 bytes and starts with 6a24aa21a9ed; nothing for a non-coinbase. -/
theorem extractCommitment_eq_spec (t : Tx) :
    extractWitnessCommitment t = if t.isCoinBase then commitment (t.outs.map (·.pk)) else none :=
  Lemmas.extractCommitment_eq_spec t

/-- wherever it stands among the outputs, the LAST commitment-shaped output is the one extracted -/
theorem commitment_last_wins (pre post : List Bytes) (pk : Bytes) (hpk : isCommitmentScript pk = true)
    (hpost : ∀ q ∈ post, isCommitmentScript q = false) :
    commitment (pre ++ pk :: post) = some ((pk.drop 6).take 32) :=
  Lemmas.commitment_last_wins pre post pk hpk hpost

/-- `ValidateWitnessCommitment` accepts exactly: a non-empty block whose coinbase has an input and
    either no commitment and no witness data anywhere, or a commitment equal to
    `dhash (witness root ‖ nonce)` with the coinbase witness being exactly one 32-byte nonce. -/
theorem validateCommitment_iff (dhash : Bytes → Bytes) (root : Bytes) (cb : Tx) (rest : List Tx)
    (in0 : TxIn) (ins : List TxIn) (hins : cb.ins = in0 :: ins) :
    validateWitnessCommitment dhash (some root) (cb :: rest) = .ok ↔
      (extractWitnessCommitment cb = none ∧ (cb :: rest).any Tx.hasWitness = false) ∨
      (∃ c nonce, extractWitnessCommitment cb = some c ∧ in0.witness = [nonce] ∧
        nonce.length = 32 ∧ dhash (root ++ nonce) = c) := by
  unfold validateWitnessCommitment
  simp only [hins]
  cases hc : extractWitnessCommitment cb with
  | none =>
    simp only []
    by_cases hw : (cb :: rest).any Tx.hasWitness = true
    · simp [hw]
    · simp [hw]
  | some c =>
    simp only []
    match hwit : in0.witness with
    | [] => simp
    | [nonce] =>
      simp only [CoinbaseWitnessDataLen]
      by_cases hl : nonce.length = 32
      · by_cases hd : dhash (root ++ nonce) = c <;> simp [hl, hd]
      · simp [hl]
    | _ :: _ :: _ => simp

/-- the commitment check run with the real rolling computation of the witness root is the check
    against the protocol root over `0 :: wtxids` (never a panic) -/
theorem validateCommitment_uses_protocol_root {τ : Type} (dhash : Bytes → Bytes) (H : Bytes → Bytes → Bytes)
    (zero : Bytes) (txid wtxid : τ → Bytes) (cb : τ) (rest : List τ) (txs : List Tx) :
    validateWitnessCommitment dhash (rollingRoot H zero (leafHashes txid wtxid zero true (cb :: rest))) txs =
      validateWitnessCommitment dhash (some (mroot H zero (zero :: rest.map wtxid))) txs := by
  rw [(witness_root_eq_spec H zero txid wtxid cb rest).2]

/-- the same acceptance condition in protocol terms for a real coinbase: the commitment is the one
    `GetWitnessCommitmentIndex` finds (last commitment-shaped output) -/
theorem validateCommitment_spec (dhash : Bytes → Bytes) (root : Bytes) (cb : Tx) (rest : List Tx)
    (in0 : TxIn) (ins : List TxIn) (hins : cb.ins = in0 :: ins) (hcb : cb.isCoinBase = true) :
    validateWitnessCommitment dhash (some root) (cb :: rest) = .ok ↔
      (commitment (cb.outs.map (·.pk)) = none ∧ (cb :: rest).any Tx.hasWitness = false) ∨
      (∃ c nonce, commitment (cb.outs.map (·.pk)) = some c ∧ in0.witness = [nonce] ∧
        nonce.length = 32 ∧ dhash (root ++ nonce) = c) := by
  rw [validateCommitment_iff dhash root cb rest in0 ins hins, extractCommitment_eq_spec, if_pos hcb]

/-- in a block without witness data the witness tree is the txid tree with a zeroed coinbase leaf -/
theorem witness_leaves_witness_free {α τ : Type} (txid wtxid : τ → α) (zero : α) (cb : τ) (rest : List τ)
    (h : ∀ t ∈ rest, wtxid t = txid t) :
    leafHashes txid wtxid zero true (cb :: rest) = zero :: rest.map txid := by
  simp only [leafHashes, if_true, List.cons.injEq, true_and]
  exact List.map_congr_left h

/-- an empty block / a coinbase without inputs is rejected before anything is hashed -/
theorem validateCommitment_degenerate (dhash : Bytes → Bytes) (root : Option Bytes) (cb : Tx) (rest : List Tx)
    (h : cb.ins = []) :
    validateWitnessCommitment dhash root [] = .noTransactions ∧
    validateWitnessCommitment dhash root (cb :: rest) = .noTxInputs := by
  simp [validateWitnessCommitment, h]

/-! ### weight -/

/-- transactions whose inputs carry 32-byte previous-output hashes (every decoded transaction) -/
abbrev TxWf (t : Tx) : Prop := Lemmas.Tx.wf t

/-- `GetTransactionWeight` = 3·|stripped serialization| + |full serialization|: the size arithmetic
    (`baseSize`, `SerializeSize`) equals the length of what `btcEncode` writes. -/
theorem weight_def (t : Tx) (h : TxWf t) :
    txWeight t = 3 * (t.serialize false).length + (t.serialize true).length :=
  Lemmas.txWeight_def t h

/-- `GetBlockWeight` = 4·(80 + |varint n|) + Σ transaction weights. -/
theorem blockWeight_def (txs : List Tx) :
    blockWeight txs = 4 * (80 + varIntSize txs.length) + (txs.map txWeight).sum :=
  Lemmas.blockWeight_def txs

theorem varInt_length (n : Nat) : (varInt n).length = varIntSize n := Lemmas.varInt_length n

/-- weight = 4·stripped size + witness bytes (marker, flag, witness stacks) -/
theorem weight_split (t : Tx) : txWeight t = 4 * t.baseSize + (t.totalSize - t.baseSize) := by
  have := Lemmas.baseSize_le_totalSize t
  unfold txWeight WITNESS_SCALE_FACTOR; omega

/-- block weight = 3·|stripped block serialization| + |full block serialization| (80-byte header,
    transaction count, transactions) -/
theorem blockWeight_eq_serialized (hdr : Bytes) (txs : List Tx) (hh : hdr.length = 80)
    (hw : ∀ t ∈ txs, TxWf t) :
    blockWeight txs = 3 * (Lemmas.serializeBlock hdr txs false).length + (Lemmas.serializeBlock hdr txs true).length :=
  Lemmas.blockWeight_eq_serialized hdr txs hh hw

/-- without witness data the weight is exactly 4 × the serialized size -/
theorem weight_no_witness (t : Tx) (h : TxWf t) (hw : t.hasWitness = false) :
    txWeight t = 4 * (t.serialize true).length := by
  rw [weight_def t h]
  simp [Tx.serialize, hw]
  omega

/-- `WitnessHash` falls back to `TxHash` without witness data: both hash the same bytes, so the
    wtxid leaf of a witness-free transaction is its txid. -/
theorem serialize_witness_free (t : Tx) (hw : t.hasWitness = false) :
    t.serialize true = t.serialize false := by
  simp [Tx.serialize, hw]

example : TxWf ⟨1, [⟨List.replicate 32 0, 0, [], 0, []⟩], [], 0⟩ := by
  intro i hi; simp at hi; subst hi; simp

/-! ### signature operations -/

/-- `GetSigOpCount` / `countSigOpsV0(precise)` = the protocol count for every script (shorter than
    2 GiB: the tokenizer's offsets are int32): CHECKSIG(VERIFY) = 1, CHECKMULTISIG(VERIFY) = the
    preceding OP_1..OP_16 in precise mode else 20, push data (direct and 0x4c–0x4e) skipped, a
    malformed push stops the count and keeps what was counted. -/
theorem sigops_legacy_eq_spec (s : Bytes) (precise : Bool) (hs : s.length < 2^31) :
    countSigOpsV0 s precise = sigOps precise s := Lemmas.countSigOpsV0_eq_spec s precise hs

/-- the tokenizer agrees with the protocol's `GetOp` on every script -/
theorem tokenizer_eq_getOp (s : Bytes) (hs : s.length < 2^31) :
    tokNext s = match getOp s with
      | some (o, d, r) => .op o d r
      | none => if s = [] then .done else .err := Lemmas.tokNext_eq s hs

/-- `GetPreciseSigOpCount` = the protocol's P2SH count: for a P2SH output the accurate count of the
    LAST push of a push-only scriptSig (0 if the scriptSig is not push-only, does not parse, or is
    empty), otherwise the accurate count of the scriptPubKey. -/
theorem p2sh_sigops (sig pk : Bytes) (h1 : sig.length < 2^31) (h2 : pk.length < 2^31) :
    getPreciseSigOpCount sig pk = p2shSigOps sig pk := Lemmas.preciseSigOps_eq_spec sig pk h1 h2

/-- the tokenizer-based witness-program test equals the protocol's byte-level `IsWitnessProgram`
    (4..42 bytes, OP_0/OP_1..OP_16, one direct push of the remaining 2..40 bytes) for EVERY script -/
theorem witnessProgram_eq_spec (s : Bytes) : extractWitnessProgramInfo s = witnessProgram s :=
  Lemmas.witnessProgram_eq_spec s

/-- `GetWitnessSigOpCount` = `CountWitnessSigOps`: P2WPKH = 1, P2WSH = accurate count of the last
    witness item, other versions 0, the same through a P2SH-nested program. -/
theorem witness_sigops (sig pk : Bytes) (wit : List Bytes) (hs : sig.length < 2^31)
    (hw : ∀ w ∈ wit, w.length < 2^31) :
    getWitnessSigOpCount sig pk wit = witnessSigOps sig pk wit :=
  Lemmas.witnessSigOps_eq_spec sig pk wit hs hw

example : witnessSigOps [] ([0x00, 0x14] ++ List.replicate 20 7) [] = 1 := by decide

/-- `IsPushOnlyScript` = the protocol's `IsPushOnly` (every instruction parses and is ≤ OP_16) -/
theorem pushOnly_eq_spec (s : Bytes) (hs : s.length < 2^31) :
    isPushOnly s = (pushOnlyLast [] s).isSome := Lemmas.isPushOnly_eq_spec s hs

/-- unified cost = 4·(legacy + P2SH) + witness, when every spent output is available -/
theorem sigOpCost_def (t : Tx) (utxos : List Utxo) (p w : Nat)
    (hp : countP2SHSigOps t false utxos = some p)
    (hw : witnessLoop (t.ins.zip utxos) 0 = some w) :
    getSigOpCost t false utxos true true = some (4 * (countSigOps t + p) + w) := by
  unfold getSigOpCost
  simp only [hp, if_true, Option.map_some, WITNESS_SCALE_FACTOR, Bool.not_false, and_self]
  rw [Lemmas.witnessLoop_acc, hw]
  simp only [Option.map_some]
  congr 1; omega

/-- `CountSigOps` = `GetLegacySigOpCount`: inaccurate count over every input and output script -/
theorem countSigOps_eq_spec (t : Tx) (hin : ∀ i ∈ t.ins, i.script.length < 2^31)
    (hout : ∀ o ∈ t.outs, o.pk.length < 2^31) :
    countSigOps t = (t.ins.map (fun i => sigOps false i.script)).sum + (t.outs.map (fun o => sigOps false o.pk)).sum := by
  unfold countSigOps getSigOpCount
  rw [Lemmas.sum_map_congr _ _ t.ins (fun i hi => Lemmas.countSigOpsV0_eq_spec _ false (hin i hi)),
    Lemmas.sum_map_congr _ _ t.outs (fun o ho => Lemmas.countSigOpsV0_eq_spec _ false (hout o ho))]

/-- `GetSigOpCost` (BIP16 and segwit active, non-coinbase, every spent output in the view) =
    the protocol's `GetTransactionSigOpCost` = 4·(legacy + P2SH) + witness, on the Spec counters. -/
theorem sigOpCost_eq_spec (t : Tx) (pks : List Bytes) (hlen : pks.length = t.ins.length)
    (hok : Lemmas.SizesOk (t.ins.zip pks)) (houts : ∀ o ∈ t.outs, o.pk.length < 2^31) :
    getSigOpCost t false (pks.map some) true true =
      some (txSigOpCost ((t.ins.zip pks).map (fun x => (x.1.script, x.1.witness, x.2))) (t.outs.map (·.pk))) :=
  Lemmas.sigOpCost_eq_spec t pks hlen hok houts

example : Lemmas.SizesOk [((⟨List.replicate 32 1, 0, [0x51], 0xffffffff, [[0xac]]⟩ : TxIn), [0x00, 0x14])] := by
  intro x hx
  simp at hx
  subst hx
  refine ⟨by decide, by decide, ?_⟩
  intro w hw
  simp at hw
  subst hw
  decide

/-- the protocol cost does not depend on the order of the inputs or of the outputs (every input is
    counted with ITS OWN scriptSig, witness and spent script) -/
theorem txSigOpCost_perm (i1 i2 : List (Bytes × List Bytes × Bytes)) (o1 o2 : List Bytes)
    (pi : i1.Perm i2) (po : o1.Perm o2) : txSigOpCost i1 o1 = txSigOpCost i2 o2 :=
  Lemmas.txSigOpCost_perm i1 i2 o1 o2 pi po

/-- the code's behaviour on unavailable outputs, stated as it is: with BIP16 on, an output that is
    missing while the P2SH sigops are counted yields cost 0 WITHOUT an error (`return 0, nil`); the
    callers reject such a transaction through CheckTransactionInputs. Without BIP16 the segwit pass
    reports the error. -/
theorem sigOpCost_missing_quirk (t : Tx) (utxos : List Utxo) (sw : Bool)
    (h : countP2SHSigOps t false utxos = none) : getSigOpCost t false utxos true sw = some 0 :=
  Lemmas.sigOpCost_missing_quirk t utxos sw h

theorem sigOpCost_missing_segwit (t : Tx) (utxos : List Utxo)
    (h : witnessLoop (t.ins.zip utxos) (countSigOps t * WITNESS_SCALE_FACTOR) = none) :
    getSigOpCost t false utxos false true = none :=
  Lemmas.sigOpCost_missing_segwit t utxos _ h rfl

/-- a coinbase pays only for its legacy sigops: 4 · legacy -/
theorem sigOpCost_coinbase (t : Tx) (utxos : List Utxo) (b16 sw : Bool) :
    getSigOpCost t true utxos b16 sw = some (4 * countSigOps t) := by
  unfold getSigOpCost countP2SHSigOps
  cases b16 <;> simp [WITNESS_SCALE_FACTOR, Nat.mul_comm]

/-! ### block sanity: what `checkBlockSanity` does with the merkle root and the legacy sigops -/

/-- after the header / coinbase / per-transaction checks a block passes `checkBlockSanity` iff its
    header commits to the computed root, no txid occurs twice (the CVE-2012-2459 guard: a duplicated
    tail keeps the root, see `mroot_dup_last`) and 4·(legacy sigops) ≤ MaxBlockSigOpsCost. -/
theorem blockSanity_ok_iff {β : Type} [DecidableEq β] (headerRoot c : β) (txids : List β) (sigops : List Nat) :
    checkBlockSanityTail headerRoot (some c) txids sigops = some .ok ↔
      headerRoot = c ∧ txids.Nodup ∧ 4 * sigops.sum ≤ 80000 := by
  unfold checkBlockSanityTail
  simp only []
  by_cases h1 : headerRoot = c
  · by_cases h2 : hasDup txids = true
    · have : ¬ txids.Nodup := by
        intro hn; rw [← Lemmas.hasDup_false_iff] at hn; rw [hn] at h2; cases h2
      simp [h1, h2, this]
    · have h2' : hasDup txids = false := by simpa using h2
      have hn := (Lemmas.hasDup_false_iff txids).mp h2'
      by_cases h3 : sigOpsLoop 80000 sigops 0 = true
      · have := (Lemmas.sigOpsLoop_zero_iff 80000 sigops).mp h3
        simp [h1, h2', h3, hn, this]
      · have h3' : sigOpsLoop 80000 sigops 0 = false := by simpa using h3
        have : ¬ 4 * sigops.sum ≤ 80000 := by
          intro h; rw [← Lemmas.sigOpsLoop_zero_iff] at h; rw [h] at h3'; cases h3'
        simp [h1, h2', h3', this]
  · simp [h1]

/-! ### coinbase height (BIP34) -/

/-- the script builder's `AddInt64` is the BIP34 encoder `CScript() << height` -/
theorem addInt64_eq_bip34 (h : Nat) (hh : h < 2^31) : addInt64 (h : Int) = heightScript h :=
  Lemmas.addInt64_eq_heightScript h hh

/-- round trip: for EVERY height 0..2^31−1 and every continuation of the script,
    `ExtractCoinbaseHeight` returns the height the BIP34 encoder wrote. -/
theorem coinbaseHeight_roundtrip (h : Nat) (hh : h < 2^31) (tail : Bytes) :
    extractCoinbaseHeight (heightScript h ++ tail) = .ok (h : Int) := by
  rw [← addInt64_eq_bip34 h hh]; exact Lemmas.coinbaseHeight_roundtrip h hh tail

/-- minimal encoding enforced: whatever height is extracted, the script starts with exactly the
    canonical encoding of that height. -/
theorem coinbaseHeight_minimal (s : Bytes) (h : Int) (hx : extractCoinbaseHeight s = .ok h) :
    (addInt64 h).isPrefixOf s = true := by
  unfold extractCoinbaseHeight at hx
  match s, hx with
  | op :: rest, hx =>
    simp only [] at hx
    have hlt := op.toNat_lt
    split at hx
    · next h0 =>
      injection hx with hx; subst hx
      have : op = 0 := by apply UInt8.toNat_inj.mp; simpa using h0
      subst this; simp [addInt64]
    · split at hx
      · next h1 =>
        injection hx with hx; subst hx
        have e : addInt64 ((op.toNat - 0x50 : Nat) : Int) = [op] := by
          unfold addInt64
          rw [if_neg (by omega), if_pos (Or.inr ⟨by omega, by omega⟩)]
          congr 1
          apply UInt8.toNat_inj.mp
          simp only [Lemmas.u8]
          have : (0x50 + ((op.toNat - 0x50 : Nat) : Int)).toNat = op.toNat := by omega
          rw [this]; omega
        rw [e]; simp
      · split at hx
        · cases hx
        · split at hx
          · next hp => injection hx with hx; subst hx; exact hp
          · cases hx

/-- `ExtractCoinbaseHeight` reports ErrMissingCoinbaseHeight exactly for an empty script or a
    first-byte push length that exceeds what follows -/
theorem coinbaseHeight_missing_iff (op : UInt8) (rest : Bytes) :
    extractCoinbaseHeight [] = .missing ∧
    (extractCoinbaseHeight (op :: rest) = .missing ↔
      op.toNat ≠ 0 ∧ ¬ (op.toNat ≥ 0x51 ∧ op.toNat ≤ 0x60) ∧ rest.length < op.toNat) :=
  Lemmas.coinbaseHeight_missing_iff op rest

/-- BIP34 as Core states it: `CheckSerializedHeight(want)` passes (extraction succeeds with exactly
    `want`) iff the signature script starts with `CScript() << want`, for every height 0..2^31−1. -/
theorem checkSerializedHeight_iff (s : Bytes) (want : Nat) (hw : want < 2^31) :
    extractCoinbaseHeight s = .ok (want : Int) ↔ (heightScript want).isPrefixOf s = true := by
  constructor
  · intro h
    rw [← addInt64_eq_bip34 want hw]
    exact coinbaseHeight_minimal s _ h
  · intro h
    obtain ⟨tail, ht⟩ := List.isPrefixOf_iff_prefix.mp h
    rw [← ht]
    exact coinbaseHeight_roundtrip want hw tail

/-! ### finality and BIP68 -/

/-- `IsFinalizedTransaction` = `IsFinalTx`: lock time 0, or below the height/time it refers to
    (threshold 500 000 000), or every input sequence is 0xffffffff. -/
theorem finalized_iff (lt : Nat) (seqs : List Nat) (h t : Int) :
    isFinalizedTransaction lt seqs h t = true ↔
      (lt = 0 ∨ (lt : Int) < (if lt < 500000000 then h else t) ∨ ∀ s ∈ seqs, s = 0xffffffff) := by
  rw [Lemmas.finalized_eq_spec]
  unfold isFinal LOCKTIME_THRESHOLD SEQUENCE_FINAL
  simp only [List.all_eq_true, Bool.or_eq_true, decide_eq_true_eq, or_assoc]

/-- finality and the BIP68 locks do not depend on the order of the inputs -/
theorem isFinal_perm (lt : Nat) (s1 s2 : List Nat) (h t : Int) (p : s1.Perm s2) :
    isFinal lt s1 h t = isFinal lt s2 h t := Lemmas.isFinal_perm lt s1 s2 h t p

theorem sequenceLocks_perm (e : Bool) (l1 l2 : List SeqInput) (p : l1.Perm l2) :
    sequenceLocks e l1 = sequenceLocks e l2 := Lemmas.sequenceLocks_perm e l1 l2 p

/-- `calcSequenceLock` = BIP68 `CalculateSequenceLocks` for a non-coinbase transaction whose inputs
    are all in the view at heights that leave room for the 16-bit offset (no int32 wrap). -/
theorem sequenceLock_eq_bip68 (csvActive : Bool) (version : Nat) (nodeHeight : Int) (ins : List LockInput)
    (hok : Lemmas.LockInputsOk (nodeHeight + 1) ins) :
    calcSequenceLock csvActive version false nodeHeight ins =
      (let r := sequenceLocks (decide (version ≥ 2) && csvActive) (ins.map (Lemmas.toSeqInput (nodeHeight + 1)))
       LockResult.ok r.2 r.1) := by
  unfold calcSequenceLock sequenceLocks
  by_cases h : (decide (version ≥ 2) && csvActive) = true
  · simp only [h, Bool.not_true, Bool.or_false, Bool.false_eq_true, if_false]
    rw [Lemmas.lockLoop_eq _ _ _ _ hok (by omega) (by omega)]
    rfl
  · have h' : (decide (version ≥ 2) && csvActive) = false := by simpa using h
    simp [h']

/-- the time-based lock of an input is measured from the median time past of the block BEFORE the
    block that contains the spent output (height − 1, floored at 0; mempool inputs count as the
    next block, so they measure from the current tip). -/
theorem sequenceLock_prev_block_mtp (times : List Int) (seq : Nat) (h : Int) (hh : h ≠ 0x7fffffff) :
    (lockInputOf times seq (some h)).prevMtp = mtpAt times (if h - 1 < 0 then 0 else h - 1).toNat ∧
    (lockInputOf times seq (some 0x7fffffff)).prevMtp = mtpAt times (times.length - 1) := by
  constructor
  · simp [lockInputOf, hh]
  · simp only [lockInputOf, if_true]
    congr 1
    omega

/-- BIP68 end to end: the locks computed for a transaction are satisfied by a block at height `bh`
    (previous block's median time `mtp`) iff EVERY input is individually mature: disabled, or (time
    type) prevMtp + 512·v ≤ mtp, or (height type) inputHeight + v ≤ bh. -/
theorem locksSatisfied_iff_inputs_mature (ins : List SeqInput) (bh mtp : Int) (hbh : 0 ≤ bh) (hm : 0 ≤ mtp) :
    locksSatisfied (sequenceLocks true ins).1 (sequenceLocks true ins).2 bh mtp = true ↔
      ∀ i ∈ ins, Lemmas.inputMature i bh mtp :=
  Lemmas.locksSatisfied_iff_all_inputs ins bh mtp hbh hm

/-- `LockTimeToSequence` produces a BIP68 sequence number: type flag set, disable flag clear, and the
    16-bit field holds the lock in 512-second units (for every lock that fits: < 2^25 seconds), so
    `calcSequenceLock` decodes it to `⌊t/512⌋·512 − 1` seconds after the previous block's MTP. -/
theorem lockTimeToSequence_seconds (t : Nat) (ht : t < 2^25) :
    let s := lockTimeToSequence true t
    s / SEQ_DISABLE_FLAG % 2 = 0 ∧ s / SEQ_TYPE_FLAG % 2 = 1 ∧ s % (SEQ_MASK + 1) = t / 512 := by
  have h1 : t % 2^32 = t := Nat.mod_eq_of_lt (by omega)
  have h2 : t / 2^9 < 2^22 := by omega
  have h3 := Nat.two_pow_add_eq_or_of_lt h2 1
  simp only [lockTimeToSequence, Bool.not_true, Bool.false_eq_true, if_false, h1, SEQ_DISABLE_FLAG,
    SEQ_TYPE_FLAG, SEQ_MASK]
  rw [Nat.mul_one] at h3
  rw [← h3]
  omega

theorem lockTimeToSequence_blocks (n : Nat) (hn : n < 2^16) :
    let s := lockTimeToSequence false n
    s / SEQ_DISABLE_FLAG % 2 = 0 ∧ s / SEQ_TYPE_FLAG % 2 = 0 ∧ s % (SEQ_MASK + 1) = n := by
  simp only [lockTimeToSequence, Bool.not_false, if_true, SEQ_DISABLE_FLAG, SEQ_TYPE_FLAG, SEQ_MASK]
  omega

/-- that median time past is the upper median of the ≤ 11 timestamps ending at that block
    (through C09's theorem about `CalcPastMedianTime`). -/
theorem mtpAt_is_median (times : List Int) (height : Nat) (hne : times ≠ []) :
    let w := ((times.take (height + 1)).reverse).take 11
    let m := mtpAt times height
    m ∈ w ∧ (w.filter (· < m)).length ≤ w.length / 2 ∧ (w.filter (· > m)).length ≤ (w.length - 1) / 2 := by
  have hne' : (times.take (height + 1)).reverse ≠ [] := by
    cases times with
    | nil => exact absurd rfl hne
    | cons a r => simp
  exact Lemmas.medianTime_is_median _ hne'

/-- version < 2, CSV inactive or a coinbase: no constraint (−1, −1) -/
theorem sequenceLock_disabled (csvActive : Bool) (version : Nat) (cb : Bool) (nodeHeight : Int)
    (ins : List LockInput) (h : version < 2 ∨ csvActive = false ∨ cb = true) :
    calcSequenceLock csvActive version cb nodeHeight ins = .ok (-1) (-1) := by
  unfold calcSequenceLock
  rcases h with h | h | h
  · have : decide (version ≥ 2) = false := by simp; omega
    simp [this]
  · simp [h]
  · simp [h]

/-- `SequenceLockActive` = BIP68 `EvaluateSequenceLocks`: both locks strictly below the block's
    height / the previous block's median time past. -/
theorem lockActive_iff (s h bh mtp : Int) :
    sequenceLockActive s h bh mtp = true ↔ (h < bh ∧ s < mtp) := by
  rw [Lemmas.lockActive_eq_spec]; simp [locksSatisfied]

example : Lemmas.LockInputsOk 101 [⟨5, some 100, 1500000000⟩, ⟨1 <<< 22 ||| 3, some 0x7fffffff, 1500000000⟩] := by
  intro i hi
  simp at hi
  rcases hi with hi | hi <;> subst hi <;> exact ⟨_, rfl, by decide⟩

/-! ### pinning of regenerated facts (T2) -/
set_option maxRecDepth 100000 in
theorem pin_opcodeLengths : Generated.C13.opcodeLengths = (List.range 256).map opLen := by decide

set_option maxRecDepth 100000 in
/-- the same table read through the protocol's classification of opcodes -/
theorem pin_opcodeLengths_spec :
    Generated.C13.opcodeLengths = (List.range 256).map (fun op => match opKind op with
      | .plain => (1 : Int) | .direct n => (n : Int) + 1 | .pushdata k => -(k : Int)) := by decide

theorem pin_weight_consts :
    Generated.C13.witnessScaleFactor = (WITNESS_SCALE_FACTOR : Int) ∧ Generated.C13.blockHeaderLen = 80 ∧
    Generated.C13.maxBlockWeight = 4000000 ∧ Generated.C13.maxBlockSigOpsCost = 80000 := by decide

theorem pin_sigop_consts :
    Generated.C13.maxPubKeysPerMultiSig = (MAX_PUBKEYS_PER_MULTISIG : Int) ∧
    Generated.C13.maxPubKeysPerMultiSig = (MaxPubKeysPerMultiSig : Int) ∧
    Generated.C13.opCheckSig = (OP_CHECKSIG : Int) ∧ Generated.C13.opCheckSigVerify = (OP_CHECKSIGVERIFY : Int) ∧
    Generated.C13.opCheckMultiSig = (OP_CHECKMULTISIG : Int) ∧
    Generated.C13.opCheckMultiSigVerify = (OP_CHECKMULTISIGVERIFY : Int) ∧
    Generated.C13.op1 = (OP_1 : Int) ∧ Generated.C13.op16 = (OP_16 : Int) ∧
    Generated.C13.opInvalidOpcode = (OP_INVALIDOPCODE : Int) ∧ Generated.C13.opPushData1 = 76 ∧
    Generated.C13.op1Negate = 0x4f ∧
    Generated.C13.opHash160 = 0xa9 ∧ Generated.C13.opData20 = 0x14 ∧ Generated.C13.opEqual = 0x87 ∧
    Generated.C13.baseSegwitWitnessVersion = 0 ∧ Generated.C13.taprootWitnessVersion = 1 := by decide

theorem pin_locktime_consts :
    Generated.C13.lockTimeThreshold = (LOCKTIME_THRESHOLD : Int) ∧
    Generated.C13.maxTxInSequenceNum = (SEQUENCE_FINAL : Int) ∧
    Generated.C13.sequenceLockTimeDisabled = (SEQ_DISABLE_FLAG : Int) ∧
    Generated.C13.sequenceLockTimeIsSeconds = (SEQ_TYPE_FLAG : Int) ∧
    Generated.C13.sequenceLockTimeMask = (SEQ_MASK : Int) ∧
    Generated.C13.sequenceLockTimeGranularity = (SEQ_GRANULARITY : Int) := by decide

theorem pin_commitment_consts :
    Generated.C13.coinbaseWitnessDataLen = (CoinbaseWitnessDataLen : Int) ∧
    Generated.C13.coinbaseWitnessPkScriptLength = (COMMITMENT_MIN_LEN : Int) ∧
    Generated.C13.coinbaseWitnessPkScriptLength = (CoinbaseWitnessPkScriptLength : Int) ∧
    Generated.C13.witnessMagicBytes = COMMITMENT_MAGIC.map (fun b => (b.toNat : Int)) ∧
    COMMITMENT_MAGIC = WitnessMagicBytes := by decide

end BV.C13
