/-
C13 helper lemmas: BIP68 locks are satisfied iff every input individually is old enough. Core-only.
-/
import BV.C13.LemmasBasic
namespace BV.C13.Lemmas
open BV.C13 BV.C13.Spec

/-- BIP68 for one input against a block at height `bh` whose previous block has median time `mtp` -/
def inputMature (i : SeqInput) (bh mtp : Int) : Prop :=
  i.seq / SEQ_DISABLE_FLAG % 2 = 1 ∨
  (i.seq / SEQ_TYPE_FLAG % 2 = 1 ∧ i.prevMtp + ((i.seq % (SEQ_MASK + 1) * 2^SEQ_GRANULARITY : Nat) : Int) ≤ mtp) ∨
  (i.seq / SEQ_TYPE_FLAG % 2 ≠ 1 ∧ i.height + ((i.seq % (SEQ_MASK + 1) : Nat) : Int) ≤ bh)

theorem foldl_bipStep_lt (bh mtp : Int) : ∀ (ins : List SeqInput) (a b : Int),
    ((ins.foldl bipStep (a, b)).1 < bh ∧ (ins.foldl bipStep (a, b)).2 < mtp) ↔
      (a < bh ∧ b < mtp ∧ ∀ i ∈ ins, inputMature i bh mtp) := by
  intro ins
  induction ins with
  | nil => intro a b; simp
  | cons i r ih =>
    intro a b
    simp only [List.foldl_cons, List.mem_cons, forall_eq_or_imp]
    by_cases hd : i.seq / SEQ_DISABLE_FLAG % 2 = 1
    · have hstep : bipStep (a, b) i = (a, b) := by simp only [bipStep, hd, if_true]
      rw [hstep, ih]
      have : inputMature i bh mtp := Or.inl hd
      constructor
      · intro ⟨h1, h2, h3⟩; exact ⟨h1, h2, this, h3⟩
      · intro ⟨h1, h2, _, h3⟩; exact ⟨h1, h2, h3⟩
    · by_cases ht : i.seq / SEQ_TYPE_FLAG % 2 = 1
      · have hstep : bipStep (a, b) i =
            (a, max b (i.prevMtp + ((i.seq % (SEQ_MASK + 1) * 2^SEQ_GRANULARITY : Nat) : Int) - 1)) := by
          simp only [bipStep, hd, ht, if_true, if_false]
        rw [hstep, ih]
        unfold inputMature
        simp only [hd, ht, false_or, true_and, ne_eq, not_true_eq_false, false_and, or_false]
        constructor
        · intro ⟨h1, h2, h3⟩; exact ⟨h1, by omega, by omega, h3⟩
        · intro ⟨h1, h2, h3, h4⟩; exact ⟨h1, by omega, h4⟩
      · have hstep : bipStep (a, b) i =
            (max a (i.height + ((i.seq % (SEQ_MASK + 1) : Nat) : Int) - 1), b) := by
          simp only [bipStep, hd, ht, if_false]
        rw [hstep, ih]
        unfold inputMature
        simp only [hd, ht, false_or, false_and, ne_eq, not_false_eq_true, true_and]
        constructor
        · intro ⟨h1, h2, h3⟩; exact ⟨by omega, h2, by omega, h3⟩
        · intro ⟨h1, h2, h3, h4⟩; exact ⟨by omega, h2, h4⟩

theorem sequenceLocks_eq_foldl (ins : List SeqInput) :
    sequenceLocks true ins = ins.foldl bipStep (-1, -1) := rfl

/-- `EvaluateSequenceLocks ∘ CalculateSequenceLocks` ⇔ every input is individually mature -/
theorem locksSatisfied_iff_all_inputs (ins : List SeqInput) (bh mtp : Int) (hbh : 0 ≤ bh) (hm : 0 ≤ mtp) :
    locksSatisfied (sequenceLocks true ins).1 (sequenceLocks true ins).2 bh mtp = true ↔
      ∀ i ∈ ins, inputMature i bh mtp := by
  rw [sequenceLocks_eq_foldl]
  unfold locksSatisfied
  simp only [decide_eq_true_eq]
  rw [foldl_bipStep_lt]
  constructor
  · intro ⟨_, _, h⟩; exact h
  · intro h; exact ⟨by omega, by omega, h⟩

end BV.C13.Lemmas
