/-
C13 helper lemmas: duplicate detection and the block sigop limit. Core-only.
-/
import BV.C13.Model
namespace BV.C13.Lemmas
open BV.C13 BV.C13.Spec

theorem hasDup_false_iff {β : Type} [DecidableEq β] (l : List β) : hasDup l = false ↔ l.Nodup := by
  induction l with
  | nil => simp [hasDup]
  | cons a r ih =>
    simp only [hasDup, Bool.or_eq_false_iff, List.nodup_cons, ih]
    constructor
    · intro ⟨h1, h2⟩; exact ⟨by simpa using h1, h2⟩
    · intro ⟨h1, h2⟩; exact ⟨by simpa using h1, h2⟩

theorem sigOpsLoop_iff (maxCost : Nat) : ∀ (l : List Nat) (total : Nat),
    sigOpsLoop maxCost l total = true ↔ total + 4 * l.sum ≤ maxCost ∨ (l = [] ) := by
  intro l
  induction l with
  | nil => intro total; simp [sigOpsLoop]
  | cons c r ih =>
    intro total
    simp only [sigOpsLoop, WITNESS_SCALE_FACTOR, List.sum_cons]
    by_cases h : total + c * 4 > maxCost
    · simp only [h, if_true]
      constructor
      · intro h'; cases h'
      · intro h'; rcases h' with h' | h'
        · omega
        · cases h'
    · simp only [h, if_false]
      rw [ih]
      constructor
      · intro h'; left
        rcases h' with h' | h'
        · omega
        · subst h'; simp; omega
      · intro h'
        rcases h' with h' | h'
        · left; omega
        · cases h'

theorem sigOpsLoop_zero_iff (maxCost : Nat) (l : List Nat) :
    sigOpsLoop maxCost l 0 = true ↔ 4 * l.sum ≤ maxCost := by
  rw [sigOpsLoop_iff]
  constructor
  · intro h; rcases h with h | h
    · omega
    · subst h; simp
  · intro h; left; omega

end BV.C13.Lemmas
