/-
C13 round 3 lemmas: the root commits to the leaf list, order independence, last commitment wins. Core-only.
-/
import BV.C13.LemmasMerkle
import BV.C13.LemmasBip68
import BV.C13.LemmasBasic
namespace BV.C13.Lemmas
open BV.C13 BV.C13.Spec

section
variable {α : Type} (H : α → α → α) (zero : α)

theorem pairUp_injective (Hinj : ∀ a b c d, H a b = H c d → a = c ∧ b = d) :
    ∀ (l1 l2 : List α), l1.length = l2.length → pairUp H l1 = pairUp H l2 → l1 = l2 := by
  intro l1
  induction l1 using pairUp.induct with
  | case1 => intro l2 hl _; exact (List.eq_nil_of_length_eq_zero hl.symm).symm
  | case2 a =>
    intro l2 hl h
    match l2, hl with
    | [b], _ =>
      simp only [pairUp, List.cons.injEq, and_true] at h
      rw [(Hinj _ _ _ _ h).1]
  | case3 a b r ih =>
    intro l2 hl h
    match l2, hl with
    | c :: d :: r', hl =>
      simp only [pairUp, List.cons.injEq] at h
      obtain ⟨h1, h2⟩ := h
      obtain ⟨e1, e2⟩ := Hinj _ _ _ _ h1
      rw [e1, e2, ih r' (by simpa using hl) h2]

/-- with a collision-free node hash (explicit hypothesis) the root commits to the leaf list,
    given the number of leaves -/
theorem mroot_injective (Hinj : ∀ a b c d, H a b = H c d → a = c ∧ b = d) :
    ∀ (n : Nat) (l1 l2 : List α), l1.length = n → l2.length = n →
      mroot H zero l1 = mroot H zero l2 → l1 = l2 := by
  intro n
  induction n using Nat.strongRecOn with
  | _ n ih =>
    intro l1 l2 h1 h2 h
    match l1, l2, h1, h2 with
    | [], [], _, _ => rfl
    | [a], [b], _, _ => rw [mroot_one, mroot_one] at h; rw [h]
    | a :: b :: r, c :: d :: r', h1, h2 =>
      rw [mroot_two, mroot_two] at h
      have hl : (a :: b :: r).length = (c :: d :: r').length := by rw [h1, h2]
      have hp1 := pairUp_length H (a :: b :: r)
      have hp2 := pairUp_length H (c :: d :: r')
      have := ih ((n + 1) / 2) (by simp only [List.length_cons] at h1; omega) _ _
        (by rw [hp1, h1]) (by rw [hp2, h2]) h
      exact pairUp_injective H Hinj _ _ hl this
end

theorem bipStep_comm (z : Int × Int) (x y : SeqInput) : bipStep (bipStep z x) y = bipStep (bipStep z y) x := by
  unfold bipStep
  by_cases hx : x.seq / SEQ_DISABLE_FLAG % 2 = 1 <;> by_cases hy : y.seq / SEQ_DISABLE_FLAG % 2 = 1 <;>
  by_cases tx : x.seq / SEQ_TYPE_FLAG % 2 = 1 <;> by_cases ty : y.seq / SEQ_TYPE_FLAG % 2 = 1 <;>
  simp only [hx, hy, tx, ty, if_true, if_false] <;>
  (apply Prod.ext <;> simp only [] <;> omega)

/-- the order of the inputs does not matter for the BIP68 locks -/
theorem sequenceLocks_perm (e : Bool) (l1 l2 : List SeqInput) (p : l1.Perm l2) :
    sequenceLocks e l1 = sequenceLocks e l2 := by
  cases e with
  | false => rfl
  | true =>
    rw [sequenceLocks_eq_foldl, sequenceLocks_eq_foldl]
    exact p.foldl_eq' (fun x _ y _ z => bipStep_comm z x y) _

/-- the last commitment-shaped output wins, wherever it is -/
theorem commitment_last_wins (pre post : List Bytes) (pk : Bytes) (hpk : isCommitmentScript pk = true)
    (hpost : ∀ q ∈ post, isCommitmentScript q = false) :
    commitment (pre ++ pk :: post) = some ((pk.drop 6).take 32) := by
  unfold commitment
  have : (pre ++ pk :: post).reverse = post.reverse ++ pk :: pre.reverse := by simp
  rw [this, List.find?_append]
  have hn : post.reverse.find? isCommitmentScript = none := by
    rw [List.find?_eq_none]; intro x hx; simp [hpost x (List.mem_reverse.mp hx)]
  rw [hn]
  simp [List.find?_cons, hpk]

/-- finality does not depend on the order of the inputs -/
theorem isFinal_perm (lt : Nat) (s1 s2 : List Nat) (h t : Int) (p : s1.Perm s2) :
    isFinal lt s1 h t = isFinal lt s2 h t := by
  unfold isFinal
  rw [p.all_eq]

/-- the sigop cost does not depend on the order of the inputs or of the outputs -/
theorem txSigOpCost_perm (i1 i2 : List (Bytes × List Bytes × Bytes)) (o1 o2 : List Bytes)
    (pi : i1.Perm i2) (po : o1.Perm o2) : txSigOpCost i1 o1 = txSigOpCost i2 o2 := by
  unfold txSigOpCost
  rw [(pi.map _).sum_nat, (po.map _).sum_nat, (pi.map (fun i => if isP2SH i.2.2 then p2shSigOps i.1 i.2.2 else 0)).sum_nat,
    (pi.map (fun i => witnessSigOps i.1 i.2.2 i.2.1)).sum_nat]

/-- `MsgBlock.BtcEncode`: 80 header bytes, the transaction count, the transactions -/
def serializeBlock (hdr : Bytes) (txs : List Tx) (wit : Bool) : Bytes :=
  hdr ++ varInt txs.length ++ (txs.map (fun t => t.serialize wit)).flatten

theorem blockWeight_eq_serialized (hdr : Bytes) (txs : List Tx) (hh : hdr.length = 80)
    (hw : ∀ t ∈ txs, Tx.wf t) :
    blockWeight txs = 3 * (serializeBlock hdr txs false).length + (serializeBlock hdr txs true).length := by
  unfold serializeBlock blockWeight WITNESS_SCALE_FACTOR
  simp only [List.length_append, hh, varInt_length]
  rw [flatten_map_length (fun t => t.serialize false) Tx.baseSize txs (fun t ht => serialize_stripped_length t (hw t ht)),
    flatten_map_length (fun t => t.serialize true) Tx.totalSize txs (fun t ht => serialize_full_length t (hw t ht))]
  omega

/-- the quirk of `GetSigOpCost`: with BIP16 on, a spent output that is missing while the P2SH
    sigops are counted does not produce an error but the cost 0 -/
theorem sigOpCost_missing_quirk (t : Tx) (utxos : List Utxo) (sw : Bool)
    (h : countP2SHSigOps t false utxos = none) : getSigOpCost t false utxos true sw = some 0 := by
  unfold getSigOpCost
  simp [h]

/-- without BIP16 the same situation is an error as soon as segwit counting runs -/
theorem sigOpCost_missing_segwit (t : Tx) (utxos : List Utxo) (n : Nat)
    (h : witnessLoop (t.ins.zip utxos) n = none) (hn : n = countSigOps t * WITNESS_SCALE_FACTOR) :
    getSigOpCost t false utxos false true = none := by
  unfold getSigOpCost
  simp [← hn, h]

/-- `ExtractCoinbaseHeight` reports a missing height exactly for an empty script or a push that is
    longer than what follows -/
theorem coinbaseHeight_missing_iff (op : UInt8) (rest : Bytes) :
    extractCoinbaseHeight [] = .missing ∧
    (extractCoinbaseHeight (op :: rest) = .missing ↔
      op.toNat ≠ 0 ∧ ¬ (op.toNat ≥ 0x51 ∧ op.toNat ≤ 0x60) ∧ rest.length < op.toNat) := by
  refine ⟨rfl, ?_⟩
  simp only [extractCoinbaseHeight]
  by_cases h0 : op.toNat = 0
  · simp [h0]
  · by_cases h1 : op.toNat ≥ 0x51 ∧ op.toNat ≤ 0x60
    · rw [if_neg h0, if_pos h1]
      constructor
      · intro h; cases h
      · intro h; exact absurd h1 h.2.1
    · by_cases h2 : rest.length < op.toNat
      · rw [if_neg h0, if_neg h1, if_pos h2]
        exact ⟨fun _ => ⟨h0, h1, h2⟩, fun _ => rfl⟩
      · rw [if_neg h0, if_neg h1, if_neg h2]
        constructor
        · intro h; split at h <;> cases h
        · intro h; exact absurd h.2.2 h2
end BV.C13.Lemmas
