/- C13 line-protocol driver (core-only).

Formats:  tx   = `ver;lock;ins;outs`        ins/outs = `_` (none) or items joined by `|`
          in   = `prevhash:idx:script:seq:wit`   wit = `_` (no witness) or items joined by `.`
          out  = `value:script`             bytes = hex, `-` = empty
          txs  = `_` or txs joined by `,`
-/
import BV.Common.Hex
import BV.Common.Sha256
import BV.C13.Model
namespace BV.C13.Driver
open BV.Hex BV.C13 BV.C13.Spec

def parseList {β : Type} (sep : String) (f : String → Option β) (s : String) : Option (List β) :=
  if s == "_" then some [] else (s.splitOn sep).mapM f

def parseIn? (s : String) : Option TxIn :=
  match s.splitOn ":" with
  | [h, idx, sc, seq, wit] => do
    let h ← hexToList? h
    let idx ← idx.toNat?
    let sc ← hexToList? sc
    let seq ← seq.toNat?
    let wit ← parseList "." hexToList? wit
    pure ⟨h, idx, sc, seq, wit⟩
  | _ => none

def parseOut? (s : String) : Option TxOut :=
  match s.splitOn ":" with
  | [v, pk] => do
    let v ← v.toNat?
    let pk ← hexToList? pk
    pure ⟨v, pk⟩
  | _ => none

def parseTx? (s : String) : Option Tx :=
  match s.splitOn ";" with
  | [v, l, ins, outs] => do
    let v ← v.toNat?
    let l ← l.toNat?
    let ins ← parseList "|" parseIn? ins
    let outs ← parseList "|" parseOut? outs
    pure ⟨v, ins, outs, l⟩
  | _ => none

def parseTxs? (s : String) : Option (List Tx) := parseList "," parseTx? s

def parseBool? (s : String) : Option Bool :=
  if s == "1" then some true else if s == "0" then some false else none

def toBA (l : List UInt8) : ByteArray := ByteArray.mk l.toArray

/-- the node hash: double-SHA-256 of the concatenation -/
def H (a b : ByteArray) : ByteArray := BV.Sha256.hash2 (a ++ b)
def zeroHash : ByteArray := toBA (List.replicate 32 0)

def txid (t : Tx) : ByteArray := BV.Sha256.hash2 (toBA (t.serialize false))
def wtxid (t : Tx) : ByteArray := BV.Sha256.hash2 (toBA (t.serialize true))

/-- the leaves both Go constructions feed to the tree -/
def leaves (w : Bool) (txs : List Tx) : List ByteArray := leafHashes txid wtxid zeroHash w txs

def hexBA (b : ByteArray) : String := listToHex b.toList

def optHex : Option ByteArray → String
  | some b => hexBA b
  | none => "panic"

def vwcStr : VwcResult → String
  | .ok => "ok" | .noTransactions => "err:noTransactions" | .noTxInputs => "err:noTxInputs"
  | .unexpectedWitness => "err:unexpectedWitness" | .invalidCommitment => "err:invalidCommitment"
  | .mismatch => "err:mismatch" | .panic => "panic"

def parseUtxo? (s : String) : Option Utxo :=
  if s == "x" || s.startsWith "s" then some none else (hexToList? s).map some

def optNat : Option Nat → String
  | some n => toString n
  | none => "err:missing"

def parseLockIn? (s : String) : Option (Nat × Option Int) :=
  match s.splitOn ":" with
  | [seq, h] => do
    let seq ← seq.toNat?
    if h == "x" then pure (seq, none)
    else if h == "m" then pure (seq, some 0x7fffffff)
    else
      let h ← h.toInt?
      pure (seq, some h)
  | _ => none

/-- every instruction of a script as the tokenizer reports it, then how and where it stopped -/
def tokAll (total : Nat) : Nat → List UInt8 → List String → String
  | 0, _, _ => "fuel"
  | fuel+1, s, acc =>
    match tokNext s with
    | .op o d r =>
      let h := natToHex o
      tokAll total fuel r (((if h.length < 2 then "0" ++ h else h) ++ ":" ++ listToHexTok d) :: acc)
    | .done => (if acc.isEmpty then "-" else ",".intercalate acc.reverse) ++ s!" done@{total - s.length}"
    | .err => (if acc.isEmpty then "-" else ",".intercalate acc.reverse) ++ s!" err@{total - s.length}"

def b01 (b : Bool) : String := if b then "1" else "0"

def handle1 : List String → String
  | ["merkleb", w, _, txs] =>
    match parseBool? w, parseTxs? txs with
    | some w, some txs =>
      if txs.any (fun t => t.ins.isEmpty) then "undecodable" else
      let r := hexBA (mroot H zeroHash (leaves w txs))
      s!"roll={r} store={r} weight={blockWeight txs}"
    | _, _ => "bad-op"
  | ["mvalues", txs] =>
    match parseTxs? txs with
    | some txs =>
      s!"r={hexBA (mroot H zeroHash (leaves false txs))} w={hexBA (mroot H zeroHash (leaves true txs))} again=1"
    | none => "bad-op"
  | ["sanity", root, _, _, txs] =>
    match hexToList? root, parseTxs? txs with
    | some root, some txs =>
      let ids := txs.map (fun t => (txid t).toList)
      let computed := some (mroot H zeroHash (leaves false txs)).toList
      match checkBlockSanityTail root computed ids (txs.map countSigOps) with
      | some .ok => "ok" | some .badMerkle => "err:badMerkle" | some .dupTx => "err:dupTx"
      | some .tooManySigOps => "err:tooManySigOps" | none => "panic"
    | _, _ => "bad-op"
  | ["radd", n, roots, h] =>
    match n.toNat?, parseList "," hexToList? roots, hexToList? h with
    | some n, some roots, some h =>
      -- the Go slice grows at its end; the model keeps the top of the stack first
      match (⟨(roots.map toBA).reverse, n⟩ : Roll ByteArray).add H (toBA h) with
      | some s => s!"n={s.numLeaves} roots={",".intercalate (s.roots.reverse.map hexBA)}"
      | none => "panic"
    | _, _, _ => "bad-op"
  | ["shh", v] =>
    match v.toInt? with
    | some v => b01 (shouldHaveSerializedBlockHeight v)
    | none => "bad-op"
  | ["smallint", op] =>
    match op.toNat? with
    | some op => if isSmallInt op then s!"is=1 as={asSmallInt op}" else "is=0"
    | none => "bad-op"
  | ["hmb", l, r] =>
    match hexToList? l, hexToList? r with
    | some l, some r => hexBA (H (toBA l) (toBA r))
    | _, _ => "bad-op"
  | ["iscb", tx] =>
    match parseTx? tx with
    | some t => b01 t.isCoinBase ++ b01 t.isCoinBase
    | none => "bad-op"
  | ["tok", sc] =>
    match hexToList? sc with
    | some s => tokAll s.length (s.length + 1) s []
    | none => "bad-op"
  | ["script", sc] =>
    match hexToList? sc with
    | some s =>
      let wp := witnessProgram s
      let wps := match wp with
        | some (v, p) => s!"{v}:{listToHexTok p}"
        | none => "none"
      let is (v n : Nat) : Bool := match wp with
        | some (v', p) => v' == v && p.length == n
        | none => false
      s!"po={b01 (pushOnlyLast [] s).isSome} sh={b01 (isP2SH s)} iswp={b01 wp.isSome} wp={wps} wpkh={b01 (is 0 20)} wsh={b01 (is 0 32)} tr={b01 (is 1 32)}"
    | none => "bad-op"
  | ["merkle", w, txs] =>
    match parseBool? w, parseTxs? txs with
    | some w, some txs =>
      let r := hexBA (mroot H zeroHash (leaves w txs))
      s!"roll={r} store={r}"
    | _, _ => "bad-op"
  | ["mstore", w, txs] =>
    match parseBool? w, parseTxs? txs with
    | some w, some txs =>
      ",".intercalate ((buildStore H zeroHash (leaves w txs)).map (fun o => match o with
        | some b => hexBA b | none => "nil"))
    | _, _ => "bad-op"
  | ["mroll", w, txs] =>
    match parseBool? w, parseTxs? txs with
    | some w, some txs => optHex (rollingRoot H zeroHash (leaves w txs))
    | _, _ => "bad-op"
  | ["npot", n] =>
    match n.toNat? with
    | some n => toString (nextPowerOfTwo n)
    | none => "bad-op"
  | ["commit", tx] =>
    match parseTx? tx with
    | some t =>
      -- the property's observation: the Spec value on a coinbase, `none` on anything else
      if t.isCoinBase then
        match commitment (t.outs.map (·.pk)) with
        | some c => listToHex c
        | none => "none"
      else "none"
    | none => "bad-op"
  | ["vwc", txs] =>
    match parseTxs? txs with
    | some txs =>
      let root := some (mroot H zeroHash (leaves true txs)).toList
      vwcStr (validateWitnessCommitment BV.Sha256.hash2List root txs)
    | none => "bad-op"
  | ["txw", tx] =>
    match parseTx? tx with
    | some t => s!"w={txWeight t} base={(t.serialize false).length} total={(t.serialize true).length}"
    | none => "bad-op"
  | ["blkw", txs] =>
    match parseTxs? txs with
    | some txs => toString (blockWeight txs)
    | none => "bad-op"
  | ["sigops", sc] =>
    match hexToList? sc with
    | some s => s!"fast={sigOps false s} precise={sigOps true s}"
    | none => "bad-op"
  | ["p2sh", sig, pk] =>
    match hexToList? sig, hexToList? pk with
    | some sig, some pk => toString (p2shSigOps sig pk)
    | _, _ => "bad-op"
  | ["wsig", sig, pk, wit] =>
    match hexToList? sig, hexToList? pk, parseList "." hexToList? wit with
    | some sig, some pk, some wit => toString (witnessSigOps sig pk wit)
    | _, _, _ => "bad-op"
  | ["cost", tx, cb, bip16, segwit, utxos] =>
    match parseTx? tx, parseBool? cb, parseBool? bip16, parseBool? segwit, parseList "," parseUtxo? utxos with
    | some t, some cb, some b16, some sw, some us =>
      if us.length ≠ t.ins.length then "bad-op" else
      s!"legacy={countSigOps t} p2sh={optNat (countP2SHSigOps t cb us)} cost={optNat (getSigOpCost t cb us b16 sw)}"
    | _, _, _, _, _ => "bad-op"
  | ["cbh", sc, want] =>
    match hexToList? sc, want.toInt? with
    | some s, some want => match extractCoinbaseHeight s with
      | .ok h => toString h ++ (if h = want then " chk=ok" else " chk=err:bad")
      | .missing => "err:missing chk=err:missing" | .bad => "err:bad chk=err:bad"
    | _, _ => "bad-op"
  | ["final", lt, h, t, seqs] =>
    match lt.toNat?, h.toInt?, t.toInt?, parseList "," String.toNat? seqs with
    | some lt, some h, some t, some seqs => if isFinalizedTransaction lt seqs h t then "1" else "0"
    | _, _, _, _ => "bad-op"
  | ["seqlock", act, ver, cb, times, ins] =>
    match parseBool? act, ver.toNat?, parseBool? cb, parseList "," String.toInt? times,
        parseList "," parseLockIn? ins with
    | some act, some ver, some cb, some ts, some ins =>
      if ts = [] then "bad-op" else
      match calcSequenceLockChain act ver cb ts ins with
      | .ok s h => s!"{s},{h}"
      | .missing => "err:missing"
    | _, _, _, _, _ => "bad-op"
  | ["lt2seq", secs, lt] =>
    match parseBool? secs, lt.toNat? with
    | some secs, some lt => toString (lockTimeToSequence secs lt)
    | _, _ => "bad-op"
  | ["lockactive", s, h, bh, mtp] =>
    match s.toInt?, h.toInt?, bh.toInt?, mtp.toInt? with
    | some s, some h, some bh, some mtp => if sequenceLockActive s h bh mtp then "1" else "0"
    | _, _, _, _ => "bad-op"
  | _ => "bad-op"

def seqCaseOut (ts : List Int) (c : String) : String :=
  match c.splitOn "!" with
  | [act, ver, cb, ins] =>
    match parseBool? act, ver.toNat?, parseBool? cb, parseList "," parseLockIn? ins with
    | some act, some ver, some cb, some ins =>
      match calcSequenceLockChain act ver cb ts ins with
      | .ok s h => s!"{s},{h}"
      | .missing => "err:missing"
    | _, _, _, _ => "bad-op"
  | _ => "bad-op"

def handle : List String → String
  | ["seqmulti", times, cases] =>
    match parseList "," String.toInt? times with
    | some ts =>
      if ts = [] then "bad-op" else
      "/".intercalate ((cases.splitOn "/").map (seqCaseOut ts)) ++ " stable=1 inputs=1"
    | none => "bad-op"
  | ["inval", tx, cb, utxos] =>
    match parseTx? tx, parseBool? cb, parseList "," parseUtxo? utxos with
    | some t, some cb, some us =>
      if us.length ≠ t.ins.length then "bad-op" else
      let c (b16 sw : Bool) : String := s!"c{b01 b16}{b01 sw}={optNat (getSigOpCost t cb us b16 sw)}"
      s!"legacy={countSigOps t} p2sh={optNat (countP2SHSigOps t cb us)} {c false false} {c false true} {c true false} {c true true} w={txWeight t} stable=1 inputs=1"
    | _, _, _ => "bad-op"
  | ["par", body] => "~".intercalate ((body.splitOn "~").map (fun sub => handle1 (sub.splitOn "^")))
  | ["vwcb", txs] =>
    match parseTxs? txs with
    | some ts => if ts.any (fun t => t.ins.isEmpty) then "undecodable" else handle1 ["vwc", txs]
    | none => "bad-op"
  | l => handle1 l

end BV.C13.Driver
