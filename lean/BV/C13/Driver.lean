/- C13 line-protocol driver (core-only). Stub until the property's model lands. -/
namespace BV.C13.Driver

def handle : List String → String
  | _ => "unimplemented"

end BV.C13.Driver
