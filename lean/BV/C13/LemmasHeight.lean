/-
C13 helper lemmas: BIP34 height round trip. Core-only.
-/
import BV.C13.LemmasBasic
namespace BV.C13.Lemmas
open BV.C13 BV.C13.Spec

theorem u8 (n : Nat) : (UInt8.ofNat n).toNat = n % 256 := by simp

theorem scriptNumMag_zero : scriptNumMag 0 = [] := by rw [scriptNumMag]; simp

theorem scriptNumMag_pos {n : Nat} (h : n ≠ 0) :
    scriptNumMag n = UInt8.ofNat (n % 256) :: scriptNumMag (n / 256) := by
  rw [scriptNumMag]; simp [h]

/-- magnitude bytes of a `k`-byte number -/
theorem scriptNumMag_eq (k : Nat) : ∀ (n : Nat), 256^k ≤ n → n < 256^(k+1) →
    scriptNumMag n = leBytes n (k+1) := by
  induction k with
  | zero =>
    intro n h0 h1
    rw [scriptNumMag_pos (by simp at h0; omega)]
    have : n / 256 = 0 := by simp at h1; omega
    rw [this, scriptNumMag_zero]; rfl
  | succ k ih =>
    intro n h0 h1
    have hp : 0 < 256^k := Nat.pow_pos (by decide)
    have e1 : 256^(k+1) = 256 * 256^k := by rw [Nat.pow_succ]; omega
    have e2 : 256^(k+1+1) = 256 * 256^(k+1) := by rw [Nat.pow_succ]; omega
    rw [scriptNumMag_pos (by omega)]
    rw [ih (n / 256) (by rw [e1] at h0; omega) (by rw [e2] at h1; omega)]
    rfl

theorem leNat_leBytes (k : Nat) : ∀ (n : Nat), leNat (leBytes n k) = n % 256^k := by
  induction k with
  | zero => intro n; simp [leBytes, leNat, Nat.mod_one]
  | succ k ih =>
    intro n
    simp only [leBytes, leNat, ih, u8]
    have e : 256^(k+1) = 256 * 256^k := by rw [Nat.pow_succ]; omega
    rw [e, Nat.mod_mul, Nat.mod_mod]

theorem leNat_append_zero (l : Bytes) : leNat (l ++ [0]) = leNat l := by
  induction l with
  | nil => simp [leNat]
  | cons b r ih => simp [leNat, ih]

theorem leBytes_getLast (k : Nat) : ∀ (n : Nat),
    (leBytes n (k+1)).getLast? = some (UInt8.ofNat (n / 256^k % 256)) := by
  induction k with
  | zero => intro n; simp [leBytes]
  | succ k ih =>
    intro n
    have := ih (n / 256)
    rw [leBytes, List.getLast?_cons, this]
    simp only [Option.getD_some]
    rw [Nat.div_div_eq_div_mul, show 256 * 256^k = 256^(k+1) by rw [Nat.pow_succ]; omega]

/-- the facts about `scriptNum(h).Bytes()` the round trip needs, for 17 ≤ h < 2^31 -/
theorem scriptNumBytes_facts (h : Nat) (h17 : 17 ≤ h) (h31 : h < 2^31) :
    let d := scriptNumBytes (h : Int)
    1 ≤ d.length ∧ d.length ≤ 4 ∧ leNat d = h ∧ (d.length = 1 → d = [UInt8.ofNat h] ∧ h < 128) := by
  have hk : ∃ k, k ≤ 3 ∧ 256^k ≤ h ∧ h < 256^(k+1) := by
    by_cases a : h < 256
    · exact ⟨0, by omega, by simp; omega, by simpa using a⟩
    · by_cases b : h < 65536
      · exact ⟨1, by omega, by simp; omega, by simpa using b⟩
      · by_cases c : h < 16777216
        · exact ⟨2, by omega, by simp; omega, by simpa using c⟩
        · exact ⟨3, by omega, by simp; omega, by simp; omega⟩
  obtain ⟨k, hk3, hlo, hhi⟩ := hk
  have hmag := scriptNumMag_eq k h hlo hhi
  have hne : (h : Int) ≠ 0 := by omega
  have hpos : ¬ ((h : Int) < 0) := by omega
  simp only [scriptNumBytes, hne, if_false, Int.natAbs_natCast, hmag, leBytes_getLast, Option.getD_some,
    u8, hpos]
  have hmod : h % 256^(k+1) = h := Nat.mod_eq_of_lt hhi
  by_cases htop : h / 256^k % 256 % 256 ≥ 0x80
  · simp only [htop, if_true]
    have hk2 : k ≤ 2 := by
      rcases (show k = 0 ∨ k = 1 ∨ k = 2 ∨ k = 3 by omega) with e | e | e | e
      · omega
      · omega
      · omega
      · subst e; exfalso
        have : h / 256^3 < 128 := by
          have : (256 : Nat)^3 = 16777216 := by decide
          rw [this]; omega
        omega
    refine ⟨by simp, by simp [leBytes_length]; omega, by rw [leNat_append_zero, leNat_leBytes, hmod], ?_⟩
    intro hl; simp [leBytes_length] at hl
  · simp only [htop, if_false]
    refine ⟨by simp [leBytes_length], by simp [leBytes_length]; omega, by rw [leNat_leBytes, hmod], ?_⟩
    intro hl
    simp only [leBytes_length] at hl
    have : k = 0 := by omega
    subst this
    simp only [Nat.pow_zero, Nat.div_one] at htop
    simp only [Nat.pow_one, Nat.zero_add] at hhi
    constructor
    · simp only [leBytes]
      have : h % 256 = h := Nat.mod_eq_of_lt hhi
      rw [this]
    · omega

theorem addInt64_big (h : Nat) (h17 : 17 ≤ h) (h31 : h < 2^31) :
    addInt64 (h : Int) = UInt8.ofNat (scriptNumBytes (h : Int)).length :: scriptNumBytes (h : Int) := by
  obtain ⟨hl1, hl4, _, h1⟩ := scriptNumBytes_facts h h17 h31
  unfold addInt64
  rw [if_neg (by omega), if_neg (by omega)]
  unfold addDataSmall
  by_cases hone : (scriptNumBytes (h : Int)).length = 1
  · obtain ⟨hd, h128⟩ := h1 hone
    rw [hd]
    have hh : h % 256 = h := Nat.mod_eq_of_lt (by omega)
    have e0 : ¬ (UInt8.ofNat h = 0) := by
      intro e; have := congrArg UInt8.toNat e; simp [hh] at this; omega
    have e81 : ¬ (UInt8.ofNat h = 0x81) := by
      intro e; have := congrArg UInt8.toNat e; simp [hh] at this; omega
    simp [e0, e81, u8, hh]; omega
  · rw [if_neg (by omega), if_neg (by omega), if_neg (by omega)]

theorem toInt32_small (n : Nat) (h : n < 2^31) : toInt32 n = (n : Int) := toInt32_id n h

theorem coinbaseHeight_roundtrip (h : Nat) (h31 : h < 2^31) (tail : Bytes) :
    extractCoinbaseHeight (addInt64 (h : Int) ++ tail) = .ok (h : Int) := by
  by_cases h0 : h = 0
  · subst h0; simp [addInt64, extractCoinbaseHeight]
  · by_cases h16 : h ≤ 16
    · have e : addInt64 (h : Int) = [UInt8.ofNat (0x50 + h)] := by
        unfold addInt64
        rw [if_neg (by omega), if_pos (Or.inr ⟨by omega, by omega⟩)]
        congr 2 <;> omega
      rw [e]
      have hm : (0x50 + h) % 256 = 0x50 + h := Nat.mod_eq_of_lt (by omega)
      simp only [List.cons_append, List.nil_append, extractCoinbaseHeight, u8, hm]
      rw [if_neg (by omega), if_pos ⟨by omega, by omega⟩]
      congr 1; omega
    · have hbig := addInt64_big h (by omega) h31
      obtain ⟨hl1, hl4, hle, _⟩ := scriptNumBytes_facts h (by omega) h31
      have hpre : (addInt64 (h : Int)).isPrefixOf (addInt64 (h : Int) ++ tail) = true :=
        List.isPrefixOf_iff_prefix.mpr (List.prefix_append _ _)
      generalize hd : scriptNumBytes (h : Int) = d at *
      have hm : d.length % 256 = d.length := Nat.mod_eq_of_lt (by omega)
      rw [hbig] at hpre ⊢
      simp only [List.cons_append, extractCoinbaseHeight, u8, hm]
      rw [if_neg (by omega), if_neg (by omega), if_neg (by simp)]
      have ht : ((d ++ tail).take d.length).take 4 = d := by
        rw [List.take_left' rfl, List.take_of_length_le hl4]
      simp only [ht, hle, toInt32_small h h31]
      rw [hbig] at *
      simp only [List.cons_append] at hpre
      rw [hpre]; rfl

theorem scriptNumMag_ne_nil {n : Nat} (h : n ≠ 0) : scriptNumMag n ≠ [] := by
  rw [scriptNumMag_pos h]; simp

/-- the model's `scriptNum.Bytes()` on positive numbers is the protocol's minimal encoding -/
theorem scriptNumBytes_spec : ∀ (n : Nat), n ≠ 0 → scriptNumBytes (n : Int) = Spec.scriptNumBytes n := by
  intro n
  induction n using Nat.strongRecOn with
  | _ n ih =>
    intro hn
    have hne : (n : Int) ≠ 0 := by omega
    have hpos : ¬ ((n : Int) < 0) := by omega
    rw [Spec.scriptNumBytes]
    by_cases h256 : n < 256
    · have hm : scriptNumMag n = [UInt8.ofNat n] := by
        rw [scriptNumMag_pos hn, show n / 256 = 0 by omega, scriptNumMag_zero, Nat.mod_eq_of_lt h256]
      simp only [scriptNumBytes, hne, if_false, Int.natAbs_natCast, hm, List.getLast?_singleton,
        Option.getD_some, u8, Nat.mod_eq_of_lt h256, hpos]
      by_cases h128 : n < 128
      · rw [if_neg (by omega), if_pos h128]
      · rw [if_pos (by omega), if_neg h128, if_pos h256]; rfl
    · rw [if_neg (by omega), if_neg h256]
      have hq : n / 256 ≠ 0 := by omega
      have hrec := ih (n / 256) (by omega) hq
      have hqi : ((n / 256 : Nat) : Int) ≠ 0 := by omega
      have hqpos : ¬ (((n / 256 : Nat) : Int) < 0) := by omega
      rw [← hrec]
      simp only [scriptNumBytes, hne, hqi, if_false, Int.natAbs_natCast, hpos, hqpos]
      rw [scriptNumMag_pos hn]
      have hnn := scriptNumMag_ne_nil hq
      have hlast : (UInt8.ofNat (n % 256) :: scriptNumMag (n / 256)).getLast? = (scriptNumMag (n / 256)).getLast? := by
        rw [List.getLast?_cons]
        cases hg : (scriptNumMag (n / 256)).getLast? with
        | none => exact absurd (List.getLast?_eq_none_iff.mp hg) hnn
        | some x => rfl
      rw [hlast]
      split <;> rfl

theorem addInt64_eq_heightScript (h : Nat) (h31 : h < 2^31) : addInt64 (h : Int) = heightScript h := by
  unfold heightScript
  by_cases h0 : h = 0
  · subst h0; simp [addInt64]
  · rw [if_neg h0]
    by_cases h16 : h ≤ 16
    · rw [if_pos h16]
      unfold addInt64
      rw [if_neg (by omega), if_pos (Or.inr ⟨by omega, by omega⟩)]
      congr 2 <;> omega
    · rw [if_neg h16, addInt64_big h (by omega) h31, scriptNumBytes_spec h h0]

end BV.C13.Lemmas
