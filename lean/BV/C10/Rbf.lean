/-
C10 — helper lemmas, part 15: more of the replacement rule (signalling, no new unconfirmed inputs).
-/
import BV.C10.OrphanIndex
namespace BV.C10.Lemmas
open BV.C10 BV.C10.Spec

theorem checkPoolDoubleSpend_some {pol : Policy} {s : Pool} {t : TxAbs} {b : Bool}
    (h : checkPoolDoubleSpend pol s t = some b) :
    ∀ x ∈ t.ins, ∀ c, s.spender x = some c →
      pol.rejectReplacement = false ∧ signalsReplacement (fuelOf s) s c = true := by
  unfold checkPoolDoubleSpend at h
  simp only at h
  split at h
  · cases h
  · rename_i hany
    intro x hx c hc
    have hmem : c ∈ t.ins.filterMap s.spender := List.mem_filterMap.2 ⟨x, hx, hc⟩
    simp only [List.any_eq_true, not_exists, not_and, Bool.or_eq_true, Bool.not_eq_true', not_or,
      Bool.not_eq_true, Bool.not_eq_false] at hany
    exact hany c hmem

theorem validateReplacement_parents {pol : Policy} {s : Pool} {t : TxAbs} {cs : List TxAbs}
    (h : validateReplacement pol s t = .ok cs) :
    ∀ x ∈ t.ins, s.inPool x.txid = true → ∃ c ∈ cs, ∃ y ∈ c.ins, y.txid = x.txid := by
  have hc := validateReplacement_conflicts h
  unfold validateReplacement at h
  simp only at h
  split at h
  · cases h
  split at h
  · cases h
  split at h
  · cases h
  split at h
  · cases h
  split at h
  · cases h
  rename_i h5
  subst hc
  intro x hx hp
  simp only [List.any_eq_true, Bool.and_eq_true, Bool.not_eq_true', not_exists, not_and] at h5
  have := h5 x hx
  have hcont : ((txConflicts s t).flatMap (fun c => c.ins.map (·.txid))).contains x.txid = true := by
    cases hb : ((txConflicts s t).flatMap (fun c => c.ins.map (·.txid))).contains x.txid with
    | true => rfl
    | false => exact absurd hp (by simpa using this hb)
  simp only [List.contains_iff_mem, List.mem_flatMap, List.mem_map] at hcont
  obtain ⟨c, hc1, y, hy, e⟩ := hcont
  exact ⟨c, hc1, y, hy, e⟩

end BV.C10.Lemmas
