/- C10 line-protocol driver (core-only). Stub until the property's model lands. -/
namespace BV.C10.Driver

def handle : List String → String
  | _ => "unimplemented"

end BV.C10.Driver
