/- C10 line-protocol driver (core-only).

`C10 run <policy> <maturity>:<mtp0> <txdefs> <ops>` — the whole history on one line; the answer is one
observation per op (`|`-separated): result class, pool ids, spend index, orphans, orphan index.
See harness/p10/env.go and exec.go for the grammar (the Go side builds real transactions from the same line). -/
import BV.C10.Model
import BV.Generated.C10
namespace BV.C10.Driver
open BV.C10

def splitList (s : String) (sep : String) : List String :=
  if s == "-" || s == "" then [] else s.splitOn sep

def parseBool? (s : String) : Option Bool :=
  if s == "1" then some true else if s == "0" then some false else none

def parsePolicy? (s : String) : Option Policy :=
  match s.splitOn "," with
  | [ns, rr, mo, ms, mf, dp, fr] => do
    -- the two relay-policy tuning constants are not part of the model: they come from the tree (regenerated facts)
    pure ⟨← parseBool? ns, ← parseBool? rr, ← mo.toInt?, ← ms.toNat?, ← mf.toNat?, ← parseBool? dp, ← parseBool? fr,
      BV.Generated.C10.minStandardTxNonWitnessSize.toNat, BV.Generated.C10.defaultBlockPrioritySize.toNat,
      BV.Generated.C10.minHighPriority.toNat⟩
  | _ => none

/-- input `txid.idx.seq.recipe[.value]` -/
def parseIn? (s : String) : Option (OutPoint × Nat × Nat) :=
  match s.splitOn "." with
  | [t, i, q, _] => do pure (⟨← t.toNat?, ← i.toNat?⟩, ← q.toNat?, 0)
  | [t, i, q, _, v] => do pure (⟨← t.toNat?, ← i.toNat?⟩, ← q.toNat?, ← v.toNat?)
  | _ => none

/-- times on the line are offsets from the harness's base time; the model's clock starts at `timeBase` -/
def timeBase : Int := 1500000000

def relTime? (s : String) : Option Nat := do
  let t := timeBase + (← s.toInt?)
  if t < 0 then none else some t.toNat

/-- `g` on the line: the median time of the genesis-only chain (regtest genesis timestamp) -/
def genesisTime : Nat := 1296688602

/-- lock time: `0`, `h<height>` or `t<offset>` -/
def parseLock? (s : String) : Option Nat :=
  if s == "0" then some 0
  else if s.startsWith "h" then (s.drop 1).toString.toNat?
  else if s.startsWith "t" then relTime? (s.drop 1).toString
  else none

def bit (n k : Nat) : Bool := (n / 2^k) % 2 = 1

/-- `id:ins:outs:lock:ver:fee:vsize:ssize:size:bits` -/
def parseTx? (s : String) : Option TxAbs :=
  match s.splitOn ":" with
  | id :: ins :: outs :: lock :: ver :: fee :: vsize :: ssize :: size :: bits :: more => do
    let prioSize ← match more with | [] => some 0 | [p] => p.toNat? | _ => none
    let id ← id.toNat?
    let ins ← (splitList ins ",").mapM parseIn?
    -- `nOuts` counts the spendable outputs; provably unspendable (null-data) outputs come last in every
    -- transaction the harness builds and never enter the utxo set or a utxo view
    let kinds := (splitList outs ",").map (fun o => (o.splitOn ".").getD 1 "")
    let nOuts := (kinds.filter (· != "n")).length
    if kinds.drop nOuts != List.replicate (kinds.length - nOuts) "n" then none
    let b ← bits.toNat?
    let vsize ← vsize.toNat?
    if vsize = 0 then none
    -- ids are ranks: a transaction can only reference what existed before it
    if !ins.all (fun p => p.1.txid < id) then none
    pure { id := id, ins := ins.map (·.1), seqs := ins.map (·.2.1), inVals := ins.map (·.2.2), prioSize := prioSize, nOuts := nOuts,
           lockTime := ← parseLock? lock, version := ((← ver.toInt?) % 4294967296).toNat, fee := ← fee.toNat?, vsize := vsize, ssize := ← ssize.toNat?,
           size := ← size.toNat?, sane := bit b 0, coinbase := bit b 1, valuesOk := bit b 2, std := bit b 3,
           sigOk := bit b 5, scriptsOk := bit b 7 }
  | _ => none

def cbTx (id nOuts : Nat) : TxAbs :=
  { id := id, ins := [], seqs := [], nOuts := nOuts, lockTime := 0, version := 1, fee := 0, vsize := 100, ssize := 100,
    size := 100, sane := true, coinbase := true, valuesOk := true, std := true,
    sigOk := true, inVals := [], prioSize := 0, scriptsOk := true }

inductive Cmd
  | op (o : Op)
  | search (mk : List Nat → Op) (digest : Nat)   -- choice list to be found: the one reproducing the recorded outcome
  | template
  | pinned                   -- `S`: the next two ops form one observation (pinned schedule on the Go side)
  | restart (pol : Policy)   -- `N:<policy>`: a new session, fresh pool with another policy on the same chain
  | skip            -- `Z:k:m`: the Go side runs the next k disconnects and m connects as one reorganisation

def findDef (defs : List TxAbs) (id : String) : Option TxAbs := do
  let n ← id.toNat?
  defs.find? (fun t => t.id = n)

def parseIds? (s : String) : Option (List Nat) := (splitList s ",").mapM (·.toNat?)

/-- a choice field: ids, or `h<digest>` (the implementation's outcome; the driver searches the order) -/
def withPrio (field : String) (mk : List Nat → Op) : Option Cmd :=
  if field.startsWith "h" then (field.drop 1).toString.toNat?.map (fun d => .search mk d)
  else (parseIds? field).map (fun p => .op (mk p))

def parseOp? (defs : List TxAbs) (s : String) : Option Cmd :=
  match s.splitOn ":" with
  | ["P", id, ao, rl, tag, ev, prio] => do
    withPrio prio (.process (← findDef defs id) (← parseBool? ao) (← parseBool? rl) (← tag.toNat?) (← ev.toNat?))
  | ["A", id, isNew, rl] => do pure (.op (.maybeAccept (← findDef defs id) (← parseBool? isNew) (← parseBool? rl)))
  | ["K", id] => do pure (.op (.check (← findDef defs id)))
  | ["R", id, red] => do pure (.op (.remove (← findDef defs id) (← parseBool? red)))
  | ["D", id] => do pure (.op (.removeDoubleSpends (← findDef defs id)))
  | ["O", id, prio] => do withPrio prio (.processOrphans (← findDef defs id))
  | ["X", id] => do pure (.op (.removeOrphan (← findDef defs id)))
  | ["G", tag] => do pure (.op (.removeOrphansByTag (← tag.toNat?)))
  | ["C", cb, cbOuts, mtp, txs, _ts, prio] => do
    let txs ← (splitList txs ",").mapM (findDef defs)
    withPrio prio (.connect ⟨cbTx (← cb.toNat?) (← cbOuts.toNat?), txs, ← relTime? mtp⟩)
  | ["U"] => some (.op .disconnect)
  | ["T"] => some .template
  | ["S"] => some .pinned
  | ["N", pol] => (parsePolicy? pol).map .restart
  | ["Z", _, _] => some .skip
  | _ => none

/-! ### canonical output -/

def joinWith (sep : String) (l : List String) : String := sep.intercalate l

def sortNat (l : List Nat) : List Nat := l.mergeSort (fun a b => a ≤ b)

def opLe (a b : OutPoint) : Bool := a.txid < b.txid || (a.txid = b.txid && a.idx ≤ b.idx)

def showOp (x : OutPoint) : String := toString x.txid ++ "." ++ toString x.idx

def showRej : Rej → String
  | .dup => "dup" | .nonstd => "nonstd" | .invalid => "invalid" | .lowfee => "lowfee"

def ids (l : List Nat) : String := if l.isEmpty then "-" else joinWith "," (l.map toString)

def showResult : Result → String
  | .none => "-"
  | .err _ => "e"   -- which check rejected (and with which reject code) is not part of the property
  | .orphan => "orph"
  | .missing ps => "m:" ++ ids (sortNat ps).eraseDups
  | .accepted l =>
    -- the submitted transaction first; the order in which orphans followed is not part of the property
    match l with
    | [] => "a:-"
    | h :: rest => "a:" ++ ids (h :: sortNat rest)
  | .checked fee vs cs => "k:" ++ toString fee ++ ":" ++ toString vs ++ ":" ++ ids (sortNat cs)
  | .badBlock => "bb"

/-- `ProcessOrphans` returns only former orphans: no distinguished first element -/
def showRes (o : Op) (r : Result) : String :=
  match o, r with
  | .processOrphans _ _, .accepted l => "a:" ++ ids (sortNat l)
  | _, r => showResult r

def showPool (s : Pool) : String :=
  let p := (s.pool.mergeSort (fun a b => a.tx.id ≤ b.tx.id)).map (fun e => toString e.tx.id)
  let sp := (s.spent.mergeSort (fun a b => opLe a.1 b.1)).map (fun e => showOp e.1 ++ ">" ++ toString e.2.id)
  let o := (s.orphans.mergeSort (fun a b => a.1.id ≤ b.1.id)).map (fun e => toString e.1.id ++ "." ++ toString e.2)
  let bp := (s.byPrev.mergeSort (fun a b => if a.1 = b.1 then a.2.id ≤ b.2.id else opLe a.1 b.1)).map
    (fun e => showOp e.1 ++ ">" ++ toString e.2.id)
  "p=" ++ (if p.isEmpty then "-" else joinWith "," p) ++ ";s=" ++ (if sp.isEmpty then "-" else joinWith "," sp) ++
  ";o=" ++ (if o.isEmpty then "-" else joinWith "," o) ++ ";b=" ++ (if bp.isEmpty then "-" else joinWith "," bp)

/-- Which of several orphans redeeming the same outpoint Go's map iteration tries first is not
observable.  Both sides stop comparing (`nd`) when, inside an operation that runs `processOrphans`,
an orphan leaves the orphan pool that shared a redeemed outpoint with another orphan AND that outpoint
belongs to a transaction `processOrphans` walked (the operation's own transaction(s) or anything that
entered the pool during the operation). -/
def processedIds (before after : Pool) : Op → List Nat
  | .process _ _ _ _ _ _ => (after.pool.map (·.tx.id)).filter (fun id => !before.inPool id)
  | .processOrphans t _ => t.id :: (after.pool.map (·.tx.id)).filter (fun id => !before.inPool id)
  | .connect b _ => b.txs.map (·.id) ++ (after.pool.map (·.tx.id)).filter (fun id => !before.inPool id)
  | _ => []

def ambiguous (before after : Pool) (o : Op) : Bool :=
  let walked := processedIds before after o
  before.byPrev.any (fun p => walked.contains p.1.txid &&
    before.byPrev.any (fun q => q.1 = p.1 && q.2.id ≠ p.2.id) && !after.inOrphans p.2.id)

def contestedAll (s : Pool) : List Nat :=
  (s.byPrev.filter (fun p => s.byPrev.any (fun q => q.1 = p.1 && q.2.id ≠ p.2.id))).map (·.2.id)

def permsF : Nat → List Nat → List (List Nat)
  | 0, _ => [[]]
  | _, [] => [[]]
  | f + 1, l => l.flatMap (fun x => (permsF f (l.erase x)).map (x :: ·))

/-- FNV-1a, 64 bit, over the bytes of the string -/
def fnv64 (s : String) : Nat :=
  (s.toUTF8.foldl (fun (h : UInt64) b => (h ^^^ b.toUInt64) * 1099511628211) 14695981039346656037).toNat

/-- the recorded choice list of an operation; when present the model follows it and the comparison goes on -/
def opPrio : Op → List Nat
  | .process _ _ _ _ _ prio => prio
  | .processOrphans _ prio => prio
  | .connect _ prio => prio
  | _ => []

def runCmds (pol : Policy) : State → List Cmd → List String
  | _, [] => []
  | st, .skip :: rest => "z" :: runCmds pol st rest
  | st, .pinned :: .op o1 :: .op o2 :: rest =>
    -- the only admissible outcome of the pinned schedule: the submission, then the competing call
    let r1 := step pol st o1
    let r2 := step pol r1.1 o2
    (showRes o1 r1.2 ++ ";" ++ showPool r2.1.pool) :: runCmds pol r2.1 rest
  | _, .pinned :: _ => ["bad-op"]
  | st, .restart pol' :: rest =>
    ("-;" ++ showPool Pool.empty) :: runCmds pol' { st with pool := Pool.empty } rest
  | st, .template :: rest =>
    -- Spec answer: the pooled set is minable whenever height/MTP have not moved back since admission
    ((if st.pool.pool.all (·.fresh) then "t:1;" else "t:?;") ++ showPool st.pool) :: runCmds pol st rest
  | st, .search mk digest :: rest =>
    -- all orders of the orphans that share a redeemed outpoint; the first one that reproduces the
    -- recorded outcome is the order the implementation's map iteration took
    let cands := (contestedAll st.pool).eraseDups
    let orders := if cands.length ≤ 6 then permsF cands.length cands else [[]]
    let obs := fun (p : List Nat) => let r := step pol st (mk p); showRes (mk p) r.2 ++ ";" ++ showPool r.1.pool
    let p := (orders.find? (fun p => fnv64 (obs p) == digest)).getD []
    let r := step pol st (mk p)
    (showRes (mk p) r.2 ++ ";" ++ showPool r.1.pool) :: runCmds pol r.1 rest
  | st, .op o :: rest =>
    let r := step pol st o
    if ambiguous st.pool r.1.pool o && (opPrio o).isEmpty then ["nd"]
    else (showRes o r.2 ++ ";" ++ showPool r.1.pool) :: runCmds pol r.1 rest

/-- the state after all commands (choices as recorded; no `nd` handling: `par` lines have none) -/
def finalState (pol : Policy) : State → List Cmd → State
  | st, [] => st
  | st, .op o :: rest => finalState pol (step pol st o).1 rest
  | st, .search mk _ :: rest => finalState pol (step pol st (mk [])).1 rest
  | st, _ :: rest => finalState pol st rest

def handle : List String → String
  | ["dust", value, pkLen, kind, minRelay] =>
    match value.toInt?, pkLen.toNat?, minRelay.toInt? with
    | some v, some l, some r =>
      let w := kind == "w"
      toString (dustThreshold l w) ++ ":" ++ (if isDust v l w (kind == "u") r then "1" else "0")
    | _, _, _ => "bad-op"
  | ["vsize", sigLens, witLens, pkLens] =>
    match parseIds? sigLens, parseIds? witLens, parseIds? pkLens with
    | some sl, some wl, some pl =>
      if sl.length ≠ wl.length then "bad-op" else
      let ss := strippedSize sl pl
      let total := ss + witnessSize wl
      toString ss ++ ":" ++ toString total ++ ":" ++ toString (virtualSize ss total)
    | _, _, _ => "bad-op"
  | ["conc", _, _, _, _] => "ok"   -- concurrency exploration: the Go side evaluates the invariants itself
  | ["par", pol, ch, defs, ops] =>
    -- concurrent callers over independent groups: the only admissible final state is the sequential one
    match parsePolicy? pol, ch.splitOn ":", (splitList defs ";").mapM parseTx? with
    | some pol, [cm, "g"], some defs =>
      let opl := ((ops.splitOn "/").flatMap (fun g => splitList g ";")).filter (· != "")
      match cm.toNat?, opl.mapM (parseOp? defs) with
      | some cm, some cmds => showPool (finalState pol (State.init cm genesisTime) cmds).pool
      | _, _ => "bad-op"
    | _, _, _ => "bad-op"
  | ["run", pol, ch, defs, ops] =>
    match parsePolicy? pol, ch.splitOn ":", (splitList defs ";").mapM parseTx? with
    | some pol, [cm, mtp0], some defs =>
      match cm.toNat?, (if mtp0 == "g" then some genesisTime else none), (splitList ops ";").mapM (parseOp? defs) with
      | some cm, some mtp0, some cmds =>
        if !(defs.map (·.id)).Nodup then "bad-op" else
        joinWith "|" (runCmds pol (State.init cm mtp0) cmds)
      | _, _, _ => "bad-op"
    | _, _, _ => "bad-op"
  | _ => "bad-op"

end BV.C10.Driver
