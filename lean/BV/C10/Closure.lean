/-
C10 — helper lemmas, part 5: removing a transaction with its redeemers removes a descendant-closed
set (fuel sufficiency via ranks), and `txConflicts` is descendant-closed.
-/
import BV.C10.Laws
namespace BV.C10.Lemmas
open BV.C10 BV.C10.Spec

/-- pooled entries with an id above `id`: bounds the depth of any redeemer walk starting at `id` -/
def cnt (s : Pool) (id : Nat) : Nat := (s.pool.filter (fun e => id < e.tx.id)).length

theorem cnt_le_length (s : Pool) (id : Nat) : cnt s id ≤ s.pool.length := List.length_filter_le _ _

theorem cnt_lt_fuel (s : Pool) (id : Nat) : cnt s id < fuelOf s := by
  have := cnt_le_length s id; unfold fuelOf; omega

theorem filter_length_le {α : Type} (p q : α → Bool) (hpq : ∀ a, q a = true → p a = true) :
    ∀ (l : List α), (l.filter q).length ≤ (l.filter p).length
  | [] => by simp
  | c :: l => by
    have ih := filter_length_le p q hpq l
    simp only [List.filter_cons]
    by_cases hq : q c = true
    · simp [hq, hpq c hq]; exact ih
    · simp only [hq]
      by_cases hp : p c = true
      · simp [hp]; omega
      · simp [hp]; exact ih

theorem filter_length_lt {α : Type} (p q : α → Bool) (hpq : ∀ a, q a = true → p a = true) :
    ∀ (l : List α), (∃ a ∈ l, p a = true ∧ q a = false) → (l.filter q).length < (l.filter p).length
  | [], h => by obtain ⟨a, ha, _⟩ := h; cases ha
  | b :: l, h => by
    have hle := filter_length_le p q hpq l
    obtain ⟨a, ha, hpa, hqa⟩ := h
    simp only [List.filter_cons]
    rcases List.mem_cons.1 ha with rfl | ha'
    · simp [hpa, hqa]; omega
    · have ih := filter_length_lt p q hpq l ⟨a, ha', hpa, hqa⟩
      by_cases hq : q b = true
      · simp [hq, hpq b hq]; exact ih
      · simp only [hq]
        by_cases hp : p b = true
        · simp [hp]; omega
        · simp [hp]; exact ih

theorem cnt_child {s : Pool} {id : Nat} {r : TxAbs} (hr : r ∈ s.txs) (hlt : id < r.id) : cnt s r.id < cnt s id := by
  unfold cnt
  apply filter_length_lt
  · intro a h; simp only [decide_eq_true_eq] at h ⊢; omega
  · obtain ⟨e, he, rfl⟩ := mem_txs.1 hr
    exact ⟨e, he, by simpa using hlt, by simp⟩

theorem cnt_sublist {s b : Pool} (h : b.pool.Sublist s.pool) (id : Nat) : cnt b id ≤ cnt s id := by
  unfold cnt
  exact (h.filter _).length_le

theorem txs_of_sublist {s b : Pool} (h : b.pool.Sublist s.pool) {u : TxAbs} (hu : u ∈ b.txs) : u ∈ s.txs := by
  obtain ⟨e, he, rfl⟩ := mem_txs.1 hu
  exact mem_txs.2 ⟨e, h.subset he, rfl⟩

theorem removeOne_sublist (s : Pool) (id : Nat) : (removeOne s id).pool.Sublist s.pool := by
  unfold removeOne
  cases s.findTx id with
  | none => exact List.Sublist.refl _
  | some t => exact List.filter_sublist

/-- `s'` is `s` minus a set of transactions that is closed under pooled redeemers -/
structure RemSpec (s s' : Pool) : Prop where
  ok : PoolOk s'
  sub : s'.pool.Sublist s.pool
  closed : ∀ u ∈ s'.txs, ∀ q ∈ s.txs, q ∉ s'.txs → ∀ x ∈ u.ins, ¬ OutputOf x q
  orph : s'.orphans = s.orphans ∧ s'.byPrev = s.byPrev

theorem RemSpec.refl {s : Pool} (ok : PoolOk s) : RemSpec s s :=
  ⟨ok, List.Sublist.refl _, fun _ _ q hq hn => absurd hq hn, rfl, rfl⟩

theorem RemSpec.trans {a b c : Pool} (h1 : RemSpec a b) (h2 : RemSpec b c) : RemSpec a c := by
  refine ⟨h2.ok, h2.sub.trans h1.sub, ?_, h2.orph.1.trans h1.orph.1, h2.orph.2.trans h1.orph.2⟩
  intro u hu q hq hn x hx
  by_cases hqb : q ∈ b.txs
  · exact h2.closed u hu q hqb hn x hx
  · exact h1.closed u (txs_of_sublist h2.sub hu) q hq hqb x hx

def NoSp (b : Pool) (x : OutPoint) : Prop := ∀ u ∈ b.txs, x ∉ u.ins

theorem NoSp.mono {s b : Pool} {x : OutPoint} (h : b.pool.Sublist s.pool) (hn : NoSp s x) : NoSp b x :=
  fun u hu => hn u (txs_of_sublist h hu)

theorem noSp_of_spender_none {b : Pool} (ok : PoolOk b) {x : OutPoint} (h : b.spender x = none) : NoSp b x :=
  fun u hu hx => spender_none h u ((ok.idx x u).2 ⟨hu, hx⟩)

theorem removeRec_spec : ∀ (f : Nat) (s : Pool) (id n : Nat), PoolOk s → PoolRanked s → cnt s id < f →
    (∀ q ∈ s.txs, q.id = id → q.nOuts ≤ n) →
    RemSpec s (removeRec f s id n) ∧ (∀ q ∈ (removeRec f s id n).txs, q.id ≠ id) ∧
      (∀ i, i < n → NoSp (removeRec f s id n) ⟨id, i⟩)
  | 0, s, id, n, _, _, hf, _ => by omega
  | f + 1, s, id, n, ok, rk, hf, hn => by
    unfold removeRec
    -- the fold over the outputs
    have fold : ∀ (l : List Nat) (b : Pool), RemSpec s b →
        RemSpec s (l.foldl (fun s i => match s.spender ⟨id, i⟩ with
          | some r => removeRec f s r.id r.nOuts
          | none => s) b) ∧
        (∀ i, (i ∈ l ∨ NoSp b ⟨id, i⟩) → NoSp (l.foldl (fun s i => match s.spender ⟨id, i⟩ with
          | some r => removeRec f s r.id r.nOuts
          | none => s) b) ⟨id, i⟩) := by
      intro l
      induction l with
      | nil => intro b hb; exact ⟨hb, fun i h => by simpa using h⟩
      | cons j l ih =>
        intro b hb
        simp only [List.foldl_cons]
        -- one step
        have step : RemSpec b (match b.spender ⟨id, j⟩ with
            | some r => removeRec f b r.id r.nOuts
            | none => b) ∧ NoSp (match b.spender ⟨id, j⟩ with
            | some r => removeRec f b r.id r.nOuts
            | none => b) ⟨id, j⟩ := by
          cases hs : b.spender ⟨id, j⟩ with
          | none => exact ⟨RemSpec.refl hb.ok, noSp_of_spender_none hb.ok hs⟩
          | some r =>
            simp only
            obtain ⟨hr1, hr2⟩ := (hb.ok.idx _ r).1 (spender_some hs)
            have hrs : r ∈ s.txs := txs_of_sublist hb.sub hr1
            have hlt : id < r.id := rk r hrs _ hr2
            have hc1 : cnt b r.id < cnt b id := cnt_child hr1 hlt
            have hc2 := cnt_sublist hb.sub id
            have rkb : PoolRanked b := fun t ht => rk t (txs_of_sublist hb.sub ht)
            obtain ⟨a1, a2, _⟩ := removeRec_spec f b r.id r.nOuts hb.ok rkb (by omega)
              (fun q hq e => by rw [hb.ok.idFun q hq r hr1 e]; exact Nat.le_refl _)
            refine ⟨a1, ?_⟩
            intro u hu hx
            have hub := txs_of_sublist a1.sub hu
            have : u = r := hb.ok.nds u hub r hr1 _ hx hr2
            subst this
            exact a2 u hu rfl
        obtain ⟨s1, s2⟩ := step
        obtain ⟨i1, i2⟩ := ih _ (hb.trans s1)
        refine ⟨i1, ?_⟩
        intro i hi
        apply i2 i
        rcases hi with hi | hi
        · rcases List.mem_cons.1 hi with rfl | hi'
          · exact Or.inr s2
          · exact Or.inl hi'
        · exact Or.inr (NoSp.mono s1.sub hi)
    obtain ⟨f1, f2⟩ := fold (List.range n) s (RemSpec.refl ok)
    generalize hs1 : (List.range n).foldl (fun s i => match s.spender ⟨id, i⟩ with
          | some r => removeRec f s r.id r.nOuts
          | none => s) s = s1 at f1 f2
    have last : RemSpec s1 (removeOne s1 id) := by
      refine ⟨removeOne_ok f1.ok id, removeOne_sublist s1 id, ?_, removeOne_orphans s1 id⟩
      intro u hu q hq hnq x hx ho
      have hqid : q.id = id := by
        by_cases e : q.id = id
        · exact e
        · exact absurd (removeOne_txs.2 ⟨hq, e⟩) hnq
      obtain ⟨o1, o2⟩ := ho
      have hqn := hn q (txs_of_sublist f1.sub hq) hqid
      have hns := f2 x.idx (Or.inl (List.mem_range.2 (by omega)))
      have hxid : x.txid = id := o1.symm.trans hqid
      have hx' : (⟨id, x.idx⟩ : OutPoint) = x := by
        cases x; simp only at hxid; simp only [OutPoint.mk.injEq, and_true]; exact hxid.symm
      rw [hx'] at hns
      exact hns u (removeOne_txs.1 hu).1 hx
    refine ⟨f1.trans last, fun q hq => (removeOne_txs.1 hq).2, ?_⟩
    intro i hi
    exact NoSp.mono (removeOne_sublist s1 id) (f2 i (Or.inl (List.mem_range.2 hi)))

end BV.C10.Lemmas

namespace BV.C10.Lemmas
open BV.C10 BV.C10.Spec

/-! ### `txDescendants` / `txConflicts` are closed under pooled redeemers -/

def ChildOf (u m : TxAbs) : Prop := ∃ x ∈ u.ins, OutputOf x m

def ClosedSet (s : Pool) (R : List TxAbs) : Prop :=
  ∀ m ∈ s.txs, hasId R m.id → ∀ u ∈ s.txs, ChildOf u m → hasId R u.id

theorem insertTx_hasId_iff {l : List TxAbs} {t : TxAbs} {id : Nat} :
    hasId (insertTx l t) id ↔ hasId l id ∨ id = t.id := by
  constructor
  · rintro ⟨u, hu, e⟩
    rcases insertTx_sub hu with h | h
    · exact Or.inl ⟨u, h, e⟩
    · right; rw [← e, h]
  · rintro (h | h)
    · exact insertTx_mono h
    · rw [h]; exact insertTx_self l t

theorem unionTx_hasId_iff {l m : List TxAbs} {id : Nat} : hasId (unionTx l m) id ↔ hasId l id ∨ hasId m id := by
  constructor
  · rintro ⟨u, hu, e⟩
    rcases unionTx_sub m l hu with h | h
    · exact Or.inl ⟨u, h, e⟩
    · exact Or.inr ⟨u, h, e⟩
  · rintro (h | h)
    · exact unionTx_mono m h
    · -- every element of m is inserted
      obtain ⟨u, hu, e⟩ := h
      suffices ∀ (m l : List TxAbs), u ∈ m → hasId (unionTx l m) u.id by
        obtain ⟨v, hv, e'⟩ := this m l hu
        exact ⟨v, hv, by rw [e']; exact e⟩
      intro m
      induction m with
      | nil => intro l h; cases h
      | cons a m ih =>
        intro l h
        have : unionTx l (a :: m) = unionTx (insertTx l a) m := by simp [unionTx]
        rw [this]
        rcases List.mem_cons.1 h with rfl | h'
        · exact unionTx_mono m (insertTx_self l _)
        · exact ih _ h'

theorem closedSet_union {s : Pool} {A B : List TxAbs} (ha : ClosedSet s A) (hb : ClosedSet s B) :
    ClosedSet s (unionTx A B) := by
  intro m hm hid u hu hc
  rcases unionTx_hasId_iff.1 hid with h | h
  · exact unionTx_hasId_iff.2 (Or.inl (ha m hm h u hu hc))
  · exact unionTx_hasId_iff.2 (Or.inr (hb m hm h u hu hc))

theorem closedSet_nil (s : Pool) : ClosedSet s [] := by
  intro m _ h; obtain ⟨u, hu, _⟩ := h; cases hu

/-- `acc ∪ {d} ∪ D` is closed when `acc` and `D` are, and `D` holds the children of `d` -/
theorem closedSet_step {s : Pool} (ok : PoolOk s) {acc D : List TxAbs} {d : TxAbs} (hd : d ∈ s.txs)
    (ha : ClosedSet s acc) (hD : ClosedSet s D) (hch : ∀ u ∈ s.txs, ChildOf u d → hasId D u.id) :
    ClosedSet s (unionTx (insertTx acc d) D) := by
  intro m hm hid u hu hc
  rcases unionTx_hasId_iff.1 hid with h | h
  · rcases insertTx_hasId_iff.1 h with h' | h'
    · exact unionTx_mono _ (insertTx_mono (ha m hm h' u hu hc))
    · have : m = d := ok.idFun m hm d hd h'
      subst this
      exact unionTx_hasId_iff.2 (Or.inr (hch u hu hc))
  · exact unionTx_hasId_iff.2 (Or.inr (hD m hm h u hu hc))

theorem txDescendants_spec {s : Pool} (ok : PoolOk s) (rk : PoolRanked s) : ∀ (f : Nat) (t : TxAbs),
    t ∈ s.txs → cnt s t.id < f →
    (∀ u ∈ s.txs, ChildOf u t → hasId (txDescendants f s t) u.id) ∧ ClosedSet s (txDescendants f s t)
  | 0, _, _, h => by omega
  | f + 1, t, ht, hf => by
    unfold txDescendants
    have fold : ∀ (l : List Nat) (acc : List TxAbs), ClosedSet s acc →
        ClosedSet s (l.foldl (fun acc i => match s.spender ⟨t.id, i⟩ with
          | some d => unionTx (insertTx acc d) (txDescendants f s d)
          | none => acc) acc) ∧
        ∀ (i : Nat) (u : TxAbs), u ∈ s.txs → (⟨t.id, i⟩ : OutPoint) ∈ u.ins → (i ∈ l ∨ hasId acc u.id) →
          hasId (l.foldl (fun acc i => match s.spender ⟨t.id, i⟩ with
          | some d => unionTx (insertTx acc d) (txDescendants f s d)
          | none => acc) acc) u.id := by
      intro l
      induction l with
      | nil => intro acc ha; exact ⟨ha, fun i u _ _ h => by simpa using h⟩
      | cons j l ih =>
        intro acc ha
        simp only [List.foldl_cons]
        have step : ClosedSet s (match s.spender ⟨t.id, j⟩ with
            | some d => unionTx (insertTx acc d) (txDescendants f s d)
            | none => acc) ∧
            (∀ u : TxAbs, hasId acc u.id → hasId (match s.spender ⟨t.id, j⟩ with
            | some d => unionTx (insertTx acc d) (txDescendants f s d)
            | none => acc) u.id) ∧
            (∀ u ∈ s.txs, (⟨t.id, j⟩ : OutPoint) ∈ u.ins → hasId (match s.spender ⟨t.id, j⟩ with
            | some d => unionTx (insertTx acc d) (txDescendants f s d)
            | none => acc) u.id) := by
          cases hs : s.spender ⟨t.id, j⟩ with
          | none =>
            exact ⟨ha, fun u h => h, fun u hu hx => absurd hx (noSp_of_spender_none ok hs u hu)⟩
          | some d =>
            simp only
            obtain ⟨hd1, hd2⟩ := (ok.idx _ d).1 (spender_some hs)
            have hlt : t.id < d.id := rk d hd1 _ hd2
            have hc := cnt_child hd1 hlt
            obtain ⟨a1, a2⟩ := txDescendants_spec ok rk f d hd1 (by omega)
            refine ⟨closedSet_step ok hd1 ha a2 a1, fun u h => unionTx_mono _ (insertTx_mono h), ?_⟩
            intro u hu hx
            have : u = d := ok.nds u hu d hd1 _ hx hd2
            subst this
            exact unionTx_mono _ (insertTx_self _ _)
        obtain ⟨s1, s2, s3⟩ := step
        obtain ⟨i1, i2⟩ := ih _ s1
        refine ⟨i1, ?_⟩
        intro i u hu hx hi
        apply i2 i u hu hx
        rcases hi with hi | hi
        · rcases List.mem_cons.1 hi with rfl | hi'
          · exact Or.inr (s3 u hu hx)
          · exact Or.inl hi'
        · exact Or.inr (s2 u hi)
    obtain ⟨f1, f2⟩ := fold (List.range t.nOuts) [] (closedSet_nil s)
    refine ⟨?_, f1⟩
    intro u hu hc
    obtain ⟨x, hx, o1, o2⟩ := hc
    have hx' : (⟨t.id, x.idx⟩ : OutPoint) = x := by
      cases x; simp only at o1; simp only [OutPoint.mk.injEq, and_true]; exact o1
    exact f2 x.idx u hu (by rw [hx']; exact hx) (Or.inl (List.mem_range.2 o2))

theorem txConflicts_closed {s : Pool} (ok : PoolOk s) (rk : PoolRanked s) (t : TxAbs) :
    ClosedSet s (txConflicts s t) := by
  rw [txConflicts_eq]
  apply foldl_inv (ClosedSet s) _ _ _ _ (closedSet_nil s)
  intro acc x ha
  unfold conflictStep
  cases hs : s.spender x with
  | none => exact ha
  | some c =>
    simp only
    obtain ⟨hc1, _⟩ := (ok.idx _ c).1 (spender_some hs)
    obtain ⟨a1, a2⟩ := txDescendants_spec ok rk (fuelOf s) c hc1 (cnt_lt_fuel s c.id)
    exact closedSet_step ok hc1 ha a2 a1

end BV.C10.Lemmas
