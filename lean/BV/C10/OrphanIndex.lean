/-
C10 — helper lemmas, part 14: the orphan index (`orphansByPrev`) agrees with the orphan pool after every
operation.
-/
import BV.C10.Fresh
namespace BV.C10.Lemmas
open BV.C10 BV.C10.Spec

/-- index agreement, except for the orphans whose removal is in progress (`D`: ids on the recursion stack
of `removeOrphan`, already taken out of the index but not yet out of the orphan map) -/
def OIAx (D : List Nat) (s : Pool) : Prop :=
  ∀ x t, (x, t) ∈ s.byPrev ↔ ((∃ tag, (t, tag) ∈ s.orphans) ∧ x ∈ t.ins ∧ t.id ∉ D)

theorem oia_iff (s : Pool) : OrphanIndexAgrees s ↔ OIAx [] s := by
  unfold OrphanIndexAgrees OIAx
  constructor
  · intro h x t; rw [h x t]; simp
  · intro h x t; rw [h x t]; simp

def OrphSame (a b : Pool) : Prop := a.orphans = b.orphans ∧ a.byPrev = b.byPrev

theorem oiax_of_same {D : List Nat} {a b : Pool} (h : OrphSame a b) (hb : OIAx D b) : OIAx D a := by
  unfold OIAx; rw [h.1, h.2]; exact hb

theorem removeRec_same : ∀ (f : Nat) (s : Pool) (id n : Nat), OrphSame (removeRec f s id n) s
  | 0, s, _, _ => by simp [removeRec, OrphSame]
  | f + 1, s, id, n => by
    unfold removeRec
    have h1 := removeOne_orphans ((List.range n).foldl (fun s i =>
      match s.spender ⟨id, i⟩ with
      | some r => removeRec f s r.id r.nOuts
      | none => s) s) id
    have h2 : OrphSame ((List.range n).foldl (fun s i =>
      match s.spender ⟨id, i⟩ with
      | some r => removeRec f s r.id r.nOuts
      | none => s) s) s := by
      refine foldl_inv (fun (b : Pool) => OrphSame b s) _ ?_ _ _ ⟨rfl, rfl⟩
      intro b a hb
      cases h : b.spender ⟨id, a⟩ with
      | none => simpa [h] using hb
      | some r =>
        simp only
        have := removeRec_same f b r.id r.nOuts
        exact ⟨this.1.trans hb.1, this.2.trans hb.2⟩
    exact ⟨h1.1.trans h2.1, h1.2.trans h2.2⟩

theorem removeTransaction_same (s : Pool) (t : TxAbs) (red : Bool) : OrphSame (removeTransaction s t red) s := by
  unfold removeTransaction
  split
  · exact removeRec_same _ s t.id t.nOuts
  · exact removeOne_orphans s t.id

theorem removeDoubleSpends_same (s : Pool) (t : TxAbs) : OrphSame (removeDoubleSpends s t) s := by
  unfold removeDoubleSpends
  refine foldl_inv (fun (b : Pool) => OrphSame b s) _ ?_ _ _ ⟨rfl, rfl⟩
  intro b a hb
  cases h : b.spender a with
  | none => simpa [h] using hb
  | some r =>
    simp only
    split
    · have := removeRec_same (fuelOf b) b r.id r.nOuts
      exact ⟨this.1.trans hb.1, this.2.trans hb.2⟩
    · exact hb

theorem maybeAccept_osame {pol : Policy} {c : Chain} {s : Pool} {t : TxAbs} {isNew rl rdo : Bool} :
    OrphSame (maybeAccept pol c s t isNew rl rdo).1 s := maybeAccept_orphans

theorem markStale_osame (s : Pool) : OrphSame (markStale s) s := ⟨rfl, rfl⟩
theorem staleSpenders_osame (b : Block) (s : Pool) : OrphSame (staleSpenders b s) s := ⟨rfl, rfl⟩

/-! ### orphan removals -/

theorem removeOrphanOne_oia {D : List Nat} {s : Pool} (h : OIAx D s) (id : Nat) : OIAx D (removeOrphanOne s id) := by
  intro x t
  unfold removeOrphanOne
  simp only [List.mem_filter, decide_eq_true_eq]
  rw [h x t]
  constructor
  · rintro ⟨⟨⟨tag, ht⟩, hx, hd⟩, hne⟩
    exact ⟨⟨tag, ht, hne⟩, hx, hd⟩
  · rintro ⟨⟨tag, ht, hne⟩, hx, hd⟩
    exact ⟨⟨⟨tag, ht⟩, hx, hd⟩, hne⟩

theorem removeOrphanRec_oia : ∀ (f : Nat) (s : Pool) (id n : Nat) (D : List Nat), OIAx D s →
    OIAx D (removeOrphanRec f s id n)
  | 0, s, _, _, _, h => by simpa [removeOrphanRec] using h
  | f + 1, s, id, n, D, h => by
    unfold removeOrphanRec
    split
    · exact h
    · simp only
      -- the orphan is taken out of the index first
      have h0 : OIAx (id :: D) { s with byPrev := s.byPrev.filter (fun p => p.2.id ≠ id) } := by
        intro x t
        simp only [List.mem_filter, decide_eq_true_eq, List.mem_cons, not_or]
        rw [h x t]
        constructor
        · rintro ⟨⟨ho, hx, hd⟩, hne⟩; exact ⟨ho, hx, hne, hd⟩
        · rintro ⟨ho, hx, hne, hd⟩; exact ⟨⟨ho, hx, hd⟩, hne⟩
      have h1 : OIAx (id :: D) ((List.range n).foldl (fun s i =>
          (orphansSpending s ⟨id, i⟩).foldl (fun s o => removeOrphanRec f s o.id o.nOuts) s)
          { s with byPrev := s.byPrev.filter (fun p => p.2.id ≠ id) }) := by
        refine foldl_inv (OIAx (id :: D)) _ ?_ _ _ h0
        intro b a hb
        refine foldl_inv (OIAx (id :: D)) _ ?_ _ _ hb
        intro b' o hb'
        exact removeOrphanRec_oia f b' o.id o.nOuts (id :: D) hb'
      -- then out of the orphan map
      intro x t
      have := h1 x t
      unfold removeOrphanOne
      simp only [List.mem_filter, decide_eq_true_eq]
      rw [this]
      simp only [List.mem_cons, not_or]
      constructor
      · rintro ⟨⟨⟨tag, ht⟩, hx, hne, hd⟩, _⟩
        exact ⟨⟨tag, ht, hne⟩, hx, hd⟩
      · rintro ⟨⟨tag, ht, hne⟩, hx, hd⟩
        exact ⟨⟨⟨tag, ht⟩, hx, hne, hd⟩, hne⟩

theorem removeOrphan_oia {s : Pool} (h : OIAx [] s) (t : TxAbs) (red : Bool) : OIAx [] (removeOrphan s t red) := by
  unfold removeOrphan
  split
  · exact h
  · split
    · exact removeOrphanRec_oia _ s t.id t.nOuts [] h
    · exact removeOrphanOne_oia h t.id

theorem removeOrphanDoubleSpends_oia {s : Pool} (h : OIAx [] s) (t : TxAbs) : OIAx [] (removeOrphanDoubleSpends s t) := by
  unfold removeOrphanDoubleSpends
  refine foldl_inv (OIAx []) _ ?_ _ _ h
  intro b a hb
  refine foldl_inv (OIAx []) _ ?_ _ _ hb
  intro b' o hb'
  exact removeOrphan_oia hb' o true

theorem addOrphan_oia {pol : Policy} {s : Pool} (h : OIAx [] s) (t : TxAbs) (tag ev : Nat) :
    OIAx [] (addOrphan pol s t tag ev) := by
  unfold addOrphan
  split
  · exact h
  · simp only
    have ins : ∀ s1 : Pool, OIAx [] s1 →
        OIAx [] { s1 with orphans := (t, tag) :: s1.orphans.filter (fun o => o.1.id ≠ t.id),
                          byPrev := t.ins.map (fun x => (x, t)) ++ s1.byPrev.filter (fun p => p.2.id ≠ t.id) } := by
      intro s1 h1 x u
      simp only [List.mem_append, List.mem_map, List.mem_filter, decide_eq_true_eq, List.mem_cons, Prod.mk.injEq,
        List.not_mem_nil, not_false_eq_true, and_true]
      rw [h1 x u]
      simp only [List.not_mem_nil, not_false_eq_true, and_true]
      constructor
      · rintro (⟨y, hy, rfl, rfl⟩ | ⟨⟨⟨tg, ht⟩, hx⟩, hne⟩)
        · exact ⟨⟨tag, Or.inl ⟨rfl, rfl⟩⟩, hy⟩
        · exact ⟨⟨tg, Or.inr ⟨ht, hne⟩⟩, hx⟩
      · rintro ⟨⟨tg, (⟨rfl, rfl⟩ | ⟨ht, hne⟩)⟩, hx⟩
        · exact Or.inl ⟨x, hx, rfl, rfl⟩
        · exact Or.inr ⟨⟨⟨tg, ht⟩, hx⟩, hne⟩
    split
    · exact ins s h
    · split
      · exact ins s h
      · split
        · exact ins _ (removeOrphanOne_oia h ev)
        · exact ins _ (removeOrphanOne_oia h _)

/-! ### compound operations -/

theorem tryCandidates_oia (pol : Policy) (c : Chain) : ∀ (l : List TxAbs) (s : Pool), OIAx [] s →
    OIAx [] (tryCandidates pol c s l).1
  | [], s, h => by simpa [tryCandidates] using h
  | o :: rest, s, h => by
    unfold tryCandidates
    have hm := oiax_of_same (@maybeAccept_osame pol c s o true true false) h
    split
    · rename_i s' _ heq; rw [heq] at hm; exact removeOrphan_oia hm o true
    · rename_i s' _ heq; rw [heq] at hm; exact tryCandidates_oia pol c rest s' hm
    · rename_i s' heq; rw [heq] at hm; exact removeOrphan_oia hm o false

theorem processItem_oia (pol : Policy) (c : Chain) (prio : List Nat) (s : Pool) (item : TxAbs) (h : OIAx [] s) :
    OIAx [] (processItem pol c prio s item).1 := by
  unfold processItem
  apply foldl_inv (fun (acc : Pool × List TxAbs) => OIAx [] acc.1) _ _ _ _ h
  intro b a hb
  have := tryCandidates_oia pol c (candidates b.1 ⟨item.id, a⟩ prio) b.1 hb
  split
  · rename_i s' o heq; rw [heq] at this; exact this
  · rename_i s' heq; rw [heq] at this; exact this

theorem processLoop_oia (pol : Policy) (c : Chain) (prio : List Nat) : ∀ (f : Nat) (s : Pool) (q acc : List TxAbs),
    OIAx [] s → OIAx [] (processLoop pol c prio f s q acc).1
  | 0, s, _, _, h => by simpa [processLoop] using h
  | f + 1, s, [], _, h => by simpa [processLoop] using h
  | f + 1, s, item :: q, acc, h => by
    unfold processLoop
    exact processLoop_oia pol c prio f _ _ _ (processItem_oia pol c prio s item h)

theorem processOrphans_oia (pol : Policy) (c : Chain) (s : Pool) (t : TxAbs) (prio : List Nat) (h : OIAx [] s) :
    OIAx [] (processOrphans pol c s t prio).1 := by
  unfold processOrphans
  simp only
  apply foldl_inv (OIAx []) _ _ _ _
  · exact removeOrphanDoubleSpends_oia (processLoop_oia pol c prio _ s [t] [] h) t
  · intro b a hb
    exact removeOrphanDoubleSpends_oia hb a

theorem processTransaction_oia (pol : Policy) (c : Chain) (s : Pool) (t : TxAbs) (ao rl : Bool) (tag ev : Nat)
    (prio : List Nat) (h : OIAx [] s) : OIAx [] (processTransaction pol c s t ao rl tag ev prio).1 := by
  unfold processTransaction
  have hm := oiax_of_same (@maybeAccept_osame pol c s t true rl true) h
  split
  · exact h
  · rename_i s1 heq
    rw [heq] at hm
    exact processOrphans_oia pol c s1 t prio hm
  · split
    · exact h
    · split
      · exact h
      · exact addOrphan_oia h t tag ev

theorem connectTx_oia (pol : Policy) (c : Chain) (prio : List Nat) (s : Pool) (t : TxAbs) (h : OIAx [] s) :
    OIAx [] (connectTx pol c prio s t) := by
  unfold connectTx
  apply processOrphans_oia
  apply removeOrphan_oia
  apply oiax_of_same (removeDoubleSpends_same _ t)
  exact oiax_of_same (removeTransaction_same s t false) h

theorem disconnectTx_oia (pol : Policy) (c : Chain) (s : Pool) (t : TxAbs) (h : OIAx [] s) :
    OIAx [] (disconnectTx pol c s t) := by
  unfold disconnectTx
  have hm := oiax_of_same (@maybeAccept_osame pol c s t false false true) h
  cases hmm : maybeAccept pol c s t false false true with
  | mk s' r =>
    rw [hmm] at hm
    cases r <;> simp only <;> first | exact hm | exact oiax_of_same (removeTransaction_same s' t true) hm

theorem step_oia (pol : Policy) (st : State) (op : Op) (h : OIAx [] st.pool) : OIAx [] (step pol st op).1.pool := by
  cases op with
  | process t ao rl tag ev prio => exact processTransaction_oia pol st.chain st.pool t ao rl tag ev prio h
  | maybeAccept t isNew rl =>
    have hm := oiax_of_same (@maybeAccept_osame pol st.chain st.pool t isNew rl true) h
    simp only [step]
    split <;> (rename_i s _ heq; rw [heq] at hm; exact hm)
  | check t => simp only [step]; split <;> exact h
  | remove t red =>
    simp only [step]
    split
    · exact oiax_of_same (markStale_osame _) (oiax_of_same (removeTransaction_same st.pool t red) h)
    · exact oiax_of_same (removeTransaction_same st.pool t red) h
  | removeDoubleSpends t => exact oiax_of_same (removeDoubleSpends_same st.pool t) h
  | processOrphans t prio => exact processOrphans_oia pol st.chain st.pool t prio h
  | removeOrphan t => exact removeOrphan_oia h t false
  | removeOrphansByTag tag =>
    simp only [step]
    apply foldl_inv (OIAx []) _ _ _ _ h
    intro b a hb
    exact removeOrphan_oia hb a true
  | connect b prio =>
    simp only [step]
    split
    · exact h
    · simp only
      apply foldl_inv (OIAx []) _ _ _ _
      · apply oiax_of_same (staleSpenders_osame _ _)
        split
        · exact oiax_of_same (markStale_osame _) h
        · exact h
      · intro b' a hb; exact connectTx_oia pol _ prio b' a hb
  | disconnect =>
    simp only [step]
    split
    · exact h
    · simp only
      apply oiax_of_same (removeTransaction_same _ _ true)
      refine foldl_inv (OIAx []) _ ?_ _ _ (oiax_of_same (markStale_osame _) h)
      intro b' a hb; exact disconnectTx_oia pol _ b' a hb

theorem run_oia (pol : Policy) : ∀ (ops : List Op) (st : State), OIAx [] st.pool → OIAx [] (run pol st ops).1.pool
  | [], st, h => by simpa [run] using h
  | op :: ops, st, h => by
    simp only [run]
    exact run_oia pol ops _ (step_oia pol st op h)

theorem oia_init (maturity mtp0 : Nat) : OIAx [] (State.init maturity mtp0).pool := by
  intro x t; simp [State.init, Pool.empty]

end BV.C10.Lemmas
