import BV.C13.Spec
/-
C10 — executable mirror of btcd's transaction pool (mempool/mempool.go) and of the block
connect / disconnect protocol netsync applies to it (netsync/manager.go,
handleBlockchainNotification).  Core-only.

Abstraction (see meta/C10.json):
* a transaction is `TxAbs`: an id (natural number; the *rank* of the transaction: a transaction can
  only reference ids that were created before it, which is how "a txid is a hash of its content"
  shows up in the model), its outpoints, sequences, lock time, output count, and facts about it that
  other packages establish (sizes, fee, standardness, script validity …) supplied as fields;
* Go maps are association lists; every place where Go iterates a map and the result depends on the
  order takes an explicit `choice`;
* wall-clock orphan expiry and the float "penny" rate limiter are not modelled (the limiter is the
  policy bit `freeRelay`).
-/
namespace BV.C10

structure OutPoint where
  txid : Nat
  idx : Nat
deriving DecidableEq, Repr

structure TxAbs where
  id : Nat
  ins : List OutPoint
  seqs : List Nat
  nOuts : Nat
  lockTime : Nat
  version : Nat      -- transaction version (BIP68 applies from version 2)
  fee : Nat
  vsize : Nat
  ssize : Nat        -- stripped serialize size
  size : Nat         -- full serialize size
  sane : Bool        -- blockchain.CheckTransactionSanity apart from the duplicate-input rule
  coinbase : Bool    -- blockchain.IsCoinBase
  valuesOk : Bool    -- value rules of blockchain.CheckTransactionInputs
  std : Bool         -- CheckTransactionStandard apart from finality, and checkInputsStandard
  sigOk : Bool       -- sigop cost within Policy.MaxSigOpCostPerTx
  inVals : List Nat  -- amount of the output each input spends (0 when unknown), for mining.CalcPriority
  prioSize : Nat     -- serialized size minus the per-input overhead CalcPriority discounts (0: priority 0)
  scriptsOk : Bool   -- blockchain.ValidateTransactionScripts with the standard flags
deriving DecidableEq, Repr

structure Policy where
  acceptNonStd : Bool
  rejectReplacement : Bool
  maxOrphans : Int
  maxOrphanSize : Nat
  minRelayFee : Nat
  disablePriority : Bool
  freeRelay : Bool       -- true: the rate limiter never rejects; false: it always rejects
  minStdSize : Nat       -- MinStandardTxNonWitnessSize: relay-policy tuning, read from the tree, not pinned
  blockPrioritySize : Nat -- DefaultBlockPrioritySize: internal tuning, read from the tree, not pinned
  minHighPrio : Nat      -- mining.MinHighPriority (an integer): internal tuning, read from the tree, not pinned
deriving Repr

/-! ### chain view -/

structure Utxo where
  op : OutPoint
  height : Nat
  cb : Bool
deriving DecidableEq, Repr

structure Block where
  cb : TxAbs               -- coinbase (id, nOuts)
  txs : List TxAbs         -- the other transactions, block order
  mtp : Nat                -- median time past of the chain once this block is its tip
deriving Repr

structure BlockRec where
  blk : Block
  undo : List Utxo         -- what the block spent
  prevMtp : Nat
deriving Repr

structure Chain where
  utxo : List Utxo
  height : Nat
  mtp : Nat
  maturity : Nat
  stack : List BlockRec
deriving Repr

def Chain.find (c : Chain) (x : OutPoint) : Option Utxo := c.utxo.find? (fun u => u.op = x)
def Chain.has (c : Chain) (x : OutPoint) : Bool := c.utxo.any (fun u => u.op = x)

/-! ### pool state -/

structure Entry where
  tx : TxAbs
  height : Nat       -- TxDesc.Height: best height at admission
  fresh : Bool       -- ghost: chain height and MTP have not moved backwards since admission
deriving DecidableEq, Repr

structure Pool where
  pool : List Entry                    -- mp.pool
  spent : List (OutPoint × TxAbs)      -- mp.outpoints
  orphans : List (TxAbs × Nat)         -- mp.orphans (tx, tag)
  byPrev : List (OutPoint × TxAbs)     -- mp.orphansByPrev as a relation
deriving Repr

def Pool.empty : Pool := ⟨[], [], [], []⟩

def Pool.txs (s : Pool) : List TxAbs := s.pool.map (·.tx)
def Pool.findTx (s : Pool) (id : Nat) : Option TxAbs := (s.pool.find? (fun e => e.tx.id = id)).map (·.tx)
def Pool.inPool (s : Pool) (id : Nat) : Bool := s.pool.any (fun e => e.tx.id = id)
def Pool.inOrphans (s : Pool) (id : Nat) : Bool := s.orphans.any (fun o => o.1.id = id)
def Pool.spender (s : Pool) (x : OutPoint) : Option TxAbs := (s.spent.find? (fun p => p.1 = x)).map (·.2)

/-! ### constants (pinned against the code by Props) -/

def maxRBFSequence : Nat := 0xfffffffd
def maxReplacementEvictions : Nat := 100
def lockTimeThreshold : Nat := 500000000
def maxSatoshi : Nat := 2100000000000000
def maxSeq : Nat := 0xffffffff

/-- `calcMinRequiredTxRelayFee`. -/
def minRelayFeeFor (size minRelay : Nat) : Nat :=
  let f := size * minRelay / 1000
  let f := if f = 0 ∧ minRelay > 0 then minRelay else f
  if f > maxSatoshi then maxSatoshi else f

def feeRate (t : TxAbs) : Nat := t.fee * 1000 / t.vsize

/-- `blockchain.IsFinalizedTransaction`. -/
def isFinal (t : TxAbs) (height time : Nat) : Bool :=
  if t.lockTime = 0 then true
  else if t.lockTime < (if t.lockTime < lockTimeThreshold then height else time) then true
  else t.seqs.all (fun s => s = maxSeq)

/-! ### policy arithmetic (mempool/policy.go) -/

/-- Bitcoin's compact-size length of `n` -/
def varIntLen (n : Nat) : Nat := if n < 0xfd then 1 else if n ≤ 0xffff then 3 else if n ≤ 0xffffffff then 5 else 9

/-- `GetDustThreshold`: three times the bytes needed to create and spend the output -/
def dustThreshold (pkLen : Nat) (witnessProgram : Bool) : Nat :=
  3 * ((8 + varIntLen pkLen + pkLen) + 41 + (if witnessProgram then 107 / 4 else 107))

/-- `IsDust` (Go int64 division truncates towards zero) -/
def isDust (value : Int) (pkLen : Nat) (witnessProgram unspendable : Bool) (minRelay : Int) : Bool :=
  unspendable || decide (Int.tdiv (value * 1000) (dustThreshold pkLen witnessProgram) < minRelay)

/-- `GetTxVirtualSize` from the stripped and the full serialize size -/
def virtualSize (stripped total : Nat) : Nat := (stripped * 3 + total + 3) / 4

/-- serialize sizes of a transaction with `nIn` inputs (script lengths `sigLens`, one witness item of
length `witLens[i]` each, 0 = empty stack) and outputs with script lengths `pkLens` -/
def strippedSize (sigLens pkLens : List Nat) : Nat :=
  4 + varIntLen sigLens.length + (sigLens.map (fun l => 36 + varIntLen l + l + 4)).sum +
  varIntLen pkLens.length + (pkLens.map (fun l => 8 + varIntLen l + l)).sum + 4

def witnessSize (witLens : List Nat) : Nat :=
  if witLens.all (· = 0) then 0
  else 2 + (witLens.map (fun l => if l = 0 then 1 else 1 + varIntLen l + l)).sum

/-! ### main pool primitives -/

/-- `addTransaction`: pool entry plus one spend-index entry per input (Go map assignment overwrites). -/
def setSpent (sp : List (OutPoint × TxAbs)) (x : OutPoint) (t : TxAbs) : List (OutPoint × TxAbs) :=
  (x, t) :: sp.filter (fun p => p.1 ≠ x)

def addTx (s : Pool) (t : TxAbs) (height : Nat) : Pool :=
  { s with pool := ⟨t, height, true⟩ :: s.pool.filter (fun e => e.tx.id ≠ t.id),
           spent := t.ins.foldl (fun sp x => setSpent sp x t) s.spent }

/-- the "Remove the transaction if needed" part of `removeTransaction`. -/
def removeOne (s : Pool) (id : Nat) : Pool :=
  match s.findTx id with
  | none => s
  | some t => { s with pool := s.pool.filter (fun e => e.tx.id ≠ id),
                       spent := s.spent.filter (fun p => p.1 ∉ t.ins) }

/-- `removeTransaction(tx, true)`: depth-first over the spend index, then the transaction itself.
`fuel` bounds the recursion depth (a chain of redeemers has distinct pooled members). -/
def removeRec : Nat → Pool → Nat → Nat → Pool
  | 0, s, _, _ => s
  | f + 1, s, id, nOuts =>
    let s1 := (List.range nOuts).foldl (fun s i =>
      match s.spender ⟨id, i⟩ with
      | some r => removeRec f s r.id r.nOuts
      | none => s) s
    removeOne s1 id

def fuelOf (s : Pool) : Nat := s.pool.length + 1

def removeTransaction (s : Pool) (t : TxAbs) (redeemers : Bool) : Pool :=
  if redeemers then removeRec (fuelOf s) s t.id t.nOuts else removeOne s t.id

/-- `RemoveDoubleSpends`. -/
def removeDoubleSpends (s : Pool) (t : TxAbs) : Pool :=
  t.ins.foldl (fun s x =>
    match s.spender x with
    | some r => if r.id ≠ t.id then removeRec (fuelOf s) s r.id r.nOuts else s
    | none => s) s

/-! ### orphan pool primitives -/

def removeOrphanOne (s : Pool) (id : Nat) : Pool :=
  { s with orphans := s.orphans.filter (fun o => o.1.id ≠ id),
           byPrev := s.byPrev.filter (fun p => p.2.id ≠ id) }

def orphansSpending (s : Pool) (x : OutPoint) : List TxAbs :=
  (s.byPrev.filter (fun p => p.1 = x)).map (·.2)

/-- `removeOrphan(tx, removeRedeemers)`; nothing happens when `tx` is not an orphan. -/
def removeOrphanRec : Nat → Pool → Nat → Nat → Pool
  | 0, s, _, _ => s
  | f + 1, s, id, nOuts =>
    if !s.inOrphans id then s else
    let s0 := { s with byPrev := s.byPrev.filter (fun p => p.2.id ≠ id) }
    let s1 := (List.range nOuts).foldl (fun s i =>
      (orphansSpending s ⟨id, i⟩).foldl (fun s o => removeOrphanRec f s o.id o.nOuts) s) s0
    removeOrphanOne s1 id

def removeOrphan (s : Pool) (t : TxAbs) (redeemers : Bool) : Pool :=
  if !s.inOrphans t.id then s
  else if redeemers then removeOrphanRec (s.orphans.length + 1) s t.id t.nOuts
  else removeOrphanOne s t.id

/-- `removeOrphanDoubleSpends`. -/
def removeOrphanDoubleSpends (s : Pool) (t : TxAbs) : Pool :=
  t.ins.foldl (fun s x =>
    (orphansSpending s x).foldl (fun s o => removeOrphan s o true) s) s

/-- `limitNumOrphans` (expiry not modelled) followed by the insertion of `addOrphan`.
`evict` names the orphan Go's map iteration happened to visit first. -/
def addOrphan (pol : Policy) (s : Pool) (t : TxAbs) (tag : Nat) (evict : Nat) : Pool :=
  if pol.maxOrphans ≤ 0 then s else
  let s1 :=
    if (s.orphans.length : Int) + 1 ≤ pol.maxOrphans then s
    else match s.orphans with
      | [] => s
      | o :: rest =>
        if s.inOrphans evict then removeOrphanOne s evict
        else removeOrphanOne s (rest.foldl (fun m x => min m x.1.id) o.1.id)
  { s1 with orphans := (t, tag) :: s1.orphans.filter (fun o => o.1.id ≠ t.id),
            byPrev := t.ins.map (fun x => (x, t)) ++ s1.byPrev.filter (fun p => p.2.id ≠ t.id) }

/-! ### acceptance -/

inductive Rej | dup | nonstd | invalid | lowfee
deriving DecidableEq, Repr

inductive CheckRes
  | err (r : Rej)
  | missing (parents : List Nat)
  | ok (conflicts : List TxAbs)
deriving Repr

/-- `signalsReplacement` (explicit or inherited through pooled ancestors). -/
def signalsReplacement : Nat → Pool → TxAbs → Bool
  | 0, _, _ => false
  | f + 1, s, t =>
    t.seqs.any (fun q => q ≤ maxRBFSequence) ||
    t.ins.any (fun x => match s.findTx x.txid with
      | some p => signalsReplacement f s p
      | none => false)

/-- `checkPoolDoubleSpend`: `none` = rejected, `some isReplacement` otherwise. -/
def checkPoolDoubleSpend (pol : Policy) (s : Pool) (t : TxAbs) : Option Bool :=
  let conflicts := t.ins.filterMap s.spender
  if conflicts.any (fun c => pol.rejectReplacement || !signalsReplacement (fuelOf s) s c) then none
  else some (!conflicts.isEmpty)

def insertTx (l : List TxAbs) (t : TxAbs) : List TxAbs :=
  if l.any (fun u => u.id = t.id) then l else l ++ [t]

def unionTx (l m : List TxAbs) : List TxAbs := m.foldl insertTx l

/-- `txDescendants`. -/
def txDescendants : Nat → Pool → TxAbs → List TxAbs
  | 0, _, _ => []
  | f + 1, s, t =>
    (List.range t.nOuts).foldl (fun acc i =>
      match s.spender ⟨t.id, i⟩ with
      | some d => unionTx (insertTx acc d) (txDescendants f s d)
      | none => acc) []

/-- `txConflicts`. -/
def txConflicts (s : Pool) (t : TxAbs) : List TxAbs :=
  t.ins.foldl (fun acc x =>
    match s.spender x with
    | some c => unionTx (insertTx acc c) (txDescendants (fuelOf s) s c)
    | none => acc) []

/-- `txAncestors`. -/
def txAncestors : Nat → Pool → TxAbs → List TxAbs
  | 0, _, _ => []
  | f + 1, s, t =>
    t.ins.foldl (fun acc x =>
      match s.findTx x.txid with
      | some p => unionTx (insertTx acc p) (txAncestors f s p)
      | none => acc) []

def sumFees (l : List TxAbs) : Nat := (l.map (·.fee)).sum

/-- `validateReplacement`. -/
def validateReplacement (pol : Policy) (s : Pool) (t : TxAbs) : Except Rej (List TxAbs) :=
  let conflicts := txConflicts s t
  if conflicts.length > maxReplacementEvictions then .error .nonstd
  else if (txAncestors (fuelOf s) s t).any (fun a => conflicts.any (fun c => c.id = a.id)) then .error .invalid
  else if conflicts.any (fun c => feeRate t ≤ feeRate c) then .error .lowfee
  else if t.fee < sumFees conflicts + minRelayFeeFor t.vsize pol.minRelayFee then .error .lowfee
  else
    let parents := conflicts.flatMap (fun c => c.ins.map (·.txid))
    if t.ins.any (fun x => !parents.contains x.txid && s.inPool x.txid) then .error .invalid
    else .ok conflicts

/-- `fetchInputUtxos` + the orphan test: is the referenced output present in the chain's unspent set or
created by a pooled transaction. -/
def available (c : Chain) (s : Pool) (x : OutPoint) : Bool :=
  c.has x || (match s.findTx x.txid with
    | some p => x.idx < p.nOuts
    | none => false)

/-- median time past of the chain when the block at height `h` was its tip (`h ≥ height`: the tip's) -/
def mtpAt (c : Chain) (h : Nat) : Nat :=
  if c.height ≤ h then c.mtp
  else match c.stack.drop (c.height - h - 1) with
    | r :: _ => r.prevMtp
    | [] => 0

/-- one input as BIP68 sees it (`calcSequenceLock` with `mempool = true`): an output of the chain counts from
its block, an unconfirmed one (`UnminedHeight`) from the next block; the clock of a time-based lock is the
median time past of the block before that one -/
def seqInput (c : Chain) (x : OutPoint) (q : Nat) : C13.Spec.SeqInput :=
  match c.find x with
  | some u => ⟨q, u.height, mtpAt c (u.height - 1)⟩
  | none => ⟨q, c.height + 1, mtpAt c c.height⟩

def seqInputs (c : Chain) (t : TxAbs) : List C13.Spec.SeqInput :=
  (t.ins.zip t.seqs).map (fun p => seqInput c p.1 p.2)

/-- `CalcSequenceLock` + `SequenceLockActive` for the next block, by the BIP68 definitions of C13's Spec -/
def seqLocksOk (c : Chain) (t : TxAbs) : Bool :=
  let l := C13.Spec.sequenceLocks (decide (2 ≤ t.version)) (seqInputs c t)
  C13.Spec.locksSatisfied l.1 l.2 (c.height + 1) c.mtp

def immature (c : Chain) (x : OutPoint) : Bool :=
  c.utxo.any (fun u => u.op = x && u.cb && (c.height + 1 - u.height < c.maturity))

/-- `mining.CalcPriority` compared with `MinHighPriority`: Σ amount·age over the inputs found in the chain (an
unconfirmed input has age 0) divided by the discounted size.  The float64 comparison `priority > min` is the
integer comparison below: the sum and the products are exact in float64 (< 2^53), and a quotient above the
threshold is above it by at least 1/size, far more than one ulp. -/
def inputValueAge (c : Chain) (t : TxAbs) : Nat :=
  ((t.ins.zip t.inVals).map (fun p => match c.find p.1 with
    | some u => p.2 * (c.height + 1 - u.height)
    | none => 0)).sum

def priorityHigh (pol : Policy) (c : Chain) (t : TxAbs) : Bool :=
  decide (0 < t.prioSize ∧ pol.minHighPrio * t.prioSize < inputValueAge c t)

/-- `validateRelayFeeMet` (rate limiter abstracted to `freeRelay`). -/
def relayFeeMet (pol : Policy) (c : Chain) (t : TxAbs) (isNew rateLimit : Bool) : Bool :=
  let minFee := minRelayFeeFor t.vsize pol.minRelayFee
  if t.vsize ≥ pol.blockPrioritySize - 1000 ∧ t.fee < minFee then false
  else if t.fee ≥ minFee then true
  else if !isNew && !rateLimit then true
  else if isNew && !pol.disablePriority && !priorityHigh pol c t then false
  else pol.freeRelay

/-- tail of `checkMempoolAcceptance`: replacement rules, then script verification. -/
def checkTail (pol : Policy) (s : Pool) (t : TxAbs) (isRepl : Bool) : CheckRes :=
  if isRepl then
    match validateReplacement pol s t with
    | .error r => .err r
    | .ok conflicts => if !t.scriptsOk then .err .invalid else .ok conflicts
  else if !t.scriptsOk then .err .invalid else .ok []

/-- middle of `checkMempoolAcceptance`: `CheckTransactionInputs`, standardness, sequence locks,
sigop cost, relay fee. -/
def checkInputs (pol : Policy) (c : Chain) (s : Pool) (t : TxAbs) (isNew rateLimit isRepl : Bool) : CheckRes :=
  if t.ins.any (immature c) || !t.valuesOk then .err .invalid
  else if !pol.acceptNonStd && !t.std then .err .nonstd
  else if !seqLocksOk c t then .err .nonstd
  else if !t.sigOk then .err .nonstd
  else if !relayFeeMet pol c t isNew rateLimit then .err .lowfee
  else checkTail pol s t isRepl

/-- after `fetchInputUtxos`: already-in-chain test and the orphan test. -/
def checkFetched (pol : Policy) (c : Chain) (s : Pool) (t : TxAbs) (isNew rateLimit isRepl : Bool) : CheckRes :=
  if (List.range t.nOuts).any (fun i => c.has ⟨t.id, i⟩) then .err .dup
  else if !(t.ins.filter (fun x => !available c s x)).isEmpty then
    .missing ((t.ins.filter (fun x => !available c s x)).map (·.txid))
  else checkInputs pol c s t isNew rateLimit isRepl

/-- `checkMempoolAcceptance`, in the order of the code (finality first: fix of F-C10-b). -/
def checkAccept (pol : Policy) (c : Chain) (s : Pool) (t : TxAbs)
    (isNew rateLimit rejectDupOrphans : Bool) : CheckRes :=
  if s.inPool t.id || (rejectDupOrphans && s.inOrphans t.id) then .err .dup
  else if t.ssize < pol.minStdSize then .err .nonstd
  else if !t.sane || !decide t.ins.Nodup then .err .invalid
  else if t.coinbase then .err .invalid
  else if !isFinal t (c.height + 1) c.mtp then .err .nonstd
  else match checkPoolDoubleSpend pol s t with
  | none => .err .dup
  | some isRepl => checkFetched pol c s t isNew rateLimit isRepl

inductive AcceptRes
  | err (r : Rej)
  | missing (parents : List Nat)
  | ok
deriving Repr

/-- `maybeAcceptTransaction`. -/
def maybeAccept (pol : Policy) (c : Chain) (s : Pool) (t : TxAbs)
    (isNew rateLimit rejectDupOrphans : Bool) : Pool × AcceptRes :=
  match checkAccept pol c s t isNew rateLimit rejectDupOrphans with
  | .err r => (s, .err r)
  | .missing ps => (s, .missing ps)
  | .ok conflicts =>
    let s1 := conflicts.foldl (fun s cf => removeOne s cf.id) s
    (addTx s1 t c.height, .ok)

/-! ### processOrphans -/

/-- the orphans redeeming `x`, those named by `prio` first (stands for Go's map order). -/
def candidates (s : Pool) (x : OutPoint) (prio : List Nat) : List TxAbs :=
  let cs := orphansSpending s x
  (prio.filterMap (fun id => cs.find? (fun o => o.id = id))) ++ cs.filter (fun o => !prio.contains o.id)

/-- the inner `for _, tx := range orphans` loop. -/
def tryCandidates (pol : Policy) (c : Chain) : Pool → List TxAbs → Pool × Option TxAbs
  | s, [] => (s, none)
  | s, o :: rest =>
    match maybeAccept pol c s o true true false with
    | (s', .err _) => (removeOrphan s' o true, none)
    | (s', .missing _) => tryCandidates pol c s' rest
    | (s', .ok) => (removeOrphan s' o false, some o)

def processItem (pol : Policy) (c : Chain) (prio : List Nat) (s : Pool) (item : TxAbs) : Pool × List TxAbs :=
  (List.range item.nOuts).foldl (fun (acc : Pool × List TxAbs) i =>
    match tryCandidates pol c acc.1 (candidates acc.1 ⟨item.id, i⟩ prio) with
    | (s', some o) => (s', acc.2 ++ [o])
    | (s', none) => (s', acc.2)) (s, [])

def processLoop (pol : Policy) (c : Chain) (prio : List Nat) : Nat → Pool → List TxAbs → List TxAbs → Pool × List TxAbs
  | 0, s, _, acc => (s, acc)
  | _ + 1, s, [], acc => (s, acc)
  | f + 1, s, item :: q, acc =>
    let r := processItem pol c prio s item
    processLoop pol c prio f r.1 (q ++ r.2) (acc ++ r.2)

/-- `processOrphans`. -/
def processOrphans (pol : Policy) (c : Chain) (s : Pool) (t : TxAbs) (prio : List Nat) : Pool × List TxAbs :=
  let r := processLoop pol c prio (s.orphans.length + 2) s [t] []
  let s1 := removeOrphanDoubleSpends r.1 t
  (r.2.foldl removeOrphanDoubleSpends s1, r.2)

/-! ### results and public operations -/

inductive Result
  | none
  | err (r : Rej)
  | orphan                           -- ProcessTransaction: (nil, nil)
  | missing (parents : List Nat)
  | accepted (ids : List Nat)
  | checked (fee vsize : Nat) (conflicts : List Nat)
  | badBlock
deriving Repr

/-- `ProcessTransaction`. -/
def processTransaction (pol : Policy) (c : Chain) (s : Pool) (t : TxAbs) (allowOrphan rateLimit : Bool)
    (tag evict : Nat) (prio : List Nat) : Pool × Result :=
  match maybeAccept pol c s t true rateLimit true with
  | (_, .err r) => (s, .err r)
  | (s1, .ok) =>
    let r := processOrphans pol c s1 t prio
    (r.1, .accepted (t.id :: r.2.map (·.id)))
  | (_, .missing _) =>
    if !allowOrphan then (s, .err .dup)
    else if t.size > pol.maxOrphanSize then (s, .err .nonstd)
    else (addOrphan pol s t tag evict, .orphan)

/-! ### chain view updates -/

def outsOf (h : Nat) (cb : Bool) (t : TxAbs) : List Utxo :=
  (List.range t.nOuts).map (fun i => ⟨⟨t.id, i⟩, h, cb⟩)

def applyTx (h : Nat) (cb : Bool) (u : List Utxo) (t : TxAbs) : List Utxo :=
  (u.filter (fun e => e.op ∉ t.ins)) ++ outsOf h cb t

def blockTxsValid : List Utxo → List TxAbs → Bool
  | _, [] => true
  | u, t :: rest =>
    decide t.ins.Nodup && t.ins.all (fun x => u.any (fun e => e.op = x)) && !t.coinbase &&
    blockTxsValid (applyTx 0 false u t) rest

def isOutputOf (x : OutPoint) (t : TxAbs) : Bool := x.txid = t.id && x.idx < t.nOuts

def Chain.connect (c : Chain) (b : Block) : Chain :=
  let h := c.height + 1
  let spentIns := b.txs.flatMap (·.ins)
  let u1 := b.txs.foldl (applyTx h false) c.utxo
  let undo := c.utxo.filter (fun e => e.op ∈ spentIns)
  { c with utxo := u1 ++ outsOf h true b.cb, height := h, mtp := b.mtp,
           stack := ⟨b, undo, c.mtp⟩ :: c.stack }

def Chain.disconnect (c : Chain) : Option (Chain × Block) :=
  match c.stack with
  | [] => none
  | r :: rest =>
    let u := (c.utxo.filter (fun e => !(r.blk.cb :: r.blk.txs).any (isOutputOf e.op))) ++ r.undo
    some ({ c with utxo := u, height := c.height - 1, mtp := r.prevMtp, stack := rest }, r.blk)

/-- the `NTBlockConnected` branch, per transaction. -/
def connectTx (pol : Policy) (c : Chain) (prio : List Nat) (s : Pool) (t : TxAbs) : Pool :=
  let s := removeTransaction s t false
  let s := removeDoubleSpends s t
  let s := removeOrphan s t false
  (processOrphans pol c s t prio).1

/-- the `NTBlockDisconnected` branch, per transaction (after the fix of F-C10-c: a transaction that
comes back as an orphan is treated like a rejected one). -/
def disconnectTx (pol : Policy) (c : Chain) (s : Pool) (t : TxAbs) : Pool :=
  match maybeAccept pol c s t false false true with
  | (s', .ok) => s'
  | (s', _) => removeTransaction s' t true

def markStale (s : Pool) : Pool := { s with pool := s.pool.map (fun e => { e with fresh := false }) }

/-- ghost: pooled transactions that spend an input of a block being connected lose their `fresh` flag before
the block's transactions are handled (every one of them is removed while they are handled) -/
def staleSpenders (b : Block) (s : Pool) : Pool :=
  { s with pool := s.pool.map (fun e =>
      if e.tx.ins.any (fun x => b.txs.any (fun T => decide (x ∈ T.ins))) then { e with fresh := false } else e) }

structure State where
  chain : Chain
  pool : Pool
deriving Repr

inductive Op
  | process (t : TxAbs) (allowOrphan rateLimit : Bool) (tag evict : Nat) (prio : List Nat)
  | maybeAccept (t : TxAbs) (isNew rateLimit : Bool)
  | check (t : TxAbs)
  | remove (t : TxAbs) (redeemers : Bool)
  | removeDoubleSpends (t : TxAbs)
  | processOrphans (t : TxAbs) (prio : List Nat)
  | removeOrphan (t : TxAbs)
  | removeOrphansByTag (tag : Nat)
  | connect (b : Block) (prio : List Nat)
  | disconnect
deriving Repr

def step (pol : Policy) (st : State) : Op → State × Result
  | .process t ao rl tag ev prio =>
    let r := processTransaction pol st.chain st.pool t ao rl tag ev prio
    ({ st with pool := r.1 }, r.2)
  | .maybeAccept t isNew rl =>
    match maybeAccept pol st.chain st.pool t isNew rl true with
    | (s, .err r) => ({ st with pool := s }, .err r)
    | (s, .missing ps) => ({ st with pool := s }, .missing ps)
    | (s, .ok) => ({ st with pool := s }, .accepted [t.id])
  | .check t =>
    match checkAccept pol st.chain st.pool t true true true with
    | .err r => (st, .err r)
    | .missing ps => (st, .missing ps)
    | .ok cs => (st, .checked t.fee t.vsize (cs.map (·.id)))
  | .remove t red =>
    let s := removeTransaction st.pool t red
    -- ghost: a stand-alone RemoveTransaction(tx, false) of a pooled transaction that has pooled
    -- redeemers orphans them on purpose (the caller asserts tx was mined); no Minable claim after that
    let orphaned := !red && st.pool.inPool t.id && (List.range t.nOuts).any (fun i => (s.spender ⟨t.id, i⟩).isSome)
    ({ st with pool := if orphaned then markStale s else s }, .none)
  | .removeDoubleSpends t => ({ st with pool := removeDoubleSpends st.pool t }, .none)
  | .processOrphans t prio =>
    let r := processOrphans pol st.chain st.pool t prio
    ({ st with pool := r.1 }, .accepted (r.2.map (·.id)))
  | .removeOrphan t => ({ st with pool := removeOrphan st.pool t false }, .none)
  | .removeOrphansByTag tag =>
    let tagged := (st.pool.orphans.filter (fun o => o.2 = tag)).map (·.1)
    ({ st with pool := tagged.foldl (fun s o => removeOrphan s o true) st.pool }, .none)
  | .connect b prio =>
    if !blockTxsValid st.chain.utxo b.txs then (st, .badBlock) else
    let c := st.chain.connect b
    let s0 := staleSpenders b (if b.mtp < st.chain.mtp then markStale st.pool else st.pool)
    (⟨c, b.txs.foldl (connectTx pol c prio) s0⟩, .none)
  | .disconnect =>
    match st.chain.disconnect with
    | none => (st, .badBlock)
    | some (c, b) =>
      let s := b.txs.foldl (disconnectTx pol c) (markStale st.pool)
      -- fix of F-C10-a: the coinbase outputs are gone, so are their pooled spenders
      (⟨c, removeTransaction s b.cb true⟩, .none)

def run (pol : Policy) : State → List Op → State × List Result
  | st, [] => (st, [])
  | st, op :: ops =>
    let r := step pol st op
    let rest := run pol r.1 ops
    (rest.1, r.2 :: rest.2)

def State.init (maturity : Nat) (mtp : Nat) : State :=
  ⟨⟨[], 0, mtp, maturity, []⟩, Pool.empty⟩

end BV.C10
