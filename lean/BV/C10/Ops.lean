/-
C10 — helper lemmas, part 3: orphan-pool operations do not touch the main pool; every operation keeps
`PoolOk`.
-/
import BV.C10.Accept
namespace BV.C10.Lemmas
open BV.C10 BV.C10.Spec

def SameMain (a b : Pool) : Prop := a.pool = b.pool ∧ a.spent = b.spent

theorem SameMain.refl (a : Pool) : SameMain a a := ⟨rfl, rfl⟩
theorem SameMain.trans {a b c : Pool} (h1 : SameMain a b) (h2 : SameMain b c) : SameMain a c :=
  ⟨h1.1.trans h2.1, h1.2.trans h2.2⟩

theorem poolOk_of_same {a b : Pool} (h : SameMain a b) (ok : PoolOk b) : PoolOk a := by
  obtain ⟨h1, h2⟩ := h
  have ht : a.txs = b.txs := by simp [Pool.txs, h1]
  refine ⟨?_, ?_, ?_⟩
  · unfold IdFun; rw [ht]; exact ok.idFun
  · unfold NoDoubleSpend; rw [ht]; exact ok.nds
  · unfold IndexAgrees; rw [ht, h2]; exact ok.idx

theorem removeOrphanOne_same (s : Pool) (id : Nat) : SameMain (removeOrphanOne s id) s := ⟨rfl, rfl⟩

theorem removeOrphanRec_same : ∀ (f : Nat) (s : Pool) (id n : Nat), SameMain (removeOrphanRec f s id n) s
  | 0, s, _, _ => by simp [removeOrphanRec, SameMain.refl]
  | f + 1, s, id, n => by
    unfold removeOrphanRec
    split
    · exact SameMain.refl s
    · simp only
      apply SameMain.trans (removeOrphanOne_same _ _)
      refine foldl_inv (fun b => SameMain b s) _ ?_ _ _ (by exact ⟨rfl, rfl⟩)
      intro b a hb
      apply foldl_inv (fun b => SameMain b s) _ _ _ _ hb
      intro b' o hb'
      exact SameMain.trans (removeOrphanRec_same f b' o.id o.nOuts) hb'

theorem removeOrphan_same (s : Pool) (t : TxAbs) (red : Bool) : SameMain (removeOrphan s t red) s := by
  unfold removeOrphan
  split
  · exact SameMain.refl s
  · split
    · exact removeOrphanRec_same _ s t.id t.nOuts
    · exact removeOrphanOne_same s t.id

theorem removeOrphanDoubleSpends_same (s : Pool) (t : TxAbs) : SameMain (removeOrphanDoubleSpends s t) s := by
  unfold removeOrphanDoubleSpends
  apply foldl_inv (fun b => SameMain b s) _ _ _ _ (SameMain.refl s)
  intro b a hb
  apply foldl_inv (fun b => SameMain b s) _ _ _ _ hb
  intro b' o hb'
  exact SameMain.trans (removeOrphan_same b' o true) hb'

theorem addOrphan_same (pol : Policy) (s : Pool) (t : TxAbs) (tag ev : Nat) :
    SameMain (addOrphan pol s t tag ev) s := by
  unfold addOrphan
  split
  · exact SameMain.refl s
  · simp only
    split
    · exact ⟨rfl, rfl⟩
    · split
      · exact ⟨rfl, rfl⟩
      · split <;> exact ⟨rfl, rfl⟩

/-! ### processOrphans keeps PoolOk -/

theorem tryCandidates_ok (pol : Policy) (c : Chain) : ∀ (l : List TxAbs) (s : Pool), PoolOk s →
    PoolOk (tryCandidates pol c s l).1
  | [], s, ok => by simpa [tryCandidates] using ok
  | o :: rest, s, ok => by
    unfold tryCandidates
    have h := @maybeAccept_ok pol c s o true true false ok
    split
    · rename_i s' _ heq
      rw [heq] at h
      exact poolOk_of_same (removeOrphan_same s' o true) h
    · rename_i s' _ heq
      rw [heq] at h
      exact tryCandidates_ok pol c rest s' h
    · rename_i s' heq
      rw [heq] at h
      exact poolOk_of_same (removeOrphan_same s' o false) h

theorem processItem_ok (pol : Policy) (c : Chain) (prio : List Nat) (s : Pool) (item : TxAbs) (ok : PoolOk s) :
    PoolOk (processItem pol c prio s item).1 := by
  unfold processItem
  apply foldl_inv (fun (acc : Pool × List TxAbs) => PoolOk acc.1) _ _ _ _ ok
  intro b a hb
  have := tryCandidates_ok pol c (candidates b.1 ⟨item.id, a⟩ prio) b.1 hb
  split
  · rename_i s' o heq; rw [heq] at this; exact this
  · rename_i s' heq; rw [heq] at this; exact this

theorem processLoop_ok (pol : Policy) (c : Chain) (prio : List Nat) : ∀ (f : Nat) (s : Pool) (q acc : List TxAbs),
    PoolOk s → PoolOk (processLoop pol c prio f s q acc).1
  | 0, s, _, _, ok => by simpa [processLoop] using ok
  | f + 1, s, [], _, ok => by simpa [processLoop] using ok
  | f + 1, s, item :: q, acc, ok => by
    unfold processLoop
    exact processLoop_ok pol c prio f _ _ _ (processItem_ok pol c prio s item ok)

theorem processOrphans_ok (pol : Policy) (c : Chain) (s : Pool) (t : TxAbs) (prio : List Nat) (ok : PoolOk s) :
    PoolOk (processOrphans pol c s t prio).1 := by
  unfold processOrphans
  simp only
  apply foldl_inv PoolOk _ _ _ _
  · exact poolOk_of_same (removeOrphanDoubleSpends_same _ t) (processLoop_ok pol c prio _ s [t] [] ok)
  · intro b a hb
    exact poolOk_of_same (removeOrphanDoubleSpends_same b a) hb

theorem processTransaction_ok (pol : Policy) (c : Chain) (s : Pool) (t : TxAbs) (ao rl : Bool) (tag ev : Nat)
    (prio : List Nat) (ok : PoolOk s) : PoolOk (processTransaction pol c s t ao rl tag ev prio).1 := by
  unfold processTransaction
  have h := @maybeAccept_ok pol c s t true rl true ok
  split
  · exact ok
  · rename_i s1 heq
    rw [heq] at h
    exact processOrphans_ok pol c s1 t prio h
  · split
    · exact ok
    · split
      · exact ok
      · exact poolOk_of_same (addOrphan_same pol s t tag ev) ok

theorem markStale_ok {s : Pool} (ok : PoolOk s) : PoolOk (markStale s) := by
  have ht : (markStale s).txs = s.txs := by
    simp [markStale, Pool.txs, List.map_map, Function.comp_def]
  refine ⟨?_, ?_, ?_⟩
  · unfold IdFun; rw [ht]; exact ok.idFun
  · unfold NoDoubleSpend; rw [ht]; exact ok.nds
  · unfold IndexAgrees; rw [ht]; exact ok.idx

theorem staleSpenders_txs (b : Block) (s : Pool) : (staleSpenders b s).txs = s.txs := by
  unfold staleSpenders Pool.txs
  simp only [List.map_map]
  apply List.map_congr_left
  intro e _
  simp only [Function.comp]
  split <;> rfl

theorem staleSpenders_ok {s : Pool} (b : Block) (ok : PoolOk s) : PoolOk (staleSpenders b s) := by
  have ht := staleSpenders_txs b s
  refine ⟨?_, ?_, ?_⟩
  · unfold IdFun; rw [ht]; exact ok.idFun
  · unfold NoDoubleSpend; rw [ht]; exact ok.nds
  · unfold IndexAgrees; rw [ht]; exact ok.idx

theorem connectTx_ok (pol : Policy) (c : Chain) (prio : List Nat) (s : Pool) (t : TxAbs) (ok : PoolOk s) :
    PoolOk (connectTx pol c prio s t) := by
  unfold connectTx
  apply processOrphans_ok
  apply poolOk_of_same (removeOrphan_same _ t false)
  apply removeDoubleSpends_ok
  exact removeTransaction_ok ok t false

theorem disconnectTx_ok (pol : Policy) (c : Chain) (s : Pool) (t : TxAbs) (ok : PoolOk s) :
    PoolOk (disconnectTx pol c s t) := by
  unfold disconnectTx
  have h := @maybeAccept_ok pol c s t false false true ok
  cases hm : maybeAccept pol c s t false false true with
  | mk s' r =>
    rw [hm] at h
    cases r <;> simp only <;> first | exact h | exact removeTransaction_ok h t true

/-- every operation keeps the main-pool invariants -/
theorem step_ok (pol : Policy) (st : State) (op : Op) (ok : PoolOk st.pool) : PoolOk (step pol st op).1.pool := by
  cases op with
  | process t ao rl tag ev prio => exact processTransaction_ok pol st.chain st.pool t ao rl tag ev prio ok
  | maybeAccept t isNew rl =>
    have h := @maybeAccept_ok pol st.chain st.pool t isNew rl true ok
    simp only [step]
    split <;> (rename_i s _ heq; rw [heq] at h; exact h)
  | check t => simp only [step]; split <;> exact ok
  | remove t red =>
    simp only [step]
    split
    · exact markStale_ok (removeTransaction_ok ok t red)
    · exact removeTransaction_ok ok t red
  | removeDoubleSpends t => exact removeDoubleSpends_ok ok t
  | processOrphans t prio => exact processOrphans_ok pol st.chain st.pool t prio ok
  | removeOrphan t => exact poolOk_of_same (removeOrphan_same st.pool t false) ok
  | removeOrphansByTag tag =>
    simp only [step]
    apply foldl_inv PoolOk _ _ _ _ ok
    intro b a hb
    exact poolOk_of_same (removeOrphan_same b a true) hb
  | connect b prio =>
    simp only [step]
    split
    · exact ok
    · simp only
      apply foldl_inv PoolOk _ _ _ _
      · apply staleSpenders_ok
        split
        · exact markStale_ok ok
        · exact ok
      · intro b' a hb; exact connectTx_ok pol _ prio b' a hb
  | disconnect =>
    simp only [step]
    split
    · exact ok
    · simp only
      apply removeTransaction_ok
      apply foldl_inv PoolOk _ _ _ _ (markStale_ok ok)
      intro b' a hb; exact disconnectTx_ok pol _ b' a hb

theorem run_ok (pol : Policy) : ∀ (ops : List Op) (st : State), PoolOk st.pool → PoolOk (run pol st ops).1.pool
  | [], st, ok => by simpa [run] using ok
  | op :: ops, st, ok => by
    simp only [run]
    exact run_ok pol ops _ (step_ok pol st op ok)

end BV.C10.Lemmas
