/-
C10 property theorems: "the mempool is always a conflict-free, minable, self-consistent set".
Only statements of the property (and non-vacuity examples) live here; helper lemmas are in
Lemmas / Accept / Ops / Laws.  The state machine is `BV.C10.step` (Model.lean): one public mempool
call or one block connect / disconnect notification handled by netsync.
-/
import BV.C10.Rbf
import BV.C10.ComposeUtxo
import BV.C10.ComposeTemplate
import BV.C10.Laws2
import BV.C10.Undo
import BV.Generated.C10
namespace BV.C10
open Spec Lemmas

/-! ### NoDoubleSpend and IndexAgrees: invariants of every history -/

/-- inductive step, every operation: ids name one transaction, no two pooled transactions spend the
same output, and the spend index is exactly the set of pooled inputs -/
theorem mainPool_step (pol : Policy) (st : State) (op : Op)
    (h : IdFun st.pool ∧ NoDoubleSpend st.pool ∧ IndexAgrees st.pool) :
    IdFun (step pol st op).1.pool ∧ NoDoubleSpend (step pol st op).1.pool ∧ IndexAgrees (step pol st op).1.pool :=
  let r := step_ok pol st op ⟨h.1, h.2.1, h.2.2⟩
  ⟨r.idFun, r.nds, r.idx⟩

/-- after any sequence of submissions, replacements, orphan arrivals, removals, block connections and
disconnections no two pooled transactions spend the same output -/
theorem noDoubleSpend_always (pol : Policy) (maturity mtp0 : Nat) (ops : List Op) :
    NoDoubleSpend (run pol (State.init maturity mtp0) ops).1.pool :=
  (run_ok pol ops _ poolOk_empty).nds

/-- … and the spend index agrees with the pool -/
theorem indexAgrees_always (pol : Policy) (maturity mtp0 : Nat) (ops : List Op) :
    IndexAgrees (run pol (State.init maturity mtp0) ops).1.pool :=
  (run_ok pol ops _ poolOk_empty).idx

/-- `CheckSpend` (first match in the index) returns the unique pooled spender -/
theorem checkSpend_correct (pol : Policy) (maturity mtp0 : Nat) (ops : List Op) (x : OutPoint) (t : TxAbs) :
    (run pol (State.init maturity mtp0) ops).1.pool.spender x = some t ↔
      (t ∈ (run pol (State.init maturity mtp0) ops).1.pool.txs ∧ x ∈ t.ins) := by
  have ok := run_ok pol ops (State.init maturity mtp0) poolOk_empty
  constructor
  · intro h; exact (ok.idx x t).1 (spender_some h)
  · intro h; exact spender_of_mem ok ((ok.idx x t).2 h)

/-! ### RejectUnchanged -/

/-- a rejected submission leaves the pool (and everything else) unchanged -/
theorem reject_unchanged (pol : Policy) (st : State) (op : Op) (r : Rej)
    (h : (step pol st op).2 = .err r) : (step pol st op).1 = st :=
  step_reject_unchanged pol st op r h

/-- `CheckMempoolAcceptance` never mutates -/
theorem check_unchanged (pol : Policy) (st : State) (t : TxAbs) : (step pol st (.check t)).1 = st :=
  step_check_unchanged pol st t

/-! ### the entry points do what they are asked -/

/-- `MaybeAcceptTransaction` answering "accepted": the transaction is pooled afterwards -/
theorem accepted_is_pooled (pol : Policy) (st : State) (t : TxAbs) (isNew rl : Bool)
    (h : (step pol st (.maybeAccept t isNew rl)).2 = .accepted [t.id]) :
    t ∈ (step pol st (.maybeAccept t isNew rl)).1.pool.txs := by
  simp only [step] at h ⊢
  cases hm : maybeAccept pol st.chain st.pool t isNew rl true with
  | mk s' r =>
    rw [hm] at h
    cases r with
    | err e => simp at h
    | missing ps => simp at h
    | ok => exact maybeAccept_adds hm

/-- `RemoveTransaction` (with or without redeemers): the transaction is not pooled afterwards -/
theorem removed_is_gone (pol : Policy) (st : State) (t : TxAbs) (red : Bool) :
    ∀ u ∈ (step pol st (.remove t red)).1.pool.txs, u.id ≠ t.id := by
  intro u hu
  simp only [step] at hu
  split at hu
  · rw [markStale_txs] at hu; exact removeTransaction_removes st.pool t red u hu
  · exact removeTransaction_removes st.pool t red u hu

/-- `CheckMempoolAcceptance` predicts `MaybeAcceptTransaction(tx, isNew = true, rateLimit = true)`: it reports
success exactly when that call would accept, an error exactly when that call errs (same class), missing
parents exactly when that call reports them -/
theorem check_predicts_accept (pol : Policy) (st : State) (t : TxAbs) :
    (∀ r, (step pol st (.check t)).2 = .err r ↔ (step pol st (.maybeAccept t true true)).2 = .err r) ∧
    (∀ ps, (step pol st (.check t)).2 = .missing ps ↔ (step pol st (.maybeAccept t true true)).2 = .missing ps) ∧
    ((∃ f v cs, (step pol st (.check t)).2 = .checked f v cs) ↔
      (step pol st (.maybeAccept t true true)).2 = .accepted [t.id]) := by
  simp only [step]
  rw [maybeAccept_eq]
  cases hc : checkAccept pol st.chain st.pool t true true true with
  | err e => simp
  | missing ps => simp
  | ok cs => simp

/-! ### ReplacementLaw -/

/-- an accepted replacement pays at least the total fees of everything it evicts plus the relay fee for
its own size, at a strictly higher fee rate than each evicted transaction, evicts at most 100
transactions, and what it evicts is exactly `txConflicts` (pooled spenders of its inputs and their
pooled descendants as computed by the mirrored walk) -/
theorem replacement_law (pol : Policy) (c : Chain) (s : Pool) (t : TxAbs) (isNew rl rdo : Bool)
    (cs : List TxAbs) (h : checkAccept pol c s t isNew rl rdo = .ok cs) (hne : cs ≠ []) :
    cs = txConflicts s t ∧ cs.length ≤ 100 ∧ (∀ e ∈ cs, feeRate e < feeRate t) ∧
    sumFees cs + minRelayFeeFor t.vsize pol.minRelayFee ≤ t.fee ∧
    (maybeAccept pol c s t isNew rl rdo).1 = addTx (removeAll s cs) t c.height ∧
    (∀ u, u ∈ (maybeAccept pol c s t isNew rl rdo).1.txs ↔ u = t ∨ (u ∈ s.txs ∧ ∀ e ∈ cs, u.id ≠ e.id)) := by
  have hf := checkAccept_ok_inv h
  rcases hf.repl with ⟨_, h2⟩ | ⟨_, h2⟩
  · exact absurd h2 hne
  · have rf := validateReplacement_facts h2
    have hm : (maybeAccept pol c s t isNew rl rdo).1 = addTx (removeAll s cs) t c.height := by
      rw [maybeAccept_eq, h]
    refine ⟨rf.conflicts, rf.count, rf.rate, rf.fee, hm, ?_⟩
    intro u
    rw [hm, addTx_txs, removeAll_txs]
    constructor
    · rintro (a | ⟨a, _⟩)
      · exact Or.inl a
      · exact Or.inr a
    · rintro (a | ⟨a, b⟩)
      · exact Or.inl a
      · refine Or.inr ⟨⟨a, b⟩, ?_⟩
        intro e
        have : s.inPool t.id = true := inPool_iff.2 ⟨u, a, e⟩
        rw [hf.notInPool] at this; cases this

/-- every pooled spender of an input of the replacement is evicted -/
theorem replacement_evicts_direct_conflicts (s : Pool) (t : TxAbs) (x : OutPoint) (c : TxAbs)
    (hx : x ∈ t.ins) (hs : s.spender x = some c) : ∃ e ∈ txConflicts s t, e.id = c.id :=
  txConflicts_direct hx hs

/-! ### InputsAvailable: every pooled input is unspent in the chain or created by a pooled transaction

`W` is the universe of transactions of a history: ids are ranks (a transaction only references ids
below its own) and name one transaction — the two properties of txids-as-hashes the pool relies on. -/

/-- inductive step, every operation including block connect and disconnect (the disconnect case holds
because of the fixes of F-C10-a / F-C10-c, which the model mirrors) -/
theorem inputsAvailable_step (W : TxAbs → Prop) (U : Universe W) (pol : Policy) (st : State) (op : Op)
    (g : GoodSt W st) (hop : OpOk W st op) :
    GoodSt W (step pol st op).1 ∧ InputsAvailable (step pol st op).1.chain (step pol st op).1.pool :=
  let r := step_goodSt U pol st op g hop
  ⟨r, inputsAvailable_of_good r.good⟩

/-- after any history that respects `OpOk` every pooled transaction's inputs are unspent in the chain
view or created by another pooled transaction -/
theorem inputsAvailable_always (W : TxAbs → Prop) (U : Universe W) (pol : Policy) (maturity mtp0 : Nat)
    (ops : List Op) (h : RunOk W pol (State.init maturity mtp0) ops) :
    InputsAvailable (run pol (State.init maturity mtp0) ops).1.chain (run pol (State.init maturity mtp0) ops).1.pool :=
  inputsAvailable_of_good (run_goodSt U pol ops _ (goodSt_init W maturity mtp0) h).good

/-- the dependency graph of the pool is acyclic: every pooled transaction is ranked above its parents -/
theorem pool_acyclic (W : TxAbs → Prop) (U : Universe W) (pol : Policy) (maturity mtp0 : Nat)
    (ops : List Op) (h : RunOk W pol (State.init maturity mtp0) ops) :
    PoolRanked (run pol (State.init maturity mtp0) ops).1.pool :=
  (run_goodSt U pol ops _ (goodSt_init W maturity mtp0) h).good.ranked U

/-- the hypotheses are satisfiable: a universe of two transactions (a parent and its child) and a history
over it that submits the child first (orphan), then the parent, connects a block and disconnects it -/
def exA : TxAbs where
  id := 5
  ins := [⟨1, 0⟩]
  seqs := [0xffffffff]
  nOuts := 2
  lockTime := 0
  version := 1
  fee := 1000
  vsize := 100
  ssize := 100
  size := 100
  sane := true
  coinbase := false
  valuesOk := true
  std := true
  sigOk := true
  inVals := [5000000000]
  prioSize := 59
  scriptsOk := true
def exB : TxAbs := { exA with id := 6, ins := [⟨5, 1⟩] }
def exCb (id : Nat) : TxAbs := { exA with id := id, ins := [], seqs := [], coinbase := true }
def exW (t : TxAbs) : Prop := t = exA ∨ t = exB ∨ t = exCb 1 ∨ t = exCb 7

example : Universe exW := by
  refine ⟨?_, ?_⟩
  · rintro t (rfl | rfl | rfl | rfl) x hx <;> simp [exA, exB, exCb] at hx <;> subst hx <;> decide
  · rintro a b (rfl | rfl | rfl | rfl) (rfl | rfl | rfl | rfl) h <;> first | rfl | (exact absurd h (by decide))

def exPol : Policy := ⟨false, false, 100, 100000, 1000, true, true, 65, 50000, 57600000⟩

/-- a history satisfying every hypothesis used below (`RunOkM`, hence `RunOk`) -/
example : RunOkM exW exPol (State.init 1 0)
    [.connect ⟨exCb 1, [], 10⟩ [], .process exB true false 0 0 [], .process exA true false 0 0 [],
     .connect ⟨exCb 7, [exA], 20⟩ [], .disconnect] := by
  refine ⟨⟨Or.inr (Or.inr (Or.inl rfl)), fun _ h => by cases h⟩, ?_, Or.inr (Or.inl rfl), trivial, Or.inl rfl, trivial,
   ⟨Or.inr (Or.inr (Or.inr rfl)), fun T h => by simp at h; subst h; exact Or.inl rfl⟩, ?_, trivial, trivial, trivial⟩
  · intro u hu; simp [State.init, Pool.empty, Pool.txs] at hu
  · show ∀ u ∈ Pool.txs _, ∀ x ∈ TxAbs.ins u, OutPoint.txid x ≠ (exCb 7).id
    decide

/-- removing a transaction together with its redeemers removes a set closed under pooled redeemers:
nothing that stays in the pool spends an output of anything that was removed -/
theorem remove_with_redeemers_closed (W : TxAbs → Prop) (U : Universe W) (c : Chain) (s : Pool) (t : TxAbs)
    (g : Good W c (fun _ => False) s) (ht : W t) :
    ∀ u ∈ (removeTransaction s t true).txs, ∀ q ∈ s.txs, q ∉ (removeTransaction s t true).txs →
      ∀ x ∈ u.ins, ¬ OutputOf x q := by
  have := (remSpec_removeRec_tx U g ht).closed
  unfold removeTransaction; simpa using this

/-- what a replacement evicts is closed under pooled redeemers (conflicts *and their descendants*) -/
theorem replacement_evicts_descendants (W : TxAbs → Prop) (U : Universe W) (c : Chain) (s : Pool) (t : TxAbs)
    (g : Good W c (fun _ => False) s) :
    ∀ m ∈ s.txs, (∃ e ∈ txConflicts s t, e.id = m.id) → ∀ u ∈ s.txs, (∃ x ∈ u.ins, OutputOf x m) →
      ∃ e ∈ txConflicts s t, e.id = u.id :=
  txConflicts_closed g.ok (g.ranked U) t

/-- … and nothing else: every evicted transaction is a pooled spender of an input of the replacement or a
pooled descendant (`Reach`) of one — so the evicted set is exactly the conflicts and their descendants -/
theorem replacement_evicts_only_conflicts_and_descendants (pol : Policy) (maturity mtp0 : Nat) (ops : List Op)
    (t : TxAbs) :
    let s := (run pol (State.init maturity mtp0) ops).1.pool
    ∀ e ∈ txConflicts s t, ∃ x ∈ t.ins, ∃ c, s.spender x = some c ∧ (e = c ∨ Reach s c e) :=
  txConflicts_sound (run_ok pol ops _ poolOk_empty) t

/-- a submission that conflicts with pooled transactions is only accepted when replacements are allowed and
every directly conflicting transaction signals replaceability, explicitly or through a pooled ancestor -/
theorem replacement_requires_signalling (pol : Policy) (c : Chain) (s : Pool) (t : TxAbs) (isNew rl rdo : Bool)
    (cs : List TxAbs) (h : checkAccept pol c s t isNew rl rdo = .ok cs) :
    ∀ x ∈ t.ins, ∀ e, s.spender x = some e →
      pol.rejectReplacement = false ∧ signalsReplacement (fuelOf s) s e = true := by
  have hf := checkAccept_ok_inv h
  rcases hf.repl with ⟨h1, _⟩ | ⟨h1, _⟩ <;> exact checkPoolDoubleSpend_some h1

/-- an accepted replacement spends no new unconfirmed input: every pooled parent of it is also a parent of
something it evicts -/
theorem replacement_no_new_unconfirmed_inputs (pol : Policy) (c : Chain) (s : Pool) (t : TxAbs)
    (isNew rl rdo : Bool) (cs : List TxAbs) (h : checkAccept pol c s t isNew rl rdo = .ok cs) (hne : cs ≠ []) :
    ∀ x ∈ t.ins, s.inPool x.txid = true → ∃ e ∈ cs, ∃ y ∈ e.ins, y.txid = x.txid := by
  have hf := checkAccept_ok_inv h
  rcases hf.repl with ⟨_, h2⟩ | ⟨_, h2⟩
  · exact absurd h2 hne
  · exact validateReplacement_parents h2

/-- an accepted replacement leaves none of the transactions it conflicts with in the pool -/
theorem replacement_evicts_all (pol : Policy) (c : Chain) (s : Pool) (t : TxAbs) (isNew rl rdo : Bool)
    (cs : List TxAbs) (h : checkAccept pol c s t isNew rl rdo = .ok cs) (hne : cs ≠ []) :
    ∀ e ∈ cs, ∀ u ∈ (maybeAccept pol c s t isNew rl rdo).1.txs, u ≠ t → u.id ≠ e.id := by
  intro e he u hu hut
  have := (replacement_law pol c s t isNew rl rdo cs h hne).2.2.2.2.2 u
  rcases this.1 hu with h1 | ⟨_, h2⟩
  · exact absurd h1 hut
  · exact h2 e he

/-! ### OrphanBounds -/

/-- inductive step: orphan storage stays within `MaxOrphanTxs` entries of at most `MaxOrphanTxSize` bytes -/
theorem orphanBounds_step (pol : Policy) (st : State) (op : Op) (h : OrphanBounds pol st.pool) :
    OrphanBounds pol (step pol st op).1.pool := step_bounds pol st op h

theorem orphanBounds_always (pol : Policy) (maturity mtp0 : Nat) (ops : List Op) :
    OrphanBounds pol (run pol (State.init maturity mtp0) ops).1.pool :=
  run_bounds pol ops _ (bounds_init pol maturity mtp0)

/-! ### the orphan index agrees with the orphan pool -/

/-- inductive step: `orphansByPrev = {(in, tx) | tx an orphan, in ∈ tx.ins}` after every operation -/
theorem orphanIndexAgrees_step (pol : Policy) (st : State) (op : Op) (h : OrphanIndexAgrees st.pool) :
    OrphanIndexAgrees (step pol st op).1.pool :=
  (oia_iff _).2 (step_oia pol st op ((oia_iff _).1 h))

theorem orphanIndexAgrees_always (pol : Policy) (maturity mtp0 : Nat) (ops : List Op) :
    OrphanIndexAgrees (run pol (State.init maturity mtp0) ops).1.pool :=
  (oia_iff _).2 (run_oia pol ops _ (oia_init maturity mtp0))

/-! ### Minable -/

/-- admission establishes, against the chain view of that moment, everything a block requires of the
transaction by itself: no duplicate inputs, sanity, value rules, scripts, sequence locks, finality for
the next block (also for AcceptNonStd pools: fix of F-C10-b), coinbase maturity -/
theorem admission_conditions (pol : Policy) (c : Chain) (s : Pool) (t : TxAbs) (isNew rl rdo : Bool)
    (cs : List TxAbs) (h : checkAccept pol c s t isNew rl rdo = .ok cs) : Local c t :=
  local_of_accept h

/-- finality established at admission persists while height and median time do not move backwards -/
theorem finality_monotone (t : TxAbs) (h h' m m' : Nat) (hh : h ≤ h') (hm : m ≤ m')
    (hf : isFinal t h m = true) : isFinal t h' m' = true := isFinal_mono hh hm hf

/-- with the invariants (NoDoubleSpend, acyclicity by ranks, InputsAvailable) the pooled set listed in
ascending id order is a valid block body on the chain view, provided every pooled transaction meets its
admission conditions against that view -/
theorem minable_of_invariants (c : Chain) (s : Pool) (l : List TxAbs)
    (nds : NoDoubleSpend s) (rk : PoolRanked s) (av : InputsAvailable c s)
    (loc : ∀ t ∈ s.txs, Local c t)
    (hl : ∀ t, t ∈ s.txs ↔ t ∈ l) (hs : l.Pairwise (fun a b => a.id < b.id)) : ValidSeq c [] l :=
  validSeq_sorted nds rk av loc l [] (fun t => by rw [hl t]; simp) hs (fun a h => by cases h)

/-- inductive step: pooled transactions whose `fresh` flag is still set (chain height and median time have
not moved backwards since their admission, and no stand-alone RemoveTransaction(tx,false) orphaned
them) still meet their admission conditions after every operation -/
theorem admission_conditions_persist (pol : Policy) (st : State) (op : Op) (h : FL st.chain st.pool)
    (hc : ConnectFresh st op) : FL (step pol st op).1.chain (step pol st op).1.pool :=
  step_fl pol st op h hc

/-- Minable: after any history (respecting `OpOk`, connecting only blocks whose coinbase is new), if chain
height and median time have not moved backwards since the admission of any pooled transaction (all
`fresh`), the pooled set in dependency order (ascending id) is valid in the next block: every input is
unspent in the chain view or created earlier in the list and not spent earlier in the list, no duplicate
inputs, coinbase maturity, finality for next height / MTP, and the per-transaction facts (sanity,
values, scripts, sequence locks) hold.  The per-transaction facts are the harness-supplied fields of
`TxAbs` (BIP68 sequence locks in particular are a context-free bit here). -/
theorem minable_always (W : TxAbs → Prop) (U : Universe W) (pol : Policy) (maturity mtp0 : Nat) (ops : List Op)
    (h : RunOkM W pol (State.init maturity mtp0) ops) (l : List TxAbs) :
    let st := (run pol (State.init maturity mtp0) ops).1
    (∀ e ∈ st.pool.pool, e.fresh = true) → (∀ t, t ∈ st.pool.txs ↔ t ∈ l) →
    l.Pairwise (fun a b => a.id < b.id) → ValidSeq st.chain [] l := by
  intro st hfresh hl hs
  have g := run_goodSt U pol ops _ (goodSt_init W maturity mtp0) (runOk_of_runOkM pol ops _ h)
  have fl := run_fl pol ops _ (fl_init maturity mtp0) h
  apply minable_of_invariants st.chain st.pool l g.good.ok.nds (g.good.ranked U) (inputsAvailable_of_good g.good) _ hl hs
  intro t ht
  obtain ⟨e, he, rfl⟩ := mem_txs.1 ht
  exact fl e he (hfresh e he)

/-! ### composition with C13 (consensus accounting primitives) -/

/-- the finality test used at admission (and in `Local` / `ValidSeq`) is C13's `IsFinalTx` evaluated on the
lock time, the sequences, the next height and the median time past -/
theorem finality_is_c13 (t : TxAbs) (h m : Nat) :
    isFinal t h m = C13.Spec.isFinal t.lockTime t.seqs (h : Int) (m : Int) := isFinal_eq_c13 t h m

/-- the sequence-lock test used at admission is C13's BIP68 `EvaluateSequenceLocks ∘ CalculateSequenceLocks`
on the inputs' (sequence, height of the spent output — the next block for a pooled parent —, median time
past of the block before it), enforced from version 2 -/
theorem sequence_locks_are_c13 (c : Chain) (t : TxAbs) :
    seqLocksOk c t =
      C13.Spec.locksSatisfied (C13.Spec.sequenceLocks (decide (2 ≤ t.version)) (seqInputs c t)).1
        (C13.Spec.sequenceLocks (decide (2 ≤ t.version)) (seqInputs c t)).2 (c.height + 1) c.mtp := rfl

/-- … i.e. (version ≥ 2) every input is individually mature in BIP68's sense -/
theorem sequence_locks_iff_inputs_mature (c : Chain) (t : TxAbs) (hv : 2 ≤ t.version) :
    seqLocksOk c t = true ↔ ∀ i ∈ seqInputs c t, C13.Lemmas.inputMature i (c.height + 1) c.mtp :=
  seqLocksOk_iff_mature c t hv

/-- a sequence lock that is satisfied stays satisfied over a connected block that does not spend the
transaction's inputs and does not lower the median time: BIP68 maturity is monotone, a pooled parent that
gets mined is mined exactly at the height admission assumed, and an unconfirmed parent only admits a
zero relative lock -/
theorem sequence_locks_persist (c : Chain) (b : Block) (t : TxAbs) (hm : c.mtp ≤ b.mtp)
    (hx : ∀ x ∈ t.ins, ∀ T ∈ b.txs, x ∉ T.ins) (h : seqLocksOk c t = true) :
    seqLocksOk (c.connect b) t = true := seqLocksOk_connect hm hx h

/-! ### composition with C03 (the UTXO set as a fold of the active chain) -/

/-- connecting a block in the mempool model's chain view is one `C03.Spec.applyBlock` step on the set the view
represents (a transaction is mapped to C03's with `nOuts` spendable outputs; the block's transactions do
not spend the block's own coinbase) -/
theorem chain_view_connect_is_c03_step (c : Chain) (U : C03.Spec.UtxoSet) (hr : Represents c.utxo U) (b : Block)
    (hcb : ∀ T ∈ b.txs, ∀ x ∈ T.ins, x.txid ≠ b.cb.id) :
    Represents (c.connect b).utxo (C03.Spec.applyBlock U (c.height + 1) (toC03Block b)) :=
  connect_represents hr b hcb

/-- hence the view of a chain built from genesis by connecting `bs` holds exactly the outpoints of
`C03.Spec.utxoOf bs`: what the mempool calls "unspent in the chain" is C03's protocol-level UTXO set -/
theorem chain_view_is_c03_utxoOf (maturity mtp0 : Nat) (bs : List Block)
    (hcb : ∀ b ∈ bs, ∀ T ∈ b.txs, ∀ x ∈ T.ins, x.txid ≠ b.cb.id) :
    Represents (connectAll (State.init maturity mtp0).chain bs).utxo (C03.Spec.utxoOf (bs.map toC03Block)) :=
  connectAll_represents bs _ _ represents_empty hcb

/-- disconnecting the block that was just connected restores the chain view (same unspent outpoints, height,
median time, block stack), provided none of the block's outputs existed before (BIP30/BIP34): the model's
undo data is exactly what the block spent -/
theorem chain_view_disconnect_undoes_connect (c : Chain) (b : Block)
    (hnew : ∀ x, hasU c.utxo x → ∀ T ∈ b.cb :: b.txs, ¬ OutputOf x T) :
    ∃ c', (c.connect b).disconnect = some (c', b) ∧ c'.height = c.height ∧ c'.mtp = c.mtp ∧
      c'.stack = c.stack ∧ c'.maturity = c.maturity ∧ ∀ x, hasU c'.utxo x ↔ hasU c.utxo x :=
  disconnect_connect c b hnew

/-! ### composition with C12 (block templates built from the pool) -/

/-- Minable for selections: after any history, if all pooled entries are fresh, not only the whole pool but
EVERY selection from it that contains the pooled parents its members need, listed in ascending id
(dependency) order, is a valid block body on the chain view — what a template generator picks -/
theorem minable_selection_always (W : TxAbs → Prop) (U : Universe W) (pol : Policy) (maturity mtp0 : Nat)
    (ops : List Op) (h : RunOkM W pol (State.init maturity mtp0) ops) (l : List TxAbs) :
    let st := (run pol (State.init maturity mtp0) ops).1
    (∀ e ∈ st.pool.pool, e.fresh = true) → ParentClosed st.chain st.pool l →
    l.Pairwise (fun a b => a.id < b.id) → ValidSeq st.chain [] l := by
  intro st hfresh hcl hs
  have g := run_goodSt U pol ops _ (goodSt_init W maturity mtp0) (runOk_of_runOkM pol ops _ h)
  have fl := run_fl pol ops _ (fl_init maturity mtp0) h
  apply validSeq_selection g.good.ok.nds (g.good.ranked U) (inputsAvailable_of_good g.good) _ l [] (by simpa using hcl)
    hs (fun a ha => by cases ha)
  intro t ht
  obtain ⟨e, he, rfl⟩ := mem_txs.1 ht
  exact fl e he (hfresh e he)

/-- the finality test of C12's template model (`isFinalized`, used by `blockValid`) on a pooled transaction is
the mempool model's -/
theorem template_finality_is_ours (c : Chain) (t : TxAbs) (h m : Nat) :
    C12.isFinalized (toC12Tx c t) (h : Int) (m : Int) = isFinal t h m := c12_isFinalized_eq c t h m

/-- the BIP68 test of C12's `blockValid` (`C12.Spec.seqLocksOk`) on a pooled transaction, in the environment
of the next block, is the mempool model's admission test (which is C13's definition) -/
theorem template_sequence_locks_are_ours (c : Chain) (t : TxAbs) :
    C12.Spec.seqLocksOk (toC12Env c) (toC12Tx c t) = seqLocksOk c t := c12_seqLocksOk_eq c t

/-- end to end C10 → C12: after any history with all entries fresh, every pooled transaction passes the
finality and BIP68 clauses of C12's `blockValid` for the next block (CSV clock = median time past) -/
theorem pooled_pass_template_locks (W : TxAbs → Prop) (pol : Policy) (maturity mtp0 : Nat)
    (ops : List Op) (h : RunOkM W pol (State.init maturity mtp0) ops) :
    let st := (run pol (State.init maturity mtp0) ops).1
    (∀ e ∈ st.pool.pool, e.fresh = true) → ∀ t ∈ st.pool.txs,
      C12.isFinalized (toC12Tx st.chain t) (toC12Env st.chain).nextHeight (C12.consensusClock (toC12Env st.chain)) = true ∧
      C12.Spec.seqLocksOk (toC12Env st.chain) (toC12Tx st.chain t) = true := by
  intro st hfresh t ht
  have fl := run_fl pol ops _ (fl_init maturity mtp0) h
  obtain ⟨e, he, rfl⟩ := mem_txs.1 ht
  obtain ⟨_, _, _, _, _, l6, l7, _⟩ := fl e he (hfresh e he)
  constructor
  · have e1 : (toC12Env st.chain).nextHeight = ((st.chain.height + 1 : Nat) : Int) := by simp [toC12Env]
    have e2 : C12.consensusClock (toC12Env st.chain) = (st.chain.mtp : Int) := by
      simp [C12.consensusClock, toC12Env]
    rw [e1, e2, c12_isFinalized_eq]; exact l7
  · rw [c12_seqLocksOk_eq]; exact l6

/-- the free-relay rule: a NEW transaction paying less than the relay fee for its size is only admitted when
priority relay is disabled or its priority (Σ amount·age / discounted size, `mining.CalcPriority`) exceeds
`MinHighPriority`, and only if the rate limiter lets it pass; it is never admitted at or above the
free-area size -/
theorem free_relay_rule (pol : Policy) (c : Chain) (s : Pool) (t : TxAbs) (rl rdo : Bool) (cs : List TxAbs)
    (h : checkAccept pol c s t true rl rdo = .ok cs) (hfee : t.fee < minRelayFeeFor t.vsize pol.minRelayFee) :
    (pol.disablePriority = true ∨ priorityHigh pol c t = true) ∧ pol.freeRelay = true ∧
    t.vsize < pol.blockPrioritySize - 1000 := by
  have hf := (checkAccept_ok_inv h).fee
  unfold relayFeeMet at hf
  simp only at hf
  split at hf
  · cases hf
  · rename_i h1
    split at hf
    · omega
    · split at hf
      · rename_i h3; simp at h3
      · split at hf
        · cases hf
        · rename_i h4
          refine ⟨?_, hf, by omega⟩
          simp only [Bool.true_and, Bool.and_eq_true, Bool.not_eq_true', not_and, Bool.not_eq_false] at h4
          by_cases hd : pol.disablePriority = true
          · exact Or.inl hd
          · exact Or.inr (h4 (by simpa using hd))

/-! ### policy arithmetic -/

/-- `GetDustThreshold` reproduces the well-known thresholds (times minRelay/1000): P2PKH 546, P2SH 540,
P2WPKH 294, P2WSH / P2TR 330 -/
theorem dust_thresholds : dustThreshold 25 false = 546 ∧ dustThreshold 23 false = 540 ∧
    dustThreshold 22 true = 294 ∧ dustThreshold 34 true = 330 := by decide

/-- an unspendable output is always dust; with a zero relay fee no spendable non-negative output is -/
theorem isDust_unspendable (v : Int) (l : Nat) (w : Bool) (r : Int) : isDust v l w true r = true := by
  simp [isDust]

theorem isDust_zero_rate (v : Int) (l : Nat) (w : Bool) (hv : 0 ≤ v) : isDust v l w false 0 = false := by
  have h : 0 ≤ Int.tdiv (v * 1000) (dustThreshold l w) :=
    Int.tdiv_nonneg (by omega) (by exact Int.natCast_nonneg _)
  simp only [isDust, Bool.false_or, decide_eq_false_iff_not]
  omega

/-- `GetTxVirtualSize`: without witness data the virtual size is the size; otherwise it lies between the
stripped and the full size -/
theorem virtualSize_no_witness (s : Nat) : virtualSize s s = s := by unfold virtualSize; omega

theorem virtualSize_bounds (s t : Nat) (h : s ≤ t) : s ≤ virtualSize s t ∧ virtualSize s t ≤ t := by
  unfold virtualSize; omega

/-! ### constants pinned to the tree -/

theorem pin_maxRBFSequence : Generated.C10.maxRBFSequence = (maxRBFSequence : Int) := by decide
theorem pin_maxReplacementEvictions : Generated.C10.maxReplacementEvictions = (maxReplacementEvictions : Int) := by decide
theorem pin_lockTimeThreshold : Generated.C10.lockTimeThreshold = (lockTimeThreshold : Int) := by decide
theorem pin_maxSatoshi : Generated.C10.maxSatoshi = (maxSatoshi : Int) := by decide
theorem pin_maxSeq : Generated.C10.maxTxInSequenceNum = (maxSeq : Int) := by decide
theorem pin_genesisTime : Generated.C10.regtestGenesisTime = 1296688602 := by decide

end BV.C10
