/-
C10 — helper lemmas, part 9: state-level assembly (every operation, every history).
-/
import BV.C10.Block
namespace BV.C10.Lemmas
open BV.C10 BV.C10.Spec

variable {W : TxAbs → Prop}

def StackW (W : TxAbs → Prop) (c : Chain) : Prop := ∀ r ∈ c.stack, W r.blk.cb ∧ ∀ T ∈ r.blk.txs, W T

/-- what a history has to respect: the transactions it mentions come from the universe, and a stand-alone
`RemoveTransaction(tx, false)` (the caller asserts "tx was mined") is not applied to a transaction that
has pooled redeemers -/
def OpOk (W : TxAbs → Prop) (st : State) : Op → Prop
  | .process t _ _ _ _ _ => W t
  | .maybeAccept t _ _ => W t
  | .check _ => True
  | .remove t red => W t ∧ (red = false → ∀ u ∈ st.pool.txs, ¬ ChildOf u t)
  | .removeDoubleSpends _ => True
  | .processOrphans _ _ => True
  | .removeOrphan _ => True
  | .removeOrphansByTag _ => True
  | .connect b _ => W b.cb ∧ ∀ T ∈ b.txs, W T
  | .disconnect => True

structure GoodSt (W : TxAbs → Prop) (st : State) : Prop where
  good : Good W st.chain (fun _ => False) st.pool
  stack : StackW W st.chain

theorem good_change {c c' : Chain} {X Y : OutPoint → Prop} {s : Pool} (g : Good W c X s)
    (h : ∀ u ∈ s.txs, ∀ x ∈ u.ins, (c.has x = true ∨ X x) → c'.has x = true ∨ (∃ p ∈ s.txs, OutputOf x p) ∨ Y x) :
    Good W c' Y s := by
  refine ⟨g.ok, g.wP, g.wO, g.wB, ?_⟩
  intro u hu x hx
  rcases g.av u hu x hx with h1 | h1 | h1
  · exact h u hu x hx (Or.inl h1)
  · exact Or.inr (Or.inl h1)
  · exact h u hu x hx (Or.inr h1)

theorem removeOne_remSpec (U : Universe W) {c : Chain} {X : OutPoint → Prop} {s : Pool} (g : Good W c X s)
    {t : TxAbs} (ht : W t) (hno : ∀ u ∈ s.txs, ¬ ChildOf u t) : RemSpec s (removeOne s t.id) := by
  refine ⟨removeOne_ok g.ok t.id, removeOne_sublist s t.id, ?_, removeOne_orphans s t.id⟩
  intro u hu q hq hnq x hx ho
  have hqid : q.id = t.id := by
    by_cases e : q.id = t.id
    · exact e
    · exact absurd (removeOne_txs.2 ⟨hq, e⟩) hnq
  have : q = t := U.idInj q t (g.wP q hq) ht hqid
  subst this
  exact hno u (removeOne_txs.1 hu).1 ⟨x, hx, ho⟩

theorem step_goodSt (U : Universe W) (pol : Policy) (st : State) (op : Op) (g : GoodSt W st)
    (hop : OpOk W st op) : GoodSt W (step pol st op).1 := by
  cases op with
  | process t ao rl tag ev prio =>
    exact ⟨processTransaction_good U pol st.pool t ao rl tag ev prio g.good hop, g.stack⟩
  | maybeAccept t isNew rl =>
    have h := @good_accept W st.chain _ U pol st.pool t isNew rl true g.good hop
    simp only [step]
    split <;> (rename_i s _ heq; rw [heq] at h; exact ⟨h, g.stack⟩)
  | check t => simp only [step]; split <;> exact g
  | remove t red =>
    obtain ⟨ht, hno⟩ := hop
    have gr : Good W st.chain (fun _ => False) (removeTransaction st.pool t red) := by
      cases red
      · unfold removeTransaction
        simp only [Bool.false_eq_true, if_false]
        exact good_rem g.good (removeOne_remSpec U g.good ht (hno rfl))
      · exact good_removeTransaction_true U g.good ht
    simp only [step]
    split
    · exact ⟨markStale_good gr, g.stack⟩
    · exact ⟨gr, g.stack⟩
  | removeDoubleSpends t => exact ⟨good_removeDoubleSpends U g.good t, g.stack⟩
  | processOrphans t prio => exact ⟨processOrphans_good U pol st.pool t prio g.good, g.stack⟩
  | removeOrphan t => exact ⟨good_orph g.good (removeOrphan_rel st.pool t false), g.stack⟩
  | removeOrphansByTag tag =>
    refine ⟨?_, g.stack⟩
    simp only [step]
    apply foldl_inv (Good W st.chain (fun _ => False)) _ _ _ _ g.good
    intro b a hb
    exact good_orph hb (removeOrphan_rel b a true)
  | connect b prio =>
    obtain ⟨hcb, hW⟩ := hop
    simp only [step]
    split
    · exact g
    · simp only
      constructor
      · apply connectFold_good U pol prio [] b.txs _ hW
        · intro p1 T p2 e x ho
          have := foldApply_created (h := st.chain.height + 1) p1 T p2 st.chain.utxo x ho
          rw [← e] at this
          rcases this with h1 | h1
          · exact Or.inl (connect_has_of_fold h1)
          · exact Or.inr h1
        · have g0 : Good W st.chain (fun _ => False)
              (staleSpenders b (if b.mtp < st.chain.mtp then markStale st.pool else st.pool)) := by
            apply staleSpenders_good
            split
            · exact markStale_good g.good
            · exact g.good
          apply good_change g0
          intro u hu x hx hc
          rcases hc with hc | hc
          · rcases foldApply_keep (h := st.chain.height + 1) b.txs st.chain.utxo x
                ((chain_has_iff _ _).1 hc) with h1 | h1
            · exact Or.inl (connect_has_of_fold h1)
            · exact Or.inr (Or.inr h1)
          · exact absurd hc (fun h => h)
      · intro r hr
        unfold Chain.connect at hr
        simp only [List.mem_cons] at hr
        rcases hr with rfl | hr
        · exact ⟨hcb, hW⟩
        · exact g.stack r hr
  | disconnect =>
    simp only [step]
    split
    · exact g
    · rename_i c' b hd
      simp only
      -- the popped block comes from the stack
      have hb : W b.cb ∧ (∀ T ∈ b.txs, W T) ∧ StackW W c' := by
        unfold Chain.disconnect at hd
        cases hs : st.chain.stack with
        | nil => rw [hs] at hd; cases hd
        | cons r rest =>
          rw [hs] at hd
          simp only [Option.some.injEq, Prod.mk.injEq] at hd
          obtain ⟨rfl, rfl⟩ := hd
          have := g.stack r (by rw [hs]; simp)
          refine ⟨this.1, this.2, ?_⟩
          intro r' hr'
          exact g.stack r' (by rw [hs]; simp [hr'])
      obtain ⟨hcb, hW, hst⟩ := hb
      refine ⟨?_, hst⟩
      have g0 : Good W c' (fun x => (∃ T ∈ b.txs, OutputOf x T) ∨ OutputOf x b.cb) (markStale st.pool) := by
        apply good_change (markStale_good g.good)
        intro u hu x hx hc
        rcases hc with hc | hc
        · rcases disconnect_has hd hc with h1 | ⟨T, hT, ho⟩
          · exact Or.inl h1
          · rcases List.mem_cons.1 hT with rfl | hT'
            · exact Or.inr (Or.inr (Or.inr ho))
            · exact Or.inr (Or.inr (Or.inl ⟨T, hT', ho⟩))
        · exact absurd hc (fun h => h)
      have g1 := disconnectFold_good U pol b.txs _ hW g0
      generalize b.txs.foldl (disconnectTx pol c') (markStale st.pool) = s1 at g1
      have sp := removeRec_spec (fuelOf s1) s1 b.cb.id b.cb.nOuts g1.ok (g1.ranked U) (cnt_lt_fuel s1 b.cb.id)
        (fun q hq e => by rw [U.idInj q b.cb (g1.wP q hq) hcb e]; exact Nat.le_refl _)
      unfold removeTransaction; simp only [if_true]
      apply good_weaken (good_rem g1 sp.1)
      intro u hu x hx hX
      exfalso
      obtain ⟨o1, o2⟩ := hX
      have hx' : (⟨b.cb.id, x.idx⟩ : OutPoint) = x := by
        cases x; simp only at o1; simp only [OutPoint.mk.injEq, and_true]; exact o1
      have := sp.2.2 x.idx o2 u hu
      rw [hx'] at this
      exact this hx

/-- a history respects `OpOk` at every state it passes through -/
def RunOk (W : TxAbs → Prop) (pol : Policy) : State → List Op → Prop
  | _, [] => True
  | st, op :: ops => OpOk W st op ∧ RunOk W pol (step pol st op).1 ops

theorem run_goodSt (U : Universe W) (pol : Policy) : ∀ (ops : List Op) (st : State), GoodSt W st →
    RunOk W pol st ops → GoodSt W (run pol st ops).1
  | [], st, g, _ => by simpa [run] using g
  | op :: ops, st, g, h => by
    simp only [run]
    exact run_goodSt U pol ops _ (step_goodSt U pol st op g h.1) h.2

theorem goodSt_init (W : TxAbs → Prop) (maturity mtp0 : Nat) : GoodSt W (State.init maturity mtp0) := by
  refine ⟨⟨poolOk_empty, ?_, ?_, ?_, ?_⟩, ?_⟩
  · intro t h; simp [State.init, Pool.empty, Pool.txs] at h
  · intro t h; simp [State.init, Pool.empty] at h
  · intro t h; simp [State.init, Pool.empty] at h
  · intro t h; simp [State.init, Pool.empty, Pool.txs] at h
  · intro r h; simp [State.init] at h

theorem inputsAvailable_of_good {c : Chain} {s : Pool} (g : Good W c (fun _ => False) s) : InputsAvailable c s := by
  intro t ht x hx
  rcases g.av t ht x hx with h | h | h
  · exact Or.inl h
  · exact Or.inr h
  · exact absurd h (fun h => h)

end BV.C10.Lemmas
