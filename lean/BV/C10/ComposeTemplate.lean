/-
C10 — composition with C12 (block templates): the finality and BIP68 tests of C12's `blockValid` on a pooled
transaction are the tests the mempool model guarantees for it.
-/
import BV.C10.Select
import BV.C10.Fresh
import BV.C12.Spec
namespace BV.C10.Lemmas
open BV.C10 BV.C10.Spec

/-- an input as C12 sees it: what the chain says about the outpoint, and the sequence -/
def toC12Inp (c : Chain) (x : OutPoint) (q : Nat) : C12.Inp :=
  { op := C12.OutPoint.u (x.txid * 4294967296 + x.idx),
    chain := (c.find x).map (fun u => { value := 0, height := u.height, coinbase := u.cb, mtpPrev := mtpAt c (u.height - 1) }),
    sequence := q }

/-- a pooled transaction as C12 sees it (amounts, weights and priorities are not part of the mempool model) -/
def toC12Tx (c : Chain) (t : TxAbs) : C12.Tx :=
  { ins := (t.ins.zip t.seqs).map (fun p => toC12Inp c p.1 p.2), outs := [], lockTime := t.lockTime,
    allSeqMax := t.seqs.all (fun s => s = maxSeq), fee := t.fee, feePerKB := feeRate t, prio := 0,
    weight := 4 * t.vsize, sigCost := 0, hasWitness := false, scriptsOk := t.scriptsOk, version := t.version }

def toC12Env (c : Chain) : C12.Env :=
  { nextHeight := c.height + 1, now := c.mtp, mtp := c.mtp, segwit := true, csv := true, cbWeight := 0, cbSigCost := 0,
    halving := 150, maturity := c.maturity, minWeight := 0, maxWeight := 4000000, prioSize := 0, minFreeFee := 0 }

theorem c12_isFinalized_eq (c : Chain) (t : TxAbs) (h m : Nat) :
    C12.isFinalized (toC12Tx c t) (h : Int) (m : Int) = isFinal t h m := by
  unfold C12.isFinalized isFinal toC12Tx C12.LOCKTIME_THRESHOLD lockTimeThreshold
  simp only
  by_cases h0 : t.lockTime = 0
  · simp [h0]
  · by_cases hth : t.lockTime < 500000000
    · by_cases h1 : t.lockTime < h
      · have : (t.lockTime : Int) < (h : Int) := by omega
        simp [h0, hth, h1, this]
      · have : ¬ (t.lockTime : Int) < (h : Int) := by omega
        simp [h0, hth, h1, this]
    · by_cases h1 : t.lockTime < m
      · have : (t.lockTime : Int) < (m : Int) := by omega
        simp [h0, hth, h1, this]
      · have : ¬ (t.lockTime : Int) < (m : Int) := by omega
        simp [h0, hth, h1, this]

theorem c12_not_coinbase (c : Chain) (t : TxAbs) : C12.isCoinbase (toC12Tx c t) = false := by
  unfold C12.isCoinbase toC12Tx
  simp only
  split
  · rename_i i heq
    have : i ∈ (t.ins.zip t.seqs).map (fun p => toC12Inp c p.1 p.2) := by rw [heq]; simp
    obtain ⟨p, _, rfl⟩ := List.mem_map.1 this
    simp [toC12Inp]
  · rfl

/-- one input: C12's per-input BIP68 test is C13's `inputMature` of the model's `seqInput` -/
theorem c12_input_iff (c : Chain) (x : OutPoint) (q : Nat) :
    ((if (q / C12.SEQ_DISABLED) % 2 = 1 then true
      else
        let rel : Int := ((q % C12.SEQ_MASK : Nat) : Int)
        let src : Int × Int := match (toC12Inp c x q).chain with
          | some u => (u.height, u.mtpPrev)
          | none => (((c.height + 1 : Nat) : Int), (c.mtp : Int))
        if (q / C12.SEQ_IS_SECONDS) % 2 = 1 then decide (src.2 + rel * (C12.SEQ_GRANULARITY : Int) - 1 < (c.mtp : Int))
        else decide (src.1 + rel - 1 < ((c.height + 1 : Nat) : Int))) = true) ↔
      C13.Lemmas.inputMature (seqInput c x q) ((c.height + 1 : Nat) : Int) (c.mtp : Int) := by
  unfold C13.Lemmas.inputMature seqInput toC12Inp C12.SEQ_DISABLED C12.SEQ_MASK C12.SEQ_IS_SECONDS C12.SEQ_GRANULARITY
    C13.Spec.SEQ_DISABLE_FLAG C13.Spec.SEQ_TYPE_FLAG C13.Spec.SEQ_MASK C13.Spec.SEQ_GRANULARITY
  have hmt : mtpAt c c.height = c.mtp := mtpAt_tip c _ (Nat.le_refl _)
  have e31 : (2 : Nat) ^ 31 = 2147483648 := rfl
  have e22 : (2 : Nat) ^ 22 = 4194304 := rfl
  have emk : (0xffff + 1 : Nat) = 65536 := rfl
  have e9 : (2 : Nat) ^ 9 = 512 := rfl
  simp only [e31, e22, emk, e9]
  generalize hD : q / 2147483648 % 2 = d
  generalize hT : q / 4194304 % 2 = ty
  generalize hR : q % 65536 = r
  have core : ∀ (ht hm : Int),
      ((if d = 1 then true
        else if ty = 1 then decide (hm + (r : Int) * ((512 : Nat) : Int) - 1 < (c.mtp : Int))
        else decide (ht + (r : Int) - 1 < ((c.height + 1 : Nat) : Int))) = true) ↔
      (d = 1 ∨ (ty = 1 ∧ hm + ((r * 512 : Nat) : Int) ≤ (c.mtp : Int)) ∨
        (ty ≠ 1 ∧ ht + (r : Int) ≤ ((c.height + 1 : Nat) : Int))) := by
    intro ht hm
    by_cases hd : d = 1
    · rw [if_pos hd]; exact ⟨fun _ => Or.inl hd, fun _ => rfl⟩
    · rw [if_neg hd]
      by_cases hty : ty = 1
      · rw [if_pos hty, decide_eq_true_eq]
        constructor
        · intro h; exact Or.inr (Or.inl ⟨hty, by omega⟩)
        · rintro (h | ⟨_, h⟩ | ⟨h, _⟩)
          · exact absurd h hd
          · omega
          · exact absurd hty h
      · rw [if_neg hty, decide_eq_true_eq]
        constructor
        · intro h; exact Or.inr (Or.inr ⟨hty, by omega⟩)
        · rintro (h | ⟨h, _⟩ | ⟨_, h⟩)
          · exact absurd h hd
          · exact absurd h hty
          · omega
  cases hc : c.find x with
  | some u =>
    simp only [Option.map_some]
    subst hD hT hR
    exact core (u.height : Int) (mtpAt c (u.height - 1) : Int)
  | none =>
    simp only [Option.map_none, hmt]
    subst hD hT hR
    have := core ((c.height + 1 : Nat) : Int) (c.mtp : Int)
    simpa using this

/-- the BIP68 test of C12's `blockValid` on a pooled transaction is the mempool model's admission test -/
theorem c12_seqLocksOk_eq (c : Chain) (t : TxAbs) :
    C12.Spec.seqLocksOk (toC12Env c) (toC12Tx c t) = seqLocksOk c t := by
  by_cases hv : 2 ≤ t.version
  · rw [Bool.eq_iff_iff, seqLocksOk_iff_mature c t hv]
    unfold C12.Spec.seqLocksOk
    have h1 : (toC12Env c).csv = true := rfl
    have h2 : decide ((toC12Tx c t).version < 2) = false := by
      apply decide_eq_false; show ¬ t.version < 2; omega
    rw [h1, h2, c12_not_coinbase]
    simp only [Bool.not_true, Bool.or_false, Bool.false_eq_true, if_false, Bool.and_eq_true, decide_eq_true_eq,
      List.all_eq_true]
    have e1 : (toC12Env c).nextHeight = ((c.height + 1 : Nat) : Int) := by simp [toC12Env]
    have e2 : (toC12Env c).mtp = (c.mtp : Int) := rfl
    rw [e1, e2]
    constructor
    · rintro ⟨_, hall⟩ i hi
      unfold seqInputs at hi
      obtain ⟨p, hp, rfl⟩ := List.mem_map.1 hi
      have := hall (toC12Inp c p.1 p.2) (List.mem_map.2 ⟨p, hp, rfl⟩)
      exact (c12_input_iff c p.1 p.2).1 this
    · intro hall
      refine ⟨⟨by omega, by omega⟩, ?_⟩
      intro i hi
      obtain ⟨p, hp, rfl⟩ := List.mem_map.1 hi
      exact (c12_input_iff c p.1 p.2).2 (hall _ (List.mem_map.2 ⟨p, hp, rfl⟩))
  · rw [seqLocksOk_v1 c t (by omega)]
    unfold C12.Spec.seqLocksOk
    have h2 : decide ((toC12Tx c t).version < 2) = true := by
      apply decide_eq_true; show t.version < 2; omega
    simp [h2]

end BV.C10.Lemmas
