/-
C10 — helper lemmas, part 4: per-operation laws (a rejected submission leaves the pool unchanged; the
replacement rule).
-/
import BV.C10.Ops
namespace BV.C10.Lemmas
open BV.C10 BV.C10.Spec

theorem maybeAccept_not_ok {pol : Policy} {c : Chain} {s s' : Pool} {t : TxAbs} {isNew rl rdo : Bool}
    {r : AcceptRes} (h : maybeAccept pol c s t isNew rl rdo = (s', r)) (hr : r ≠ .ok) : s' = s := by
  rw [maybeAccept_eq] at h
  cases hc : checkAccept pol c s t isNew rl rdo with
  | err e => rw [hc] at h; simp only [Prod.mk.injEq] at h; exact h.1.symm
  | missing ps => rw [hc] at h; simp only [Prod.mk.injEq] at h; exact h.1.symm
  | ok cs => rw [hc] at h; simp only [Prod.mk.injEq] at h; exact absurd h.2.symm hr

theorem processTransaction_reject {pol : Policy} {c : Chain} {s : Pool} {t : TxAbs} {ao rl : Bool}
    {tag ev : Nat} {prio : List Nat} {r : Rej}
    (h : (processTransaction pol c s t ao rl tag ev prio).2 = .err r) :
    (processTransaction pol c s t ao rl tag ev prio).1 = s := by
  unfold processTransaction at h ⊢
  split
  · rfl
  · rename_i s1 heq
    rw [heq] at h; simp at h
  · rename_i heq
    rw [heq] at h
    simp only at h ⊢
    split
    · rfl
    · rename_i h1
      simp only [h1] at h
      split
      · rfl
      · rename_i h2
        simp [h2] at h

/-- a rejected submission (any operation answering with an error) leaves the whole state unchanged -/
theorem step_reject_unchanged (pol : Policy) (st : State) (op : Op) (r : Rej)
    (h : (step pol st op).2 = .err r) : (step pol st op).1 = st := by
  cases op with
  | process t ao rl tag ev prio =>
    simp only [step] at h ⊢
    rw [processTransaction_reject h]
  | maybeAccept t isNew rl =>
    simp only [step] at h ⊢
    cases hm : maybeAccept pol st.chain st.pool t isNew rl true with
    | mk s' res =>
      rw [hm] at h
      cases res with
      | err e => simp only; rw [maybeAccept_not_ok hm (by simp)]
      | missing ps => simp at h
      | ok => simp at h
  | check t =>
    simp only [step] at h ⊢
    split <;> rfl
  | remove t red => simp [step] at h
  | removeDoubleSpends t => simp [step] at h
  | processOrphans t prio => simp [step] at h
  | removeOrphan t => simp [step] at h
  | removeOrphansByTag tag => simp [step] at h
  | connect b prio =>
    simp only [step] at h
    split at h <;> simp at h
  | disconnect =>
    simp only [step] at h
    split at h <;> simp at h

/-- `CheckMempoolAcceptance` never changes the state -/
theorem step_check_unchanged (pol : Policy) (st : State) (t : TxAbs) : (step pol st (.check t)).1 = st := by
  simp only [step]; split <;> rfl

/-! ### the replacement rule -/

structure ReplacementFacts (pol : Policy) (s : Pool) (t : TxAbs) (cs : List TxAbs) : Prop where
  conflicts : cs = txConflicts s t
  count : cs.length ≤ maxReplacementEvictions
  rate : ∀ c ∈ cs, feeRate c < feeRate t
  fee : sumFees cs + minRelayFeeFor t.vsize pol.minRelayFee ≤ t.fee

theorem validateReplacement_facts {pol : Policy} {s : Pool} {t : TxAbs} {cs : List TxAbs}
    (h : validateReplacement pol s t = .ok cs) : ReplacementFacts pol s t cs := by
  have hc := validateReplacement_conflicts h
  unfold validateReplacement at h
  simp only at h
  split at h
  · cases h
  rename_i h1
  split at h
  · cases h
  split at h
  · cases h
  rename_i h3
  split at h
  · cases h
  rename_i h4
  subst hc
  refine ⟨rfl, by omega, ?_, by omega⟩
  intro c hcm
  simp only [List.any_eq_true, decide_eq_true_eq, not_exists, not_and] at h3
  have := h3 c hcm
  omega

end BV.C10.Lemmas
