/-
C10 — helper lemmas, part 6: InputsAvailable through every pool-level operation.
`X` is an "excuse" predicate on outpoints used inside the block connect / disconnect loops (where the
pool is temporarily behind the chain); for stand-alone operations `X` is `False`.
-/
import BV.C10.Closure
namespace BV.C10.Lemmas
open BV.C10 BV.C10.Spec

/-- the universe of transactions: ids are ranks and name one transaction (hash properties) -/
structure Universe (W : TxAbs → Prop) : Prop where
  ranked : ∀ t, W t → Ranked t
  idInj : ∀ a b, W a → W b → a.id = b.id → a = b

def AvailX (c : Chain) (X : OutPoint → Prop) (s : Pool) : Prop :=
  ∀ t ∈ s.txs, ∀ x ∈ t.ins, c.has x = true ∨ (∃ p ∈ s.txs, OutputOf x p) ∨ X x

structure Good (W : TxAbs → Prop) (c : Chain) (X : OutPoint → Prop) (s : Pool) : Prop where
  ok : PoolOk s
  wP : ∀ t ∈ s.txs, W t
  wO : ∀ o ∈ s.orphans, W o.1
  wB : ∀ p ∈ s.byPrev, W p.2
  av : AvailX c X s

variable {W : TxAbs → Prop} {c : Chain} {X : OutPoint → Prop}

theorem Good.ranked (U : Universe W) {s : Pool} (g : Good W c X s) : PoolRanked s :=
  fun t ht => U.ranked t (g.wP t ht)

theorem good_rem {s s' : Pool} (g : Good W c X s) (r : RemSpec s s') : Good W c X s' := by
  refine ⟨r.ok, fun t ht => g.wP t (txs_of_sublist r.sub ht), ?_, ?_, ?_⟩
  · rw [r.orph.1]; exact g.wO
  · rw [r.orph.2]; exact g.wB
  · intro u hu x hx
    rcases g.av u (txs_of_sublist r.sub hu) x hx with h | ⟨p, hp, ho⟩ | h
    · exact Or.inl h
    · by_cases hps : p ∈ s'.txs
      · exact Or.inr (Or.inl ⟨p, hps, ho⟩)
      · exact absurd ho (r.closed u hu p hp hps x hx)
    · exact Or.inr (Or.inr h)

/-! ### orphan-side operations -/

def OrphRel (a b : Pool) : Prop :=
  SameMain a b ∧ (∀ o ∈ a.orphans, o ∈ b.orphans) ∧ (∀ p ∈ a.byPrev, p ∈ b.byPrev)

theorem OrphRel.refl (a : Pool) : OrphRel a a := ⟨SameMain.refl a, fun _ h => h, fun _ h => h⟩
theorem OrphRel.trans {a b d : Pool} (h1 : OrphRel a b) (h2 : OrphRel b d) : OrphRel a d :=
  ⟨h1.1.trans h2.1, fun o h => h2.2.1 o (h1.2.1 o h), fun p h => h2.2.2 p (h1.2.2 p h)⟩

theorem removeOrphanOne_rel (s : Pool) (id : Nat) : OrphRel (removeOrphanOne s id) s :=
  ⟨⟨rfl, rfl⟩, fun _ h => (List.mem_filter.1 h).1, fun _ h => (List.mem_filter.1 h).1⟩

theorem removeOrphanRec_rel : ∀ (f : Nat) (s : Pool) (id n : Nat), OrphRel (removeOrphanRec f s id n) s
  | 0, s, _, _ => by simp [removeOrphanRec, OrphRel.refl]
  | f + 1, s, id, n => by
    unfold removeOrphanRec
    split
    · exact OrphRel.refl s
    · simp only
      apply OrphRel.trans (removeOrphanOne_rel _ _)
      refine foldl_inv (fun b => OrphRel b s) _ ?_ _ _
        (by exact ⟨⟨rfl, rfl⟩, fun _ h => h, fun _ h => (List.mem_filter.1 h).1⟩)
      intro b a hb
      apply foldl_inv (fun b => OrphRel b s) _ _ _ _ hb
      intro b' o hb'
      exact OrphRel.trans (removeOrphanRec_rel f b' o.id o.nOuts) hb'

theorem removeOrphan_rel (s : Pool) (t : TxAbs) (red : Bool) : OrphRel (removeOrphan s t red) s := by
  unfold removeOrphan
  split
  · exact OrphRel.refl s
  · split
    · exact removeOrphanRec_rel _ s t.id t.nOuts
    · exact removeOrphanOne_rel s t.id

theorem removeOrphanDoubleSpends_rel (s : Pool) (t : TxAbs) : OrphRel (removeOrphanDoubleSpends s t) s := by
  unfold removeOrphanDoubleSpends
  apply foldl_inv (fun b => OrphRel b s) _ _ _ _ (OrphRel.refl s)
  intro b a hb
  apply foldl_inv (fun b => OrphRel b s) _ _ _ _ hb
  intro b' o hb'
  exact OrphRel.trans (removeOrphan_rel b' o true) hb'

theorem good_orph {s s' : Pool} (g : Good W c X s) (r : OrphRel s' s) : Good W c X s' := by
  obtain ⟨sm, r1, r2⟩ := r
  have ht : s'.txs = s.txs := by simp [Pool.txs, sm.1]
  refine ⟨poolOk_of_same sm g.ok, ?_, fun o h => g.wO o (r1 o h), fun p h => g.wB p (r2 p h), ?_⟩
  · rw [ht]; exact g.wP
  · unfold AvailX; rw [ht]; exact g.av

theorem good_addOrphan {s : Pool} (g : Good W c X s) (pol : Policy) {t : TxAbs} (ht : W t) (tag ev : Nat) :
    Good W c X (addOrphan pol s t tag ev) := by
  have sm := addOrphan_same pol s t tag ev
  have htx : (addOrphan pol s t tag ev).txs = s.txs := by simp [Pool.txs, sm.1]
  refine ⟨poolOk_of_same sm g.ok, by rw [htx]; exact g.wP, ?_, ?_, by unfold AvailX; rw [htx]; exact g.av⟩
  · unfold addOrphan
    split
    · exact g.wO
    · simp only
      intro o ho
      simp only [List.mem_cons, List.mem_filter] at ho
      rcases ho with rfl | ⟨ho, _⟩
      · exact ht
      · revert ho
        split
        · exact g.wO o
        · split
          · exact g.wO o
          · split <;> (intro ho; exact g.wO o (List.mem_filter.1 ho).1)
  · unfold addOrphan
    split
    · exact g.wB
    · simp only
      intro p hp
      simp only [List.mem_append, List.mem_map, List.mem_filter] at hp
      rcases hp with ⟨x, _, rfl⟩ | ⟨hp, _⟩
      · exact ht
      · revert hp
        split
        · exact g.wB p
        · split
          · exact g.wB p
          · split <;> (intro hp; exact g.wB p (List.mem_filter.1 hp).1)

/-! ### acceptance -/

def ancStep (f : Nat) (s : Pool) (acc : List TxAbs) (x : OutPoint) : List TxAbs :=
  match s.findTx x.txid with
  | some p => unionTx (insertTx acc p) (txAncestors f s p)
  | none => acc

theorem txAncestors_succ (f : Nat) (s : Pool) (t : TxAbs) :
    txAncestors (f + 1) s t = t.ins.foldl (ancStep f s) [] := rfl

theorem ancFold_mono {f : Nat} {s : Pool} (l : List OutPoint) {acc : List TxAbs} {id : Nat} (h : hasId acc id) :
    hasId (l.foldl (ancStep f s) acc) id := by
  apply foldl_inv (fun a => hasId a id) _ _ l acc h
  intro b a hb
  unfold ancStep; split
  · exact unionTx_mono _ (insertTx_mono hb)
  · exact hb

theorem ancFold_direct {f : Nat} {s : Pool} : ∀ (l : List OutPoint) (acc : List TxAbs) (x : OutPoint) (p : TxAbs),
    x ∈ l → s.findTx x.txid = some p → hasId (l.foldl (ancStep f s) acc) p.id
  | [], _, _, _, hx, _ => by cases hx
  | y :: l, acc, x, p, hx, hs => by
    simp only [List.foldl_cons]
    rcases List.mem_cons.1 hx with rfl | hx'
    · apply ancFold_mono
      unfold ancStep; rw [hs]
      exact unionTx_mono _ (insertTx_self _ _)
    · exact ancFold_direct l _ x p hx' hs

theorem validateReplacement_noAncestor {pol : Policy} {s : Pool} {t : TxAbs} {cs : List TxAbs}
    (h : validateReplacement pol s t = .ok cs) :
    ∀ a ∈ txAncestors (fuelOf s) s t, ∀ e ∈ cs, e.id ≠ a.id := by
  have hc := validateReplacement_conflicts h
  unfold validateReplacement at h
  simp only at h
  split at h
  · cases h
  split at h
  · cases h
  rename_i h2
  subst hc
  intro a ha e he heq
  apply h2
  simp only [List.any_eq_true, decide_eq_true_eq]
  exact ⟨a, ha, e, he, heq⟩

theorem good_accept (U : Universe W) {pol : Policy} {s : Pool} {t : TxAbs} {isNew rl rdo : Bool}
    (g : Good W c X s) (ht : W t) : Good W c X (maybeAccept pol c s t isNew rl rdo).1 := by
  have hok := @maybeAccept_ok pol c s t isNew rl rdo g.ok
  have horph := @maybeAccept_orphans pol c s t isNew rl rdo
  rw [maybeAccept_eq] at hok horph ⊢
  cases h : checkAccept pol c s t isNew rl rdo with
  | err r => exact g
  | missing ps => exact g
  | ok cs =>
    rw [h] at hok horph
    simp only at hok horph ⊢
    have hf := checkAccept_ok_inv h
    have hnew : ∀ u ∈ s.txs, u.id ≠ t.id := by
      intro u hu e
      have : s.inPool t.id = true := inPool_iff.2 ⟨u, hu, e⟩
      rw [hf.notInPool] at this; cases this
    have hmem : ∀ u, u ∈ (addTx (removeAll s cs) t c.height).txs ↔ u = t ∨ (u ∈ s.txs ∧ ∀ e ∈ cs, u.id ≠ e.id) := by
      intro u
      rw [addTx_txs, removeAll_txs]
      constructor
      · rintro (a | ⟨a, _⟩)
        · exact Or.inl a
        · exact Or.inr a
      · rintro (a | ⟨a, b⟩)
        · exact Or.inl a
        · exact Or.inr ⟨⟨a, b⟩, hnew u a⟩
    refine ⟨hok, ?_, by rw [horph.1]; exact g.wO, by rw [horph.2]; exact g.wB, ?_⟩
    · intro u hu
      rcases (hmem u).1 hu with rfl | ⟨a, _⟩
      · exact ht
      · exact g.wP u a
    · intro u hu x hx
      rcases (hmem u).1 hu with rfl | ⟨hu1, hu2⟩
      · -- the new transaction: its inputs were fetched from the chain or from the pool
        have ha := hf.avail x hx
        unfold available at ha
        simp only [Bool.or_eq_true] at ha
        rcases ha with ha | ha
        · exact Or.inl ha
        · cases hp : s.findTx x.txid with
          | none => rw [hp] at ha; simp at ha
          | some p =>
            rw [hp] at ha
            simp only [decide_eq_true_eq] at ha
            obtain ⟨hp1, hp2⟩ := findTx_some hp
            refine Or.inr (Or.inl ⟨p, (hmem p).2 (Or.inr ⟨hp1, ?_⟩), hp2, ha⟩)
            rcases hf.repl with ⟨_, rfl⟩ | ⟨_, hv⟩
            · intro e he; cases he
            · intro e he heq
              have hanc : hasId (txAncestors (fuelOf s) s u) p.id := by
                unfold fuelOf; rw [txAncestors_succ]
                exact ancFold_direct _ _ x p hx hp
              obtain ⟨a, ha1, ha2⟩ := hanc
              exact validateReplacement_noAncestor hv a ha1 e he (by rw [ha2, heq])
      · -- a survivor
        rcases g.av u hu1 x hx with h1 | ⟨p, hp, ho⟩ | h1
        · exact Or.inl h1
        · by_cases hps : ∀ e ∈ cs, p.id ≠ e.id
          · exact Or.inr (Or.inl ⟨p, (hmem p).2 (Or.inr ⟨hp, hps⟩), ho⟩)
          · exfalso
            rcases hf.repl with ⟨_, rfl⟩ | ⟨_, hv⟩
            · exact hps (fun e he => by cases he)
            · have hcs := validateReplacement_conflicts hv
              have hid : hasId cs p.id := by
                apply Classical.byContradiction
                intro hn
                apply hps
                intro e he heq
                exact hn ⟨e, he, heq.symm⟩
              rw [hcs] at hid
              obtain ⟨e, he, heq⟩ := txConflicts_closed g.ok (g.ranked U) t p hp hid u hu1 ⟨x, hx, ho⟩
              rw [← hcs] at he
              exact hu2 e he heq.symm
        · exact Or.inr (Or.inr h1)

end BV.C10.Lemmas
