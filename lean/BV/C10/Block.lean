/-
C10 — helper lemmas, part 8: block connect / disconnect keep `Good` with no excuse
(InputsAvailable after the whole notification has been handled).
-/
import BV.C10.Pass
namespace BV.C10.Lemmas
open BV.C10 BV.C10.Spec

variable {W : TxAbs → Prop}

/-! ### chain view -/

def hasU (u : List Utxo) (x : OutPoint) : Prop := ∃ e ∈ u, e.op = x

theorem chain_has_iff (c : Chain) (x : OutPoint) : c.has x = true ↔ hasU c.utxo x := by
  unfold Chain.has hasU
  simp only [List.any_eq_true, decide_eq_true_eq]

theorem outsOf_has {h : Nat} {cb : Bool} {t : TxAbs} {x : OutPoint} : hasU (outsOf h cb t) x ↔ OutputOf x t := by
  unfold hasU outsOf OutputOf
  simp only [List.mem_map, List.mem_range]
  constructor
  · rintro ⟨e, ⟨i, hi, rfl⟩, rfl⟩; exact ⟨rfl, hi⟩
  · rintro ⟨h1, h2⟩
    refine ⟨_, ⟨x.idx, h2, rfl⟩, ?_⟩
    cases x; simp only at h1; simp [h1]

theorem applyTx_has {h : Nat} {cb : Bool} {u : List Utxo} {t : TxAbs} {x : OutPoint} :
    hasU (applyTx h cb u t) x ↔ (hasU u x ∧ x ∉ t.ins) ∨ OutputOf x t := by
  unfold applyTx
  rw [← outsOf_has (h := h) (cb := cb)]
  unfold hasU
  simp only [List.mem_append, List.mem_filter, decide_eq_true_eq]
  constructor
  · rintro ⟨e, (⟨he, hn⟩ | he), rfl⟩
    · exact Or.inl ⟨⟨e, he, rfl⟩, hn⟩
    · exact Or.inr ⟨e, he, rfl⟩
  · rintro (⟨⟨e, he, rfl⟩, hn⟩ | ⟨e, he, rfl⟩)
    · exact ⟨e, Or.inl ⟨he, hn⟩, rfl⟩
    · exact ⟨e, Or.inr he, rfl⟩

/-- an unspent output stays unless a later transaction of the block spends it -/
theorem foldApply_keep {h : Nat} : ∀ (l : List TxAbs) (u : List Utxo) (x : OutPoint), hasU u x →
    hasU (l.foldl (applyTx h false) u) x ∨ ∃ T ∈ l, x ∈ T.ins
  | [], _, _, hx => Or.inl hx
  | T :: l, u, x, hx => by
    simp only [List.foldl_cons]
    by_cases hin : x ∈ T.ins
    · exact Or.inr ⟨T, by simp, hin⟩
    · rcases foldApply_keep l (applyTx h false u T) x (applyTx_has.2 (Or.inl ⟨hx, hin⟩)) with h1 | ⟨T', h1, h2⟩
      · exact Or.inl h1
      · exact Or.inr ⟨T', by simp [h1], h2⟩

/-- an output of a block transaction is unspent at the end unless a later block transaction spends it -/
theorem foldApply_created {h : Nat} : ∀ (pre : List TxAbs) (T : TxAbs) (post : List TxAbs) (u : List Utxo)
    (x : OutPoint), OutputOf x T →
    hasU ((pre ++ T :: post).foldl (applyTx h false) u) x ∨ ∃ T' ∈ post, x ∈ T'.ins := by
  intro pre T post u x ho
  rw [List.foldl_append, List.foldl_cons]
  exact foldApply_keep post _ x (applyTx_has.2 (Or.inr ho))

theorem connect_has_of_fold {c : Chain} {b : Block} {x : OutPoint}
    (h : hasU (b.txs.foldl (applyTx (c.height + 1) false) c.utxo) x) : (c.connect b).has x = true := by
  rw [chain_has_iff]
  unfold Chain.connect
  simp only
  obtain ⟨e, he, rfl⟩ := h
  exact ⟨e, List.mem_append_left _ he, rfl⟩

theorem disconnect_has {c c' : Chain} {b : Block} (h : c.disconnect = some (c', b)) {x : OutPoint}
    (hx : c.has x = true) : c'.has x = true ∨ ∃ T ∈ b.cb :: b.txs, OutputOf x T := by
  unfold Chain.disconnect at h
  cases hs : c.stack with
  | nil => rw [hs] at h; cases h
  | cons r rest =>
    rw [hs] at h
    simp only [Option.some.injEq, Prod.mk.injEq] at h
    obtain ⟨rfl, rfl⟩ := h
    obtain ⟨e, he, rfl⟩ := (chain_has_iff c _).1 hx
    by_cases hany : (r.blk.cb :: r.blk.txs).any (isOutputOf e.op) = true
    · right
      obtain ⟨T, hT, ho⟩ := List.any_eq_true.1 hany
      unfold isOutputOf at ho
      simp only [Bool.and_eq_true, decide_eq_true_eq] at ho
      exact ⟨T, hT, ho.1.symm, ho.2⟩
    · left
      rw [chain_has_iff]
      refine ⟨e, ?_, rfl⟩
      simp only [List.mem_append, List.mem_filter]
      exact Or.inl ⟨he, by simpa using hany⟩

/-! ### connect -/

theorem removeOne_good_connect (U : Universe W) {c' : Chain} {s : Pool} {T : TxAbs} {rest : List TxAbs}
    (hT : W T) (g : Good W c' (fun x => ∃ T' ∈ T :: rest, x ∈ T'.ins) s)
    (hout : ∀ x, OutputOf x T → c'.has x = true ∨ ∃ T' ∈ rest, x ∈ T'.ins) :
    Good W c' (fun x => x ∈ T.ins ∨ ∃ T' ∈ rest, x ∈ T'.ins) (removeOne s T.id) := by
  have ho := removeOne_orphans s T.id
  refine ⟨removeOne_ok g.ok T.id, fun t ht => g.wP t (removeOne_txs.1 ht).1, by rw [ho.1]; exact g.wO,
    by rw [ho.2]; exact g.wB, ?_⟩
  intro u hu x hx
  obtain ⟨hu1, hu2⟩ := removeOne_txs.1 hu
  rcases g.av u hu1 x hx with h | ⟨p, hp, hop⟩ | ⟨T', hT', hin⟩
  · exact Or.inl h
  · by_cases hpid : p.id = T.id
    · have : p = T := U.idInj p T (g.wP p hp) hT hpid
      subst this
      rcases hout x hop with h | h
      · exact Or.inl h
      · exact Or.inr (Or.inr (Or.inr h))
    · exact Or.inr (Or.inl ⟨p, removeOne_txs.2 ⟨hp, hpid⟩, hop⟩)
  · rcases List.mem_cons.1 hT' with rfl | h
    · exact Or.inr (Or.inr (Or.inl hin))
    · exact Or.inr (Or.inr (Or.inr ⟨T', h, hin⟩))

/-- after `RemoveDoubleSpends(T)` whatever still spends an input of `T` has `T`'s id -/
theorem removeDoubleSpends_clears (U : Universe W) {c : Chain} {X : OutPoint → Prop} {s : Pool}
    (g : Good W c X s) (T : TxAbs) :
    ∀ x ∈ T.ins, ∀ u ∈ (removeDoubleSpends s T).txs, x ∈ u.ins → u.id = T.id := by
  unfold removeDoubleSpends
  have key : ∀ (l : List OutPoint) (b : Pool), RemSpec s b →
      ∀ x, (x ∈ l ∨ ∀ u ∈ b.txs, x ∈ u.ins → u.id = T.id) →
      ∀ u ∈ (l.foldl (fun s x => match s.spender x with
        | some r => if r.id ≠ T.id then removeRec (fuelOf s) s r.id r.nOuts else s
        | none => s) b).txs, x ∈ u.ins → u.id = T.id := by
    intro l
    induction l with
    | nil => intro b _ x hx; simpa using hx
    | cons y l ih =>
      intro b hb x hx
      simp only [List.foldl_cons]
      have gb : Good W c X b := good_rem g hb
      have step : RemSpec b (match b.spender y with
          | some r => if r.id ≠ T.id then removeRec (fuelOf b) b r.id r.nOuts else b
          | none => b) ∧ ∀ u ∈ (match b.spender y with
          | some r => if r.id ≠ T.id then removeRec (fuelOf b) b r.id r.nOuts else b
          | none => b).txs, y ∈ u.ins → u.id = T.id := by
        cases hs : b.spender y with
        | none =>
          exact ⟨RemSpec.refl gb.ok, fun u hu hy => absurd hy (noSp_of_spender_none gb.ok hs u hu)⟩
        | some r =>
          simp only
          obtain ⟨hr1, hr2⟩ := (gb.ok.idx _ r).1 (spender_some hs)
          split
          · obtain ⟨a1, a2, _⟩ := removeRec_spec (fuelOf b) b r.id r.nOuts gb.ok (gb.ranked U) (cnt_lt_fuel b r.id)
              (fun q hq e => by rw [gb.ok.idFun q hq r hr1 e]; exact Nat.le_refl _)
            refine ⟨a1, ?_⟩
            intro u hu hy
            have : u = r := gb.ok.nds u (txs_of_sublist a1.sub hu) r hr1 y hy hr2
            subst this
            exact absurd rfl (a2 u hu)
          · rename_i hid
            refine ⟨RemSpec.refl gb.ok, ?_⟩
            intro u hu hy
            have : u = r := gb.ok.nds u hu r hr1 y hy hr2
            subst this
            exact Classical.byContradiction (fun hne => hid hne)
      obtain ⟨s1, s2⟩ := step
      apply ih _ (hb.trans s1) x
      rcases hx with hx | hx
      · rcases List.mem_cons.1 hx with rfl | hx'
        · exact Or.inr s2
        · exact Or.inl hx'
      · exact Or.inr (fun u hu hxu => hx u (txs_of_sublist s1.sub hu) hxu)
  intro x hx
  exact key T.ins s (RemSpec.refl g.ok) x (Or.inl hx)

theorem good_weaken {c : Chain} {X Y : OutPoint → Prop} {s : Pool} (g : Good W c X s)
    (h : ∀ u ∈ s.txs, ∀ x ∈ u.ins, X x → c.has x = true ∨ (∃ p ∈ s.txs, OutputOf x p) ∨ Y x) : Good W c Y s := by
  refine ⟨g.ok, g.wP, g.wO, g.wB, ?_⟩
  intro u hu x hx
  rcases g.av u hu x hx with h1 | h1 | h1
  · exact Or.inl h1
  · exact Or.inr (Or.inl h1)
  · exact h u hu x hx h1

theorem connectTx_good (U : Universe W) (pol : Policy) {c' : Chain} (prio : List Nat) {s : Pool} {T : TxAbs}
    {rest : List TxAbs} (hT : W T) (g : Good W c' (fun x => ∃ T' ∈ T :: rest, x ∈ T'.ins) s)
    (hout : ∀ x, OutputOf x T → c'.has x = true ∨ ∃ T' ∈ rest, x ∈ T'.ins) :
    Good W c' (fun x => ∃ T' ∈ rest, x ∈ T'.ins) (connectTx pol c' prio s T) := by
  unfold connectTx
  apply processOrphans_good U
  apply good_orph _ (removeOrphan_rel _ T false)
  have g1 := removeOne_good_connect U hT g hout
  have g1' : Good W c' (fun x => x ∈ T.ins ∨ ∃ T' ∈ rest, x ∈ T'.ins) (removeTransaction s T false) := by
    unfold removeTransaction; simpa using g1
  have g2 := good_removeDoubleSpends U g1' T
  have hclr := removeDoubleSpends_clears U g1' T
  have hsub := (remSpec_removeDoubleSpends U g1' T).sub
  apply good_weaken g2
  intro u hu x hx hX
  rcases hX with hX | hX
  · exfalso
    have hid := hclr x hX u hu hx
    have hu1 : u ∈ (removeTransaction s T false).txs := txs_of_sublist hsub hu
    unfold removeTransaction at hu1
    simp only [Bool.false_eq_true, if_false] at hu1
    exact (removeOne_txs.1 hu1).2 hid
  · exact Or.inr (Or.inr hX)

theorem connectFold_good (U : Universe W) (pol : Policy) {c' : Chain} (prio : List Nat) :
    ∀ (pre rest : List TxAbs) (s : Pool), (∀ T ∈ rest, W T) →
    (∀ (p1 : List TxAbs) (T : TxAbs) (p2 : List TxAbs), rest = p1 ++ T :: p2 →
      ∀ x, OutputOf x T → c'.has x = true ∨ ∃ T' ∈ p2, x ∈ T'.ins) →
    Good W c' (fun x => ∃ T' ∈ rest, x ∈ T'.ins) s →
    Good W c' (fun _ => False) (rest.foldl (connectTx pol c' prio) s)
  | _, [], s, _, _, g => by
    simp only [List.foldl_nil]
    exact good_weaken g (fun u hu x hx hX => by obtain ⟨T', h, _⟩ := hX; cases h)
  | pre, T :: rest, s, hW, hout, g => by
    simp only [List.foldl_cons]
    apply connectFold_good U pol prio (pre ++ [T]) rest _ (fun T' h => hW T' (by simp [h]))
    · intro p1 T' p2 e x ho
      exact hout (T :: p1) T' p2 (by rw [e]; rfl) x ho
    · exact connectTx_good U pol prio (hW T (by simp)) g (hout [] T rest rfl)

/-! ### disconnect -/

theorem disconnectTx_good (U : Universe W) (pol : Policy) {c' : Chain} {s : Pool} {T : TxAbs} {Y : OutPoint → Prop}
    (hT : W T) (g : Good W c' (fun x => OutputOf x T ∨ Y x) s) :
    Good W c' Y (disconnectTx pol c' s T) := by
  unfold disconnectTx
  have ga := @good_accept W c' _ U pol s T false false true g hT
  have hmem : ∀ s', maybeAccept pol c' s T false false true = (s', .ok) → T ∈ s'.txs := by
    intro s' h
    rw [maybeAccept_eq] at h
    cases hc : checkAccept pol c' s T false false true with
    | err r => rw [hc] at h; simp at h
    | missing ps => rw [hc] at h; simp at h
    | ok cs =>
      rw [hc] at h; simp only [Prod.mk.injEq, and_true] at h
      rw [← h]; exact addTx_txs.2 (Or.inl rfl)
  cases hm : maybeAccept pol c' s T false false true with
  | mk s' r =>
    rw [hm] at ga
    have hs' : r ≠ .ok → s' = s := maybeAccept_not_ok hm
    cases r with
    | ok =>
      simp only
      apply good_weaken ga
      intro u hu x hx hX
      rcases hX with hX | hX
      · exact Or.inr (Or.inl ⟨T, hmem s' hm, hX⟩)
      · exact Or.inr (Or.inr hX)
    | err e =>
      simp only
      have : s' = s := hs' (by simp)
      subst this
      have sp := removeRec_spec (fuelOf s') s' T.id T.nOuts g.ok (g.ranked U) (cnt_lt_fuel s' T.id)
        (fun q hq e => by rw [U.idInj q T (g.wP q hq) hT e]; exact Nat.le_refl _)
      have g2 := good_rem g sp.1
      unfold removeTransaction; simp only [if_true]
      apply good_weaken g2
      intro u hu x hx hX
      rcases hX with hX | hX
      · exfalso
        obtain ⟨o1, o2⟩ := hX
        have hx' : (⟨T.id, x.idx⟩ : OutPoint) = x := by
          cases x; simp only at o1; simp only [OutPoint.mk.injEq, and_true]; exact o1
        have := sp.2.2 x.idx o2 u hu
        rw [hx'] at this
        exact this hx
      · exact Or.inr (Or.inr hX)
    | missing ps =>
      simp only
      have : s' = s := hs' (by simp)
      subst this
      have sp := removeRec_spec (fuelOf s') s' T.id T.nOuts g.ok (g.ranked U) (cnt_lt_fuel s' T.id)
        (fun q hq e => by rw [U.idInj q T (g.wP q hq) hT e]; exact Nat.le_refl _)
      have g2 := good_rem g sp.1
      unfold removeTransaction; simp only [if_true]
      apply good_weaken g2
      intro u hu x hx hX
      rcases hX with hX | hX
      · exfalso
        obtain ⟨o1, o2⟩ := hX
        have hx' : (⟨T.id, x.idx⟩ : OutPoint) = x := by
          cases x; simp only at o1; simp only [OutPoint.mk.injEq, and_true]; exact o1
        have := sp.2.2 x.idx o2 u hu
        rw [hx'] at this
        exact this hx
      · exact Or.inr (Or.inr hX)

theorem disconnectFold_good (U : Universe W) (pol : Policy) {c' : Chain} {Z : OutPoint → Prop} :
    ∀ (rest : List TxAbs) (s : Pool), (∀ T ∈ rest, W T) →
    Good W c' (fun x => (∃ T ∈ rest, OutputOf x T) ∨ Z x) s →
    Good W c' Z (rest.foldl (disconnectTx pol c') s)
  | [], s, _, g => by
    simp only [List.foldl_nil]
    apply good_weaken g
    intro u hu x hx hX
    rcases hX with ⟨T, h, _⟩ | hX
    · cases h
    · exact Or.inr (Or.inr hX)
  | T :: rest, s, hW, g => by
    simp only [List.foldl_cons]
    apply disconnectFold_good U pol rest _ (fun T' h => hW T' (by simp [h]))
    apply disconnectTx_good U pol (hW T (by simp))
    apply good_weaken g
    intro u hu x hx hX
    rcases hX with ⟨T', h, ho⟩ | hX
    · rcases List.mem_cons.1 h with rfl | h'
      · exact Or.inr (Or.inr (Or.inl ho))
      · exact Or.inr (Or.inr (Or.inr (Or.inl ⟨T', h', ho⟩)))
    · exact Or.inr (Or.inr (Or.inr (Or.inr hX)))

end BV.C10.Lemmas
