/-
C10 — helper lemmas: functional correctness of the entry points (what was asked for happened).
-/
import BV.C10.ComposeTemplate
namespace BV.C10.Lemmas
open BV.C10 BV.C10.Spec

/-- an accepted transaction is pooled afterwards -/
theorem maybeAccept_adds {pol : Policy} {c : Chain} {s s' : Pool} {t : TxAbs} {isNew rl rdo : Bool}
    (h : maybeAccept pol c s t isNew rl rdo = (s', .ok)) : t ∈ s'.txs := by
  rw [maybeAccept_eq] at h
  cases hc : checkAccept pol c s t isNew rl rdo with
  | err r => rw [hc] at h; simp at h
  | missing ps => rw [hc] at h; simp at h
  | ok cs =>
    rw [hc] at h
    simp only [Prod.mk.injEq, and_true] at h
    rw [← h]; exact addTx_txs.2 (Or.inl rfl)

theorem removeRec_removes : ∀ (f : Nat) (s : Pool) (id n : Nat), ∀ u ∈ (removeRec (f + 1) s id n).txs, u.id ≠ id := by
  intro f s id n u hu
  unfold removeRec at hu
  exact (removeOne_txs.1 hu).2

/-- `RemoveTransaction` (either flag): the transaction is not pooled afterwards -/
theorem removeTransaction_removes (s : Pool) (t : TxAbs) (red : Bool) :
    ∀ u ∈ (removeTransaction s t red).txs, u.id ≠ t.id := by
  intro u hu
  unfold removeTransaction at hu
  cases red
  · simp only [Bool.false_eq_true, if_false] at hu; exact (removeOne_txs.1 hu).2
  · simp only [if_true] at hu
    unfold fuelOf at hu
    exact removeRec_removes _ s t.id t.nOuts u hu

theorem markStale_txs (s : Pool) : (markStale s).txs = s.txs := by
  simp [markStale, Pool.txs, List.map_map, Function.comp_def]

end BV.C10.Lemmas
