/-
C10 — composition lemmas: the consensus primitives the mempool model uses ARE the sibling Spec definitions
(C13: IsFinalTx, BIP68 CalculateSequenceLocks / EvaluateSequenceLocks).
-/
import BV.C10.Sound
import BV.C13.LemmasBip68
namespace BV.C10.Lemmas
open BV.C10 BV.C10.Spec

theorem all_decide_eq (l : List Nat) (v : Nat) :
    (l.all fun s => decide (s = v)) = decide (∀ x, x ∈ l → x = v) := by
  induction l with
  | nil => simp
  | cons a l ih => simp [List.all_cons, ih]

/-- the model's finality test is C13's `IsFinalTx` on (lock time, sequences, height, time) -/
theorem isFinal_eq_c13 (t : TxAbs) (h m : Nat) :
    isFinal t h m = C13.Spec.isFinal t.lockTime t.seqs (h : Int) (m : Int) := by
  unfold isFinal C13.Spec.isFinal lockTimeThreshold maxSeq C13.Spec.LOCKTIME_THRESHOLD C13.Spec.SEQUENCE_FINAL
  by_cases h0 : t.lockTime = 0
  · simp [h0]
  · by_cases hth : t.lockTime < 500000000
    · by_cases h1 : t.lockTime < h
      · have : (t.lockTime : Int) < (h : Int) := by omega
        simp [h0, hth, h1, this]
      · have : ¬ (t.lockTime : Int) < (h : Int) := by omega
        simp [h0, hth, h1, this]
        exact all_decide_eq _ _
    · by_cases h1 : t.lockTime < m
      · have : (t.lockTime : Int) < (m : Int) := by omega
        simp [h0, hth, h1, this]
      · have : ¬ (t.lockTime : Int) < (m : Int) := by omega
        simp [h0, hth, h1, this]
        exact all_decide_eq _ _

/-- the model's sequence-lock test is C13's BIP68 pair on the inputs' (sequence, height, previous MTP) -/
theorem seqLocksOk_eq_c13 (c : Chain) (t : TxAbs) :
    seqLocksOk c t =
      C13.Spec.locksSatisfied (C13.Spec.sequenceLocks (decide (2 ≤ t.version)) (seqInputs c t)).1
        (C13.Spec.sequenceLocks (decide (2 ≤ t.version)) (seqInputs c t)).2 (c.height + 1) c.mtp := rfl

/-- for a version ≥ 2 transaction the test holds iff every input is individually mature in BIP68's sense -/
theorem seqLocksOk_iff_mature (c : Chain) (t : TxAbs) (hv : 2 ≤ t.version) :
    seqLocksOk c t = true ↔ ∀ i ∈ seqInputs c t, C13.Lemmas.inputMature i (c.height + 1) c.mtp := by
  rw [seqLocksOk_eq_c13]
  have : decide (2 ≤ t.version) = true := by simpa using hv
  rw [this]
  exact C13.Lemmas.locksSatisfied_iff_all_inputs (seqInputs c t) (c.height + 1) c.mtp (by omega) (by omega)

theorem seqLocksOk_v1 (c : Chain) (t : TxAbs) (hv : t.version < 2) : seqLocksOk c t = true := by
  have : decide (2 ≤ t.version) = false := by simpa using hv
  simp [seqLocksOk, C13.Spec.sequenceLocks, C13.Spec.locksSatisfied, this]
  omega

end BV.C10.Lemmas
