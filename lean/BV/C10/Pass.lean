/-
C10 — helper lemmas, part 7: `Good` (main-pool invariants + universe + InputsAvailable-with-excuse)
through every compound pool operation.
-/
import BV.C10.Avail
namespace BV.C10.Lemmas
open BV.C10 BV.C10.Spec

variable {W : TxAbs → Prop} {c : Chain} {X : OutPoint → Prop}

theorem good_removeRec (U : Universe W) {s : Pool} (g : Good W c X s) (id n : Nat)
    (hn : ∀ q ∈ s.txs, q.id = id → q.nOuts ≤ n) : Good W c X (removeRec (fuelOf s) s id n) :=
  good_rem g (removeRec_spec (fuelOf s) s id n g.ok (g.ranked U) (cnt_lt_fuel s id) hn).1

theorem remSpec_removeRec_tx (U : Universe W) {s : Pool} (g : Good W c X s) {t : TxAbs} (ht : W t) :
    RemSpec s (removeRec (fuelOf s) s t.id t.nOuts) :=
  (removeRec_spec (fuelOf s) s t.id t.nOuts g.ok (g.ranked U) (cnt_lt_fuel s t.id)
    (fun q hq e => by rw [U.idInj q t (g.wP q hq) ht e]; exact Nat.le_refl _)).1

theorem good_removeTransaction_true (U : Universe W) {s : Pool} (g : Good W c X s) {t : TxAbs} (ht : W t) :
    Good W c X (removeTransaction s t true) := by
  unfold removeTransaction
  simp only [if_true]
  exact good_rem g (remSpec_removeRec_tx U g ht)

theorem remSpec_removeDoubleSpends (U : Universe W) {s : Pool} (g : Good W c X s) (t : TxAbs) :
    RemSpec s (removeDoubleSpends s t) := by
  unfold removeDoubleSpends
  refine foldl_inv (fun b => RemSpec s b) _ ?_ _ _ (RemSpec.refl g.ok)
  intro b x hb
  have gb : Good W c X b := good_rem g hb
  cases hs : b.spender x with
  | none => exact hb
  | some r =>
    simp only
    split
    · obtain ⟨hr1, _⟩ := (gb.ok.idx _ r).1 (spender_some hs)
      exact hb.trans (removeRec_spec (fuelOf b) b r.id r.nOuts gb.ok (gb.ranked U) (cnt_lt_fuel b r.id)
        (fun q hq e => by rw [gb.ok.idFun q hq r hr1 e]; exact Nat.le_refl _)).1
    · exact hb

theorem good_removeDoubleSpends (U : Universe W) {s : Pool} (g : Good W c X s) (t : TxAbs) :
    Good W c X (removeDoubleSpends s t) :=
  good_rem g (remSpec_removeDoubleSpends U g t)

theorem candidates_sub {s : Pool} {x : OutPoint} {prio : List Nat} {o : TxAbs} (h : o ∈ candidates s x prio) :
    ∃ p ∈ s.byPrev, p.2 = o := by
  have hcs : ∀ o, o ∈ orphansSpending s x → ∃ p ∈ s.byPrev, p.2 = o := by
    intro o ho
    unfold orphansSpending at ho
    obtain ⟨p, hp, rfl⟩ := List.mem_map.1 ho
    exact ⟨p, (List.mem_filter.1 hp).1, rfl⟩
  unfold candidates at h
  simp only [List.mem_append, List.mem_filterMap, List.mem_filter] at h
  rcases h with ⟨id, _, hf⟩ | ⟨h, _⟩
  · exact hcs o (List.mem_of_find?_eq_some hf)
  · exact hcs o h

theorem tryCandidates_good (U : Universe W) (pol : Policy) : ∀ (l : List TxAbs) (s : Pool), Good W c X s →
    (∀ o ∈ l, W o) → Good W c X (tryCandidates pol c s l).1
  | [], s, g, _ => by simpa [tryCandidates] using g
  | o :: rest, s, g, hl => by
    unfold tryCandidates
    have h := @good_accept W c X U pol s o true true false g (hl o (by simp))
    split
    · rename_i s' _ heq
      rw [heq] at h
      exact good_orph h (removeOrphan_rel s' o true)
    · rename_i s' _ heq
      rw [heq] at h
      exact tryCandidates_good U pol rest s' h (fun o' ho' => hl o' (by simp [ho']))
    · rename_i s' heq
      rw [heq] at h
      exact good_orph h (removeOrphan_rel s' o false)

theorem processItem_good (U : Universe W) (pol : Policy) (prio : List Nat) (s : Pool) (item : TxAbs)
    (g : Good W c X s) : Good W c X (processItem pol c prio s item).1 := by
  unfold processItem
  apply foldl_inv (fun (acc : Pool × List TxAbs) => Good W c X acc.1) _ _ _ _ g
  intro b a hb
  have := tryCandidates_good U pol (candidates b.1 ⟨item.id, a⟩ prio) b.1 hb
    (fun o ho => by obtain ⟨p, hp, rfl⟩ := candidates_sub ho; exact hb.wB p hp)
  split
  · rename_i s' o heq; rw [heq] at this; exact this
  · rename_i s' heq; rw [heq] at this; exact this

theorem processLoop_good (U : Universe W) (pol : Policy) (prio : List Nat) : ∀ (f : Nat) (s : Pool)
    (q acc : List TxAbs), Good W c X s → Good W c X (processLoop pol c prio f s q acc).1
  | 0, s, _, _, g => by simpa [processLoop] using g
  | f + 1, s, [], _, g => by simpa [processLoop] using g
  | f + 1, s, item :: q, acc, g => by
    unfold processLoop
    exact processLoop_good U pol prio f _ _ _ (processItem_good U pol prio s item g)

theorem processOrphans_good (U : Universe W) (pol : Policy) (s : Pool) (t : TxAbs) (prio : List Nat)
    (g : Good W c X s) : Good W c X (processOrphans pol c s t prio).1 := by
  unfold processOrphans
  simp only
  apply foldl_inv (Good W c X) _ _ _ _
  · exact good_orph (processLoop_good U pol prio _ s [t] [] g) (removeOrphanDoubleSpends_rel _ t)
  · intro b a hb
    exact good_orph hb (removeOrphanDoubleSpends_rel b a)

theorem processTransaction_good (U : Universe W) (pol : Policy) (s : Pool) (t : TxAbs) (ao rl : Bool)
    (tag ev : Nat) (prio : List Nat) (g : Good W c X s) (ht : W t) :
    Good W c X (processTransaction pol c s t ao rl tag ev prio).1 := by
  unfold processTransaction
  have h := @good_accept W c X U pol s t true rl true g ht
  split
  · exact g
  · rename_i s1 heq
    rw [heq] at h
    exact processOrphans_good U pol s1 t prio h
  · split
    · exact g
    · split
      · exact g
      · exact good_addOrphan g pol ht tag ev

theorem markStale_good {s : Pool} (g : Good W c X s) : Good W c X (markStale s) := by
  have ht : (markStale s).txs = s.txs := by
    simp [markStale, Pool.txs, List.map_map, Function.comp_def]
  refine ⟨markStale_ok g.ok, by rw [ht]; exact g.wP, g.wO, g.wB, by unfold AvailX; rw [ht]; exact g.av⟩

theorem staleSpenders_good {s : Pool} (b : Block) (g : Good W c X s) : Good W c X (staleSpenders b s) := by
  have ht := staleSpenders_txs b s
  refine ⟨staleSpenders_ok b g.ok, by rw [ht]; exact g.wP, g.wO, g.wB, by unfold AvailX; rw [ht]; exact g.av⟩

end BV.C10.Lemmas
