/-
C10 — helper lemmas, part 2: what an accepted `checkAccept` guarantees, and `maybeAccept`.
-/
import BV.C10.Lemmas
namespace BV.C10.Lemmas
open BV.C10 BV.C10.Spec

structure AcceptFacts (pol : Policy) (c : Chain) (s : Pool) (t : TxAbs) (isNew rl rdo : Bool)
    (cs : List TxAbs) : Prop where
  notInPool : s.inPool t.id = false
  notOrphan : rdo = true → s.inOrphans t.id = false
  size : ¬ t.ssize < pol.minStdSize
  sane : t.sane = true
  nodup : t.ins.Nodup
  notCb : t.coinbase = false
  final : isFinal t (c.height + 1) c.mtp = true
  notInChain : (List.range t.nOuts).any (fun i => c.has ⟨t.id, i⟩) = false
  avail : ∀ x ∈ t.ins, available c s x = true
  mature : ∀ x ∈ t.ins, immature c x = false
  values : t.valuesOk = true
  std : pol.acceptNonStd = true ∨ t.std = true
  seqLock : seqLocksOk c t = true
  sig : t.sigOk = true
  fee : relayFeeMet pol c t isNew rl = true
  scripts : t.scriptsOk = true
  repl : (checkPoolDoubleSpend pol s t = some false ∧ cs = []) ∨
         (checkPoolDoubleSpend pol s t = some true ∧ validateReplacement pol s t = .ok cs)

theorem checkTail_ok_inv {pol : Policy} {s : Pool} {t : TxAbs} {isRepl : Bool} {cs : List TxAbs}
    (h : checkTail pol s t isRepl = .ok cs) :
    t.scriptsOk = true ∧ ((isRepl = false ∧ cs = []) ∨ (isRepl = true ∧ validateReplacement pol s t = .ok cs)) := by
  unfold checkTail at h
  cases isRepl
  · simp only [Bool.false_eq_true, if_false] at h
    split at h
    · cases h
    · rename_i hs; cases h; exact ⟨by simpa using hs, Or.inl ⟨rfl, rfl⟩⟩
  · simp only [if_true] at h
    split at h
    · cases h
    · rename_i conflicts hv
      split at h
      · cases h
      · rename_i hs; cases h; exact ⟨by simpa using hs, Or.inr ⟨rfl, hv⟩⟩

theorem checkInputs_ok_inv {pol : Policy} {c : Chain} {s : Pool} {t : TxAbs} {isNew rl isRepl : Bool}
    {cs : List TxAbs} (h : checkInputs pol c s t isNew rl isRepl = .ok cs) :
    (∀ x ∈ t.ins, immature c x = false) ∧ t.valuesOk = true ∧ (pol.acceptNonStd = true ∨ t.std = true) ∧
    seqLocksOk c t = true ∧ t.sigOk = true ∧ relayFeeMet pol c t isNew rl = true ∧
    checkTail pol s t isRepl = .ok cs := by
  unfold checkInputs at h
  split at h
  · cases h
  rename_i h8
  split at h
  · cases h
  rename_i h9
  split at h
  · cases h
  rename_i h10
  split at h
  · cases h
  rename_i h11
  split at h
  · cases h
  rename_i h12
  simp only [Bool.or_eq_true, Bool.not_eq_true', not_or, Bool.not_eq_false, Bool.not_eq_true] at h8
  refine ⟨?_, h8.2, ?_, by simpa using h10, by simpa using h11, by simpa using h12, h⟩
  · intro x hx
    have := h8.1
    simp only [List.any_eq_false] at this
    simpa using this x hx
  · by_cases ha : pol.acceptNonStd = true
    · exact Or.inl ha
    · right
      simp only [Bool.and_eq_true, Bool.not_eq_true', not_and, Bool.not_eq_false] at h9
      exact h9 (by simpa using ha)

theorem checkFetched_ok_inv {pol : Policy} {c : Chain} {s : Pool} {t : TxAbs} {isNew rl isRepl : Bool}
    {cs : List TxAbs} (h : checkFetched pol c s t isNew rl isRepl = .ok cs) :
    (List.range t.nOuts).any (fun i => c.has ⟨t.id, i⟩) = false ∧ (∀ x ∈ t.ins, available c s x = true) ∧
    checkInputs pol c s t isNew rl isRepl = .ok cs := by
  unfold checkFetched at h
  split at h
  · cases h
  rename_i h6
  split at h
  · cases h
  rename_i h7
  refine ⟨by simpa using h6, ?_, h⟩
  intro x hx
  by_cases ha : available c s x = true
  · exact ha
  · have hm : x ∈ t.ins.filter (fun x => !available c s x) := by
      simp only [List.mem_filter, Bool.not_eq_true']; exact ⟨hx, by simpa using ha⟩
    have h7' : t.ins.filter (fun x => !available c s x) = [] := by simpa using h7
    rw [h7'] at hm; cases hm

theorem checkAccept_ok_inv {pol : Policy} {c : Chain} {s : Pool} {t : TxAbs} {isNew rl rdo : Bool}
    {cs : List TxAbs} (h : checkAccept pol c s t isNew rl rdo = .ok cs) :
    AcceptFacts pol c s t isNew rl rdo cs := by
  unfold checkAccept at h
  split at h
  · cases h
  rename_i h1
  split at h
  · cases h
  rename_i h2
  split at h
  · cases h
  rename_i h3
  split at h
  · cases h
  rename_i h4
  split at h
  · cases h
  rename_i h5
  split at h
  · cases h
  rename_i isRepl hdsp
  simp only [Bool.or_eq_true, Bool.and_eq_true, not_or, not_and, Bool.not_eq_true] at h1
  simp only [Bool.or_eq_true, Bool.not_eq_true', decide_eq_false_iff_not, not_or, Bool.not_eq_false,
    Decidable.not_not] at h3
  simp only [Bool.not_eq_true', Bool.not_eq_false] at h5
  obtain ⟨f1, f2, f3⟩ := checkFetched_ok_inv h
  obtain ⟨g1, g2, g3, g4, g5, g6, g7⟩ := checkInputs_ok_inv f3
  obtain ⟨t1, t2⟩ := checkTail_ok_inv g7
  refine ⟨h1.1, fun e => h1.2 e, h2, h3.1, h3.2, by simpa using h4, h5, f1, f2, g1, g2, g3, g4, g5, g6, t1, ?_⟩
  rcases t2 with ⟨rfl, rfl⟩ | ⟨rfl, hv⟩
  · exact Or.inl ⟨hdsp, rfl⟩
  · exact Or.inr ⟨hdsp, hv⟩

/-! ### conflict sets -/

def hasId (l : List TxAbs) (id : Nat) : Prop := ∃ u ∈ l, u.id = id

theorem insertTx_mono {l : List TxAbs} {t : TxAbs} {id : Nat} (h : hasId l id) : hasId (insertTx l t) id := by
  unfold insertTx; split
  · exact h
  · obtain ⟨u, hu, e⟩ := h; exact ⟨u, List.mem_append_left _ hu, e⟩

theorem insertTx_self (l : List TxAbs) (t : TxAbs) : hasId (insertTx l t) t.id := by
  unfold insertTx; split
  · rename_i h
    simp only [List.any_eq_true, decide_eq_true_eq] at h
    exact h
  · exact ⟨t, by simp, rfl⟩

theorem insertTx_sub {l : List TxAbs} {t u : TxAbs} (h : u ∈ insertTx l t) : u ∈ l ∨ u = t := by
  unfold insertTx at h; split at h
  · exact Or.inl h
  · simpa using h

theorem unionTx_mono {l : List TxAbs} (m : List TxAbs) {id : Nat} (h : hasId l id) : hasId (unionTx l m) id := by
  unfold unionTx
  exact foldl_inv (fun l => hasId l id) insertTx (fun b a hb => insertTx_mono hb) m l h

theorem unionTx_sub : ∀ (m l : List TxAbs) {u : TxAbs}, u ∈ unionTx l m → u ∈ l ∨ u ∈ m
  | [], l, u, h => Or.inl (by simpa [unionTx] using h)
  | a :: m, l, u, h => by
    have h' : u ∈ unionTx (insertTx l a) m := by simpa [unionTx] using h
    rcases unionTx_sub m _ h' with h1 | h1
    · rcases insertTx_sub h1 with h2 | h2
      · exact Or.inl h2
      · exact Or.inr (by simp [h2])
    · exact Or.inr (by simp [h1])

def conflictStep (s : Pool) (acc : List TxAbs) (x : OutPoint) : List TxAbs :=
  match s.spender x with
  | some c => unionTx (insertTx acc c) (txDescendants (fuelOf s) s c)
  | none => acc

theorem txConflicts_eq (s : Pool) (t : TxAbs) : txConflicts s t = t.ins.foldl (conflictStep s) [] := rfl

theorem conflictStep_mono {s : Pool} {acc : List TxAbs} {x : OutPoint} {id : Nat} (h : hasId acc id) :
    hasId (conflictStep s acc x) id := by
  unfold conflictStep; split
  · exact unionTx_mono _ (insertTx_mono h)
  · exact h

theorem conflictFold_mono {s : Pool} (l : List OutPoint) {acc : List TxAbs} {id : Nat} (h : hasId acc id) :
    hasId (l.foldl (conflictStep s) acc) id :=
  foldl_inv (fun a => hasId a id) (conflictStep s) (fun _ _ hb => conflictStep_mono hb) l acc h

theorem conflictFold_direct {s : Pool} : ∀ (l : List OutPoint) (acc : List TxAbs) (x : OutPoint) (c : TxAbs),
    x ∈ l → s.spender x = some c → hasId (l.foldl (conflictStep s) acc) c.id
  | [], _, _, _, hx, _ => by cases hx
  | y :: l, acc, x, c, hx, hs => by
    simp only [List.foldl_cons]
    rcases List.mem_cons.1 hx with rfl | hx'
    · apply conflictFold_mono
      unfold conflictStep; rw [hs]
      exact unionTx_mono _ (insertTx_self _ _)
    · exact conflictFold_direct l _ x c hx' hs

/-- every pooled spender of an input of `t` is in `txConflicts` -/
theorem txConflicts_direct {s : Pool} {t : TxAbs} {x : OutPoint} {c : TxAbs} (hx : x ∈ t.ins)
    (hs : s.spender x = some c) : hasId (txConflicts s t) c.id := by
  rw [txConflicts_eq]; exact conflictFold_direct _ _ x c hx hs

/-! ### removing a conflict set -/

def removeAll (s : Pool) (cs : List TxAbs) : Pool := cs.foldl (fun s cf => removeOne s cf.id) s

theorem removeAll_txs : ∀ (cs : List TxAbs) (s : Pool) (u : TxAbs),
    u ∈ (removeAll s cs).txs ↔ u ∈ s.txs ∧ ∀ c ∈ cs, u.id ≠ c.id
  | [], s, u => by simp [removeAll]
  | c :: cs, s, u => by
    have := removeAll_txs cs (removeOne s c.id) u
    simp only [removeAll, List.foldl_cons] at this ⊢
    rw [this, removeOne_txs]
    simp only [List.mem_cons, forall_eq_or_imp]
    constructor
    · rintro ⟨⟨a, b⟩, d⟩; exact ⟨a, b, d⟩
    · rintro ⟨a, b, d⟩; exact ⟨⟨a, b⟩, d⟩

theorem removeAll_ok {s : Pool} (ok : PoolOk s) (cs : List TxAbs) : PoolOk (removeAll s cs) :=
  foldl_inv PoolOk _ (fun b a hb => removeOne_ok hb a.id) cs s ok

theorem removeAll_orphans (s : Pool) (cs : List TxAbs) :
    (removeAll s cs).orphans = s.orphans ∧ (removeAll s cs).byPrev = s.byPrev := by
  unfold removeAll
  apply foldl_inv (fun b => b.orphans = s.orphans ∧ b.byPrev = s.byPrev) _ _ cs s ⟨rfl, rfl⟩
  intro b a hb
  have := removeOne_orphans b a.id
  exact ⟨this.1.trans hb.1, this.2.trans hb.2⟩

theorem checkPoolDoubleSpend_false {pol : Policy} {s : Pool} {t : TxAbs}
    (h : checkPoolDoubleSpend pol s t = some false) : ∀ x ∈ t.ins, s.spender x = none := by
  unfold checkPoolDoubleSpend at h
  simp only at h
  split at h
  · cases h
  · simp only [Option.some.injEq, Bool.not_eq_false', List.isEmpty_iff] at h
    intro x hx
    have := List.filterMap_eq_nil_iff.1 h x hx
    exact this

theorem validateReplacement_conflicts {pol : Policy} {s : Pool} {t : TxAbs} {cs : List TxAbs}
    (h : validateReplacement pol s t = .ok cs) : cs = txConflicts s t := by
  unfold validateReplacement at h
  simp only at h
  split at h
  · cases h
  split at h
  · cases h
  split at h
  · cases h
  split at h
  · cases h
  split at h
  · cases h
  · cases h; rfl

/-- the accepted transaction's inputs are not spent by anything that stays in the pool -/
theorem accept_inputs_free {pol : Policy} {c : Chain} {s : Pool} {t : TxAbs} {isNew rl rdo : Bool}
    {cs : List TxAbs} (ok : PoolOk s) (hf : AcceptFacts pol c s t isNew rl rdo cs) :
    ∀ x ∈ t.ins, ∀ u, (x, u) ∉ (removeAll s cs).spent := by
  intro x hx u hu
  have ok' := removeAll_ok ok cs
  obtain ⟨hu1, hu2⟩ := (ok'.idx x u).1 hu
  obtain ⟨hu3, hu4⟩ := (removeAll_txs cs s u).1 hu1
  have hsp : s.spender x = some u := spender_of_mem ok ((ok.idx x u).2 ⟨hu3, hu2⟩)
  rcases hf.repl with ⟨h1, _⟩ | ⟨_, h2⟩
  · have := checkPoolDoubleSpend_false h1 x hx
    rw [hsp] at this; cases this
  · have hcs := validateReplacement_conflicts h2
    obtain ⟨c', hc', e⟩ := txConflicts_direct hx hsp
    rw [← hcs] at hc'
    exact hu4 c' hc' e.symm

theorem maybeAccept_eq {pol : Policy} {c : Chain} {s : Pool} {t : TxAbs} {isNew rl rdo : Bool} :
    maybeAccept pol c s t isNew rl rdo =
      match checkAccept pol c s t isNew rl rdo with
      | .err r => (s, .err r)
      | .missing ps => (s, .missing ps)
      | .ok cs => (addTx (removeAll s cs) t c.height, .ok) := rfl

theorem maybeAccept_ok {pol : Policy} {c : Chain} {s : Pool} {t : TxAbs} {isNew rl rdo : Bool}
    (ok : PoolOk s) : PoolOk (maybeAccept pol c s t isNew rl rdo).1 := by
  rw [maybeAccept_eq]
  cases h : checkAccept pol c s t isNew rl rdo with
  | err r => exact ok
  | missing ps => exact ok
  | ok cs =>
    have hf := checkAccept_ok_inv h
    simp only
    apply addTx_ok (removeAll_ok ok cs)
    · intro u hu e
      have hu' := ((removeAll_txs cs s u).1 hu).1
      have : s.inPool t.id = true := inPool_iff.2 ⟨u, hu', e⟩
      rw [hf.notInPool] at this; cases this
    · exact accept_inputs_free ok hf

theorem maybeAccept_orphans {pol : Policy} {c : Chain} {s : Pool} {t : TxAbs} {isNew rl rdo : Bool} :
    (maybeAccept pol c s t isNew rl rdo).1.orphans = s.orphans ∧
    (maybeAccept pol c s t isNew rl rdo).1.byPrev = s.byPrev := by
  rw [maybeAccept_eq]
  cases h : checkAccept pol c s t isNew rl rdo with
  | err r => exact ⟨rfl, rfl⟩
  | missing ps => exact ⟨rfl, rfl⟩
  | ok cs =>
    simp only
    have h1 := addTx_orphans (removeAll s cs) t c.height
    have h2 := removeAll_orphans s cs
    exact ⟨h1.1.trans h2.1, h1.2.trans h2.2⟩

/-- a rejected or orphaned submission leaves the pool as it was -/
theorem maybeAccept_unchanged {pol : Policy} {c : Chain} {s : Pool} {t : TxAbs} {isNew rl rdo : Bool}
    (h : ∀ s', maybeAccept pol c s t isNew rl rdo ≠ (s', .ok)) : (maybeAccept pol c s t isNew rl rdo).1 = s := by
  rw [maybeAccept_eq] at h ⊢
  cases hc : checkAccept pol c s t isNew rl rdo with
  | err r => rfl
  | missing ps => rfl
  | ok cs => rw [hc] at h; exact absurd rfl (h _)

end BV.C10.Lemmas
