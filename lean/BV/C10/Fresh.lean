/-
C10 — helper lemmas, part 13: the admission conditions of every pooled transaction persist while chain
height and median time do not move backwards (`fresh` entries), through every operation.
-/
import BV.C10.Compose
namespace BV.C10.Lemmas
open BV.C10 BV.C10.Spec

/-- fresh entries still meet their admission conditions against the chain view `c` -/
def FL (c : Chain) (s : Pool) : Prop := ∀ e ∈ s.pool, e.fresh = true → Local c e.tx

/-- every entry of `a` is an entry of `b` or meets the admission conditions against `c` -/
def EntRel (c : Chain) (a b : Pool) : Prop := ∀ e ∈ a.pool, e ∈ b.pool ∨ Local c e.tx

theorem EntRel.refl (c : Chain) (a : Pool) : EntRel c a a := fun _ h => Or.inl h
theorem EntRel.trans {c : Chain} {a b d : Pool} (h1 : EntRel c a b) (h2 : EntRel c b d) : EntRel c a d := by
  intro e he
  rcases h1 e he with h | h
  · exact h2 e h
  · exact Or.inr h
theorem EntRel.of_eq {c : Chain} {a b : Pool} (h : a.pool = b.pool) : EntRel c a b := by
  intro e he; rw [h] at he; exact Or.inl he
theorem EntRel.of_sub {c : Chain} {a b : Pool} (h : ∀ e ∈ a.pool, e ∈ b.pool) : EntRel c a b :=
  fun e he => Or.inl (h e he)

theorem fl_of_rel {c : Chain} {a b : Pool} (h : EntRel c a b) (hb : FL c b) : FL c a := by
  intro e he hf
  rcases h e he with h1 | h1
  · exact hb e h1 hf
  · exact h1

theorem removeOne_ent {c : Chain} (s : Pool) (id : Nat) : EntRel c (removeOne s id) s :=
  EntRel.of_sub (fun _ he => (removeOne_sublist s id).subset he)

theorem removeRec_pool_sub : ∀ (f : Nat) (s : Pool) (id n : Nat), ∀ e ∈ (removeRec f s id n).pool, e ∈ s.pool
  | 0, s, _, _ => by simp [removeRec]
  | f + 1, s, id, n => by
    unfold removeRec
    intro e he
    have h1 := (removeOne_sublist _ id).subset he
    revert h1
    generalize e = e'
    refine foldl_inv (fun (b : Pool) => ∀ e ∈ b.pool, e ∈ s.pool) _ ?_ _ _ (fun _ h => h) e'
    intro b a hb
    cases h : b.spender ⟨id, a⟩ with
    | none => simpa [h] using hb
    | some r => simp only; intro e he; exact hb e (removeRec_pool_sub f b r.id r.nOuts e he)

theorem removeRec_ent {c : Chain} (f : Nat) (s : Pool) (id n : Nat) : EntRel c (removeRec f s id n) s :=
  EntRel.of_sub (removeRec_pool_sub f s id n)

theorem removeTransaction_ent {c : Chain} (s : Pool) (t : TxAbs) (red : Bool) : EntRel c (removeTransaction s t red) s := by
  unfold removeTransaction
  split
  · exact removeRec_ent _ s t.id t.nOuts
  · exact removeOne_ent s t.id

theorem removeDoubleSpends_ent {c : Chain} (s : Pool) (t : TxAbs) : EntRel c (removeDoubleSpends s t) s := by
  unfold removeDoubleSpends
  apply foldl_inv (fun b => EntRel c b s) _ _ _ _ (EntRel.refl c s)
  intro b a hb
  cases h : b.spender a with
  | none => simpa [h] using hb
  | some r =>
    simp only
    split
    · exact EntRel.trans (removeRec_ent _ b r.id r.nOuts) hb
    · exact hb

theorem removeAll_ent {c : Chain} (s : Pool) (cs : List TxAbs) : EntRel c (removeAll s cs) s := by
  unfold removeAll
  apply foldl_inv (fun b => EntRel c b s) _ _ _ _ (EntRel.refl c s)
  intro b a hb
  exact EntRel.trans (removeOne_ent b a.id) hb

theorem maybeAccept_ent {pol : Policy} {c : Chain} {s : Pool} {t : TxAbs} {isNew rl rdo : Bool} :
    EntRel c (maybeAccept pol c s t isNew rl rdo).1 s := by
  rw [maybeAccept_eq]
  cases h : checkAccept pol c s t isNew rl rdo with
  | err r => exact EntRel.refl c s
  | missing ps => exact EntRel.refl c s
  | ok cs =>
    simp only
    intro e he
    unfold addTx at he
    simp only [List.mem_cons, List.mem_filter] at he
    rcases he with rfl | ⟨he, _⟩
    · exact Or.inr (local_of_accept h)
    · exact removeAll_ent s cs e he

theorem same_ent {c : Chain} {a b : Pool} (h : SameMain a b) : EntRel c a b := EntRel.of_eq h.1

theorem tryCandidates_ent (pol : Policy) (c : Chain) : ∀ (l : List TxAbs) (s : Pool), EntRel c (tryCandidates pol c s l).1 s
  | [], s => by simp [tryCandidates, EntRel.refl]
  | o :: rest, s => by
    unfold tryCandidates
    have h := @maybeAccept_ent pol c s o true true false
    split
    · rename_i s' _ heq; rw [heq] at h; exact EntRel.trans (same_ent (removeOrphan_same s' o true)) h
    · rename_i s' _ heq; rw [heq] at h; exact EntRel.trans (tryCandidates_ent pol c rest s') h
    · rename_i s' heq; rw [heq] at h; exact EntRel.trans (same_ent (removeOrphan_same s' o false)) h

theorem processItem_ent (pol : Policy) (c : Chain) (prio : List Nat) (s : Pool) (item : TxAbs) :
    EntRel c (processItem pol c prio s item).1 s := by
  unfold processItem
  apply foldl_inv (fun (acc : Pool × List TxAbs) => EntRel c acc.1 s) _ _ _ _ (EntRel.refl c s)
  intro b a hb
  have := tryCandidates_ent pol c (candidates b.1 ⟨item.id, a⟩ prio) b.1
  split
  · rename_i s' o heq; rw [heq] at this; exact EntRel.trans this hb
  · rename_i s' heq; rw [heq] at this; exact EntRel.trans this hb

theorem processLoop_ent (pol : Policy) (c : Chain) (prio : List Nat) : ∀ (f : Nat) (s : Pool) (q acc : List TxAbs),
    EntRel c (processLoop pol c prio f s q acc).1 s
  | 0, s, _, _ => by simp [processLoop, EntRel.refl]
  | f + 1, s, [], _ => by simp [processLoop, EntRel.refl]
  | f + 1, s, item :: q, acc => by
    unfold processLoop
    exact EntRel.trans (processLoop_ent pol c prio f _ _ _) (processItem_ent pol c prio s item)

theorem processOrphans_ent (pol : Policy) (c : Chain) (s : Pool) (t : TxAbs) (prio : List Nat) :
    EntRel c (processOrphans pol c s t prio).1 s := by
  unfold processOrphans
  simp only
  apply foldl_inv (fun b => EntRel c b s) _ _ _ _
  · exact EntRel.trans (same_ent (removeOrphanDoubleSpends_same _ t)) (processLoop_ent pol c prio _ s [t] [])
  · intro b a hb
    exact EntRel.trans (same_ent (removeOrphanDoubleSpends_same b a)) hb

theorem processTransaction_ent (pol : Policy) (c : Chain) (s : Pool) (t : TxAbs) (ao rl : Bool) (tag ev : Nat)
    (prio : List Nat) : EntRel c (processTransaction pol c s t ao rl tag ev prio).1 s := by
  unfold processTransaction
  have h := @maybeAccept_ent pol c s t true rl true
  split
  · exact EntRel.refl c s
  · rename_i s1 heq
    rw [heq] at h
    exact EntRel.trans (processOrphans_ent pol c s1 t prio) h
  · split
    · exact EntRel.refl c s
    · split
      · exact EntRel.refl c s
      · exact same_ent (addOrphan_same pol s t tag ev)

theorem connectTx_ent (pol : Policy) (c : Chain) (prio : List Nat) (s : Pool) (t : TxAbs) :
    EntRel c (connectTx pol c prio s t) s := by
  unfold connectTx
  apply EntRel.trans (processOrphans_ent pol c _ t prio)
  apply EntRel.trans (same_ent (removeOrphan_same _ t false))
  apply EntRel.trans (removeDoubleSpends_ent _ t)
  exact removeTransaction_ent s t false

theorem disconnectTx_ent (pol : Policy) (c : Chain) (s : Pool) (t : TxAbs) : EntRel c (disconnectTx pol c s t) s := by
  unfold disconnectTx
  have h := @maybeAccept_ent pol c s t false false true
  cases hm : maybeAccept pol c s t false false true with
  | mk s' r =>
    rw [hm] at h
    cases r <;> simp only <;> first | exact h | exact EntRel.trans (removeTransaction_ent s' t true) h

theorem fl_markStale (c : Chain) (s : Pool) : FL c (markStale s) := by
  intro e he hf
  unfold markStale at he
  simp only [List.mem_map] at he
  obtain ⟨e', _, rfl⟩ := he
  simp at hf

/-! ### a connected block -/

theorem foldApply_mem {h : Nat} : ∀ (l : List TxAbs) (u0 : List Utxo) (u : Utxo),
    u ∈ l.foldl (applyTx h false) u0 → u ∈ u0 ∨ u.cb = false
  | [], _, _, hu => Or.inl hu
  | T :: l, u0, u, hu => by
    simp only [List.foldl_cons] at hu
    rcases foldApply_mem l _ u hu with h1 | h1
    · unfold applyTx at h1
      simp only [List.mem_append, List.mem_filter] at h1
      rcases h1 with ⟨h2, _⟩ | h2
      · exact Or.inl h2
      · right
        unfold outsOf at h2
        simp only [List.mem_map] at h2
        obtain ⟨i, _, rfl⟩ := h2
        rfl
    · exact Or.inr h1

/-! ### the utxo entry of an outpoint the block does not spend -/

def findOp (l : List Utxo) (x : OutPoint) : Option Utxo := l.find? (fun u => u.op = x)

theorem chain_find_eq (c : Chain) (x : OutPoint) : c.find x = findOp c.utxo x := rfl

theorem findOp_filter {ins : List OutPoint} {x : OutPoint} (hx : x ∉ ins) : ∀ (l : List Utxo),
    findOp (l.filter (fun e => e.op ∉ ins)) x = findOp l x
  | [] => rfl
  | e :: l => by
    unfold findOp at *
    by_cases he : e.op ∈ ins
    · have hne : e.op ≠ x := fun h => hx (h ▸ he)
      simp only [List.filter_cons, he, not_true_eq_false, decide_false, Bool.false_eq_true, if_false,
        List.find?_cons, hne]
      exact findOp_filter hx l
    · simp only [List.filter_cons, he, not_false_eq_true, decide_true, if_true, List.find?_cons]
      split
      · rfl
      · exact findOp_filter hx l

theorem findOp_append (l m : List Utxo) (x : OutPoint) :
    findOp (l ++ m) x = (findOp l x).or (findOp m x) := by
  unfold findOp; exact List.find?_append

theorem findOp_outsOf {h : Nat} {cb : Bool} {t : TxAbs} {x : OutPoint} {u : Utxo}
    (hf : findOp (outsOf h cb t) x = some u) : u.height = h := by
  unfold findOp at hf
  have := List.mem_of_find?_eq_some hf
  unfold outsOf at this
  simp only [List.mem_map] at this
  obtain ⟨i, _, rfl⟩ := this
  rfl

/-- an outpoint no block transaction spends keeps its entry; one that had none gets none or one created at
the new height -/
theorem findOp_fold {h : Nat} : ∀ (l : List TxAbs) (u0 : List Utxo) (x : OutPoint), (∀ T ∈ l, x ∉ T.ins) →
    (∀ u, findOp u0 x = some u → findOp (l.foldl (applyTx h false) u0) x = some u) ∧
    (findOp u0 x = none → findOp (l.foldl (applyTx h false) u0) x = none ∨
      ∃ u, findOp (l.foldl (applyTx h false) u0) x = some u ∧ u.height = h)
  | [], _, _, _ => ⟨fun _ hu => hu, fun hn => Or.inl hn⟩
  | T :: l, u0, x, hx => by
    simp only [List.foldl_cons]
    have hT : x ∉ T.ins := hx T (by simp)
    have ih := findOp_fold (h := h) l (applyTx h false u0 T) x (fun T' h' => hx T' (by simp [h']))
    have happ : findOp (applyTx h false u0 T) x = (findOp u0 x).or (findOp (outsOf h false T) x) := by
      unfold applyTx; rw [findOp_append, findOp_filter hT]
    constructor
    · intro u hu
      apply ih.1
      rw [happ, hu]; rfl
    · intro hn
      rw [hn] at happ
      simp only [Option.none_or] at happ
      cases ho : findOp (outsOf h false T) x with
      | none => rw [ho] at happ; exact ih.2 happ
      | some u' =>
        rw [ho] at happ
        exact Or.inr ⟨u', ih.1 u' happ, findOp_outsOf ho⟩

theorem connect_find {c : Chain} {b : Block} {x : OutPoint} (hx : ∀ T ∈ b.txs, x ∉ T.ins) :
    (∀ u, c.find x = some u → (c.connect b).find x = some u) ∧
    (c.find x = none → (c.connect b).find x = none ∨
      ∃ u, (c.connect b).find x = some u ∧ u.height = c.height + 1) := by
  have hf := findOp_fold (h := c.height + 1) b.txs c.utxo x hx
  have hc : (c.connect b).find x =
      (findOp (b.txs.foldl (applyTx (c.height + 1) false) c.utxo) x).or (findOp (outsOf (c.height + 1) true b.cb) x) := by
    rw [chain_find_eq]; unfold Chain.connect; simp only; rw [findOp_append]
  constructor
  · intro u hu
    rw [hc, hf.1 u (by rw [← chain_find_eq]; exact hu)]; rfl
  · intro hn
    rcases hf.2 (by rw [← chain_find_eq]; exact hn) with h1 | ⟨u, h1, h2⟩
    · rw [hc, h1]
      simp only [Option.none_or]
      cases ho : findOp (outsOf (c.height + 1) true b.cb) x with
      | none => exact Or.inl rfl
      | some u' => exact Or.inr ⟨u', rfl, findOp_outsOf ho⟩
    · exact Or.inr ⟨u, by rw [hc, h1]; rfl, h2⟩

theorem mtpAt_connect (c : Chain) (b : Block) (h : Nat) (hh : h ≤ c.height) : mtpAt (c.connect b) h = mtpAt c h := by
  have h1 : (c.connect b).height = c.height + 1 := by simp [Chain.connect]
  obtain ⟨undo, h2⟩ : ∃ undo, (c.connect b).stack = ⟨b, undo, c.mtp⟩ :: c.stack := ⟨_, rfl⟩
  unfold mtpAt
  rw [h1, h2]
  have hlt : ¬ (c.height + 1 ≤ h) := by omega
  simp only [hlt, if_false]
  by_cases he : h = c.height
  · subst he
    simp
  · have hl : ¬ (c.height ≤ h) := by omega
    simp only [hl, if_false]
    have : c.height + 1 - h - 1 = (c.height - h - 1) + 1 := by omega
    rw [this, List.drop_succ_cons]

theorem mtpAt_tip (c : Chain) (h : Nat) (hh : c.height ≤ h) : mtpAt c h = c.mtp := by
  unfold mtpAt; simp [hh]

/-- BIP68 maturity of one input persists over a connected block that does not spend it -/
theorem inputMature_connect {c : Chain} {b : Block} {x : OutPoint} {q : Nat} (hm : c.mtp ≤ b.mtp)
    (hx : ∀ T ∈ b.txs, x ∉ T.ins)
    (h : C13.Lemmas.inputMature (seqInput c x q) (c.height + 1) c.mtp) :
    C13.Lemmas.inputMature (seqInput (c.connect b) x q) ((c.connect b).height + 1) (c.connect b).mtp := by
  have hh : (c.connect b).height = c.height + 1 ∧ (c.connect b).mtp = b.mtp := by simp [Chain.connect]
  obtain ⟨f1, f2⟩ := connect_find (c := c) (b := b) hx
  unfold C13.Lemmas.inputMature at h ⊢
  rw [hh.1, hh.2]
  cases hc : c.find x with
  | some u =>
    have hc' := f1 u hc
    unfold seqInput at h ⊢
    rw [hc] at h; rw [hc']
    simp only at h ⊢
    have hmt : (mtpAt (c.connect b) (u.height - 1) : Int) ≤ mtpAt c (u.height - 1) ∨
        (c.height ≤ u.height - 1) := by
      by_cases hle : u.height - 1 ≤ c.height
      · left; rw [mtpAt_connect c b _ hle]; exact Int.le_refl _
      · right; omega
    rcases h with h | ⟨h1, h2⟩ | ⟨h1, h2⟩
    · exact Or.inl h
    · right; left
      refine ⟨h1, ?_⟩
      rcases hmt with hmt | hmt
      · omega
      · -- the entry is (nominally) above the tip: both clocks are the tip's
        rw [mtpAt_tip c _ hmt] at h2
        by_cases hle : c.height + 1 ≤ u.height - 1
        · rw [mtpAt_tip (c.connect b) _ (by rw [hh.1]; exact hle), hh.2]; omega
        · have : u.height - 1 = c.height := by omega
          rw [this, mtpAt_connect c b _ (Nat.le_refl _), mtpAt_tip c _ (Nat.le_refl _)]; omega
    · right; right
      exact ⟨h1, by omega⟩
  | none =>
    unfold seqInput at h
    rw [hc] at h
    simp only at h
    rw [mtpAt_tip c _ (Nat.le_refl _)] at h
    rcases f2 hc with hn | ⟨u, hu, hhu⟩
    · unfold seqInput
      rw [hn]
      simp only
      rw [mtpAt_tip (c.connect b) _ (Nat.le_refl _), hh.1, hh.2]
      rcases h with h | ⟨h1, h2⟩ | ⟨h1, h2⟩
      · exact Or.inl h
      · right; left; exact ⟨h1, by omega⟩
      · right; right; exact ⟨h1, by omega⟩
    · unfold seqInput
      rw [hu]
      simp only
      rw [hhu]
      have : c.height + 1 - 1 = c.height := by omega
      rw [this, mtpAt_connect c b _ (Nat.le_refl _), mtpAt_tip c _ (Nat.le_refl _)]
      rcases h with h | ⟨h1, h2⟩ | ⟨h1, h2⟩
      · exact Or.inl h
      · right; left; exact ⟨h1, by omega⟩
      · right; right; exact ⟨h1, by omega⟩

theorem seqLocksOk_connect {c : Chain} {b : Block} {t : TxAbs} (hm : c.mtp ≤ b.mtp)
    (hx : ∀ x ∈ t.ins, ∀ T ∈ b.txs, x ∉ T.ins) (h : seqLocksOk c t = true) :
    seqLocksOk (c.connect b) t = true := by
  by_cases hv : 2 ≤ t.version
  · rw [seqLocksOk_iff_mature _ _ hv] at h ⊢
    intro i hi
    unfold seqInputs at hi h
    simp only [List.mem_map] at hi
    obtain ⟨p, hp, rfl⟩ := hi
    have hpx : p.1 ∈ t.ins := (List.of_mem_zip hp).1
    apply inputMature_connect hm (hx p.1 hpx)
    exact h _ (List.mem_map.2 ⟨p, hp, rfl⟩)
  · exact seqLocksOk_v1 _ _ (by omega)

theorem local_connect {c : Chain} {b : Block} {t : TxAbs} (hl : Local c t) (hm : ¬ b.mtp < c.mtp)
    (hcb : ∀ x ∈ t.ins, x.txid ≠ b.cb.id) (hns : ∀ x ∈ t.ins, ∀ T ∈ b.txs, x ∉ T.ins) :
    Local (c.connect b) t := by
  obtain ⟨l1, l2, l3, l4, l5, l6, l7, l8⟩ := hl
  refine ⟨l1, l2, l3, l4, l5, seqLocksOk_connect (by omega) hns l6, ?_, ?_⟩
  · have : (c.connect b).height = c.height + 1 ∧ (c.connect b).mtp = b.mtp := by simp [Chain.connect]
    rw [this.1, this.2]
    exact isFinal_mono (by omega) (by omega) l7
  · intro x hx
    have h0 := l8 x hx
    cases hi : immature (c.connect b) x with
    | false => rfl
    | true =>
      exfalso
      unfold immature at hi h0
      simp only [List.any_eq_true, Bool.and_eq_true, decide_eq_true_eq] at hi
      obtain ⟨u, hu, ⟨hop, hcbu⟩, hlt⟩ := hi
      have hh : (c.connect b).height = c.height + 1 ∧ (c.connect b).maturity = c.maturity := by simp [Chain.connect]
      rw [hh.1, hh.2] at hlt
      have hmem : u ∈ (b.txs.foldl (applyTx (c.height + 1) false) c.utxo) ++ outsOf (c.height + 1) true b.cb := by
        simpa [Chain.connect] using hu
      rcases List.mem_append.1 hmem with h1 | h1
      · rcases foldApply_mem _ _ u h1 with h2 | h2
        · have : (c.utxo.any (fun u => decide (u.op = x) && u.cb && decide (c.height + 1 - u.height < c.maturity))) = true := by
            simp only [List.any_eq_true, Bool.and_eq_true, decide_eq_true_eq]
            exact ⟨u, h2, ⟨hop, hcbu⟩, by omega⟩
          rw [this] at h0; cases h0
        · rw [h2] at hcbu; cases hcbu
      · unfold outsOf at h1
        simp only [List.mem_map] at h1
        obtain ⟨i, _, rfl⟩ := h1
        simp only at hop
        exact hcb x hx (by rw [← hop])

/-- the coinbase of a block being connected is new: nothing pooled references its outputs -/
def ConnectFresh (st : State) : Op → Prop
  | .connect b _ => ∀ u ∈ st.pool.txs, ∀ x ∈ u.ins, x.txid ≠ b.cb.id
  | _ => True

theorem step_fl (pol : Policy) (st : State) (op : Op) (h : FL st.chain st.pool) (hc : ConnectFresh st op) :
    FL (step pol st op).1.chain (step pol st op).1.pool := by
  cases op with
  | process t ao rl tag ev prio => exact fl_of_rel (processTransaction_ent pol st.chain st.pool t ao rl tag ev prio) h
  | maybeAccept t isNew rl =>
    have hm := @maybeAccept_ent pol st.chain st.pool t isNew rl true
    simp only [step]
    split <;> (rename_i s _ heq; rw [heq] at hm; exact fl_of_rel hm h)
  | check t => simp only [step]; split <;> exact h
  | remove t red =>
    simp only [step]
    split
    · exact fl_markStale _ _
    · exact fl_of_rel (removeTransaction_ent st.pool t red) h
  | removeDoubleSpends t => exact fl_of_rel (removeDoubleSpends_ent st.pool t) h
  | processOrphans t prio => exact fl_of_rel (processOrphans_ent pol st.chain st.pool t prio) h
  | removeOrphan t => exact fl_of_rel (same_ent (removeOrphan_same st.pool t false)) h
  | removeOrphansByTag tag =>
    simp only [step]
    apply fl_of_rel _ h
    apply foldl_inv (fun b => EntRel st.chain b st.pool) _ _ _ _ (EntRel.refl _ _)
    intro b a hb
    exact EntRel.trans (same_ent (removeOrphan_same b a true)) hb
  | connect b prio =>
    simp only [step]
    split
    · exact h
    · simp only
      have h0 : FL (st.chain.connect b)
          (staleSpenders b (if b.mtp < st.chain.mtp then markStale st.pool else st.pool)) := by
        intro e he hf
        unfold staleSpenders at he
        simp only [List.mem_map] at he
        obtain ⟨e0, he0, rfl⟩ := he
        split at hf
        · simp at hf
        · rename_i hsp
          have hns : ∀ x ∈ e0.tx.ins, ∀ T ∈ b.txs, x ∉ T.ins := by
            intro x hx T hT hin
            apply hsp
            simp only [List.any_eq_true, decide_eq_true_eq]
            exact ⟨x, hx, T, hT, hin⟩
          split at he0
          · exact absurd hf (by
              unfold markStale at he0
              simp only [List.mem_map] at he0
              obtain ⟨e1, _, rfl⟩ := he0
              simp)
          · rename_i hm
            split
            · rename_i hsp'; exact absurd hsp' hsp
            · apply local_connect (h e0 he0 hf) hm _ hns
              intro x hx
              exact hc e0.tx (mem_txs.2 ⟨e0, he0, rfl⟩) x hx
      apply fl_of_rel _ h0
      apply foldl_inv (fun s => EntRel (st.chain.connect b) s _) _ _ _ _ (EntRel.refl _ _)
      intro b' a hb; exact EntRel.trans (connectTx_ent pol _ prio b' a) hb
  | disconnect =>
    simp only [step]
    split
    · exact h
    · rename_i c' b hd
      simp only
      apply fl_of_rel _ (fl_markStale c' st.pool)
      apply EntRel.trans (removeTransaction_ent _ _ true)
      refine foldl_inv (fun s => EntRel c' s (markStale st.pool)) _ ?_ _ _ (EntRel.refl _ _)
      intro b' a hb; exact EntRel.trans (disconnectTx_ent pol _ b' a) hb

/-- a history that respects `OpOk` and connects only blocks with a new coinbase -/
def RunOkM (W : TxAbs → Prop) (pol : Policy) : State → List Op → Prop
  | _, [] => True
  | st, op :: ops => OpOk W st op ∧ ConnectFresh st op ∧ RunOkM W pol (step pol st op).1 ops

theorem runOk_of_runOkM {W : TxAbs → Prop} (pol : Policy) : ∀ (ops : List Op) (st : State),
    RunOkM W pol st ops → RunOk W pol st ops
  | [], _, _ => trivial
  | op :: ops, st, h => ⟨h.1, runOk_of_runOkM pol ops _ h.2.2⟩

theorem run_fl {W : TxAbs → Prop} (pol : Policy) : ∀ (ops : List Op) (st : State), FL st.chain st.pool →
    RunOkM W pol st ops → FL (run pol st ops).1.chain (run pol st ops).1.pool
  | [], st, h, _ => by simpa [run] using h
  | op :: ops, st, h, hr => by
    simp only [run]
    exact run_fl pol ops _ (step_fl pol st op h hr.2.1) hr.2.2

theorem fl_init (maturity mtp0 : Nat) : FL (State.init maturity mtp0).chain (State.init maturity mtp0).pool := by
  intro e he; simp [State.init, Pool.empty] at he

end BV.C10.Lemmas
