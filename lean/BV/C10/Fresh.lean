/-
C10 — helper lemmas, part 13: the admission conditions of every pooled transaction persist while chain
height and median time do not move backwards (`fresh` entries), through every operation.
-/
import BV.C10.Sound
namespace BV.C10.Lemmas
open BV.C10 BV.C10.Spec

/-- fresh entries still meet their admission conditions against the chain view `c` -/
def FL (c : Chain) (s : Pool) : Prop := ∀ e ∈ s.pool, e.fresh = true → Local c e.tx

/-- every entry of `a` is an entry of `b` or meets the admission conditions against `c` -/
def EntRel (c : Chain) (a b : Pool) : Prop := ∀ e ∈ a.pool, e ∈ b.pool ∨ Local c e.tx

theorem EntRel.refl (c : Chain) (a : Pool) : EntRel c a a := fun _ h => Or.inl h
theorem EntRel.trans {c : Chain} {a b d : Pool} (h1 : EntRel c a b) (h2 : EntRel c b d) : EntRel c a d := by
  intro e he
  rcases h1 e he with h | h
  · exact h2 e h
  · exact Or.inr h
theorem EntRel.of_eq {c : Chain} {a b : Pool} (h : a.pool = b.pool) : EntRel c a b := by
  intro e he; rw [h] at he; exact Or.inl he
theorem EntRel.of_sub {c : Chain} {a b : Pool} (h : ∀ e ∈ a.pool, e ∈ b.pool) : EntRel c a b :=
  fun e he => Or.inl (h e he)

theorem fl_of_rel {c : Chain} {a b : Pool} (h : EntRel c a b) (hb : FL c b) : FL c a := by
  intro e he hf
  rcases h e he with h1 | h1
  · exact hb e h1 hf
  · exact h1

theorem removeOne_ent {c : Chain} (s : Pool) (id : Nat) : EntRel c (removeOne s id) s :=
  EntRel.of_sub (fun _ he => (removeOne_sublist s id).subset he)

theorem removeRec_pool_sub : ∀ (f : Nat) (s : Pool) (id n : Nat), ∀ e ∈ (removeRec f s id n).pool, e ∈ s.pool
  | 0, s, _, _ => by simp [removeRec]
  | f + 1, s, id, n => by
    unfold removeRec
    intro e he
    have h1 := (removeOne_sublist _ id).subset he
    revert h1
    generalize e = e'
    refine foldl_inv (fun (b : Pool) => ∀ e ∈ b.pool, e ∈ s.pool) _ ?_ _ _ (fun _ h => h) e'
    intro b a hb
    cases h : b.spender ⟨id, a⟩ with
    | none => simpa [h] using hb
    | some r => simp only; intro e he; exact hb e (removeRec_pool_sub f b r.id r.nOuts e he)

theorem removeRec_ent {c : Chain} (f : Nat) (s : Pool) (id n : Nat) : EntRel c (removeRec f s id n) s :=
  EntRel.of_sub (removeRec_pool_sub f s id n)

theorem removeTransaction_ent {c : Chain} (s : Pool) (t : TxAbs) (red : Bool) : EntRel c (removeTransaction s t red) s := by
  unfold removeTransaction
  split
  · exact removeRec_ent _ s t.id t.nOuts
  · exact removeOne_ent s t.id

theorem removeDoubleSpends_ent {c : Chain} (s : Pool) (t : TxAbs) : EntRel c (removeDoubleSpends s t) s := by
  unfold removeDoubleSpends
  apply foldl_inv (fun b => EntRel c b s) _ _ _ _ (EntRel.refl c s)
  intro b a hb
  cases h : b.spender a with
  | none => simpa [h] using hb
  | some r =>
    simp only
    split
    · exact EntRel.trans (removeRec_ent _ b r.id r.nOuts) hb
    · exact hb

theorem removeAll_ent {c : Chain} (s : Pool) (cs : List TxAbs) : EntRel c (removeAll s cs) s := by
  unfold removeAll
  apply foldl_inv (fun b => EntRel c b s) _ _ _ _ (EntRel.refl c s)
  intro b a hb
  exact EntRel.trans (removeOne_ent b a.id) hb

theorem maybeAccept_ent {pol : Policy} {c : Chain} {s : Pool} {t : TxAbs} {isNew rl rdo : Bool} :
    EntRel c (maybeAccept pol c s t isNew rl rdo).1 s := by
  rw [maybeAccept_eq]
  cases h : checkAccept pol c s t isNew rl rdo with
  | err r => exact EntRel.refl c s
  | missing ps => exact EntRel.refl c s
  | ok cs =>
    simp only
    intro e he
    unfold addTx at he
    simp only [List.mem_cons, List.mem_filter] at he
    rcases he with rfl | ⟨he, _⟩
    · exact Or.inr (local_of_accept h)
    · exact removeAll_ent s cs e he

theorem same_ent {c : Chain} {a b : Pool} (h : SameMain a b) : EntRel c a b := EntRel.of_eq h.1

theorem tryCandidates_ent (pol : Policy) (c : Chain) : ∀ (l : List TxAbs) (s : Pool), EntRel c (tryCandidates pol c s l).1 s
  | [], s => by simp [tryCandidates, EntRel.refl]
  | o :: rest, s => by
    unfold tryCandidates
    have h := @maybeAccept_ent pol c s o true true false
    split
    · rename_i s' _ heq; rw [heq] at h; exact EntRel.trans (same_ent (removeOrphan_same s' o true)) h
    · rename_i s' _ heq; rw [heq] at h; exact EntRel.trans (tryCandidates_ent pol c rest s') h
    · rename_i s' heq; rw [heq] at h; exact EntRel.trans (same_ent (removeOrphan_same s' o false)) h

theorem processItem_ent (pol : Policy) (c : Chain) (prio : List Nat) (s : Pool) (item : TxAbs) :
    EntRel c (processItem pol c prio s item).1 s := by
  unfold processItem
  apply foldl_inv (fun (acc : Pool × List TxAbs) => EntRel c acc.1 s) _ _ _ _ (EntRel.refl c s)
  intro b a hb
  have := tryCandidates_ent pol c (candidates b.1 ⟨item.id, a⟩ prio) b.1
  split
  · rename_i s' o heq; rw [heq] at this; exact EntRel.trans this hb
  · rename_i s' heq; rw [heq] at this; exact EntRel.trans this hb

theorem processLoop_ent (pol : Policy) (c : Chain) (prio : List Nat) : ∀ (f : Nat) (s : Pool) (q acc : List TxAbs),
    EntRel c (processLoop pol c prio f s q acc).1 s
  | 0, s, _, _ => by simp [processLoop, EntRel.refl]
  | f + 1, s, [], _ => by simp [processLoop, EntRel.refl]
  | f + 1, s, item :: q, acc => by
    unfold processLoop
    exact EntRel.trans (processLoop_ent pol c prio f _ _ _) (processItem_ent pol c prio s item)

theorem processOrphans_ent (pol : Policy) (c : Chain) (s : Pool) (t : TxAbs) (prio : List Nat) :
    EntRel c (processOrphans pol c s t prio).1 s := by
  unfold processOrphans
  simp only
  apply foldl_inv (fun b => EntRel c b s) _ _ _ _
  · exact EntRel.trans (same_ent (removeOrphanDoubleSpends_same _ t)) (processLoop_ent pol c prio _ s [t] [])
  · intro b a hb
    exact EntRel.trans (same_ent (removeOrphanDoubleSpends_same b a)) hb

theorem processTransaction_ent (pol : Policy) (c : Chain) (s : Pool) (t : TxAbs) (ao rl : Bool) (tag ev : Nat)
    (prio : List Nat) : EntRel c (processTransaction pol c s t ao rl tag ev prio).1 s := by
  unfold processTransaction
  have h := @maybeAccept_ent pol c s t true rl true
  split
  · exact EntRel.refl c s
  · rename_i s1 heq
    rw [heq] at h
    exact EntRel.trans (processOrphans_ent pol c s1 t prio) h
  · split
    · exact EntRel.refl c s
    · split
      · exact EntRel.refl c s
      · exact same_ent (addOrphan_same pol s t tag ev)

theorem connectTx_ent (pol : Policy) (c : Chain) (prio : List Nat) (s : Pool) (t : TxAbs) :
    EntRel c (connectTx pol c prio s t) s := by
  unfold connectTx
  apply EntRel.trans (processOrphans_ent pol c _ t prio)
  apply EntRel.trans (same_ent (removeOrphan_same _ t false))
  apply EntRel.trans (removeDoubleSpends_ent _ t)
  exact removeTransaction_ent s t false

theorem disconnectTx_ent (pol : Policy) (c : Chain) (s : Pool) (t : TxAbs) : EntRel c (disconnectTx pol c s t) s := by
  unfold disconnectTx
  have h := @maybeAccept_ent pol c s t false false true
  cases hm : maybeAccept pol c s t false false true with
  | mk s' r =>
    rw [hm] at h
    cases r <;> simp only <;> first | exact h | exact EntRel.trans (removeTransaction_ent s' t true) h

theorem fl_markStale (c : Chain) (s : Pool) : FL c (markStale s) := by
  intro e he hf
  unfold markStale at he
  simp only [List.mem_map] at he
  obtain ⟨e', _, rfl⟩ := he
  simp at hf

/-! ### a connected block -/

theorem foldApply_mem {h : Nat} : ∀ (l : List TxAbs) (u0 : List Utxo) (u : Utxo),
    u ∈ l.foldl (applyTx h false) u0 → u ∈ u0 ∨ u.cb = false
  | [], _, _, hu => Or.inl hu
  | T :: l, u0, u, hu => by
    simp only [List.foldl_cons] at hu
    rcases foldApply_mem l _ u hu with h1 | h1
    · unfold applyTx at h1
      simp only [List.mem_append, List.mem_filter] at h1
      rcases h1 with ⟨h2, _⟩ | h2
      · exact Or.inl h2
      · right
        unfold outsOf at h2
        simp only [List.mem_map] at h2
        obtain ⟨i, _, rfl⟩ := h2
        rfl
    · exact Or.inr h1

theorem local_connect {c : Chain} {b : Block} {t : TxAbs} (hl : Local c t) (hm : ¬ b.mtp < c.mtp)
    (hcb : ∀ x ∈ t.ins, x.txid ≠ b.cb.id) : Local (c.connect b) t := by
  obtain ⟨l1, l2, l3, l4, l5, l7, l8⟩ := hl
  refine ⟨l1, l2, l3, l4, l5, ?_, ?_⟩
  · have : (c.connect b).height = c.height + 1 ∧ (c.connect b).mtp = b.mtp := by simp [Chain.connect]
    rw [this.1, this.2]
    exact isFinal_mono (by omega) (by omega) l7
  · intro x hx
    have h0 := l8 x hx
    cases hi : immature (c.connect b) x with
    | false => rfl
    | true =>
      exfalso
      unfold immature at hi h0
      simp only [List.any_eq_true, Bool.and_eq_true, decide_eq_true_eq] at hi
      obtain ⟨u, hu, ⟨hop, hcbu⟩, hlt⟩ := hi
      have hh : (c.connect b).height = c.height + 1 ∧ (c.connect b).maturity = c.maturity := by simp [Chain.connect]
      rw [hh.1, hh.2] at hlt
      have hmem : u ∈ (b.txs.foldl (applyTx (c.height + 1) false) c.utxo) ++ outsOf (c.height + 1) true b.cb := by
        simpa [Chain.connect] using hu
      rcases List.mem_append.1 hmem with h1 | h1
      · rcases foldApply_mem _ _ u h1 with h2 | h2
        · have : (c.utxo.any (fun u => decide (u.op = x) && u.cb && decide (c.height + 1 - u.height < c.maturity))) = true := by
            simp only [List.any_eq_true, Bool.and_eq_true, decide_eq_true_eq]
            exact ⟨u, h2, ⟨hop, hcbu⟩, by omega⟩
          rw [this] at h0; cases h0
        · rw [h2] at hcbu; cases hcbu
      · unfold outsOf at h1
        simp only [List.mem_map] at h1
        obtain ⟨i, _, rfl⟩ := h1
        simp only at hop
        exact hcb x hx (by rw [← hop])

/-- the coinbase of a block being connected is new: nothing pooled references its outputs -/
def ConnectFresh (st : State) : Op → Prop
  | .connect b _ => ∀ u ∈ st.pool.txs, ∀ x ∈ u.ins, x.txid ≠ b.cb.id
  | _ => True

theorem step_fl (pol : Policy) (st : State) (op : Op) (h : FL st.chain st.pool) (hc : ConnectFresh st op) :
    FL (step pol st op).1.chain (step pol st op).1.pool := by
  cases op with
  | process t ao rl tag ev prio => exact fl_of_rel (processTransaction_ent pol st.chain st.pool t ao rl tag ev prio) h
  | maybeAccept t isNew rl =>
    have hm := @maybeAccept_ent pol st.chain st.pool t isNew rl true
    simp only [step]
    split <;> (rename_i s _ heq; rw [heq] at hm; exact fl_of_rel hm h)
  | check t => simp only [step]; split <;> exact h
  | remove t red =>
    simp only [step]
    split
    · exact fl_markStale _ _
    · exact fl_of_rel (removeTransaction_ent st.pool t red) h
  | removeDoubleSpends t => exact fl_of_rel (removeDoubleSpends_ent st.pool t) h
  | processOrphans t prio => exact fl_of_rel (processOrphans_ent pol st.chain st.pool t prio) h
  | removeOrphan t => exact fl_of_rel (same_ent (removeOrphan_same st.pool t false)) h
  | removeOrphansByTag tag =>
    simp only [step]
    apply fl_of_rel _ h
    apply foldl_inv (fun b => EntRel st.chain b st.pool) _ _ _ _ (EntRel.refl _ _)
    intro b a hb
    exact EntRel.trans (same_ent (removeOrphan_same b a true)) hb
  | connect b prio =>
    simp only [step]
    split
    · exact h
    · simp only
      have h0 : FL (st.chain.connect b) (if b.mtp < st.chain.mtp then markStale st.pool else st.pool) := by
        split
        · exact fl_markStale _ _
        · rename_i hm
          intro e he hf
          apply local_connect (h e he hf) hm
          intro x hx
          exact hc e.tx (mem_txs.2 ⟨e, he, rfl⟩) x hx
      apply fl_of_rel _ h0
      apply foldl_inv (fun s => EntRel (st.chain.connect b) s _) _ _ _ _ (EntRel.refl _ _)
      intro b' a hb; exact EntRel.trans (connectTx_ent pol _ prio b' a) hb
  | disconnect =>
    simp only [step]
    split
    · exact h
    · rename_i c' b hd
      simp only
      apply fl_of_rel _ (fl_markStale c' st.pool)
      apply EntRel.trans (removeTransaction_ent _ _ true)
      refine foldl_inv (fun s => EntRel c' s (markStale st.pool)) _ ?_ _ _ (EntRel.refl _ _)
      intro b' a hb; exact EntRel.trans (disconnectTx_ent pol _ b' a) hb

/-- a history that respects `OpOk` and connects only blocks with a new coinbase -/
def RunOkM (W : TxAbs → Prop) (pol : Policy) : State → List Op → Prop
  | _, [] => True
  | st, op :: ops => OpOk W st op ∧ ConnectFresh st op ∧ RunOkM W pol (step pol st op).1 ops

theorem runOk_of_runOkM {W : TxAbs → Prop} (pol : Policy) : ∀ (ops : List Op) (st : State),
    RunOkM W pol st ops → RunOk W pol st ops
  | [], _, _ => trivial
  | op :: ops, st, h => ⟨h.1, runOk_of_runOkM pol ops _ h.2.2⟩

theorem run_fl {W : TxAbs → Prop} (pol : Policy) : ∀ (ops : List Op) (st : State), FL st.chain st.pool →
    RunOkM W pol st ops → FL (run pol st ops).1.chain (run pol st ops).1.pool
  | [], st, h, _ => by simpa [run] using h
  | op :: ops, st, h, hr => by
    simp only [run]
    exact run_fl pol ops _ (step_fl pol st op h hr.2.1) hr.2.2

theorem fl_init (maturity mtp0 : Nat) : FL (State.init maturity mtp0).chain (State.init maturity mtp0).pool := by
  intro e he; simp [State.init, Pool.empty] at he

end BV.C10.Lemmas
