/-
C10 — helper lemmas, part 10: orphan storage stays within its configured bounds.
Every operation except the insertion in `addOrphan` only shrinks the orphan list.
-/
import BV.C10.Final
namespace BV.C10.Lemmas
open BV.C10 BV.C10.Spec

def OrphLe (a b : Pool) : Prop := a.orphans.Sublist b.orphans

theorem OrphLe.refl (a : Pool) : OrphLe a a := List.Sublist.refl _
theorem OrphLe.trans {a b d : Pool} (h1 : OrphLe a b) (h2 : OrphLe b d) : OrphLe a d := List.Sublist.trans h1 h2
theorem OrphLe.of_eq {a b : Pool} (h : a.orphans = b.orphans) : OrphLe a b := by unfold OrphLe; rw [h]; exact List.Sublist.refl _

theorem removeRec_orphans : ∀ (f : Nat) (s : Pool) (id n : Nat), (removeRec f s id n).orphans = s.orphans
  | 0, s, _, _ => by simp [removeRec]
  | f + 1, s, id, n => by
    unfold removeRec
    rw [(removeOne_orphans _ id).1]
    refine foldl_inv (fun (b : Pool) => b.orphans = s.orphans) _ ?_ _ _ rfl
    intro b a hb
    cases h : b.spender ⟨id, a⟩ with
    | none => simpa [h] using hb
    | some r => simp only; rw [removeRec_orphans f b r.id r.nOuts]; exact hb

theorem removeTransaction_orphans (s : Pool) (t : TxAbs) (red : Bool) : (removeTransaction s t red).orphans = s.orphans := by
  unfold removeTransaction
  split
  · exact removeRec_orphans _ s t.id t.nOuts
  · exact (removeOne_orphans s t.id).1

theorem removeDoubleSpends_orphans (s : Pool) (t : TxAbs) : (removeDoubleSpends s t).orphans = s.orphans := by
  unfold removeDoubleSpends
  refine foldl_inv (fun (b : Pool) => b.orphans = s.orphans) _ ?_ _ _ rfl
  intro b a hb
  cases h : b.spender a with
  | none => simpa [h] using hb
  | some r =>
    simp only
    split
    · rw [removeRec_orphans]; exact hb
    · exact hb

theorem removeOrphanOne_le (s : Pool) (id : Nat) : OrphLe (removeOrphanOne s id) s := List.filter_sublist

theorem removeOrphanRec_le : ∀ (f : Nat) (s : Pool) (id n : Nat), OrphLe (removeOrphanRec f s id n) s
  | 0, s, _, _ => by simp [removeOrphanRec, OrphLe.refl]
  | f + 1, s, id, n => by
    unfold removeOrphanRec
    split
    · exact OrphLe.refl s
    · simp only
      apply OrphLe.trans (removeOrphanOne_le _ _)
      refine foldl_inv (fun b => OrphLe b s) _ ?_ _ _ (by exact List.Sublist.refl _)
      intro b a hb
      apply foldl_inv (fun b => OrphLe b s) _ _ _ _ hb
      intro b' o hb'
      exact OrphLe.trans (removeOrphanRec_le f b' o.id o.nOuts) hb'

theorem removeOrphan_le (s : Pool) (t : TxAbs) (red : Bool) : OrphLe (removeOrphan s t red) s := by
  unfold removeOrphan
  split
  · exact OrphLe.refl s
  · split
    · exact removeOrphanRec_le _ s t.id t.nOuts
    · exact removeOrphanOne_le s t.id

theorem removeOrphanDoubleSpends_le (s : Pool) (t : TxAbs) : OrphLe (removeOrphanDoubleSpends s t) s := by
  unfold removeOrphanDoubleSpends
  apply foldl_inv (fun b => OrphLe b s) _ _ _ _ (OrphLe.refl s)
  intro b a hb
  apply foldl_inv (fun b => OrphLe b s) _ _ _ _ hb
  intro b' o hb'
  exact OrphLe.trans (removeOrphan_le b' o true) hb'

theorem maybeAccept_le {pol : Policy} {c : Chain} {s : Pool} {t : TxAbs} {isNew rl rdo : Bool} :
    OrphLe (maybeAccept pol c s t isNew rl rdo).1 s := OrphLe.of_eq maybeAccept_orphans.1

theorem tryCandidates_le (pol : Policy) (c : Chain) : ∀ (l : List TxAbs) (s : Pool), OrphLe (tryCandidates pol c s l).1 s
  | [], s => by simp [tryCandidates, OrphLe.refl]
  | o :: rest, s => by
    unfold tryCandidates
    have h := @maybeAccept_le pol c s o true true false
    split
    · rename_i s' _ heq; rw [heq] at h; exact OrphLe.trans (removeOrphan_le s' o true) h
    · rename_i s' _ heq; rw [heq] at h; exact OrphLe.trans (tryCandidates_le pol c rest s') h
    · rename_i s' heq; rw [heq] at h; exact OrphLe.trans (removeOrphan_le s' o false) h

theorem processItem_le (pol : Policy) (c : Chain) (prio : List Nat) (s : Pool) (item : TxAbs) :
    OrphLe (processItem pol c prio s item).1 s := by
  unfold processItem
  apply foldl_inv (fun (acc : Pool × List TxAbs) => OrphLe acc.1 s) _ _ _ _ (OrphLe.refl s)
  intro b a hb
  have := tryCandidates_le pol c (candidates b.1 ⟨item.id, a⟩ prio) b.1
  split
  · rename_i s' o heq; rw [heq] at this; exact OrphLe.trans this hb
  · rename_i s' heq; rw [heq] at this; exact OrphLe.trans this hb

theorem processLoop_le (pol : Policy) (c : Chain) (prio : List Nat) : ∀ (f : Nat) (s : Pool) (q acc : List TxAbs),
    OrphLe (processLoop pol c prio f s q acc).1 s
  | 0, s, _, _ => by simp [processLoop, OrphLe.refl]
  | f + 1, s, [], _ => by simp [processLoop, OrphLe.refl]
  | f + 1, s, item :: q, acc => by
    unfold processLoop
    exact OrphLe.trans (processLoop_le pol c prio f _ _ _) (processItem_le pol c prio s item)

theorem processOrphans_le (pol : Policy) (c : Chain) (s : Pool) (t : TxAbs) (prio : List Nat) :
    OrphLe (processOrphans pol c s t prio).1 s := by
  unfold processOrphans
  simp only
  apply foldl_inv (fun b => OrphLe b s) _ _ _ _
  · exact OrphLe.trans (removeOrphanDoubleSpends_le _ t) (processLoop_le pol c prio _ s [t] [])
  · intro b a hb
    exact OrphLe.trans (removeOrphanDoubleSpends_le b a) hb

theorem connectTx_le (pol : Policy) (c : Chain) (prio : List Nat) (s : Pool) (t : TxAbs) :
    OrphLe (connectTx pol c prio s t) s := by
  unfold connectTx
  apply OrphLe.trans (processOrphans_le pol c _ t prio)
  apply OrphLe.trans (removeOrphan_le _ t false)
  apply OrphLe.trans (OrphLe.of_eq (removeDoubleSpends_orphans _ t))
  exact OrphLe.of_eq (removeTransaction_orphans s t false)

theorem disconnectTx_le (pol : Policy) (c : Chain) (s : Pool) (t : TxAbs) : OrphLe (disconnectTx pol c s t) s := by
  unfold disconnectTx
  have h := @maybeAccept_le pol c s t false false true
  cases hm : maybeAccept pol c s t false false true with
  | mk s' r =>
    rw [hm] at h
    cases r <;> simp only <;> first | exact h | exact OrphLe.trans (OrphLe.of_eq (removeTransaction_orphans s' t true)) h

theorem bounds_of_le {pol : Policy} {a b : Pool} (h : OrphLe a b) (hb : OrphanBounds pol b) : OrphanBounds pol a := by
  refine ⟨?_, fun o ho => hb.2 o (h.subset ho)⟩
  have := h.length_le
  have := hb.1
  omega

theorem minFold_mem : ∀ (rest : List (TxAbs × Nat)) (m : Nat) (l : List (TxAbs × Nat)),
    (∃ o ∈ l, o.1.id = m) → (∀ o ∈ rest, o ∈ l) → ∃ o ∈ l, o.1.id = rest.foldl (fun m x => min m x.1.id) m
  | [], _, _, h, _ => h
  | a :: rest, m, l, h, hr => by
    simp only [List.foldl_cons]
    apply minFold_mem rest _ l _ (fun o ho => hr o (by simp [ho]))
    by_cases hle : m ≤ a.1.id
    · rw [Nat.min_eq_left hle]; exact h
    · rw [Nat.min_eq_right (by omega)]; exact ⟨a, hr a (by simp), rfl⟩

theorem filter_id_length_lt {l : List (TxAbs × Nat)} {id : Nat} (h : ∃ o ∈ l, o.1.id = id) :
    (l.filter (fun o => decide (o.1.id ≠ id))).length < l.length := by
  have := filter_length_lt (fun _ => true) (fun (o : TxAbs × Nat) => decide (o.1.id ≠ id)) (fun _ _ => rfl) l
    (by obtain ⟨o, ho, e⟩ := h; exact ⟨o, ho, rfl, by simp [e]⟩)
  have e : (l.filter (fun _ => true)).length = l.length := by
    induction l with
    | nil => rfl
    | cons a l ih => simp
  omega

theorem addOrphan_bounds {pol : Policy} {s : Pool} (hb : OrphanBounds pol s) (t : TxAbs) (tag ev : Nat)
    (hsz : t.size ≤ pol.maxOrphanSize) : OrphanBounds pol (addOrphan pol s t tag ev) := by
  unfold addOrphan
  split
  · exact hb
  · rename_i hmax
    simp only
    -- the pool after the eviction step has room for one more
    have room : ∀ s1 : Pool, ((s1.orphans.length : Int) + 1 ≤ pol.maxOrphans) → (∀ o ∈ s1.orphans, o ∈ s.orphans) →
        OrphanBounds pol { s1 with orphans := (t, tag) :: s1.orphans.filter (fun o => o.1.id ≠ t.id),
                                   byPrev := t.ins.map (fun x => (x, t)) ++ s1.byPrev.filter (fun p => p.2.id ≠ t.id) } := by
      intro s1 h1 h2
      refine ⟨?_, ?_⟩
      · simp only [List.length_cons]
        have := List.length_filter_le (fun (o : TxAbs × Nat) => decide (o.1.id ≠ t.id)) s1.orphans
        omega
      · intro o ho
        simp only [List.mem_cons, List.mem_filter] at ho
        rcases ho with rfl | ⟨ho, _⟩
        · exact hsz
        · exact hb.2 o (h2 o ho)
    split
    · rename_i hroom
      exact room s hroom (fun _ h => h)
    · rename_i hfull
      have hlen := hb.1
      split
      · rename_i hnil
        exfalso
        rw [hnil] at hfull
        simp only [List.length_nil] at hfull
        omega
      · rename_i o rest hcons
        have evict : ∀ id, (∃ o' ∈ s.orphans, o'.1.id = id) →
            ((removeOrphanOne s id).orphans.length : Int) + 1 ≤ pol.maxOrphans ∧
            ∀ o' ∈ (removeOrphanOne s id).orphans, o' ∈ s.orphans := by
          intro id hid
          have := filter_id_length_lt hid
          refine ⟨?_, fun o' ho' => (List.mem_filter.1 ho').1⟩
          show ((s.orphans.filter (fun o => decide (o.1.id ≠ id))).length : Int) + 1 ≤ pol.maxOrphans
          omega
        split
        · rename_i hev
          have hid : ∃ o' ∈ s.orphans, o'.1.id = ev := by
            unfold Pool.inOrphans at hev
            simpa using hev
          obtain ⟨e1, e2⟩ := evict ev hid
          exact room _ e1 e2
        · have hid : ∃ o' ∈ s.orphans, o'.1.id = rest.foldl (fun m x => min m x.1.id) o.1.id := by
            rw [hcons]
            exact minFold_mem rest o.1.id (o :: rest) ⟨o, by simp, rfl⟩ (fun o' ho' => by simp [ho'])
          obtain ⟨e1, e2⟩ := evict _ hid
          exact room _ e1 e2

theorem processTransaction_bounds {pol : Policy} {c : Chain} {s : Pool} (hb : OrphanBounds pol s) (t : TxAbs)
    (ao rl : Bool) (tag ev : Nat) (prio : List Nat) :
    OrphanBounds pol (processTransaction pol c s t ao rl tag ev prio).1 := by
  unfold processTransaction
  have h := @maybeAccept_le pol c s t true rl true
  split
  · exact hb
  · rename_i s1 heq
    rw [heq] at h
    exact bounds_of_le (OrphLe.trans (processOrphans_le pol c s1 t prio) h) hb
  · split
    · exact hb
    · split
      · exact hb
      · rename_i hsz
        exact addOrphan_bounds hb t tag ev (by omega)

theorem step_bounds (pol : Policy) (st : State) (op : Op) (hb : OrphanBounds pol st.pool) :
    OrphanBounds pol (step pol st op).1.pool := by
  cases op with
  | process t ao rl tag ev prio => exact processTransaction_bounds hb t ao rl tag ev prio
  | maybeAccept t isNew rl =>
    have h := @maybeAccept_le pol st.chain st.pool t isNew rl true
    simp only [step]
    split <;> (rename_i s _ heq; rw [heq] at h; exact bounds_of_le h hb)
  | check t => simp only [step]; split <;> exact hb
  | remove t red =>
    simp only [step]
    split
    · exact bounds_of_le (OrphLe.of_eq (removeTransaction_orphans st.pool t red)) hb
    · exact bounds_of_le (OrphLe.of_eq (removeTransaction_orphans st.pool t red)) hb
  | removeDoubleSpends t => exact bounds_of_le (OrphLe.of_eq (removeDoubleSpends_orphans st.pool t)) hb
  | processOrphans t prio => exact bounds_of_le (processOrphans_le pol st.chain st.pool t prio) hb
  | removeOrphan t => exact bounds_of_le (removeOrphan_le st.pool t false) hb
  | removeOrphansByTag tag =>
    simp only [step]
    apply bounds_of_le _ hb
    apply foldl_inv (fun b => OrphLe b st.pool) _ _ _ _ (OrphLe.refl _)
    intro b a h
    exact OrphLe.trans (removeOrphan_le b a true) h
  | connect b prio =>
    simp only [step]
    split
    · exact hb
    · simp only
      apply bounds_of_le _ hb
      apply foldl_inv (fun s => OrphLe s st.pool) _ _ _ _
      · split
        · exact OrphLe.refl _
        · exact OrphLe.refl _
      · intro b' a h; exact OrphLe.trans (connectTx_le pol _ prio b' a) h
  | disconnect =>
    simp only [step]
    split
    · exact hb
    · simp only
      apply bounds_of_le _ hb
      apply OrphLe.trans (OrphLe.of_eq (removeTransaction_orphans _ _ true))
      refine foldl_inv (fun s => OrphLe s st.pool) _ ?_ _ _ (by exact List.Sublist.refl _)
      intro b' a h; exact OrphLe.trans (disconnectTx_le pol _ b' a) h

theorem run_bounds (pol : Policy) : ∀ (ops : List Op) (st : State), OrphanBounds pol st.pool →
    OrphanBounds pol (run pol st ops).1.pool
  | [], st, h => by simpa [run] using h
  | op :: ops, st, h => by
    simp only [run]
    exact run_bounds pol ops _ (step_bounds pol st op h)

theorem bounds_init (pol : Policy) (maturity mtp0 : Nat) : OrphanBounds pol (State.init maturity mtp0).pool := by
  refine ⟨?_, ?_⟩
  · simp only [State.init, Pool.empty, List.length_nil]; omega
  · intro o h; simp [State.init, Pool.empty] at h

end BV.C10.Lemmas
