/-
C10 — helper lemmas: disconnecting the block that was just connected restores the chain view.
-/
import BV.C10.Laws2
namespace BV.C10.Lemmas
open BV.C10 BV.C10.Spec

/-- what survives the block's transactions and is not one of their outputs was there before and is unspent -/
theorem fold_has_old {h : Nat} : ∀ (l : List TxAbs) (u0 : List Utxo) (x : OutPoint),
    hasU (l.foldl (applyTx h false) u0) x → (∀ T ∈ l, ¬ OutputOf x T) → hasU u0 x ∧ ∀ T ∈ l, x ∉ T.ins
  | [], _, _, hx, _ => ⟨hx, fun _ h => by cases h⟩
  | T :: l, u0, x, hx, hno => by
    simp only [List.foldl_cons] at hx
    obtain ⟨h1, h2⟩ := fold_has_old l _ x hx (fun T' h' => hno T' (by simp [h']))
    rcases applyTx_has.1 h1 with ⟨a, b⟩ | a
    · refine ⟨a, ?_⟩
      intro T' hT'
      rcases List.mem_cons.1 hT' with rfl | h'
      · exact b
      · exact h2 T' h'
    · exact absurd a (hno T (by simp))

theorem isOutputOf_iff (x : OutPoint) (t : TxAbs) : isOutputOf x t = true ↔ OutputOf x t := by
  unfold isOutputOf OutputOf
  simp only [Bool.and_eq_true, decide_eq_true_eq]
  constructor
  · rintro ⟨a, b⟩; exact ⟨a.symm, b⟩
  · rintro ⟨a, b⟩; exact ⟨a.symm, b⟩

/-- **disconnect ∘ connect = id on the chain view** (and on height / MTP / stack), provided no output of the
block already existed (BIP30/BIP34) -/
theorem disconnect_connect (c : Chain) (b : Block)
    (hnew : ∀ x, hasU c.utxo x → ∀ T ∈ b.cb :: b.txs, ¬ OutputOf x T) :
    ∃ c', (c.connect b).disconnect = some (c', b) ∧ c'.height = c.height ∧ c'.mtp = c.mtp ∧
      c'.stack = c.stack ∧ c'.maturity = c.maturity ∧ ∀ x, hasU c'.utxo x ↔ hasU c.utxo x := by
  refine ⟨_, rfl, rfl, rfl, rfl, rfl, ?_⟩
  intro x
  show hasU (((b.txs.foldl (applyTx (c.height + 1) false) c.utxo ++ outsOf (c.height + 1) true b.cb).filter
      (fun e => !(b.cb :: b.txs).any (isOutputOf e.op))) ++
      c.utxo.filter (fun e => e.op ∈ b.txs.flatMap (·.ins))) x ↔ hasU c.utxo x
  unfold hasU
  simp only [List.mem_append, List.mem_filter, Bool.not_eq_true', List.any_eq_false, decide_eq_true_eq]
  constructor
  · rintro ⟨e, (⟨(he | he), hno⟩ | ⟨he, _⟩), rfl⟩
    · have hno' : ∀ T ∈ b.txs, ¬ OutputOf e.op T := by
        intro T hT ho
        have := hno T (by simp [hT])
        rw [(isOutputOf_iff e.op T).2 ho] at this; exact this rfl
      obtain ⟨⟨e', he', h1⟩, _⟩ := fold_has_old b.txs c.utxo e.op ⟨e, he, rfl⟩ hno'
      exact ⟨e', he', h1⟩
    · exfalso
      have ho := (outsOf_has (h := c.height + 1) (cb := true)).1 ⟨e, he, rfl⟩
      have := hno b.cb (by simp)
      rw [(isOutputOf_iff e.op b.cb).2 ho] at this; exact this rfl
    · exact ⟨e, he, rfl⟩
  · rintro ⟨e, he, rfl⟩
    by_cases hsp : e.op ∈ b.txs.flatMap (·.ins)
    · exact ⟨e, Or.inr ⟨he, hsp⟩, rfl⟩
    · have hns : ∀ T ∈ b.txs, e.op ∉ T.ins := by
        intro T hT hin
        exact hsp (List.mem_flatMap.2 ⟨T, hT, hin⟩)
      rcases foldApply_keep (h := c.height + 1) b.txs c.utxo e.op ⟨e, he, rfl⟩ with ⟨e', he', h1⟩ | ⟨T, hT, hin⟩
      · refine ⟨e', Or.inl ⟨Or.inl he', ?_⟩, h1⟩
        intro T hT
        cases hio : isOutputOf e'.op T with
        | false => simp
        | true =>
          exfalso
          rw [h1] at hio
          exact hnew e.op ⟨e, he, rfl⟩ T hT ((isOutputOf_iff _ _).1 hio)
      · exact absurd hin (hns T hT)

end BV.C10.Lemmas
