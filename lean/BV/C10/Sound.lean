/-
C10 — helper lemmas, part 12: `txConflicts` contains ONLY pooled spenders of the replacement's inputs and
their pooled descendants (together with Closure.lean: exactly those).
-/
import BV.C10.Minable
namespace BV.C10.Lemmas
open BV.C10 BV.C10.Spec

/-- `u` is a pooled descendant of `m` -/
inductive Reach (s : Pool) : TxAbs → TxAbs → Prop
  | child {m u : TxAbs} : u ∈ s.txs → ChildOf u m → Reach s m u
  | step {m u v : TxAbs} : Reach s m u → v ∈ s.txs → ChildOf v u → Reach s m v

theorem Reach.trans {s : Pool} {a b c : TxAbs} (h1 : Reach s a b) (h2 : Reach s b c) : Reach s a c := by
  induction h2 with
  | child hu hc => exact Reach.step h1 hu hc
  | step _ hv hc ih => exact Reach.step ih hv hc

theorem txDescendants_sound {s : Pool} (ok : PoolOk s) : ∀ (f : Nat) (t : TxAbs),
    ∀ e ∈ txDescendants f s t, Reach s t e
  | 0, _, e, h => by simp [txDescendants] at h
  | f + 1, t, e, h => by
    unfold txDescendants at h
    have fold : ∀ (l : List Nat) (acc : List TxAbs), (∀ i ∈ l, i < t.nOuts) → (∀ e ∈ acc, Reach s t e) →
        ∀ e ∈ l.foldl (fun acc i => match s.spender ⟨t.id, i⟩ with
          | some d => unionTx (insertTx acc d) (txDescendants f s d)
          | none => acc) acc, Reach s t e := by
      intro l
      induction l with
      | nil => intro acc _ ha e he; exact ha e (by simpa using he)
      | cons j l ih =>
        intro acc hl ha
        simp only [List.foldl_cons]
        apply ih _ (fun i hi => hl i (by simp [hi]))
        cases hs : s.spender ⟨t.id, j⟩ with
        | none => exact ha
        | some d =>
          simp only
          obtain ⟨hd1, hd2⟩ := (ok.idx _ d).1 (spender_some hs)
          have hr : Reach s t d := Reach.child hd1 ⟨_, hd2, rfl, hl j (by simp)⟩
          intro e he
          rcases unionTx_sub _ _ he with h1 | h1
          · rcases insertTx_sub h1 with h2 | h2
            · exact ha e h2
            · rw [h2]; exact hr
          · exact hr.trans (txDescendants_sound ok f d e h1)
    exact fold (List.range t.nOuts) [] (fun i hi => List.mem_range.1 hi) (fun e he => by cases he) e h

/-- every member of `txConflicts` is a pooled spender of an input of `t` or a pooled descendant of one -/
theorem txConflicts_sound {s : Pool} (ok : PoolOk s) (t : TxAbs) :
    ∀ e ∈ txConflicts s t, ∃ x ∈ t.ins, ∃ c, s.spender x = some c ∧ (e = c ∨ Reach s c e) := by
  rw [txConflicts_eq]
  have fold : ∀ (l : List OutPoint) (acc : List TxAbs), (∀ x ∈ l, x ∈ t.ins) →
      (∀ e ∈ acc, ∃ x ∈ t.ins, ∃ c, s.spender x = some c ∧ (e = c ∨ Reach s c e)) →
      ∀ e ∈ l.foldl (conflictStep s) acc, ∃ x ∈ t.ins, ∃ c, s.spender x = some c ∧ (e = c ∨ Reach s c e) := by
    intro l
    induction l with
    | nil => intro acc _ ha e he; exact ha e (by simpa using he)
    | cons y l ih =>
      intro acc hl ha
      simp only [List.foldl_cons]
      apply ih _ (fun x hx => hl x (by simp [hx]))
      unfold conflictStep
      cases hs : s.spender y with
      | none => exact ha
      | some c =>
        simp only
        intro e he
        rcases unionTx_sub _ _ he with h1 | h1
        · rcases insertTx_sub h1 with h2 | h2
          · exact ha e h2
          · exact ⟨y, hl y (by simp), c, hs, Or.inl h2⟩
        · exact ⟨y, hl y (by simp), c, hs, Or.inr (txDescendants_sound ok _ c e h1)⟩
  exact fold t.ins [] (fun x hx => hx) (fun e he => by cases he)

end BV.C10.Lemmas
