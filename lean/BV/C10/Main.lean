import BV.Common.Loop
import BV.C10.Driver
/-! `drv_c10`: one case per input line `C10 <op> <args…>`, one canonical result line back.
Imports only core-only modules so that it links as a native executable. -/
def main : IO Unit := BV.Loop.run "C10" BV.C10.Driver.handle
