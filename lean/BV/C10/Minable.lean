/-
C10 — helper lemmas, part 11: the pooled set in ascending-id (dependency) order is a valid block body,
given the invariants and the admission conditions of every pooled transaction.
-/
import BV.C10.Orphans
namespace BV.C10.Lemmas
open BV.C10 BV.C10.Spec

/-- what admission established for one transaction, evaluated against the chain view `c` -/
def Local (c : Chain) (t : TxAbs) : Prop :=
  t.ins.Nodup ∧ t.sane = true ∧ t.coinbase = false ∧ t.valuesOk = true ∧ t.scriptsOk = true ∧
  seqLocksOk c t = true ∧ isFinal t (c.height + 1) c.mtp = true ∧ (∀ x ∈ t.ins, immature c x = false)

theorem local_of_accept {pol : Policy} {c : Chain} {s : Pool} {t : TxAbs} {isNew rl rdo : Bool} {cs : List TxAbs}
    (h : checkAccept pol c s t isNew rl rdo = .ok cs) : Local c t := by
  have f := checkAccept_ok_inv h
  exact ⟨f.nodup, f.sane, f.notCb, f.values, f.scripts, f.seqLock, f.final, f.mature⟩

/-- finality is monotone in height and time -/
theorem isFinal_mono {t : TxAbs} {h h' m m' : Nat} (hh : h ≤ h') (hm : m ≤ m') (hf : isFinal t h m = true) :
    isFinal t h' m' = true := by
  unfold isFinal at hf ⊢
  by_cases h0 : t.lockTime = 0
  · simp [h0]
  · simp only [h0, if_false] at hf ⊢
    by_cases hth : t.lockTime < lockTimeThreshold
    · simp only [hth, if_true] at hf ⊢
      by_cases h1 : t.lockTime < h
      · have : t.lockTime < h' := by omega
        simp [this]
      · simp only [h1, if_false] at hf
        by_cases h2 : t.lockTime < h'
        · simp [h2]
        · simp only [h2, if_false]; exact hf
    · simp only [hth, if_false] at hf ⊢
      by_cases h1 : t.lockTime < m
      · have : t.lockTime < m' := by omega
        simp [this]
      · simp only [h1, if_false] at hf
        by_cases h2 : t.lockTime < m'
        · simp [h2]
        · simp only [h2, if_false]; exact hf

theorem validSeq_sorted {c : Chain} {s : Pool} (nds : NoDoubleSpend s) (rk : PoolRanked s)
    (av : InputsAvailable c s) (loc : ∀ t ∈ s.txs, Local c t) :
    ∀ (rest pre : List TxAbs), (∀ t, t ∈ s.txs ↔ t ∈ pre ∨ t ∈ rest) →
    rest.Pairwise (fun a b => a.id < b.id) → (∀ a ∈ pre, ∀ b ∈ rest, a.id < b.id) → ValidSeq c pre rest
  | [], _, _, _, _ => trivial
  | t :: rest, pre, hmem, hs, hlt => by
    have ht : t ∈ s.txs := (hmem t).2 (Or.inr (by simp))
    obtain ⟨hs1, hs2⟩ := List.pairwise_cons.1 hs
    obtain ⟨l1, l2, l3, l4, l5, l6, l7, l8⟩ := loc t ht
    refine ⟨⟨l1, l2, l3, l4, l5, l6, l7, l8, ?_⟩, ?_⟩
    · intro x hx
      constructor
      · rcases av t ht x hx with h | ⟨p, hp, ho⟩
        · exact Or.inl h
        · right
          have hpid : p.id < t.id := by rw [ho.1]; exact rk t ht x hx
          rcases (hmem p).1 hp with h | h
          · exact ⟨p, h, ho⟩
          · rcases List.mem_cons.1 h with rfl | h'
            · omega
            · have := hs1 p h'; omega
      · intro q hq hxq
        have hqs : q ∈ s.txs := (hmem q).2 (Or.inl hq)
        have : q = t := nds q hqs t ht x hxq hx
        subst this
        have := hlt q hq q (by simp)
        omega
    · apply validSeq_sorted nds rk av loc rest (pre ++ [t])
      · intro u
        rw [hmem u]
        simp only [List.mem_append, List.mem_cons, List.mem_singleton, List.not_mem_nil, or_false]
        constructor
        · rintro (h | h | h)
          · exact Or.inl (Or.inl h)
          · exact Or.inl (Or.inr h)
          · exact Or.inr h
        · rintro ((h | h) | h)
          · exact Or.inl h
          · exact Or.inr (Or.inl h)
          · exact Or.inr (Or.inr h)
      · exact hs2
      · intro a ha b hb
        simp only [List.mem_append, List.mem_singleton] at ha
        rcases ha with ha | rfl
        · exact hlt a ha b (by simp [hb])
        · exact hs1 b hb

end BV.C10.Lemmas
