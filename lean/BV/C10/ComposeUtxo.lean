/-
C10 — composition with C03: the chain view the mempool model consults is C03's UTXO fold.  Connecting a
block in the mempool model is one `C03.Spec.applyBlock` step on the represented set.
-/
import BV.C10.Compose
import BV.C03.Spec
namespace BV.C10.Lemmas
open BV.C10 BV.C10.Spec

/-- the mempool model's transaction as C03 sees it: `nOuts` spendable outputs -/
def toC03Tx (t : TxAbs) : C03.Tx :=
  ⟨t.id, t.ins.map (fun x => (x.txid, x.idx)), List.replicate t.nOuts ⟨0, []⟩⟩

def toC03Block (b : Block) : C03.Block := ⟨0, toC03Tx b.cb, b.txs.map toC03Tx⟩

/-- the model's utxo list holds exactly the outpoints of the C03 set -/
def Represents (u : List Utxo) (U : C03.Spec.UtxoSet) : Prop :=
  ∀ x : OutPoint, hasU u x ↔ (U (x.txid, x.idx)).isSome = true

theorem spendable_empty : C03.Spec.unspendable [] = false := by decide

theorem spendAll_get : ∀ (ins : List C03.OutPoint) (U : C03.Spec.UtxoSet) (p : C03.OutPoint),
    C03.Spec.spendAll U ins p = if p ∈ ins then none else U p
  | [], U, p => by simp [C03.Spec.spendAll]
  | o :: ins, U, p => by
    have ih := spendAll_get ins (C03.Spec.spend U o) p
    simp only [C03.Spec.spendAll, List.foldl_cons] at ih ⊢
    rw [ih]
    unfold C03.Spec.spend
    by_cases h1 : p ∈ ins
    · simp [h1]
    · by_cases h2 : p = o
      · simp [h1, h2]
      · simp [h1, h2]

theorem addOuts_get (id h : Nat) (cb : Bool) : ∀ (n i0 : Nat) (U : C03.Spec.UtxoSet) (p : C03.OutPoint),
    (C03.Spec.addOuts id h cb i0 (List.replicate n ⟨0, []⟩) U p).isSome =
      (decide (p.1 = id ∧ i0 ≤ p.2 ∧ p.2 < i0 + n) || (U p).isSome)
  | 0, i0, U, p => by
    have : decide (p.1 = id ∧ i0 ≤ p.2 ∧ p.2 < i0 + 0) = false := by
      apply decide_eq_false; omega
    rw [this]
    simp [C03.Spec.addOuts]
  | n + 1, i0, U, p => by
    simp only [List.replicate_succ, C03.Spec.addOuts]
    rw [addOuts_get id h cb n (i0 + 1)]
    unfold C03.Spec.addOut
    simp only [spendable_empty, Bool.false_eq_true, if_false]
    unfold C03.Spec.add
    by_cases hp : p = (id, i0)
    · subst hp
      simp
    · have hne : ¬ (p.1 = id ∧ p.2 = i0) := by
        intro ⟨a, b⟩; apply hp; cases p; simp only at a b; rw [a, b]
      simp only [hp, if_false]
      by_cases h1 : p.1 = id
      · have : p.2 ≠ i0 := fun e => hne ⟨h1, e⟩
        congr 1
        simp only [h1, true_and, decide_eq_decide]
        omega
      · simp [h1]

theorem c03_applyTx_isSome (h : Nat) (cb : Bool) (U : C03.Spec.UtxoSet) (t : TxAbs) (p : C03.OutPoint) :
    (C03.Spec.applyTx h cb U (toC03Tx t) p).isSome =
      (decide (p.1 = t.id ∧ p.2 < t.nOuts) ||
        ((if cb then U else C03.Spec.spendAll U (t.ins.map (fun x => (x.txid, x.idx)))) p).isSome) := by
  unfold C03.Spec.applyTx toC03Tx
  rw [addOuts_get]
  have e : decide (p.1 = t.id ∧ 0 ≤ p.2 ∧ p.2 < 0 + t.nOuts) = decide (p.1 = t.id ∧ p.2 < t.nOuts) := by
    apply decide_eq_decide.2
    constructor
    · rintro ⟨a, _, b⟩; exact ⟨a, by omega⟩
    · rintro ⟨a, b⟩; exact ⟨a, by omega, by omega⟩
  rw [e]

theorem mem_map_op {ins : List OutPoint} {x : OutPoint} :
    (x.txid, x.idx) ∈ ins.map (fun y => (y.txid, y.idx)) ↔ x ∈ ins := by
  simp only [List.mem_map, Prod.mk.injEq]
  constructor
  · rintro ⟨y, hy, h1, h2⟩
    have : y = x := by cases y; cases x; simp only at h1 h2; rw [h1, h2]
    rw [← this]; exact hy
  · intro h; exact ⟨x, h, rfl, rfl⟩

/-- one non-coinbase transaction -/
theorem represents_applyTx {u : List Utxo} {U : C03.Spec.UtxoSet} (hr : Represents u U) (h : Nat) (T : TxAbs) :
    Represents (applyTx h false u T) (C03.Spec.applyTx h false U (toC03Tx T)) := by
  intro x
  rw [applyTx_has, c03_applyTx_isSome]
  simp only [Bool.false_eq_true, if_false, Bool.or_eq_true, decide_eq_true_eq]
  rw [spendAll_get]
  unfold OutputOf
  constructor
  · rintro (⟨a, b⟩ | ⟨a, b⟩)
    · right
      have : ¬ (x.txid, x.idx) ∈ T.ins.map (fun y => (y.txid, y.idx)) := fun hm => b (mem_map_op.1 hm)
      simp only [this, if_false]
      exact (hr x).1 a
    · exact Or.inl ⟨a.symm, b⟩
  · rintro (⟨a, b⟩ | a)
    · exact Or.inr ⟨a.symm, b⟩
    · left
      by_cases hm : (x.txid, x.idx) ∈ T.ins.map (fun y => (y.txid, y.idx))
      · simp [hm] at a
      · simp only [hm, if_false] at a
        exact ⟨(hr x).2 a, fun hx => hm (mem_map_op.2 hx)⟩

theorem represents_fold (h : Nat) : ∀ (l : List TxAbs) (u : List Utxo) (U : C03.Spec.UtxoSet), Represents u U →
    Represents (l.foldl (applyTx h false) u) (C03.Spec.applyTxs h U (l.map toC03Tx))
  | [], _, _, hr => hr
  | T :: l, u, U, hr => by
    simp only [List.foldl_cons, List.map_cons, C03.Spec.applyTxs]
    exact represents_fold h l _ _ (represents_applyTx hr h T)

/-- outputs appended before or after the block's transactions: the same set, when no transaction spends them -/
theorem fold_append_has {h : Nat} : ∀ (l : List TxAbs) (u m : List Utxo) (x : OutPoint),
    hasU (l.foldl (applyTx h false) (u ++ m)) x ↔
      hasU (l.foldl (applyTx h false) u) x ∨ (hasU m x ∧ ∀ T ∈ l, x ∉ T.ins)
  | [], u, m, x => by
    simp only [List.foldl_nil, List.not_mem_nil, false_imp_iff, implies_true, and_true]
    unfold hasU
    simp only [List.mem_append]
    constructor
    · rintro ⟨e, (he | he), rfl⟩
      · exact Or.inl ⟨e, he, rfl⟩
      · exact Or.inr ⟨e, he, rfl⟩
    · rintro (⟨e, he, rfl⟩ | ⟨e, he, rfl⟩)
      · exact ⟨e, Or.inl he, rfl⟩
      · exact ⟨e, Or.inr he, rfl⟩
  | T :: l, u, m, x => by
    simp only [List.foldl_cons]
    -- applyTx distributes over the appended part
    have hd : applyTx h false (u ++ m) T = applyTx h false u T ++ m.filter (fun e => e.op ∉ T.ins) ∨ True := Or.inr trivial
    clear hd
    have key : ∀ y, hasU (applyTx h false (u ++ m) T) y ↔
        hasU (applyTx h false u T ++ m.filter (fun e => decide (e.op ∉ T.ins))) y := by
      intro y
      rw [applyTx_has]
      unfold hasU
      simp only [List.mem_append, List.mem_filter, decide_eq_true_eq]
      constructor
      · rintro (⟨⟨e, (he | he), rfl⟩, hn⟩ | ho)
        · exact ⟨e, Or.inl ((show e ∈ applyTx h false u T from by
            unfold applyTx; simp only [List.mem_append, List.mem_filter, decide_eq_true_eq]; exact Or.inl ⟨he, hn⟩)), rfl⟩
        · exact ⟨e, Or.inr ⟨he, hn⟩, rfl⟩
        · obtain ⟨e, he, rfl⟩ := (outsOf_has (h := h) (cb := false)).2 ho
          exact ⟨e, Or.inl (by unfold applyTx; simp only [List.mem_append]; exact Or.inr he), rfl⟩
      · rintro ⟨e, (he | ⟨he, hn⟩), rfl⟩
        · unfold applyTx at he
          simp only [List.mem_append, List.mem_filter, decide_eq_true_eq] at he
          rcases he with ⟨he, hn⟩ | he
          · exact Or.inl ⟨⟨e, Or.inl he, rfl⟩, hn⟩
          · exact Or.inr ((outsOf_has (h := h) (cb := false)).1 ⟨e, he, rfl⟩)
        · exact Or.inl ⟨⟨e, Or.inr he, rfl⟩, hn⟩
    -- membership only depends on the set, so replace the state by the distributed form
    have transport : ∀ (l : List TxAbs) (a b : List Utxo), (∀ y, hasU a y ↔ hasU b y) →
        ∀ y, hasU (l.foldl (applyTx h false) a) y ↔ hasU (l.foldl (applyTx h false) b) y := by
      intro l
      induction l with
      | nil => intro a b hab y; exact hab y
      | cons T' l ih =>
        intro a b hab y
        simp only [List.foldl_cons]
        apply ih
        intro z
        rw [applyTx_has, applyTx_has, hab z]
    rw [transport l _ _ key x, fold_append_has l _ _ x]
    unfold hasU
    simp only [List.mem_filter, decide_eq_true_eq, List.mem_cons, forall_eq_or_imp]
    constructor
    · rintro (a | ⟨⟨e, ⟨he, hn⟩, rfl⟩, hl⟩)
      · exact Or.inl a
      · exact Or.inr ⟨⟨e, he, rfl⟩, hn, hl⟩
    · rintro (a | ⟨⟨e, he, rfl⟩, hn, hl⟩)
      · exact Or.inl a
      · exact Or.inr ⟨⟨e, ⟨he, hn⟩, rfl⟩, hl⟩

/-- **connect = one step of C03's fold.**  If the model's utxo list represents the set `U`, then after the
model connects block `b` (whose transactions do not spend the block's own coinbase) the list represents
`C03.Spec.applyBlock U (height+1) b`. -/
theorem connect_represents {c : Chain} {U : C03.Spec.UtxoSet} (hr : Represents c.utxo U) (b : Block)
    (hcb : ∀ T ∈ b.txs, ∀ x ∈ T.ins, x.txid ≠ b.cb.id) :
    Represents (c.connect b).utxo (C03.Spec.applyBlock U (c.height + 1) (toC03Block b)) := by
  intro x
  have hU1 : Represents (c.utxo ++ outsOf (c.height + 1) true b.cb)
      (C03.Spec.applyTx (c.height + 1) true U (toC03Tx b.cb)) := by
    intro y
    rw [c03_applyTx_isSome]
    simp only [if_true, Bool.or_eq_true, decide_eq_true_eq]
    unfold hasU
    simp only [List.mem_append]
    constructor
    · rintro ⟨e, (he | he), rfl⟩
      · exact Or.inr ((hr e.op).1 ⟨e, he, rfl⟩)
      · have := (outsOf_has (h := c.height + 1) (cb := true)).1 ⟨e, he, rfl⟩
        exact Or.inl ⟨this.1.symm, this.2⟩
    · rintro (⟨a, b'⟩ | a)
      · obtain ⟨e, he, rfl⟩ := (outsOf_has (h := c.height + 1) (cb := true)).2 ⟨a.symm, b'⟩
        exact ⟨e, Or.inr he, rfl⟩
      · obtain ⟨e, he, rfl⟩ := (hr y).2 a
        exact ⟨e, Or.inl he, rfl⟩
  have hfold := represents_fold (c.height + 1) b.txs _ _ hU1 x
  unfold C03.Spec.applyBlock toC03Block
  simp only
  rw [← hfold, fold_append_has]
  have hc : (c.connect b).utxo = b.txs.foldl (applyTx (c.height + 1) false) c.utxo ++ outsOf (c.height + 1) true b.cb := rfl
  rw [hc]
  unfold hasU
  simp only [List.mem_append]
  constructor
  · rintro ⟨e, (he | he), rfl⟩
    · exact Or.inl ⟨e, he, rfl⟩
    · right
      refine ⟨⟨e, he, rfl⟩, ?_⟩
      intro T hT hin
      have := (outsOf_has (h := c.height + 1) (cb := true)).1 ⟨e, he, rfl⟩
      exact hcb T hT e.op hin this.1.symm
  · rintro (⟨e, he, rfl⟩ | ⟨⟨e, he, rfl⟩, _⟩)
    · exact ⟨e, Or.inl he, rfl⟩
    · exact ⟨e, Or.inr he, rfl⟩

theorem represents_empty : Represents [] C03.Spec.empty := by
  intro x; unfold hasU C03.Spec.empty; simp

end BV.C10.Lemmas

namespace BV.C10.Lemmas
open BV.C10 BV.C10.Spec

def connectAll (c : Chain) (bs : List Block) : Chain := bs.foldl Chain.connect c

theorem connect_height (c : Chain) (b : Block) : (c.connect b).height = c.height + 1 := rfl

/-- a chain built by connecting blocks: the model's view represents C03's fold of those blocks -/
theorem connectAll_represents : ∀ (bs : List Block) (c : Chain) (U : C03.Spec.UtxoSet), Represents c.utxo U →
    (∀ b ∈ bs, ∀ T ∈ b.txs, ∀ x ∈ T.ins, x.txid ≠ b.cb.id) →
    Represents (connectAll c bs).utxo (C03.Spec.utxoFrom U (c.height + 1) (bs.map toC03Block))
  | [], _, _, hr, _ => hr
  | b :: bs, c, U, hr, hcb => by
    simp only [connectAll, List.foldl_cons, List.map_cons, C03.Spec.utxoFrom]
    have h1 := connect_represents hr b (hcb b (by simp))
    have := connectAll_represents bs (c.connect b) _ h1 (fun b' hb' => hcb b' (by simp [hb']))
    rw [connect_height] at this
    exact this

end BV.C10.Lemmas
