/-
C10 — the property, stated directly on the abstract state (chain view + pool).  Core-only.
-/
import BV.C10.Model
namespace BV.C10.Spec
open BV.C10

/-- a transaction id names one transaction -/
def IdFun (s : Pool) : Prop := ∀ t1 ∈ s.txs, ∀ t2 ∈ s.txs, t1.id = t2.id → t1 = t2

/-- no two pooled transactions spend the same output -/
def NoDoubleSpend (s : Pool) : Prop :=
  ∀ t1 ∈ s.txs, ∀ t2 ∈ s.txs, ∀ x, x ∈ t1.ins → x ∈ t2.ins → t1 = t2

/-- the spend index is exactly `{(in, tx) | tx ∈ pool, in ∈ tx.ins}` -/
def IndexAgrees (s : Pool) : Prop := ∀ x t, (x, t) ∈ s.spent ↔ (t ∈ s.txs ∧ x ∈ t.ins)

/-- `x` is an output created by the transaction `p` -/
def OutputOf (x : OutPoint) (p : TxAbs) : Prop := p.id = x.txid ∧ x.idx < p.nOuts

/-- every pooled transaction's inputs are unspent in the chain or created by another pooled transaction -/
def InputsAvailable (c : Chain) (s : Pool) : Prop :=
  ∀ t ∈ s.txs, ∀ x ∈ t.ins, c.has x = true ∨ ∃ p ∈ s.txs, OutputOf x p

/-- ids are ranks: a transaction only references transactions created before it (how "a txid is the
hash of the content, which contains the parents' txids" appears in the model); with
`InputsAvailable` this makes the pooled dependency graph acyclic and ascending id a dependency order -/
def Ranked (t : TxAbs) : Prop := ∀ x ∈ t.ins, x.txid < t.id

def PoolRanked (s : Pool) : Prop := ∀ t ∈ s.txs, Ranked t

/-- the orphan index is exactly `{(in, tx) | tx ∈ orphans, in ∈ tx.ins}` -/
def OrphanIndexAgrees (s : Pool) : Prop :=
  ∀ x t, (x, t) ∈ s.byPrev ↔ ((∃ tag, (t, tag) ∈ s.orphans) ∧ x ∈ t.ins)

/-- orphan storage stays within its configured bounds -/
def OrphanBounds (pol : Policy) (s : Pool) : Prop :=
  (s.orphans.length : Int) ≤ max pol.maxOrphans 0 ∧ ∀ o ∈ s.orphans, o.1.size ≤ pol.maxOrphanSize

/-- what a block requires of one transaction, given the outputs available before it -/
def TxValidAt (c : Chain) (earlier : List TxAbs) (t : TxAbs) : Prop :=
  t.ins.Nodup ∧ t.sane = true ∧ t.coinbase = false ∧ t.valuesOk = true ∧ t.scriptsOk = true ∧
  seqLocksOk c t = true ∧ isFinal t (c.height + 1) c.mtp = true ∧
  (∀ x ∈ t.ins, immature c x = false) ∧
  (∀ x ∈ t.ins, (c.has x = true ∨ ∃ p ∈ earlier, OutputOf x p) ∧ ∀ q ∈ earlier, x ∉ q.ins)

/-- a list of transactions, in this order, is valid in the next block on top of the chain view -/
def ValidSeq (c : Chain) : List TxAbs → List TxAbs → Prop
  | _, [] => True
  | earlier, t :: rest => TxValidAt c earlier t ∧ ValidSeq c (earlier ++ [t]) rest

end BV.C10.Spec
