/-
C10 — helper lemmas, part 1: the main pool (pool / spend index) primitives keep
`IdFun ∧ NoDoubleSpend ∧ IndexAgrees`.
-/
import BV.C10.Spec
namespace BV.C10.Lemmas
open BV.C10 BV.C10.Spec

structure PoolOk (s : Pool) : Prop where
  idFun : IdFun s
  nds : NoDoubleSpend s
  idx : IndexAgrees s

theorem mem_txs {s : Pool} {t : TxAbs} : t ∈ s.txs ↔ ∃ e ∈ s.pool, e.tx = t := by
  simp [Pool.txs, List.mem_map]

theorem poolOk_empty : PoolOk Pool.empty := by
  refine ⟨?_, ?_, ?_⟩
  · intro t1 h; simp [Pool.txs, Pool.empty] at h
  · intro t1 h; simp [Pool.txs, Pool.empty] at h
  · intro x t; simp [Pool.txs, Pool.empty]

/-! ### lookups -/

theorem findTx_some {s : Pool} {id : Nat} {t : TxAbs} (h : s.findTx id = some t) :
    t ∈ s.txs ∧ t.id = id := by
  unfold Pool.findTx at h
  cases hf : s.pool.find? (fun e => decide (e.tx.id = id)) with
  | none => simp [hf] at h
  | some e =>
    simp [hf] at h
    have h1 := List.mem_of_find?_eq_some hf
    have h2 := List.find?_some hf
    simp at h2
    subst h
    exact ⟨mem_txs.2 ⟨e, h1, rfl⟩, h2⟩

theorem findTx_none {s : Pool} {id : Nat} (h : s.findTx id = none) : ∀ t ∈ s.txs, t.id ≠ id := by
  unfold Pool.findTx at h
  intro t ht
  obtain ⟨e, he, rfl⟩ := mem_txs.1 ht
  cases hf : s.pool.find? (fun e => decide (e.tx.id = id)) with
  | some e' => simp [hf] at h
  | none =>
    have := List.find?_eq_none.1 hf e he
    simpa using this

theorem findTx_of_mem {s : Pool} (hid : IdFun s) {t : TxAbs} (ht : t ∈ s.txs) : s.findTx t.id = some t := by
  cases h : s.findTx t.id with
  | none => exact absurd rfl (findTx_none h t ht)
  | some u =>
    obtain ⟨hu, hid'⟩ := findTx_some h
    rw [hid u hu t ht hid']

theorem inPool_iff {s : Pool} {id : Nat} : s.inPool id = true ↔ ∃ t ∈ s.txs, t.id = id := by
  unfold Pool.inPool
  simp only [List.any_eq_true, decide_eq_true_eq]
  constructor
  · rintro ⟨e, he, h⟩; exact ⟨e.tx, mem_txs.2 ⟨e, he, rfl⟩, h⟩
  · rintro ⟨t, ht, h⟩; obtain ⟨e, he, rfl⟩ := mem_txs.1 ht; exact ⟨e, he, h⟩

theorem spender_some {s : Pool} {x : OutPoint} {t : TxAbs} (h : s.spender x = some t) : (x, t) ∈ s.spent := by
  unfold Pool.spender at h
  cases hf : s.spent.find? (fun p => decide (p.1 = x)) with
  | none => simp [hf] at h
  | some p =>
    simp [hf] at h
    have h1 := List.mem_of_find?_eq_some hf
    have h2 := List.find?_some hf
    simp at h2
    obtain ⟨a, b⟩ := p
    simp at h h2
    subst h; subst h2
    exact h1

theorem spender_none {s : Pool} {x : OutPoint} (h : s.spender x = none) : ∀ t, (x, t) ∉ s.spent := by
  unfold Pool.spender at h
  intro t ht
  cases hf : s.spent.find? (fun p => decide (p.1 = x)) with
  | some p => simp [hf] at h
  | none =>
    have := List.find?_eq_none.1 hf (x, t) ht
    simp at this

theorem spender_of_mem {s : Pool} (ok : PoolOk s) {x : OutPoint} {t : TxAbs} (h : (x, t) ∈ s.spent) :
    s.spender x = some t := by
  cases hs : s.spender x with
  | none => exact absurd h (spender_none hs t)
  | some u =>
    have hu := spender_some hs
    obtain ⟨hu1, hu2⟩ := (ok.idx x u).1 hu
    obtain ⟨ht1, ht2⟩ := (ok.idx x t).1 h
    rw [ok.nds u hu1 t ht1 x hu2 ht2]

/-! ### removeOne -/

theorem removeOne_txs {s : Pool} {id : Nat} {u : TxAbs} :
    u ∈ (removeOne s id).txs ↔ u ∈ s.txs ∧ u.id ≠ id := by
  unfold removeOne
  cases h : s.findTx id with
  | none =>
    simp only
    constructor
    · intro hu; exact ⟨hu, findTx_none h u hu⟩
    · intro hu; exact hu.1
  | some t =>
    simp only [mem_txs, List.mem_filter, decide_eq_true_eq]
    constructor
    · rintro ⟨e, ⟨he, hne⟩, rfl⟩; exact ⟨⟨e, he, rfl⟩, hne⟩
    · rintro ⟨⟨e, he, rfl⟩, hne⟩; exact ⟨e, ⟨he, hne⟩, rfl⟩

theorem removeOne_ok {s : Pool} (ok : PoolOk s) (id : Nat) : PoolOk (removeOne s id) := by
  refine ⟨?_, ?_, ?_⟩
  · intro t1 h1 t2 h2 e
    exact ok.idFun t1 (removeOne_txs.1 h1).1 t2 (removeOne_txs.1 h2).1 e
  · intro t1 h1 t2 h2 x a b
    exact ok.nds t1 (removeOne_txs.1 h1).1 t2 (removeOne_txs.1 h2).1 x a b
  · intro x u
    rw [removeOne_txs]
    unfold removeOne
    cases h : s.findTx id with
    | none =>
      simp only
      rw [ok.idx x u]
      constructor
      · rintro ⟨a, b⟩; exact ⟨⟨a, findTx_none h u a⟩, b⟩
      · rintro ⟨⟨a, _⟩, b⟩; exact ⟨a, b⟩
    | some t =>
      obtain ⟨ht, hid⟩ := findTx_some h
      simp only [List.mem_filter, decide_eq_true_eq]
      rw [ok.idx x u]
      constructor
      · rintro ⟨⟨a, b⟩, c⟩
        refine ⟨⟨a, ?_⟩, b⟩
        intro e
        have : u = t := ok.idFun u a t ht (by rw [e, hid])
        subst this; exact c b
      · rintro ⟨⟨a, ne⟩, b⟩
        refine ⟨⟨a, b⟩, ?_⟩
        intro c
        have : u = t := ok.nds u a t ht x b c
        subst this; exact ne hid

theorem removeOne_orphans (s : Pool) (id : Nat) :
    (removeOne s id).orphans = s.orphans ∧ (removeOne s id).byPrev = s.byPrev := by
  unfold removeOne; cases s.findTx id <;> simp

/-! ### generic fold helper -/

theorem foldl_inv {α β : Type} (P : β → Prop) (f : β → α → β) (h : ∀ b a, P b → P (f b a)) :
    ∀ (l : List α) (b : β), P b → P (l.foldl f b)
  | [], _, hb => hb
  | a :: l, b, hb => foldl_inv P f h l (f b a) (h b a hb)

/-! ### removeRec / removeTransaction / removeDoubleSpends -/

theorem removeRec_ok : ∀ (f : Nat) (s : Pool) (id n : Nat), PoolOk s → PoolOk (removeRec f s id n)
  | 0, s, _, _, ok => by simpa [removeRec] using ok
  | f + 1, s, id, n, ok => by
    unfold removeRec
    apply removeOne_ok
    apply foldl_inv PoolOk _ _ _ _ ok
    intro b a hb
    cases h : b.spender ⟨id, a⟩ with
    | none => simpa [h] using hb
    | some r => simpa [h] using removeRec_ok f b r.id r.nOuts hb

theorem removeTransaction_ok {s : Pool} (ok : PoolOk s) (t : TxAbs) (red : Bool) :
    PoolOk (removeTransaction s t red) := by
  unfold removeTransaction
  cases red
  · simpa using removeOne_ok ok t.id
  · simpa using removeRec_ok _ s t.id t.nOuts ok

theorem removeDoubleSpends_ok {s : Pool} (ok : PoolOk s) (t : TxAbs) : PoolOk (removeDoubleSpends s t) := by
  unfold removeDoubleSpends
  apply foldl_inv PoolOk _ _ _ _ ok
  intro b a hb
  cases h : b.spender a with
  | none => simpa [h] using hb
  | some r =>
    simp only [h]
    split
    · exact removeRec_ok _ b r.id r.nOuts hb
    · exact hb

/-! ### addTx -/

theorem setSpent_mem {sp : List (OutPoint × TxAbs)} {x y : OutPoint} {t u : TxAbs} :
    (y, u) ∈ setSpent sp x t ↔ (y = x ∧ u = t) ∨ ((y, u) ∈ sp ∧ y ≠ x) := by
  unfold setSpent
  simp only [List.mem_cons, List.mem_filter, decide_eq_true_eq, Prod.mk.injEq, ne_eq]

theorem foldl_setSpent_mem (t : TxAbs) : ∀ (l : List OutPoint) (sp : List (OutPoint × TxAbs)) (y : OutPoint) (u : TxAbs),
    (y, u) ∈ l.foldl (fun sp x => setSpent sp x t) sp ↔ (y ∈ l ∧ u = t) ∨ ((y, u) ∈ sp ∧ y ∉ l)
  | [], sp, y, u => by simp
  | x :: l, sp, y, u => by
    simp only [List.foldl_cons]
    rw [foldl_setSpent_mem t l (setSpent sp x t) y u, setSpent_mem]
    simp only [List.mem_cons, not_or]
    constructor
    · rintro (⟨a, b⟩ | ⟨(⟨a, b⟩ | ⟨a, b⟩), c⟩)
      · exact Or.inl ⟨Or.inr a, b⟩
      · exact Or.inl ⟨Or.inl a, b⟩
      · exact Or.inr ⟨a, b, c⟩
    · rintro (⟨(a | a), b⟩ | ⟨a, b, c⟩)
      · by_cases hy : y ∈ l
        · exact Or.inl ⟨hy, b⟩
        · exact Or.inr ⟨Or.inl ⟨a, b⟩, hy⟩
      · exact Or.inl ⟨a, b⟩
      · exact Or.inr ⟨Or.inr ⟨a, b⟩, c⟩

theorem addTx_txs {s : Pool} {t u : TxAbs} {h : Nat} :
    u ∈ (addTx s t h).txs ↔ u = t ∨ (u ∈ s.txs ∧ u.id ≠ t.id) := by
  unfold addTx
  simp only [mem_txs, List.mem_cons, List.mem_filter, decide_eq_true_eq]
  constructor
  · rintro ⟨e, (rfl | ⟨he, hne⟩), rfl⟩
    · exact Or.inl rfl
    · exact Or.inr ⟨⟨e, he, rfl⟩, hne⟩
  · rintro (rfl | ⟨⟨e, he, rfl⟩, hne⟩)
    · exact ⟨⟨u, h, true⟩, Or.inl rfl, rfl⟩
    · exact ⟨e, Or.inr ⟨he, hne⟩, rfl⟩

/-- adding a transaction none of whose inputs is spent in the pool and whose id is new -/
theorem addTx_ok {s : Pool} (ok : PoolOk s) (t : TxAbs) (h : Nat)
    (hnew : ∀ u ∈ s.txs, u.id ≠ t.id) (hfree : ∀ x ∈ t.ins, ∀ u, (x, u) ∉ s.spent) :
    PoolOk (addTx s t h) := by
  have hfree' : ∀ u ∈ s.txs, ∀ x, x ∈ u.ins → x ∉ t.ins := by
    intro u hu x hx hxt
    exact hfree x hxt u ((ok.idx x u).2 ⟨hu, hx⟩)
  refine ⟨?_, ?_, ?_⟩
  · intro t1 h1 t2 h2 e
    rcases addTx_txs.1 h1 with rfl | ⟨a1, _⟩ <;> rcases addTx_txs.1 h2 with rfl | ⟨a2, _⟩
    · rfl
    · exact absurd e.symm (hnew t2 a2)
    · exact absurd e (hnew t1 a1)
    · exact ok.idFun t1 a1 t2 a2 e
  · intro t1 h1 t2 h2 x a b
    rcases addTx_txs.1 h1 with rfl | ⟨a1, _⟩ <;> rcases addTx_txs.1 h2 with rfl | ⟨a2, _⟩
    · rfl
    · exact absurd a (hfree' t2 a2 x b)
    · exact absurd b (hfree' t1 a1 x a)
    · exact ok.nds t1 a1 t2 a2 x a b
  · intro x u
    rw [addTx_txs]
    show (x, u) ∈ t.ins.foldl (fun sp x => setSpent sp x t) s.spent ↔ _
    rw [foldl_setSpent_mem, ok.idx x u]
    constructor
    · rintro (⟨a, rfl⟩ | ⟨⟨a, b⟩, c⟩)
      · exact ⟨Or.inl rfl, a⟩
      · exact ⟨Or.inr ⟨a, hnew u a⟩, b⟩
    · rintro ⟨(rfl | ⟨a, _⟩), b⟩
      · exact Or.inl ⟨b, rfl⟩
      · exact Or.inr ⟨⟨a, b⟩, hfree' u a x b⟩

theorem addTx_orphans (s : Pool) (t : TxAbs) (h : Nat) :
    (addTx s t h).orphans = s.orphans ∧ (addTx s t h).byPrev = s.byPrev := by
  simp [addTx]

end BV.C10.Lemmas
