/-
C10 — composition towards C12 (block templates): not only the whole pool but EVERY selection from it that
is closed under pooled parents, listed in dependency (ascending id) order, is a valid block body.
-/
import BV.C10.ComposeUtxo
namespace BV.C10.Lemmas
open BV.C10 BV.C10.Spec

/-- a selection from the pool that contains, for each member, the pooled parents it needs (those whose
output is not available from the chain) -/
def ParentClosed (c : Chain) (s : Pool) (l : List TxAbs) : Prop :=
  (∀ t ∈ l, t ∈ s.txs) ∧
  ∀ t ∈ l, ∀ x ∈ t.ins, c.has x = false → ∀ p ∈ s.txs, OutputOf x p → p ∈ l

theorem validSeq_selection {c : Chain} {s : Pool} (nds : NoDoubleSpend s) (rk : PoolRanked s)
    (av : InputsAvailable c s) (loc : ∀ t ∈ s.txs, Local c t) :
    ∀ (rest pre : List TxAbs), ParentClosed c s (pre ++ rest) →
    rest.Pairwise (fun a b => a.id < b.id) → (∀ a ∈ pre, ∀ b ∈ rest, a.id < b.id) → ValidSeq c pre rest
  | [], _, _, _, _ => trivial
  | t :: rest, pre, hcl, hs, hlt => by
    have ht : t ∈ s.txs := hcl.1 t (by simp)
    obtain ⟨hs1, hs2⟩ := List.pairwise_cons.1 hs
    obtain ⟨l1, l2, l3, l4, l5, l6, l7, l8⟩ := loc t ht
    refine ⟨⟨l1, l2, l3, l4, l5, l6, l7, l8, ?_⟩, ?_⟩
    · intro x hx
      constructor
      · cases hc : c.has x with
        | true => exact Or.inl rfl
        | false =>
          right
          rcases av t ht x hx with h | ⟨p, hp, ho⟩
          · rw [hc] at h; cases h
          · have hpl := hcl.2 t (by simp) x hx hc p hp ho
            have hpid : p.id < t.id := by rw [ho.1]; exact rk t ht x hx
            rcases List.mem_append.1 hpl with h | h
            · exact ⟨p, h, ho⟩
            · rcases List.mem_cons.1 h with rfl | h'
              · omega
              · have := hs1 p h'; omega
      · intro q hq hxq
        have hqs : q ∈ s.txs := hcl.1 q (by simp [hq])
        have : q = t := nds q hqs t ht x hxq hx
        subst this
        have := hlt q hq q (by simp)
        omega
    · have e : pre ++ t :: rest = (pre ++ [t]) ++ rest := by simp
      apply validSeq_selection nds rk av loc rest (pre ++ [t]) (by rw [← e]; exact hcl) hs2
      intro a ha b hb
      simp only [List.mem_append, List.mem_singleton] at ha
      rcases ha with ha | rfl
      · exact hlt a ha b (by simp [hb])
      · exact hs1 b hb

end BV.C10.Lemmas
