/-
C11 model, part 3: btcec/schnorr/musig2 {keys,nonces,sign}.go over the executable reference curve (core-only).

Mirrors AggregateKeys (+ taproot / BIP86 tweak options), tweakKey, keyHashFingerprint, secondUniqueKeyIndex,
aggregationCoefficient, GenNonces (deterministic part), AggregateNonces, computeSigningNonce, Sign,
verifyPartialSig, CombineSigs (+ With…TweakedCombine).
-/
import BV.C11.Algo
namespace BV.C11.MuSig
open BV.Secp256k1 BV.C11

/-! ### keys.go -/

structure Tweak where
  t : Bytes        -- 32 bytes
  xonly : Bool

/-- the three ways tweaks are specified (`WithKeyTweaks` / `WithTaprootKeyTweak` / `WithBIP86KeyTweak`) -/
inductive TweakOpt where
  | plain (ts : List Tweak)
  | taproot (scriptRoot : Bytes)
  | bip86

def bytesLt : Bytes → Bytes → Bool
  | [], [] => false
  | [], _ :: _ => true
  | _ :: _, [] => false
  | a :: as, b :: bs => if a.toNat < b.toNat then true else if a.toNat > b.toNat then false else bytesLt as bs

def insertKey (k : Point) : List Point → List Point
  | [] => [k]
  | h :: t => if bytesLt (serializeCompressed k) (serializeCompressed h) then k :: h :: t else h :: insertKey k t

/-- `sortKeys`: lexicographic order of the compressed encodings (equal keys are byte-identical, so every
    sorting algorithm gives the same list). -/
def sortKeys (keys : List Point) : List Point := keys.foldr insertKey []

def keyHashFingerprint (keys : List Point) (sort : Bool) : Bytes :=
  let keys := if sort then sortKeys keys else keys
  taggedHash tagKeyAggList (keys.flatMap serializeCompressed)

/-- `secondUniqueKeyIndex`, as the key itself (none = "-1": all keys equal). -/
def secondKey : List Point → Option Bytes
  | [] => none
  | k0 :: rest => (rest.find? (fun k => serializeCompressed k != serializeCompressed k0)).map serializeCompressed

def aggregationCoefficient (second : Option Bytes) (target : Point) (keysHash : Bytes) : Nat :=
  if second == some (serializeCompressed target) then 1
  else fromBE (taggedHash tagKeyAggCoeff (keysHash ++ serializeCompressed target)) % n

structure AggKey where
  final : Point
  pre : Point
  gacc : Nat
  tacc : Nat

/-- `tweakKey` -/
def tweakKey (q : Point) (gacc : Nat) (tw : Tweak) (tacc : Nat) : Option (Point × Nat × Nat) :=
  let g := if tw.xonly && !hasEvenY q then n - 1 else 1
  let t := fromBE tw.t
  if t ≥ n then none else
  match add (mulG t) (mul g q) with
  | .inf => none
  | q' => some (q', smul gacc g, sadd (smul tacc g) t)

def applyTweaks : List Tweak → Point → Nat → Nat → Option (Point × Nat × Nat)
  | [], q, gacc, tacc => some (q, gacc, tacc)
  | tw :: rest, q, gacc, tacc =>
    match tweakKey q gacc tw tacc with
    | none => none
    | some (q, gacc, tacc) => applyTweaks rest q gacc tacc

/-- `AggregateKeys(keys, sort, WithKeysHash(kh), WithUniqueKeyIndex(idx), tweak option)`: `keys` already in
    the order used (sorted when `sort`), `sk` = the key at `idx` (none for −1). -/
def aggregateKeysWith (keys : List Point) (kh : Bytes) (sk : Option Bytes) (tw : TweakOpt) : Option AggKey :=
  let q := keys.foldl (fun acc k => add acc (mul (aggregationCoefficient sk k kh) k)) .inf
  let tweaks : List Tweak := match tw with
    | .plain ts => ts
    | .taproot root => [⟨taggedHash tagTapTweak (serializeXOnly q ++ root), true⟩]
    | .bip86 => [⟨taggedHash tagTapTweak (serializeXOnly q), true⟩]
  match applyTweaks tweaks q 1 0 with
  | none => none
  | some (f, gacc, tacc) => some ⟨f, q, gacc, tacc⟩

/-- `AggregateKeys(keys, sort, tweak option)` with key hash and second-key index derived from the keys. -/
def aggregateKeys (keys : List Point) (sort : Bool) (tw : TweakOpt) : Option AggKey :=
  let keys := if sort then sortKeys keys else keys
  aggregateKeysWith keys (keyHashFingerprint keys sort) (secondKey keys) tw

/-! ### nonces.go -/

/-- `GenNonces` with the random reader fixed to `rand` (32 bytes): (secnonce, pubnonce). -/
def genNonces (rand pk : Bytes) (sk aggpk : Bytes) (msg : Option Bytes) (aux : Bytes) : Option (Bytes × Bytes) :=
  if pk.length ≠ 33 then none else
  let rand := if sk.length = 32 then xorBytes sk (taggedHash tagMusigAux rand) else rand
  let body (i : Nat) : Bytes :=
    rand ++ [UInt8.ofNat pk.length] ++ pk ++ [UInt8.ofNat aggpk.length] ++ aggpk ++
      (match msg with
       | none => [0]
       | some m => [1] ++ toBE 8 m.length ++ m) ++
      toBE 4 aux.length ++ aux ++ [UInt8.ofNat i]
  let k1 := fromBE (taggedHash tagMusigNonce (body 0)) % n
  let k2 := fromBE (taggedHash tagMusigNonce (body 1)) % n
  some (toBE 32 k1 ++ toBE 32 k2 ++ pk,
        serializeCompressed (mulG k1) ++ serializeCompressed (mulG k2))

/-- `btcec.ParseJacobian` = BIP327 cpoint_ext: 33 bytes; the all-zero string is the point at infinity, any
    other string starting with 0x00 is invalid (repaired in /repo by the F-C11-b fix). -/
def parseNoncePoint (b : Bytes) : Option Point :=
  if b.length ≠ 33 then none else
  match b with
  | 0 :: rest => if rest.all (· == 0) then some .inf else none
  | _ => parsePubKey b

/-- musig2 `parsePubNonce` = BIP327 cpoint: one half of an individual signer's public nonce must be a finite
    curve point. -/
def parsePubNonce (b : Bytes) : Option Point :=
  match b with
  | 0 :: _ => none
  | _ => parseNoncePoint b

/-- `btcec.JacobianToByteSlice` -/
def noncePointBytes : Point → Bytes
  | .inf => List.replicate 33 0
  | q => serializeCompressed q

def sumPoints : List (Option Point) → Option Point
  | [] => some .inf
  | none :: _ => none
  | some q :: rest => match sumPoints rest with
    | none => none
    | some acc => some (add q acc)

/-- `AggregateNonces` (each entry 66 bytes) -/
def aggregateNonces (ns : List Bytes) : Option Bytes :=
  match sumPoints (ns.map (fun b => parsePubNonce (b.take 33))),
        sumPoints (ns.map (fun b => parsePubNonce (b.drop 33))) with
  | some r1, some r2 => some (noncePointBytes r1 ++ noncePointBytes r2)
  | _, _ => none

/-! ### sign.go -/

def nonceCoef (aggNonce : Bytes) (q : Point) (msg : Bytes) : Nat :=
  fromBE (taggedHash tagNonceCoef (aggNonce ++ serializeXOnly q ++ msg)) % n

/-- R = R1 + b·R2, replaced by G when infinite (`computeSigningNonce`) -/
def signingNonce (aggNonce : Bytes) (q : Point) (msg : Bytes) : Option (Point × Nat) :=
  let b := nonceCoef aggNonce q msg
  match parseNoncePoint (aggNonce.take 33), parseNoncePoint (aggNonce.drop 33) with
  | some r1, some r2 =>
    match add r1 (mul b r2) with
    | .inf => some (G, b)
    | r => some (r, b)
  | _, _ => none

def parityFactor (q : Point) : Nat := if hasEvenY q then 1 else n - 1

def challengeOf (r q : Point) (msg : Bytes) : Nat :=
  challenge (serializeXOnly r) (serializeXOnly q) msg % n

/-- `verifyPartialSig` after its `AggregateKeys` call returned `ak`. -/
def verifyPartialWith (ak : AggKey) (s : Nat) (pubNonce aggNonce : Bytes) (keys : List Point) (pk : Bytes)
    (msg : Bytes) (sort : Bool) : Bool :=
  let keys' := if sort then sortKeys keys else keys
  let kh := keyHashFingerprint keys sort
  let sk := secondKey keys'
  match signingNonce aggNonce ak.final msg, parsePubNonce (pubNonce.take 33), parsePubNonce (pubNonce.drop 33) with
  | some (r, b), some pn1, some pn2 =>
    let re := add pn1 (mul b pn2)
    let re := if hasEvenY r then re else neg re
    let e := challengeOf r ak.final msg
    match parsePubKey pk with
    | none => false
    | some signKey =>
      let a := aggregationCoefficient sk signKey kh
      let g := smul (parityFactor ak.final) ak.gacc
      mulG s == add (mul (smul (smul e a) g) signKey) re
  | _, _, _ => false

/-- `verifyPartialSig` -/
def verifyPartial (s : Nat) (pubNonce aggNonce : Bytes) (keys : List Point) (pk : Bytes) (msg : Bytes)
    (sort : Bool) (tw : TweakOpt) : Bool :=
  match aggregateKeys keys sort tw with
  | none => false
  | some ak => verifyPartialWith ak s pubNonce aggNonce keys pk msg sort

/-- `Sign` after its `AggregateKeys` call returned `ak` (not in fast-sign mode: the partial signature is
    verified before it is returned). Returns (s, R). -/
def signWith (ak : AggKey) (secNonce : Bytes) (d : Nat) (aggNonce : Bytes) (keys : List Point) (msg : Bytes)
    (sort : Bool) (fast : Bool := false) : Option (Nat × Point) :=
  let pub := mulG d
  let keys' := if sort then sortKeys keys else keys
  let kh := keyHashFingerprint keys sort
  let sk := secondKey keys'
  match signingNonce aggNonce ak.final msg with
  | none => none
  | some (r, b) =>
    let k1 := fromBE (secNonce.take 32) % n
    let k2 := fromBE ((secNonce.drop 32).take 32) % n
    if k1 = 0 ∨ k2 = 0 then none else
    let k1' := if hasEvenY r then k1 else sneg k1
    let k2' := if hasEvenY r then k2 else sneg k2
    if d % n = 0 then none else
    let d' := smul (smul d (parityFactor ak.final)) ak.gacc
    let e := challengeOf r ak.final msg
    let a := aggregationCoefficient sk pub kh
    let s := sadd (sadd k1' (smul k2' b)) (smul (smul e a) d')
    let pubNonce := serializeCompressed (mulG k1) ++ serializeCompressed (mulG k2)
    if fast then some (s, r) else   -- WithFastSign: no self-verification
    if verifyPartialWith ak s pubNonce aggNonce keys (serializeCompressed pub) msg sort then some (s, r) else none

/-- the two entry checks of `Sign`: the secnonce carries the signer's key; the key is in the signer set -/
def signChecks (secNonce : Bytes) (d : Nat) (keys : List Point) : Bool :=
  secNonce.drop 64 == serializeCompressed (mulG d) && keys.any (fun k => k == mulG d)

/-- `Sign` -/
def sign (secNonce : Bytes) (d : Nat) (aggNonce : Bytes) (keys : List Point) (msg : Bytes)
    (sort : Bool) (tw : TweakOpt) (fast : Bool := false) : Option (Nat × Point) :=
  if !signChecks secNonce d keys then none else
  match aggregateKeys keys sort tw with
  | none => none
  | some ak => signWith ak secNonce d aggNonce keys msg sort fast

/-- the tweak correction term of `CombineSigs` once `AggregateKeys` returned `ak` -/
def combineWith (ak : AggKey) (r : Point) (ss : List Nat) (msg : Bytes) : Nat × Nat :=
  let rx := match r with | .inf => 0 | .aff x _ => x
  let e := challengeOf r ak.final msg
  (rx, sadd (ss.foldl sadd 0) (smul (smul e ak.tacc) (parityFactor ak.final)))

/-- `CombineSigs(R, sigs, With…TweakedCombine(msg, keys, …, sort))`; `tw = none` means no combine option. -/
def combineSigs (r : Point) (ss : List Nat) (msg : Bytes) (keys : List Point) (sort : Bool)
    (tw : Option TweakOpt) : Option (Nat × Nat) :=
  match tw with
  | none => some (match r with | .inf => 0 | .aff x _ => x, ss.foldl sadd 0)
  | some tw =>
    match aggregateKeys keys sort tw with
    | none => none   -- Go dereferences a nil key here (panic); never reached after a successful Sign
    | some ak => some (combineWith ak r ss msg)

end BV.C11.MuSig
