/-
C11 property theorems. Only statements of the property + non-vacuity examples live here; helper lemmas are
in Lemmas.lean (parsers, core-only) and Algebra.lean (abstract-group algebra, Mathlib).
-/
import BV.C11.Lemmas
import BV.C11.Parsers
import BV.C11.Algebra
import BV.C11.MuSig
import BV.C11.MuSigLemmas
import BV.Generated.C11
namespace BV.C11
open BV.Secp256k1

/-! ### parsers -/

/-- The lax (BER) ECDSA parser accepts everything the strict parser accepts, with the same (r, s). -/
theorem lax_accepts_strict (sig : List UInt8) (v : Nat × Nat) (h : parseSig sig true = some v) :
    parseSig sig false = some v := Lemmas.parseSig_lax_of_strict sig v h

/-- Both ECDSA parsers only ever return 1 ≤ r, s < n: zero and values ≥ n are rejected on every path. -/
theorem ecdsa_sig_range (sig : List UInt8) (der : Bool) (r s : Nat) (h : parseSig sig der = some (r, s)) :
    (1 ≤ r ∧ r < n) ∧ (1 ≤ s ∧ s < n) := Parsers.parseSig_range sig der r s h

/-- **Strict DER is canonical (Spec).** A byte string is accepted, as (r, s), iff it IS the minimal DER encoding
    of a pair with 1 ≤ r, s < n: correct tags, exact lengths, no negative or excessively padded INTEGER,
    nothing after the sequence. Hence `encode ∘ parse = id` on accepted inputs and `parse ∘ encode = id`
    on in-range pairs. -/
theorem der_strict_canonical (sig : List UInt8) (r s : Nat) :
    Spec.parseDER sig = some (r, s) ↔ ((1 ≤ r ∧ r < n) ∧ (1 ≤ s ∧ s < n) ∧ sig = Spec.encodeDER r s) :=
  Parsers.specDER_iff sig r s

/-- **The code's strict parser (`parseSig … der=true`) is canonical on every input that has no bytes after
    the declared sequence length** — there it coincides with the Spec. What is missing for the full
    statement: inputs with trailing bytes (finding F-C11-a, `der_strict_full_fails`). -/
theorem der_strict_canonical_partial (sig : List UInt8)
    (hnt : ((sig.getD 1 0) + 2).toNat = sig.length) : parseSig sig true = Spec.parseDER sig :=
  Parsers.model_eq_spec_of_no_trailing sig hnt

/-- The Spec never accepts more than the code. -/
theorem der_spec_le_model (sig : List UInt8) (v : Nat × Nat) (h : Spec.parseDER sig = some v) :
    parseSig sig true = some v := Parsers.spec_le_model sig v h

/-- F-C11-a: the code's strict parser is NOT canonical in general — `3006020101020101 00` (r = s = 1 followed by
    one extra byte) is accepted. -/
theorem der_strict_full_fails : ¬ ∀ sig : List UInt8, parseSig sig true = Spec.parseDER sig := by
  intro h
  exact absurd (h [0x30, 0x06, 0x02, 0x01, 0x01, 0x02, 0x01, 0x01, 0x00]) (by decide)

/-- parse ∘ serialise for the real serialiser (which normalises S to low-S): for every in-range (r, s),
    the strict parser returns (r, lowS s) on `serializeDER r s`, and that output has no trailing bytes. -/
theorem der_parse_serialize (r s : Nat) (hr1 : 1 ≤ r) (hrn : r < n) (hs1 : 1 ≤ s) (hsn : s < n) :
    parseSig (serializeDER r s) true = some (r, lowS s) := by
  rw [Parsers.serializeDER_eq]
  exact (Der.parseSig_encodeDER r (lowS s) hr1 hrn (Parsers.lowS_range s hs1 hsn).1 (Parsers.lowS_range s hs1 hsn).2).1

/-- serialise ∘ parse = id on accepted inputs with low S and no trailing bytes. -/
theorem der_serialize_parse (sig : List UInt8) (r s : Nat) (h : parseSig sig true = some (r, s))
    (hnt : ((sig.getD 1 0) + 2).toNat = sig.length) (hlow : s ≤ halfN) : serializeDER r s = sig := by
  rw [Parsers.serializeDER_eq, Parsers.lowS_of_le s hlow]
  exact (Der.parseSig_canonical sig r s h hnt).symm

example : parseSig [0x30, 0x06, 0x02, 0x01, 0x01, 0x02, 0x01, 0x01] true = some (1, 1) := by decide

/-- BIP340 signature parsing: round trips, and r ≥ p / s ≥ n are rejected. -/
theorem schnorr_sig_parse_serialize (r s : Nat) (hr : r < p) (hs : s < n) :
    parseSchnorrSig (serializeSchnorrSig r s) = some (r, s) := Parsers.parseSchnorr_serialize r s hr hs

theorem schnorr_sig_serialize_parse (b : List UInt8) (r s : Nat) (h : parseSchnorrSig b = some (r, s)) :
    serializeSchnorrSig r s = b ∧ r < p ∧ s < n := Parsers.serialize_parseSchnorr b r s h

/-- `pubkey_serialize_roundtrip` (uncompressed): serialise ∘ parse = id on accepted 0x04 keys and
    parse ∘ serialise = id on every finite on-curve point. -/
theorem pubkey_serialize_roundtrip (b : List UInt8) (q : Point) (hl : b.length = 65)
    (h4 : b.head? = some 0x04) (h : parsePubKey b = some q) : serializeUncompressed q = b :=
  Parsers.serializeUncompressed_parse b q hl h4 h

theorem pubkey_parse_serialize (x y : Nat) (hoc : onCurve (.aff x y) = true) :
    parsePubKey (serializeUncompressed (.aff x y)) = some (.aff x y) :=
  Parsers.parse_serializeUncompressed x y hoc

example : onCurve G = true := by decide

/-- every accepted 65-byte key (04 / 06 / 07) has x, y < p, lies on the curve, and a hybrid prefix matches the
    parity of y; in particular x ≥ p, y ≥ p, off-curve points and wrong hybrid parity are rejected. -/
theorem pubkey_65_accept (b : List UInt8) (q : Point) (hl : b.length = 65) (h : parsePubKey b = some q) :
    ∃ fmt body, b = fmt :: body ∧ (fmt = 0x04 ∨ fmt = 0x06 ∨ fmt = 0x07) ∧
      q = .aff (fromBE (body.take 32)) (fromBE (body.drop 32)) ∧
      fromBE (body.take 32) < p ∧ fromBE (body.drop 32) < p ∧ onCurve q = true ∧
      (fmt = 0x06 → fromBE (body.drop 32) % 2 = 0) ∧ (fmt = 0x07 → fromBE (body.drop 32) % 2 = 1) :=
  Parsers.parsePubKey_65 b q hl h

/-- serialise ∘ parse = id on every accepted compressed key (02 / 03): the parser returns the root with the
    requested parity. (parse ∘ serialise = id for compressed keys needs correctness of the square root,
    i.e. primality of p — covered by the differential run only.) -/
theorem pubkey_compressed_roundtrip (b : List UInt8) (q : Point) (hl : b.length = 33)
    (h : parsePubKey b = some q) : serializeCompressed q = b := Parsers.serializeCompressed_parse b q hl h

/-- compressed / x-only keys: x ≥ p is rejected, and the result is (x, ±sqrt(x³+7)). -/
theorem pubkey_decompress_spec (x : Nat) (odd : Bool) (q : Point) (h : decompress x odd = some q) :
    x < p ∧ ∃ y0, fsqrt ((x * x % p * x + curveB) % p) = some y0 ∧
      q = .aff x (if (y0 % 2 == 1) == odd then y0 else p - y0) := Parsers.decompress_spec x odd q h

/-- every accepted compressed (02/03) or x-only key is a solution of the curve equation with x < p:
    off-curve x coordinates and x ≥ p are rejected. -/
theorem pubkey_compressed_on_curve (x : Nat) (odd : Bool) (q : Point) (h : decompress x odd = some q) :
    ∃ y, q = .aff x y ∧ x < p ∧ y * y % p = (x * x % p * x + curveB) % p :=
  Parsers.decompress_on_curve x odd q h

/-- accepted x-only (BIP340) keys: exactly 32 bytes, x < p, and the result is (x, y) with y² = x³ + 7 and the
    even one of the two roots chosen; x ≥ p and non-residues are rejected. -/
theorem xonly_pubkey_accept (b : List UInt8) (q : Point) (h : parseXOnly b = some q) :
    b.length = 32 ∧ fromBE b < p ∧ ∃ y0, y0 < p ∧ y0 * y0 % p = (fromBE b * fromBE b % p * fromBE b + curveB) % p ∧
      q = .aff (fromBE b) (if y0 % 2 = 0 then y0 else p - y0) := Parsers.parseXOnly_spec b q h

/-- `ecdsa_verify_iff`: decred's Jacobian shortcut "R·z² = X ∨ (R + n < p ∧ (R+n)·z² = X)" — in affine terms
    x = r ∨ (r + n < p ∧ x = r + n) — is the defining condition x mod n = r, for every field element x < p
    and every r < n. -/
theorem ecdsa_verify_iff (x r : Nat) (hx : x < p) (hr : r < n) :
    (x = r ∨ (r + n < p ∧ x = r + n)) ↔ x % n = r := by
  unfold p at *; unfold n at *; omega

/-- `VerifyLowS` (strict parse + low-S): on inputs without trailing bytes it accepts exactly the canonical
    encodings of pairs with 1 ≤ r < n, 1 ≤ s ≤ n/2 — i.e. exactly the outputs of the serialiser. -/
theorem verify_lows_iff (sig : List UInt8) (hnt : ((sig.getD 1 0) + 2).toNat = sig.length) :
    verifyLowS (parseSig sig true) = true ↔
      ∃ r s, (1 ≤ r ∧ r < n) ∧ (1 ≤ s ∧ s ≤ halfN) ∧ sig = serializeDER r s := by
  rw [Parsers.model_eq_spec_of_no_trailing sig hnt]
  constructor
  · intro h
    unfold verifyLowS at h
    split at h
    · rename_i r s hp
      have hs : s ≤ halfN := by simpa using h
      obtain ⟨hr, hsr, he⟩ := (Parsers.specDER_iff sig r s).mp hp
      exact ⟨r, s, hr, ⟨hsr.1, hs⟩, by rw [Parsers.serializeDER_eq, Parsers.lowS_of_le s hs]; exact he⟩
    · cases h
  · rintro ⟨r, s, hr, ⟨hs1, hs2⟩, he⟩
    have hsn : s < n := by unfold halfN at hs2; unfold n at *; omega
    rw [Parsers.serializeDER_eq, Parsers.lowS_of_le s hs2] at he
    rw [(Parsers.specDER_iff sig r s).mpr ⟨hr, ⟨hs1, hsn⟩, he⟩]
    simp [verifyLowS, hs2]

/-- F-C11-b (repaired): an individual signer's public-nonce half is accepted only if it is a finite curve
    point (BIP327 cpoint) — never the infinity encoding, never a 0x00-prefixed string. -/
theorem musig_pubnonce_finite (b : List UInt8) (q : Point) (h : MuSig.parsePubNonce b = some q) :
    q ≠ .inf ∧ b.head? ≠ some 0 ∧ parsePubKey b = some q := MuSigLemmas.parsePubNonce_finite b q h

/-- aggregate nonces (BIP327 cpoint_ext): the point at infinity has exactly one encoding, 33 zero bytes. -/
theorem musig_aggnonce_infinity_canonical (b : List UInt8) (h : MuSig.parseNoncePoint b = some .inf) :
    b = List.replicate 33 0 := MuSigLemmas.parseNoncePoint_inf b h

/-- partial-signature codec (`PartialSignature.Encode/Decode`): round trips, s ≥ n rejected. -/
theorem partialsig_decode_encode (s : Nat) (hs : s < n) : decodePartialSig (encodePartialSig s) = some s :=
  MuSigLemmas.decode_encodePartialSig s hs

theorem partialsig_encode_decode (b : List UInt8) (s : Nat) (h : decodePartialSig b = some s) :
    s < n ∧ encodePartialSig s = b.take 32 := MuSigLemmas.encode_decodePartialSig b s h

/-! ### algebra over an abstract prime-order group

`G` is any `Module (ZMod n) G`; `g` generates a subgroup of order n (`a • g = 0 → a = 0`); `Coord` packages
an abstract x coordinate, y parity and lift_x with their coherence laws; hashes are arbitrary functions.
All laws are hypotheses / type-class assumptions. -/

section algebra
open BV.C11.Algebra
variable {n : ℕ} {G : Type} [AddCommGroup G] [Module (ZMod n) G] {F M : Type}

/-- ECDSA: every (r, s) produced by the signing equation `s = k⁻¹(z + r·d)`, `r = x(k·g) mod n`, with
    k ≠ 0 and r, s ≠ 0 (the signer retries otherwise) satisfies the verification equation under P = d·g —
    for every private key, message and nonce. -/
theorem ecdsa_sign_verifies [Fact n.Prime] (xr : G → ZMod n) (g : G) (hg : ∀ a : ZMod n, a • g = 0 → a = 0)
    (d k z r s : ZMod n) (hk : k ≠ 0) (hr : r = xr (k • g)) (hs : s = k⁻¹ * (z + r * d))
    (hr0 : r ≠ 0) (hs0 : s ≠ 0) : ecdsaValid xr g (d • g) z r s :=
  Algebra.ecdsa_sign_verifies xr g hg d k z r s hk hr hs hr0 hs0

/-- BIP340: every signature produced by the signer (with both negation rules: d negated when P has odd y,
    k negated when R has odd y) verifies — for every key d' ≠ 0, message and nonce k' ≠ 0. -/
theorem schnorr_sign_verifies (c : Coord G F) (H : F → F → M → ZMod n) (g : G)
    (hg : ∀ a : ZMod n, a • g = 0 → a = 0) (d' k' : ZMod n) (hd : d' ≠ 0) (hk : k' ≠ 0) (m : M) :
    Algebra.schnorrVerify c H g (c.x (d' • g)) m (c.x (k' • g))
      (c.sign (k' • g) * k' + H (c.x (k' • g)) (c.x (d' • g)) m * (c.sign (d' • g) * d')) :=
  Algebra.schnorr_sign_verifies c H g hg d' k' hd hk m

/-- BIP340 soundness: the verifier (lift_x, R = s·g − e·P, R ≠ ∞, even y, x(R) = r) accepts only triples
    that satisfy the defining equation. -/
theorem schnorr_verify_sound (c : Coord G F) (H : F → F → M → ZMod n) (g : G) (pk : F) (m : M) (r : F)
    (s : ZMod n) (h : Algebra.schnorrVerify c H g pk m r s) :
    ∃ P R, c.liftX pk = some P ∧ R ≠ 0 ∧ c.evenY R ∧ c.x R = r ∧ s • g = R + (H r pk m) • P :=
  Algebra.schnorr_verify_sound c H g pk m r s h

/-- BIP340 completeness: every triple satisfying the defining equation is accepted. -/
theorem schnorr_verify_complete (c : Coord G F) (H : F → F → M → ZMod n) (g : G) (pk : F) (m : M) (r : F)
    (s : ZMod n) (P R : G) (hP : c.liftX pk = some P) (h0 : R ≠ 0) (he : c.evenY R) (hx : c.x R = r)
    (heq : s • g = R + (H r pk m) • P) : Algebra.schnorrVerify c H g pk m r s :=
  Algebra.schnorr_verify_complete c H g pk m r s P R hP h0 he hx heq

/-- BIP327 tweak accumulator invariant for any chain of plain / x-only tweaks: Q = gacc·Q₀ + tacc·g. -/
theorem musig2_tweak_invariant (c : Coord G F) (g Q0 : G) (tws : List (ZMod n × Bool)) :
    (applyTweaks c g ⟨Q0, 1, 0⟩ tws).Q =
      (applyTweaks c g ⟨Q0, 1, 0⟩ tws).gacc • Q0 + (applyTweaks c g (⟨Q0, 1, 0⟩ : TweakCtx n G) tws).tacc • g :=
  Algebra.applyTweaks_inv c g Q0 tws ⟨Q0, 1, 0⟩ (by simp)

/-- MuSig2: for any signer list (duplicates, any order), any key-aggregation coefficient function (in
    particular BIP327's with the second-key rule), any tweak chain, any nonce coefficient and message: the
    sum of the honest partial signatures plus e·gQ·tacc verifies as a BIP340 signature under the tweaked
    aggregate key (aggregate key and final nonce not at infinity). -/
theorem musig2_combined_verifies (c : Coord G F) (H : F → F → M → ZMod n) (g : G) (a : G → ZMod n)
    (l : List (Signer n)) (tws : List (ZMod n × Bool)) (b : ZMod n) (m : M)
    (hQ : (applyTweaks c g ⟨keyAgg g a l, 1, 0⟩ tws).Q ≠ 0)
    (hR : nonceAgg1 g l + b • nonceAgg2 g l ≠ 0) :
    let ctx := applyTweaks c g ⟨keyAgg g a l, 1, 0⟩ tws
    let R := nonceAgg1 g l + b • nonceAgg2 g l
    let e := H (c.x R) (c.x ctx.Q) m
    let gR : ZMod n := c.sign R
    let gQ : ZMod n := c.sign ctx.Q
    Algebra.schnorrVerify c H g (c.x ctx.Q) m (c.x R)
      ((l.map (fun s => partialSig gR gQ ctx.gacc b e (a (s.d • g)) s)).sum + e * gQ * ctx.tacc) :=
  Algebra.musig2_combined_verifies c H g a l tws b m hQ hR

/-- partial signature verification accepts exactly the BIP327 partial signature of an honest signer. -/
theorem partial_verify_iff (g : G) (hg : ∀ a : ZMod n, a • g = 0 → a = 0) (gR gQ gacc b e ai : ZMod n)
    (sg : Signer n) (s : ZMod n) :
    partialVerify g gR gQ gacc b e ai (sg.k1 • g) (sg.k2 • g) (sg.d • g) s ↔
      s = partialSig gR gQ gacc b e ai sg :=
  Algebra.partial_verify_iff g hg gR gQ gacc b e ai sg s

/-- "any ordering": for a fixed coefficient function (e.g. after sorting the keys) the aggregate key, both
    aggregate nonces and the sum of the partial signatures are invariant under permutation of the signers. -/
theorem musig2_order_invariant (g : G) (a : G → ZMod n) (gR gQ gacc b e : ZMod n) {l1 l2 : List (Signer n)}
    (h : l1.Perm l2) :
    keyAgg g a l1 = keyAgg g a l2 ∧ nonceAgg1 g l1 = nonceAgg1 g l2 ∧ nonceAgg2 g l1 = nonceAgg2 g l2 ∧
    (l1.map (fun s => partialSig gR gQ gacc b e (a (s.d • g)) s)).sum =
      (l2.map (fun s => partialSig gR gQ gacc b e (a (s.d • g)) s)).sum :=
  ⟨keyAgg_perm g a h, (nonceAgg_perm g h).1, (nonceAgg_perm g h).2, partialSum_perm g a gR gQ gacc b e h⟩

/-- ECDH: both parties derive the same point (hence the same x coordinate). -/
theorem ecdh_symmetric (g : G) (a b : ZMod n) : a • (b • g) = b • (a • g) := Algebra.ecdh_symmetric g a b

end algebra

/-- the hypotheses are satisfiable: ZMod 7 acting on itself, generator 1, x(P) = P², "even" = residue ≤ 3,
    lift_x by search. -/
example : ∃ (c : Algebra.Coord (ZMod 7) (ZMod 7)), (∀ a : ZMod 7, a • (1 : ZMod 7) = 0 → a = 0) ∧
    c.liftX (c.x 3) = some 3 :=
  ⟨{ x := fun P => P * P, evenY := fun P => P.val ≤ 3,
     liftX := fun f => ([1, 2, 3] : List (ZMod 7)).find? (fun P => P * P == f),
     x_neg := by decide, even_neg := by decide, lift_spec := by decide }, by decide, by decide⟩

/-! ### pinned constants (regenerated from the compiled tree on every run) -/

theorem pin_curveP : Generated.C11.curveP = (p : Int) := by decide
theorem pin_curveN : Generated.C11.curveN = (n : Int) := by decide
theorem pin_curveB : Generated.C11.curveB = (curveB : Int) := by decide
theorem pin_curveGx : Generated.C11.curveGx = (Gx : Int) := by decide
theorem pin_curveGy : Generated.C11.curveGy = (Gy : Int) := by decide
/-- every tagged-hash tag used by the models equals the tag compiled into btcd -/
theorem pin_tags : Generated.C11.tagBIP340Challenge = tagChallenge ∧ Generated.C11.tagChallenge = tagChallenge ∧
    Generated.C11.tagBIP340Aux = tagAux ∧ Generated.C11.tagBIP340Nonce = tagNonce ∧
    Generated.C11.tagTapTweak = tagTapTweak ∧ Generated.C11.tagKeyAggList = tagKeyAggList ∧
    Generated.C11.tagKeyAggCoeff = tagKeyAggCoeff ∧ Generated.C11.tagNonceAux = tagMusigAux ∧
    Generated.C11.tagNonceGen = tagMusigNonce ∧ Generated.C11.tagNonceBlind = tagNonceCoef :=
  ⟨rfl, rfl, rfl, rfl, rfl, rfl, rfl, rfl, rfl, rfl⟩
theorem pin_sizes : Generated.C11.schnorrSignatureSize = 64 ∧ Generated.C11.schnorrPubKeyBytesLen = 32 ∧
    Generated.C11.pubKeyBytesLenCompressed = 33 ∧ Generated.C11.privKeyBytesLen = 32 ∧
    Generated.C11.musigPubNonceSize = 66 ∧ Generated.C11.musigSecNonceSize = 97 ∧
    Generated.C11.curveBitSize = 256 := by decide
theorem pin_sigLens : Generated.C11.ecdsaMinSigLen = (MinSigLen : Int) ∧
    Generated.C11.ecdsaMaxSigLen = (MaxSigLen : Int) := by decide

end BV.C11
