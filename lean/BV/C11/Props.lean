/-
C11 property theorems. Only statements of the property + non-vacuity examples live here; helper lemmas are
in Lemmas.lean (parsers, core-only) and Algebra.lean (abstract-group algebra, Mathlib).
-/
import BV.C11.Lemmas
import BV.Generated.C11
namespace BV.C11
open BV.Secp256k1

/-! ### parsers -/

/-- The lax (BER) ECDSA parser accepts everything the strict parser accepts, with the same (r, s). -/
theorem lax_accepts_strict (sig : List UInt8) (v : Nat × Nat) (h : parseSig sig true = some v) :
    parseSig sig false = some v := Lemmas.parseSig_lax_of_strict sig v h

/-! ### pinned constants (regenerated from the compiled tree on every run) -/

theorem pin_curveP : Generated.C11.curveP = (p : Int) := by decide
theorem pin_curveN : Generated.C11.curveN = (n : Int) := by decide
theorem pin_curveB : Generated.C11.curveB = (curveB : Int) := by decide
theorem pin_curveGx : Generated.C11.curveGx = (Gx : Int) := by decide
theorem pin_curveGy : Generated.C11.curveGy = (Gy : Int) := by decide
theorem pin_sigLens : Generated.C11.ecdsaMinSigLen = (MinSigLen : Int) ∧
    Generated.C11.ecdsaMaxSigLen = (MaxSigLen : Int) := by decide

end BV.C11
