/-
C11 algebra: ECDSA, BIP340 and BIP327 (MuSig2) over an ABSTRACT group.

`G` is any additive commutative group that is a module over `ZMod n` with `n` prime (hypothesis
`[Fact n.Prime]`), `g : G` a generator in the sense `a • g = 0 → a = 0`. `x : G → F` is an abstract
"x coordinate", `evenY` an abstract parity predicate, `liftX` an abstract lift with the coherence
hypotheses of `Coord`. Hash functions are arbitrary functions. Nothing here is an axiom: every law is a
type-class assumption or an explicit hypothesis. That decred's secp256k1 code implements such a structure
is NOT proved (it is differentially tested against the executable reference).
-/
import Mathlib.Algebra.Module.Basic
import Mathlib.Data.ZMod.Basic
import Mathlib.Algebra.Field.ZMod
import Mathlib.Tactic.Module
import Mathlib.Tactic.LinearCombination
import Mathlib.Tactic.Ring

namespace BV.C11.Algebra

variable {n : ℕ} {G : Type} [AddCommGroup G] [Module (ZMod n) G]

/-! ### ECDH -/

theorem ecdh_symmetric (g : G) (a b : ZMod n) : a • (b • g) = b • (a • g) := smul_comm a b g

/-! ### ECDSA -/

/-- ECDSA verification equation (SEC1 4.1.4) with `xr R` = x(R) mod n. -/
def ecdsaValid (xr : G → ZMod n) (g P : G) (z r s : ZMod n) : Prop :=
  r ≠ 0 ∧ s ≠ 0 ∧ (z * s⁻¹) • g + (r * s⁻¹) • P ≠ 0 ∧ xr ((z * s⁻¹) • g + (r * s⁻¹) • P) = r

/-- every signature produced by the ECDSA signing equation verifies. -/
theorem ecdsa_sign_verifies [Fact n.Prime] (xr : G → ZMod n) (g : G) (hg : ∀ a : ZMod n, a • g = 0 → a = 0)
    (d k z r s : ZMod n) (hk : k ≠ 0) (hr : r = xr (k • g)) (hs : s = k⁻¹ * (z + r * d))
    (hr0 : r ≠ 0) (hs0 : s ≠ 0) : ecdsaValid xr g (d • g) z r s := by
  have hzrd : z + r * d ≠ 0 := by
    intro h; apply hs0; rw [hs, h, mul_zero]
  have hpt : (z * s⁻¹) • g + (r * s⁻¹) • (d • g) = k • g := by
    have : z * s⁻¹ + r * s⁻¹ * d = k := by
      calc z * s⁻¹ + r * s⁻¹ * d = (z + r * d) * s⁻¹ := by ring
        _ = k := by
          rw [hs, mul_inv, inv_inv, mul_comm k, ← mul_assoc, mul_inv_cancel₀ hzrd, one_mul]
    rw [← this]; module
  refine ⟨hr0, hs0, ?_, ?_⟩
  · rw [hpt]; intro h; exact hk (hg k h)
  · rw [hpt]; exact hr.symm

/-! ### BIP340 -/

/-- abstract coordinates: x coordinate, y parity, lift_x, with their coherence laws. -/
structure Coord (G : Type) [AddCommGroup G] (F : Type) where
  x : G → F
  evenY : G → Prop
  liftX : F → Option G
  x_neg : ∀ P, x (-P) = x P
  even_neg : ∀ P, P ≠ 0 → (evenY (-P) ↔ ¬ evenY P)
  /-- lift_x returns the even-y point with that x coordinate -/
  lift_spec : ∀ P, P ≠ 0 → evenY P → liftX (x P) = some P

variable {F M : Type}

/-- the even-y representative of ±P -/
noncomputable def Coord.norm (c : Coord G F) (P : G) : G := by
  classical exact if c.evenY P then P else -P

theorem Coord.norm_even (c : Coord G F) (P : G) (hP : P ≠ 0) : c.evenY (c.norm P) := by
  classical
  unfold Coord.norm
  by_cases h : c.evenY P
  · simp [h]
  · simp only [h, if_false]; exact (c.even_neg P hP).mpr h

theorem Coord.norm_x (c : Coord G F) (P : G) : c.x (c.norm P) = c.x P := by
  classical
  unfold Coord.norm
  by_cases h : c.evenY P
  · simp [h]
  · simp [h, c.x_neg]

theorem Coord.norm_ne (c : Coord G F) (P : G) (hP : P ≠ 0) : c.norm P ≠ 0 := by
  classical
  unfold Coord.norm
  by_cases h : c.evenY P
  · simpa [h] using hP
  · simpa [h] using hP

theorem Coord.lift_x (c : Coord G F) (P : G) (hP : P ≠ 0) : c.liftX (c.x P) = some (c.norm P) := by
  rw [← c.norm_x P]; exact c.lift_spec _ (c.norm_ne P hP) (c.norm_even P hP)

/-- parity sign: +1 for even y, −1 for odd y -/
noncomputable def Coord.sign (c : Coord G F) (P : G) : ZMod n := by
  classical exact if c.evenY P then 1 else -1

theorem Coord.sign_smul (c : Coord G F) (P : G) : (c.sign P : ZMod n) • P = c.norm P := by
  classical
  unfold Coord.sign Coord.norm
  by_cases h : c.evenY P <;> simp [h]

/-- BIP340 verification (the model of `schnorrVerify`): P = lift_x(pk), e = H(r, pk, m),
    R = s·g + (−e)·P, R ≠ ∞, even y, x(R) = r. -/
def schnorrVerify (c : Coord G F) (H : F → F → M → ZMod n) (g : G) (pk : F) (m : M) (r : F) (s : ZMod n) : Prop :=
  ∃ P, c.liftX pk = some P ∧
    s • g + (-(H r pk m)) • P ≠ 0 ∧ c.evenY (s • g + (-(H r pk m)) • P) ∧ c.x (s • g + (-(H r pk m)) • P) = r

/-- soundness: an accepted triple satisfies the defining equation `s·g = R + e·P` for the lifted key P and a
    point R with even y and x(R) = r. -/
theorem schnorr_verify_sound (c : Coord G F) (H : F → F → M → ZMod n) (g : G) (pk : F) (m : M) (r : F) (s : ZMod n)
    (h : schnorrVerify c H g pk m r s) :
    ∃ P R, c.liftX pk = some P ∧ R ≠ 0 ∧ c.evenY R ∧ c.x R = r ∧ s • g = R + (H r pk m) • P := by
  obtain ⟨P, hP, h0, he, hx⟩ := h
  exact ⟨P, _, hP, h0, he, hx, by module⟩

/-- completeness: the defining equation implies acceptance. -/
theorem schnorr_verify_complete (c : Coord G F) (H : F → F → M → ZMod n) (g : G) (pk : F) (m : M) (r : F)
    (s : ZMod n) (P R : G) (hP : c.liftX pk = some P) (h0 : R ≠ 0) (he : c.evenY R) (hx : c.x R = r)
    (heq : s • g = R + (H r pk m) • P) : schnorrVerify c H g pk m r s := by
  have : s • g + (-(H r pk m)) • P = R := by rw [heq]; module
  exact ⟨P, hP, by rw [this]; exact h0, by rw [this]; exact he, by rw [this]; exact hx⟩

/-- BIP340 signing (`schnorr.Sign` + `schnorrSign`): d' ≠ 0, P = d'·g, d = ±d' by the parity of P;
    k' ≠ 0, R = k'·g, k = ±k' by the parity of R; e = H(x(R), x(P), m); s = k + e·d. The signature
    (x(R), s) verifies under x(P) — for every key, message and nonce. -/
theorem schnorr_sign_verifies (c : Coord G F) (H : F → F → M → ZMod n) (g : G)
    (hg : ∀ a : ZMod n, a • g = 0 → a = 0) (d' k' : ZMod n) (hd : d' ≠ 0) (hk : k' ≠ 0) (m : M) :
    schnorrVerify c H g (c.x (d' • g)) m (c.x (k' • g))
      (c.sign (k' • g) * k' + H (c.x (k' • g)) (c.x (d' • g)) m * (c.sign (d' • g) * d')) := by
  have hP : d' • g ≠ 0 := fun h => hd (hg _ h)
  have hR : k' • g ≠ 0 := fun h => hk (hg _ h)
  apply schnorr_verify_complete c H g _ m _ _ (c.norm (d' • g)) (c.norm (k' • g))
    (c.lift_x _ hP) (c.norm_ne _ hR) (c.norm_even _ hR) (c.norm_x _)
  rw [← c.sign_smul (n := n) (k' • g), ← c.sign_smul (n := n) (d' • g)]
  module

/-! ### BIP327 (MuSig2) -/

/-- one signer: secret key and the two secret nonces -/
structure Signer (n : ℕ) where
  d : ZMod n
  k1 : ZMod n
  k2 : ZMod n

/-- KeyAgg before tweaking: Σ a(P_i)·P_i for an arbitrary coefficient function (in particular the BIP327
    coefficients with the second-key rule, which depend only on the key and the fixed key list). -/
def keyAgg (g : G) (a : G → ZMod n) (l : List (Signer n)) : G :=
  (l.map (fun s => a (s.d • g) • (s.d • g))).sum

/-- tweak accumulator state (Q, gacc, tacc) -/
structure TweakCtx (n : ℕ) (G : Type) where
  Q : G
  gacc : ZMod n
  tacc : ZMod n

/-- `tweakKey` / BIP327 ApplyTweak: plain (`xonly = false`) or x-only tweak `t`. -/
noncomputable def applyTweak (c : Coord G F) (g : G) (ctx : TweakCtx n G) (tw : ZMod n × Bool) : TweakCtx n G :=
  let gg : ZMod n := if tw.2 then c.sign ctx.Q else 1
  ⟨gg • ctx.Q + tw.1 • g, ctx.gacc * gg, ctx.tacc * gg + tw.1⟩

noncomputable def applyTweaks (c : Coord G F) (g : G) (ctx : TweakCtx n G) (tws : List (ZMod n × Bool)) :
    TweakCtx n G := tws.foldl (applyTweak c g) ctx

/-- accumulator invariant: Q = gacc·Q₀ + tacc·g -/
theorem applyTweaks_inv (c : Coord G F) (g Q0 : G) (tws : List (ZMod n × Bool)) (ctx : TweakCtx n G)
    (h : ctx.Q = ctx.gacc • Q0 + ctx.tacc • g) :
    (applyTweaks c g ctx tws).Q = (applyTweaks c g ctx tws).gacc • Q0 + (applyTweaks c g ctx tws).tacc • g := by
  induction tws generalizing ctx with
  | nil => simpa [applyTweaks] using h
  | cons tw rest ih =>
    simp only [applyTweaks, List.foldl_cons]
    apply ih
    simp only [applyTweak, h]
    module

/-- NonceAgg: (Σ k1_i·g, Σ k2_i·g) -/
def nonceAgg1 (g : G) (l : List (Signer n)) : G := (l.map (fun s => s.k1 • g)).sum
def nonceAgg2 (g : G) (l : List (Signer n)) : G := (l.map (fun s => s.k2 • g)).sum

/-- partial signature of one signer: s_i = gR·(k1 + b·k2) + e·a_i·(gQ·gacc)·d_i -/
def partialSig (gR gQ gacc b e ai : ZMod n) (s : Signer n) : ZMod n :=
  gR * (s.k1 + b * s.k2) + e * ai * (gQ * gacc) * s.d

theorem sum_partial (g : G) (a : G → ZMod n) (gR gQ gacc b e : ZMod n) (l : List (Signer n)) :
    ((l.map (fun s => partialSig gR gQ gacc b e (a (s.d • g)) s)).sum) • g =
      gR • (nonceAgg1 g l + b • nonceAgg2 g l) + (e * gQ * gacc) • keyAgg g a l := by
  induction l with
  | nil => simp [nonceAgg1, nonceAgg2, keyAgg]
  | cons s rest ih =>
    simp only [List.map_cons, List.sum_cons, add_smul, ih, nonceAgg1, nonceAgg2, keyAgg]
    simp only [partialSig]
    module

/-- MuSig2 end to end: for ANY signer list (duplicates and any order included), any coefficient function,
    any chain of plain / x-only tweaks, any nonce coefficient b and message, the aggregate of the honest
    partial signatures (plus the tweak term e·gQ·tacc) is a valid BIP340 signature for the tweaked aggregate
    key, provided the aggregate key and the final nonce are not the point at infinity. -/
theorem musig2_combined_verifies (c : Coord G F) (H : F → F → M → ZMod n) (g : G) (a : G → ZMod n)
    (l : List (Signer n)) (tws : List (ZMod n × Bool)) (b : ZMod n) (m : M)
    (hQ : (applyTweaks c g ⟨keyAgg g a l, 1, 0⟩ tws).Q ≠ 0)
    (hR : nonceAgg1 g l + b • nonceAgg2 g l ≠ 0) :
    let ctx := applyTweaks c g ⟨keyAgg g a l, 1, 0⟩ tws
    let R := nonceAgg1 g l + b • nonceAgg2 g l
    let e := H (c.x R) (c.x ctx.Q) m
    let gR : ZMod n := c.sign R
    let gQ : ZMod n := c.sign ctx.Q
    schnorrVerify c H g (c.x ctx.Q) m (c.x R)
      ((l.map (fun s => partialSig gR gQ ctx.gacc b e (a (s.d • g)) s)).sum + e * gQ * ctx.tacc) := by
  intro ctx R e gR gQ
  have hinv : ctx.Q = ctx.gacc • keyAgg g a l + ctx.tacc • g :=
    applyTweaks_inv c g (keyAgg g a l) tws ⟨keyAgg g a l, 1, 0⟩ (by simp)
  apply schnorr_verify_complete c H g _ m _ _ (c.norm ctx.Q) (c.norm R)
    (c.lift_x _ hQ) (c.norm_ne _ hR) (c.norm_even _ hR) (c.norm_x _)
  rw [add_smul, sum_partial, ← c.sign_smul (n := n) R, ← c.sign_smul (n := n) ctx.Q]
  show gR • R + (e * gQ * ctx.gacc) • keyAgg g a l + (e * gQ * ctx.tacc) • g = gR • R + e • gQ • ctx.Q
  rw [hinv]
  module

/-- partial signature verification (`verifyPartialSig`): s·g = gR·(R1_i + b·R2_i) + (e·a_i·gQ·gacc)·P_i -/
def partialVerify (g : G) (gR gQ gacc b e ai : ZMod n) (R1 R2 P : G) (s : ZMod n) : Prop :=
  s • g = gR • (R1 + b • R2) + (e * ai * (gQ * gacc)) • P

/-- for an honest signer's public data (P = d·g, R1 = k1·g, R2 = k2·g) partial verification accepts `s`
    exactly when `s` is the BIP327 partial signature — in particular every honest partial signature is
    accepted and nothing else is. -/
theorem partial_verify_iff (g : G) (hg : ∀ a : ZMod n, a • g = 0 → a = 0) (gR gQ gacc b e ai : ZMod n)
    (sg : Signer n) (s : ZMod n) :
    partialVerify g gR gQ gacc b e ai (sg.k1 • g) (sg.k2 • g) (sg.d • g) s ↔
      s = partialSig gR gQ gacc b e ai sg := by
  unfold partialVerify partialSig
  constructor
  · intro h
    have : (s - (gR * (sg.k1 + b * sg.k2) + e * ai * (gQ * gacc) * sg.d)) • g = 0 := by
      rw [sub_smul, h]; module
    exact sub_eq_zero.mp (hg _ this)
  · intro h; rw [h]; module

end BV.C11.Algebra

namespace BV.C11.Algebra
variable {n : ℕ} {G : Type} [AddCommGroup G] [Module (ZMod n) G]

/-- the aggregate key, both aggregate nonces and the sum of the partial signatures do not depend on the order
    of the signer list (for a fixed coefficient function, e.g. after `sortKeys`). -/
theorem keyAgg_perm (g : G) (a : G → ZMod n) {l1 l2 : List (Signer n)} (h : l1.Perm l2) :
    keyAgg g a l1 = keyAgg g a l2 := by
  unfold keyAgg; exact (h.map _).sum_eq

theorem nonceAgg_perm (g : G) {l1 l2 : List (Signer n)} (h : l1.Perm l2) :
    nonceAgg1 g l1 = nonceAgg1 g l2 ∧ nonceAgg2 g l1 = nonceAgg2 g l2 := by
  unfold nonceAgg1 nonceAgg2; exact ⟨(h.map _).sum_eq, (h.map _).sum_eq⟩

theorem partialSum_perm (g : G) (a : G → ZMod n) (gR gQ gacc b e : ZMod n) {l1 l2 : List (Signer n)}
    (h : l1.Perm l2) :
    (l1.map (fun s => partialSig gR gQ gacc b e (a (s.d • g)) s)).sum =
      (l2.map (fun s => partialSig gR gQ gacc b e (a (s.d • g)) s)).sum := (h.map _).sum_eq

end BV.C11.Algebra
