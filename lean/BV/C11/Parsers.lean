/- C11: further parser theorems (ranges, Model vs Spec for DER, Schnorr signature and public-key round trips). Core-only. -/
import BV.C11.Der
import BV.C11.Lemmas
namespace BV.C11.Parsers
open BV.Secp256k1 BV.C11 BV.C11.Bytes BV.C11.Der

/-! ### ranges -/

theorem parseSig_seq (sig : List UInt8) (der : Bool) (v : Nat × Nat) (h : parseSig sig der = some v) :
    ∃ k, parseSeq der (sig.take k) = some v := by
  unfold parseSig at h
  split at h
  · cases h
  split at h
  · cases h
  split at h
  · split at h
    · cases h
    split at h
    · cases h
    exact ⟨_, h⟩
  · cases h

/-- both ECDSA parsers only return pairs with 1 ≤ r, s < n (zero and ≥ n are rejected). -/
theorem parseSig_range (sig : List UInt8) (der : Bool) (r s : Nat) (h : parseSig sig der = some (r, s)) :
    (1 ≤ r ∧ r < n) ∧ (1 ≤ s ∧ s < n) := by
  obtain ⟨k, hk⟩ := parseSig_seq sig der _ h
  obtain ⟨_, _, _, _, _, _, _, r', hr, ht⟩ := parseSeq_inv der _ _ hk
  obtain ⟨_, _, _, _, _, s', hs, hv⟩ := parseTail_inv der _ _ _ ht
  have h1 : r = r' := congrArg Prod.fst hv
  have h2 : s = s' := congrArg Prod.snd hv
  rw [h1, h2]
  exact ⟨Lemmas.parseInt_range _ _ _ hr, Lemmas.parseInt_range _ _ _ hs⟩

/-! ### strict DER: Spec (canonical) vs Model (the code) -/

/-- Spec acceptance is exactly "the input is the canonical encoding of an in-range pair". -/
theorem specDER_iff (sig : List UInt8) (r s : Nat) :
    Spec.parseDER sig = some (r, s) ↔ ((1 ≤ r ∧ r < n) ∧ (1 ≤ s ∧ s < n) ∧ sig = Spec.encodeDER r s) := by
  constructor
  · intro h
    unfold Spec.parseDER at h
    split at h
    · rename_i r' s' hp
      split at h
      · rename_i he
        injection h with h
        have h1 : r' = r := congrArg Prod.fst h
        have h2 : s' = s := congrArg Prod.snd h
        rw [h1, h2] at hp he
        have := parseSig_range sig true r s hp
        exact ⟨this.1, this.2, he.symm⟩
      · cases h
    · cases h
  · rintro ⟨⟨hr1, hrn⟩, ⟨hs1, hsn⟩, rfl⟩
    unfold Spec.parseDER
    rw [(parseSig_encodeDER r s hr1 hrn hs1 hsn).1]
    simp

/-- the code's strict parser agrees with the Spec on every input without bytes after the sequence. -/
theorem model_eq_spec_of_no_trailing (sig : List UInt8)
    (hnt : ((sig.getD 1 0) + 2).toNat = sig.length) : parseSig sig true = Spec.parseDER sig := by
  unfold Spec.parseDER
  cases hp : parseSig sig true with
  | none => rfl
  | some v =>
    obtain ⟨r, s⟩ := v
    have := parseSig_canonical sig r s hp hnt
    simp [this.symm]

theorem spec_le_model (sig : List UInt8) (v : Nat × Nat) (h : Spec.parseDER sig = some v) :
    parseSig sig true = some v := by
  unfold Spec.parseDER at h
  split at h
  · rename_i r s hp
    split at h
    · injection h with h; rw [← h]; exact hp
    · cases h
  · cases h

theorem lowS_range (s : Nat) (h1 : 1 ≤ s) (hn : s < n) : 1 ≤ lowS s ∧ lowS s < n := by
  unfold lowS
  split <;> omega

theorem serializeDER_eq (r s : Nat) : serializeDER r s = Spec.encodeDER r (lowS s) := rfl

theorem lowS_of_le (s : Nat) (h : s ≤ halfN) : lowS s = s := by
  unfold lowS; split
  · omega
  · rfl

/-! ### Schnorr signatures -/

theorem p_lt : p < 256 ^ 32 := by decide

theorem parseSchnorr_serialize (r s : Nat) (hr : r < p) (hs : s < n) :
    parseSchnorrSig (serializeSchnorrSig r s) = some (r, s) := by
  unfold parseSchnorrSig serializeSchnorrSig
  have l1 : (toBE 32 r ++ toBE 32 s).length = 64 := by simp [toBE_length]
  have t1 : (toBE 32 r ++ toBE 32 s).take 32 = toBE 32 r := List.take_left' (toBE_length 32 r)
  have t2 : (toBE 32 r ++ toBE 32 s).drop 32 = toBE 32 s := List.drop_left' (toBE_length 32 r)
  simp only [l1, t1, t2, ne_eq, not_true_eq_false, if_false]
  rw [fromBE_toBE _ _ (Nat.lt_trans hr p_lt), fromBE_toBE _ _ (Nat.lt_trans hs n_lt)]
  have a : ¬ r ≥ p := by omega
  have b : ¬ s ≥ n := by omega
  simp [a, b]

theorem serialize_parseSchnorr (b : List UInt8) (r s : Nat) (h : parseSchnorrSig b = some (r, s)) :
    serializeSchnorrSig r s = b ∧ r < p ∧ s < n := by
  unfold parseSchnorrSig at h
  split at h
  · cases h
  rename_i hl
  simp only [] at h
  split at h
  · cases h
  rename_i hr
  split at h
  · cases h
  rename_i hs
  injection h with h
  have h1 : fromBE (b.take 32) = r := congrArg Prod.fst h
  have h2 : fromBE (b.drop 32) = s := congrArg Prod.snd h
  have hl : b.length = 64 := by simpa using hl
  have l1 : (b.take 32).length = 32 := by rw [List.length_take]; omega
  have l2 : (b.drop 32).length = 32 := by rw [List.length_drop]; omega
  refine ⟨?_, by omega, by omega⟩
  unfold serializeSchnorrSig
  rw [← h1, ← h2]
  have e1 := toBE_fromBE_exact (b.take 32)
  have e2 := toBE_fromBE_exact (b.drop 32)
  rw [l1] at e1; rw [l2] at e2
  rw [e1, e2, List.take_append_drop]

/-! ### public keys -/

/-- accepted uncompressed / hybrid keys: coordinates below p, on the curve, hybrid parity respected -/
theorem parsePubKey_65 (b : List UInt8) (q : Point) (hl : b.length = 65) (h : parsePubKey b = some q) :
    ∃ fmt body, b = fmt :: body ∧ (fmt = 0x04 ∨ fmt = 0x06 ∨ fmt = 0x07) ∧
      q = .aff (fromBE (body.take 32)) (fromBE (body.drop 32)) ∧
      fromBE (body.take 32) < p ∧ fromBE (body.drop 32) < p ∧ onCurve q = true ∧
      (fmt = 0x06 → fromBE (body.drop 32) % 2 = 0) ∧ (fmt = 0x07 → fromBE (body.drop 32) % 2 = 1) := by
  unfold parsePubKey at h
  split at h
  · cases h
  rename_i fmt body
  simp only [hl, if_true] at h
  split at h
  · cases h
  rename_i hf
  split at h
  · cases h
  rename_i hx
  split at h
  · cases h
  rename_i hy
  split at h
  · cases h
  rename_i hpar
  split at h
  · cases h
  rename_i hoc
  injection h with h
  subst h
  refine ⟨fmt, body, rfl, ?_, rfl, by omega, by omega, by simpa using hoc, ?_, ?_⟩
  · by_cases h4 : fmt = 0x04
    · exact Or.inl h4
    · by_cases h6 : fmt = 0x06
      · exact Or.inr (Or.inl h6)
      · by_cases h7 : fmt = 0x07
        · exact Or.inr (Or.inr h7)
        · exact absurd ⟨h4, h6, h7⟩ hf
  · intro h6
    subst h6
    have h67 : ¬ ((0x06 : UInt8) = 0x07) := by decide
    simp only [true_or, true_and, h67, ne_eq, eq_iff_iff, iff_false] at hpar
    omega
  · intro h7
    subst h7
    simp only [or_true, true_and, ne_eq, eq_iff_iff, iff_true] at hpar
    omega

/-- serialise ∘ parse = id on accepted uncompressed (0x04) keys -/
theorem serializeUncompressed_parse (b : List UInt8) (q : Point) (hl : b.length = 65)
    (h4 : b.head? = some 0x04) (h : parsePubKey b = some q) : serializeUncompressed q = b := by
  obtain ⟨fmt, body, hb, _, hq, _, _, _, _, _⟩ := parsePubKey_65 b q hl h
  subst hb
  simp at h4
  subst h4 hq
  have hbl : body.length = 64 := by simpa using hl
  have l1 : (body.take 32).length = 32 := by rw [List.length_take]; omega
  have l2 : (body.drop 32).length = 32 := by rw [List.length_drop]; omega
  have e1 := toBE_fromBE_exact (body.take 32)
  have e2 := toBE_fromBE_exact (body.drop 32)
  rw [l1] at e1; rw [l2] at e2
  simp only [serializeUncompressed]
  rw [e1, e2, List.take_append_drop]

/-- parse ∘ serialise = id on finite on-curve points (uncompressed) -/
theorem parse_serializeUncompressed (x y : Nat) (hoc : onCurve (.aff x y) = true) :
    parsePubKey (serializeUncompressed (.aff x y)) = some (.aff x y) := by
  have hoc' := hoc
  simp only [onCurve, Bool.and_eq_true, decide_eq_true_eq] at hoc'
  obtain ⟨⟨hx, hy⟩, _⟩ := hoc'
  unfold parsePubKey serializeUncompressed
  have hl : ((0x04 : UInt8) :: (toBE 32 x ++ toBE 32 y)).length = 65 := by simp [toBE_length]
  have t1 : (toBE 32 x ++ toBE 32 y).take 32 = toBE 32 x := List.take_left' (toBE_length 32 x)
  have t2 : (toBE 32 x ++ toBE 32 y).drop 32 = toBE 32 y := List.drop_left' (toBE_length 32 x)
  simp only [hl, if_true, t1, t2]
  rw [fromBE_toBE _ _ (Nat.lt_trans hx p_lt), fromBE_toBE _ _ (Nat.lt_trans hy p_lt)]
  have a : ¬ x ≥ p := by omega
  have b : ¬ y ≥ p := by omega
  have c46 : ¬ ((0x04 : UInt8) = 0x06) := by decide
  have c47 : ¬ ((0x04 : UInt8) = 0x07) := by decide
  simp [a, b, hoc, c46, c47]

/-- x ≥ p is rejected in every format; accepted compressed keys have x < p and the requested parity
    whenever the square root is a proper field element. -/
theorem decompress_spec (x : Nat) (odd : Bool) (q : Point) (h : decompress x odd = some q) :
    x < p ∧ ∃ y0, fsqrt ((x * x % p * x + curveB) % p) = some y0 ∧
      q = .aff x (if (y0 % 2 == 1) == odd then y0 else p - y0) := by
  unfold decompress at h
  split at h
  · cases h
  rename_i hx
  split at h
  · cases h
  · rename_i y0 hy
    injection h with h
    exact ⟨by omega, y0, hy, h.symm⟩

end BV.C11.Parsers

namespace BV.C11.Parsers
open BV.Secp256k1 BV.C11 BV.C11.Bytes BV.C11.Der

theorem powModAux_lt (m : Nat) (hm : 0 < m) (fuel a e acc : Nat) (h : acc < m) : powModAux m fuel a e acc < m := by
  induction fuel generalizing a e acc with
  | zero => simpa [powModAux] using h
  | succ f ih =>
    unfold powModAux
    split
    · exact h
    · apply ih
      split
      · exact Nat.mod_lt _ hm
      · exact h

theorem fsqrt_lt (a y : Nat) (h : fsqrt a = some y) : y < p := by
  unfold fsqrt at h
  simp only [] at h
  split at h
  · injection h with h
    rw [← h]
    unfold powMod
    exact powModAux_lt p (by decide) _ _ _ _ (Nat.mod_lt _ (by decide))
  · cases h

/-- serialise ∘ parse = id on accepted compressed keys (02 / 03): the parser returns the point with the
    requested parity, so re-serialising gives the input back. -/
theorem serializeCompressed_parse (b : List UInt8) (q : Point) (hl : b.length = 33)
    (h : parsePubKey b = some q) : serializeCompressed q = b := by
  unfold parsePubKey at h
  split at h
  · cases h
  rename_i fmt body
  have h65 : ¬ ((fmt :: body).length = 65) := by omega
  rw [if_neg h65, if_pos hl] at h
  split at h
  · cases h
  rename_i hf
  obtain ⟨hx, y0, hy, hq⟩ := decompress_spec _ _ _ h
  have hy0 := fsqrt_lt _ _ hy
  have hbl : body.length = 32 := by simpa using hl
  have e1 := toBE_fromBE_exact body
  rw [hbl] at e1
  have hp2 : p % 2 = 1 := by decide
  have key : ∀ pp y : Nat, pp % 2 = 1 → y < pp →
      (y % 2 = 1 → ¬ (pp - y) % 2 = 1) ∧ (¬ y % 2 = 1 → (pp - y) % 2 = 1) := by
    intro pp y h1 h2; omega
  obtain ⟨k1, k2⟩ := key p y0 hp2 hy0
  rw [hq]
  simp only [serializeCompressed, e1]
  refine congrArg (fun z => z :: body) ?_
  generalize p - y0 = w at k1 k2 ⊢
  clear hy hx hy0 hp2 key h hq
  have parity_cases : ∀ (c : Bool) (f : UInt8), (c = true ↔ f = 0x03) → (f = 0x03 ∨ f = 0x02) →
      ∀ y w : Nat, (y % 2 = 1 → ¬ w % 2 = 1) → (¬ y % 2 = 1 → w % 2 = 1) →
      (if (if ((y % 2 == 1) == c) = true then y else w) % 2 = 1 then (0x03 : UInt8) else 0x02) = f := by
    intro c f hc hf y w a1 a2
    by_cases hy : y % 2 = 1
    · cases c
      · have : f = 0x02 := by
          rcases hf with hf | hf
          · exact absurd (hc.mpr hf) (by decide)
          · exact hf
        have hb : ((y % 2 == 1) == false) = false := by simp [hy]
        rw [hb]; simp only [Bool.false_eq_true, if_false]
        rw [if_neg (a1 hy), this]
      · have hb : ((y % 2 == 1) == true) = true := by simp [hy]
        rw [hb]; simp only [if_true]
        rw [if_pos hy, hc.mp rfl]
    · cases c
      · have : f = 0x02 := by
          rcases hf with hf | hf
          · exact absurd (hc.mpr hf) (by decide)
          · exact hf
        have hb : ((y % 2 == 1) == false) = true := by simp [hy]
        rw [hb]; simp only [if_true]
        rw [if_neg hy, this]
      · have hb : ((y % 2 == 1) == true) = false := by simp [hy]
        rw [hb]; simp only [Bool.false_eq_true, if_false]
        rw [if_pos (a2 hy), hc.mp rfl]
  apply parity_cases _ _ (by simp) _ _ _ k1 k2
  by_cases h3 : fmt = 0x03
  · exact Or.inl h3
  · by_cases h2 : fmt = 0x02
    · exact Or.inr h2
    · exact absurd ⟨h2, h3⟩ hf

end BV.C11.Parsers

namespace BV.C11.Parsers
open BV.Secp256k1 BV.C11 BV.C11.Bytes BV.C11.Der

theorem fsqrt_sq (a y : Nat) (h : fsqrt a = some y) : y * y % p = a % p := by
  unfold fsqrt at h
  simp only [] at h
  generalize powMod p a ((p + 1) / 4) = r at h
  split at h
  · rename_i hc
    have hy : r = y := Option.some.inj h
    rw [← hy]; exact hc
  · cases h

/-- accepted x-only (BIP340) keys: exactly 32 bytes, x < p, x³ + 7 is a square, and the result is the
    lift (x, y) with y² = x³ + 7 — y being the root or its negation, whichever is even. -/
theorem parseXOnly_spec (b : List UInt8) (q : Point) (h : parseXOnly b = some q) :
    b.length = 32 ∧ fromBE b < p ∧ ∃ y0, y0 < p ∧ y0 * y0 % p = (fromBE b * fromBE b % p * fromBE b + curveB) % p ∧
      q = .aff (fromBE b) (if y0 % 2 = 0 then y0 else p - y0) := by
  unfold parseXOnly at h
  split at h
  · cases h
  rename_i hl
  have hl : b.length = 32 := by simpa using hl
  unfold parsePubKey at h
  have h65 : ¬ (((0x02 : UInt8) :: b).length = 65) := by simp [hl]
  have h33 : ((0x02 : UInt8) :: b).length = 33 := by simp [hl]
  simp only [] at h
  rw [if_neg h65, if_pos h33] at h
  have hf : ¬ ((0x02 : UInt8) ≠ 0x02 ∧ (0x02 : UInt8) ≠ 0x03) := by decide
  rw [if_neg hf] at h
  obtain ⟨hx, y0, hy, hq⟩ := decompress_spec _ _ _ h
  refine ⟨hl, hx, y0, fsqrt_lt _ _ hy, ?_, ?_⟩
  · have := fsqrt_sq _ _ hy
    rw [this, Nat.mod_mod]
  · rw [hq]
    have h23 : decide ((0x02 : UInt8) = 0x03) = false := by decide
    rw [h23]
    refine congrArg (Point.aff (fromBE b)) ?_
    by_cases hp : y0 % 2 = 0
    · have : ¬ (y0 % 2 = 1) := by omega
      simp [hp]
    · have : y0 % 2 = 1 := by omega
      simp [this]

end BV.C11.Parsers

namespace BV.C11.Parsers
open BV.Secp256k1 BV.C11

theorem sq_mod_neg (m y : Nat) (hy : y ≤ m) : (m - y) * (m - y) % m = y * y % m := by
  have key : ∀ a b : Nat, a + b = m → b ≤ a → a * a % m = b * b % m := by
    intro a b hab hba
    have h1 : b * b ≤ a * a := Nat.mul_self_le_mul_self hba
    have h2 : a * a - b * b = (a + b) * (a - b) := Nat.mul_self_sub_mul_self_eq a b
    have h3 : a * a = b * b + m * (a - b) := by rw [← hab, ← h2]; omega
    rw [h3, Nat.add_mul_mod_self_left]
  rcases Nat.le_total y (m - y) with h | h
  · exact key (m - y) y (by omega) h
  · exact (key y (m - y) (by omega) h).symm

/-- every accepted compressed / x-only key satisfies the curve equation y² = x³ + 7 (mod p) with x < p. -/
theorem decompress_on_curve (x : Nat) (odd : Bool) (q : Point) (h : decompress x odd = some q) :
    ∃ y, q = .aff x y ∧ x < p ∧ y * y % p = (x * x % p * x + curveB) % p := by
  obtain ⟨hx, y0, hy, hq⟩ := decompress_spec x odd q h
  have hlt := fsqrt_lt _ _ hy
  have hsq := fsqrt_sq _ _ hy
  rw [Nat.mod_mod] at hsq
  refine ⟨_, hq, hx, ?_⟩
  split
  · exact hsq
  · rw [sq_mod_neg p y0 (Nat.le_of_lt hlt)]; exact hsq

end BV.C11.Parsers
