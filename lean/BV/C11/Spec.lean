/-
C11 Spec: the property stated directly.

* canonical strict DER: a byte string is a valid strict-DER ECDSA signature iff it IS the minimal DER
  encoding `encodeDER r s` of some pair with 1 ≤ r, s < n (nothing before, nothing after, minimal
  INTEGER bodies). `parseDER` decides this by parse + re-encode + compare.
* the defining equations of ECDSA / BIP340 verification over the reference curve
  (`BV/Common/Secp256k1.lean`); the abstract-group versions used by the theorems are in `Algebra.lean`.
-/
import BV.C11.Model
namespace BV.C11.Spec
open BV.Secp256k1 BV.C11

/-- DER encoding of (r, s) WITHOUT low-S normalisation. -/
def encodeDER (r s : Nat) : List UInt8 :=
  let cr := encInt r
  let cs := encInt s
  [0x30, UInt8.ofNat (4 + cr.length + cs.length), 0x02, UInt8.ofNat cr.length] ++ cr ++
    [0x02, UInt8.ofNat cs.length] ++ cs

/-- strict DER acceptance, stated as canonicity: accepted iff the input is the canonical encoding of
    the pair it denotes. -/
def parseDER (sig : List UInt8) : Option (Nat × Nat) :=
  match parseSig sig true with
  | some (r, s) => if encodeDER r s = sig then some (r, s) else none
  | none => none

/-- ECDSA verification equation (SEC1 4.1.4) on the reference curve: z = message as integer mod n. -/
def ecdsaValid (z r s : Nat) (q : Point) : Bool :=
  0 < r && r < n && 0 < s && s < n &&
  (let w := sinv s
   match add (mulG (smul (z % n) w)) (mul (smul r w) q) with
   | .inf => false
   | .aff x _ => x % n == r)

/-- BIP340 verification equation: R = s·G − e·P, R not infinite, even y, x(R) = r. -/
def schnorrValid (e r s : Nat) (pk : Point) : Bool :=
  r < p && s < n &&
  (match sub (mulG s) (mul (e % n) pk) with
   | .inf => false
   | .aff x y => y % 2 == 0 && x == r)

end BV.C11.Spec
