/-
C11 model, part 2: the signing / verification algorithms of the repo instantiated over the executable
reference curve (core-only; used by the driver).

* decred `NonceRFC6979` (HMAC-SHA256 DRBG), decred ECDSA `sign` / `signRFC6979` / `SignCompact` /
  `RecoverCompact` — these live outside /repo; they are modelled only so that signer outputs can be compared
  byte for byte
* btcec/schnorr/signature.go `schnorrVerify`, `schnorrSign`, `Sign` (CustomNonce = BIP340 aux path and the
  default RFC6979 path)
* decred `GenerateSharedSecret`
-/
import BV.Common.Sha256
import BV.C11.Model
import BV.C11.Spec
namespace BV.C11
open BV.Secp256k1

abbrev Bytes := List UInt8

def sha256 (b : Bytes) : Bytes := (BV.Sha256.hash (ByteArray.mk b.toArray)).toList

def taggedHash (tag : String) (b : Bytes) : Bytes :=
  (BV.Sha256.tagged tag (ByteArray.mk b.toArray)).toList

/-- hash tags (pinned against the compiled tree in Props) -/
def tagChallenge : String := "BIP0340/challenge"
def tagAux : String := "BIP0340/aux"
def tagNonce : String := "BIP0340/nonce"
def tagTapTweak : String := "TapTweak"
def tagKeyAggList : String := "KeyAgg list"
def tagKeyAggCoeff : String := "KeyAgg coefficient"
def tagMusigAux : String := "MuSig/aux"
def tagMusigNonce : String := "MuSig/nonce"
def tagNonceCoef : String := "MuSig/noncecoef"

def xorBytes (a b : Bytes) : Bytes := List.zipWith (fun x y => x ^^^ y) a b

/-- HMAC-SHA256 for keys of at most 64 bytes. -/
def hmac (key msg : Bytes) : Bytes :=
  let k := key ++ List.replicate (64 - key.length) (0 : UInt8)
  let ipad := k.map (fun b => b ^^^ 0x36)
  let opad := k.map (fun b => b ^^^ 0x5c)
  sha256 (opad ++ sha256 (ipad ++ msg))

/-- the generation loop of RFC6979 3.2.h: returns the (iter+1)-th candidate in [1, n-1]. -/
def rfc6979Loop : Nat → Bytes → Bytes → Nat → Nat
  | 0, _, _, _ => 0
  | fuel + 1, k, v, iter =>
    let v := hmac k v
    let c := fromBE v
    if c < n ∧ c ≠ 0 ∧ iter = 0 then c else
    let iter := if c < n ∧ c ≠ 0 then iter - 1 else iter
    let k := hmac k (v ++ [0])
    let v := hmac k v
    rfc6979Loop fuel k v iter

/-- decred `NonceRFC6979(privKey, hash, extra, version, iter)` for 32-byte privKey / hash; `extra` counts only
    when 32 bytes long, `version` only when 16 bytes long (a version without extra data is preceded by 32
    zero bytes). -/
def nonceRFC6979 (priv hash extra : Bytes) (iter : Nat) (version : Bytes := []) : Nat :=
  let key := priv ++ hash ++
    (if extra.length = 32 then extra ++ (if version.length = 16 then version else [])
     else if version.length = 16 then List.replicate 32 (0 : UInt8) ++ version else [])
  let v := List.replicate 32 (1 : UInt8)
  let k := List.replicate 32 (0 : UInt8)
  let k := hmac k (v ++ [0] ++ key)
  let v := hmac k v
  let k := hmac k (v ++ [1] ++ key)
  let v := hmac k v
  rfc6979Loop (iter + 64) k v iter

/-! ### ECDSA (decred code, modelled for comparison of signer output) -/

/-- decred `sign`: (r, s, pubKeyRecoveryCode) or none when r = 0 or s = 0. -/
def ecdsaSignWith (d k : Nat) (hash : Bytes) : Option (Nat × Nat × Nat) :=
  match mulG k with
  | .inf => none
  | .aff x y =>
    let r := x % n
    if r = 0 then none else
    let code := (if x ≥ n then 2 else 0) + y % 2
    let e := fromBE hash % n
    let s := smul (sadd (smul d r) e) (sinv k)
    if s = 0 then none else
    if s > halfN then some (r, n - s, if code % 2 = 1 then code - 1 else code + 1)
    else some (r, s, code)

def ecdsaSignLoop (d : Nat) (hash : Bytes) : Nat → Nat → Option (Nat × Nat × Nat)
  | 0, _ => none
  | fuel + 1, iter =>
    match ecdsaSignWith d (nonceRFC6979 (toBE 32 d) hash [] iter) hash with
    | some v => some v
    | none => ecdsaSignLoop d hash fuel (iter + 1)

/-- `ecdsa.Sign` = decred signRFC6979 -/
def ecdsaSign (d : Nat) (hash : Bytes) : Option (Nat × Nat × Nat) := ecdsaSignLoop d hash 4 0

/-- `Signature.Verify`: the defining equation on z = hash as an integer. -/
def ecdsaVerify (hash : Bytes) (r s : Nat) (q : Point) : Bool := Spec.ecdsaValid (fromBE hash) r s q

/-- `SignCompact` -/
def signCompact (d : Nat) (hash : Bytes) (compressed : Bool) : Option Bytes :=
  match ecdsaSign d hash with
  | none => none
  | some (r, s, code) =>
    some (UInt8.ofNat (27 + code + (if compressed then 4 else 0)) :: (toBE 32 r ++ toBE 32 s))

/-- `RecoverCompact`: (public key, wasCompressed) -/
def recoverCompact (sig hash : Bytes) : Option (Point × Bool) :=
  match sig with
  | [] => none
  | c :: body =>
    if sig.length ≠ 65 then none else
    if c.toNat < 27 ∨ c.toNat > 34 then none else
    let code := c.toNat - 27
    let r := fromBE (body.take 32)
    let s := fromBE (body.drop 32)
    if r ≥ n ∨ r = 0 ∨ s ≥ n ∨ s = 0 then none else
    if code % 4 ≥ 2 ∧ r + n ≥ p then none else
    let x := if code % 4 ≥ 2 then r + n else r
    match decompress x (code % 2 = 1) with
    | none => none
    | some X =>
      let e := fromBE hash % n
      let w := sinv r
      match add (mulG (sneg (smul e w))) (mul (smul s w) X) with
      | .inf => none
      | q => some (q, code ≥ 4)

/-! ### BIP340 (btcec/schnorr/signature.go) -/

def challenge (rx : Bytes) (pk : Bytes) (m : Bytes) : Nat :=
  fromBE (taggedHash tagChallenge (rx ++ pk ++ m))

/-- `schnorrVerify(sig, hash, pubKeyBytes)` step by step. -/
def schnorrVerify (r s : Nat) (hash pk : Bytes) : Bool :=
  if hash.length ≠ 32 then false else
  match parseXOnly pk with
  | none => false
  | some P =>
    let e := challenge (toBE 32 r) (serializeXOnly P) hash % n
    match add (mulG s) (mul (sneg e) P) with
    | .inf => false
    | .aff x y => if y % 2 = 1 then false else x == r

/-- `schnorrSign(privKey, nonce, pubKey, hash)` (steps 10–15, with the final self-verification). -/
def schnorrSignCore (d k : Nat) (P : Point) (hash : Bytes) : Option (Nat × Nat) :=
  match mulG k with
  | .inf => none
  | .aff rx ry =>
    let k := if ry % 2 = 1 then sneg k else k
    let pk := serializeXOnly P
    let c := challenge (toBE 32 rx) pk hash
    if c ≥ n then none else
    let s := sadd (smul c d) k
    if schnorrVerify rx s hash pk then some (rx, s) else none

def rfc6979ExtraDataV0 : Bytes := sha256 "BIP-340".toUTF8.toList

def schnorrSignLoop (d : Nat) (P : Point) (hash : Bytes) : Nat → Nat → Option (Nat × Nat)
  | 0, _ => none
  | fuel + 1, iter =>
    match schnorrSignCore d (nonceRFC6979 (toBE 32 d) hash rfc6979ExtraDataV0 iter) P hash with
    | some v => some v
    | none => schnorrSignLoop d P hash fuel (iter + 1)

/-- `schnorr.Sign(privKey, hash, opts…)`: `aux = some a` is CustomNonce(a) (BIP340 nonce derivation),
    `none` the default RFC6979 path. `d` is the private key scalar (already reduced mod n). -/
def schnorrSign (d : Nat) (hash : Bytes) (aux : Option Bytes) : Option (Nat × Nat) :=
  if hash.length ≠ 32 then none else
  if d = 0 then none else
  let P := mulG d
  let d' := if hasEvenY P then d else n - d
  match aux with
  | some a =>
    let t := xorBytes (taggedHash tagAux a) (toBE 32 d')
    let rand := taggedHash tagNonce (t ++ serializeXOnly P ++ hash)
    let k := fromBE rand % n
    if k = 0 then none else schnorrSignCore d' k P hash
  | none => schnorrSignLoop d' P hash 4 0

/-! ### ECDH -/

/-- `GenerateSharedSecret`: x coordinate of d·Q -/
def sharedSecret (d : Nat) (q : Point) : Bytes :=
  match mul d q with
  | .inf => toBE 32 0
  | .aff x _ => toBE 32 x

end BV.C11
