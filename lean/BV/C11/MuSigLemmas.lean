/- C11: theorems about the MuSig2 byte-level parsers of the model (core-only). -/
import BV.C11.MuSig
import BV.C11.Parsers
namespace BV.C11.MuSigLemmas
open BV.Secp256k1 BV.C11 BV.C11.MuSig BV.C11.Bytes BV.C11.Parsers

theorem parsePubKey_finite (b : List UInt8) (q : Point) (h : parsePubKey b = some q) : q ≠ .inf := by
  unfold parsePubKey at h
  split at h
  · cases h
  rename_i fmt body
  split at h
  · rename_i h65
    obtain ⟨_, _, _, _, hq, _⟩ := parsePubKey_65 (fmt :: body) q h65 (by unfold parsePubKey; simp only [h65, if_true]; exact h)
    rw [hq]; intro hc; cases hc
  · split at h
    · split at h
      · cases h
      obtain ⟨_, _, _, hq⟩ := decompress_spec _ _ _ h
      rw [hq]; intro hc; cases hc
    · cases h

/-- BIP327 cpoint for individual public nonces: whatever `parsePubNonce` accepts is a finite curve point and
    its first byte is not 0x00 (F-C11-b, repaired). -/
theorem parsePubNonce_finite (b : List UInt8) (q : Point) (h : parsePubNonce b = some q) :
    q ≠ .inf ∧ b.head? ≠ some 0 ∧ parsePubKey b = some q := by
  unfold parsePubNonce at h
  split at h
  · cases h
  · rename_i hne
    unfold parseNoncePoint at h
    split at h
    · cases h
    split at h
    · exact absurd rfl (hne _)
    · refine ⟨parsePubKey_finite b q h, ?_, h⟩
      intro hh
      cases b with
      | nil => cases hh
      | cons x t => simp at hh; subst hh; exact hne t rfl

/-- BIP327 cpoint_ext for aggregate nonces: the point at infinity has exactly one encoding, 33 zero bytes. -/
theorem parseNoncePoint_inf (b : List UInt8) (h : parseNoncePoint b = some .inf) :
    b = List.replicate 33 0 := by
  unfold parseNoncePoint at h
  split at h
  · cases h
  rename_i hl
  split at h
  · rename_i rest
    split at h
    · rename_i hall
      have hl : rest.length = 32 := by simp at hl; omega
      have : rest = List.replicate 32 0 := by
        apply List.ext_getElem (by simp [hl])
        intro i h1 h2
        have := List.all_eq_true.mp hall rest[i] (List.getElem_mem h1)
        rw [List.getElem_replicate]
        simpa using this
      rw [this]; rfl
    · cases h
  · exact absurd rfl (parsePubKey_finite b .inf h)

/-- partial-signature codec: decode ∘ encode = id below n, encode ∘ decode = the 32 bytes read, s ≥ n rejected -/
theorem decode_encodePartialSig (s : Nat) (hs : s < n) : decodePartialSig (encodePartialSig s) = some s := by
  unfold decodePartialSig encodePartialSig
  have hl : (toBE 32 s).length = 32 := toBE_length 32 s
  have ht : (toBE 32 s).take 32 = toBE 32 s := List.take_of_length_le (Nat.le_of_eq hl)
  rw [hl, ht, fromBE_toBE _ _ (Nat.lt_trans hs Der.n_lt)]
  have : ¬ s ≥ n := by omega
  simp [this]

theorem encode_decodePartialSig (b : List UInt8) (s : Nat) (h : decodePartialSig b = some s) :
    s < n ∧ encodePartialSig s = b.take 32 := by
  unfold decodePartialSig at h
  split at h
  · cases h
  rename_i hl
  simp only [] at h
  split at h
  · cases h
  rename_i hs
  have hs' : fromBE (b.take 32) = s := Option.some.inj h
  refine ⟨by omega, ?_⟩
  unfold encodePartialSig
  rw [← hs']
  have l : (b.take 32).length = 32 := by rw [List.length_take]; omega
  have e := toBE_fromBE_exact (b.take 32)
  rw [l] at e; exact e

end BV.C11.MuSigLemmas
