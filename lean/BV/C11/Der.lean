/- C11: strict DER canonicity proofs (core-only). -/
import BV.C11.Bytes
import BV.C11.Spec
namespace BV.C11.Der
open BV.Secp256k1 BV.C11 BV.C11.Bytes

theorem n_lt : n < 256 ^ 32 := by decide

/-- shape of the minimal INTEGER body of a non-zero value below 2^256 -/
theorem encInt_shape (v : Nat) (hv : v < 256 ^ 32) (h0 : v ≠ 0) :
    ∃ h t, h ≠ 0 ∧ fromBE (h :: t) = v ∧ (h :: t).length ≤ 32 ∧
      encInt v = if h.toNat < 0x80 then h :: t else 0 :: h :: t := by
  obtain ⟨j, hj, hs⟩ := stripZeros_spec (toBE 32 v)
  have hf : fromBE (stripZeros (toBE 32 v)) = v := by rw [fromBE_stripZeros, fromBE_toBE _ _ hv]
  have hl : (stripZeros (toBE 32 v)).length ≤ 32 := by
    have := stripZeros_length_le (toBE 32 v); rw [toBE_length] at this; exact this
  rcases hs with hs | ⟨h, t, hs, hh⟩
  · rw [hs] at hf; exact absurd hf.symm h0
  · refine ⟨h, t, hh, by rw [← hs]; exact hf, by rw [← hs]; exact hl, ?_⟩
    unfold encInt
    rw [hj, hs, ← List.cons_append, ← List.replicate_succ]
    exact trimDER_zeros j h t hh

theorem parseInt_encInt (v : Nat) (h1 : 1 ≤ v) (hn : v < n) :
    parseInt true (encInt v) = some v ∧ 1 ≤ (encInt v).length ∧ (encInt v).length ≤ 33 := by
  obtain ⟨h, t, hh, hf, hl, he⟩ := encInt_shape v (Nat.lt_trans hn n_lt) (by omega)
  rw [he]
  by_cases hb : h.toNat < 0x80
  · simp only [hb, if_true]
    have hs : stripZeros (h :: t) = h :: t := by simp [stripZeros, hh]
    have hc : canonicalPadding (h :: t) = true := by
      cases t with
      | nil => simp [canonicalPadding, hb]
      | cons b t' => simp [canonicalPadding, hb, hh]
    refine ⟨?_, by simp, by simp at hl ⊢; omega⟩
    unfold parseInt
    simp only [hc, hs, hf]
    have e2 : ¬ (v ≥ n) := by omega
    have e3 : ¬ (v = 0) := by omega
    simp [e2, e3]
    simp at hl; omega
  · simp only [hb, if_false]
    have hs : stripZeros (0 :: h :: t) = h :: t := by simp [stripZeros, hh]
    have hc : canonicalPadding (0 :: h :: t) = true := by
      simp [canonicalPadding, hb]
    refine ⟨?_, by simp, by simp at hl ⊢; omega⟩
    unfold parseInt
    simp only [hc, hs, hf]
    have e2 : ¬ (v ≥ n) := by omega
    have e3 : ¬ (v = 0) := by omega
    simp [e2, e3]
    simp at hl; omega

/-- Key lemma: the strict INTEGER parser accepts only the minimal encoding of the value it returns. -/
theorem parseInt_canonical (bs : List UInt8) (v : Nat) (h : parseInt true bs = some v) : bs = encInt v := by
  unfold parseInt at h
  simp only [] at h
  split at h
  · cases h
  rename_i hc
  split at h
  · cases h
  rename_i hl
  split at h
  · cases h
  split at h
  · cases h
  rename_i hv0
  injection h with h
  have hc : canonicalPadding bs = true := by simpa using hc
  obtain ⟨j, hj, hs⟩ := stripZeros_spec bs
  rcases hs with hs | ⟨hd, t, hs, hh⟩
  · rw [hs] at hv0; exact absurd rfl hv0
  · have hlen : (hd :: t).length ≤ 32 := by rw [← hs]; omega
    have henc : encInt v = if hd.toNat < 0x80 then hd :: t else 0 :: hd :: t := by
      unfold encInt
      rw [← h, hs, toBE_fromBE (hd :: t) 32 hlen, ← List.cons_append, ← List.replicate_succ]
      exact trimDER_zeros _ hd t hh
    rw [henc, hj, hs]
    rw [hj, hs] at hc
    match j, hc with
    | 0, hc =>
      have : hd.toNat < 0x80 := by
        cases t with
        | nil => simpa [canonicalPadding] using hc
        | cons b t' => simp [canonicalPadding] at hc; exact hc.1
      simp [this]
    | 1, hc =>
      have : ¬ hd.toNat < 0x80 := by
        simp [canonicalPadding] at hc; omega
      simp [this]
    | j + 2, hc =>
      simp [List.replicate_succ, canonicalPadding] at hc

/-! ### inversion of the parser -/

theorem parseTail_inv (der : Bool) (r : Nat) (l : List UInt8) (v : Nat × Nat) (h : parseTail der r l = some v) :
    ∃ slen sb, l = 0x02 :: slen :: sb ∧ slen.toNat = sb.length ∧ slen.toNat ≠ 0 ∧
      ∃ s, parseInt der sb = some s ∧ v = (r, s) := by
  unfold parseTail at h
  split at h
  · rename_i m2 slen rest2
    split at h
    · cases h
    rename_i h1
    split at h
    · cases h
    rename_i h2
    split at h
    · cases h
    rename_i s hs
    split at h
    · cases h
    rename_i h3
    injection h with h
    have h1 : m2 = 0x02 := by simpa using h1
    have h3 : slen.toNat = rest2.length := by simpa using h3
    refine ⟨slen, rest2, by rw [h1], h3, by omega, s, ?_, h.symm⟩
    rw [h3, List.take_length] at hs; exact hs
  · cases h

theorem parseSeq_inv (der : Bool) (l : List UInt8) (v : Nat × Nat) (h : parseSeq der l = some v) :
    ∃ a b rlen rest, l = a :: b :: 0x02 :: rlen :: rest ∧ rlen.toNat ≠ 0 ∧ rlen.toNat ≤ rest.length - 3 ∧
      ∃ r, parseInt der (rest.take rlen.toNat) = some r ∧ parseTail der r (rest.drop rlen.toNat) = some v := by
  unfold parseSeq at h
  split at h
  · rename_i a b m1 rlen rest
    split at h
    · cases h
    rename_i h1
    split at h
    · cases h
    rename_i h2
    split at h
    · cases h
    rename_i r hr
    have h1 : m1 = 0x02 := by simpa using h1
    exact ⟨a, b, rlen, rest, by rw [h1], by omega, by omega, r, hr, h⟩
  · cases h

theorem parseSig_inv (sig : List UInt8) (v : Nat × Nat) (h : parseSig sig true = some v) :
    8 ≤ sig.length ∧ sig.length ≤ 72 ∧ ∃ siglen tl, sig = 0x30 :: siglen :: tl ∧
      (siglen + 2).toNat ≤ sig.length ∧ 8 ≤ (siglen + 2).toNat ∧
      parseSeq true (sig.take (siglen + 2).toNat) = some v := by
  unfold parseSig at h
  split at h
  · cases h
  rename_i h1
  split at h
  · cases h
  rename_i h2
  have h2' : sig.length ≤ MaxSigLen := by
    rcases Nat.lt_or_ge MaxSigLen sig.length with hgt | hle
    · exact absurd ⟨rfl, hgt⟩ h2
    · exact hle
  split at h
  · rename_i magic siglen tl
    split at h
    · cases h
    rename_i h3
    split at h
    · cases h
    rename_i h4
    have h3 : magic = 0x30 := by simpa using h3
    simp only [MinSigLen, MaxSigLen] at *
    refine ⟨by omega, h2', siglen, tl, by rw [h3], by omega, by omega, h⟩
  · cases h

/-- **the strict parser accepts only canonical encodings, provided nothing follows the sequence.** -/
theorem parseSig_canonical (sig : List UInt8) (r s : Nat) (h : parseSig sig true = some (r, s))
    (hnt : ((sig.getD 1 0) + 2).toNat = sig.length) : sig = Spec.encodeDER r s := by
  obtain ⟨hl8, hl72, siglen, tl, hsig, hle, h8, hseq⟩ := parseSig_inv sig _ h
  have hnt : (siglen + 2).toNat = sig.length := by rw [hsig] at hnt ⊢; simpa using hnt
  rw [hnt, List.take_length] at hseq
  obtain ⟨a, b, rlen, rest, hl, hr0, hrle, r', hr, htail⟩ := parseSeq_inv _ _ _ hseq
  obtain ⟨slen, sb, hdrop, hslen, hs0, s', hs, hv⟩ := parseTail_inv _ _ _ _ htail
  have hr' : r = r' := congrArg Prod.fst hv
  have hs' : s = s' := congrArg Prod.snd hv
  rw [hr', hs']
  clear hr' hs' hv h htail hseq
  have hrb := parseInt_canonical _ _ hr
  have hsb := parseInt_canonical _ _ hs
  have hsplit : rest = rest.take rlen.toNat ++ 0x02 :: slen :: sb := by
    rw [← hdrop]; exact (List.take_append_drop _ _).symm
  have hab : a = 0x30 ∧ b = siglen := by
    rw [hsig] at hl; injection hl with h1 h2; injection h2 with h2 h3; exact ⟨h1.symm, h2.symm⟩
  have hrestlen : rest.length = rlen.toNat + 2 + sb.length := by
    have := congrArg List.length hsplit
    rw [List.length_append, List.length_take] at this
    simp only [List.length_cons] at this
    have : min rlen.toNat rest.length = rlen.toNat := by omega
    omega
  have htk : (rest.take rlen.toNat).length = rlen.toNat := by rw [List.length_take]; omega
  have hsiglen : siglen.toNat = 4 + rlen.toNat + sb.length := by
    have hlen : sig.length = 4 + rest.length := by rw [hl]; simp; omega
    have h2 : (siglen + 2).toNat = (siglen.toNat + 2) % 256 := by
      rw [UInt8.toNat_add]
      have : (2 : UInt8).toNat = 2 := by decide
      rw [this]
    have := siglen.toNat_lt
    omega
  unfold Spec.encodeDER
  simp only []
  rw [← hrb, ← hsb, htk, ← hsiglen, ← hslen, ofNat_toNat, ofNat_toNat, ofNat_toNat, hl, hab.1, hab.2]
  conv => lhs; rw [hsplit]
  simp

/-- normal form of the canonical encoding -/
theorem encodeDER_eq (r s : Nat) : Spec.encodeDER r s =
    0x30 :: UInt8.ofNat (4 + (encInt r).length + (encInt s).length) :: 0x02 :: UInt8.ofNat (encInt r).length ::
      (encInt r ++ 0x02 :: UInt8.ofNat (encInt s).length :: encInt s) := by
  simp [Spec.encodeDER]

/-- **every canonical encoding of an in-range pair is accepted by the strict parser, with that pair.** -/
theorem parseSig_encodeDER (r s : Nat) (hr1 : 1 ≤ r) (hrn : r < n) (hs1 : 1 ≤ s) (hsn : s < n) :
    parseSig (Spec.encodeDER r s) true = some (r, s) ∧
      ((((Spec.encodeDER r s).getD 1 0) + 2).toNat = (Spec.encodeDER r s).length) := by
  obtain ⟨hpr, hr1', hr33⟩ := parseInt_encInt r hr1 hrn
  obtain ⟨hps, hs1', hs33⟩ := parseInt_encInt s hs1 hsn
  rw [encodeDER_eq]
  generalize encInt r = cr at *
  generalize encInt s = cs at *
  have hL : (UInt8.ofNat (4 + cr.length + cs.length) + 2).toNat = 6 + cr.length + cs.length := by
    rw [UInt8.toNat_add, toNat_ofNat_lt _ (by omega)]
    have : (2 : UInt8).toNat = 2 := by decide
    rw [this]
    omega
  have hlen : (0x30 :: UInt8.ofNat (4 + cr.length + cs.length) :: 0x02 :: UInt8.ofNat cr.length ::
      (cr ++ 0x02 :: UInt8.ofNat cs.length :: cs)).length = 6 + cr.length + cs.length := by
    simp; omega
  refine ⟨?_, by rw [hlen]; simpa using hL⟩
  unfold parseSig
  rw [hlen]
  have c1 : ¬ (6 + cr.length + cs.length < MinSigLen) := by unfold MinSigLen; omega
  have c2 : ¬ (true = true ∧ 6 + cr.length + cs.length > MaxSigLen) := by unfold MaxSigLen; omega
  rw [if_neg c1, if_neg c2]
  simp only [ne_eq, not_true_eq_false, if_false]
  rw [hL]
  have c3 : ¬ (6 + cr.length + cs.length > 6 + cr.length + cs.length ∨ 6 + cr.length + cs.length < MinSigLen) := by
    unfold MinSigLen; omega
  rw [if_neg c3]
  rw [List.take_of_length_le (Nat.le_of_eq hlen)]
  unfold parseSeq
  simp only [ne_eq, not_true_eq_false, if_false]
  rw [toNat_ofNat_lt _ (by omega : cr.length < 256)]
  have c4 : ¬ (cr.length = 0 ∨ cr.length > (cr ++ 0x02 :: UInt8.ofNat cs.length :: cs).length - 3) := by
    simp only [List.length_append, List.length_cons]; omega
  rw [if_neg c4, List.take_left' rfl, List.drop_left' rfl, hpr]
  simp only []
  unfold parseTail
  simp only [ne_eq, not_true_eq_false, if_false]
  rw [toNat_ofNat_lt _ (by omega : cs.length < 256)]
  have c5 : ¬ (cs.length = 0 ∨ cs.length > cs.length) := by omega
  rw [if_neg c5, List.take_length, hps]
  simp

end BV.C11.Der
