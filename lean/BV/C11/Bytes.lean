/- C11: lemmas about big-endian bytes, zero stripping and DER trimming (core-only). -/
import BV.C11.Model
namespace BV.C11.Bytes
open BV.C11

theorem ofNat_toNat (b : UInt8) : UInt8.ofNat b.toNat = b := by
  apply UInt8.toNat_inj.mp
  simp

theorem toNat_ofNat_lt (x : Nat) (h : x < 256) : (UInt8.ofNat x).toNat = x := by
  simp [UInt8.toNat_ofNat']; omega

theorem snoc_induction {P : List UInt8 → Prop} (hnil : P [])
    (hsnoc : ∀ t x, P t → P (t ++ [x])) : ∀ t, P t := by
  have : ∀ t : List UInt8, P t.reverse := by
    intro t
    induction t with
    | nil => exact hnil
    | cons x t ih => rw [List.reverse_cons]; exact hsnoc _ _ ih
  intro t
  have h := this t.reverse
  rwa [List.reverse_reverse] at h

/-! ### fromBE -/

theorem foldl_acc (bs : List UInt8) (acc : Nat) :
    bs.foldl (fun acc b => acc * 256 + b.toNat) acc = acc * 256 ^ bs.length + fromBE bs := by
  unfold fromBE
  induction bs generalizing acc with
  | nil => simp
  | cons b t ih =>
    simp only [List.foldl_cons, List.length_cons]
    rw [ih, ih (0 * 256 + b.toNat)]
    simp only [Nat.zero_mul, Nat.zero_add, Nat.pow_succ]
    rw [Nat.add_mul, Nat.mul_assoc, Nat.add_assoc, Nat.mul_comm 256]

theorem fromBE_nil : fromBE [] = 0 := rfl

theorem fromBE_cons (b : UInt8) (t : List UInt8) : fromBE (b :: t) = b.toNat * 256 ^ t.length + fromBE t := by
  have := foldl_acc t (0 * 256 + b.toNat)
  unfold fromBE at this ⊢
  simp only [List.foldl_cons]
  rw [this]; simp

theorem fromBE_append (a b : List UInt8) : fromBE (a ++ b) = fromBE a * 256 ^ b.length + fromBE b := by
  unfold fromBE
  rw [List.foldl_append]
  exact foldl_acc b _

theorem fromBE_snoc (t : List UInt8) (x : UInt8) : fromBE (t ++ [x]) = fromBE t * 256 + x.toNat := by
  rw [fromBE_append]; simp [fromBE]

theorem fromBE_replicate_zero (k : Nat) : fromBE (List.replicate k (0 : UInt8)) = 0 := by
  induction k with
  | zero => rfl
  | succ k ih => rw [List.replicate_succ, fromBE_cons, ih]; simp

theorem fromBE_zeros_append (k : Nat) (t : List UInt8) : fromBE (List.replicate k (0 : UInt8) ++ t) = fromBE t := by
  rw [fromBE_append, fromBE_replicate_zero]; simp

theorem fromBE_lt : ∀ t : List UInt8, fromBE t < 256 ^ t.length := by
  apply snoc_induction
  · simp [fromBE]
  · intro t x ih
    rw [fromBE_snoc, List.length_append, List.length_singleton, Nat.pow_succ]
    have := x.toNat_lt
    omega

/-! ### toBE -/

theorem toBE_length (k v : Nat) : (toBE k v).length = k := by
  induction k generalizing v with
  | zero => rfl
  | succ k ih => simp [toBE, ih]

theorem toBE_zero (k : Nat) : toBE k 0 = List.replicate k (0 : UInt8) := by
  induction k with
  | zero => rfl
  | succ k ih =>
    simp only [toBE, Nat.zero_div, Nat.zero_mod, ih]
    show List.replicate k (0 : UInt8) ++ [0] = _
    rw [List.replicate_succ']

theorem fromBE_toBE (k v : Nat) (h : v < 256 ^ k) : fromBE (toBE k v) = v := by
  induction k generalizing v with
  | zero => simp at h; subst h; rfl
  | succ k ih =>
    simp only [toBE]
    rw [fromBE_snoc, ih (v / 256) (by rw [Nat.pow_succ] at h; omega), toNat_ofNat_lt _ (Nat.mod_lt _ (by decide))]
    omega

/-- re-encoding a byte string of at most `k` bytes left-pads it with zeros. -/
theorem toBE_fromBE : ∀ (t : List UInt8) (k : Nat), t.length ≤ k →
    toBE k (fromBE t) = List.replicate (k - t.length) (0 : UInt8) ++ t := by
  apply snoc_induction
  · intro k _; simp [fromBE_nil, toBE_zero]
  · intro t x ih k h
    rw [List.length_append, List.length_singleton] at h
    obtain ⟨k', rfl⟩ : ∃ k', k = k' + 1 := ⟨k - 1, by omega⟩
    simp only [toBE]
    rw [fromBE_snoc]
    have hx := x.toNat_lt
    have h1 : (fromBE t * 256 + x.toNat) / 256 = fromBE t := by omega
    have h2 : (fromBE t * 256 + x.toNat) % 256 = x.toNat := by omega
    rw [h1, h2, ofNat_toNat, ih k' (by omega), List.length_append, List.length_singleton]
    have : k' + 1 - (t.length + 1) = k' - t.length := by omega
    rw [this, List.append_assoc]

theorem toBE_fromBE_exact (t : List UInt8) : toBE t.length (fromBE t) = t := by
  have := toBE_fromBE t t.length (Nat.le_refl _)
  simpa using this

/-! ### stripZeros -/

theorem stripZeros_spec (bs : List UInt8) :
    ∃ j, bs = List.replicate j (0 : UInt8) ++ stripZeros bs ∧
      (stripZeros bs = [] ∨ ∃ h t, stripZeros bs = h :: t ∧ h ≠ 0) := by
  induction bs with
  | nil => exact ⟨0, rfl, Or.inl rfl⟩
  | cons b t ih =>
    unfold stripZeros
    by_cases hb : b = 0
    · obtain ⟨j, h1, h2⟩ := ih
      refine ⟨j + 1, ?_, ?_⟩
      · simp only [hb, if_true, List.replicate_succ, List.cons_append]; rw [← h1]
      · simpa [hb] using h2
    · refine ⟨0, by simp [hb], Or.inr ⟨b, t, by simp [hb], hb⟩⟩

theorem fromBE_stripZeros (bs : List UInt8) : fromBE (stripZeros bs) = fromBE bs := by
  obtain ⟨j, h1, _⟩ := stripZeros_spec bs
  conv => rhs; rw [h1]
  rw [fromBE_zeros_append]

theorem stripZeros_length_le (bs : List UInt8) : (stripZeros bs).length ≤ bs.length := by
  obtain ⟨j, h1, _⟩ := stripZeros_spec bs
  have := congrArg List.length h1
  simp at this; omega

/-! ### trimDER -/

theorem trimDER_nonzero_head (h : UInt8) (t : List UInt8) (hh : h ≠ 0) : trimDER (h :: t) = h :: t := by
  unfold trimDER
  split
  · rename_i heq; simp at heq; exact absurd heq.1 hh
  · rfl

/-- zeros followed by a non-zero byte: DER trimming keeps exactly one zero iff the byte has its high bit set. -/
theorem trimDER_zeros (m : Nat) (h : UInt8) (t : List UInt8) (hh : h ≠ 0) :
    trimDER (List.replicate (m + 1) (0 : UInt8) ++ h :: t) =
      if h.toNat < 0x80 then h :: t else 0 :: h :: t := by
  induction m with
  | zero =>
    show trimDER (0 :: h :: t) = _
    rw [trimDER, trimDER_nonzero_head h t hh]
  | succ m ih =>
    rw [List.replicate_succ, List.cons_append, List.replicate_succ, List.cons_append]
    rw [trimDER]
    have : (0 : UInt8).toNat < 0x80 := by decide
    simp only [this, if_true]
    rw [← List.cons_append, ← List.replicate_succ]
    exact ih

end BV.C11.Bytes
