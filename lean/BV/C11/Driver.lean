/- C11 line-protocol driver (core-only). -/
import BV.Common.Hex
import BV.Common.Sha256
import BV.C11.Model
import BV.C11.Spec
namespace BV.C11.Driver
open BV.Hex BV.Secp256k1 BV.C11

def hex32 (v : Nat) : String := listToHex (toBE 32 v)

def showSig : Option (Nat × Nat) → String
  | some (r, s) => s!"ok {hex32 r} {hex32 s} {listToHex (serializeDER r s)}"
  | none => "err"

def handle : List String → String
  | ["der", h] => match hexToList? h with
    | some b => showSig (Spec.parseDER b)
    | none => "bad-op"
  | ["lax", h] => match hexToList? h with
    | some b => showSig (parseLax b)
    | none => "bad-op"
  | ["ser", r, s] => match hexToNat? r, hexToNat? s with
    | some r, some s => listToHex (serializeDER r s)
    | _, _ => "bad-op"
  | _ => "bad-op"

end BV.C11.Driver
