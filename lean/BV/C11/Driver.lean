/- C11 line-protocol driver (core-only). -/
import BV.Common.Hex
import BV.Common.Sha256
import BV.C11.Model
import BV.C11.Spec
import BV.C11.Algo
namespace BV.C11.Driver
open BV.Hex BV.Secp256k1 BV.C11

def hex32 (v : Nat) : String := listToHex (toBE 32 v)

def showSig : Option (Nat × Nat) → String
  | some (r, s) => s!"ok {hex32 r} {hex32 s} {listToHex (serializeDER r s)}"
  | none => "err"

def b01 (b : Bool) : String := if b then "1" else "0"

def showPoint : Point → String
  | .inf => "inf"
  | q => listToHex (serializeCompressed q)

def handle : List String → String
  | ["der", h] => match hexToList? h with
    | some b => showSig (Spec.parseDER b)
    | none => "bad-op"
  | ["lax", h] => match hexToList? h with
    | some b => showSig (parseLax b)
    | none => "bad-op"
  | ["ser", r, s] => match hexToNat? r, hexToNat? s with
    | some r, some s => listToHex (serializeDER r s)
    | _, _ => "bad-op"
  | ["ssig", h] => match hexToList? h with
    | some b => match parseSchnorrSig b with
      | some (r, s) => "ok " ++ listToHex (serializeSchnorrSig r s)
      | none => "err"
    | none => "bad-op"
  | ["xonly", h] => match hexToList? h with
    | some b => match parseXOnly b with
      | some q => s!"ok {listToHex (serializeCompressed q)} {listToHex (serializeXOnly q)}"
      | none => "err"
    | none => "bad-op"
  | ["pub", h] => match hexToList? h with
    | some b => match parsePubKey b with
      | some q => s!"ok {listToHex (serializeCompressed q)} {listToHex (serializeUncompressed q)}"
      | none => "err"
    | none => "bad-op"
  | ["mulchk", k, pk] => match hexToNat? k, hexToList? pk with
    | some k, some pk => match parsePubKey pk with
      | some q => s!"{showPoint (mul k q)} {showPoint (mulAffine k q)}"
      | none => "err"
    | _, _ => "bad-op"
  | ["ecdsav", mode, msg, sig, pk] => match hexToList? msg, hexToList? sig, hexToList? pk with
    | some msg, some sig, some pk =>
      match (if mode == "d" then Spec.parseDER sig else parseLax sig), parsePubKey pk with
      | some (r, s), some q => b01 (ecdsaVerify msg r s q)
      | _, _ => "err"
    | _, _, _ => "bad-op"
  | ["ecdsas", d, msg] => match hexToNat? d, hexToList? msg with
    | some d, some msg => match ecdsaSign d msg with
      | some (r, s, _) => s!"{listToHex (serializeDER r s)} {b01 (ecdsaVerify msg r s (mulG d))}"
      | none => "err"
    | _, _ => "bad-op"
  | ["compact", d, msg, c] => match hexToNat? d, hexToList? msg with
    | some d, some msg => match signCompact d msg (c == "1") with
      | some sig => match recoverCompact sig msg with
        | some (q, wc) => s!"{listToHex sig} {showPoint q} {b01 wc}"
        | none => s!"{listToHex sig} err"
      | none => "err"
    | _, _ => "bad-op"
  | ["rec", sig, msg] => match hexToList? sig, hexToList? msg with
    | some sig, some msg => match recoverCompact sig msg with
      | some (q, wc) => s!"ok {showPoint q} {b01 wc}"
      | none => "err"
    | _, _ => "bad-op"
  | ["schv", msg, sig, pk] => match hexToList? msg, hexToList? sig, hexToList? pk with
    | some msg, some sig, some pk =>
      match parseSchnorrSig sig, parseXOnly pk with
      | some (r, s), some q => b01 (schnorrVerify r s msg (serializeXOnly q))
      | _, _ => "err"
    | _, _, _ => "bad-op"
  | ["schs", d, msg, aux] => match hexToNat? d, hexToList? msg with
    | some d, some msg =>
      let aux? : Option (Option Bytes) := if aux == "rfc" then some none else (hexToList? aux).map some
      match aux? with
      | some a => match schnorrSign d msg a with
        | some (r, s) => s!"{listToHex (serializeSchnorrSig r s)} {b01 (schnorrVerify r s msg (serializeXOnly (mulG d)))}"
        | none => "err"
      | none => "bad-op"
    | _, _ => "bad-op"
  | ["ecdh", d, pk] => match hexToNat? d, hexToList? pk with
    | some d, some pk => match parsePubKey pk with
      | some q => listToHex (sharedSecret d q)
      | none => "err"
    | _, _ => "bad-op"
  | ["ecdh2", a, b] => match hexToNat? a, hexToNat? b with
    | some a, some b => s!"{listToHex (sharedSecret a (mulG b))} {listToHex (sharedSecret b (mulG a))}"
    | _, _ => "bad-op"
  | _ => "bad-op"

end BV.C11.Driver
