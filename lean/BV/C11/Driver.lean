/- C11 line-protocol driver (core-only). -/
import BV.Common.Hex
import BV.Common.Sha256
import BV.C11.Model
import BV.C11.Spec
import BV.C11.Algo
import BV.C11.MuSig
namespace BV.C11.Driver
open BV.Hex BV.Secp256k1 BV.C11 BV.C11.MuSig

def hex32 (v : Nat) : String := listToHex (toBE 32 v)

def showSig : Option (Nat × Nat) → String
  | some (r, s) => s!"ok {hex32 r} {hex32 s} {listToHex (serializeDER r s)}"
  | none => "err"

def b01 (b : Bool) : String := if b then "1" else "0"

def showPoint : Point → String
  | .inf => "inf"
  | q => listToHex (serializeCompressed q)

def parseKeys? (s : String) : Option (List Point) :=
  (s.splitOn ",").mapM (fun h => (hexToList? h).bind parsePubKey)

def parseTweak? (s : String) : Option Tweak :=
  match s.splitOn ":" with
  | [k, h] => match hexToList? h with
    | some b => if b.length ≠ 32 then none else
      if k == "x" then some ⟨b, true⟩ else if k == "p" then some ⟨b, false⟩ else none
    | none => none
  | _ => none

/-- "-" no tweak option at all; "b" BIP86; "t:<root32>" taproot; "p:<t>,x:<t>,…" plain / x-only chain -/
def parseTweakOpt? (s : String) : Option (Option TweakOpt) :=
  if s == "-" then some none
  else if s == "b" then some (some .bip86)
  else if s.startsWith "t:" then
    match hexToList? (s.drop 2).toString with
    | some b => if b.length = 32 then some (some (.taproot b)) else none
    | none => none
  else ((s.splitOn ",").mapM parseTweak?).map (fun ts => some (.plain ts))

def twOf (t : Option TweakOpt) : TweakOpt := t.getD (.plain [])

def parseSigner? (s : String) : Option (Nat × Bytes) :=
  match s.splitOn ":" with
  | [d, r] => match hexToNat? d, hexToList? r with
    | some d, some r => some (d, r)
    | _, _ => none
  | _ => none

def joinC (l : List String) : String := ",".intercalate l

def rotate1 {α} : List α → List α
  | [] => []
  | a :: t => t ++ [a]

/-- one full signing session: nonce generation, nonce aggregation, every signer signs, every partial
    signature is checked (also against a wrong nonce and with s+1), combination, final BIP340 check.
    `AggregateKeys` is evaluated once and shared (`sign = aggregateKeys >>= signWith` by definition). -/
def session (sort : Bool) (msg : Bytes) (tw : Option TweakOpt) (signers : List (Nat × Bytes)) : String :=
  let keys := signers.map (fun (d, _) => mulG d)
  match aggregateKeys keys sort (twOf tw) with
  | none => "err:keyagg"
  | some ak =>
    let pubs := keys.map serializeCompressed
    match (signers.zip pubs).mapM (fun ((_, r), pk) => genNonces r pk [] [] none []) with
    | none => "err:noncegen"
    | some (nonces : List (Bytes × Bytes)) =>
      match aggregateNonces (nonces.map (·.2)) with
      | none => "err:nonceagg"
      | some aggN =>
        let sigs := (signers.zip nonces).map (fun ((d, _), (sec, _)) =>
          if signChecks sec d keys then signWith ak sec d aggN keys msg sort else none)
        match sigs.mapM id with
        | none => s!"agg={showPoint ak.final} nonce={listToHex aggN} err:sign"
        | some (ps : List (Nat × Point)) =>
          let ss : List Nat := ps.map (fun (s, _) => s)
          let pubNs := nonces.map (·.2)
          let pv := (ps.zip (pubs.zip pubNs)).map (fun ((s, _), (pk, pn)) =>
            b01 (verifyPartialWith ak s pn aggN keys pk msg sort))
          let xv := (ps.zip (pubs.zip (rotate1 pubNs))).map (fun ((s, _), (pk, pn)) =>
            b01 (verifyPartialWith ak s pn aggN keys pk msg sort))
          let yv := (ps.zip (pubs.zip pubNs)).map (fun ((s, _), (pk, pn)) =>
            b01 (verifyPartialWith ak (sadd s 1) pn aggN keys pk msg sort))
          let r := match ps with | (_, r) :: _ => r | [] => .inf
          let (rx, s) : Nat × Nat := match tw with
            | none => (match r with | .inf => 0 | .aff x _ => x, ss.foldl sadd 0)
            | some _ => combineWith ak r ss msg
          s!"agg={showPoint ak.final} nonce={listToHex aggN} s={joinC (ps.map (fun (s, _) => hex32 s))} pv={joinC pv} xv={joinC xv} yv={joinC yv} sig={listToHex (serializeSchnorrSig rx s)} v={b01 (schnorrVerify rx s msg (serializeXOnly ak.final))}"

/-- final signature of one session (no extra partial verifications) -/
def sessionSig (sort : Bool) (msg : Bytes) (tw : Option TweakOpt) (signers : List (Nat × Bytes)) : String :=
  let keys := signers.map (fun (d, _) => mulG d)
  match aggregateKeys keys sort (twOf tw) with
  | none => "err"
  | some ak =>
    let pubs := keys.map serializeCompressed
    match (signers.zip pubs).mapM (fun ((_, r), pk) => genNonces r pk [] [] none []) with
    | none => "err"
    | some (nonces : List (Bytes × Bytes)) =>
      match aggregateNonces (nonces.map (·.2)) with
      | none => "err"
      | some aggN =>
        match ((signers.zip nonces).map (fun ((d, _), (sec, _)) => signWith ak sec d aggN keys msg sort true)).mapM id with
        | none => "err"
        | some (ps : List (Nat × Point)) =>
          let ss : List Nat := ps.map (fun (s, _) => s)
          let r := match ps with | (_, r) :: _ => r | [] => .inf
          let (rx, s) : Nat × Nat := match tw with
            | none => (match r with | .inf => 0 | .aff x _ => x, ss.foldl sadd 0)
            | some _ => combineWith ak r ss msg
          listToHex (serializeSchnorrSig rx s)

def handleMusig : List String → String
  | ["keyagg", sort, keys, tw] => match parseKeys? keys, parseTweakOpt? tw with
    | some keys, some tw => match aggregateKeys keys (sort == "1") (twOf tw) with
      | some ak => s!"ok {showPoint ak.final} {showPoint ak.pre} {hex32 ak.gacc} {hex32 ak.tacc}"
      | none => "err"
    | _, _ => "bad-op"
  | ["noncegen", rand, pk, sk, aggpk, msg, aux] =>
    match hexToList? rand, hexToList? pk, hexToList? sk, hexToList? aggpk, hexToList? aux with
    | some rand, some pk, some sk, some aggpk, some aux =>
      let msg? : Option (Option Bytes) := if msg == "none" then some none else (hexToList? msg).map some
      match msg? with
      | some m => match genNonces rand pk sk aggpk m aux with
        | some (sec, pub) => s!"{listToHex sec} {listToHex pub}"
        | none => "err"
      | none => "bad-op"
    | _, _, _, _, _ => "bad-op"
  | ["nonceagg", ns] => match (ns.splitOn ",").mapM hexToList? with
    | some ns => if ns.any (fun b => b.length ≠ 66) then "bad-op" else
      match aggregateNonces ns with
      | some b => listToHex b
      | none => "err"
    | none => "bad-op"
  | ["musig", sort, msg, tw, signers] =>
    match hexToList? msg, parseTweakOpt? tw, (signers.splitOn ",").mapM parseSigner? with
    | some msg, some tw, some signers => session (sort == "1") msg tw signers
    | _, _, _ => "bad-op"
  | ["msign", d, sec, an, keys, msg, sort, tw] =>
    match hexToNat? d, hexToList? sec, hexToList? an, parseKeys? keys, hexToList? msg, parseTweakOpt? tw with
    | some d, some sec, some an, some keys, some msg, some tw =>
      if sec.length ≠ 97 ∨ an.length ≠ 66 ∨ msg.length ≠ 32 then "bad-op" else
      match sign sec d an keys msg (sort.startsWith "1") (twOf tw) (sort.endsWith "f") with
      | some (s, r) => s!"s={hex32 s} r={showPoint r}"
      | none => "err"
    | _, _, _, _, _, _ => "bad-op"
  | ["ctx", sort, msg, tw, signers] =>
    -- the Context/Session API is a wrapper around the same functions: same aggregate key and final signature
    match hexToList? msg, parseTweakOpt? tw, (signers.splitOn ",").mapM parseSigner? with
    | some msg, some tw, some signers =>
      let out := (session (sort == "1") msg tw signers).splitOn " "
      if out == ["err:keyagg"] then "err:keyagg" else
      let agg := (out.filter (·.startsWith "agg=")).headD "agg=?"
      if out.any (· == "err:sign") then agg ++ " err:sign"
      else if signers.length == 1 then agg ++ " single"
      else agg ++ " " ++ (out.filter (·.startsWith "sig=")).headD "sig=?"
    | _, _, _ => "bad-op"
  | ["optreuse", sort, tw, keysets, msg, signers] =>
    match parseTweakOpt? tw, (keysets.splitOn "|").mapM parseKeys?, hexToList? msg, (signers.splitOn ",").mapM parseSigner? with
    | some tw, some sets, some msg, some signers =>
      let srt := sort == "1"
      let agg1 (ks : List Point) : String := match aggregateKeys ks srt (twOf tw) with
        | some ak => showPoint ak.final
        | none => "err"
      let setAt (i : Nat) : List Point := sets.getD (i % sets.length) []
      let seq := [0, 0, 1, 2, 0].map (fun i => agg1 (setAt i))
      let cc := (List.range 6).map (fun j => agg1 (setAt j))
      let msg2 := match msg with | b :: t => (b ^^^ 1) :: t | [] => []
      let sa := sessionSig srt msg tw signers
      let sb := sessionSig srt msg2 tw signers
      let single := signers.length == 1
      let bsig (m : Bytes) : String := match signers with
        | (d, aux) :: _ => match schnorrSign d m (some aux) with
          | some (r, s) => listToHex (serializeSchnorrSig r s)
          | none => "err"
        | [] => "err"
      s!"ka={joinC seq} cc={joinC cc} sa={sa} sa2={sa} sb={sb} ca={if single then "single" else sa} cb={if single then "single" else sb} bs={joinC [bsig msg, bsig msg2, bsig msg]} in=1"
    | _, _, _, _ => "bad-op"
  | ["ctx2", _, msg, tw, signers] =>
    match hexToList? msg, parseTweakOpt? tw, (signers.splitOn ",").mapM parseSigner? with
    | some msg, some tw, some signers =>
      if signers.length == 1 then "single" else
      let out := (session true msg tw signers).splitOn " "
      if out == ["err:keyagg"] then "err:keyagg" else
      let keys := signers.map (fun (d, _) => mulG d)
      let int := match tw, aggregateKeys keys true (twOf tw) with
        | some (.taproot _), some ak => showPoint ak.pre
        | some .bip86, some ak => showPoint ak.pre
        | _, _ => "-"
      let pick (pre : String) := (out.filter (·.startsWith pre)).headD (pre ++ "?")
      let head := s!"{pick "agg="} int={int} {pick "nonce="}"
      if out.any (· == "err:sign") then head ++ " err:sign" else head ++ " " ++ pick "sig="
    | _, _, _ => "bad-op"
  | ["lows", h] => match hexToList? h with
    | some b => if verifyLowS (Spec.parseDER b) then "ok" else "err"
    | none => "bad-op"
  | ["jac", a, b] => match hexToList? a, hexToList? b with
    | some a, some b => match parseNoncePoint a, parseNoncePoint b with
      | some p1, some p2 =>
        let h (q : Point) := listToHex (noncePointBytes q)
        s!"add={h (add p1 p2)} dbl={h (double p1)} g={h G} mk={h p1}"
      | _, _ => "err"
    | _, _ => "bad-op"
  | ["decy", x, odd] => match hexToNat? x with
    | some x => if x ≥ p then "ovf" else
      match decompress x (odd == "1") with
      | some (.aff _ y) => hex32 y
      | _ => "err"
    | none => "bad-op"
  | ["pkutil", h] => match hexToList? h with
    | some b =>
      let c := b01 (b.length == 33 && (b.headD 0 == 2 || b.headD 0 == 3))
      match parsePubKey b with
      | some (.aff x y) =>
        let q := Point.aff x y
        s!"c={c} ok {listToHex (serializeCompressed q)} {listToHex (serializeXOnly q)} {listToHex (serializeCompressed q)} oc={b01 (onCurve q)} off={b01 (onCurve (.aff y x))}"
      | _ => s!"c={c} err"
    | none => "bad-op"
  | ["psdec", h] => match hexToList? h with
    | some b => match decodePartialSig b with
      | some s => "ok " ++ listToHex (encodePartialSig s)
      | none => "err"
    | none => "bad-op"
  | ["rfc", priv, hash, extra, version, iter] =>
    match hexToList? priv, hexToList? hash, hexToList? extra, hexToList? version, iter.toNat? with
    | some priv, some hash, some extra, some version, some iter =>
      if priv.length ≠ 32 ∨ hash.length ≠ 32 then "bad-op" else hex32 (nonceRFC6979 priv hash extra iter version)
    | _, _, _, _, _ => "bad-op"
  | ["keyaggx", sort, keys, tw, kh, idx, _] =>
    match parseKeys? keys, parseTweakOpt? tw, hexToList? kh, idx.toInt? with
    | some keys, some tw, some kh, some idx =>
      let keys := if sort == "1" then sortKeys keys else keys
      let sk := if idx < 0 then none else (keys[idx.toNat]?).map serializeCompressed
      match aggregateKeysWith keys kh sk (twOf tw) with
      | some ak => s!"ok {showPoint ak.final} {showPoint ak.pre} {hex32 ak.gacc} {hex32 ak.tacc}"
      | none => "err"
    | _, _, _, _ => "bad-op"
  | ["pverify", s, pn, an, keys, pk, msg, sort, tw] =>
    match hexToNat? s, hexToList? pn, hexToList? an, parseKeys? keys, hexToList? pk, hexToList? msg, parseTweakOpt? tw with
    | some s, some pn, some an, some keys, some pk, some msg, some tw =>
      b01 (verifyPartial s pn an keys pk msg (sort.startsWith "1") (twOf tw))
    | _, _, _, _, _, _, _ => "bad-op"
  | _ => "bad-op"

def handle1 : List String → String
  | ["der", h] => match hexToList? h with
    | some b => showSig (Spec.parseDER b)
    | none => "bad-op"
  | ["lax", h] => match hexToList? h with
    | some b => showSig (parseLax b)
    | none => "bad-op"
  | ["ser", r, s] => match hexToNat? r, hexToNat? s with
    | some r, some s => listToHex (serializeDER r s)
    | _, _ => "bad-op"
  | ["ssig", h] => match hexToList? h with
    | some b => match parseSchnorrSig b with
      | some (r, s) => "ok " ++ listToHex (serializeSchnorrSig r s)
      | none => "err"
    | none => "bad-op"
  | ["xonly", h] => match hexToList? h with
    | some b => match parseXOnly b with
      | some q => s!"ok {listToHex (serializeCompressed q)} {listToHex (serializeXOnly q)}"
      | none => "err"
    | none => "bad-op"
  | ["pub", h] => match hexToList? h with
    | some b => match parsePubKey b with
      | some q => s!"ok {listToHex (serializeCompressed q)} {listToHex (serializeUncompressed q)}"
      | none => "err"
    | none => "bad-op"
  | ["mulchk", k, pk] => match hexToNat? k, hexToList? pk with
    | some k, some pk => match parsePubKey pk with
      | some q => s!"{showPoint (mul k q)} {showPoint (mulAffine k q)}"
      | none => "err"
    | _, _ => "bad-op"
  | ["ecdsav", mode, msg, sig, pk] => match hexToList? msg, hexToList? sig, hexToList? pk with
    | some msg, some sig, some pk =>
      match (if mode == "d" then Spec.parseDER sig else parseLax sig), parsePubKey pk with
      | some (r, s), some q => b01 (ecdsaVerify msg r s q)
      | _, _ => "err"
    | _, _, _ => "bad-op"
  | ["ecdsas", d, msg] => match hexToNat? d, hexToList? msg with
    | some d, some msg => match ecdsaSign d msg with
      | some (r, s, _) => s!"{listToHex (serializeDER r s)} {b01 (ecdsaVerify msg r s (mulG d))}"
      | none => "err"
    | _, _ => "bad-op"
  | ["compact", d, msg, c] => match hexToNat? d, hexToList? msg with
    | some d, some msg => match signCompact d msg (c == "1") with
      | some sig => match recoverCompact sig msg with
        | some (q, wc) => s!"{listToHex sig} {showPoint q} {b01 wc}"
        | none => s!"{listToHex sig} err"
      | none => "err"
    | _, _ => "bad-op"
  | ["rec", sig, msg] => match hexToList? sig, hexToList? msg with
    | some sig, some msg => match recoverCompact sig msg with
      | some (q, wc) => s!"ok {showPoint q} {b01 wc}"
      | none => "err"
    | _, _ => "bad-op"
  | ["schv", msg, sig, pk] => match hexToList? msg, hexToList? sig, hexToList? pk with
    | some msg, some sig, some pk =>
      match parseSchnorrSig sig, parseXOnly pk with
      | some (r, s), some q =>
        -- answered from the Spec (defining equation R = s·G − e·P); the Model's step-by-step mirror of
        -- schnorrVerify is exercised by the `schs` / `musig` lines
        b01 (msg.length == 32 && Spec.schnorrValid (challenge (toBE 32 r) (serializeXOnly q) msg) r s q)
      | _, _ => "err"
    | _, _, _ => "bad-op"
  | ["schs", d, msg, aux] => match hexToNat? d, hexToList? msg with
    | some d, some msg =>
      let aux? : Option (Option Bytes) := if aux == "rfc" then some none else (hexToList? aux).map some
      match aux? with
      | some a => match schnorrSign d msg a with
        | some (r, s) =>
          -- default nonce path: only "a signature that verifies" is property-level (any nonce is admissible)
          if aux == "rfc" then s!"rfc {b01 (schnorrVerify r s msg (serializeXOnly (mulG d)))}" else
          s!"{listToHex (serializeSchnorrSig r s)} {b01 (schnorrVerify r s msg (serializeXOnly (mulG d)))}"
        | none => "err"
      | none => "bad-op"
    | _, _ => "bad-op"
  | ["ecdh", d, pk] => match hexToNat? d, hexToList? pk with
    | some d, some pk => match parsePubKey pk with
      | some q => listToHex (sharedSecret d q)
      | none => "err"
    | _, _ => "bad-op"
  | ["ecdh2", a, b] => match hexToNat? a, hexToNat? b with
    | some a, some b => s!"{listToHex (sharedSecret a (mulG b))} {listToHex (sharedSecret b (mulG a))}"
    | _, _ => "bad-op"
  | l => handleMusig l

/-- top level: `conc a/b/c;d/e…` answers every sub-line (the Go side runs them concurrently, three rounds) -/
def handle : List String → String
  | ["conc", arg] =>
    ";".intercalate ((arg.splitOn ";").map (fun sub =>
      ((handle1 (sub.splitOn "/")).replace " " "/")))
  | l => handle1 l

end BV.C11.Driver
