/-
C11 model, part 1: byte-level parsers and serialisers, mirroring

* btcec/ecdsa/signature.go  parseSig (strict `der = true` / lax `der = false`), canonicalPadding
* decred ecdsa Signature.Serialize (the serialiser btcec uses; it normalises S to low-S)
* btcec/schnorr/signature.go ParseSignature / Serialize
* btcec/schnorr/pubkey.go ParsePubKey / SerializePubKey
* btcec/pubkey.go ParsePubKey  (= decred secp256k1.ParsePubKey: formats 02/03/04/06/07)

Core-only. Values are `Nat`; the curve predicates come from the executable reference
`BV/Common/Secp256k1.lean`.
-/
import BV.Common.Secp256k1
namespace BV.C11
open BV.Secp256k1

/-! ### big-endian bytes -/

/-- `k` big-endian bytes of `v` (truncating like `PutBytesUnchecked` never has to: callers pass v < 256^k). -/
def toBE : Nat → Nat → List UInt8
  | 0, _ => []
  | k + 1, v => toBE k (v / 256) ++ [UInt8.ofNat (v % 256)]

def fromBE (bs : List UInt8) : Nat := bs.foldl (fun acc b => acc * 256 + b.toNat) 0

def stripZeros : List UInt8 → List UInt8
  | [] => []
  | b :: rest => if b = 0 then stripZeros rest else b :: rest

/-! ### ECDSA DER -/

def MinSigLen : Nat := 8
def MaxSigLen : Nat := 72

/-- `canonicalPadding` of signature.go: `true` iff neither "negative" nor "excessively padded".
    (Go indexes b[0] unconditionally; callers guarantee a non-empty slice.) -/
def canonicalPadding : List UInt8 → Bool
  | [] => false
  | [b] => b.toNat < 0x80
  | b0 :: b1 :: _ => b0.toNat < 0x80 && !(b0 = 0 && b1.toNat < 0x80)

/-- one INTEGER body: padding rule (strict only), strip zeros, ≤ 32 bytes, in [1, n-1]. -/
def parseInt (der : Bool) (bs : List UInt8) : Option Nat :=
  if der && !canonicalPadding bs then none else
  let t := stripZeros bs
  if t.length > 32 then none else
  let v := fromBE t
  if v ≥ n then none else
  if v = 0 then none else some v

/-- second half of `parseSig`: `0x02 <sLen> <S>` must be exactly the rest of the (trimmed) input. -/
def parseTail (der : Bool) (r : Nat) : List UInt8 → Option (Nat × Nat)
  | m2 :: slen :: rest2 =>
    if m2 ≠ 0x02 then none else
    if slen.toNat = 0 ∨ slen.toNat > rest2.length then none else
    match parseInt der (rest2.take slen.toNat) with
    | none => none
    | some s => if slen.toNat ≠ rest2.length then none else some (r, s)
  | _ => none

/-- `parseSig` after the input has been trimmed to `siglen+2` bytes: `?? ?? 0x02 <rLen> <R> …`. -/
def parseSeq (der : Bool) : List UInt8 → Option (Nat × Nat)
  | _ :: _ :: m1 :: rlen :: rest =>
    if m1 ≠ 0x02 then none else
    -- Go: rLen <= 0 || rLen > len(sigStr)-index-3 with index = 4
    if rlen.toNat = 0 ∨ rlen.toNat > rest.length - 3 then none else
    match parseInt der (rest.take rlen.toNat) with
    | none => none
    | some r => parseTail der r (rest.drop rlen.toNat)
  | _ => none

/-- `parseSig(sigStr, der)` — returns (r, s). Byte arithmetic `siglen+2` wraps like Go's `byte`. -/
def parseSig (sig : List UInt8) (der : Bool) : Option (Nat × Nat) :=
  if sig.length < MinSigLen then none else
  if der = true ∧ sig.length > MaxSigLen then none else
  match sig with
  | magic :: siglen :: _ =>
    if magic ≠ 0x30 then none else
    if (siglen + 2).toNat > sig.length ∨ (siglen + 2).toNat < MinSigLen then none else
    parseSeq der (sig.take (siglen + 2).toNat)
  | _ => none

def parseDERModel (sig : List UInt8) : Option (Nat × Nat) := parseSig sig true
def parseLax (sig : List UInt8) : Option (Nat × Nat) := parseSig sig false

/-- trim leading zero bytes while more than one byte remains and the next byte has its high bit clear. -/
def trimDER : List UInt8 → List UInt8
  | 0 :: b :: rest => if b.toNat < 0x80 then trimDER (b :: rest) else 0 :: b :: rest
  | l => l

/-- minimal DER INTEGER body of a value < 2^256 -/
def encInt (v : Nat) : List UInt8 := trimDER (0 :: toBE 32 v)

def lowS (s : Nat) : Nat := if s > halfN then n - s else s

/-- decred `Signature.Serialize` (S is first normalised to low-S). -/
def serializeDER (r s : Nat) : List UInt8 :=
  let cr := encInt r
  let cs := encInt (lowS s)
  [0x30, UInt8.ofNat (4 + cr.length + cs.length), 0x02, UInt8.ofNat cr.length] ++ cr ++
    [0x02, UInt8.ofNat cs.length] ++ cs

/-- `ecdsa.VerifyLowS` on top of a strict parse result: accepted iff S ≤ n/2 -/
def verifyLowS (parsed : Option (Nat × Nat)) : Bool :=
  match parsed with
  | some (_, s) => decide (s ≤ halfN)
  | none => false

/-- `musig2.PartialSignature.Decode`: the first 32 bytes, big endian, must be < n -/
def decodePartialSig (b : List UInt8) : Option Nat :=
  if b.length < 32 then none else
  let s := fromBE (b.take 32)
  if s ≥ n then none else some s

def encodePartialSig (s : Nat) : List UInt8 := toBE 32 s

/-! ### Schnorr signature (BIP340, 64 bytes) -/

def parseSchnorrSig (sig : List UInt8) : Option (Nat × Nat) :=
  if sig.length ≠ 64 then none else
  let r := fromBE (sig.take 32)
  let s := fromBE (sig.drop 32)
  if r ≥ p then none else
  if s ≥ n then none else some (r, s)

def serializeSchnorrSig (r s : Nat) : List UInt8 := toBE 32 r ++ toBE 32 s

/-! ### public keys -/

def serializeCompressed : Point → List UInt8
  | .inf => (0x02 : UInt8) :: toBE 32 0   -- decred serialises the zero-value key as x = y = 0
  | .aff x y => (if y % 2 = 1 then (0x03 : UInt8) else 0x02) :: toBE 32 x

def serializeUncompressed : Point → List UInt8
  | .inf => (0x04 : UInt8) :: (toBE 32 0 ++ toBE 32 0)
  | .aff x y => (0x04 : UInt8) :: (toBE 32 x ++ toBE 32 y)

/-- `secp256k1.ParsePubKey` -/
def parsePubKey (b : List UInt8) : Option Point :=
  match b with
  | [] => none
  | fmt :: body =>
    if b.length = 65 then
      if fmt ≠ 0x04 ∧ fmt ≠ 0x06 ∧ fmt ≠ 0x07 then none else
      let x := fromBE (body.take 32)
      let y := fromBE (body.drop 32)
      if x ≥ p then none else
      if y ≥ p then none else
      if (fmt = 0x06 ∨ fmt = 0x07) ∧ ((y % 2 = 1) ≠ (fmt = 0x07)) then none else
      if !onCurve (.aff x y) then none else some (.aff x y)
    else if b.length = 33 then
      if fmt ≠ 0x02 ∧ fmt ≠ 0x03 then none else
      decompress (fromBE body) (fmt = 0x03)
    else none

/-- `schnorr.ParsePubKey` (32-byte x-only; lift to the even-y point). -/
def parseXOnly (b : List UInt8) : Option Point :=
  if b.length ≠ 32 then none else parsePubKey ((0x02 : UInt8) :: b)

def serializeXOnly (q : Point) : List UInt8 := (serializeCompressed q).drop 1

end BV.C11
