import BV.Common.Loop
import BV.C11.Driver
/-! `drv_c11`: one case per input line `C11 <op> <args…>`, one canonical result line back.
Imports only core-only modules so that it links as a native executable. -/
def main : IO Unit := BV.Loop.run "C11" BV.C11.Driver.handle
