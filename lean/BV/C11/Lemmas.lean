/- C11 helper lemmas about the byte-level parsers (core-only). -/
import BV.C11.Model
import BV.C11.Spec
namespace BV.C11.Lemmas
open BV.Secp256k1 BV.C11

theorem parseInt_lax_of_strict (bs : List UInt8) (v : Nat) (h : parseInt true bs = some v) :
    parseInt false bs = some v := by
  unfold parseInt at h ⊢
  by_cases hc : canonicalPadding bs
  · simpa [hc] using h
  · simp [hc] at h

/-- every value produced by `parseInt` is in [1, n-1] -/
theorem parseInt_range (der : Bool) (bs : List UInt8) (v : Nat) (h : parseInt der bs = some v) :
    1 ≤ v ∧ v < n := by
  unfold parseInt at h
  simp only [] at h
  split at h
  · cases h
  · split at h
    · cases h
    · split at h
      · cases h
      · split at h
        · cases h
        · cases h; omega

theorem parseTail_lax_of_strict (r : Nat) (l : List UInt8) (v : Nat × Nat)
    (h : parseTail true r l = some v) : parseTail false r l = some v := by
  unfold parseTail at h ⊢
  split at h
  · split at h
    · cases h
    rename_i h1
    split at h
    · cases h
    rename_i h2
    split at h
    · cases h
    rename_i s hs
    simp only [h1, h2, if_false, parseInt_lax_of_strict _ _ hs]
    exact h
  · cases h

theorem parseSeq_lax_of_strict (l : List UInt8) (v : Nat × Nat)
    (h : parseSeq true l = some v) : parseSeq false l = some v := by
  unfold parseSeq at h ⊢
  split at h
  · split at h
    · cases h
    rename_i h1
    split at h
    · cases h
    rename_i h2
    split at h
    · cases h
    rename_i r hr
    simp only [h1, h2, if_false, parseInt_lax_of_strict _ _ hr]
    exact parseTail_lax_of_strict _ _ _ h
  · cases h

theorem parseSig_lax_of_strict (sig : List UInt8) (v : Nat × Nat) (h : parseSig sig true = some v) :
    parseSig sig false = some v := by
  unfold parseSig at h ⊢
  split at h
  · cases h
  rename_i h1
  split at h
  · cases h
  simp only [h1, if_false, Bool.false_eq_true, false_and]
  split at h
  · split at h
    · cases h
    rename_i h3
    split at h
    · cases h
    rename_i h4
    simp only [h3, h4, if_false]
    exact parseSeq_lax_of_strict _ _ h
  · cases h

end BV.C11.Lemmas
