/-
C16 model: segwit address coding, `DecodeAddress`, address kinds, `IsForNet` (address/address.go),
script templates, `PayToAddrScript`, `ExtractPkScriptAddrs`, `GetScriptClass` (txscript/standard.go).
Core-only. Strings and scripts are byte lists.
-/
import BV.C16.Spec
import BV.C16.Base58
import BV.C16.Bech32
namespace BV.C16

inductive Addr
  | pkh (hash : List UInt8) (netID : UInt8)
  | sh (hash : List UInt8) (netID : UInt8)
  /-- `ser` is the serialization under the address's format: 33 bytes (02/03) or 65 bytes (04) -/
  | pk (ser : List UInt8) (netID : UInt8)
  | wpkh (hrp prog : List UInt8)
  | wsh (hrp prog : List UInt8)
  | tr (hrp prog : List UInt8)
  | p2a (hrp : List UInt8)
deriving Repr, DecidableEq

/-- what the constructors guarantee -/
def Addr.wf : Addr → Bool
  | .pkh h _ => h.length = 20
  | .sh h _ => h.length = 20
  | .pk s _ => (s.length = 33 && (s.head? = some 2 || s.head? = some 3)) || (s.length = 65 && s.head? = some 4)
  | .wpkh _ p => p.length = 20
  | .wsh _ p => p.length = 32
  | .tr _ p => p.length = 32
  | .p2a _ => true

def Addr.isForNet : Addr → Net → Bool
  | .pkh _ id, n => id = n.pkh
  | .sh _ id, n => id = n.sh
  | .pk _ id, n => id = n.pkh
  | .wpkh h _, n => h = n.hrp
  | .wsh h _, n => h = n.hrp
  | .tr h _, n => h = n.hrp
  | .p2a h, n => h = n.hrp

/-! ### segwit strings -/

inductive AddrErr | bech (e : BechErr) | noVersion | badVersion | progLen | v0Len | pairing
  | witVer | witProgLen | checksum | format | unknownType | collision | size | pubkey | encode
deriving Repr, DecidableEq

/-- `decodeSegWitAddress` -/
def decodeSegwit (address : List UInt8) : Except AddrErr (Nat × List UInt8) :=
  match bechDecode address with
  | .error e => .error (.bech e)
  | .ok (_, data, bver) =>
    match data with
    | [] => .error .noVersion
    | version :: rest =>
      if version > 16 then .error .badVersion else
      match convertBits rest 5 8 false with
      | .error e => .error (.bech e)
      | .ok regrouped =>
        if regrouped.length < 2 || regrouped.length > 40 then .error .progLen else
        if version = 0 && regrouped.length ≠ 20 && regrouped.length ≠ 32 then .error .v0Len else
        if version = 0 && bver ≠ .v0 then .error .pairing else
        if version ≥ 1 && bver ≠ .vM then .error .pairing else
        .ok (version, regrouped.map UInt8.ofNat)

/-- `encodeSegWitAddress` (including its decode-back self check) -/
def encodeSegwit (hrp : List UInt8) (version : Nat) (prog : List UInt8) : Except AddrErr (List UInt8) :=
  match convertBits (prog.map UInt8.toNat) 8 5 true with
  | .error e => .error (.bech e)
  | .ok conv =>
    let combined := version :: conv
    let r := if version = 0 then bechEncode hrp combined .v0
             else if version = 1 then bechEncode hrp combined .vM
             else .error .databyte
    match r with
    | .error e => .error (.bech e)
    | .ok bech =>
      match decodeSegwit bech with
      | .error e => .error e
      | .ok (v, p) => if v ≠ version || p ≠ prog then .error .encode else .ok bech

/-! ### public keys: curve membership is a parameter `validPK` (btcec.ParsePubKey succeeds) -/

/-- the serialization `AddressPubKey.serialize` gives back: hybrid keys are re-serialized uncompressed -/
def normPK (ser : List UInt8) : List UInt8 :=
  match ser with
  | 6 :: t => 4 :: t
  | 7 :: t => 4 :: t
  | s => s

def hexVal? (c : UInt8) : Option UInt8 :=
  if 48 ≤ c && c ≤ 57 then some (c - 48)
  else if 97 ≤ c && c ≤ 102 then some (c - 87)
  else if 65 ≤ c && c ≤ 70 then some (c - 55)
  else none

/-- `hex.DecodeString` -/
def hexDecode? : List UInt8 → Option (List UInt8)
  | [] => some []
  | [_] => none
  | a :: b :: rest => match hexVal? a, hexVal? b, hexDecode? rest with
    | some x, some y, some r => some ((x * 16 + y) :: r)
    | _, _, _ => none

def hexNib (n : UInt8) : UInt8 := if n < 10 then 48 + n else 87 + n
def hexEncode (b : List UInt8) : List UInt8 := b.flatMap (fun x => [hexNib (x / 16), hexNib (x % 16)])

/-! ### DecodeAddress -/

/-- the human-readable part when `addr` is tried as a segwit address: everything before the last `'1'`, longer
than one character and (lower-cased) the HRP of a registered network (`chaincfg.IsBech32SegwitPrefix`) -/
def segwitPrefix (regHrps : List (List UInt8)) (addr : List UInt8) : Option (List UInt8) :=
  match splitLastOne addr with
  | some (h, _) => if h.length > 1 && regHrps.contains (lowerStr h) then some h else none
  | none => none

/-- which address a decoded witness version / program becomes -/
def segwitToAddr (hrp : List UInt8) (ver : Nat) (prog : List UInt8) : Except AddrErr Addr :=
  if ver ≠ 0 && ver ≠ 1 then .error .witVer else
  if prog.length = 2 then
    if ver = 1 && prog = [0x4e, 0x73] then .ok (.p2a hrp) else .error .witProgLen
  else if prog.length = 20 then
    if ver = 0 then .ok (.wpkh hrp prog) else .error .witProgLen
  else if prog.length = 32 then
    if ver = 1 then .ok (.tr hrp prog) else .ok (.wsh hrp prog)
  else .error .witProgLen

/-- the segwit branch of `DecodeAddress` (the prefix `h` was recognised) -/
def decodeSegwitAddr (h addr : List UInt8) : Except AddrErr Addr :=
  match decodeSegwit addr with
  | .error e => .error e
  | .ok (ver, prog) => segwitToAddr (lowerStr h) ver prog

/-- the non-segwit part of `DecodeAddress`: hex public key, else Base58Check P2PKH / P2SH of `net` -/
def decodeLegacy (H : List UInt8 → List UInt8) (validPK : List UInt8 → Bool) (addr : List UInt8) (net : Net) :
    Except AddrErr Addr :=
  if addr.length = 130 || addr.length = 66 then
    match hexDecode? addr with
    | none => .error .pubkey
    | some ser => if validPK ser then .ok (.pk (normPK ser) net.pkh) else .error .pubkey
  else
    match checkDecode H addr with
    | .error .checksum => .error .checksum
    | .error .format => .error .format
    | .ok (decoded, netID) =>
      if decoded.length = 20 then
        if netID = net.pkh && netID = net.sh then .error .collision
        else if netID = net.pkh then .ok (.pkh decoded netID)
        else if netID = net.sh then .ok (.sh decoded netID)
        else .error .unknownType
      else .error .size

/-- `DecodeAddress(addr, defaultNet)`. `regHrps` = HRPs of the registered networks, `H` = Base58Check
checksum, `validPK` = `btcec.ParsePubKey` succeeds. -/
def decodeAddress (regHrps : List (List UInt8)) (H : List UInt8 → List UInt8) (validPK : List UInt8 → Bool)
    (addr : List UInt8) (net : Net) : Except AddrErr Addr :=
  match segwitPrefix regHrps addr with
  | some h => decodeSegwitAddr h addr
  | none => decodeLegacy H validPK addr net

/-- `EncodeAddress` for every kind except `pk` (whose encoding is the P2PKH address of `hash160 ser`);
`String()` for `pk` is the hex of the serialization. -/
def Addr.string (H : List UInt8 → List UInt8) : Addr → List UInt8
  | .pkh h id => checkEncode H h id
  | .sh h id => checkEncode H h id
  | .pk s _ => hexEncode s
  | .wpkh hrp p => match encodeSegwit hrp 0 p with | .ok s => s | .error _ => []
  | .wsh hrp p => match encodeSegwit hrp 0 p with | .ok s => s | .error _ => []
  | .tr hrp p => match encodeSegwit hrp 1 p with | .ok s => s | .error _ => []
  | .p2a hrp => match encodeSegwit hrp 1 [0x4e, 0x73] with | .ok s => s | .error _ => []

/-! ### script templates -/

inductive ScriptClass
  | nonStandard | pubKey | pubKeyHash | witnessV0PubKeyHash | scriptHash | witnessV0ScriptHash
  | multiSig | nullData | witnessV1Taproot | payToAnchor
deriving Repr, DecidableEq

def ScriptClass.name : ScriptClass → String
  | .nonStandard => "nonstandard" | .pubKey => "pubkey" | .pubKeyHash => "pubkeyhash"
  | .witnessV0PubKeyHash => "witness_v0_keyhash" | .scriptHash => "scripthash"
  | .witnessV0ScriptHash => "witness_v0_scripthash" | .multiSig => "multisig" | .nullData => "nulldata"
  | .witnessV1Taproot => "witness_v1_taproot" | .payToAnchor => "anchor"

/-- `PayToAddrScript` (canonical data pushes of 2, 20, 32, 33, 65 bytes are single length-prefixed pushes) -/
def payToAddrScript : Addr → List UInt8
  | .pkh h _ => [0x76, 0xa9, 0x14] ++ h ++ [0x88, 0xac]
  | .sh h _ => [0xa9, 0x14] ++ h ++ [0x87]
  | .pk s _ => UInt8.ofNat s.length :: s ++ [0xac]
  | .wpkh _ p => [0x00, 0x14] ++ p
  | .wsh _ p => [0x00, 0x20] ++ p
  | .tr _ p => [0x51, 0x20] ++ p
  | .p2a _ => [0x51, 0x02, 0x4e, 0x73]

def extractPubKeyHash (s : List UInt8) : Option (List UInt8) :=
  if s.length = 25 && s.take 3 = [0x76, 0xa9, 0x14] && s.drop 23 = [0x88, 0xac] then some ((s.drop 3).take 20) else none
def extractScriptHash (s : List UInt8) : Option (List UInt8) :=
  if s.length = 23 && s.take 2 = [0xa9, 0x14] && s.drop 22 = [0x87] then some ((s.drop 2).take 20) else none
def extractPubKey (s : List UInt8) : Option (List UInt8) :=
  if s.length = 35 && s.drop 34 = [0xac] && s.head? = some 0x21 && (s.drop 1).head? ∈ [some 2, some 3] then
    some ((s.drop 1).take 33)
  else if s.length = 67 && s.drop 66 = [0xac] && s.head? = some 0x41 && (s.drop 1).head? ∈ [some 4, some 6, some 7] then
    some ((s.drop 1).take 65)
  else none
def extractWitnessPubKeyHash (s : List UInt8) : Option (List UInt8) :=
  if s.length = 22 && s.take 2 = [0x00, 0x14] then some (s.drop 2) else none
def extractWitnessV0ScriptHash (s : List UInt8) : Option (List UInt8) :=
  if s.length = 34 && s.take 2 = [0x00, 0x20] then some (s.drop 2) else none
def extractWitnessV1KeyBytes (s : List UInt8) : Option (List UInt8) :=
  if s.length = 34 && s.take 2 = [0x51, 0x20] then some (s.drop 2) else none
def isPayToAnchor (s : List UInt8) : Bool := s = [0x51, 0x02, 0x4e, 0x73]

/-- one step of `ScriptTokenizer.Next` on the unparsed rest: (opcode, data, rest) or `none` when exhausted / malformed -/
def tokNext : List UInt8 → Option (UInt8 × List UInt8 × List UInt8)
  | [] => none
  | op :: rest =>
    if 1 ≤ op && op ≤ 75 then
      if rest.length < op.toNat then none else some (op, rest.take op.toNat, rest.drop op.toNat)
    else if op = 76 || op = 77 || op = 78 then
      let w := if op = 76 then 1 else if op = 77 then 2 else 4
      if rest.length < w then none else
      let n := (rest.take w).foldr (fun b acc => acc * 256 + b.toNat) 0
      let rest := rest.drop w
      if n ≥ 2 ^ 31 || n > rest.length then none else some (op, rest.take n, rest.drop n)
    else some (op, [], rest)

def isSmallInt (op : UInt8) : Bool := op = 0 || (0x51 ≤ op && op ≤ 0x60)
def asSmallInt (op : UInt8) : Nat := if op = 0 then 0 else op.toNat - 0x50

def isStrictPubKeyEncoding (k : List UInt8) : Bool :=
  (k.length = 33 && (k.head? = some 2 || k.head? = some 3)) ||
  (k.length = 65 && (k.head? = some 4 || k.head? = some 6 || k.head? = some 7))

/-- the key loop of `extractMultisigScriptDetails`: returns (numPubKeys, strict keys) when the script ends
`… <n> OP_CHECKMULTISIG` with `n` = number of non-small-int opcodes seen -/
def msLoop : Nat → List UInt8 → Nat → List (List UInt8) → Option (Nat × List (List UInt8))
  | 0, _, _, _ => none
  | fuel+1, r, n, keys =>
    match tokNext r with
    | none => none
    | some (op, data, r') =>
      if isSmallInt op then
        if r' = [] then none
        else if asSmallInt op ≠ n then none
        else if r'.length ≠ 1 then none
        else some (n, keys)
      else msLoop fuel r' (n + 1) (if isStrictPubKeyEncoding data then keys ++ [data] else keys)

/-- `extractMultisigScriptDetails(0, script, true)`: (requiredSigs, numPubKeys, pubKeys) -/
def extractMultisig (s : List UInt8) : Option (Nat × Nat × List (List UInt8)) :=
  if s.length < 3 || s.getLast? ≠ some 0xae then none else
  match tokNext s with
  | none => none
  | some (op, _, r) =>
    if !isSmallInt op then none else
    match msLoop (s.length + 1) r 0 [] with
    | none => none
    | some (n, keys) => some (asSmallInt op, n, keys)

def isNullData (s : List UInt8) : Bool :=
  match s with
  | [] => false
  | op :: rest =>
    if op ≠ 0x6a then false else
    if rest = [] then true else
    match tokNext rest with
    | some (op, data, []) => (isSmallInt op || op ≤ 0x4e) && data.length ≤ 80
    | _ => false

/-- `ExtractPkScriptAddrs`: class, addresses, required signatures -/
def extractPkScriptAddrs (validPK : List UInt8 → Bool) (s : List UInt8) (net : Net) : ScriptClass × List Addr × Nat :=
  let pkAddrs (k : List UInt8) : List Addr := if validPK k then [.pk (normPK k) net.pkh] else []
  match extractPubKeyHash s with
  | some h => (.pubKeyHash, [.pkh h net.pkh], 1)
  | none =>
  match extractScriptHash s with
  | some h => (.scriptHash, [.sh h net.sh], 1)
  | none =>
  match extractPubKey s with
  | some k => (.pubKey, pkAddrs k, 1)
  | none =>
  match extractMultisig s with
  | some (req, _, keys) => (.multiSig, keys.flatMap pkAddrs, req)
  | none =>
  if isNullData s then (.nullData, [], 0) else
  if isPayToAnchor s then (.payToAnchor, [.p2a (lowerStr net.hrp)], 0) else
  match extractWitnessPubKeyHash s with
  | some h => (.witnessV0PubKeyHash, [.wpkh (lowerStr net.hrp) h], 1)
  | none =>
  match extractWitnessV0ScriptHash s with
  | some h => (.witnessV0ScriptHash, [.wsh (lowerStr net.hrp) h], 1)
  | none =>
  match extractWitnessV1KeyBytes s with
  | some k => (.witnessV1Taproot, [.tr (lowerStr net.hrp) k], 1)
  | none => (.nonStandard, [], 0)

/-- `GetScriptClass` -/
def getScriptClass (s : List UInt8) : ScriptClass :=
  if (extractPubKey s).isSome then .pubKey
  else if (extractPubKeyHash s).isSome then .pubKeyHash
  else if (extractScriptHash s).isSome then .scriptHash
  else if (extractWitnessPubKeyHash s).isSome then .witnessV0PubKeyHash
  else if (extractWitnessV0ScriptHash s).isSome then .witnessV0ScriptHash
  else if (extractMultisig s).isSome then .multiSig
  else if isNullData s then .nullData
  else if isPayToAnchor s then .payToAnchor
  else if (extractWitnessV1KeyBytes s).isSome then .witnessV1Taproot
  else .nonStandard

end BV.C16
