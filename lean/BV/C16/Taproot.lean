/-
C16 model: taproot script trees (txscript/taproot.go). Core-only.
`HL ver script` = TapLeaf tagged hash, `HB l r` = TapBranch tagged hash of `l ‖ r` (already ordered).
-/
namespace BV.C16

inductive TapTree
  | leaf (idx : Nat) (ver : UInt8) (script : List UInt8)
  | branch (l r : TapTree)
deriving Repr

/-- `bytes.Compare(a, b) < 0` -/
def lexLt : List UInt8 → List UInt8 → Bool
  | [], [] => false
  | [], _ :: _ => true
  | _ :: _, [] => false
  | a :: as, b :: bs => if a < b then true else if b < a then false else lexLt as bs

/-- `tapBranchHash`: the smaller hash goes first -/
def branchHash (HB : List UInt8 → List UInt8 → List UInt8) (l r : List UInt8) : List UInt8 :=
  if lexLt r l then HB r l else HB l r

section
variable (HL : UInt8 → List UInt8 → List UInt8) (HB : List UInt8 → List UInt8 → List UInt8)

def TapTree.hash : TapTree → List UInt8
  | .leaf _ v s => HL v s
  | .branch l r => branchHash HB (l.hash) (r.hash)

structure LeafProof where
  idx : Nat
  ver : UInt8
  script : List UInt8
  /-- sibling hashes, from the leaf upwards -/
  path : List (List UInt8)
deriving Repr

/-- every leaf with its inclusion proof -/
def TapTree.proofs : TapTree → List LeafProof
  | .leaf i v s => [⟨i, v, s, []⟩]
  | .branch l r =>
    (l.proofs.map fun p => { p with path := p.path ++ [r.hash HL HB] }) ++
    (r.proofs.map fun p => { p with path := p.path ++ [l.hash HL HB] })

/-- `ControlBlock.RootHash` -/
def rootFromProof (p : LeafProof) : List UInt8 :=
  p.path.foldl (fun acc sib => branchHash HB acc sib) (HL p.ver p.script)
end

/-! shape built by `AssembleTaprootScriptTree` -/

/-- first pass: adjacent leaves are paired; an odd last leaf is merged into the last pair -/
def pairUp : List TapTree → List TapTree
  | [a, b, c] => [.branch (.branch a b) c]
  | a :: b :: rest => .branch a b :: pairUp rest
  | l => l

/-- second pass: a queue; the first two branches are merged and the result is appended -/
def mergeQueue : Nat → List TapTree → Option TapTree
  | _, [] => none
  | _, [t] => some t
  | 0, _ => none
  | f+1, a :: b :: rest => mergeQueue f (rest ++ [.branch a b])

def assembleTree (leaves : List TapTree) : Option TapTree :=
  match leaves with
  | [t] => some t
  | ls => mergeQueue ls.length (pairUp ls)

/-! output key and control blocks. The curve side is abstract: `outKey x root = (x-only output key, y is odd)` for
the x-only internal key `x` (ComputeTaprootOutputKey normalises the internal key to even Y first). -/

structure CtrlBlock where
  parityOdd : Bool
  leafVer : UInt8
  internalX : List UInt8
  path : List (List UInt8)
deriving Repr

def CtrlBlock.bytes (c : CtrlBlock) : List UInt8 :=
  (c.leafVer ||| (if c.parityOdd then 1 else 0)) :: c.internalX ++ c.path.flatten

section
variable (HL : UInt8 → List UInt8 → List UInt8) (HB : List UInt8 → List UInt8 → List UInt8)
  (outKey : List UInt8 → List UInt8 → List UInt8 × Bool)

/-- `TapscriptProof.ToControlBlock` -/
def controlBlock (internalX : List UInt8) (root : List UInt8) (p : LeafProof) : CtrlBlock :=
  ⟨(outKey internalX root).2, p.ver, internalX, p.path⟩

/-- `VerifyTaprootLeafCommitment(controlBlock, witnessProgram, script)` -/
def verifyLeaf (c : CtrlBlock) (witnessProgram : List UInt8) (script : List UInt8) : Bool :=
  let root := rootFromProof HL HB ⟨0, c.leafVer, script, c.path⟩
  let (x, odd) := outKey c.internalX root
  x == witnessProgram && odd == c.parityOdd
end

end BV.C16
