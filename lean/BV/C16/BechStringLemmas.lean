/- C16 lemmas: bech32 strings — encode/decode round trips, case rule. Core-only. -/
import BV.C16.Bech32Lemmas
import BV.C16.Base58Lemmas
namespace BV.C16.Lemmas
open BV.C16

/-- a statement about every byte follows from the 256 instances -/
theorem forall_uint8 (P : UInt8 → Prop) (h : ∀ n, n < 256 → P (UInt8.ofNat n)) (c : UInt8) : P c := by
  have := h c.toNat c.toNat_lt
  rwa [UInt8.ofNat_toNat] at this

theorem bech32Charset_length : bech32Charset.length = 32 := by decide
theorem bech32Charset_nodup : bech32Charset.Nodup := by decide

theorem charsetIdx_charsetChar (d : Nat) (h : d < 32) : charsetIdx (charsetChar d) = some d := by
  have hl : d < bech32Charset.length := by rw [bech32Charset_length]; exact h
  unfold charsetIdx charsetChar
  rw [getD_eq_getElem' _ _ _ hl, bech32Charset_nodup.idxOf_getElem d hl]
  simp [h]

theorem charsetChar_charsetIdx {c : UInt8} {d : Nat} (h : charsetIdx c = some d) : charsetChar d = c ∧ d < 32 := by
  unfold charsetIdx at h
  simp only [] at h
  split at h
  · rename_i hlt
    injection h with h
    have hl : bech32Charset.idxOf c < bech32Charset.length := by rw [bech32Charset_length]; exact hlt
    subst h
    refine ⟨?_, hlt⟩
    unfold charsetChar
    rw [getD_eq_getElem' _ _ _ hl]
    exact List.getElem_idxOf hl
  · cases h

/-- a clean lower-case character: printable, not upper-case -/
def cleanChar (c : UInt8) : Bool := 33 ≤ c && c ≤ 126 && !isUpper c

theorem charsetChar_clean : ∀ d, d < 32 → cleanChar (charsetChar d) = true ∧ charsetChar d ≠ 49 := by decide

theorem fromCharset_map : ∀ ds : List Nat, (∀ d ∈ ds, d < 32) → fromCharset (ds.map charsetChar) = some ds
  | [], _ => rfl
  | d :: ds, h => by
    simp only [List.map_cons, fromCharset]
    rw [charsetIdx_charsetChar d (h d List.mem_cons_self),
        fromCharset_map ds (fun x hx => h x (List.mem_cons_of_mem _ hx))]

theorem fromCharset_some : ∀ (s : List UInt8) (ds : List Nat), fromCharset s = some ds →
    ds.map charsetChar = s ∧ ∀ d ∈ ds, d < 32
  | [], ds, h => by simp [fromCharset] at h; subst h; simp
  | c :: cs, ds, h => by
    simp only [fromCharset] at h
    cases hc : charsetIdx c with
    | none => simp [hc] at h
    | some d =>
      cases hcs : fromCharset cs with
      | none => simp [hc, hcs] at h
      | some ds' =>
        simp [hc, hcs] at h
        subst h
        have ⟨h1, h2⟩ := fromCharset_some cs ds' hcs
        have ⟨h3, h4⟩ := charsetChar_charsetIdx hc
        refine ⟨by simp [h1, h3], ?_⟩
        intro x hx
        rcases List.mem_cons.mp hx with h | h
        · subst h; exact h4
        · exact h2 x h

/-! splitLastOne -/

theorem splitLastOne_none : ∀ d : List UInt8, (49 : UInt8) ∉ d → splitLastOne d = none
  | [], _ => rfl
  | c :: cs, h => by
    have h1 : c ≠ 49 := fun e => h (e ▸ List.mem_cons_self)
    have h2 : (49 : UInt8) ∉ cs := fun e => h (List.mem_cons_of_mem _ e)
    simp [splitLastOne, splitLastOne_none cs h2, h1]

theorem splitLastOne_append : ∀ (h d : List UInt8), (49 : UInt8) ∉ d → splitLastOne (h ++ 49 :: d) = some (h, d)
  | [], d, hd => by simp [splitLastOne, splitLastOne_none d hd]
  | c :: h, d, hd => by simp [splitLastOne, splitLastOne_append h d hd]

theorem splitLastOne_some : ∀ (s h d : List UInt8), splitLastOne s = some (h, d) → s = h ++ 49 :: d ∧ (49 : UInt8) ∉ d
  | [], _, _, e => by simp [splitLastOne] at e
  | c :: cs, h, d, e => by
    simp only [splitLastOne] at e
    cases hr : splitLastOne cs with
    | some p =>
      obtain ⟨h', d'⟩ := p
      simp [hr] at e
      obtain ⟨rfl, rfl⟩ := e
      have ⟨h1, h2⟩ := splitLastOne_some cs h' d' hr
      exact ⟨by rw [h1]; rfl, h2⟩
    | none =>
      simp [hr] at e
      obtain ⟨hc, rfl, rfl⟩ := e
      refine ⟨by simp [hc], ?_⟩
      intro hm
      -- if '1' ∈ cs then splitLastOne cs ≠ none
      have : ∀ l : List UInt8, (49 : UInt8) ∈ l → splitLastOne l ≠ none := by
        intro l
        induction l with
        | nil => intro h; cases h
        | cons x xs ih =>
          intro hx
          simp only [splitLastOne]
          cases hxs : splitLastOne xs with
          | some p => simp
          | none =>
            rcases List.mem_cons.mp hx with h | h
            · simp [← h]
            · exact absurd hxs (ih h)
      exact this _ hm hr

/-! case handling -/

theorem lowerByte_clean : ∀ c : UInt8, cleanChar c = true → lowerByte c = c := by
  intro c h
  unfold cleanChar at h
  unfold lowerByte
  cases hu : isUpper c with
  | true => simp [hu] at h
  | false => simp

theorem lowerStr_clean (s : List UInt8) (h : ∀ c ∈ s, cleanChar c = true) : lowerStr s = s := by
  unfold lowerStr
  induction s with
  | nil => rfl
  | cons c cs ih =>
    simp only [List.map_cons]
    rw [lowerByte_clean c (h c List.mem_cons_self), ih (fun x hx => h x (List.mem_cons_of_mem _ hx))]

theorem caseScan_clean : ∀ (s : List UInt8) (lo : Bool), (∀ c ∈ s, cleanChar c = true) → caseScan s lo false = none
  | [], _, _ => rfl
  | c :: cs, lo, h => by
    have hc := h c List.mem_cons_self
    unfold cleanChar at hc
    simp only [Bool.and_eq_true, Bool.not_eq_true', decide_eq_true_eq] at hc
    obtain ⟨⟨h1, h2⟩, h3⟩ := hc
    unfold caseScan
    have r1 : (c < 33 || c > 126) = false := by
      simp only [Bool.or_eq_false_iff, decide_eq_false_iff_not]
      exact ⟨UInt8.not_lt.mpr h1, UInt8.not_lt.mpr h2⟩
    simp only [r1, h3, Bool.or_false, Bool.and_false]
    exact caseScan_clean cs _ (fun x hx => h x (List.mem_cons_of_mem _ hx))

/-- a string that survives the scan has no character outside 33..126 and is not mixed-case -/
theorem caseScan_none : ∀ (s : List UInt8) (lo up : Bool), caseScan s lo up = none → (lo && up) = false →
    (∀ c ∈ s, 33 ≤ c ∧ c ≤ 126) ∧ ((lo || s.any isLower) && (up || s.any isUpper)) = false
  | [], lo, up, _, h0 => by
    constructor
    · intro c hc; cases hc
    · simpa using h0
  | c :: cs, lo, up, h, _ => by
    unfold caseScan at h
    split at h
    · cases h
    · rename_i hr
      split at h
      · cases h
      · rename_i hm
        have ih := caseScan_none cs _ _ h (by simpa using hm)
        simp only [Bool.or_eq_true, decide_eq_true_eq, not_or, UInt8.not_lt] at hr
        refine ⟨?_, ?_⟩
        · intro x hx
          rcases List.mem_cons.mp hx with e | e
          · subst e; exact hr
          · exact ih.1 x e
        · have := ih.2
          simp only [List.any_cons]
          rw [← Bool.or_assoc, ← Bool.or_assoc]; exact this

/-- **mixed case is rejected** -/
theorem bechDecode_mixed (s : List UInt8) (hl : s.any isLower = true) (hu : s.any isUpper = true) :
    ∃ e, bechDecode s = .error e := by
  unfold bechDecode
  split
  · exact ⟨_, rfl⟩
  · unfold bechDecodeNoLimit
    split
    · exact ⟨_, rfl⟩
    · cases hs : caseScan s false false with
      | some e => exact ⟨e, rfl⟩
      | none =>
        have := (caseScan_none s false false hs rfl).2
        simp [hl, hu] at this

/-- hypotheses on a human-readable part: non-empty, printable, no upper-case letters -/
def hrpOK (hrp : List UInt8) : Bool := !hrp.isEmpty && hrp.all cleanChar

theorem verify_of_polymod (hrp : List UInt8) (values cs : List Nat) (v : BechVer)
    (h : polymod hrp values cs = v.const) : verifyChecksum hrp values cs = some v := by
  unfold verifyChecksum
  simp only [h]
  cases v <;> simp [BechVer.const]

theorem polymod_of_verify (hrp : List UInt8) (values cs : List Nat) (v : BechVer)
    (h : verifyChecksum hrp values cs = some v) : polymod hrp values cs = v.const := by
  unfold verifyChecksum at h
  simp only [] at h
  split at h
  · rename_i h1; injection h with h; subst h; exact h1
  · split at h
    · rename_i h1; injection h with h; subst h; exact h1
    · cases h

theorem const_lt (v : BechVer) : v.const < 2 ^ 30 := by cases v <;> decide

theorem createChecksum_length (hrp : List UInt8) (data : List Nat) (k : Nat) :
    (createChecksum hrp data k).length = 6 := rfl

theorem bechDecode_of_parts (S hrp D : List UInt8) (vals cs : List Nat) (v : BechVer)
    (hL8 : 8 ≤ S.length) (hL90 : S.length ≤ 90) (hcl : ∀ c ∈ S, cleanChar c = true)
    (hsp : splitLastOne S = some (hrp, D)) (hh : 1 ≤ hrp.length)
    (hfc : fromCharset D = some (vals ++ cs)) (hcsl : cs.length = 6) (hD : D.length = vals.length + 6)
    (hver : verifyChecksum hrp vals cs = some v) : bechDecode S = .ok (hrp, vals, v) := by
  unfold bechDecode
  rw [if_neg (by omega)]
  unfold bechDecodeNoLimit
  rw [if_neg (by omega), caseScan_clean _ _ hcl]
  simp only [lowerStr_clean _ hcl, hsp]
  have hc : ¬ ((decide (hrp.length < 1) || decide (D.length < 6)) = true) := by
    simp only [Bool.or_eq_true, decide_eq_true_eq, not_or, Nat.not_lt]; omega
  rw [if_neg hc]
  simp only [hfc]
  have e1 : (vals ++ cs).length - 6 = vals.length := by rw [List.length_append, hcsl]; omega
  rw [e1, List.take_left' rfl, List.drop_left' rfl]
  simp only [hver]

/-- **bech32_decode_encode**: encoding succeeds for 5-bit data and a clean HRP within the length limit, and decoding
the result returns the HRP, the data and the checksum variant. -/
theorem bech_decode_encode (hrp : List UInt8) (data : List Nat) (v : BechVer)
    (hh : hrpOK hrp = true) (hd : ∀ d ∈ data, d < 32) (hlen : hrp.length + data.length + 7 ≤ 90) :
    ∃ s, bechEncode hrp data v = .ok s ∧ s.length = hrp.length + data.length + 7 ∧
      bechDecode s = .ok (hrp, data, v) := by
  unfold hrpOK at hh
  simp only [Bool.and_eq_true, Bool.not_eq_true', List.all_eq_true] at hh
  obtain ⟨hne, hclean⟩ := hh
  have hlow : lowerStr hrp = hrp := lowerStr_clean hrp hclean
  have hcs := checksumOf_lt (polymod hrp data [0, 0, 0, 0, 0, 0] ^^^ v.const)
  have hany : data.any (fun d => decide (d ≥ 32)) = false := by
    rw [List.any_eq_false]; intro x hx; have := hd x hx; simp; omega
  have hhl : hrp.length ≥ 1 := by
    cases hrp with
    | nil => simp at hne
    | cons _ _ => simp
  unfold bechEncode
  simp only [hlow, hany]
  generalize hcsdef : createChecksum hrp data v.const = cs
  have hcsl : cs.length = 6 := by rw [← hcsdef]; rfl
  have hcslt : ∀ x ∈ cs, x < 32 := by rw [← hcsdef]; exact hcs
  have hs : hrp ++ [49] ++ data.map charsetChar ++ cs.map charsetChar =
      hrp ++ 49 :: ((data ++ cs).map charsetChar) := by simp
  have hall : ∀ x ∈ data ++ cs, x < 32 := by
    intro x hx; rcases List.mem_append.mp hx with h | h
    · exact hd x h
    · exact hcslt x h
  have hdc : ∀ c ∈ (data ++ cs).map charsetChar, cleanChar c = true ∧ c ≠ 49 := by
    intro c hc
    obtain ⟨d, hd', rfl⟩ := List.mem_map.mp hc
    exact charsetChar_clean d (hall d hd')
  have hno1 : (49 : UInt8) ∉ (data ++ cs).map charsetChar := fun h => (hdc _ h).2 rfl
  have hDl : ((data ++ cs).map charsetChar).length = data.length + 6 := by simp [hcsl]
  have hfc := fromCharset_map _ hall
  have hver := verify_of_polymod hrp data cs v
    (by rw [← hcsdef]; exact polymod_createChecksum hrp data hd _ (const_lt v))
  generalize (data ++ cs).map charsetChar = D at *
  have hcl : ∀ c ∈ hrp ++ 49 :: D, cleanChar c = true := by
    intro c hc
    rcases List.mem_append.mp hc with h | h
    · exact hclean c h
    · rcases List.mem_cons.mp h with h | h
      · subst h; decide
      · exact (hdc c h).1
  have hL : (hrp ++ 49 :: D).length = hrp.length + data.length + 7 := by
    rw [List.length_append, List.length_cons, hDl]; omega
  refine ⟨_, rfl, ?_, ?_⟩
  · rw [hs]; exact hL
  · rw [hs]
    exact bechDecode_of_parts _ hrp D data cs v (by omega) (by omega) hcl
      (splitLastOne_append _ _ hno1) hhl hfc hcsl hDl hver

set_option maxRecDepth 20000 in
theorem lowerByte_idem : ∀ c : UInt8, lowerByte (lowerByte c) = lowerByte c := by
  apply forall_uint8; decide

set_option maxRecDepth 20000 in
theorem lowerByte_cleans : ∀ c : UInt8, 33 ≤ c → c ≤ 126 → cleanChar (lowerByte c) = true := by
  apply forall_uint8; decide

/-- **bech32_encode_decode**: re-encoding what was decoded gives back the string in lower case. -/
theorem bech_encode_decode (s hrp : List UInt8) (data : List Nat) (v : BechVer)
    (h : bechDecode s = .ok (hrp, data, v)) :
    bechEncode hrp data v = .ok (lowerStr s) ∧ (∀ d ∈ data, d < 32) ∧ s.length = hrp.length + data.length + 7 ∧
      s.length ≤ 90 ∧ hrpOK hrp = true := by
  unfold bechDecode at h
  split at h
  · cases h
  · rename_i hle
    unfold bechDecodeNoLimit at h
    split at h
    · cases h
    · cases hs : caseScan s false false with
      | some e => simp [hs] at h
      | none =>
        simp only [hs] at h
        cases hsp : splitLastOne (lowerStr s) with
        | none => simp [hsp] at h
        | some p =>
          obtain ⟨hrp', d⟩ := p
          simp only [hsp] at h
          split at h
          · cases h
          · rename_i hlens
            cases hfc : fromCharset d with
            | none => simp [hfc] at h
            | some decoded =>
              simp only [hfc] at h
              cases hv : verifyChecksum hrp' (decoded.take (decoded.length - 6)) (decoded.drop (decoded.length - 6)) with
              | none => simp [hv] at h
              | some v' =>
                simp only [hv] at h
                injection h with h
                injection h with h1 h2
                injection h2 with h2 h3
                subst h1 h2 h3
                have ⟨hsplit, _⟩ := splitLastOne_some _ _ _ hsp
                have ⟨hdmap, hdlt⟩ := fromCharset_some d decoded hfc
                have hdl : decoded.length = d.length := by rw [← hdmap]; simp
                simp only [Bool.or_eq_true, decide_eq_true_eq, not_or, Nat.not_lt] at hlens
                have hcsl : (decoded.drop (decoded.length - 6)).length = 6 := by
                  rw [List.length_drop]; omega
                have hvals : ∀ x ∈ decoded.take (decoded.length - 6), x < 32 :=
                  fun x hx => hdlt x (List.mem_of_mem_take hx)
                have hcslt : ∀ x ∈ decoded.drop (decoded.length - 6), x < 32 :=
                  fun x hx => hdlt x (List.mem_of_mem_drop hx)
                have huniq := checksum_unique hrp' _ _ hvals hcsl hcslt _ (polymod_of_verify _ _ _ _ hv)
                have hlowh : lowerStr hrp' = hrp' := by
                  have : lowerStr (lowerStr s) = lowerStr s := by
                    unfold lowerStr; rw [List.map_map]
                    apply List.map_congr_left; intro c _; exact lowerByte_idem c
                  rw [hsplit] at this
                  unfold lowerStr at this ⊢
                  rw [List.map_append] at this
                  exact List.append_inj_left this (by simp)
                have hany : (decoded.take (decoded.length - 6)).any (fun d => decide (d ≥ 32)) = false := by
                  rw [List.any_eq_false]; intro x hx; have := hvals x hx; simp; omega
                have hslen : s.length = (lowerStr s).length := by simp [lowerStr]
                have hrange := (caseScan_none s false false hs rfl).1
                have hclean : ∀ c ∈ lowerStr s, cleanChar c = true := by
                  intro c hc
                  unfold lowerStr at hc
                  obtain ⟨x, hx, rfl⟩ := List.mem_map.mp hc
                  exact lowerByte_cleans x (hrange x hx).1 (hrange x hx).2
                have hok : hrpOK hrp' = true := by
                  unfold hrpOK
                  simp only [Bool.and_eq_true, Bool.not_eq_true', List.all_eq_true]
                  constructor
                  · cases hrp' with
                    | nil => simp at hlens
                    | cons _ _ => rfl
                  · intro c hc; exact hclean c (by rw [hsplit]; exact List.mem_append_left _ hc)
                refine ⟨?_, hvals, ?_, by omega, hok⟩
                · unfold bechEncode
                  simp only [hlowh, hany]
                  rw [← huniq, hsplit]
                  congr 1
                  rw [List.append_assoc, List.append_assoc, ← List.map_append, List.take_append_drop, hdmap]
                  simp
                · rw [hslen, hsplit, List.length_append, List.length_cons, List.length_take, ← hdl]; omega

end BV.C16.Lemmas
