/-
C16 model, secondary entry points: script predicates and builders (txscript/script.go, standard.go, pkscript.go),
`DeriveNonStandard`, `ParseControlBlock`. Core-only.
-/
import BV.C16.Address
import BV.C16.Keys
import BV.C16.Taproot
namespace BV.C16

/-- every opcode with its data, `none` when a push is malformed (`checkScriptParses`) -/
def tokAll : Nat → List UInt8 → Option (List (UInt8 × List UInt8))
  | _, [] => some []
  | 0, _ => none
  | f+1, s => match tokNext s with
    | none => none
    | some (op, d, r) => (tokAll f r).map ((op, d) :: ·)

def parseScript (s : List UInt8) : Option (List (UInt8 × List UInt8)) := tokAll (s.length + 1) s

/-- `IsPushOnlyScript` -/
def isPushOnly : Nat → List UInt8 → Bool
  | _, [] => true
  | 0, _ => false
  | f+1, s => match tokNext s with
    | none => false
    | some (op, _, r) => if op > 0x60 then false else isPushOnly f r

/-- `finalOpcodeData` (`none` = nil: empty script or parse error) -/
def finalOpcodeData (s : List UInt8) : Option (List UInt8) :=
  match parseScript s with
  | none => none
  | some toks => toks.getLast?.map (·.2)

/-- `ExtractWitnessProgramInfo`: within 4..42 bytes only a direct push of 2..40 bytes can follow the version -/
def witnessProgramInfo (s : List UInt8) : Option (Nat × List UInt8) :=
  if s.length < 4 || s.length > 42 then none else
  match s with
  | v :: n :: p =>
    if isSmallInt v && 1 ≤ n && n ≤ 75 && p.length = n.toNat && !(p.length = 1 && p.head?.getD 0 ≤ 16) then
      some (asSmallInt v, p) else none
  | _ => none

/-- `ScriptBuilder.AddData` for data up to 65535 bytes: the canonical push -/
def canonicalPush (d : List UInt8) : List UInt8 :=
  match d with
  | [] => [0x00]
  | [b] => if b = 0 then [0x00] else if 1 ≤ b && b ≤ 16 then [0x50 + b] else if b = 0x81 then [0x4f] else [1, b]
  | _ =>
    if d.length ≤ 75 then UInt8.ofNat d.length :: d
    else if d.length ≤ 255 then 0x4c :: UInt8.ofNat d.length :: d
    else 0x4d :: UInt8.ofNat (d.length % 256) :: UInt8.ofNat (d.length / 256) :: d

/-- `NullDataScript` -/
def nullDataScript (d : List UInt8) : Option (List UInt8) :=
  if d.length > 80 then none else some (0x6a :: canonicalPush d)

/-- `ScriptBuilder.AddInt64` for 0 ≤ n < 128 -/
def pushSmallNum (n : Nat) : List UInt8 :=
  if n = 0 then [0x00] else if n ≤ 16 then [UInt8.ofNat (0x50 + n)] else [1, UInt8.ofNat n]

/-- `MultiSigScript` over serialized keys -/
def multiSigScript (keys : List (List UInt8)) (nreq : Nat) : Option (List UInt8) :=
  if keys.length < nreq then none else
  some (pushSmallNum nreq ++ (keys.flatMap canonicalPush) ++ pushSmallNum keys.length ++ [0xae])

/-- `ComputePkScript` (class, script); `h160`, `sha` = hash160 / SHA-256 -/
def computePkScript (h160 sha : List UInt8 → List UInt8) (sigScript : List UInt8) (witness : List (List UInt8)) :
    Option (ScriptClass × List UInt8) :=
  if sigScript.length > 0 then
    if !isPushOnly (sigScript.length + 1) sigScript then none else
    let pk := sigScript.drop (sigScript.length - 33)
    if 44 ≤ sigScript.length && sigScript.length ≤ 108 && pk.length = 33 && (pk.head? = some 2 || pk.head? = some 3) then
      some (.pubKeyHash, [0x76, 0xa9, 0x14] ++ h160 pk ++ [0x88, 0xac])
    else
      match parseScript sigScript with
      | none => none
      | some _ => some (.scriptHash, [0xa9, 0x14] ++ h160 ((finalOpcodeData sigScript).getD []) ++ [0x87])
  else match witness.getLast? with
    | none => none
    | some last =>
      if witness.length = 2 && last.length = 33 then some (.witnessV0PubKeyHash, [0x00, 0x14] ++ h160 last)
      else some (.witnessV0ScriptHash, [0x00, 0x20] ++ sha last)

/-- `DeriveNonStandard`: the pre-fix variant kept for wallets affected by issue 172 (hardened data is `0 ‖ key`
without re-padding; IL = 0 rejected) -/
def deriveNonStd {Pt} (C : Curve Pt) (hmac : List UInt8 → List UInt8 → List UInt8) (h160 : List UInt8 → List UInt8)
    (k : XKey) (i : Nat) : Except DeriveErr XKey :=
  if k.depth = 255 then .error .maxDepth else
  let hardened := i ≥ 2 ^ 31
  if !k.isPrivate && hardened then .error .hardFromPub else
  let pkb := pubKeyBytes C k
  let data := (if hardened then (0 :: k.key ++ List.replicate (32 - k.key.length) 0).take 33 else pkb) ++ be32 i
  let ilr := hmac k.chainCode data
  let il := ilr.take 32
  let cc := ilr.drop 32
  let ilNum := beNat il
  if ilNum ≥ C.n || ilNum = 0 then .error .invalidChild else
  let fp := (h160 pkb).take 4
  if k.isPrivate then
    .ok ⟨k.version, k.depth + 1, fp, i, cc, stripZeros (nat32 ((ilNum + beNat k.key) % C.n)), true⟩
  else
    let p := C.baseMul ilNum
    if C.isInf p then .error .invalidChild else
    match C.parse k.key with
    | none => .error .badPub
    | some q => .ok ⟨k.version, k.depth + 1, fp, i, cc, C.ser (C.add p q), false⟩

/-- the inclusion proof cut into 32-byte nodes -/
def chunk32 : Nat → List UInt8 → List (List UInt8)
  | 0, _ => []
  | f+1, l => if l = [] then [] else l.take 32 :: chunk32 f (l.drop 32)

inductive CbErr | tooSmall | tooLarge | badLength | pubkey
deriving DecidableEq, Repr

/-- `ParseControlBlock`; `validX` = `schnorr.ParsePubKey` succeeds on the 32-byte key -/
def parseControlBlock (validX : List UInt8 → Bool) (b : List UInt8) : Except CbErr CtrlBlock :=
  if b.length < 33 then .error .tooSmall
  else if b.length > 33 + 32 * 128 then .error .tooLarge
  else if (b.length - 33) % 32 ≠ 0 then .error .badLength
  else match b with
    | [] => .error .tooSmall
    | h :: rest =>
      let key := rest.take 32
      if !validX key then .error .pubkey else
      let proof := rest.drop 32
      .ok ⟨h &&& 1 = 1, h &&& 0xfe, key, chunk32 (proof.length / 32) proof⟩

end BV.C16
