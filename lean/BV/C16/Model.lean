/- C16 executable model (umbrella). Core-only: each part mirrors one btcd file. -/
import BV.C16.Base58
