/- C16 executable model (umbrella). Core-only: each part mirrors one btcd file. -/
import BV.C16.Spec
import BV.C16.Base58
import BV.C16.Bech32
import BV.C16.Address
import BV.C16.Keys
import BV.C16.Taproot
import BV.C16.Base58Algo
import BV.C16.Extra
