/- C16 line-protocol driver (core-only). Strings travel as hex of their bytes. -/
import BV.Common.Hex
import BV.Common.Sha256
import BV.C16.Model
namespace BV.C16.Driver
open BV.Hex BV.C16

/-- btcd's Base58Check checksum: first four bytes of double SHA-256 -/
def cksum4 (b : List UInt8) : List UInt8 := (BV.Sha256.hash2List b).take 4

def tok (b : List UInt8) : String := listToHexTok b

def handle : List String → String
  | ["b58e", b] => match hexToList? b with
    | some b => tok (b58Encode b)
    | none => "bad-op"
  | ["b58d", s] => match hexToList? s with
    | some s => tok (b58Decode s)
    | none => "bad-op"
  | ["chke", v, p] => match hexToList? v, hexToList? p with
    | some [v], some p => tok (checkEncode cksum4 p v)
    | _, _ => "bad-op"
  | ["chkd", s] => match hexToList? s with
    | some s => match checkDecode cksum4 s with
      | .ok (p, v) => "ok " ++ tok [v] ++ " " ++ tok p
      | .error .format => "err:format"
      | .error .checksum => "err:checksum"
    | none => "bad-op"
  | _ => "bad-op"

end BV.C16.Driver
