/- C16 line-protocol driver (core-only). Strings travel as hex of their bytes. -/
import BV.Common.Hex
import BV.Common.Sha256
import BV.Common.Hash160
import BV.Common.Sha512
import BV.C16.Secp
import BV.C16.Model
namespace BV.C16.Driver
open BV.Hex BV.C16

/-- btcd's Base58Check checksum: first four bytes of double SHA-256 -/
def cksum4 (b : List UInt8) : List UInt8 := (BV.Sha256.hash2List b).take 4

def validPK (ser : List UInt8) : Bool := (Secp.parsePubKey ser).isSome

def tok (b : List UInt8) : String := listToHexTok b

/-- ASCII bytes as text ("-" when empty) -/
def ascii (b : List UInt8) : String :=
  if b.isEmpty then "-" else String.ofList (b.map (fun c => Char.ofNat c.toNat))

def natsTok (l : List Nat) : String := tok (l.map UInt8.ofNat)

def parseNats? (s : String) : Option (List Nat) := (hexToList? s).map (·.map UInt8.toNat)

def netOf? (s : String) : Option Net := Spec.nets.find? (·.name == s)

def bechErrName : BechErr → String
  | .length => "length" | .char => "char" | .mixed => "mixed" | .sep => "sep" | .noncharset => "noncharset"
  | .checksum => "checksum" | .databyte => "databyte" | .bitgroups => "bitgroups" | .incomplete => "incomplete"

def addrErrName : AddrErr → String
  | .witVer => "witver" | .witProgLen => "proglen" | .checksum => "checksum"
  | .unknownType => "unknowntype" | .collision => "collision" | _ => "other"

def kindName : Addr → String
  | .pkh .. => "pkh" | .sh .. => "sh" | .pk .. => "pk" | .wpkh .. => "wpkh" | .wsh .. => "wsh"
  | .tr .. => "tr" | .p2a .. => "p2a"

/-- `EncodeAddress` (for `pk`: the P2PKH address of the serialized key) -/
def encodeAddress (a : Addr) : List UInt8 :=
  match a with
  | .pk s id => checkEncode cksum4 (BV.Hash160.hash160List s) id
  | a => a.string cksum4

def forNets (a : Addr) : String :=
  String.ofList (Spec.nets.map (fun n => if a.isForNet n then '1' else '0'))

def showAddr (a : Addr) : String :=
  kindName a ++ " " ++ ascii (a.string cksum4) ++ " " ++ ascii (encodeAddress a) ++ " " ++
    tok (payToAddrScript a) ++ " " ++ forNets a

def showDec (s : List UInt8) (net : Net) : String :=
  match decodeAddress Spec.registeredHrps cksum4 validPK s net with
  | .ok a => "ok " ++ showAddr a
  | .error e => "err:" ++ addrErrName e

def showXtr (s : List UInt8) (net : Net) : String :=
  let (c, addrs, n) := extractPkScriptAddrs validPK s net
  let as := if addrs.isEmpty then "-" else ",".intercalate (addrs.map (fun a => ascii (a.string cksum4)))
  c.name ++ " " ++ (getScriptClass s).name ++ " " ++ toString n ++ " " ++ as

/-- the `NewAddress…` constructors -/
def mkAddr (kind : String) (net : Net) (p : List UInt8) : Option Addr :=
  match kind with
  | "pkh" => if p.length = 20 then some (.pkh p net.pkh) else none
  | "sh" => if p.length = 20 then some (.sh p net.sh) else none
  | "pk" => if validPK p then some (.pk (normPK p) net.pkh) else none
  | "wpkh" => if p.length = 20 then some (.wpkh (lowerStr net.hrp) p) else none
  | "wsh" => if p.length = 32 then some (.wsh (lowerStr net.hrp) p) else none
  | "tr" => if p.length = 32 then some (.tr (lowerStr net.hrp) p) else none
  | "p2a" => some (.p2a (lowerStr net.hrp))
  | _ => none

/-! keys -/

def secpCurve : Curve Secp.Pt where
  n := Secp.n
  baseMul := Secp.mulG
  add := Secp.add
  isInf := fun p => p.isNone
  ser := fun p => match p with
    | some xy => Secp.serCompressed xy
    | none => 2 :: List.replicate 32 0
  parse := fun b => (Secp.parsePubKey b).map some

def hmac512 (key data : List UInt8) : List UInt8 := BV.Sha512.hmacList key data
def h160 (b : List UInt8) : List UInt8 := BV.Hash160.hash160List b

/-- `chaincfg.HDPrivateKeyToPublicKeyID` over the registered networks -/
def pubVer (v : List UInt8) : Option (List UInt8) :=
  (Spec.registered.find? (fun n => n.hdPriv == v)).map (·.hdPub)

def showXKey (k : XKey) : String :=
  ascii (xkeyString cksum4 k) ++ " " ++ (if k.isPrivate then "1" else "0") ++ " " ++ toString k.depth.toNat ++ " " ++
    toString k.childNum ++ " " ++
    String.ofList (Spec.nets.map (fun n => if k.version == n.hdPriv || k.version == n.hdPub then '1' else '0'))

def xs (k : XKey) : String := ascii (xkeyString cksum4 k)

/-- one step of the `drv` walk: private child, its neutered form, and the public-side child of the neutered parent -/
def drvWalk : List Nat → XKey → Option XKey → List String → List String
  | [], _, _, acc => acc.reverse
  | i :: is, k, pubSide, acc =>
    match derive secpCurve hmac512 h160 k i with
    | .error _ => ("err" :: acc).reverse
    | .ok c =>
      let nc := match neuter secpCurve pubVer c with | some x => xs x | none => "err"
      let (ps, pstr) := match pubSide with
        | none => (none, "-")
        | some pk => match derive secpCurve hmac512 h160 pk i with
          | .ok pc => (some pc, xs pc)
          | .error .hardFromPub => (neuter secpCurve pubVer c, "err:hard")
          | .error _ => (none, "err")
      drvWalk is c ps ((xs c ++ "|" ++ nc ++ "|" ++ pstr) :: acc)

def parsePath? (s : String) : Option (List Nat) :=
  if s == "-" then some [] else (s.splitOn ",").mapM (·.toNat?)

/-! taproot -/

def taggedL (tag : String) (msg : List UInt8) : List UInt8 :=
  (BV.Sha256.tagged tag (ByteArray.mk msg.toArray)).toList

def compactSize (n : Nat) : List UInt8 :=
  if n < 0xfd then [UInt8.ofNat n]
  else if n ≤ 0xffff then 0xfd :: natLE n 2
  else if n ≤ 0xffffffff then 0xfe :: natLE n 4
  else 0xff :: natLE n 8

def tapLeafHash (v : UInt8) (s : List UInt8) : List UInt8 := taggedL "TapLeaf" (v :: compactSize s.length ++ s)
def tapBranchTag (l r : List UInt8) : List UInt8 := taggedL "TapBranch" (l ++ r)

/-- `ComputeTaprootOutputKey` on the x-only internal key -/
def tapOutKey (x root : List UInt8) : List UInt8 × Bool :=
  match Secp.liftX (Secp.beNat x) false with
  | none => ([], false)
  | some p =>
    let t := Secp.beNat (taggedL "TapTweak" (x ++ root)) % Secp.n
    match Secp.add (some p) (Secp.mulG t) with
    | some q => (Secp.xOnly q, q.2 % 2 == 1)
    | none => (List.replicate 32 0, false)

def parseLeaf? (i : Nat) (s : String) : Option TapTree :=
  match s.splitOn ":" with
  | [v, sc] => match hexToList? v, hexToList? sc with
    | some [v], some sc => some (.leaf i v sc)
    | _, _ => none
  | _ => none

def parseLeaves? (s : String) : Option (List TapTree) :=
  let parts := s.splitOn ","
  (List.range parts.length).zip parts |>.mapM (fun (i, p) => parseLeaf? i p)

def showTap (internal : List UInt8) (leaves : List TapTree) : String :=
  match Secp.parsePubKey internal, assembleTree leaves with
  | some pk, some t =>
    let x := Secp.xOnly pk
    let root := t.hash tapLeafHash tapBranchTag
    let (prog, _) := tapOutKey x root
    let proofs := t.proofs tapLeafHash tapBranchTag
    let one (i : Nat) : String :=
      match proofs.find? (·.idx == i) with
      | none => "missing"
      | some p =>
        let cb := controlBlock tapOutKey x root p
        (if verifyLeaf tapLeafHash tapBranchTag tapOutKey cb prog p.script then "ok" else "fail")
    toString prog.length ++ " | " ++ ",".intercalate ((List.range leaves.length).map one)
  | _, _ => "err"

/-! hardening-round ops: secondary entry points, values-are-values, configuration change -/

def boolBit (b : Bool) : String := if b then "1" else "0"

/-- accessor values of an address (`encv`) -/
def addrExtras (a : Addr) : String :=
  match a with
  | .pkh h _ => "h160=" ++ tok h
  | .sh h _ => "h160=" ++ tok h
  | .wpkh hrp p => "hrp=" ++ ascii hrp ++ " wv=0 wp=" ++ tok p ++ " h160=" ++ tok p
  | .wsh hrp p => "hrp=" ++ ascii hrp ++ " wv=0 wp=" ++ tok p
  | .tr hrp p => "hrp=" ++ ascii hrp ++ " wv=1 wp=" ++ tok p
  | .p2a _ => "-"
  | .pk s id =>
    match Secp.parsePubKey s with
    | none => "badkey"
    | some q =>
      let c := Secp.serCompressed q
      let u := Secp.serUncompressed q
      "fmt=" ++ (if s.length = 33 then "1" else "0") ++ " pkh=" ++ ascii (checkEncode cksum4 (h160 s) id) ++
        " c=" ++ tok c ++ " u=" ++ tok u

def scriptFlags (s : List UInt8) : String :=
  String.join [boolBit (extractPubKey s).isSome, boolBit (extractPubKeyHash s).isSome,
    boolBit (extractScriptHash s).isSome, boolBit (extractWitnessPubKeyHash s).isSome,
    boolBit (extractWitnessV0ScriptHash s).isSome, boolBit (extractWitnessV1KeyBytes s).isSome,
    boolBit (isPayToAnchor s), boolBit (witnessProgramInfo s).isSome, boolBit (extractMultisig s).isSome,
    boolBit (isNullData s), boolBit (isPushOnly (s.length + 1) s)]

def showXtrV (s : List UInt8) (net : Net) : String :=
  showXtr s net ++ " same flags=" ++ scriptFlags s ++ " wpi=" ++
    (match witnessProgramInfo s with | some (v, p) => toString v ++ ":" ++ tok p | none => "-") ++ " ms=" ++
    (match extractMultisig s with | some (r, n, _) => toString n ++ ":" ++ toString r | none => "-") ++ " rc=ok pd=" ++
    (match parseScript s with
     | none => "err"
     | some toks =>
       -- `PushedData`: OP_0, direct pushes and OP_PUSHDATA1/2/4 (even empty)
       let ds := toks.filterMap (fun (op, d) => if op ≤ 0x4e then some (tok d) else none)
       if ds.isEmpty then "none" else ":".intercalate ds)

def showBech (r : Except BechErr (List UInt8 × List Nat × BechVer)) (withVer : Bool) : String :=
  match r with
  | .ok (hrp, d, v) => "ok:" ++ tok hrp ++ ":" ++ natsTok d ++ (if withVer then ":" ++ (match v with | .v0 => "0" | .vM => "m") else "")
  | .error e => "err:" ++ bechErrName e

def obsXKey (k : Option XKey) : String :=
  match k with
  | none => "zeroed"
  | some k =>
    let pkb := pubKeyBytes secpCurve k
    "/".intercalate [xs k, toString k.depth.toNat, toString k.childNum, toString (beNat k.parentFP), tok k.chainCode,
      tok k.version, boolBit k.isPrivate,
      ascii (checkEncode cksum4 (h160 pkb) Spec.mainNet.pkh), tok pkb,
      (if k.isPrivate then tok (padLeft 32 k.key) else "-")]

def deriveErrName : DeriveErr → String
  | .maxDepth => "maxdepth" | .hardFromPub => "hardfrompub" | .invalidChild => "invalid" | .badPub => "other"

/-- the `xk` walk: keys are values; `cur` is the index of the current key -/
def xkWalk : List String → List (Option XKey) → Nat → List String → String
  | [], _, _, acc => " ".intercalate acc.reverse ++ " same"
  | op :: ops, keys, cur, acc =>
    let k? := (keys.getD cur none)
    let arg := (op.drop 1).toString
    match k? with
    | none => " ".intercalate (("usezeroed") :: acc).reverse
    | some k =>
      let push (r : Except DeriveErr XKey) : String :=
        match r with
        | .ok c => xkWalk ops (keys ++ [some c]) keys.length (obsXKey (some c) :: acc)
        | .error e => xkWalk ops keys cur (("err:" ++ deriveErrName e) :: acc)
      if op.startsWith "D" then
        match arg.toNat? with
        | some i => push (derive secpCurve hmac512 h160 k i)
        | none => "bad-op"
      else if op.startsWith "N" then
        match arg.toNat? with
        | some i => push (deriveNonStd secpCurve hmac512 h160 k i)
        | none => "bad-op"
      else if op.startsWith "U" then
        match neuter secpCurve pubVer k with
        | some c =>
          -- Neuter of a public key returns the same object: no new key
          if k.isPrivate then xkWalk ops (keys ++ [some c]) keys.length (obsXKey (some c) :: acc)
          else xkWalk ops keys cur (obsXKey (some c) :: acc)
        | none => xkWalk ops keys cur ("err:neuter" :: acc)
      else if op.startsWith "C" then
        match hexToList? arg with
        | some v =>
          if v.length ≠ 4 then xkWalk ops keys cur ("err:clone" :: acc)
          else
            let c : XKey := { k with version := v }
            xkWalk ops (keys ++ [some c]) keys.length (obsXKey (some c) :: acc)
        | none => "bad-op"
      else if op.startsWith "S" then
        match netOf? arg with
        | some n =>
          let c : XKey := { k with version := if k.isPrivate then n.hdPriv else n.hdPub }
          xkWalk ops (keys.set cur (some c)) cur (obsXKey (some c) :: acc)
        | none => "bad-op"
      else if op.startsWith "Z" then
        match arg.toNat? with
        | some j => xkWalk ops (keys.set j none) cur (("zero" ++ toString j) :: acc)
        | none => "bad-op"
      else if op.startsWith "R" then
        -- serialization round trip of the current key: String() then NewKeyFromString
        match xkeyParse cksum4 validPK (xkeyString cksum4 k) with
        | .ok c => xkWalk ops (keys ++ [some c]) keys.length (obsXKey (some c) :: acc)
        | .error _ => xkWalk ops keys cur ("err" :: acc)
      else if op.startsWith "K" then
        match arg.toNat? with
        | some j => xkWalk ops keys j (("use" ++ toString j) :: acc)
        | none => "bad-op"
      else "bad-op"

def validX (x : List UInt8) : Bool := x.length = 32 && (Secp.liftX (Secp.beNat x) false).isSome

def cbErrName : CbErr → String
  | .tooSmall => "toosmall" | .tooLarge => "toolarge" | .badLength => "badlength" | .pubkey => "pubkey"

def showTap2 (priv : List UInt8) (leaves : List TapTree) : String :=
  let d := Secp.beNat priv
  match Secp.mulG d with
  | none => "err"
  | some pk =>
    let internal := Secp.serCompressed pk
    let base := showTap internal leaves
    match assembleTree leaves with
    | none => "err"
    | some t =>
      let x := Secp.xOnly pk
      let root := t.hash tapLeafHash tapBranchTag
      let (prog, _) := tapOutKey x root
      let noscript := (tapOutKey x []).1
      let d' := if pk.2 % 2 == 1 then Secp.n - d else d
      let tw := Secp.beNat (taggedL "TapTweak" (x ++ root)) % Secp.n
      let tweaked := (d' + tw) % Secp.n
      let key (t : TapTree) : (UInt8 × List UInt8) := match t with | .leaf _ v s => (v, s) | _ => (0, [])
      let ks := leaves.map key
      let idx := ks.map (fun k => (List.range ks.length).foldl (fun acc i => if ks.getD i (0, []) == k then i else acc) 0)
      -- tweaked key = d' + t (BIP-341); its public key is the output key: the harness checks that equality
      base ++ " | noscript=" ++ tok noscript ++ " p2tr=1 tweak=" ++
        (if (Secp.mulG tweaked).map Secp.xOnly == some prog then "1" else "0") ++ " idx=" ++
        ",".intercalate (idx.map (fun _ => "1")) ++ " again=same"

def parseItems? (s : String) : Option (List (List UInt8)) :=
  if s == "-" then some [] else (s.splitOn ":").mapM hexToList?

def sha256L (b : List UInt8) : List UInt8 := BV.Sha256.hashList b

def handle1 : List String → String
  | ["b58e", b] => match hexToList? b with
    | some b => if b58EncodeAlgo b = b58Encode b then tok (b58Encode b) else "model-mismatch"
    | none => "bad-op"
  | ["b58d", s] => match hexToList? s with
    | some s => if b58DecodeAlgo s = b58Decode s then tok (b58Decode s) else "model-mismatch"
    | none => "bad-op"
  | ["chke", v, p] => match hexToList? v, hexToList? p with
    | some [v], some p => tok (checkEncode cksum4 p v)
    | _, _ => "bad-op"
  | ["chkd", s] => match hexToList? s with
    | some s => match checkDecode cksum4 s with
      | .ok (p, v) => "ok " ++ tok [v] ++ " " ++ tok p
      | .error .format => "err:format"
      | .error .checksum => "err:checksum"
    | none => "bad-op"
  | ["cb", f, t, pad, d] => match f.toNat?, t.toNat?, parseNats? d with
    | some f, some t, some d =>
      let sh (r : Except BechErr (List Nat)) : String := match r with
        | .ok r => "ok " ++ natsTok r
        | .error e => "err:" ++ bechErrName e
      let a := sh (convertBits d f t (pad == "1"))
      if sh (convertBitsAlgo d f t (pad == "1")) == a then a else "model-mismatch"
    | _, _, _ => "bad-op"
  | ["benc", ver, hrp, d] => match hexToList? hrp, parseNats? d with
    | some hrp, some d => match bechEncode hrp d (if ver == "m" then .vM else .v0) with
      | .ok s => "ok " ++ tok s
      | .error e => "err:" ++ bechErrName e
    | _, _ => "bad-op"
  | ["bdec", s] => match hexToList? s with
    | some s => match bechDecode s with
      | .ok (hrp, d, v) => "ok " ++ tok hrp ++ " " ++ natsTok d ++ " " ++ (match v with | .v0 => "0" | .vM => "m")
      | .error e => "err:" ++ bechErrName e
    | none => "bad-op"
  | ["dec", net, s] => match netOf? net, hexToList? s with
    | some net, some s => showDec s net
    | _, _ => "bad-op"
  | ["xtr", net, s] => match netOf? net, hexToList? s with
    | some net, some s => showXtr s net
    | _, _ => "bad-op"
  | ["enc", kind, net, p] => match netOf? net, hexToList? p with
    | some net, some p => match mkAddr kind net p with
      | none => "err"
      | some a => "ok " ++ showAddr a ++ " | " ++ showXtr (payToAddrScript a) net ++ " | " ++
          showDec (a.string cksum4) net
    | _, _ => "bad-op"
  | ["wife", id, c, key] => match hexToList? id, hexToList? key with
    | some [id], some key => ascii (wifString cksum4 ⟨key, c == "1", id⟩)
    | _, _ => "bad-op"
  | ["wifd", s] => match hexToList? s with
    | some s => match decodeWIF cksum4 s with
      | .ok w => "ok " ++ tok [w.netID] ++ " " ++ (if w.compressed then "1" else "0") ++ " " ++ tok w.key ++ " " ++
          String.ofList (Spec.nets.map (fun n => if w.netID == n.wif then '1' else '0')) ++ " " ++
          ascii (wifString cksum4 w)
      | .error .malformed => "err:malformed"
      | .error .checksum => "err:checksum"
    | none => "bad-op"
  | ["xkd", s] => match hexToList? s with
    | some s => match xkeyParse cksum4 validPK s with
      | .ok k => "ok " ++ showXKey k
      | .error .keyLen => "err:keylen"
      | .error .checksum => "err:checksum"
      | .error .unusable => "err:unusable"
      | .error .pubkey => "err:pubkey"
    | none => "bad-op"
  | ["xke", ver, depth, fp, cn, cc, priv, key] =>
    match hexToList? ver, depth.toNat?, hexToList? fp, cn.toNat?, hexToList? cc, hexToList? key with
    | some ver, some depth, some fp, some cn, some cc, some key =>
      xs ⟨ver, UInt8.ofNat depth, fp, cn, cc, key, priv == "1"⟩
    | _, _, _, _, _, _ => "bad-op"
  | ["drv", net, seed, path] => match netOf? net, hexToList? seed, parsePath? path with
    | some net, some seed, some path => match newMaster hmac512 seed net.hdPriv with
      | none => "err:seed"
      | some m =>
        let nm := neuter secpCurve pubVer m
        let head := xs m ++ "|" ++ (match nm with | some x => xs x | none => "err")
        " ".intercalate (head :: drvWalk path m nm [])
    | _, _, _ => "bad-op"
  | ["pks", net, sc] => match netOf? net, hexToList? sc with
    | some net, some sc =>
      -- ParsePkScript classifies with the main-network parameters, PkScript.Address re-extracts with `net`
      let c := (extractPkScriptAddrs validPK sc Spec.mainNet).1
      if c ∈ [ScriptClass.pubKeyHash, .witnessV0PubKeyHash, .scriptHash, .witnessV0ScriptHash, .witnessV1Taproot,
              .payToAnchor] then
        match (extractPkScriptAddrs validPK sc net).2.1 with
        | a :: _ => "ok " ++ c.name ++ " " ++ tok sc ++ " " ++ ascii (a.string cksum4)
        | [] => "ok " ++ c.name ++ " " ++ tok sc ++ " noaddr"
      else "err:unsupported"
    | _, _ => "bad-op"
  | ["tap", internal, leaves] => match hexToList? internal, parseLeaves? leaves with
    | some k, some ls => showTap k ls
    | _, _ => "bad-op"
  | ["encv", kind, net, p] => match netOf? net, hexToList? p with
    | some net, some p => match mkAddr kind net p with
      | none => "err"
      | some a => "ok " ++ showAddr a ++ " same sa=" ++ tok (match a with
          | .pkh h _ => h | .sh h _ => h | .pk s _ => s | .wpkh _ q => q | .wsh _ q => q | .tr _ q => q
          | .p2a _ => [0x4e, 0x73]) ++ " " ++ addrExtras a
    | _, _ => "bad-op"
  | ["shs", net, sc] => match netOf? net, hexToList? sc with
    | some net, some sc => "ok " ++ showAddr (.sh (h160 sc) net.sh) ++ " " ++ tok (h160 sc)
    | _, _ => "bad-op"
  | ["gseed", n] => match n.toNat? with
    | some n => if 16 ≤ n && n ≤ 64 then "ok " ++ toString n else "err"
    | none => "bad-op"
  | ["xtrv", net, s] => match netOf? net, hexToList? s with
    | some net, some s => showXtrV s net
    | _, _ => "bad-op"
  | ["bdec2", s] => match hexToList? s with
    | some s =>
      let g := bechDecode s
      let nl := bechDecodeNoLimit s
      let b256 := match g with
        | .ok (hrp, d, _) => (match convertBits d 5 8 false with
          | .ok r => "ok:" ++ tok hrp ++ ":" ++ natsTok r
          | .error e => "err:" ++ bechErrName e)
        | .error e => "err:" ++ bechErrName e
      "g=" ++ showBech g true ++ " nl=" ++ showBech nl true ++ " d=" ++ showBech g false ++ " dn=" ++ showBech nl false ++
        " b256=" ++ b256
    | none => "bad-op"
  | ["benc2", hrp, d] => match hexToList? hrp, parseNats? d with
    | some hrp, some d => match convertBits d 8 5 true with
      | .ok c => (match bechEncode hrp c .v0 with
        | .ok s => "ok " ++ tok s
        | .error e => "err:" ++ bechErrName e)
      | .error e => "err:" ++ bechErrName e
    | _, _ => "bad-op"
  | ["wif2", id, c, key] => match hexToList? id, hexToList? key with
    | some [id], some key =>
      let w : Wif := ⟨key, c == "1", id⟩
      let pub := match Secp.mulG (beNat key) with
        | some q => if c == "1" then Secp.serCompressed q else Secp.serUncompressed q
        | none => []
      ascii (wifString cksum4 w) ++ " " ++ tok pub ++ " " ++
        String.ofList (Spec.nets.map (fun n => if id == n.wif then '1' else '0')) ++ " " ++
        (match decodeWIF cksum4 (wifString cksum4 w) with | .ok w' => boolBit (w' == w) | .error _ => "err")
    | _, _ => "bad-op"
  | ["xk", s, ops] => match hexToList? s with
    | some s => match xkeyParse cksum4 validPK s with
      | .ok k => xkWalk (if ops == "-" then [] else ops.splitOn ",") [some k] 0 [obsXKey (some k)]
      | .error _ => "err:parse"
    | none => "bad-op"
  | ["xkn", ver, depth, fp, cn, cc, priv, key, ops] =>
    match hexToList? ver, depth.toNat?, hexToList? fp, cn.toNat?, hexToList? cc, hexToList? key with
    | some ver, some depth, some fp, some cn, some cc, some key =>
      let k : XKey := ⟨ver, UInt8.ofNat depth, fp, cn, cc, key, priv == "1"⟩
      xkWalk (if ops == "-" then [] else ops.splitOn ",") [some k] 0 [obsXKey (some k)]
    | _, _, _, _, _, _ => "bad-op"
  | ["pcb", cb, sc] => match hexToList? cb, hexToList? sc with
    | some cb, some sc => match parseControlBlock validX cb with
      | .error e => "err:" ++ cbErrName e
      | .ok c => "ok " ++ tok [c.leafVer] ++ " " ++ boolBit c.parityOdd ++ " " ++ tok c.internalX ++ " " ++
          toString c.path.length ++ " " ++ tok (rootFromProof tapLeafHash tapBranchTag ⟨0, c.leafVer, sc, c.path⟩) ++
          " " ++ boolBit (c.bytes == cb)
    | _, _ => "bad-op"
  | ["tap2", priv, leaves] => match hexToList? priv, parseLeaves? leaves with
    | some k, some ls => showTap2 k ls
    | _, _ => "bad-op"
  | ["nds", net, d] => match netOf? net, hexToList? d with
    | some net, some d => match nullDataScript d with
      | some s => "ok " ++ tok s ++ " " ++ showXtr s net
      | none => "err"
    | _, _ => "bad-op"
  | ["mss", net, nreq, keys] => match netOf? net, nreq.toNat?, parseItems? keys with
    | some net, some nreq, some keys =>
      if keys.all validPK then
        match multiSigScript (keys.map normPK) nreq with
        | some s => "ok " ++ tok s ++ " " ++ showXtr s net
        | none => "err"
      else "err:key"
    | _, _, _ => "bad-op"
  | ["cpk", sig, wit] => match hexToList? sig, parseItems? wit with
    | some sig, some wit => match computePkScript h160 sha256L sig wit with
      | some (c, s) => "ok " ++ c.name ++ " " ++ tok s
      | none => "err"
    | _, _ => "bad-op"
  | ["dynreg", hrp, prog] => match hexToList? hrp, hexToList? prog with
    | some hrp, some prog =>
      -- the same bech32m P2TR string before and after the network `hrp` is registered
      let s := match encodeSegwit hrp 1 prog with | .ok s => s | .error _ => []
      let net : Net := ⟨"dyn", 0x30, 0x32, 0xb0, hrp, [], []⟩
      let dec (regs : List (List UInt8)) : String :=
        match decodeAddress regs cksum4 validPK s Spec.mainNet with
        | .ok a => "ok:" ++ kindName a ++ ":" ++ ascii (a.string cksum4) ++ ":" ++ boolBit (a.isForNet net) ++
            boolBit (a.isForNet Spec.mainNet)
        | .error e => "err:" ++ addrErrName e
      ascii s ++ " before=" ++ dec Spec.registeredHrps ++ " after=" ++ dec (hrp :: Spec.registeredHrps)
    | _, _ => "bad-op"
  | _ => "bad-op"

/-- strip the kind of a rejection (`err:<class>` → `err`): the property only says "rejected" -/
def stripErr (s : String) : String :=
  match s.splitOn "err:" with
  | [] => s
  | first :: rest => first ++ String.join (rest.map (fun t => "err" ++ String.ofList (t.toList.dropWhile (fun c => c.isAlphanum))))

/-- `conc` runs the sub-lines of one case (in Go: concurrently in goroutines); answers are joined -/
def handle : List String → String
  | ["conc", payload] =>
    " ;; ".intercalate ((payload.splitOn ";").map (fun l => stripErr (handle1 ((l.splitOn "/").filter (· ≠ "")))))
  | l => stripErr (handle1 l)

end BV.C16.Driver
