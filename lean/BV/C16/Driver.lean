/- C16 line-protocol driver (core-only). Strings travel as hex of their bytes. -/
import BV.Common.Hex
import BV.Common.Sha256
import BV.Common.Hash160
import BV.Common.Sha512
import BV.C16.Secp
import BV.C16.Model
namespace BV.C16.Driver
open BV.Hex BV.C16

/-- btcd's Base58Check checksum: first four bytes of double SHA-256 -/
def cksum4 (b : List UInt8) : List UInt8 := (BV.Sha256.hash2List b).take 4

def validPK (ser : List UInt8) : Bool := (Secp.parsePubKey ser).isSome

def tok (b : List UInt8) : String := listToHexTok b

/-- ASCII bytes as text ("-" when empty) -/
def ascii (b : List UInt8) : String :=
  if b.isEmpty then "-" else String.ofList (b.map (fun c => Char.ofNat c.toNat))

def natsTok (l : List Nat) : String := tok (l.map UInt8.ofNat)

def parseNats? (s : String) : Option (List Nat) := (hexToList? s).map (·.map UInt8.toNat)

def netOf? (s : String) : Option Net := Spec.nets.find? (·.name == s)

def bechErrName : BechErr → String
  | .length => "length" | .char => "char" | .mixed => "mixed" | .sep => "sep" | .noncharset => "noncharset"
  | .checksum => "checksum" | .databyte => "databyte" | .bitgroups => "bitgroups" | .incomplete => "incomplete"

def addrErrName : AddrErr → String
  | .witVer => "witver" | .witProgLen => "proglen" | .checksum => "checksum"
  | .unknownType => "unknowntype" | .collision => "collision" | _ => "other"

def kindName : Addr → String
  | .pkh .. => "pkh" | .sh .. => "sh" | .pk .. => "pk" | .wpkh .. => "wpkh" | .wsh .. => "wsh"
  | .tr .. => "tr" | .p2a .. => "p2a"

/-- `EncodeAddress` (for `pk`: the P2PKH address of the serialized key) -/
def encodeAddress (a : Addr) : List UInt8 :=
  match a with
  | .pk s id => checkEncode cksum4 (BV.Hash160.hash160List s) id
  | a => a.string cksum4

def forNets (a : Addr) : String :=
  String.ofList (Spec.nets.map (fun n => if a.isForNet n then '1' else '0'))

def showAddr (a : Addr) : String :=
  kindName a ++ " " ++ ascii (a.string cksum4) ++ " " ++ ascii (encodeAddress a) ++ " " ++
    tok (payToAddrScript a) ++ " " ++ forNets a

def showDec (s : List UInt8) (net : Net) : String :=
  match decodeAddress Spec.registeredHrps cksum4 validPK s net with
  | .ok a => "ok " ++ showAddr a
  | .error e => "err:" ++ addrErrName e

def showXtr (s : List UInt8) (net : Net) : String :=
  let (c, addrs, n) := extractPkScriptAddrs validPK s net
  let as := if addrs.isEmpty then "-" else ",".intercalate (addrs.map (fun a => ascii (a.string cksum4)))
  c.name ++ " " ++ (getScriptClass s).name ++ " " ++ toString n ++ " " ++ as

/-- the `NewAddress…` constructors -/
def mkAddr (kind : String) (net : Net) (p : List UInt8) : Option Addr :=
  match kind with
  | "pkh" => if p.length = 20 then some (.pkh p net.pkh) else none
  | "sh" => if p.length = 20 then some (.sh p net.sh) else none
  | "pk" => if validPK p then some (.pk (normPK p) net.pkh) else none
  | "wpkh" => if p.length = 20 then some (.wpkh (lowerStr net.hrp) p) else none
  | "wsh" => if p.length = 32 then some (.wsh (lowerStr net.hrp) p) else none
  | "tr" => if p.length = 32 then some (.tr (lowerStr net.hrp) p) else none
  | "p2a" => some (.p2a (lowerStr net.hrp))
  | _ => none

/-! keys -/

def secpCurve : Curve Secp.Pt where
  n := Secp.n
  baseMul := Secp.mulG
  add := Secp.add
  isInf := fun p => p.isNone
  ser := fun p => match p with
    | some xy => Secp.serCompressed xy
    | none => 2 :: List.replicate 32 0
  parse := fun b => (Secp.parsePubKey b).map some

def hmac512 (key data : List UInt8) : List UInt8 := BV.Sha512.hmacList key data
def h160 (b : List UInt8) : List UInt8 := BV.Hash160.hash160List b

/-- `chaincfg.HDPrivateKeyToPublicKeyID` over the registered networks -/
def pubVer (v : List UInt8) : Option (List UInt8) :=
  (Spec.registered.find? (fun n => n.hdPriv == v)).map (·.hdPub)

def showXKey (k : XKey) : String :=
  ascii (xkeyString cksum4 k) ++ " " ++ (if k.isPrivate then "1" else "0") ++ " " ++ toString k.depth.toNat ++ " " ++
    toString k.childNum ++ " " ++
    String.ofList (Spec.nets.map (fun n => if k.version == n.hdPriv || k.version == n.hdPub then '1' else '0'))

def xs (k : XKey) : String := ascii (xkeyString cksum4 k)

/-- one step of the `drv` walk: private child, its neutered form, and the public-side child of the neutered parent -/
def drvWalk : List Nat → XKey → Option XKey → List String → List String
  | [], _, _, acc => acc.reverse
  | i :: is, k, pubSide, acc =>
    match derive secpCurve hmac512 h160 k i with
    | .error _ => ("err" :: acc).reverse
    | .ok c =>
      let nc := match neuter secpCurve pubVer c with | some x => xs x | none => "err"
      let (ps, pstr) := match pubSide with
        | none => (none, "-")
        | some pk => match derive secpCurve hmac512 h160 pk i with
          | .ok pc => (some pc, xs pc)
          | .error .hardFromPub => (neuter secpCurve pubVer c, "err:hard")
          | .error _ => (none, "err")
      drvWalk is c ps ((xs c ++ "|" ++ nc ++ "|" ++ pstr) :: acc)

def parsePath? (s : String) : Option (List Nat) :=
  if s == "-" then some [] else (s.splitOn ",").mapM (·.toNat?)

/-! taproot -/

def taggedL (tag : String) (msg : List UInt8) : List UInt8 :=
  (BV.Sha256.tagged tag (ByteArray.mk msg.toArray)).toList

def compactSize (n : Nat) : List UInt8 :=
  if n < 0xfd then [UInt8.ofNat n]
  else if n ≤ 0xffff then 0xfd :: natLE n 2
  else if n ≤ 0xffffffff then 0xfe :: natLE n 4
  else 0xff :: natLE n 8

def tapLeafHash (v : UInt8) (s : List UInt8) : List UInt8 := taggedL "TapLeaf" (v :: compactSize s.length ++ s)
def tapBranchTag (l r : List UInt8) : List UInt8 := taggedL "TapBranch" (l ++ r)

/-- `ComputeTaprootOutputKey` on the x-only internal key -/
def tapOutKey (x root : List UInt8) : List UInt8 × Bool :=
  match Secp.liftX (Secp.beNat x) false with
  | none => ([], false)
  | some p =>
    let t := Secp.beNat (taggedL "TapTweak" (x ++ root)) % Secp.n
    match Secp.add (some p) (Secp.mulG t) with
    | some q => (Secp.xOnly q, q.2 % 2 == 1)
    | none => (List.replicate 32 0, false)

def parseLeaf? (i : Nat) (s : String) : Option TapTree :=
  match s.splitOn ":" with
  | [v, sc] => match hexToList? v, hexToList? sc with
    | some [v], some sc => some (.leaf i v sc)
    | _, _ => none
  | _ => none

def parseLeaves? (s : String) : Option (List TapTree) :=
  let parts := s.splitOn ","
  (List.range parts.length).zip parts |>.mapM (fun (i, p) => parseLeaf? i p)

def showTap (internal : List UInt8) (leaves : List TapTree) : String :=
  match Secp.parsePubKey internal, assembleTree leaves with
  | some pk, some t =>
    let x := Secp.xOnly pk
    let root := t.hash tapLeafHash tapBranchTag
    let (prog, _) := tapOutKey x root
    let proofs := t.proofs tapLeafHash tapBranchTag
    let one (i : Nat) : String :=
      match proofs.find? (·.idx == i) with
      | none => "missing"
      | some p =>
        let cb := controlBlock tapOutKey x root p
        tok cb.bytes ++ ":" ++ (if verifyLeaf tapLeafHash tapBranchTag tapOutKey cb prog p.script then "ok" else "fail")
    tok root ++ " " ++ tok prog ++ " | " ++ ",".intercalate ((List.range leaves.length).map one)
  | _, _ => "err"

def handle : List String → String
  | ["b58e", b] => match hexToList? b with
    | some b => if b58EncodeAlgo b = b58Encode b then tok (b58Encode b) else "model-mismatch"
    | none => "bad-op"
  | ["b58d", s] => match hexToList? s with
    | some s => if b58DecodeAlgo s = b58Decode s then tok (b58Decode s) else "model-mismatch"
    | none => "bad-op"
  | ["chke", v, p] => match hexToList? v, hexToList? p with
    | some [v], some p => tok (checkEncode cksum4 p v)
    | _, _ => "bad-op"
  | ["chkd", s] => match hexToList? s with
    | some s => match checkDecode cksum4 s with
      | .ok (p, v) => "ok " ++ tok [v] ++ " " ++ tok p
      | .error .format => "err:format"
      | .error .checksum => "err:checksum"
    | none => "bad-op"
  | ["cb", f, t, pad, d] => match f.toNat?, t.toNat?, parseNats? d with
    | some f, some t, some d =>
      let sh (r : Except BechErr (List Nat)) : String := match r with
        | .ok r => "ok " ++ natsTok r
        | .error e => "err:" ++ bechErrName e
      let a := sh (convertBits d f t (pad == "1"))
      if sh (convertBitsAlgo d f t (pad == "1")) == a then a else "model-mismatch"
    | _, _, _ => "bad-op"
  | ["benc", ver, hrp, d] => match hexToList? hrp, parseNats? d with
    | some hrp, some d => match bechEncode hrp d (if ver == "m" then .vM else .v0) with
      | .ok s => "ok " ++ tok s
      | .error e => "err:" ++ bechErrName e
    | _, _ => "bad-op"
  | ["bdec", s] => match hexToList? s with
    | some s => match bechDecode s with
      | .ok (hrp, d, v) => "ok " ++ tok hrp ++ " " ++ natsTok d ++ " " ++ (match v with | .v0 => "0" | .vM => "m")
      | .error e => "err:" ++ bechErrName e
    | none => "bad-op"
  | ["dec", net, s] => match netOf? net, hexToList? s with
    | some net, some s => showDec s net
    | _, _ => "bad-op"
  | ["xtr", net, s] => match netOf? net, hexToList? s with
    | some net, some s => showXtr s net
    | _, _ => "bad-op"
  | ["enc", kind, net, p] => match netOf? net, hexToList? p with
    | some net, some p => match mkAddr kind net p with
      | none => "err"
      | some a => "ok " ++ showAddr a ++ " | " ++ showXtr (payToAddrScript a) net ++ " | " ++
          showDec (a.string cksum4) net
    | _, _ => "bad-op"
  | ["wife", id, c, key] => match hexToList? id, hexToList? key with
    | some [id], some key => ascii (wifString cksum4 ⟨key, c == "1", id⟩)
    | _, _ => "bad-op"
  | ["wifd", s] => match hexToList? s with
    | some s => match decodeWIF cksum4 s with
      | .ok w => "ok " ++ tok [w.netID] ++ " " ++ (if w.compressed then "1" else "0") ++ " " ++ tok w.key ++ " " ++
          String.ofList (Spec.nets.map (fun n => if w.netID == n.wif then '1' else '0')) ++ " " ++
          ascii (wifString cksum4 w)
      | .error .malformed => "err:malformed"
      | .error .checksum => "err:checksum"
    | none => "bad-op"
  | ["xkd", s] => match hexToList? s with
    | some s => match xkeyParse cksum4 validPK s with
      | .ok k => "ok " ++ showXKey k
      | .error .keyLen => "err:keylen"
      | .error .checksum => "err:checksum"
      | .error .unusable => "err:unusable"
      | .error .pubkey => "err:pubkey"
    | none => "bad-op"
  | ["xke", ver, depth, fp, cn, cc, priv, key] =>
    match hexToList? ver, depth.toNat?, hexToList? fp, cn.toNat?, hexToList? cc, hexToList? key with
    | some ver, some depth, some fp, some cn, some cc, some key =>
      xs ⟨ver, UInt8.ofNat depth, fp, cn, cc, key, priv == "1"⟩
    | _, _, _, _, _, _ => "bad-op"
  | ["drv", net, seed, path] => match netOf? net, hexToList? seed, parsePath? path with
    | some net, some seed, some path => match newMaster hmac512 seed net.hdPriv with
      | none => "err:seed"
      | some m =>
        let nm := neuter secpCurve pubVer m
        let head := xs m ++ "|" ++ (match nm with | some x => xs x | none => "err")
        " ".intercalate (head :: drvWalk path m nm [])
    | _, _, _ => "bad-op"
  | ["pks", net, sc] => match netOf? net, hexToList? sc with
    | some net, some sc =>
      -- ParsePkScript classifies with the main-network parameters, PkScript.Address re-extracts with `net`
      let c := (extractPkScriptAddrs validPK sc Spec.mainNet).1
      if c ∈ [ScriptClass.pubKeyHash, .witnessV0PubKeyHash, .scriptHash, .witnessV0ScriptHash, .witnessV1Taproot,
              .payToAnchor] then
        match (extractPkScriptAddrs validPK sc net).2.1 with
        | a :: _ => "ok " ++ c.name ++ " " ++ tok sc ++ " " ++ ascii (a.string cksum4)
        | [] => "ok " ++ c.name ++ " " ++ tok sc ++ " noaddr"
      else "err:unsupported"
    | _, _ => "bad-op"
  | ["tap", internal, leaves] => match hexToList? internal, parseLeaves? leaves with
    | some k, some ls => showTap k ls
    | _, _ => "bad-op"
  | _ => "bad-op"

end BV.C16.Driver
