/-
C16 model: bech32 / bech32m (address/bech32/bech32.go) and ConvertBits. Core-only.
Strings are byte lists. 5-bit data are `List Nat`.
-/
import BV.C16.Radix
namespace BV.C16
open Radix

/-- "qpzry9x8gf2tvdw0s3jn54khce6mua7l" -/
def bech32Charset : List UInt8 :=
  [113,112,122,114,121,57,120,56,103,102,50,116,118,100,119,48,
   115,51,106,110,53,52,107,104,99,101,54,109,117,97,55,108]

def bech32Gen : List Nat := [0x3b6a57b2, 0x26508e6d, 0x1ea119fa, 0x3d4233dd, 0x2a1462b3]

/-- xor of the generators selected by the low five bits of `b` -/
def genXor (b : Nat) : Nat :=
  (if b.testBit 0 then 0x3b6a57b2 else 0) ^^^ (if b.testBit 1 then 0x26508e6d else 0) ^^^
  (if b.testBit 2 then 0x1ea119fa else 0) ^^^ (if b.testBit 3 then 0x3d4233dd else 0) ^^^
  (if b.testBit 4 then 0x2a1462b3 else 0)

/-- the part of one polymod round that does not depend on the injected value -/
def polyBase (c : Nat) : Nat := ((c &&& 0x1ffffff) <<< 5) ^^^ genXor (c >>> 25)
/-- one round of `bech32Polymod` -/
def polyStep (c v : Nat) : Nat := polyBase c ^^^ v

def hrpExpand (hrp : List UInt8) : List Nat :=
  hrp.map (fun c => c.toNat >>> 5) ++ [0] ++ hrp.map (fun c => c.toNat &&& 31)

/-- `bech32Polymod(hrp, values, checksum)` -/
def polymod (hrp : List UInt8) (values checksum : List Nat) : Nat :=
  checksum.foldl polyStep (values.foldl polyStep ((hrpExpand hrp).foldl polyStep 1))

inductive BechVer | v0 | vM
deriving DecidableEq, Repr

def BechVer.const : BechVer → Nat
  | .v0 => 1
  | .vM => 0x2bc830a3

/-- the six checksum symbols written by `writeBech32Checksum` for checksum constant `k` -/
def checksumOf (pm : Nat) : List Nat :=
  [(pm >>> 25) &&& 31, (pm >>> 20) &&& 31, (pm >>> 15) &&& 31, (pm >>> 10) &&& 31, (pm >>> 5) &&& 31, pm &&& 31]

def createChecksum (hrp : List UInt8) (data : List Nat) (k : Nat) : List Nat :=
  checksumOf (polymod hrp data [0, 0, 0, 0, 0, 0] ^^^ k)

/-- `bech32VerifyChecksum` on already split values / checksum -/
def verifyChecksum (hrp : List UInt8) (values checksum : List Nat) : Option BechVer :=
  let pm := polymod hrp values checksum
  if pm = 1 then some .v0 else if pm = 0x2bc830a3 then some .vM else none

def isUpper (c : UInt8) : Bool := 65 ≤ c && c ≤ 90
def isLower (c : UInt8) : Bool := 97 ≤ c && c ≤ 122
def lowerByte (c : UInt8) : UInt8 := if isUpper c then c + 32 else c
def lowerStr (s : List UInt8) : List UInt8 := s.map lowerByte

def charsetIdx (c : UInt8) : Option Nat :=
  let i := bech32Charset.idxOf c
  if i < 32 then some i else none
def charsetChar (d : Nat) : UInt8 := bech32Charset.getD d 0

/-- `toBytes` -/
def fromCharset : List UInt8 → Option (List Nat)
  | [] => some []
  | c :: cs => match charsetIdx c, fromCharset cs with
    | some d, some ds => some (d :: ds)
    | _, _ => none

/-- split at the LAST `'1'`: `s = hrp ++ '1' :: data` with no `'1'` in `data` -/
def splitLastOne : List UInt8 → Option (List UInt8 × List UInt8)
  | [] => none
  | c :: cs => match splitLastOne cs with
    | some (h, d) => some (c :: h, d)
    | none => if c = 49 then some ([], cs) else none

inductive BechErr | length | char | mixed | sep | noncharset | checksum | databyte | bitgroups | incomplete
deriving DecidableEq, Repr

/-- the character-range / mixed-case loop: the first offending position decides the error -/
def caseScan : List UInt8 → Bool → Bool → Option BechErr
  | [], _, _ => none
  | c :: cs, lo, up =>
    if c < 33 || c > 126 then some .char else
    if (lo || isLower c) && (up || isUpper c) then some .mixed else caseScan cs (lo || isLower c) (up || isUpper c)

/-- `DecodeNoLimitWithVersion` -/
def bechDecodeNoLimit (bech : List UInt8) : Except BechErr (List UInt8 × List Nat × BechVer) :=
  if bech.length < 8 then .error .length else
  match caseScan bech false false with
  | some e => .error e
  | none =>
    let bech := lowerStr bech
    match splitLastOne bech with
    | none => .error .sep
    | some (hrp, data) =>
      if hrp.length < 1 || data.length < 6 then .error .sep else
      match fromCharset data with
      | none => .error .noncharset
      | some decoded =>
        let values := decoded.take (decoded.length - 6)
        let cs := decoded.drop (decoded.length - 6)
        match verifyChecksum hrp values cs with
        | none => .error .checksum
        | some v => .ok (hrp, values, v)

/-- `DecodeGeneric` (90-character limit) -/
def bechDecode (bech : List UInt8) : Except BechErr (List UInt8 × List Nat × BechVer) :=
  if bech.length > 90 then .error .length else bechDecodeNoLimit bech

/-- `encodeGeneric` -/
def bechEncode (hrp : List UInt8) (data : List Nat) (v : BechVer) : Except BechErr (List UInt8) :=
  let hrp := lowerStr hrp
  if data.any (fun d => d ≥ 32) then .error .databyte else
  .ok (hrp ++ [49] ++ data.map charsetChar ++ (createChecksum hrp data v.const).map charsetChar)

/-! ### ConvertBits.  The Go bit-shuffling loop regroups the concatenated bit string; as arithmetic:
the input is the number `N` with `from`-bit digits, the output its `to`-bit digits after padding
(`pad`) or after dropping a zero remainder of at most four bits (`¬pad`). -/

def convertBits (data : List Nat) (fromBits toBits : Nat) (pad : Bool) : Except BechErr (List Nat) :=
  if fromBits < 1 || fromBits > 8 || toBits < 1 || toBits > 8 then .error .bitgroups else
  let n := ofBE (2 ^ fromBits) (data.map (· % 2 ^ fromBits))
  let total := fromBits * data.length
  if pad then
    let m := (total + toBits - 1) / toBits
    .ok (fixedBE (2 ^ toBits) m (n * 2 ^ (m * toBits - total)))
  else
    let m := total / toBits
    let k := total % toBits
    if k > 0 && (k > 4 || n % 2 ^ k ≠ 0) then .error .incomplete
    else .ok (fixedBE (2 ^ toBits) m (n / 2 ^ k))

/-! `ConvertBits` as written in Go: a byte-wide accumulator `nextByte` filled `toExtract` bits at a time.
Executable mirror; the driver checks it against the arithmetic model on every case (equality is not proved). -/

/-- the inner `for remFromBits > 0` loop for one input byte `b` (already shifted left by `8 - fromBits`) -/
def cbInner (toBits : Nat) : Nat → Nat → Nat → Nat → Nat → List Nat → Nat × Nat × List Nat
  | 0, _, _, nextByte, filled, out => (nextByte, filled, out)
  | fuel+1, b, remFrom, nextByte, filled, out =>
    if remFrom = 0 then (nextByte, filled, out) else
    let remTo := toBits - filled
    let toExtract := if remTo < remFrom then remTo else remFrom
    let nextByte := ((nextByte <<< toExtract) ||| (b >>> (8 - toExtract))) % 256
    let b := (b <<< toExtract) % 256
    let filled := filled + toExtract
    if filled = toBits then cbInner toBits fuel b (remFrom - toExtract) 0 0 (nextByte :: out)
    else cbInner toBits fuel b (remFrom - toExtract) nextByte filled out

def convertBitsAlgo (data : List Nat) (fromBits toBits : Nat) (pad : Bool) : Except BechErr (List Nat) :=
  if fromBits < 1 || fromBits > 8 || toBits < 1 || toBits > 8 then .error .bitgroups else
  let (nextByte, filled, out) := data.foldl (fun (st : Nat × Nat × List Nat) d =>
    cbInner toBits 9 ((d <<< (8 - fromBits)) % 256) fromBits st.1 st.2.1 st.2.2) (0, 0, [])
  if pad && filled > 0 then .ok (((nextByte <<< (toBits - filled)) % 256 :: out).reverse)
  else if filled > 0 && (filled > 4 || nextByte ≠ 0) then .error .incomplete
  else .ok out.reverse

end BV.C16
