/- C16 Spec: protocol-level constants and predicates the theorems talk about. Core-only. -/
namespace BV.C16.Spec

/-- BIP-173 / BIP-350 checksum constants -/
def bech32Const : Nat := 1
def bech32mConst : Nat := 0x2bc830a3

end BV.C16.Spec
