/-
C16 Spec: protocol-level constants the theorems talk about: the address-related parameters of every
network btcd ships (pinned against the compiled tree by `BV.Generated.C16` in Props). Core-only.
-/
namespace BV.C16

/-- the address-related fields of `chaincfg.Params` -/
structure Net where
  name : String
  pkh : UInt8
  sh : UInt8
  wif : UInt8
  hrp : List UInt8
  hdPriv : List UInt8
  hdPub : List UInt8
deriving Repr, DecidableEq

namespace Spec

/-- BIP-173 / BIP-350 checksum constants -/
def bech32Const : Nat := 1
def bech32mConst : Nat := 0x2bc830a3

def mainNet : Net := ⟨"mainnet", 0x00, 0x05, 0x80, [98, 99], [0x04, 0x88, 0xad, 0xe4], [0x04, 0x88, 0xb2, 0x1e]⟩
def testNet3 : Net := ⟨"testnet3", 0x6f, 0xc4, 0xef, [116, 98], [0x04, 0x35, 0x83, 0x94], [0x04, 0x35, 0x87, 0xcf]⟩
def testNet4 : Net := ⟨"testnet4", 0x6f, 0xc4, 0xef, [116, 98], [0x04, 0x35, 0x83, 0x94], [0x04, 0x35, 0x87, 0xcf]⟩
def sigNet : Net := ⟨"signet", 0x6f, 0xc4, 0xef, [116, 98], [0x04, 0x35, 0x83, 0x94], [0x04, 0x35, 0x87, 0xcf]⟩
def regNet : Net := ⟨"regtest", 0x6f, 0xc4, 0xef, [98, 99, 114, 116], [0x04, 0x35, 0x83, 0x94], [0x04, 0x35, 0x87, 0xcf]⟩
def simNet : Net := ⟨"simnet", 0x3f, 0x7b, 0x64, [115, 98], [0x04, 0x20, 0xb9, 0x00], [0x04, 0x20, 0xbd, 0x3a]⟩

/-- a network the harness registers at run time through `chaincfg.Register` ("every registered network") -/
def customNet : Net := ⟨"verifnet", 0x30, 0x32, 0xb0, [118, 110], [0x01, 0x9d, 0x9c, 0xfe], [0x01, 0x9d, 0xa4, 0x62]⟩

/-- the harness's custom network, then every parameter set btcd ships, in the order used on the protocol line -/
def nets : List Net := [customNet, mainNet, testNet3, testNet4, sigNet, regNet, simNet]

/-- registered networks: `chaincfg`'s `init` (signet is not registered) plus the harness's custom network -/
def registered : List Net := [customNet, mainNet, testNet3, testNet4, regNet, simNet]

def registeredHrps : List (List UInt8) := registered.map (·.hrp)

end Spec
end BV.C16
