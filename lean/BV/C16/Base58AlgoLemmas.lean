/- C16 lemmas: the chunked Go loops of base58 compute the plain radix conversion. Core-only. -/
import BV.C16.Base58Algo
import BV.C16.Base58Lemmas
namespace BV.C16.Lemmas
open BV.C16 Radix

theorem ofLE_append (b : Nat) : ∀ x y : List Nat, ofLE b (x ++ y) = ofLE b x + b ^ x.length * ofLE b y
  | [], y => by simp [ofLE]
  | d :: x, y => by
    simp only [List.cons_append, ofLE, ofLE_append b x y, List.length_cons, Nat.pow_succ]
    rw [Nat.mul_add, Nat.add_assoc, Nat.mul_left_comm b, Nat.mul_assoc]

theorem ofBE_append (b : Nat) (x y : List Nat) : ofBE b (x ++ y) = ofBE b x * b ^ y.length + ofBE b y := by
  unfold ofBE
  rw [List.reverse_append, ofLE_append, List.length_reverse, Nat.add_comm, Nat.mul_comm]

theorem foldl_eq_ofBE (b : Nat) (ds : List Nat) (acc : Nat) :
    ds.foldl (fun t d => t * b + d) acc = acc * b ^ ds.length + ofBE b ds := by
  induction ds generalizing acc with
  | nil => simp [ofBE, ofLE]
  | cons d ds ih =>
    rw [List.foldl_cons, ih]
    have : ofBE b (d :: ds) = d * b ^ ds.length + ofBE b ds := by
      have := ofBE_append b [d] ds
      simpa [ofBE, ofLE] using this
    rw [this, List.length_cons, Nat.pow_succ, Nat.add_mul, Nat.mul_assoc, Nat.mul_comm b, Nat.add_assoc]

theorem decodeChunks_eq : ∀ (f : Nat) (ds : List Nat) (acc : Nat), ds.length ≤ f →
    decodeChunks f ds acc = acc * 58 ^ ds.length + ofBE 58 ds
  | 0, ds, acc, h => by
    have : ds = [] := List.eq_nil_of_length_eq_zero (by omega)
    subst this; simp [decodeChunks, ofBE, ofLE]
  | f+1, ds, acc, h => by
    unfold decodeChunks
    by_cases hd : ds = []
    · subst hd; simp [ofBE, ofLE]
    · simp only [hd, if_false]
      have hlen : (ds.drop 10).length ≤ f := by
        rw [List.length_drop]
        have : 0 < ds.length := List.length_pos_iff.mpr hd
        omega
      rw [decodeChunks_eq f _ _ hlen]
      have hsplit := ofBE_append 58 (ds.take 10) (ds.drop 10)
      rw [List.take_append_drop] at hsplit
      have hf := foldl_eq_ofBE 58 (ds.take 10) 0
      simp only [Nat.zero_mul, Nat.zero_add] at hf
      rw [hf, hsplit]
      have hl : ds.length = (ds.take 10).length + (ds.drop 10).length := by
        rw [← List.length_append, List.take_append_drop]
      rw [hl, Nat.pow_add, Nat.add_mul, Nat.mul_assoc, Nat.add_assoc]

/-- **the Go `Decode` loop equals the arithmetic model** -/
theorem b58DecodeAlgo_eq (s : List UInt8) : b58DecodeAlgo s = b58Decode s := by
  unfold b58DecodeAlgo b58Decode conv
  cases b58Digits s with
  | none => rfl
  | some ds =>
    simp only []
    rw [decodeChunks_eq ds.length ds 0 (Nat.le_refl _)]
    simp

theorem toLE_split {b : Nat} (hb : 2 ≤ b) : ∀ (k x : Nat), b ^ k ≤ x →
    toLE b x = fixedLE b k (x % b ^ k) ++ toLE b (x / b ^ k)
  | 0, x, _ => by simp [fixedLE, Nat.mod_one]
  | k+1, x, h => by
    have hbpos : 0 < b := by omega
    have hx : x ≠ 0 := by
      have : 0 < b ^ (k + 1) := Nat.pow_pos hbpos
      omega
    have hxb : b ^ k ≤ x / b := by
      rw [Nat.le_div_iff_mul_le hbpos]; rw [Nat.pow_succ] at h; exact h
    rw [toLE_pos hb hx, toLE_split hb k (x / b) hxb]
    simp only [fixedLE, List.cons_append]
    have e1 : x % b ^ (k + 1) % b = x % b := Nat.mod_mod_of_dvd x (by
      rw [Nat.pow_succ]; exact Nat.dvd_mul_left b (b ^ k))
    have e2 : x % b ^ (k + 1) / b = x / b % b ^ k := by
      rw [Nat.pow_succ, Nat.mul_comm]; exact Nat.mod_mul_right_div_self x b (b ^ k)
    have e3 : x / b / b ^ k = x / b ^ (k + 1) := by
      rw [Nat.div_div_eq_div_mul, Nat.pow_succ, Nat.mul_comm]
    rw [e1, e2, e3]

theorem encodeChunks_eq : ∀ (f x : Nat), x ≤ f → encodeChunks f x = toLE 58 x
  | 0, x, h => by
    have : x = 0 := by omega
    subst this; simp [encodeChunks, toLE_zero]
  | f+1, x, h => by
    unfold encodeChunks
    by_cases hx : x = 0
    · subst hx; simp [toLE_zero]
    · simp only [hx, if_false]
      by_cases hq : x / 58 ^ 10 = 0
      · simp only [hq, if_true]
        have : x < 58 ^ 10 := by
          rcases Nat.lt_or_ge x (58 ^ 10) with h' | h'
          · exact h'
          · have := Nat.div_pos h' (by decide : 0 < 58 ^ 10); omega
        rw [Nat.mod_eq_of_lt this]
      · simp only [hq, if_false]
        have hge : 58 ^ 10 ≤ x := by
          rcases Nat.lt_or_ge x (58 ^ 10) with h' | h'
          · exact absurd (Nat.div_eq_of_lt h') hq
          · exact h'
        have hlt : x / 58 ^ 10 ≤ f := by
          have : x / 58 ^ 10 < x := Nat.div_lt_self (by omega) (by decide)
          omega
        rw [encodeChunks_eq f _ hlt, ← toLE_split (by decide) 10 x hge]

/-- **the Go `Encode` loop equals the arithmetic model** -/
theorem b58EncodeAlgo_eq (b : List UInt8) : b58EncodeAlgo b = b58Encode b := by
  unfold b58EncodeAlgo b58Encode conv toBE
  simp only []
  rw [encodeChunks_eq _ _ (Nat.le_refl _), List.reverse_append, List.reverse_replicate]

end BV.C16.Lemmas
