/- C16 lemmas: WIF and extended-key strings round trip; public and private child derivation commute. Core-only. -/
import BV.C16.Keys
import BV.C16.Base58Lemmas
namespace BV.C16.Lemmas
open BV.C16 Radix

theorem takeN_append (n : Nat) (a b : List UInt8) (h : a.length = n) : takeN n (a ++ b) = some (a, b) := by
  unfold takeN
  rw [if_neg (by rw [List.length_append]; omega), List.take_left' h, List.drop_left' h]

theorem takeN_some (n : Nat) (l a b : List UInt8) (h : takeN n l = some (a, b)) : l = a ++ b ∧ a.length = n := by
  unfold takeN at h
  split at h
  · cases h
  · rename_i hl
    injection h with h
    injection h with h1 h2
    subst h1 h2
    exact ⟨(List.take_append_drop n l).symm, by rw [List.length_take]; omega⟩

theorem b58Valid_of_decode_ne (s : List UInt8) (h : b58Decode s ≠ []) : b58Valid s = true := by
  cases hv : b58Valid s with
  | true => rfl
  | false => exact absurd (b58Decode_invalid s hv) h

/-! ### big-endian numbers -/

theorem beNat_snoc (l : List UInt8) (x : UInt8) : beNat (l ++ [x]) = beNat l * 256 + x.toNat := by
  unfold beNat; rw [List.foldl_append]; rfl

theorem beNat_eq_ofBE (l : List UInt8) : beNat l = ofBE 256 (l.map UInt8.toNat) := by
  induction l using list_rev_ind' with
  | hnil => rfl
  | hsnoc l x ih =>
    rw [beNat_snoc, ih]
    unfold ofBE
    rw [List.map_append, List.reverse_append]
    simp only [List.map_cons, List.map_nil, List.reverse_cons, List.reverse_nil, List.nil_append,
      List.cons_append, ofLE]
    omega
where
  list_rev_ind' {α} {P : List α → Prop} (hnil : P []) (hsnoc : ∀ l a, P l → P (l ++ [a])) (l : List α) : P l := by
    have : ∀ r : List α, P r.reverse := by
      intro r; induction r with
      | nil => exact hnil
      | cons a r ih => rw [List.reverse_cons]; exact hsnoc _ _ ih
    have h := this l.reverse; rwa [List.reverse_reverse] at h

theorem beNat_zero_cons (t : List UInt8) : beNat (0 :: t) = beNat t := by
  unfold beNat; simp

theorem beNat_stripZeros : ∀ l : List UInt8, beNat (stripZeros l) = beNat l
  | [] => rfl
  | x :: t => by
    by_cases hx : x = 0
    · subst hx
      show beNat (stripZeros t) = _
      rw [beNat_stripZeros t, beNat_zero_cons]
    · have : stripZeros (x :: t) = x :: t := by
        unfold stripZeros
        split
        · rename_i h; injection h with h1 _; exact absurd h1 hx
        · rfl
      rw [this]

theorem beNat_nat32 (x : Nat) (h : x < 2 ^ 256) : beNat (nat32 x) = x := by
  unfold nat32
  rw [beNat_eq_ofBE, map_toNat_ofNat _ (fixedBE_lt (by decide) _ _)]
  exact ofBE_fixedBE (by decide) 32 x (by
    have : (256 : Nat) ^ 32 = 2 ^ 256 := by decide
    rw [this]; exact h)

/-! ### child derivation: CKDpub ∘ N = N ∘ CKDpriv -/

/-- **ckd_commutes**: for a private parent and a non-hardened index, neutering the private child gives the public
child of the neutered parent. Hypotheses: serialization round-trips (`parse ∘ ser`), the scalar action is a
homomorphism modulo the group order (`(a+b)·G = a·G + b·G`), the order fits 256 bits, and `IL·G` is not the
point at infinity (the public side rejects that case; probability 2⁻²⁵⁶). -/
theorem ckd_commutes {Pt : Type} (C : Curve Pt) (hmac : List UInt8 → List UInt8 → List UInt8)
    (h160 : List UInt8 → List UInt8) (pubVer : List UInt8 → Option (List UInt8))
    (k c k' c' : XKey) (i : Nat)
    (hpriv : k.isPrivate = true) (hi : i < 2 ^ 31)
    (hser : ∀ P, C.parse (C.ser P) = some P)
    (hhom : ∀ a b, C.baseMul ((a + b) % C.n) = C.add (C.baseMul a) (C.baseMul b))
    (hn : 0 < C.n ∧ C.n ≤ 2 ^ 256)
    (hinf : C.isInf (C.baseMul (beNat ((hmac k.chainCode (pubKeyBytes C k ++ be32 i)).take 32))) = false)
    (hd : derive C hmac h160 k i = .ok c)
    (nk : neuter C pubVer k = some k') (nc : neuter C pubVer c = some c') :
    derive C hmac h160 k' i = .ok c' := by
  have hnh : ¬ (i ≥ 2 ^ 31) := by omega
  -- the private child
  unfold derive at hd
  split at hd
  · cases hd
  · rename_i hdepth
    simp only [hpriv, hnh, decide_false, Bool.not_true, Bool.false_and, Bool.false_eq_true, if_false, if_true] at hd
    split at hd
    · cases hd
    · rename_i hil
      split at hd
      · cases hd
      · rename_i hkn
        injection hd with hd
        -- neutered parent
        unfold neuter at nk nc
        simp only [hpriv, Bool.not_true, Bool.false_eq_true, if_false] at nk
        cases hv : pubVer k.version with
        | none => simp [hv] at nk
        | some v =>
          simp only [hv] at nk
          injection nk with nk
          subst nk
          subst hd
          simp only [Bool.not_true, Bool.false_eq_true, if_false, hv] at nc
          injection nc with nc
          subst nc
          -- the public child of the neutered parent
          have hpk : ∀ v, pubKeyBytes C ⟨v, k.depth, k.parentFP, k.childNum, k.chainCode, pubKeyBytes C k, false⟩ =
              pubKeyBytes C k := fun _ => rfl
          unfold derive
          simp only [hpk, hnh, decide_false, Bool.not_false, Bool.true_and, Bool.false_eq_true, if_false]
          rw [if_neg hdepth, if_neg hil]
          simp only [hinf, Bool.false_eq_true, if_false]
          have hparse : C.parse (pubKeyBytes C k) = some (C.baseMul (beNat k.key)) := by
            unfold pubKeyBytes; simp only [hpriv, if_true]; exact hser _
          simp only [hparse]
          have hlt : (beNat ((hmac k.chainCode (pubKeyBytes C k ++ be32 i)).take 32) + beNat k.key) % C.n < 2 ^ 256 :=
            Nat.lt_of_lt_of_le (Nat.mod_lt _ hn.1) hn.2
          have hchild : pubKeyBytes C ⟨k.version, k.depth + 1, (h160 (pubKeyBytes C k)).take 4, i,
              (hmac k.chainCode (pubKeyBytes C k ++ be32 i)).drop 32,
              stripZeros (nat32 ((beNat ((hmac k.chainCode (pubKeyBytes C k ++ be32 i)).take 32) + beNat k.key) % C.n)),
              true⟩ = C.ser (C.add (C.baseMul (beNat ((hmac k.chainCode (pubKeyBytes C k ++ be32 i)).take 32)))
                (C.baseMul (beNat k.key))) := by
            have e : ∀ (key v fp cc : List UInt8) (d : UInt8) (cn : Nat),
                pubKeyBytes C ⟨v, d, fp, cn, cc, key, true⟩ = C.ser (C.baseMul (beNat key)) :=
              fun _ _ _ _ _ _ => rfl
            rw [e, beNat_stripZeros, beNat_nat32 _ hlt, hhom]
          rw [hchild]

/-! ### WIF -/

/-- **wif_roundtrip** (encode → decode) -/
theorem decodeWIF_wifString (H : List UInt8 → List UInt8) (hH : ∀ x, (H x).length = 4) (w : Wif)
    (hk : w.key.length = 32) (hv : validScalar w.key = true) : decodeWIF H (wifString H w) = .ok w := by
  obtain ⟨key, comp, id⟩ := w
  simp only at hk hv
  unfold decodeWIF wifString
  simp only [b58_decode_encode]
  cases comp with
  | true =>
    simp only [if_true]
    have hl : (id :: key ++ [1] ++ H (id :: key ++ [1])).length = 38 := by simp [hk, hH]
    rw [if_pos hl]
    have e0 : id :: key ++ [1] ++ H (id :: key ++ [1]) = id :: (key ++ (1 :: H (id :: key ++ [1]))) := by simp
    have d33 : (id :: (key ++ (1 :: H (id :: key ++ [1])))).drop 33 = 1 :: H (id :: key ++ [1]) := by
      rw [List.drop_succ_cons, List.drop_left' hk]
    have t34 : (id :: key ++ [1] ++ H (id :: key ++ [1])).take 34 = id :: key ++ [1] :=
      List.take_left' (by simp [hk])
    have d34 : (id :: key ++ [1] ++ H (id :: key ++ [1])).drop 34 = H (id :: key ++ [1]) :=
      List.drop_left' (by simp [hk])
    rw [t34, d34]
    rw [e0, d33]
    simp only [List.head?_cons, ne_eq, not_true_eq_false, if_false]
    rw [List.take_left' hk, hv]; rfl
  | false =>
    simp only [Bool.false_eq_true, if_false, List.append_nil]
    have hl : (id :: key ++ H (id :: key)).length = 37 := by simp [hk, hH]
    rw [if_neg (by rw [hl]; decide), if_pos hl]
    have t33 : (id :: key ++ H (id :: key)).take 33 = id :: key := List.take_left' (by simp [hk])
    have d33 : (id :: key ++ H (id :: key)).drop 33 = H (id :: key) := List.drop_left' (by simp [hk])
    rw [t33, d33]
    simp only [ne_eq, not_true_eq_false, if_false, List.cons_append]
    rw [List.take_left' hk, hv]; rfl

theorem take_succ_of_head (l : List UInt8) (n : Nat) (x : UInt8) (h : (l.drop n).head? = some x) :
    l.take (n + 1) = l.take n ++ [x] := by
  induction l generalizing n with
  | nil => simp at h
  | cons a t ih =>
    cases n with
    | zero => simp at h; simp [h]
    | succ n => simp only [List.drop_succ_cons] at h; simp [List.take_succ_cons, ih n h]

/-- **wif_roundtrip** (decode → encode): an accepted string is reproduced exactly -/
theorem wifString_decodeWIF (H : List UInt8 → List UInt8) (s : List UInt8) (w : Wif)
    (h : decodeWIF H s = .ok w) : wifString H w = s ∧ w.key.length = 32 ∧ validScalar w.key = true := by
  unfold decodeWIF at h
  simp only [] at h
  have finish : ∀ (body : List UInt8), b58Decode s = body ++ H body → body ≠ [] → b58Encode (body ++ H body) = s := by
    intro body hb hne
    rw [← hb]
    apply b58_encode_decode
    apply b58Valid_of_decode_ne
    rw [hb]; intro h0; exact hne (List.append_eq_nil_iff.mp h0).1
  split at h
  · rename_i h38
    split at h
    · cases h
    · rename_i h1
      have h1 : ((b58Decode s).drop 33).head? = some 1 := by simpa using h1
      split at h
      · cases h
      · rename_i hck
        have hck : H ((b58Decode s).take 34) = (b58Decode s).drop 34 := by simpa using hck
        match hd : b58Decode s, h with
        | [], h => simp at h
        | netID :: rest, h =>
          simp only [] at h
          split at h
          · rename_i hvs
            injection h with h; subst h
            rw [hd] at h38 hck h1
            have hrl : rest.length = 37 := by simpa using h38
            have h1' : (rest.drop 32).head? = some 1 := by simpa using h1
            have hbody : (netID :: rest).take 34 = netID :: rest.take 32 ++ [1] := by
              rw [List.take_succ_cons, take_succ_of_head rest 32 1 h1']; rfl
            refine ⟨?_, by rw [List.length_take]; omega, hvs⟩
            unfold wifString
            simp only [if_true]
            rw [← hbody]
            apply finish _ _ (by simp)
            rw [hd, hck]; exact (List.take_append_drop 34 _).symm
          · cases h
  · split at h
    · rename_i _ h37
      split at h
      · cases h
      · rename_i hck
        have hck : H ((b58Decode s).take 33) = (b58Decode s).drop 33 := by simpa using hck
        match hd : b58Decode s, h with
        | [], h => simp at h
        | netID :: rest, h =>
          simp only [] at h
          split at h
          · rename_i hvs
            injection h with h; subst h
            rw [hd] at h37 hck
            have hrl : rest.length = 36 := by simpa using h37
            have hbody : (netID :: rest).take 33 = netID :: rest.take 32 := by rw [List.take_succ_cons]
            refine ⟨?_, by rw [List.length_take]; omega, hvs⟩
            unfold wifString
            simp only [Bool.false_eq_true, if_false, List.append_nil]
            rw [← hbody]
            apply finish _ _ (by simp)
            rw [hd, hck]; exact (List.take_append_drop 33 _).symm
          · cases h
    · cases h

/-! ### extended keys -/

theorem toNat_ofNat_mod (n : Nat) : (UInt8.ofNat (n % 256)).toNat = n % 256 := by
  simp [UInt8.toNat_ofNat']

theorem beNat_be32 (n : Nat) (h : n < 2 ^ 32) : beNat (be32 n) = n := by
  unfold be32 beNat
  simp only [List.foldl_cons, List.foldl_nil, toNat_ofNat_mod]
  omega

theorem be32_beNat (b : List UInt8) (h : b.length = 4) : be32 (beNat b) = b := by
  match b, h with
  | [a, b, c, d], _ =>
    have ha := a.toNat_lt; have hb := b.toNat_lt; have hc := c.toNat_lt; have hd := d.toNat_lt
    unfold be32 beNat
    simp only [List.foldl_cons, List.foldl_nil]
    have e1 : (((0 * 256 + a.toNat) * 256 + b.toNat) * 256 + c.toNat) * 256 + d.toNat = 
        a.toNat * 2 ^ 24 + b.toNat * 2 ^ 16 + c.toNat * 2 ^ 8 + d.toNat := by omega
    rw [e1]
    have r1 : (a.toNat * 2 ^ 24 + b.toNat * 2 ^ 16 + c.toNat * 2 ^ 8 + d.toNat) / 2 ^ 24 % 256 = a.toNat := by omega
    have r2 : (a.toNat * 2 ^ 24 + b.toNat * 2 ^ 16 + c.toNat * 2 ^ 8 + d.toNat) / 2 ^ 16 % 256 = b.toNat := by omega
    have r3 : (a.toNat * 2 ^ 24 + b.toNat * 2 ^ 16 + c.toNat * 2 ^ 8 + d.toNat) / 2 ^ 8 % 256 = c.toNat := by omega
    have r4 : (a.toNat * 2 ^ 24 + b.toNat * 2 ^ 16 + c.toNat * 2 ^ 8 + d.toNat) % 256 = d.toNat := by omega
    rw [r1, r2, r3, r4]
    simp only [UInt8.ofNat_toNat]

/-- well-formed extended key (what `NewKeyFromString` can return) -/
def XKey.wf (validPK : List UInt8 → Bool) (k : XKey) : Bool :=
  k.version.length = 4 && k.parentFP.length = 4 && k.chainCode.length = 32 && k.childNum < 2 ^ 32 &&
  (if k.isPrivate then k.key.length = 32 && validScalar k.key
   else k.key.length = 33 && k.key.head? ≠ some 0 && validPK k.key)

theorem padLeft_full (n : Nat) (b : List UInt8) (h : b.length = n) : padLeft n b = b := by
  unfold padLeft; rw [h, Nat.sub_self]; rfl

/-- **xkey_string_roundtrip** (encode → decode) -/
theorem xkeyParse_xkeyString (H : List UInt8 → List UInt8) (hH : ∀ x, (H x).length = 4)
    (validPK : List UInt8 → Bool) (k : XKey) (hw : XKey.wf validPK k = true) :
    xkeyParse H validPK (xkeyString H k) = .ok k := by
  obtain ⟨ver, depth, fp, cn, cc, key, priv⟩ := k
  unfold XKey.wf at hw
  simp only [Bool.and_eq_true, decide_eq_true_eq] at hw
  obtain ⟨⟨⟨⟨h1, h2⟩, h3⟩, h4⟩, h5⟩ := hw
  unfold xkeyParse xkeyString
  simp only [b58_decode_encode]
  generalize hkd : (if priv = true then 0 :: padLeft 32 key else key) = kd
  have hkdl : kd.length = 33 := by
    rw [← hkd]; cases priv with
    | true => simp only [if_true] at h5 ⊢; simp only [Bool.and_eq_true, decide_eq_true_eq] at h5
              rw [padLeft_full 32 key h5.1]; simp [h5.1]
    | false => simp only [Bool.false_eq_true, if_false, Bool.and_eq_true, decide_eq_true_eq] at h5 ⊢; exact h5.1.1
  have hpay : xkeyPayload ⟨ver, depth, fp, cn, cc, key, priv⟩ = ver ++ ([depth] ++ (fp ++ (be32 cn ++ (cc ++ kd)))) := by
    unfold xkeyPayload; simp only [hkd]
  have hpl : (ver ++ ([depth] ++ (fp ++ (be32 cn ++ (cc ++ kd))))).length = 78 := by
    simp [h1, h2, h3, hkdl, be32]
  rw [hpay]
  rw [if_neg (by simp only [List.length_append, hpl, hH]; decide)]
  rw [takeN_append 78 _ _ hpl]
  simp only [ne_eq, not_true_eq_false, if_false]
  have hbe : (be32 cn).length = 4 := by simp [be32]
  simp only [takeN_append 4 ver _ h1, List.singleton_append, takeN_append 4 fp _ h2,
    takeN_append 4 (be32 cn) _ hbe, takeN_append 32 cc _ h3, beNat_be32 cn h4]
  cases priv with
  | true =>
    simp only [if_true] at h5 hkd
    simp only [Bool.and_eq_true, decide_eq_true_eq] at h5
    rw [padLeft_full 32 key h5.1] at hkd
    subst hkd
    simp only [h5.2, if_true]
  | false =>
    simp only [Bool.false_eq_true, if_false] at h5 hkd
    simp only [Bool.and_eq_true, decide_eq_true_eq, ne_eq] at h5
    subst hkd
    match key, h5 with
    | [], h5 => simp at h5
    | x :: t, h5 =>
      have hx : x ≠ 0 := by
        intro h0; apply h5.1.2; simp [h0]
      have : (match x :: t with
          | 0 :: priv => if validScalar priv = true then
              Except.ok (⟨ver, depth, fp, cn, cc, priv, true⟩ : XKey) else Except.error XKeyErr.unusable
          | _ => if validPK (x :: t) = true then
              Except.ok (⟨ver, depth, fp, cn, cc, x :: t, false⟩ : XKey) else Except.error XKeyErr.pubkey) =
          Except.ok ⟨ver, depth, fp, cn, cc, x :: t, false⟩ := by
        split
        · rename_i heq; injection heq with h0 _; exact absurd h0 hx
        · simp [h5.2]
      exact this

/-- **xkey_string_roundtrip** (decode → encode): an accepted string is reproduced exactly, and the key is well formed -/
theorem xkeyString_xkeyParse (H : List UInt8 → List UInt8) (validPK : List UInt8 → Bool) (s : List UInt8) (k : XKey)
    (h : xkeyParse H validPK s = .ok k) : xkeyString H k = s ∧ XKey.wf validPK k = true := by
  unfold xkeyParse at h
  simp only [] at h
  split at h
  · cases h
  · rename_i hlen
    have hlen : (b58Decode s).length = 82 := by simpa using hlen
    cases t0 : takeN 78 (b58Decode s) with
    | none => simp [t0] at h
    | some p0 =>
      obtain ⟨payload, ck⟩ := p0
      simp only [t0] at h
      split at h
      · cases h
      · rename_i hck
        have hck : H payload = ck := by simpa using hck
        obtain ⟨e0, l0⟩ := takeN_some _ _ _ _ t0
        cases t1 : takeN 4 payload with
        | none => simp [t1] at h
        | some p1 =>
          obtain ⟨ver, r1⟩ := p1
          simp only [t1] at h
          obtain ⟨e1, l1⟩ := takeN_some _ _ _ _ t1
          match r1, h, e1 with
          | [], h, _ => simp at h
          | depth :: r2, h, e1 =>
            simp only [] at h
            cases t2 : takeN 4 r2 with
            | none => simp [t2] at h
            | some p2 =>
              obtain ⟨fp, r3⟩ := p2
              simp only [t2] at h
              obtain ⟨e2, l2⟩ := takeN_some _ _ _ _ t2
              cases t3 : takeN 4 r3 with
              | none => simp [t3] at h
              | some p3 =>
                obtain ⟨cnb, r4⟩ := p3
                simp only [t3] at h
                obtain ⟨e3, l3⟩ := takeN_some _ _ _ _ t3
                cases t4 : takeN 32 r4 with
                | none => simp [t4] at h
                | some p4 =>
                  obtain ⟨cc, kd⟩ := p4
                  simp only [t4] at h
                  obtain ⟨e4, l4⟩ := takeN_some _ _ _ _ t4
                  have hkdl : kd.length = 33 := by
                    have : payload.length = 78 := l0
                    rw [e1, e2, e3, e4] at this
                    simp only [List.length_append, List.length_cons, l1, l2, l3, l4] at this
                    omega
                  have hcn : beNat cnb < 2 ^ 32 := by
                    match cnb, l3 with
                    | [a, b, c, d], _ =>
                      have ha := a.toNat_lt; have hb := b.toNat_lt; have hc := c.toNat_lt; have hd := d.toNat_lt
                      unfold beNat; simp only [List.foldl_cons, List.foldl_nil]; omega
                  have hvalid : b58Valid s = true := b58Valid_of_decode_ne s (by
                    intro h0; rw [h0] at hlen; simp at hlen)
                  have hstr : ∀ kd', kd' = kd →
                      b58Encode ((ver ++ ([depth] ++ (fp ++ (be32 (beNat cnb) ++ (cc ++ kd'))))) ++
                        H (ver ++ ([depth] ++ (fp ++ (be32 (beNat cnb) ++ (cc ++ kd')))))) = s := by
                    intro kd' hk'
                    rw [hk', be32_beNat cnb l3]
                    have : ver ++ ([depth] ++ (fp ++ (cnb ++ (cc ++ kd)))) = payload := by
                      rw [e1, e2, e3, e4]; simp
                    rw [this, hck, ← e0]
                    exact b58_encode_decode s hvalid
                  split at h
                  · rename_i priv
                    split at h
                    · rename_i hvs
                      injection h with h; subst h
                      have hpl : priv.length = 32 := by simpa using hkdl
                      refine ⟨?_, ?_⟩
                      · unfold xkeyString xkeyPayload
                        simp only [if_true, padLeft_full 32 priv hpl]
                        exact hstr (0 :: priv) rfl
                      · unfold XKey.wf
                        simp [l1, l2, l4, hcn, hpl, hvs]
                    · cases h
                  · rename_i hnot
                    split at h
                    · rename_i hvp
                      injection h with h; subst h
                      refine ⟨?_, ?_⟩
                      · unfold xkeyString xkeyPayload
                        simp only [Bool.false_eq_true, if_false]
                        exact hstr kd rfl
                      · unfold XKey.wf
                        have hh : kd.head? ≠ some 0 := by
                          match kd, hnot with
                          | [], _ => simp
                          | x :: t, hnot =>
                            simp only [List.head?_cons, ne_eq, Option.some.injEq]
                            intro hx; subst hx; exact hnot t rfl
                        simp [l1, l2, l4, hcn, hkdl, hvp, hh]
                    · cases h

end BV.C16.Lemmas
