/- C16 helper lemmas (umbrella). -/
import BV.C16.Base58Lemmas
