/- C16 helper lemmas (umbrella). -/
import BV.C16.Base58Lemmas
import BV.C16.Bech32Lemmas
import BV.C16.ConvertLemmas
import BV.C16.BechStringLemmas
import BV.C16.AddressLemmas
import BV.C16.DecodeLemmas
import BV.C16.ScriptLemmas
import BV.C16.ScriptRoundtrip
import BV.C16.KeysLemmas
import BV.C16.TaprootLemmas
import BV.C16.PubKeyLemmas
import BV.C16.Base58AlgoLemmas
import BV.C16.MainnetLemmas
import BV.C16.ExtraLemmas
