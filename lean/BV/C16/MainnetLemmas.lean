/- C16 lemmas: the `segwitPrefix = none` hypothesis discharged for main-network P2PKH strings (they start with '1'). -/
import BV.C16.DecodeLemmas
namespace BV.C16.Lemmas
open BV.C16 Radix

/-- a string whose first character is `'1'` is never read as a segwit address of a shipped network -/
theorem segwitPrefix_one (t : List UInt8) : segwitPrefix Spec.registeredHrps (49 :: t) = none := by
  unfold segwitPrefix
  cases hs : splitLastOne (49 :: t) with
  | none => rfl
  | some p =>
    obtain ⟨h, d⟩ := p
    simp only []
    have ⟨he, _⟩ := splitLastOne_some _ _ _ hs
    match h, he with
    | [], _ => simp
    | c :: h', he =>
      have hc : c = 49 := by
        simp only [List.cons_append, List.cons.injEq] at he; exact he.1.symm
      subst hc
      have : Spec.registeredHrps.contains (lowerStr (49 :: h')) = false := by
        have e : lowerStr (49 :: h') = 49 :: lowerStr h' := rfl
        rw [e]
        simp [Spec.registeredHrps, Spec.registered, Spec.customNet, Spec.mainNet, Spec.testNet3, Spec.testNet4,
          Spec.regNet, Spec.simNet]
      rw [this]; simp

/-- Base58Check with version byte 0 starts with `'1'` -/
theorem checkEncode_zero_head (H : List UInt8 → List UInt8) (p : List UInt8) :
    ∃ t, checkEncode H p 0 = 49 :: t := by
  unfold checkEncode b58Encode conv
  simp only [List.map_cons, List.cons_append]
  have : lz ((0 : UInt8).toNat :: (p ++ H (0 :: p)).map UInt8.toNat) =
      lz ((p ++ H (0 :: p)).map UInt8.toNat) + 1 := rfl
  simp only [List.map_append] at this ⊢
  rw [this, List.replicate_succ]
  exact ⟨_, rfl⟩

/-- **main-network P2PKH addresses round-trip with no side condition** -/
theorem mainnet_p2pkh_roundtrip (H : List UInt8 → List UInt8) (hH : ∀ x, (H x).length = 4)
    (validPK : List UInt8 → Bool) (h : List UInt8) (hl : h.length = 20) :
    decodeAddress Spec.registeredHrps H validPK ((Addr.pkh h Spec.mainNet.pkh).string H) Spec.mainNet =
      .ok (.pkh h Spec.mainNet.pkh) := by
  have key := (decodeAddress_string_b58 Spec.registeredHrps H hH validPK Spec.mainNet (by decide) h hl).1
  apply key
  obtain ⟨t, ht⟩ := checkEncode_zero_head H h
  have : Spec.mainNet.pkh = 0 := rfl
  rw [this, ht]
  exact segwitPrefix_one t

end BV.C16.Lemmas
