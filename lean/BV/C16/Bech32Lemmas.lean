/- C16 lemmas: bech32 checksum algebra (polymod is affine in the injected symbols). Core-only. -/
import BV.C16.Bech32
namespace BV.C16.Lemmas
open BV.C16

theorem list_rev_ind {α} {P : List α → Prop} (hnil : P []) (hsnoc : ∀ l a, P l → P (l ++ [a]))
    (l : List α) : P l := by
  have : ∀ r : List α, P r.reverse := by
    intro r; induction r with
    | nil => exact hnil
    | cons a r ih => rw [List.reverse_cons]; exact hsnoc _ _ ih
  have h := this l.reverse; rwa [List.reverse_reverse] at h

/-- the low 25 bits of the state only move up; the top 5 bits select generators -/
theorem polyBase_xor (c d : Nat) (hd : d < 2 ^ 25) : polyBase (c ^^^ d) = polyBase c ^^^ (d <<< 5) := by
  unfold polyBase
  have h1 : (c ^^^ d) >>> 25 = c >>> 25 := by
    rw [Nat.shiftRight_xor_distrib, Nat.shiftRight_eq_zero d 25 hd, Nat.xor_zero]
  have h2 : d &&& 0x1ffffff = d := by
    have : (0x1ffffff : Nat) = 2 ^ 25 - 1 := by decide
    rw [this, Nat.and_two_pow_sub_one_eq_mod, Nat.mod_eq_of_lt hd]
  rw [h1, Nat.and_xor_distrib_right, h2, Nat.shiftLeft_xor_distrib]
  -- (a ^ b) ^ g = (a ^ g) ^ b
  rw [Nat.xor_assoc, Nat.xor_comm (d <<< 5), ← Nat.xor_assoc]

theorem polyStep_xor (c d v : Nat) (hd : d < 2 ^ 25) :
    polyStep (c ^^^ d) v = polyStep c 0 ^^^ ((d <<< 5) ^^^ v) := by
  unfold polyStep
  rw [polyBase_xor c d hd, Nat.xor_zero, Nat.xor_assoc]

/-- big-endian packing of 5-bit symbols -/
def pack : List Nat → Nat
  | [] => 0
  | v :: vs => pack vs ^^^ (v <<< (5 * vs.length))

/-- symbols pushed so far, as they sit in the state: first symbol highest -/
def packL (vs : List Nat) : Nat := vs.foldl (fun a v => (a <<< 5) ^^^ v) 0

theorem shl_xor_lt (a v k : Nat) (ha : a < 2 ^ k) (hv : v < 32) : (a <<< 5) ^^^ v < 2 ^ (k + 5) := by
  apply Nat.xor_lt_two_pow
  · rw [Nat.shiftLeft_eq, Nat.pow_add]; exact Nat.mul_lt_mul_of_pos_right ha (by decide)
  · calc v < 2 ^ 5 := hv
      _ ≤ 2 ^ (k + 5) := Nat.pow_le_pow_right (by decide) (by omega)

theorem packL_snoc (vs : List Nat) (v : Nat) : packL (vs ++ [v]) = (packL vs <<< 5) ^^^ v := by
  unfold packL; rw [List.foldl_append]; rfl

theorem packL_lt (vs : List Nat) (h : ∀ v ∈ vs, v < 32) : packL vs < 2 ^ (5 * vs.length) := by
  induction vs using list_rev_ind with
  | hnil => simp [packL]
  | hsnoc vs v ih =>
    rw [packL_snoc, List.length_append, List.length_singleton, Nat.mul_add, Nat.mul_one]
    exact shl_xor_lt _ _ _ (ih (fun x hx => h x (List.mem_append_left _ hx)))
      (h v (List.mem_append_right _ List.mem_cons_self))

/-- **polymod is affine in up to six trailing symbols**: feeding `vs` instead of zeros xors the packed symbols in. -/
theorem foldl_polyStep_xor (c : Nat) (vs : List Nat) (h : ∀ v ∈ vs, v < 32) (hl : vs.length ≤ 6) :
    vs.foldl polyStep c = (List.replicate vs.length 0).foldl polyStep c ^^^ packL vs := by
  induction vs using list_rev_ind with
  | hnil => simp [packL]
  | hsnoc vs v ih =>
    have hl' : vs.length ≤ 5 := by simp at hl; omega
    have ih := ih (fun x hx => h x (List.mem_append_left _ hx)) (by omega)
    have hlt : packL vs < 2 ^ 25 := by
      have := packL_lt vs (fun x hx => h x (List.mem_append_left _ hx))
      exact Nat.lt_of_lt_of_le this (Nat.pow_le_pow_right (by decide) (by omega))
    rw [List.foldl_append, List.foldl_cons, List.foldl_nil, ih, polyStep_xor _ _ _ hlt, packL_snoc]
    rw [List.length_append, List.length_singleton, List.replicate_succ', List.foldl_append]
    rfl

/-- the state stays below 2^30 -/
theorem genXor_lt (b : Nat) : genXor b < 2 ^ 30 := by
  unfold genXor
  repeat' apply Nat.xor_lt_two_pow
  all_goals (split <;> decide)

theorem polyStep_lt (c v : Nat) (hv : v < 2 ^ 30) : polyStep c v < 2 ^ 30 := by
  unfold polyStep polyBase
  apply Nat.xor_lt_two_pow _ hv
  apply Nat.xor_lt_two_pow _ (genXor_lt _)
  have : (0x1ffffff : Nat) = 2 ^ 25 - 1 := by decide
  rw [this, Nat.and_two_pow_sub_one_eq_mod, Nat.shiftLeft_eq]
  have := Nat.mod_lt c (by decide : 0 < 2 ^ 25)
  calc c % 2 ^ 25 * 2 ^ 5 < 2 ^ 25 * 2 ^ 5 := Nat.mul_lt_mul_of_pos_right this (by decide)
    _ = 2 ^ 30 := by decide

theorem foldl_polyStep_lt (c : Nat) (vs : List Nat) (hc : c < 2 ^ 30) (h : ∀ v ∈ vs, v < 2 ^ 30) :
    vs.foldl polyStep c < 2 ^ 30 := by
  induction vs generalizing c with
  | nil => exact hc
  | cons v vs ih =>
    exact ih _ (polyStep_lt c v (h v List.mem_cons_self)) (fun x hx => h x (List.mem_cons_of_mem _ hx))

/-- the six checksum symbols of `x < 2^30` pack back to `x` -/
theorem packL_checksumOf (x : Nat) (hx : x < 2 ^ 30) : packL (checksumOf x) = x := by
  have h31 : ∀ y : Nat, y &&& 31 = y % 32 := fun y => by
    have : (31 : Nat) = 2 ^ 5 - 1 := by decide
    rw [this, Nat.and_two_pow_sub_one_eq_mod]
  have hx' : x < 1073741824 := hx
  -- (a <<< 5) ^^^ v = a * 32 + v for v < 32
  have key : ∀ a v : Nat, v < 32 → (a <<< 5) ^^^ v = a * 32 + v := by
    intro a v hv
    apply Nat.eq_of_testBit_eq
    intro i
    have hadd : a * 32 + v = (a <<< 5) ||| v := by
      rw [← Nat.shiftLeft_add_eq_or_of_lt (by simpa using hv), Nat.shiftLeft_eq]
    rw [hadd, Nat.testBit_xor, Nat.testBit_or, Nat.testBit_shiftLeft]
    by_cases hi : 5 ≤ i
    · have : v.testBit i = false := Nat.testBit_lt_two_pow (Nat.lt_of_lt_of_le hv (by
        calc 32 = 2 ^ 5 := by decide
          _ ≤ 2 ^ i := Nat.pow_le_pow_right (by decide) hi))
      simp [this]
    · simp [hi]
  unfold checksumOf packL
  simp only [List.foldl_cons, List.foldl_nil, h31, Nat.shiftRight_eq_div_pow]
  rw [key _ _ (Nat.mod_lt _ (by decide)), key _ _ (Nat.mod_lt _ (by decide)), key _ _ (Nat.mod_lt _ (by decide)),
      key _ _ (Nat.mod_lt _ (by decide)), key _ _ (Nat.mod_lt _ (by decide)), key _ _ (Nat.mod_lt _ (by decide))]
  simp only [Nat.zero_shiftLeft, Nat.zero_mul, Nat.zero_add]
  omega

theorem checksumOf_lt (x : Nat) : ∀ v ∈ checksumOf x, v < 32 := by
  have h31 : ∀ y : Nat, y &&& 31 < 32 := fun y => by
    have : (31 : Nat) = 2 ^ 5 - 1 := by decide
    rw [this, Nat.and_two_pow_sub_one_eq_mod]; exact Nat.mod_lt _ (by decide)
  intro v hv
  unfold checksumOf at hv
  simp only [List.mem_cons, List.not_mem_nil, or_false] at hv
  rcases hv with h | h | h | h | h | h <;> (subst h; exact h31 _)

theorem hrpExpand_lt (hrp : List UInt8) : ∀ v ∈ hrpExpand hrp, v < 2 ^ 30 := by
  intro v hv
  unfold hrpExpand at hv
  have hb : ∀ c : UInt8, c.toNat < 256 := fun c => c.toNat_lt
  simp only [List.mem_append, List.mem_map, List.mem_cons, List.not_mem_nil, or_false] at hv
  rcases hv with (⟨c, _, rfl⟩ | rfl) | ⟨c, _, rfl⟩
  · rw [Nat.shiftRight_eq_div_pow]; have := hb c; omega
  · decide
  · have : (31 : Nat) = 2 ^ 5 - 1 := by decide
    rw [this, Nat.and_two_pow_sub_one_eq_mod]; have := Nat.mod_lt c.toNat (by decide : 0 < 2 ^ 5); omega

/-- polymod with the zero checksum stays below 2^30 (for 5-bit data) -/
theorem polymod_zero_lt (hrp : List UInt8) (data : List Nat) (hd : ∀ v ∈ data, v < 32) :
    polymod hrp data [0, 0, 0, 0, 0, 0] < 2 ^ 30 := by
  unfold polymod
  apply foldl_polyStep_lt
  · apply foldl_polyStep_lt
    · exact foldl_polyStep_lt _ _ (by decide) (hrpExpand_lt hrp)
    · intro v hv; have := hd v hv; omega
  · intro v hv; simp at hv; subst hv; decide

/-- **checksum_create_verify**: the created checksum makes polymod equal the constant. -/
theorem polymod_createChecksum (hrp : List UInt8) (data : List Nat) (hd : ∀ v ∈ data, v < 32) (k : Nat)
    (hk : k < 2 ^ 30) : polymod hrp data (createChecksum hrp data k) = k := by
  have hlt := polymod_zero_lt hrp data hd
  have hx : polymod hrp data [0, 0, 0, 0, 0, 0] ^^^ k < 2 ^ 30 := Nat.xor_lt_two_pow hlt hk
  unfold createChecksum
  generalize hP : polymod hrp data [0, 0, 0, 0, 0, 0] = P at *
  have hlen : (checksumOf (P ^^^ k)).length = 6 := rfl
  unfold polymod at hP ⊢
  rw [foldl_polyStep_xor _ _ (checksumOf_lt _) (by rw [hlen]; omega), hlen, packL_checksumOf _ hx]
  have : List.replicate 6 0 = [0, 0, 0, 0, 0, 0] := rfl
  rw [this, hP, ← Nat.xor_assoc, Nat.xor_self, Nat.zero_xor]

/-- packL is injective on 6-symbol lists of 5-bit values (via `checksumOf`). -/
theorem checksumOf_packL (cs : List Nat) (hl : cs.length = 6) (h : ∀ v ∈ cs, v < 32) :
    checksumOf (packL cs) = cs := by
  match cs, hl with
  | [a, b, c, d, e, f], _ =>
    have ha := h a (by simp); have hb := h b (by simp); have hc := h c (by simp)
    have hd := h d (by simp); have he := h e (by simp); have hf := h f (by simp)
    have key : ∀ a v : Nat, v < 32 → (a <<< 5) ^^^ v = a * 32 + v := by
      intro a v hv
      apply Nat.eq_of_testBit_eq
      intro i
      have hadd : a * 32 + v = (a <<< 5) ||| v := by
        rw [← Nat.shiftLeft_add_eq_or_of_lt (by simpa using hv), Nat.shiftLeft_eq]
      rw [hadd, Nat.testBit_xor, Nat.testBit_or, Nat.testBit_shiftLeft]
      by_cases hi : 5 ≤ i
      · have : v.testBit i = false := Nat.testBit_lt_two_pow (Nat.lt_of_lt_of_le hv (by
          calc 32 = 2 ^ 5 := by decide
            _ ≤ 2 ^ i := Nat.pow_le_pow_right (by decide) hi))
        simp [this]
      · simp [hi]
    have h31 : ∀ y : Nat, y &&& 31 = y % 32 := fun y => by
      have : (31 : Nat) = 2 ^ 5 - 1 := by decide
      rw [this, Nat.and_two_pow_sub_one_eq_mod]
    unfold packL checksumOf
    simp only [List.foldl_cons, List.foldl_nil, h31, Nat.shiftRight_eq_div_pow]
    rw [key _ _ ha, key _ _ hb, key _ _ hc, key _ _ hd, key _ _ he, key _ _ hf]
    simp only [Nat.zero_mul, Nat.zero_add]
    have e1 : (((((a * 32 + b) * 32 + c) * 32 + d) * 32 + e) * 32 + f) / 2 ^ 25 % 32 = a := by omega
    have e2 : (((((a * 32 + b) * 32 + c) * 32 + d) * 32 + e) * 32 + f) / 2 ^ 20 % 32 = b := by omega
    have e3 : (((((a * 32 + b) * 32 + c) * 32 + d) * 32 + e) * 32 + f) / 2 ^ 15 % 32 = c := by omega
    have e4 : (((((a * 32 + b) * 32 + c) * 32 + d) * 32 + e) * 32 + f) / 2 ^ 10 % 32 = d := by omega
    have e5 : (((((a * 32 + b) * 32 + c) * 32 + d) * 32 + e) * 32 + f) / 2 ^ 5 % 32 = e := by omega
    have e6 : (((((a * 32 + b) * 32 + c) * 32 + d) * 32 + e) * 32 + f) % 32 = f := by omega
    rw [e1, e2, e3, e4, e5, e6]

/-- **uniqueness**: a six-symbol checksum that verifies against constant `k` IS the created checksum. -/
theorem checksum_unique (hrp : List UInt8) (data cs : List Nat) (hd : ∀ v ∈ data, v < 32)
    (hl : cs.length = 6) (hcs : ∀ v ∈ cs, v < 32) (k : Nat)
    (h : polymod hrp data cs = k) : cs = createChecksum hrp data k := by
  unfold createChecksum
  have : polymod hrp data cs = polymod hrp data [0, 0, 0, 0, 0, 0] ^^^ packL cs := by
    unfold polymod
    rw [foldl_polyStep_xor _ _ hcs (by omega), hl]; rfl
  rw [this] at h
  have : polymod hrp data [0, 0, 0, 0, 0, 0] ^^^ k = packL cs := by
    rw [← h, ← Nat.xor_assoc, Nat.xor_self, Nat.zero_xor]
  rw [this, checksumOf_packL cs hl hcs]

end BV.C16.Lemmas
