/- C16 lemmas: raw public-key "addresses" (hex strings) round trip through DecodeAddress. Core-only. -/
import BV.C16.DecodeLemmas
import BV.C16.ScriptRoundtrip
namespace BV.C16.Lemmas
open BV.C16

set_option maxRecDepth 20000 in
theorem hex_byte : ∀ x : UInt8, hexVal? (hexNib (x / 16)) = some (x / 16) ∧ hexVal? (hexNib (x % 16)) = some (x % 16) ∧
    (x / 16) * 16 + x % 16 = x := by
  apply forall_uint8; decide

theorem hexEncode_cons (x : UInt8) (t : List UInt8) :
    hexEncode (x :: t) = hexNib (x / 16) :: hexNib (x % 16) :: hexEncode t := by
  unfold hexEncode; simp

theorem hexDecode_hexEncode : ∀ b : List UInt8, hexDecode? (hexEncode b) = some b
  | [] => rfl
  | x :: t => by
    rw [hexEncode_cons]
    unfold hexDecode?
    obtain ⟨h1, h2, h3⟩ := hex_byte x
    simp only [h1, h2, hexDecode_hexEncode t, h3]

theorem hexEncode_length : ∀ b : List UInt8, (hexEncode b).length = 2 * b.length
  | [] => rfl
  | x :: t => by rw [hexEncode_cons]; simp only [List.length_cons, hexEncode_length t]; omega

/-- encode → decode for pay-to-pubkey addresses: `String()` (hex of the serialized key, compressed or uncompressed)
decodes back to the same address on the default network. -/
theorem decodeAddress_string_pk (regs : List (List UInt8)) (H : List UInt8 → List UInt8) (validPK : List UInt8 → Bool)
    (net : Net) (ser : List UInt8) (hwf : (Addr.pk ser net.pkh).wf = true) (hv : validPK ser = true)
    (hs : segwitPrefix regs (hexEncode ser) = none) :
    decodeAddress regs H validPK ((Addr.pk ser net.pkh).string H) net = .ok (.pk ser net.pkh) := by
  simp only [Addr.string]
  rw [decodeAddress_none regs H validPK net _ hs]
  unfold decodeLegacy
  have hl : (hexEncode ser).length = 130 ∨ (hexEncode ser).length = 66 := by
    rw [hexEncode_length]
    simp only [Addr.wf, Bool.or_eq_true, Bool.and_eq_true, decide_eq_true_eq] at hwf
    rcases hwf with ⟨h, _⟩ | ⟨h, _⟩ <;> omega
  have hc : (decide ((hexEncode ser).length = 130) || decide ((hexEncode ser).length = 66)) = true := by
    simp only [Bool.or_eq_true, decide_eq_true_eq]; exact hl
  rw [if_pos hc, hexDecode_hexEncode]
  simp only [hv, if_true]
  rw [normPK_wf ser (by simpa [Addr.wf] using hwf)]

end BV.C16.Lemmas
