/- C16 lemmas: secondary entry points agree with the primary ones. Core-only. -/
import BV.C16.Extra
import BV.C16.ScriptRoundtrip
namespace BV.C16.Lemmas
open BV.C16

/-- `DecodeNoLimit…` and `Decode…` agree on every string of at most 90 characters; longer ones are refused by
the limited variants only -/
theorem bechDecode_noLimit (s : List UInt8) :
    bechDecode s = if s.length > 90 then .error .length else bechDecodeNoLimit s := rfl

/-- the standard and the "non-standard" (issue 172) derivation agree whenever the parent's private key is stored
with its full 32 bytes, is below the group order, and IL ≠ 0 -/
theorem deriveNonStd_eq_derive {Pt : Type} (C : Curve Pt) (hmac : List UInt8 → List UInt8 → List UInt8)
    (h160 : List UInt8 → List UInt8) (k : XKey) (i : Nat)
    (hlen : k.isPrivate = true → k.key.length = 32 ∧ beNat k.key < C.n)
    (hil : ∀ data, beNat ((hmac k.chainCode data).take 32) ≠ 0) :
    deriveNonStd C hmac h160 k i = derive C hmac h160 k i := by
  unfold deriveNonStd derive
  simp only []
  by_cases hd : k.depth = 255
  · simp only [hd, if_true]
  · simp only [hd, if_false]
    cases hhp : (!k.isPrivate && decide (i ≥ 2 ^ 31)) with
    | true => simp only [if_true]
    | false =>
      simp only [Bool.false_eq_true, if_false]
      have hdata : (if i ≥ 2 ^ 31 then (0 :: k.key ++ List.replicate (32 - k.key.length) 0).take 33 else pubKeyBytes C k) =
          (if i ≥ 2 ^ 31 then padLeft 33 k.key else pubKeyBytes C k) := by
        by_cases hh : i ≥ 2 ^ 31
        · simp only [hh, if_true]
          have hp : k.isPrivate = true := by
            cases hk : k.isPrivate with
            | true => rfl
            | false => simp [hk, hh] at hhp
          have h32 := (hlen hp).1
          unfold padLeft
          rw [h32]
          have e1 : (33 : Nat) - 32 = 1 := rfl
          simp only [Nat.sub_self, List.replicate_zero, List.append_nil, e1, List.replicate_one]
          have : (0 :: k.key).length = 33 := by simp [h32]
          rw [← this, List.take_length]
          rfl
        · simp only [hh, if_false]
      simp only [hdata]
      have hz := hil ((if i ≥ 2 ^ 31 then padLeft 33 k.key else pubKeyBytes C k) ++ be32 i)
      simp only [hz, decide_false, Bool.or_false, decide_eq_true_eq]
      by_cases hge : beNat ((hmac k.chainCode ((if i ≥ 2 ^ 31 then padLeft 33 k.key else pubKeyBytes C k) ++ be32 i)).take 32) ≥ C.n
      · simp only [hge, if_true]
      · simp only [hge, if_false]
        cases hp : k.isPrivate with
        | true =>
          have := (hlen hp).2
          simp only [if_true]
          rw [if_neg (show ¬ beNat k.key ≥ C.n by omega)]
        | false => simp only [Bool.false_eq_true, if_false]; rfl

section
variable (h160 sha : List UInt8 → List UInt8)

/-- the scripts `ComputePkScript` reconstructs are recognised as the class it reports -/
theorem computePkScript_class (h20 : ∀ x, (h160 x).length = 20) (h32 : ∀ x, (sha x).length = 32)
    (sig : List UInt8) (wit : List (List UInt8)) (c : ScriptClass) (s : List UInt8)
    (h : computePkScript h160 sha sig wit = some (c, s)) : getScriptClass s = c := by
  have net : Net := ⟨"", 0, 5, 0, [], [], []⟩
  have vp : List UInt8 → Bool := fun _ => true
  have kpkh : ∀ x : List UInt8, getScriptClass ([0x76, 0xa9, 0x14] ++ h160 x ++ [0x88, 0xac]) = .pubKeyHash := by
    intro x
    have e := xtr_pkh (fun _ => true) ⟨"", 0, 5, 0, [], [], []⟩ (h160 x) (h20 x)
    have a := class_agree (fun _ => true) (payToAddrScript (.pkh (h160 x) 0)) ⟨"", 0, 5, 0, [], [], []⟩
    rw [e] at a; exact a.symm
  have ksh : ∀ x : List UInt8, getScriptClass ([0xa9, 0x14] ++ h160 x ++ [0x87]) = .scriptHash := by
    intro x
    have e := xtr_sh (fun _ => true) ⟨"", 0, 5, 0, [], [], []⟩ (h160 x) (h20 x)
    have a := class_agree (fun _ => true) (payToAddrScript (.sh (h160 x) 5)) ⟨"", 0, 5, 0, [], [], []⟩
    rw [e] at a; exact a.symm
  have kwpkh : ∀ x : List UInt8, getScriptClass ([0x00, 0x14] ++ h160 x) = .witnessV0PubKeyHash := by
    intro x
    have e := xtr_wpkh (fun _ => true) ⟨"", 0, 5, 0, [], [], []⟩ (h160 x) (h20 x)
    have a := class_agree (fun _ => true) (payToAddrScript (.wpkh (lowerStr []) (h160 x))) ⟨"", 0, 5, 0, [], [], []⟩
    rw [e] at a; exact a.symm
  have kwsh : ∀ x : List UInt8, getScriptClass ([0x00, 0x20] ++ sha x) = .witnessV0ScriptHash := by
    intro x
    have e := xtr_wsh (fun _ => true) ⟨"", 0, 5, 0, [], [], []⟩ (sha x) (h32 x)
    have a := class_agree (fun _ => true) (payToAddrScript (.wsh (lowerStr []) (sha x))) ⟨"", 0, 5, 0, [], [], []⟩
    rw [e] at a; exact a.symm
  unfold computePkScript at h
  simp only [] at h
  repeat' (split at h)
  all_goals (cases h <;> simp only [kpkh, ksh, kwpkh, kwsh])
end

/-- every witness template is a witness program with the expected version and program
(`ExtractWitnessProgramInfo` agrees with the template extractors) -/
theorem witnessProgramInfo_templates (s p : List UInt8) :
    (extractWitnessPubKeyHash s = some p → witnessProgramInfo s = some (0, p)) ∧
    (extractWitnessV0ScriptHash s = some p → witnessProgramInfo s = some (0, p)) ∧
    (extractWitnessV1KeyBytes s = some p → witnessProgramInfo s = some (1, p)) := by
  refine ⟨?_, ?_, ?_⟩
  · intro h
    unfold extractWitnessPubKeyHash at h
    split at h
    · rename_i hc
      simp only [Bool.and_eq_true, decide_eq_true_eq] at hc
      obtain ⟨q, rfl, hq⟩ := shape2 s 0 0x14 20 hc.1 hc.2
      injection h with h; subst h
      obtain ⟨x0,x1,x2,x3,x4,x5,x6,x7,x8,x9,x10,x11,x12,x13,x14,x15,x16,x17,x18,x19, rfl⟩ := len20 q hq
      rfl
    · cases h
  · intro h
    unfold extractWitnessV0ScriptHash at h
    split at h
    · rename_i hc
      simp only [Bool.and_eq_true, decide_eq_true_eq] at hc
      obtain ⟨q, rfl, hq⟩ := shape2 s 0 0x20 32 hc.1 hc.2
      injection h with h; subst h
      obtain ⟨x0,x1,x2,x3,x4,x5,x6,x7,x8,x9,x10,x11,x12,x13,x14,x15,x16,x17,x18,x19,x20,x21,x22,x23,x24,x25,x26,x27,x28,x29,x30,x31, rfl⟩ := len32 q hq
      rfl
    · cases h
  · intro h
    unfold extractWitnessV1KeyBytes at h
    split at h
    · rename_i hc
      simp only [Bool.and_eq_true, decide_eq_true_eq] at hc
      obtain ⟨q, rfl, hq⟩ := shape2 s 0x51 0x20 32 hc.1 hc.2
      injection h with h; subst h
      obtain ⟨x0,x1,x2,x3,x4,x5,x6,x7,x8,x9,x10,x11,x12,x13,x14,x15,x16,x17,x18,x19,x20,x21,x22,x23,x24,x25,x26,x27,x28,x29,x30,x31, rfl⟩ := len32 q hq
      rfl
    · cases h



theorem forall_uint8' (P : UInt8 → Prop) (h : ∀ n, n < 256 → P (UInt8.ofNat n)) (c : UInt8) : P c := by
  have := h c.toNat c.toNat_lt
  rwa [UInt8.ofNat_toNat] at this

set_option maxRecDepth 40000 in
theorem nullData_single : ∀ b : UInt8, b ≠ 0x81 → isNullData (0x6a :: canonicalPush [b]) = true := by
  apply forall_uint8'; decide

theorem toNat_ofNat_lt (n : Nat) (h : n < 256) : (UInt8.ofNat n).toNat = n := by
  simp [UInt8.toNat_ofNat', Nat.mod_eq_of_lt h]

/-- `NullDataScript d` is recognised as null data for every payload of at most 80 bytes except the single byte
0x81, which `AddData` turns into OP_1NEGATE — an opcode the recogniser does not count as a push -/
theorem nullDataScript_recognised (d : List UInt8) (hl : d.length ≤ 80) (h81 : d ≠ [0x81]) :
    ∃ s, nullDataScript d = some s ∧ isNullData s = true := by
  unfold nullDataScript
  rw [if_neg (by omega)]
  refine ⟨_, rfl, ?_⟩
  match d, hl, h81 with
  | [], _, _ => decide
  | [b], _, h81 => exact nullData_single b (fun e => h81 (by rw [e]))
  | a :: b :: t, hl, _ =>
    have hlen : (a :: b :: t).length = t.length + 2 := rfl
    generalize hd : a :: b :: t = d at *
    have hne : d ≠ [] := by rw [← hd]; simp
    by_cases h75 : d.length ≤ 75
    · have hcp : canonicalPush d = UInt8.ofNat d.length :: d := by
        subst hd; simp only [canonicalPush]; simp only [h75, if_true]
      rw [hcp]
      have hn := toNat_ofNat_lt d.length (by omega)
      have h1 : (1 : UInt8) ≤ UInt8.ofNat d.length := by rw [UInt8.le_iff_toNat_le, hn]; simp; omega
      have h2 : UInt8.ofNat d.length ≤ 75 := by rw [UInt8.le_iff_toNat_le, hn]; simpa using h75
      have ht : tokNext (UInt8.ofNat d.length :: d) = some (UInt8.ofNat d.length, d, []) := by
        unfold tokNext
        simp only [h1, h2, decide_true, Bool.and_self, if_true, hn]
        rw [if_neg (by omega), List.take_length, List.drop_length]
      unfold isNullData
      simp only [ne_eq, not_true_eq_false, if_false, ht]
      have h3 : UInt8.ofNat d.length ≤ 0x4e := by rw [UInt8.le_iff_toNat_le, hn]; simp; omega
      simp [h3, hne]; omega
    · have hcp : canonicalPush d = 0x4c :: UInt8.ofNat d.length :: d := by
        have h255 : d.length ≤ 255 := by omega
        subst hd; simp only [canonicalPush]; simp only [h75, h255, if_true, if_false]
      rw [hcp]
      have hn := toNat_ofNat_lt d.length (by omega)
      have ht : tokNext (0x4c :: UInt8.ofNat d.length :: d) = some (0x4c, d, []) := by
        unfold tokNext
        have c1 : (decide ((1 : UInt8) ≤ 0x4c) && decide ((0x4c : UInt8) ≤ 75)) = false := by decide
        simp only [c1, Bool.false_eq_true, if_false]
        simp only [decide_true, Bool.true_or, if_true, List.length_cons, List.take_succ_cons, List.take_zero,
          List.foldr_cons, List.foldr_nil, Nat.zero_mul, Nat.zero_add, hn, List.drop_succ_cons, List.drop_zero]
        rw [if_neg (by omega)]
        have : ¬ ((decide (d.length ≥ 2 ^ 31) || decide (d.length > d.length)) = true) := by simp; omega
        rw [if_neg this, List.take_length, List.drop_length]
      unfold isNullData
      simp only [ne_eq, not_true_eq_false, if_false, ht]
      simp [hl]

end BV.C16.Lemmas

namespace BV.C16.Lemmas
open BV.C16

theorem chunk32_flatten : ∀ (path : List (List UInt8)) (f : Nat), (∀ p ∈ path, p.length = 32) → path.length ≤ f →
    chunk32 f path.flatten = path
  | [], f, _, _ => by cases f <;> simp [chunk32]
  | p :: ps, 0, _, hf => by simp at hf
  | p :: ps, f+1, h, hf => by
    have hp : p.length = 32 := h p List.mem_cons_self
    have hne : p ++ ps.flatten ≠ [] := by
      intro e; have := congrArg List.length e; simp [hp] at this
    simp only [List.flatten_cons, chunk32, hne, if_false]
    rw [List.take_left' hp, List.drop_left' hp,
        chunk32_flatten ps f (fun q hq => h q (List.mem_cons_of_mem _ hq)) (by simpa using hf)]

theorem flatten_length32 : ∀ (path : List (List UInt8)), (∀ p ∈ path, p.length = 32) → path.flatten.length = 32 * path.length
  | [], _ => rfl
  | p :: ps, h => by
    simp only [List.flatten_cons, List.length_append, List.length_cons, h p List.mem_cons_self,
      flatten_length32 ps (fun q hq => h q (List.mem_cons_of_mem _ hq))]
    omega

set_option maxRecDepth 40000 in
theorem leafver_bits : ∀ v : UInt8, v &&& 1 = 0 →
    ((v ||| 1) &&& 1 = 1) ∧ ((v ||| 1) &&& 0xfe = v) ∧ ((v ||| 0) &&& 1 ≠ 1) ∧ ((v ||| 0) &&& 0xfe = v) := by
  apply forall_uint8'; decide

theorem parseControlBlock_gen (validX : List UInt8 → Bool) (h : UInt8) (x : List UInt8) (path : List (List UInt8))
    (hx : x.length = 32) (hvx : validX x = true) (hp : ∀ p ∈ path, p.length = 32) (hn : path.length ≤ 128) :
    parseControlBlock validX (h :: (x ++ path.flatten)) = .ok ⟨h &&& 1 = 1, h &&& 0xfe, x, path⟩ := by
  have hfl := flatten_length32 path hp
  have hlen : (h :: (x ++ path.flatten)).length = 33 + 32 * path.length := by
    simp only [List.length_cons, List.length_append, hx, hfl]; omega
  unfold parseControlBlock
  rw [hlen, if_neg (by omega), if_neg (by omega), if_neg (by omega)]
  simp only [List.take_left' hx, List.drop_left' hx, hvx, Bool.not_true, Bool.false_eq_true, if_false, hfl]
  have hq : 32 * path.length / 32 = path.length := by omega
  rw [hq, chunk32_flatten path _ hp (Nat.le_refl _)]

/-- `ParseControlBlock (ToBytes c) = c` for an even leaf version, a valid 32-byte internal key and at most 128
32-byte proof nodes -/
theorem parseControlBlock_bytes (validX : List UInt8 → Bool) (c : CtrlBlock)
    (hv : c.leafVer &&& 1 = 0) (hx : c.internalX.length = 32) (hvx : validX c.internalX = true)
    (hp : ∀ p ∈ c.path, p.length = 32) (hn : c.path.length ≤ 128) :
    parseControlBlock validX c.bytes = .ok c := by
  obtain ⟨par, ver, x, path⟩ := c
  simp only at hv hx hvx hp hn
  obtain ⟨b1, b2, b3, b4⟩ := leafver_bits ver hv
  have e : (CtrlBlock.mk par ver x path).bytes = (ver ||| (if par then 1 else 0)) :: (x ++ path.flatten) := rfl
  rw [e, parseControlBlock_gen validX _ x path hx hvx hp hn]
  cases par with
  | true => simp only [if_true, b1, b2, decide_true]
  | false => simp only [Bool.false_eq_true, if_false, b3, b4, decide_false]

end BV.C16.Lemmas
