/- C16 lemmas: script templates — PayToAddrScript / ExtractPkScriptAddrs / GetScriptClass. Core-only. -/
import BV.C16.Address
namespace BV.C16.Lemmas
open BV.C16

/-- a witness-program script `<v> <n> <n bytes>` (1 ≤ n ≤ 75) is never a multisig script -/
theorem extractMultisig_witness (v n : UInt8) (p : List UInt8) (hv : isSmallInt v = true)
    (hn1 : 1 ≤ n) (hn2 : n ≤ 75) (hp : p.length = n.toNat) : extractMultisig (v :: n :: p) = none := by
  unfold extractMultisig
  split
  · rfl
  · have hv' : ¬ (1 ≤ v ∧ v ≤ 75) ∧ v ≠ 76 ∧ v ≠ 77 ∧ v ≠ 78 := by
      unfold isSmallInt at hv
      simp only [Bool.or_eq_true, Bool.and_eq_true, decide_eq_true_eq] at hv
      rcases hv with h | ⟨h1, h2⟩
      · subst h; decide
      · refine ⟨?_, ?_, ?_, ?_⟩
        · intro ⟨_, h⟩
          have : (0x51 : UInt8) ≤ 75 := UInt8.le_trans h1 h
          exact absurd this (by decide)
        all_goals (intro h; subst h; revert h1 h2; decide)
    have t1 : tokNext (v :: n :: p) = some (v, [], n :: p) := by
      unfold tokNext
      have c1 : (decide (1 ≤ v) && decide (v ≤ 75)) = false := by
        simp only [Bool.and_eq_false_iff, decide_eq_false_iff_not]
        by_cases h : 1 ≤ v
        · right; intro h2; exact hv'.1 ⟨h, h2⟩
        · left; exact h
      have c2 : (decide (v = 76) || decide (v = 77) || decide (v = 78)) = false := by
        simp [hv'.2.1, hv'.2.2.1, hv'.2.2.2]
      simp only [c1, c2]; simp
    have t2 : tokNext (n :: p) = some (n, p, []) := by
      unfold tokNext
      have c1 : (decide (1 ≤ n) && decide (n ≤ 75)) = true := by simp [hn1, hn2]
      simp only [c1, if_true]
      rw [if_neg (by omega)]
      rw [← hp, List.take_length, List.drop_length]
    have hns : isSmallInt n = false ∨ isSmallInt n = true := by cases isSmallInt n <;> simp
    simp only [t1, hv, Bool.not_true, Bool.false_eq_true, if_false]
    have : msLoop (p.length + 1 + 1 + 1) (n :: p) 0 [] = none := by
      unfold msLoop
      simp only [t2]
      rcases hns with h | h
      · simp only [h, Bool.false_eq_true, if_false]
        unfold msLoop
        simp [tokNext]
      · simp [h]
    simp [this]

theorem shape2 (s : List UInt8) (a b : UInt8) (n : Nat) (hl : s.length = n + 2) (ht : s.take 2 = [a, b]) :
    ∃ p, s = a :: b :: p ∧ p.length = n := by
  match s, hl with
  | x :: y :: p, hl =>
    simp only [List.take_succ_cons, List.take_zero, List.cons.injEq, and_true] at ht
    obtain ⟨rfl, rfl⟩ := ht
    exact ⟨p, rfl, by simpa using hl⟩

theorem wpkh_not_ms (s : List UInt8) (h : (extractWitnessPubKeyHash s).isSome) : extractMultisig s = none := by
  unfold extractWitnessPubKeyHash at h
  split at h
  · rename_i hc
    simp only [Bool.and_eq_true, decide_eq_true_eq] at hc
    obtain ⟨p, rfl, hp⟩ := shape2 s 0 0x14 20 hc.1 hc.2
    exact extractMultisig_witness 0 0x14 p (by decide) (by decide) (by decide) (by simpa using hp)
  · cases h

theorem wsh_not_ms (s : List UInt8) (h : (extractWitnessV0ScriptHash s).isSome) : extractMultisig s = none := by
  unfold extractWitnessV0ScriptHash at h
  split at h
  · rename_i hc
    simp only [Bool.and_eq_true, decide_eq_true_eq] at hc
    obtain ⟨p, rfl, hp⟩ := shape2 s 0 0x20 32 hc.1 hc.2
    exact extractMultisig_witness 0 0x20 p (by decide) (by decide) (by decide) (by simpa using hp)
  · cases h

theorem tr_not_ms (s : List UInt8) (h : (extractWitnessV1KeyBytes s).isSome) : extractMultisig s = none := by
  unfold extractWitnessV1KeyBytes at h
  split at h
  · rename_i hc
    simp only [Bool.and_eq_true, decide_eq_true_eq] at hc
    obtain ⟨p, rfl, hp⟩ := shape2 s 0x51 0x20 32 hc.1 hc.2
    exact extractMultisig_witness 0x51 0x20 p (by decide) (by decide) (by decide) (by simpa using hp)
  · cases h

/-! length / first byte discriminators -/

theorem pkh_len (s : List UInt8) (h : (extractPubKeyHash s).isSome) : s.length = 25 := by
  unfold extractPubKeyHash at h; split at h
  · rename_i hc; simp only [Bool.and_eq_true, decide_eq_true_eq] at hc; exact hc.1.1
  · cases h
theorem sh_len (s : List UInt8) (h : (extractScriptHash s).isSome) : s.length = 23 := by
  unfold extractScriptHash at h; split at h
  · rename_i hc; simp only [Bool.and_eq_true, decide_eq_true_eq] at hc; exact hc.1.1
  · cases h
theorem pk_len (s : List UInt8) (h : (extractPubKey s).isSome) : s.length = 35 ∨ s.length = 67 := by
  unfold extractPubKey at h; split at h
  · rename_i hc; simp only [Bool.and_eq_true, decide_eq_true_eq] at hc; exact Or.inl hc.1.1.1
  · split at h
    · rename_i hc; simp only [Bool.and_eq_true, decide_eq_true_eq] at hc; exact Or.inr hc.1.1.1
    · cases h
theorem wpkh_shape (s : List UInt8) (h : (extractWitnessPubKeyHash s).isSome) : s.length = 22 ∧ s.head? = some 0 := by
  unfold extractWitnessPubKeyHash at h; split at h
  · rename_i hc; simp only [Bool.and_eq_true, decide_eq_true_eq] at hc
    obtain ⟨p, rfl, _⟩ := shape2 s 0 0x14 20 hc.1 hc.2
    exact ⟨hc.1, rfl⟩
  · cases h
theorem wsh_shape (s : List UInt8) (h : (extractWitnessV0ScriptHash s).isSome) : s.length = 34 ∧ s.head? = some 0 := by
  unfold extractWitnessV0ScriptHash at h; split at h
  · rename_i hc; simp only [Bool.and_eq_true, decide_eq_true_eq] at hc
    obtain ⟨p, rfl, _⟩ := shape2 s 0 0x20 32 hc.1 hc.2
    exact ⟨hc.1, rfl⟩
  · cases h
theorem nd_head (s : List UInt8) (h : isNullData s = true) : s.head? = some 0x6a := by
  unfold isNullData at h
  match s, h with
  | op :: rest, h =>
    simp only [] at h
    split at h
    · cases h
    · rename_i hne; simp at hne; simp [hne]
theorem p2a_len (s : List UInt8) (h : isPayToAnchor s = true) : s.length = 4 := by
  unfold isPayToAnchor at h; simp at h; subst h; rfl

theorem isSome_false_of_len {α} (o : Option α) (P : Prop) (h : o.isSome → P) (hn : ¬ P) : o.isSome = false := by
  cases o with
  | none => rfl
  | some x => exact absurd (h rfl) hn

/-- **each script is recognised by exactly one class**: the two recognisers, which test the templates in
different orders, agree on every byte string. -/
theorem class_agree (validPK : List UInt8 → Bool) (s : List UInt8) (net : Net) :
    (extractPkScriptAddrs validPK s net).1 = getScriptClass s := by
  unfold extractPkScriptAddrs getScriptClass
  cases h1 : extractPubKeyHash s with
  | some x =>
    have hl := pkh_len s (by simp [h1])
    have : (extractPubKey s).isSome = false := isSome_false_of_len _ _ (pk_len s) (by omega)
    simp [this]
  | none =>
    cases h2 : extractScriptHash s with
    | some x =>
      have hl := sh_len s (by simp [h2])
      have : (extractPubKey s).isSome = false := isSome_false_of_len _ _ (pk_len s) (by omega)
      simp [this]
    | none =>
      cases h3 : extractPubKey s with
      | some x => simp
      | none =>
        cases h4 : extractMultisig s with
        | some x =>
          obtain ⟨r, n, k⟩ := x
          have a1 : (extractWitnessPubKeyHash s).isSome = false := by
            cases h : (extractWitnessPubKeyHash s).isSome with
            | false => rfl
            | true => have := wpkh_not_ms s h; rw [h4] at this; cases this
          have a2 : (extractWitnessV0ScriptHash s).isSome = false := by
            cases h : (extractWitnessV0ScriptHash s).isSome with
            | false => rfl
            | true => have := wsh_not_ms s h; rw [h4] at this; cases this
          simp [a1, a2]
        | none =>
          cases h5 : isNullData s with
          | true =>
            have hh := nd_head s h5
            have a1 : (extractWitnessPubKeyHash s).isSome = false :=
              isSome_false_of_len _ _ (wpkh_shape s) (by rw [hh]; simp)
            have a2 : (extractWitnessV0ScriptHash s).isSome = false :=
              isSome_false_of_len _ _ (wsh_shape s) (by rw [hh]; simp)
            simp [a1, a2]
          | false =>
            cases h6 : isPayToAnchor s with
            | true =>
              have hl := p2a_len s h6
              have a1 : (extractWitnessPubKeyHash s).isSome = false :=
                isSome_false_of_len _ _ (wpkh_shape s) (by omega)
              have a2 : (extractWitnessV0ScriptHash s).isSome = false :=
                isSome_false_of_len _ _ (wsh_shape s) (by omega)
              simp [a1, a2]
            | false =>
              cases h7 : extractWitnessPubKeyHash s with
              | some x => simp
              | none =>
                cases h8 : extractWitnessV0ScriptHash s with
                | some x => simp
                | none =>
                  cases h9 : extractWitnessV1KeyBytes s with
                  | some x => simp
                  | none => simp

end BV.C16.Lemmas
