/-
C16 property theorems. Only statements of the property + non-vacuity examples live here;
helper lemmas are in the *Lemmas files.
-/
import BV.C16.Lemmas
import BV.Generated.C16
namespace BV.C16

/-! ### base58 -/

/-- `Decode (Encode b) = b` for every byte string (leading zero bytes ⇄ leading `'1'`). -/
theorem base58_decode_encode (b : List UInt8) : b58Decode (b58Encode b) = b :=
  Lemmas.b58_decode_encode b

/-- `Encode (Decode s) = s` for every string over the base58 alphabet. -/
theorem base58_encode_decode (s : List UInt8) (h : b58Valid s = true) : b58Encode (b58Decode s) = s :=
  Lemmas.b58_encode_decode s h

example : b58Valid [49, 49, 50, 122] = true := by decide

/-- A string with any character outside the alphabet decodes to the empty slice (hence is rejected by every
checked decoder, which all need at least five bytes). -/
theorem base58_decode_invalid (s : List UInt8) (h : b58Valid s = false) : b58Decode s = [] :=
  Lemmas.b58Decode_invalid s h

/-- The loops as written in Go — ten base-58 digits at a time through a machine word, the big number touched once
per chunk — compute exactly the plain radix conversion the theorems above are about. -/
theorem base58_encode_algo_eq (b : List UInt8) : b58EncodeAlgo b = b58Encode b := Lemmas.b58EncodeAlgo_eq b
theorem base58_decode_algo_eq (s : List UInt8) : b58DecodeAlgo s = b58Decode s := Lemmas.b58DecodeAlgo_eq s

/-! ### Base58Check (`H` = the 4-byte checksum function; first four bytes of double-SHA256 in btcd) -/

/-- `CheckDecode` accepts exactly the strings whose decoding is `version ‖ payload ‖ H(version ‖ payload)`:
a string is accepted iff its last four bytes equal the checksum of what precedes them. -/
theorem checkDecode_accepts_iff (H : List UInt8 → List UInt8) (hH : ∀ x, (H x).length = 4)
    (s p : List UInt8) (v : UInt8) :
    checkDecode H s = .ok (p, v) ↔ b58Decode s = v :: p ++ H (v :: p) :=
  Lemmas.checkDecode_ok_iff H hH s p v

theorem checkDecode_checkEncode (H : List UInt8 → List UInt8) (hH : ∀ x, (H x).length = 4)
    (p : List UInt8) (v : UInt8) : checkDecode H (checkEncode H p v) = .ok (p, v) :=
  Lemmas.checkDecode_checkEncode H hH p v

/-- decode-then-encode returns the same string for every accepted string. -/
theorem checkEncode_checkDecode (H : List UInt8 → List UInt8) (hH : ∀ x, (H x).length = 4)
    (s p : List UInt8) (v : UInt8) (h : checkDecode H s = .ok (p, v)) : checkEncode H p v = s :=
  Lemmas.checkEncode_checkDecode H hH s p v h

example : ∀ x : List UInt8, ((fun _ => [1, 2, 3, 4]) x : List UInt8).length = 4 := fun _ => rfl

/-! ### ConvertBits (8 ⇄ 5) -/

/-- Bytes → 5-bit symbols with padding always succeeds (⌈8n/5⌉ symbols below 32) and regrouping back without
padding returns the bytes. -/
theorem convertBits_roundtrip (data : List Nat) (h : ∀ d ∈ data, d < 256) :
    ∃ c, convertBits data 8 5 true = .ok c ∧ (∀ v ∈ c, v < 32) ∧
      c.length = (8 * data.length + 4) / 5 ∧ convertBits c 5 8 false = .ok data :=
  Lemmas.convertBits_8_5_8 data h

/-- Whatever 5→8 (no padding) accepts re-encodes to exactly the same symbols, so the padding rules (at most
four spare bits, all zero) leave one symbol string per byte string. -/
theorem convertBits_roundtrip_decode (c d : List Nat) (hc : ∀ v ∈ c, v < 32)
    (h : convertBits c 5 8 false = .ok d) :
    (∀ v ∈ d, v < 256) ∧ d.length = 5 * c.length / 8 ∧ convertBits d 8 5 true = .ok c :=
  Lemmas.convertBits_5_8_5 c d hc h

example : convertBits [0, 14, 20, 0] 5 8 false = .ok [3, 168] := by rfl
/-- padding rejection: a non-zero spare bit, or a whole spare symbol, is refused -/
theorem convertBits_padding_rejected :
    convertBits [0, 14, 20, 1] 5 8 false = .error .incomplete ∧
    convertBits [0, 14, 20, 0, 0, 0] 5 8 false = .error .incomplete := ⟨by rfl, by rfl⟩

/-! ### bech32 / bech32m -/

/-- polymod over HRP ‖ data ‖ created checksum equals the checksum constant (for every HRP, 5-bit data and
constant below 2^30): the BCH code is linear, proved on the bit-level model of `bech32Polymod`. -/
theorem checksum_create_verify (hrp : List UInt8) (data : List Nat) (hd : ∀ v ∈ data, v < 32) (k : Nat)
    (hk : k < 2 ^ 30) : polymod hrp data (createChecksum hrp data k) = k :=
  Lemmas.polymod_createChecksum hrp data hd k hk

/-- the checksum that verifies against a constant is unique: no second six-symbol suffix is accepted. -/
theorem checksum_unique (hrp : List UInt8) (data cs : List Nat) (hd : ∀ v ∈ data, v < 32)
    (hl : cs.length = 6) (hcs : ∀ v ∈ cs, v < 32) (k : Nat)
    (h : polymod hrp data cs = k) : cs = createChecksum hrp data k :=
  Lemmas.checksum_unique hrp data cs hd hl hcs k h

/-- encode → decode: for a clean lower-case HRP, 5-bit data and total length ≤ 90 -/
theorem bech32_decode_encode (hrp : List UInt8) (data : List Nat) (v : BechVer)
    (hh : Lemmas.hrpOK hrp = true) (hd : ∀ d ∈ data, d < 32) (hlen : hrp.length + data.length + 7 ≤ 90) :
    ∃ s, bechEncode hrp data v = .ok s ∧ s.length = hrp.length + data.length + 7 ∧
      bechDecode s = .ok (hrp, data, v) :=
  Lemmas.bech_decode_encode hrp data v hh hd hlen

example : Lemmas.hrpOK [98, 99] = true := by decide

/-- decode → encode: every accepted string re-encodes to itself in lower case (and is within the limits). -/
theorem bech32_encode_decode (s hrp : List UInt8) (data : List Nat) (v : BechVer)
    (h : bechDecode s = .ok (hrp, data, v)) :
    bechEncode hrp data v = .ok (lowerStr s) ∧ (∀ d ∈ data, d < 32) ∧ s.length = hrp.length + data.length + 7 ∧
      s.length ≤ 90 ∧ Lemmas.hrpOK hrp = true :=
  Lemmas.bech_encode_decode s hrp data v h

/-- mixed case is rejected -/
theorem bech32_mixed_case_rejected (s : List UInt8) (hl : s.any isLower = true) (hu : s.any isUpper = true) :
    ∃ e, bechDecode s = .error e :=
  Lemmas.bechDecode_mixed s hl hu

/-! ### segwit addresses: version ⇔ checksum variant, program lengths -/

/-- encode → decode for versions 0 (bech32; 20/32 bytes) and 1 (bech32m; 2..40 bytes) -/
theorem segwit_decode_encode (hrp : List UInt8) (ver : Nat) (prog : List UInt8)
    (hh : Lemmas.hrpOK hrp = true) (hhl : hrp.length ≤ 18) (hp : Lemmas.progOK ver prog = true) :
    ∃ s D, encodeSegwit hrp ver prog = .ok s ∧ decodeSegwit s = .ok (ver, prog) ∧
      s = hrp ++ 49 :: D ∧ (49 : UInt8) ∉ D :=
  Lemmas.encodeSegwit_ok hrp ver prog hh hhl hp

/-- decode → encode (lower case) -/
theorem segwit_encode_decode (s hrp : List UInt8) (data : List Nat) (bv : BechVer) (ver : Nat) (prog : List UInt8)
    (hb : bechDecode s = .ok (hrp, data, bv)) (hd : decodeSegwit s = .ok (ver, prog)) (hv : ver ≤ 1) :
    encodeSegwit hrp ver prog = .ok (lowerStr s) :=
  Lemmas.encodeSegwit_decodeSegwit s hrp data bv ver prog hb hd hv

/-- wrong version/checksum pairing, illegal program lengths and versions above 16 are rejected: whatever
`decodeSegwit` accepts has version ≤ 16, a 2..40 byte program (20/32 for v0) and the matching variant. -/
theorem segwit_accept_rules (s hrp : List UInt8) (data : List Nat) (bv : BechVer) (ver : Nat) (prog : List UInt8)
    (hb : bechDecode s = .ok (hrp, data, bv)) (hd : decodeSegwit s = .ok (ver, prog)) :
    ver ≤ 16 ∧ 2 ≤ prog.length ∧ prog.length ≤ 40 ∧ (ver = 0 → (prog.length = 20 ∨ prog.length = 32)) ∧
      (ver = 0 ↔ bv = .v0) := by
  unfold decodeSegwit at hd
  simp only [hb] at hd
  match data, hd with
  | [], hd => cases hd
  | version :: rest, hd =>
    simp only [] at hd
    split at hd
    · cases hd
    · cases hcb : convertBits rest 5 8 false with
      | error e => simp [hcb] at hd
      | ok regrouped =>
        simp only [hcb] at hd
        split at hd
        · cases hd
        · split at hd
          · cases hd
          · split at hd
            · cases hd
            · split at hd
              · cases hd
              · rename_i hvv hl1 hl2 hp0 hp1
                injection hd with hd
                injection hd with hv1 hv2
                subst hv1 hv2
                simp only [Bool.or_eq_true, decide_eq_true_eq, not_or] at hl1
                simp only [List.length_map]
                refine ⟨by omega, by omega, by omega, ?_, ?_⟩
                · intro hz
                  by_cases h20 : regrouped.length = 20
                  · left; exact h20
                  · by_cases h32 : regrouped.length = 32
                    · right; exact h32
                    · exfalso; apply hl2; simp [hz, h20, h32]
                · constructor
                  · intro hz; cases bv with
                    | v0 => rfl
                    | vM => exfalso; apply hp0; simp [hz]
                  · intro hbv; subst hbv
                    by_cases hz : version = 0
                    · exact hz
                    · exfalso; apply hp1
                      have : version ≥ 1 := by omega
                      simp [this]

/-! ### addresses ⇄ strings -/

/-- encode → decode for P2WPKH / P2WSH / P2TR / P2A addresses of a registered network -/
theorem address_string_roundtrip_segwit (regs : List (List UInt8)) (H : List UInt8 → List UInt8)
    (validPK : List UInt8 → Bool) (net : Net) (a : Addr) (hk : Lemmas.isSegwitKind a = true) (hwf : a.wf = true)
    (hh : Lemmas.hrpOK (Lemmas.hrpOf a) = true)
    (hl : 2 ≤ (Lemmas.hrpOf a).length ∧ (Lemmas.hrpOf a).length ≤ 18)
    (hreg : regs.contains (Lemmas.hrpOf a) = true) :
    decodeAddress regs H validPK (a.string H) net = .ok a :=
  Lemmas.decodeAddress_string_segwit regs H validPK net a hk hwf hh hl hreg

example : Lemmas.isSegwitKind (.p2a [98, 99]) = true ∧ Spec.registeredHrps.contains [98, 99] = true := by decide

/-- encode → decode for P2PKH / P2SH addresses of the default network (whose two version bytes differ), when the
string does not happen to start with a registered bech32 prefix (hypothesis: decidable; true for every
shipped network, whose Base58 strings start with `1 3 2 m n S s`). -/
theorem address_string_roundtrip_base58 (regs : List (List UInt8)) (H : List UInt8 → List UInt8)
    (hH : ∀ x, (H x).length = 4) (validPK : List UInt8 → Bool) (net : Net) (hne : net.pkh ≠ net.sh)
    (h : List UInt8) (hl : h.length = 20) :
    (segwitPrefix regs (checkEncode H h net.pkh) = none →
      decodeAddress regs H validPK ((Addr.pkh h net.pkh).string H) net = .ok (.pkh h net.pkh)) ∧
    (segwitPrefix regs (checkEncode H h net.sh) = none →
      decodeAddress regs H validPK ((Addr.sh h net.sh).string H) net = .ok (.sh h net.sh)) :=
  Lemmas.decodeAddress_string_b58 regs H hH validPK net hne h hl

/-- the side condition is dischargeable: a main-network P2PKH string starts with `'1'`, which no registered
human-readable part does, so it round-trips unconditionally. -/
theorem mainnet_p2pkh_roundtrip (H : List UInt8 → List UInt8) (hH : ∀ x, (H x).length = 4)
    (validPK : List UInt8 → Bool) (h : List UInt8) (hl : h.length = 20) :
    decodeAddress Spec.registeredHrps H validPK ((Addr.pkh h Spec.mainNet.pkh).string H) Spec.mainNet =
      .ok (.pkh h Spec.mainNet.pkh) :=
  Lemmas.mainnet_p2pkh_roundtrip H hH validPK h hl

/-- encode → decode for pay-to-pubkey addresses (compressed 02/03 and uncompressed 04 serializations; hybrid keys are
re-serialized uncompressed by the constructor): `String()`, the hex of the key, decodes to the same address. -/
theorem address_string_roundtrip_pubkey (regs : List (List UInt8)) (H : List UInt8 → List UInt8)
    (validPK : List UInt8 → Bool) (net : Net) (ser : List UInt8) (hwf : (Addr.pk ser net.pkh).wf = true)
    (hv : validPK ser = true) (hs : segwitPrefix regs (hexEncode ser) = none) :
    decodeAddress regs H validPK ((Addr.pk ser net.pkh).string H) net = .ok (.pk ser net.pkh) :=
  Lemmas.decodeAddress_string_pk regs H validPK net ser hwf hv hs

/-- decode → encode: a decoded address prints as the input string (lower-cased for bech32 forms). Together with
the bad-checksum / pairing / case rules above: a string at any edit distance from a valid one is either rejected
or denotes an address whose encoding is that very string — never silently the original address. -/
theorem string_address_roundtrip (regs : List (List UInt8)) (H : List UInt8 → List UInt8)
    (hH : ∀ x, (H x).length = 4) (validPK : List UInt8 → Bool) (net : Net) (s : List UInt8) (a : Addr)
    (h : decodeAddress regs H validPK s net = .ok a) :
    (Lemmas.isSegwitKind a = true → a.string H = lowerStr s) ∧
    ((∃ x id, a = .pkh x id ∨ a = .sh x id) → a.string H = s) :=
  Lemmas.string_decodeAddress regs H hH validPK net s a h

/-! ### addresses ⇄ scripts -/

/-- `ExtractPkScriptAddrs (PayToAddrScript a) = (class, [a], nreq)` for every address kind (all public-key
formats: `a.wf` covers compressed and uncompressed serializations; hybrid keys are normalised by the
constructor). -/
theorem address_script_roundtrip (validPK : List UInt8 → Bool) (a : Addr) (net : Net) (hwf : a.wf = true)
    (hnet : Lemmas.onNet a net = true) (hpk : ∀ s id, a = .pk s id → validPK s = true) :
    extractPkScriptAddrs validPK (payToAddrScript a) net = (Lemmas.scriptClassOf a, [a], Lemmas.nreqOf a) :=
  Lemmas.extract_payTo validPK a net hwf hnet hpk

example : (Addr.p2a (lowerStr Spec.mainNet.hrp)).wf = true ∧
    Lemmas.onNet (.p2a (lowerStr Spec.mainNet.hrp)) Spec.mainNet = true := by decide

/-- every byte string is recognised as the same class by both recognisers, although they test the templates in
different orders: the templates are pairwise disjoint. -/
theorem template_classes_disjoint (validPK : List UInt8 → Bool) (s : List UInt8) (net : Net) :
    (extractPkScriptAddrs validPK s net).1 = getScriptClass s :=
  Lemmas.class_agree validPK s net

/-! ### network separation -/

/-- A decoded address is for network `other` iff `other` shares the prefix the string was accepted under. -/
theorem network_separation (regs : List (List UInt8)) (H : List UInt8 → List UInt8) (validPK : List UInt8 → Bool)
    (net other : Net) (s : List UInt8) (a : Addr)
    (h : decodeAddress regs H validPK s net = .ok a) :
    a.isForNet other = true ↔ (match a with
      | .pkh .. => other.pkh = net.pkh
      | .pk .. => other.pkh = net.pkh
      | .sh .. => other.sh = net.sh
      | _ => ∃ hp, segwitPrefix regs s = some hp ∧ lowerStr hp = other.hrp) :=
  Lemmas.isForNet_of_decode regs H validPK net other s a h

/-- a Base58Check string with a version byte that is neither of the default network's is rejected -/
theorem wrong_base58_prefix_rejected (regs : List (List UInt8)) (H : List UInt8 → List UInt8)
    (validPK : List UInt8 → Bool) (net : Net) (s d : List UInt8) (id : UInt8)
    (hsp : segwitPrefix regs s = none) (hlen : s.length ≠ 130 ∧ s.length ≠ 66)
    (hc : checkDecode H s = .ok (d, id)) (h1 : id ≠ net.pkh) (h2 : id ≠ net.sh) :
    ∃ e, decodeAddress regs H validPK s net = .error e := by
  rw [Lemmas.decodeAddress_none regs H validPK net s hsp]
  unfold decodeLegacy
  rw [if_neg (by simp [hlen.1, hlen.2]), hc]
  simp only [h1, h2, decide_false, Bool.and_self, Bool.false_eq_true, if_false]
  split <;> exact ⟨_, rfl⟩

/-- Which networks are separated from which (pairwise, per prefix class): mainnet, simnet, the harness's custom
network and the
test family {testnet3, testnet4, signet, regtest} have pairwise distinct P2PKH, P2SH, WIF and HD version bytes and
HRPs; inside the test family only regtest's HRP (`bcrt`) differs — testnet3/testnet4/signet share every prefix. -/
theorem shipped_prefixes_separated :
    let fam := [Spec.mainNet, Spec.simNet, Spec.testNet3, Spec.customNet]
    (∀ a ∈ fam, ∀ b ∈ fam, a ≠ b →
      a.pkh ≠ b.pkh ∧ a.sh ≠ b.sh ∧ a.wif ≠ b.wif ∧ a.hrp ≠ b.hrp ∧ a.hdPriv ≠ b.hdPriv ∧ a.hdPub ≠ b.hdPub) ∧
    (∀ n ∈ Spec.nets, n.pkh ≠ n.sh) ∧
    (∀ t ∈ [Spec.testNet4, Spec.sigNet, Spec.regNet],
      t.pkh = Spec.testNet3.pkh ∧ t.sh = Spec.testNet3.sh ∧ t.wif = Spec.testNet3.wif ∧
      t.hdPriv = Spec.testNet3.hdPriv ∧ t.hdPub = Spec.testNet3.hdPub) ∧
    Spec.regNet.hrp ≠ Spec.testNet3.hrp ∧ Spec.testNet4.hrp = Spec.testNet3.hrp ∧ Spec.sigNet.hrp = Spec.testNet3.hrp := by
  decide

/-! ### WIF -/

/-- encode → decode: net id byte, compressed flag and key come back -/
theorem wif_roundtrip (H : List UInt8 → List UInt8) (hH : ∀ x, (H x).length = 4) (w : Wif)
    (hk : w.key.length = 32) (hv : validScalar w.key = true) : decodeWIF H (wifString H w) = .ok w :=
  Lemmas.decodeWIF_wifString H hH w hk hv

example : validScalar (List.replicate 31 0 ++ [1]) = true := by decide

/-- decode → encode: every accepted WIF string is reproduced exactly (so a string with a bad checksum, a wrong
compression marker or an out-of-range key is never accepted as some other key's string) -/
theorem wif_roundtrip_decode (H : List UInt8 → List UInt8) (s : List UInt8) (w : Wif)
    (h : decodeWIF H s = .ok w) : wifString H w = s ∧ w.key.length = 32 ∧ validScalar w.key = true :=
  Lemmas.wifString_decodeWIF H s w h

/-! ### BIP32 extended keys -/

/-- 78-byte serialization + Base58Check: encode → decode -/
theorem xkey_string_roundtrip (H : List UInt8 → List UInt8) (hH : ∀ x, (H x).length = 4)
    (validPK : List UInt8 → Bool) (k : XKey) (hw : Lemmas.XKey.wf validPK k = true) :
    xkeyParse H validPK (xkeyString H k) = .ok k :=
  Lemmas.xkeyParse_xkeyString H hH validPK k hw

example : Lemmas.XKey.wf (fun _ => true)
    ⟨[4, 0x88, 0xad, 0xe4], 0, [0, 0, 0, 0], 0, List.replicate 32 7, List.replicate 31 0 ++ [1], true⟩ = true := by
  decide

/-- decode → encode -/
theorem xkey_string_roundtrip_decode (H : List UInt8 → List UInt8) (validPK : List UInt8 → Bool) (s : List UInt8)
    (k : XKey) (h : xkeyParse H validPK s = .ok k) : xkeyString H k = s ∧ Lemmas.XKey.wf validPK k = true :=
  Lemmas.xkeyString_xkeyParse H validPK s k h

/-- `Neuter (Derive k i) = Derive (Neuter k) i` for a private parent and non-hardened `i`, over an abstract
group: HMAC-SHA512 and hash160 are arbitrary functions; the curve enters through `parse ∘ ser = id` and
`(a+b)·G = a·G + b·G`. The case `IL·G = ∞` (rejected only on the public side) is excluded by hypothesis. -/
theorem ckd_commutes {Pt : Type} (C : Curve Pt) (hmac : List UInt8 → List UInt8 → List UInt8)
    (h160 : List UInt8 → List UInt8) (pubVer : List UInt8 → Option (List UInt8))
    (k c k' c' : XKey) (i : Nat)
    (hpriv : k.isPrivate = true) (hi : i < 2 ^ 31)
    (hser : ∀ P, C.parse (C.ser P) = some P)
    (hhom : ∀ a b, C.baseMul ((a + b) % C.n) = C.add (C.baseMul a) (C.baseMul b))
    (hn : 0 < C.n ∧ C.n ≤ 2 ^ 256)
    (hinf : C.isInf (C.baseMul (beNat ((hmac k.chainCode (pubKeyBytes C k ++ be32 i)).take 32))) = false)
    (hd : derive C hmac h160 k i = .ok c)
    (nk : neuter C pubVer k = some k') (nc : neuter C pubVer c = some c') :
    derive C hmac h160 k' i = .ok c' :=
  Lemmas.ckd_commutes C hmac h160 pubVer k c k' c' i hpriv hi hser hhom hn hinf hd nk nc

/-- the hypotheses are satisfiable: the additive group ℤ/7 with a unary serialization -/
example : ∃ C : Curve Nat, (∀ P, C.parse (C.ser P) = some P) ∧
    (∀ a b, C.baseMul ((a + b) % C.n) = C.add (C.baseMul a) (C.baseMul b)) ∧ 0 < C.n ∧ C.n ≤ 2 ^ 256 :=
  ⟨⟨7, fun k => k % 7, fun a b => (a + b) % 7, fun p => p == 0, fun p => List.replicate p 0,
    fun b => some b.length⟩, by
    refine ⟨?_, ?_, by decide, by decide⟩
    · intro P; simp
    · intro a b; simp only; omega⟩

/-! ### taproot script trees -/

/-- every leaf of every tree shape has a control block that verifies under the computed output key: induction on
the tree. The tagged hashes `HL`, `HB` and the output-key map (x-only lift + tweak) are arbitrary functions. -/
theorem taproot_leaf_proves (HL : UInt8 → List UInt8 → List UInt8) (HB : List UInt8 → List UInt8 → List UInt8)
    (outKey : List UInt8 → List UInt8 → List UInt8 × Bool)
    (t : TapTree) (internalX : List UInt8) (p : LeafProof) (h : p ∈ t.proofs HL HB) :
    verifyLeaf HL HB outKey (controlBlock outKey internalX (t.hash HL HB) p)
      (outKey internalX (t.hash HL HB)).1 p.script = true :=
  Lemmas.verifyLeaf_proofs HL HB outKey t internalX p h

/-- … and every leaf (index, version, script) of the tree has such a proof entry -/
theorem taproot_every_leaf_has_proof (HL : UInt8 → List UInt8 → List UInt8)
    (HB : List UInt8 → List UInt8 → List UInt8) (t : TapTree) :
    (t.proofs HL HB).map (fun p => (p.idx, p.ver, p.script)) = Lemmas.leavesOf t :=
  Lemmas.proofs_cover HL HB t

/-- the tree shape `AssembleTaprootScriptTree` builds contains exactly the given leaves -/
theorem taproot_assemble_keeps_leaves (ls : List TapTree) (t : TapTree) (h : assembleTree ls = some t) :
    (Lemmas.leavesOf t).Perm (Lemmas.leavesOfList ls) :=
  Lemmas.assembleTree_leaves ls t h

/-- … and a tree is built for every non-empty list of leaves -/
theorem taproot_assemble_total (ls : List TapTree) (h : ls ≠ []) : ∃ t, assembleTree ls = some t :=
  Lemmas.assembleTree_total ls h

example : (assembleTree [.leaf 0 0xc0 [0x51], .leaf 1 0xc0 [0x52], .leaf 2 0xc0 [0x51]]).isSome = true := by decide

/-! ### secondary entry points agree with the primary ones -/

/-- `Decode…` = `DecodeNoLimit…` up to 90 characters, an error beyond -/
theorem bech32_decode_variants_agree (s : List UInt8) :
    bechDecode s = if s.length > 90 then .error .length else bechDecodeNoLimit s :=
  Lemmas.bechDecode_noLimit s

/-- `DeriveNonStandard` = `Derive` for parents whose private key is stored with all 32 bytes (what
`NewKeyFromString` / `NewMaster` produce) — they differ only for keys affected by issue 172 -/
theorem derive_variants_agree {Pt : Type} (C : Curve Pt) (hmac : List UInt8 → List UInt8 → List UInt8)
    (h160 : List UInt8 → List UInt8) (k : XKey) (i : Nat)
    (hlen : k.isPrivate = true → k.key.length = 32 ∧ beNat k.key < C.n)
    (hil : ∀ data, beNat ((hmac k.chainCode data).take 32) ≠ 0) :
    deriveNonStd C hmac h160 k i = derive C hmac h160 k i :=
  Lemmas.deriveNonStd_eq_derive C hmac h160 k i hlen hil

/-- whatever `ComputePkScript` reconstructs is recognised as the class it reports -/
theorem computePkScript_class (h160 sha : List UInt8 → List UInt8) (h20 : ∀ x, (h160 x).length = 20)
    (h32 : ∀ x, (sha x).length = 32) (sig : List UInt8) (wit : List (List UInt8)) (c : ScriptClass) (s : List UInt8)
    (h : computePkScript h160 sha sig wit = some (c, s)) : getScriptClass s = c :=
  Lemmas.computePkScript_class h160 sha h20 h32 sig wit c s h

/-- `ExtractWitnessProgramInfo` agrees with the P2WPKH / P2WSH / P2TR extractors -/
theorem witness_program_info_templates (s p : List UInt8) :
    (extractWitnessPubKeyHash s = some p → witnessProgramInfo s = some (0, p)) ∧
    (extractWitnessV0ScriptHash s = some p → witnessProgramInfo s = some (0, p)) ∧
    (extractWitnessV1KeyBytes s = some p → witnessProgramInfo s = some (1, p)) :=
  Lemmas.witnessProgramInfo_templates s p

/-- control blocks round-trip through their byte form: `ParseControlBlock (ToBytes c) = c` for an even leaf version
(the parity shares bit 0 of that byte), a valid 32-byte internal key and at most 128 proof nodes of 32 bytes -/
theorem controlBlock_bytes_roundtrip (validX : List UInt8 → Bool) (c : CtrlBlock)
    (hv : c.leafVer &&& 1 = 0) (hx : c.internalX.length = 32) (hvx : validX c.internalX = true)
    (hp : ∀ p ∈ c.path, p.length = 32) (hn : c.path.length ≤ 128) :
    parseControlBlock validX c.bytes = .ok c :=
  Lemmas.parseControlBlock_bytes validX c hv hx hvx hp hn

/-- `NullDataScript d` is recognised as null data (by both recognisers, see `template_classes_disjoint`) for every
payload up to the 80-byte limit — except the one-byte payload 0x81, which the builder encodes as OP_1NEGATE, an
opcode the recogniser does not accept (see the witness below) -/
theorem nullDataScript_recognised (d : List UInt8) (hl : d.length ≤ 80) (h81 : d ≠ [0x81]) :
    ∃ s, nullDataScript d = some s ∧ isNullData s = true :=
  Lemmas.nullDataScript_recognised d hl h81

theorem nullDataScript_0x81_not_recognised :
    nullDataScript [0x81] = some [0x6a, 0x4f] ∧ isNullData [0x6a, 0x4f] = false ∧ nullDataScript (List.replicate 81 0) = none := by
  decide

/-! ### constants regenerated from the compiled tree (T2) -/

theorem pin_pkh : Spec.nets.map (fun n => (n.pkh.toNat : Int)) =
    [Generated.C16.net0_pkh, Generated.C16.net1_pkh, Generated.C16.net2_pkh, Generated.C16.net3_pkh,
     Generated.C16.net4_pkh, Generated.C16.net5_pkh, Generated.C16.net6_pkh] := by decide
theorem pin_sh : Spec.nets.map (fun n => (n.sh.toNat : Int)) =
    [Generated.C16.net0_sh, Generated.C16.net1_sh, Generated.C16.net2_sh, Generated.C16.net3_sh,
     Generated.C16.net4_sh, Generated.C16.net5_sh, Generated.C16.net6_sh] := by decide
theorem pin_wif : Spec.nets.map (fun n => (n.wif.toNat : Int)) =
    [Generated.C16.net0_wif, Generated.C16.net1_wif, Generated.C16.net2_wif, Generated.C16.net3_wif,
     Generated.C16.net4_wif, Generated.C16.net5_wif, Generated.C16.net6_wif] := by decide
theorem pin_hrp : Spec.nets.map (fun n => n.hrp.map (fun c => (c.toNat : Int))) =
    [Generated.C16.net0_hrp, Generated.C16.net1_hrp, Generated.C16.net2_hrp, Generated.C16.net3_hrp,
     Generated.C16.net4_hrp, Generated.C16.net5_hrp, Generated.C16.net6_hrp] := by decide
theorem pin_hdPriv : Spec.nets.map (fun n => n.hdPriv.map (fun c => (c.toNat : Int))) =
    [Generated.C16.net0_hdPriv, Generated.C16.net1_hdPriv, Generated.C16.net2_hdPriv, Generated.C16.net3_hdPriv,
     Generated.C16.net4_hdPriv, Generated.C16.net5_hdPriv, Generated.C16.net6_hdPriv] := by decide
theorem pin_hdPub : Spec.nets.map (fun n => n.hdPub.map (fun c => (c.toNat : Int))) =
    [Generated.C16.net0_hdPub, Generated.C16.net1_hdPub, Generated.C16.net2_hdPub, Generated.C16.net3_hdPub,
     Generated.C16.net4_hdPub, Generated.C16.net5_hdPub, Generated.C16.net6_hdPub] := by decide
/-- every network's HRP is a known segwit prefix (`IsBech32SegwitPrefix`); which parameter sets the package registers
to get there is internal and not pinned -/
theorem pin_hrpKnown :
    [Generated.C16.net0_hrpKnown, Generated.C16.net1_hrpKnown, Generated.C16.net2_hrpKnown,
     Generated.C16.net3_hrpKnown, Generated.C16.net4_hrpKnown, Generated.C16.net5_hrpKnown,
     Generated.C16.net6_hrpKnown] = Spec.nets.map (fun n => Spec.registeredHrps.contains n.hrp) := by decide
/-- the prefix registries: known P2PKH / P2SH version bytes are exactly those of the registered networks (sorted,
without duplicates), `HDPrivateKeyToPublicKeyID` maps every network's private id to its public id, unknown or
malformed ids are refused -/
theorem pin_registries :
    Generated.C16.pkhIDs = [0, 48, 63, 111] ∧ Generated.C16.shIDs = [5, 50, 123, 196] ∧
    (∀ n ∈ Spec.registered, (n.pkh.toNat : Int) ∈ Generated.C16.pkhIDs ∧ (n.sh.toNat : Int) ∈ Generated.C16.shIDs) ∧
    [Generated.C16.net0_hdPrivToPub, Generated.C16.net1_hdPrivToPub, Generated.C16.net2_hdPrivToPub,
     Generated.C16.net3_hdPrivToPub, Generated.C16.net4_hdPrivToPub, Generated.C16.net5_hdPrivToPub,
     Generated.C16.net6_hdPrivToPub] = Spec.nets.map (fun n => n.hdPub.map (fun c => (c.toNat : Int))) ∧
    Generated.C16.hdUnknownRejected = true ∧ Generated.C16.hdRegisterBadLen = true := by decide

theorem pin_consts : Generated.C16.bech32Const = (BechVer.v0.const : Int) ∧
    Generated.C16.bech32mConst = (BechVer.vM.const : Int) ∧
    Generated.C16.payToAnchorScript = (payToAddrScript (.p2a [])).map (fun c => (c.toNat : Int)) ∧
    Generated.C16.maxDataCarrierSize = 80 ∧ Generated.C16.secpN = (secpN : Int) ∧
    Generated.C16.hardenedKeyStart = 2 ^ 31 ∧ Generated.C16.minSeedBytes = 16 ∧ Generated.C16.maxSeedBytes = 64 ∧
    Generated.C16.baseLeafVersion = 0xc0 := by decide

end BV.C16
