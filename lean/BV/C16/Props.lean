/-
C16 property theorems. Only statements of the property + non-vacuity examples live here;
helper lemmas are in the *Lemmas files.
-/
import BV.C16.Lemmas
namespace BV.C16

/-! ### base58 -/

/-- `Decode (Encode b) = b` for every byte string (leading zero bytes ⇄ leading `'1'`). -/
theorem base58_decode_encode (b : List UInt8) : b58Decode (b58Encode b) = b :=
  Lemmas.b58_decode_encode b

/-- `Encode (Decode s) = s` for every string over the base58 alphabet. -/
theorem base58_encode_decode (s : List UInt8) (h : b58Valid s = true) : b58Encode (b58Decode s) = s :=
  Lemmas.b58_encode_decode s h

example : b58Valid [49, 49, 50, 122] = true := by decide

/-- A string with any character outside the alphabet decodes to the empty slice (hence is rejected by every
checked decoder, which all need at least five bytes). -/
theorem base58_decode_invalid (s : List UInt8) (h : b58Valid s = false) : b58Decode s = [] :=
  Lemmas.b58Decode_invalid s h

/-! ### Base58Check (`H` = the 4-byte checksum function; first four bytes of double-SHA256 in btcd) -/

/-- `CheckDecode` accepts exactly the strings whose decoding is `version ‖ payload ‖ H(version ‖ payload)`:
a string is accepted iff its last four bytes equal the checksum of what precedes them. -/
theorem checkDecode_accepts_iff (H : List UInt8 → List UInt8) (hH : ∀ x, (H x).length = 4)
    (s p : List UInt8) (v : UInt8) :
    checkDecode H s = .ok (p, v) ↔ b58Decode s = v :: p ++ H (v :: p) :=
  Lemmas.checkDecode_ok_iff H hH s p v

theorem checkDecode_checkEncode (H : List UInt8 → List UInt8) (hH : ∀ x, (H x).length = 4)
    (p : List UInt8) (v : UInt8) : checkDecode H (checkEncode H p v) = .ok (p, v) :=
  Lemmas.checkDecode_checkEncode H hH p v

/-- decode-then-encode returns the same string for every accepted string. -/
theorem checkEncode_checkDecode (H : List UInt8 → List UInt8) (hH : ∀ x, (H x).length = 4)
    (s p : List UInt8) (v : UInt8) (h : checkDecode H s = .ok (p, v)) : checkEncode H p v = s :=
  Lemmas.checkEncode_checkDecode H hH s p v h

example : ∀ x : List UInt8, ((fun _ => [1, 2, 3, 4]) x : List UInt8).length = 4 := fun _ => rfl

end BV.C16
