import BV.Common.Loop
import BV.C16.Driver
/-! `drv_c16`: one case per input line `C16 <op> <args…>`, one canonical result line back.
Imports only core-only modules so that it links as a native executable. -/
def main : IO Unit := BV.Loop.run "C16" BV.C16.Driver.handle
