/-
C16 model: base58 and Base58Check (address/base58/base58.go, base58check.go).
Strings are byte lists (Go strings are byte strings; every non-ASCII byte makes `Decode` return "").
The big-number arithmetic of `Encode`/`Decode` (math/big, in chunks of 58^10) is modelled by `Radix.conv`.
Core-only.
-/
import BV.C16.Radix
namespace BV.C16
open Radix

/-- the Bitcoin base58 alphabet -/
def b58Alphabet : List UInt8 :=
  [49,50,51,52,53,54,55,56,57,
   65,66,67,68,69,70,71,72,74,75,76,77,78,80,81,82,83,84,85,86,87,88,89,90,
   97,98,99,100,101,102,103,104,105,106,107,109,110,111,112,113,114,115,116,117,118,119,120,121,122]

def b58Char (d : Nat) : UInt8 := b58Alphabet.getD d 0
/-- the `b58` table: digit value of a character, `none` for 255 -/
def b58Idx (c : UInt8) : Option Nat :=
  let i := b58Alphabet.idxOf c
  if i < 58 then some i else none

def b58Digits : List UInt8 → Option (List Nat)
  | [] => some []
  | c :: cs => match b58Idx c, b58Digits cs with
    | some d, some ds => some (d :: ds)
    | _, _ => none

/-- `base58.Encode` -/
def b58Encode (b : List UInt8) : List UInt8 :=
  (conv 256 58 (b.map UInt8.toNat)).map b58Char

/-- `base58.Decode` (returns the empty slice on any character outside the alphabet) -/
def b58Decode (s : List UInt8) : List UInt8 :=
  match b58Digits s with
  | none => []
  | some ds => (conv 58 256 ds).map UInt8.ofNat

/-- every character is in the alphabet -/
def b58Valid (s : List UInt8) : Bool := s.all (fun c => (b58Idx c).isSome)

/-! ### Base58Check.  `H` is the 4-byte checksum function (first four bytes of double SHA-256 in btcd). -/

inductive CheckErr | format | checksum
deriving DecidableEq, Repr

def checkEncode (H : List UInt8 → List UInt8) (payload : List UInt8) (version : UInt8) : List UInt8 :=
  b58Encode (version :: payload ++ H (version :: payload))

def checkDecode (H : List UInt8 → List UInt8) (s : List UInt8) : Except CheckErr (List UInt8 × UInt8) :=
  let decoded := b58Decode s
  if decoded.length < 5 then .error .format else
  match decoded with
  | [] => .error .format
  | version :: rest =>
    let body := decoded.take (decoded.length - 4)
    let cksum := decoded.drop (decoded.length - 4)
    if H body ≠ cksum then .error .checksum
    else .ok (rest.take (rest.length - 4), version)

end BV.C16
