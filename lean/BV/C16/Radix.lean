/-
C16: positional number conversion shared by base58 (256 ⇄ 58) and ConvertBits (2^a ⇄ 2^b).
Core-only. Definitions are executable; the lemmas are the arithmetic heart of every round-trip theorem.
-/
namespace BV.C16.Radix

/-- little-endian minimal digits of `n` in base `b` (`[]` for 0). -/
def toLE (b : Nat) (n : Nat) : List Nat :=
  if h : n = 0 ∨ b < 2 then [] else n % b :: toLE b (n / b)
termination_by n
decreasing_by exact Nat.div_lt_self (by omega) (by omega)

/-- value of little-endian digits. -/
def ofLE (b : Nat) : List Nat → Nat
  | [] => 0
  | d :: ds => d + b * ofLE b ds

/-- big-endian minimal digits (what `big.Int.Bytes` returns for base 256). -/
def toBE (b n : Nat) : List Nat := (toLE b n).reverse
/-- value of big-endian digits. -/
def ofBE (b : Nat) (ds : List Nat) : Nat := ofLE b ds.reverse

/-- fixed-width little-endian digits (low `k` digits). -/
def fixedLE (b : Nat) : Nat → Nat → List Nat
  | 0, _ => []
  | k+1, n => n % b :: fixedLE b k (n / b)
def fixedBE (b k n : Nat) : List Nat := (fixedLE b k n).reverse

/-- number of leading zero digits. -/
def lz : List Nat → Nat
  | 0 :: ds => lz ds + 1
  | _ => 0
/-- digits without the leading zeros. -/
def strip : List Nat → List Nat
  | 0 :: ds => strip ds
  | ds => ds

/-- Re-encode big-endian base-`b1` digits as base-`b2` digits, keeping the count of leading zero digits
(the base58 rule: a leading zero byte ⇄ a leading `'1'`). -/
def conv (b1 b2 : Nat) (xs : List Nat) : List Nat :=
  List.replicate (lz xs) 0 ++ toBE b2 (ofBE b1 xs)

/-! ### lemmas -/

theorem toLE_zero (b : Nat) : toLE b 0 = [] := by
  rw [toLE]; simp

theorem toLE_pos {b n : Nat} (hb : 2 ≤ b) (hn : n ≠ 0) : toLE b n = n % b :: toLE b (n / b) := by
  rw [toLE]; have : ¬ (n = 0 ∨ b < 2) := by omega
  simp [this]

theorem ofLE_toLE {b : Nat} (hb : 2 ≤ b) (n : Nat) : ofLE b (toLE b n) = n := by
  induction n using Nat.strongRecOn with
  | ind n ih =>
    by_cases hn : n = 0
    · subst hn; rw [toLE_zero]; rfl
    · rw [toLE_pos hb hn]
      simp only [ofLE]
      rw [ih (n / b) (Nat.div_lt_self (by omega) (by omega))]
      exact Nat.mod_add_div n b

theorem toLE_lt {b : Nat} (hb : 2 ≤ b) (n : Nat) : ∀ d ∈ toLE b n, d < b := by
  induction n using Nat.strongRecOn with
  | ind n ih =>
    by_cases hn : n = 0
    · subst hn; rw [toLE_zero]; intro d hd; cases hd
    · rw [toLE_pos hb hn]
      intro d hd
      rcases List.mem_cons.mp hd with h | h
      · subst h; exact Nat.mod_lt _ (by omega)
      · exact ih (n / b) (Nat.div_lt_self (by omega) (by omega)) d h

/-- the last (most significant) digit of the minimal representation is non-zero. -/
theorem toLE_getLast {b : Nat} (hb : 2 ≤ b) (n : Nat) : (toLE b n).getLast? ≠ some 0 := by
  induction n using Nat.strongRecOn with
  | ind n ih =>
    by_cases hn : n = 0
    · subst hn; rw [toLE_zero]; simp
    · rw [toLE_pos hb hn]
      by_cases hq : n / b = 0
      · rw [hq, toLE_zero]
        have : n < b := by
          rcases Nat.lt_or_ge n b with h | h
          · exact h
          · have := Nat.div_pos h (by omega : 0 < b); omega
        simp [Nat.mod_eq_of_lt this, hn]
      · have h1 := ih (n / b) (Nat.div_lt_self (by omega) (by omega))
        rw [toLE_pos hb hq] at h1 ⊢
        rw [List.getLast?_cons_cons]; exact h1

theorem ofLE_eq_zero_of_all_zero {b : Nat} : ∀ ds : List Nat, (∀ d ∈ ds, d = 0) → ofLE b ds = 0
  | [], _ => rfl
  | d :: ds, h => by
    simp only [ofLE]
    rw [ofLE_eq_zero_of_all_zero ds (fun x hx => h x (List.mem_cons_of_mem _ hx)),
        h d List.mem_cons_self]; simp

theorem ofLE_ne_zero {b : Nat} (hb : 2 ≤ b) : ∀ ds : List Nat, ds ≠ [] → ds.getLast? ≠ some 0 → ofLE b ds ≠ 0
  | [], h, _ => absurd rfl h
  | [d], _, h => by simp at h; simp [ofLE]; exact h
  | d :: e :: ds, _, h => by
    rw [List.getLast?_cons_cons] at h
    have := ofLE_ne_zero hb (e :: ds) (by simp) h
    simp only [ofLE] at this ⊢
    intro h0
    have : b * (e + b * ofLE b ds) = 0 := by omega
    rcases Nat.mul_eq_zero.mp this with h | h <;> omega

theorem toLE_ofLE {b : Nat} (hb : 2 ≤ b) : ∀ ds : List Nat, (∀ d ∈ ds, d < b) → ds.getLast? ≠ some 0 →
    toLE b (ofLE b ds) = ds
  | [], _, _ => by simp [ofLE, toLE_zero]
  | [d], hlt, h => by
    have hd : d ≠ 0 := by simpa using h
    have hdb : d < b := hlt d List.mem_cons_self
    simp only [ofLE, Nat.mul_zero, Nat.add_zero]
    rw [toLE_pos hb hd, Nat.mod_eq_of_lt hdb, Nat.div_eq_of_lt hdb, toLE_zero]
  | d :: e :: ds, hlt, h => by
    rw [List.getLast?_cons_cons] at h
    have hdb : d < b := hlt d List.mem_cons_self
    have ih := toLE_ofLE hb (e :: ds) (fun x hx => hlt x (List.mem_cons_of_mem _ hx)) h
    have hne := ofLE_ne_zero hb (e :: ds) (by simp) h
    have hval : ofLE b (d :: e :: ds) = d + b * ofLE b (e :: ds) := rfl
    rw [hval]
    have hpos : d + b * ofLE b (e :: ds) ≠ 0 := by
      intro h0
      have : b * ofLE b (e :: ds) = 0 := by omega
      rcases Nat.mul_eq_zero.mp this with h | h <;> omega
    rw [toLE_pos hb hpos]
    have h1 : (d + b * ofLE b (e :: ds)) % b = d := by
      rw [Nat.add_mul_mod_self_left]; exact Nat.mod_eq_of_lt hdb
    have h2 : (d + b * ofLE b (e :: ds)) / b = ofLE b (e :: ds) := by
      rw [Nat.add_mul_div_left _ _ (by omega : 0 < b), Nat.div_eq_of_lt hdb]; simp
    rw [h1, h2, ih]

/-! leading zeros -/

theorem lz_strip : ∀ xs : List Nat, xs = List.replicate (lz xs) 0 ++ strip xs
  | [] => rfl
  | 0 :: ds => by
    show 0 :: ds = List.replicate (lz ds + 1) 0 ++ strip ds
    rw [List.replicate_succ, List.cons_append, ← lz_strip ds]
  | (n+1) :: ds => rfl

theorem strip_head : ∀ xs : List Nat, (strip xs).head? ≠ some 0
  | [] => by simp [strip]
  | 0 :: ds => by simpa [strip] using strip_head ds
  | (n+1) :: ds => by simp [strip]

theorem strip_mem : ∀ xs : List Nat, ∀ d ∈ strip xs, d ∈ xs
  | [], d, h => h
  | 0 :: ds, d, h => List.mem_cons_of_mem _ (strip_mem ds d h)
  | (n+1) :: ds, d, h => h

theorem lz_replicate_append (z : Nat) (r : List Nat) (h : r.head? ≠ some 0) :
    lz (List.replicate z 0 ++ r) = z := by
  induction z with
  | zero =>
    simp only [List.replicate_zero, List.nil_append]
    match r, h with
    | [], _ => rfl
    | 0 :: _, h => simp at h
    | (n+1) :: _, _ => rfl
  | succ z ih => rw [List.replicate_succ, List.cons_append]; show lz _ + 1 = _; rw [ih]

theorem strip_replicate_append (z : Nat) (r : List Nat) (h : r.head? ≠ some 0) :
    strip (List.replicate z 0 ++ r) = r := by
  induction z with
  | zero =>
    simp only [List.replicate_zero, List.nil_append]
    match r, h with
    | [], _ => rfl
    | 0 :: _, h => simp at h
    | (n+1) :: _, _ => rfl
  | succ z ih => rw [List.replicate_succ, List.cons_append]; show strip _ = _; exact ih

theorem ofLE_append_zeros (b : Nat) (ds : List Nat) (z : Nat) :
    ofLE b (ds ++ List.replicate z 0) = ofLE b ds := by
  induction ds with
  | nil => simp only [List.nil_append]; exact ofLE_eq_zero_of_all_zero _ (by intro d hd; exact (List.mem_replicate.mp hd).2)
  | cons d ds ih => simp only [List.cons_append, ofLE, ih]

theorem ofBE_strip (b : Nat) (xs : List Nat) : ofBE b xs = ofBE b (strip xs) := by
  have h := lz_strip xs
  unfold ofBE
  conv => lhs; rw [h]
  rw [List.reverse_append, List.reverse_replicate, ofLE_append_zeros]

theorem toBE_head {b : Nat} (hb : 2 ≤ b) (n : Nat) : (toBE b n).head? ≠ some 0 := by
  unfold toBE; rw [List.head?_reverse]; exact toLE_getLast hb n

theorem toBE_lt {b : Nat} (hb : 2 ≤ b) (n : Nat) : ∀ d ∈ toBE b n, d < b := by
  intro d hd; unfold toBE at hd; exact toLE_lt hb n d (List.mem_reverse.mp hd)

theorem ofBE_toBE {b : Nat} (hb : 2 ≤ b) (n : Nat) : ofBE b (toBE b n) = n := by
  unfold ofBE toBE; rw [List.reverse_reverse]; exact ofLE_toLE hb n

theorem toBE_ofBE {b : Nat} (hb : 2 ≤ b) (ds : List Nat) (hlt : ∀ d ∈ ds, d < b) (hh : ds.head? ≠ some 0) :
    toBE b (ofBE b ds) = ds := by
  unfold ofBE toBE
  rw [toLE_ofLE hb ds.reverse (fun d hd => hlt d (List.mem_reverse.mp hd)) (by rw [List.getLast?_reverse]; exact hh)]
  exact List.reverse_reverse ds

/-- all digits of `conv` output are below the target base. -/
theorem conv_lt {b1 b2 : Nat} (hb2 : 2 ≤ b2) (xs : List Nat) : ∀ d ∈ conv b1 b2 xs, d < b2 := by
  intro d hd
  unfold conv at hd
  rcases List.mem_append.mp hd with h | h
  · rw [(List.mem_replicate.mp h).2]; omega
  · exact toBE_lt hb2 _ d h

/-- **The radix round trip**: converting base `b1` → `b2` → `b1` with leading-zero preservation is the identity
on every digit string whose digits are below `b1`. -/
theorem conv_conv {b1 b2 : Nat} (hb1 : 2 ≤ b1) (hb2 : 2 ≤ b2) (xs : List Nat) (hlt : ∀ d ∈ xs, d < b1) :
    conv b2 b1 (conv b1 b2 xs) = xs := by
  have hdec := lz_strip xs
  have hhead := toBE_head hb2 (ofBE b1 xs)
  unfold conv
  rw [lz_replicate_append _ _ hhead]
  rw [ofBE_strip b2, strip_replicate_append _ _ hhead, ofBE_toBE hb2]
  rw [ofBE_strip b1 xs, toBE_ofBE hb1 (strip xs) (fun d hd => hlt d (strip_mem xs d hd)) (strip_head xs)]
  exact hdec.symm

/-! fixed width -/

theorem ofLE_fixedLE {b : Nat} (hb : 0 < b) : ∀ (k n : Nat), n < b ^ k → ofLE b (fixedLE b k n) = n
  | 0, n, h => by simp at h; subst h; rfl
  | k+1, n, h => by
    simp only [fixedLE, ofLE]
    rw [ofLE_fixedLE hb k (n / b) (by
      rw [Nat.div_lt_iff_lt_mul hb]; rw [Nat.pow_succ] at h; exact h)]
    exact Nat.mod_add_div n b

theorem fixedLE_ofLE {b : Nat} (hb : 0 < b) : ∀ ds : List Nat, (∀ d ∈ ds, d < b) →
    fixedLE b ds.length (ofLE b ds) = ds
  | [], _ => rfl
  | d :: ds, h => by
    have hd : d < b := h d List.mem_cons_self
    simp only [List.length_cons, fixedLE, ofLE]
    rw [Nat.add_mul_mod_self_left, Nat.mod_eq_of_lt hd,
        Nat.add_mul_div_left _ _ hb, Nat.div_eq_of_lt hd, Nat.zero_add,
        fixedLE_ofLE hb ds (fun x hx => h x (List.mem_cons_of_mem _ hx))]

theorem ofLE_lt {b : Nat} (hb : 0 < b) : ∀ ds : List Nat, (∀ d ∈ ds, d < b) → ofLE b ds < b ^ ds.length
  | [], _ => by simp [ofLE]
  | d :: ds, h => by
    have hd : d < b := h d List.mem_cons_self
    have ih := ofLE_lt hb ds (fun x hx => h x (List.mem_cons_of_mem _ hx))
    simp only [ofLE, List.length_cons, Nat.pow_succ]
    calc d + b * ofLE b ds < b + b * ofLE b ds := by omega
      _ = b * (ofLE b ds + 1) := by rw [Nat.mul_add, Nat.mul_one, Nat.add_comm]
      _ ≤ b * b ^ ds.length := Nat.mul_le_mul_left _ ih
      _ = b ^ ds.length * b := Nat.mul_comm _ _

theorem fixedLE_length (b : Nat) : ∀ k n, (fixedLE b k n).length = k
  | 0, _ => rfl
  | k+1, n => by simp [fixedLE, fixedLE_length b k]

theorem fixedLE_lt {b : Nat} (hb : 0 < b) : ∀ k n, ∀ d ∈ fixedLE b k n, d < b
  | 0, _, d, h => by cases h
  | k+1, n, d, h => by
    rcases List.mem_cons.mp h with h | h
    · subst h; exact Nat.mod_lt _ hb
    · exact fixedLE_lt hb k _ d h

theorem ofBE_fixedBE {b : Nat} (hb : 0 < b) (k n : Nat) (h : n < b ^ k) : ofBE b (fixedBE b k n) = n := by
  unfold ofBE fixedBE; rw [List.reverse_reverse]; exact ofLE_fixedLE hb k n h

theorem fixedBE_ofBE {b : Nat} (hb : 0 < b) (ds : List Nat) (h : ∀ d ∈ ds, d < b) :
    fixedBE b ds.length (ofBE b ds) = ds := by
  unfold ofBE fixedBE
  have := fixedLE_ofLE hb ds.reverse (fun d hd => h d (List.mem_reverse.mp hd))
  rw [List.length_reverse] at this
  rw [this, List.reverse_reverse]

theorem ofBE_lt {b : Nat} (hb : 0 < b) (ds : List Nat) (h : ∀ d ∈ ds, d < b) : ofBE b ds < b ^ ds.length := by
  unfold ofBE
  have := ofLE_lt hb ds.reverse (fun d hd => h d (List.mem_reverse.mp hd))
  rwa [List.length_reverse] at this

theorem fixedBE_length (b k n : Nat) : (fixedBE b k n).length = k := by
  unfold fixedBE; rw [List.length_reverse, fixedLE_length]

theorem fixedBE_lt {b : Nat} (hb : 0 < b) (k n : Nat) : ∀ d ∈ fixedBE b k n, d < b := by
  intro d hd; unfold fixedBE at hd; exact fixedLE_lt hb k n d (List.mem_reverse.mp hd)

end BV.C16.Radix
