/- C16 lemmas: segwit address strings, DecodeAddress round trips, script templates. Core-only. -/
import BV.C16.Address
import BV.C16.BechStringLemmas
import BV.C16.ConvertLemmas
namespace BV.C16.Lemmas
open BV.C16 Radix

/-- witness version / program length combinations an address may carry (BIP-141/350) -/
def progOK (ver : Nat) (prog : List UInt8) : Bool :=
  (ver = 0 && (prog.length = 20 || prog.length = 32)) || (ver = 1 && 2 ≤ prog.length && prog.length ≤ 40)

theorem decodeSegwit_of_bech (s hrp : List UInt8) (ver : Nat) (c : List Nat) (bv : BechVer) (prog : List UInt8)
    (hb : bechDecode s = .ok (hrp, ver :: c, bv)) (hv : ver ≤ 16)
    (hc : convertBits c 5 8 false = .ok (prog.map UInt8.toNat))
    (hl : 2 ≤ prog.length ∧ prog.length ≤ 40) (h0 : ver = 0 → (prog.length = 20 ∨ prog.length = 32))
    (hp : (ver = 0 → bv = .v0) ∧ (ver ≥ 1 → bv = .vM)) :
    decodeSegwit s = .ok (ver, prog) := by
  unfold decodeSegwit
  simp only [hb, hc]
  rw [if_neg (by omega)]
  simp only [List.length_map, map_ofNat_toNat]
  rw [if_neg (by simp; omega)]
  by_cases hz : ver = 0
  · have := h0 hz
    have hbv := hp.1 hz
    subst hz hbv
    rcases this with h | h <;> simp [h]
  · have hbv := hp.2 (by omega)
    subst hbv
    simp [hz]

/-- **segwit encode succeeds and decodes back** for every clean HRP (≤ 18 chars), version 0/1 and legal program. -/
theorem encodeSegwit_ok (hrp : List UInt8) (ver : Nat) (prog : List UInt8)
    (hh : hrpOK hrp = true) (hhl : hrp.length ≤ 18) (hp : progOK ver prog = true) :
    ∃ s D, encodeSegwit hrp ver prog = .ok s ∧ decodeSegwit s = .ok (ver, prog) ∧
      s = hrp ++ 49 :: D ∧ (49 : UInt8) ∉ D := by
  unfold progOK at hp
  simp only [Bool.or_eq_true, Bool.and_eq_true, decide_eq_true_eq] at hp
  have hver : ver = 0 ∨ ver = 1 := by rcases hp with h | h <;> omega
  have hlen : 2 ≤ prog.length ∧ prog.length ≤ 40 := by rcases hp with ⟨_, h | h⟩ | h <;> omega
  have h0 : ver = 0 → (prog.length = 20 ∨ prog.length = 32) := by
    intro hz; rcases hp with ⟨_, h⟩ | h
    · exact h
    · omega
  obtain ⟨c, hc1, hc2, hc3, hc4⟩ := convertBits_8_5_8 (prog.map UInt8.toNat) (map_toNat_lt prog)
  rw [List.length_map] at hc3
  let bv : BechVer := if ver = 0 then .v0 else .vM
  have hdata : ∀ d ∈ ver :: c, d < 32 := by
    intro d hd; rcases List.mem_cons.mp hd with h | h
    · omega
    · exact hc2 d h
  obtain ⟨s, hs1, hs2, hs3⟩ := bech_decode_encode hrp (ver :: c) bv hh hdata (by
    simp only [List.length_cons]; omega)
  have hdec : decodeSegwit s = .ok (ver, prog) :=
    decodeSegwit_of_bech s hrp ver c bv prog hs3 (by omega) hc4 hlen h0
      ⟨fun h => by simp [bv, h], fun h => by
        have hne : ver ≠ 0 := by omega
        simp [bv, hne]⟩
  -- shape of the string
  have hshape : ∃ D, s = hrp ++ 49 :: D ∧ (49 : UInt8) ∉ D := by
    unfold bechDecode at hs3
    split at hs3
    · cases hs3
    · unfold bechDecodeNoLimit at hs3
      split at hs3
      · cases hs3
      · cases hcs : caseScan s false false with
        | some e => simp [hcs] at hs3
        | none =>
          simp only [hcs] at hs3
          -- s is what bechEncode produced: clean, so lowerStr s = s
          have : bechEncode hrp (ver :: c) bv = .ok s := hs1
          unfold bechEncode at this
          split at this
          · cases this
          · injection this with this
            unfold hrpOK at hh
            simp only [Bool.and_eq_true, Bool.not_eq_true', List.all_eq_true] at hh
            have hlow := lowerStr_clean hrp hh.2
            rw [hlow] at this
            have hall : ∀ x ∈ (ver :: c) ++ createChecksum hrp (ver :: c) bv.const, x < 32 := by
              intro x hx; rcases List.mem_append.mp hx with h | h
              · exact hdata x h
              · exact checksumOf_lt _ x h
            refine ⟨((ver :: c) ++ createChecksum hrp (ver :: c) bv.const).map charsetChar, ?_, ?_⟩
            · rw [← this]; simp
            · intro hm
              obtain ⟨d, hd, he⟩ := List.mem_map.mp hm
              exact (charsetChar_clean d (hall d hd)).2 he
  obtain ⟨D, hD1, hD2⟩ := hshape
  refine ⟨s, D, ?_, hdec, hD1, hD2⟩
  unfold encodeSegwit
  simp only [hc1]
  have hr : (if ver = 0 then bechEncode hrp (ver :: c) .v0
             else if ver = 1 then bechEncode hrp (ver :: c) .vM else .error .databyte) = .ok s := by
    rcases hver with h | h
    · subst h; simpa [bv] using hs1
    · subst h; simpa [bv] using hs1
  simp only [hr, hdec]
  simp

/-- **decode then re-encode a segwit string** gives the string in lower case (versions 0 and 1). -/
theorem encodeSegwit_decodeSegwit (s hrp : List UInt8) (data : List Nat) (bv : BechVer) (ver : Nat) (prog : List UInt8)
    (hb : bechDecode s = .ok (hrp, data, bv)) (hd : decodeSegwit s = .ok (ver, prog)) (hv : ver ≤ 1) :
    encodeSegwit hrp ver prog = .ok (lowerStr s) := by
  obtain ⟨he, hdlt, hslen, hs90, hok⟩ := bech_encode_decode s hrp data bv hb
  unfold decodeSegwit at hd
  simp only [hb] at hd
  match data, hd with
  | [], hd => cases hd
  | version :: rest, hd =>
    simp only [] at hd
    split at hd
    · cases hd
    · cases hcb : convertBits rest 5 8 false with
      | error e => simp [hcb] at hd
      | ok regrouped =>
        simp only [hcb] at hd
        split at hd
        · cases hd
        · split at hd
          · cases hd
          · split at hd
            · cases hd
            · split at hd
              · cases hd
              · rename_i hvv hl1 hl2 hp0 hp1
                injection hd with hd
                injection hd with hv1 hv2
                subst hv1 hv2
                have hrest : ∀ v ∈ rest, v < 32 := fun v hv' => hdlt v (List.mem_cons_of_mem _ hv')
                obtain ⟨r1, r2, r3⟩ := convertBits_5_8_5 rest regrouped hrest hcb
                have hpair : bv = (if version = 0 then BechVer.v0 else BechVer.vM) := by
                  by_cases hz : version = 0
                  · simp only [hz, if_true]
                    cases bv with
                    | v0 => rfl
                    | vM => simp [hz] at hp0
                  · simp only [hz, if_false]
                    cases bv with
                    | vM => rfl
                    | v0 => exfalso; apply hp1; simp; omega
                -- the lower-cased string decodes to the same thing
                obtain ⟨s', hs1, _, hs3⟩ := bech_decode_encode hrp (version :: rest) bv hok hdlt (by omega)
                have hss : s' = lowerStr s := by
                  rw [he] at hs1; injection hs1 with h; exact h.symm
                subst hss
                have hdec : decodeSegwit (lowerStr s) = .ok (version, regrouped.map UInt8.ofNat) := by
                  unfold decodeSegwit
                  simp only [hs3, hcb]
                  rw [if_neg hvv, if_neg hl1, if_neg hl2, if_neg hp0, if_neg hp1]
                unfold encodeSegwit
                rw [map_toNat_ofNat _ r1]
                simp only [r3]
                have hr : (if version = 0 then bechEncode hrp (version :: rest) .v0
                    else if version = 1 then bechEncode hrp (version :: rest) .vM else .error .databyte)
                      = .ok (lowerStr s) := by
                  by_cases hz : version = 0
                  · simp only [hz, if_true]; rw [← he, hpair]; simp [hz]
                  · have h1 : version = 1 := by omega
                    simp only [hz, h1, if_false, if_true]; rw [← he, hpair]; simp [h1]
                simp only [hr, hdec]
                simp

end BV.C16.Lemmas
