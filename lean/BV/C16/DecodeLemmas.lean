/- C16 lemmas: DecodeAddress ⇄ address strings, network separation. Core-only. -/
import BV.C16.AddressLemmas
namespace BV.C16.Lemmas
open BV.C16 Radix

/-! ### segwit kinds -/

theorem decodeAddress_some (regs : List (List UInt8)) (H : List UInt8 → List UInt8) (validPK : List UInt8 → Bool)
    (net : Net) (s hp : List UInt8) (hsp : segwitPrefix regs s = some hp) :
    decodeAddress regs H validPK s net = (match decodeSegwit s with
      | .error e => .error e
      | .ok (ver, prog) => segwitToAddr (lowerStr hp) ver prog) := by
  unfold decodeAddress; rw [hsp]; rfl

theorem decodeAddress_none (regs : List (List UInt8)) (H : List UInt8 → List UInt8) (validPK : List UInt8 → Bool)
    (net : Net) (s : List UInt8) (hsp : segwitPrefix regs s = none) :
    decodeAddress regs H validPK s net = decodeLegacy H validPK s net := by
  unfold decodeAddress; rw [hsp]

theorem decodeAddress_segwit (regs : List (List UInt8)) (H : List UInt8 → List UInt8) (validPK : List UInt8 → Bool)
    (net : Net) (hrp : List UInt8) (ver : Nat) (prog s D : List UInt8)
    (hs : s = hrp ++ 49 :: D) (h49 : (49 : UInt8) ∉ D) (hdec : decodeSegwit s = .ok (ver, prog))
    (hlow : lowerStr hrp = hrp) (hl : hrp.length > 1) (hreg : regs.contains hrp = true) :
    decodeAddress regs H validPK s net = segwitToAddr hrp ver prog := by
  have hsp : segwitPrefix regs s = some hrp := by
    unfold segwitPrefix
    rw [hs, splitLastOne_append _ _ h49]
    simp only [hlow, hreg, hl, decide_true, Bool.and_self, if_true]
  rw [decodeAddress_some regs H validPK net s hrp hsp, hdec, hlow]

def isSegwitKind : Addr → Bool
  | .wpkh .. | .wsh .. | .tr .. | .p2a .. => true
  | _ => false

def hrpOf : Addr → List UInt8
  | .wpkh h _ | .wsh h _ | .tr h _ | .p2a h => h
  | _ => []

/-- **encode → decode, segwit kinds** -/
theorem decodeAddress_string_segwit (regs : List (List UInt8)) (H : List UInt8 → List UInt8)
    (validPK : List UInt8 → Bool) (net : Net) (a : Addr) (hk : isSegwitKind a = true) (hwf : a.wf = true)
    (hh : hrpOK (hrpOf a) = true) (hl : 2 ≤ (hrpOf a).length ∧ (hrpOf a).length ≤ 18)
    (hreg : regs.contains (hrpOf a) = true) :
    decodeAddress regs H validPK (a.string H) net = .ok a := by
  have hlow : lowerStr (hrpOf a) = hrpOf a := by
    unfold hrpOK at hh
    simp only [Bool.and_eq_true, Bool.not_eq_true', List.all_eq_true] at hh
    exact lowerStr_clean _ hh.2
  cases a with
  | pkh _ _ => cases hk
  | sh _ _ => cases hk
  | pk _ _ => cases hk
  | wpkh hrp p =>
    simp only [Addr.wf, decide_eq_true_eq] at hwf
    obtain ⟨s, D, h1, h2, h3, h4⟩ := encodeSegwit_ok hrp 0 p hh hl.2 (by simp [progOK, hwf])
    simp only [Addr.string, h1]
    rw [decodeAddress_segwit regs H validPK net hrp 0 p s D h3 h4 h2 hlow (by simp only [hrpOf] at hl; omega) hreg]
    simp [segwitToAddr, hwf]
  | wsh hrp p =>
    simp only [Addr.wf, decide_eq_true_eq] at hwf
    obtain ⟨s, D, h1, h2, h3, h4⟩ := encodeSegwit_ok hrp 0 p hh hl.2 (by simp [progOK, hwf])
    simp only [Addr.string, h1]
    rw [decodeAddress_segwit regs H validPK net hrp 0 p s D h3 h4 h2 hlow (by simp only [hrpOf] at hl; omega) hreg]
    simp [segwitToAddr, hwf]
  | tr hrp p =>
    simp only [Addr.wf, decide_eq_true_eq] at hwf
    obtain ⟨s, D, h1, h2, h3, h4⟩ := encodeSegwit_ok hrp 1 p hh hl.2 (by simp [progOK, hwf])
    simp only [Addr.string, h1]
    rw [decodeAddress_segwit regs H validPK net hrp 1 p s D h3 h4 h2 hlow (by simp only [hrpOf] at hl; omega) hreg]
    simp [segwitToAddr, hwf]
  | p2a hrp =>
    obtain ⟨s, D, h1, h2, h3, h4⟩ := encodeSegwit_ok hrp 1 [0x4e, 0x73] hh hl.2 (by simp [progOK])
    simp only [Addr.string, h1]
    rw [decodeAddress_segwit regs H validPK net hrp 1 [0x4e, 0x73] s D h3 h4 h2 hlow (by simp only [hrpOf] at hl; omega) hreg]
    simp [segwitToAddr]

/-! ### base58 kinds: length bound of the string -/

theorem toLE_length_le {b : Nat} (hb : 2 ≤ b) : ∀ (k n : Nat), n < b ^ k → (toLE b n).length ≤ k
  | 0, n, h => by
    have : n = 0 := by simpa using h
    subst this; rw [toLE_zero]; simp
  | k+1, n, h => by
    by_cases hn : n = 0
    · subst hn; rw [toLE_zero]; simp
    · rw [toLE_pos hb hn, List.length_cons]
      have : n / b < b ^ k := by
        rw [Nat.div_lt_iff_lt_mul (by omega)]; rw [Nat.pow_succ] at h; exact h
      have := toLE_length_le hb k (n / b) this
      omega

theorem lz_le : ∀ xs : List Nat, lz xs ≤ xs.length
  | [] => by simp [lz]
  | 0 :: ds => by simp only [lz, List.length_cons]; have := lz_le ds; omega
  | (n+1) :: ds => by simp [lz]

/-- a Base58Check string of a 20-byte payload has at most 60 characters -/
theorem checkEncode_length (H : List UInt8 → List UInt8) (hH : ∀ x, (H x).length = 4) (p : List UInt8) (v : UInt8)
    (hp : p.length = 20) : (checkEncode H p v).length ≤ 60 := by
  unfold checkEncode b58Encode conv
  rw [List.length_map, List.length_append, List.length_replicate]
  generalize hxs : (v :: p ++ H (v :: p)).map UInt8.toNat = xs
  have hlen : xs.length = 25 := by rw [← hxs]; simp [hH, hp]
  have h1 := lz_le xs
  have hlt := ofBE_lt (by decide : 0 < 256) xs (by rw [← hxs]; exact map_toNat_lt _)
  rw [hlen] at hlt
  have h2 : (toBE 58 (ofBE 256 xs)).length ≤ 35 := by
    unfold toBE; rw [List.length_reverse]
    apply toLE_length_le (by decide) 35
    exact Nat.lt_trans hlt (by decide)
  omega

/-- **encode → decode, Base58Check kinds** (P2PKH / P2SH of the default network). -/
theorem decodeAddress_string_b58 (regs : List (List UInt8)) (H : List UInt8 → List UInt8)
    (hH : ∀ x, (H x).length = 4) (validPK : List UInt8 → Bool) (net : Net) (hne : net.pkh ≠ net.sh)
    (h : List UInt8) (hl : h.length = 20) :
    (segwitPrefix regs (checkEncode H h net.pkh) = none →
      decodeAddress regs H validPK ((Addr.pkh h net.pkh).string H) net = .ok (.pkh h net.pkh)) ∧
    (segwitPrefix regs (checkEncode H h net.sh) = none →
      decodeAddress regs H validPK ((Addr.sh h net.sh).string H) net = .ok (.sh h net.sh)) := by
  constructor
  · intro hs
    have hlen := checkEncode_length H hH h net.pkh hl
    simp only [Addr.string]
    rw [decodeAddress_none regs H validPK net _ hs]
    unfold decodeLegacy
    have hc : ¬ ((decide ((checkEncode H h net.pkh).length = 130) || decide ((checkEncode H h net.pkh).length = 66)) = true) := by
      simp only [Bool.or_eq_true, decide_eq_true_eq]; omega
    rw [if_neg hc, checkDecode_checkEncode H hH]
    simp [hl, hne]
  · intro hs
    have hlen := checkEncode_length H hH h net.sh hl
    simp only [Addr.string]
    rw [decodeAddress_none regs H validPK net _ hs]
    unfold decodeLegacy
    have hc : ¬ ((decide ((checkEncode H h net.sh).length = 130) || decide ((checkEncode H h net.sh).length = 66)) = true) := by
      simp only [Bool.or_eq_true, decide_eq_true_eq]; omega
    rw [if_neg hc, checkDecode_checkEncode H hH]
    simp [hl, Ne.symm hne]

/-! ### decode → encode -/

set_option maxRecDepth 20000 in
theorem lowerByte_eq_49 : ∀ c : UInt8, (lowerByte c = 49) = (c = 49) := by
  apply forall_uint8; decide

theorem splitLastOne_lower : ∀ s : List UInt8,
    splitLastOne (lowerStr s) = (splitLastOne s).map (fun p => (lowerStr p.1, lowerStr p.2))
  | [] => rfl
  | c :: cs => by
    have ih := splitLastOne_lower cs
    unfold lowerStr at ih ⊢
    simp only [List.map_cons, splitLastOne, ih]
    cases splitLastOne cs with
    | some p => rfl
    | none =>
      simp only [Option.map_none, lowerByte_eq_49]
      split <;> rfl

/-- result shapes of `segwitToAddr` -/
theorem segwitToAddr_ok (hrp : List UInt8) (ver : Nat) (prog : List UInt8) (a : Addr)
    (h : segwitToAddr hrp ver prog = .ok a) :
    ver ≤ 1 ∧ ((a = .p2a hrp ∧ ver = 1 ∧ prog = [0x4e, 0x73]) ∨ (a = .wpkh hrp prog ∧ ver = 0) ∨
      (a = .tr hrp prog ∧ ver = 1) ∨ (a = .wsh hrp prog ∧ ver = 0)) := by
  unfold segwitToAddr at h
  split at h
  · cases h
  · rename_i hver
    have hv1 : ver ≤ 1 := by
      simp only [Bool.and_eq_true, decide_eq_true_eq, not_and, ne_eq, Decidable.not_not] at hver
      by_cases h0 : ver = 0
      · omega
      · have := hver h0; omega
    refine ⟨hv1, ?_⟩
    split at h
    · split at h
      · rename_i hc
        injection h with h
        simp only [Bool.and_eq_true, decide_eq_true_eq] at hc
        exact Or.inl ⟨h.symm, hc.1, hc.2⟩
      · cases h
    · split at h
      · split at h
        · rename_i hc; injection h with h; exact Or.inr (Or.inl ⟨h.symm, hc⟩)
        · cases h
      · split at h
        · split at h
          · rename_i hc; injection h with h; exact Or.inr (Or.inr (Or.inl ⟨h.symm, hc⟩))
          · rename_i hc; injection h with h; exact Or.inr (Or.inr (Or.inr ⟨h.symm, by omega⟩))
        · cases h

/-- result shapes of the non-segwit part -/
theorem decodeLegacy_ok (H : List UInt8 → List UInt8) (validPK : List UInt8 → Bool) (s : List UInt8) (net : Net)
    (a : Addr) (h : decodeLegacy H validPK s net = .ok a) :
    (∃ ser, a = .pk (normPK ser) net.pkh) ∨
    (∃ d, checkDecode H s = .ok (d, net.pkh) ∧ a = .pkh d net.pkh) ∨
    (∃ d, checkDecode H s = .ok (d, net.sh) ∧ a = .sh d net.sh) := by
  unfold decodeLegacy at h
  split at h
  · cases hx : hexDecode? s with
    | none => simp [hx] at h
    | some ser =>
      simp only [hx] at h
      split at h
      · injection h with h; exact Or.inl ⟨ser, h.symm⟩
      · cases h
  · cases hc : checkDecode H s with
    | error e => cases e <;> (rw [hc] at h; cases h)
    | ok r =>
      obtain ⟨decoded, netID⟩ := r
      rw [hc] at h
      simp only [] at h
      split at h
      · split at h
        · cases h
        · split at h
          · rename_i hid; injection h with h; subst hid
            exact Or.inr (Or.inl ⟨decoded, rfl, h.symm⟩)
          · split at h
            · rename_i hid; injection h with h; subst hid
              exact Or.inr (Or.inr ⟨decoded, rfl, h.symm⟩)
            · cases h
      · cases h

/-- the bech32 HRP of a string is its lower-cased segwit prefix -/
theorem bech_hrp_of_prefix (regs : List (List UInt8)) (s hp hrp : List UInt8) (data : List Nat) (bv : BechVer)
    (hsp : segwitPrefix regs s = some hp) (hb : bechDecode s = .ok (hrp, data, bv)) : hrp = lowerStr hp := by
  unfold segwitPrefix at hsp
  cases hso : splitLastOne s with
  | none => simp [hso] at hsp
  | some p =>
    simp only [hso] at hsp
    split at hsp
    · injection hsp with hsp
      have hlow := splitLastOne_lower s
      rw [hso] at hlow
      simp only [Option.map_some] at hlow
      unfold bechDecode at hb
      split at hb
      · cases hb
      · unfold bechDecodeNoLimit at hb
        split at hb
        · cases hb
        · cases hcs : caseScan s false false with
          | some e => simp [hcs] at hb
          | none =>
            simp only [hcs, hlow] at hb
            split at hb
            · cases hb
            · cases hfc : fromCharset (lowerStr p.2) with
              | none => simp [hfc] at hb
              | some dec =>
                simp only [hfc] at hb
                split at hb
                · cases hb
                · injection hb with hb
                  injection hb with hb1 _
                  rw [← hb1, hsp]
    · cases hsp

/-- **decode → encode**: the string form of a decoded address is the input (lower-cased for the
case-insensitive bech32 forms). -/
theorem string_decodeAddress (regs : List (List UInt8)) (H : List UInt8 → List UInt8) (hH : ∀ x, (H x).length = 4)
    (validPK : List UInt8 → Bool) (net : Net) (s : List UInt8) (a : Addr)
    (h : decodeAddress regs H validPK s net = .ok a) :
    (isSegwitKind a = true → a.string H = lowerStr s) ∧
    ((∃ x id, a = .pkh x id ∨ a = .sh x id) → a.string H = s) := by
  cases hsp : segwitPrefix regs s with
  | some hp =>
    rw [decodeAddress_some regs H validPK net s hp hsp] at h
    cases hd : decodeSegwit s with
    | error e => rw [hd] at h; cases h
    | ok r =>
      obtain ⟨ver, prog⟩ := r
      rw [hd] at h
      simp only [] at h
      have hb : ∃ hrp data bv, bechDecode s = .ok (hrp, data, bv) := by
        unfold decodeSegwit at hd
        cases hbd : bechDecode s with
        | error e => simp [hbd] at hd
        | ok r => exact ⟨r.1, r.2.1, r.2.2, rfl⟩
      obtain ⟨hrp, data, bv, hb⟩ := hb
      have hhrp := bech_hrp_of_prefix regs s hp hrp data bv hsp hb
      obtain ⟨hv1, hshape⟩ := segwitToAddr_ok _ _ _ _ h
      have henc := encodeSegwit_decodeSegwit s hrp data bv ver prog hb hd hv1
      rw [hhrp] at henc
      constructor
      · intro _
        rcases hshape with ⟨rfl, rfl, rfl⟩ | ⟨rfl, rfl⟩ | ⟨rfl, rfl⟩ | ⟨rfl, rfl⟩ <;>
          simp only [Addr.string, henc]
      · rintro ⟨x, id, hx⟩
        rcases hshape with ⟨rfl, _⟩ | ⟨rfl, _⟩ | ⟨rfl, _⟩ | ⟨rfl, _⟩ <;> (rcases hx with hx | hx <;> cases hx)
  | none =>
    rw [decodeAddress_none regs H validPK net s hsp] at h
    rcases decodeLegacy_ok H validPK s net a h with ⟨ser, rfl⟩ | ⟨d, hc, rfl⟩ | ⟨d, hc, rfl⟩
    · constructor
      · intro hk; cases hk
      · rintro ⟨x, id, hx⟩; rcases hx with hx | hx <;> cases hx
    · constructor
      · intro hk; cases hk
      · intro _; simp only [Addr.string]; exact checkEncode_checkDecode H hH s d _ hc
    · constructor
      · intro hk; cases hk
      · intro _; simp only [Addr.string]; exact checkEncode_checkDecode H hH s d _ hc

/-! ### network separation -/

/-- **network_separation**: an address decoded from a string is "for" another network exactly when that network
shares the prefix the string was decoded under: the version byte checked against `defaultNet` for Base58Check
strings (and the default network's P2PKH byte for raw public keys), the lower-cased human-readable part for
bech32 strings. -/
theorem isForNet_of_decode (regs : List (List UInt8)) (H : List UInt8 → List UInt8) (validPK : List UInt8 → Bool)
    (net other : Net) (s : List UInt8) (a : Addr)
    (h : decodeAddress regs H validPK s net = .ok a) :
    a.isForNet other = true ↔ (match a with
      | .pkh .. => other.pkh = net.pkh
      | .pk .. => other.pkh = net.pkh
      | .sh .. => other.sh = net.sh
      | _ => ∃ hp, segwitPrefix regs s = some hp ∧ lowerStr hp = other.hrp) := by
  cases hsp : segwitPrefix regs s with
  | some hp =>
    rw [decodeAddress_some regs H validPK net s hp hsp] at h
    cases hd : decodeSegwit s with
    | error e => rw [hd] at h; cases h
    | ok r =>
      obtain ⟨ver, prog⟩ := r
      rw [hd] at h
      simp only [] at h
      obtain ⟨_, hshape⟩ := segwitToAddr_ok _ _ _ _ h
      rcases hshape with ⟨rfl, _⟩ | ⟨rfl, _⟩ | ⟨rfl, _⟩ | ⟨rfl, _⟩ <;> simp [Addr.isForNet]
  | none =>
    rw [decodeAddress_none regs H validPK net s hsp] at h
    rcases decodeLegacy_ok H validPK s net a h with ⟨ser, rfl⟩ | ⟨d, hc, rfl⟩ | ⟨d, hc, rfl⟩ <;>
      (simp only [Addr.isForNet, decide_eq_true_eq]; exact eq_comm)

end BV.C16.Lemmas
