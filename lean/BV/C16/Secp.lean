/-
Executable reference arithmetic for secp256k1 (y² = x³ + 7 over F_p). Core-only,
no Mathlib; naturals reduced mod `p`, points as `Option (Nat × Nat)` with
`none` = point at infinity.

* `add` is the textbook affine group law (doubling, inverse points, infinity);
  `mulAffine` is plain double-and-add on top of it — this is the REFERENCE.
* `mul` computes the same function in Jacobian coordinates (one inversion at the
  end); it is cross-checked against `mulAffine` and the published vectors.
* SEC1 public-key parsing (compressed / uncompressed / hybrid) and serialisation,
  BIP340 x-only serialisation.

Nothing here is proved; trusted base: "modelled, not verified".
-/
namespace BV.C16.Secp

def p : Nat := 0xFFFFFFFFFFFFFFFFFFFFFFFFFFFFFFFFFFFFFFFFFFFFFFFFFFFFFFFEFFFFFC2F
def n : Nat := 0xFFFFFFFFFFFFFFFFFFFFFFFFFFFFFFFEBAAEDCE6AF48A03BBFD25E8CD0364141
def gx : Nat := 0x79BE667EF9DCBBAC55A06295CE870B07029BFCDB2DCE28D959F2815B16F81798
def gy : Nat := 0x483ADA7726A3C4655DA4FBFC0E1108A8FD17B448A68554199C47D08FFB10D4B8

/-! ### modular arithmetic -/

/-- square-and-multiply, structural on `fuel` (must be ≥ the bit length of `e`). -/
def powModAux (m : Nat) : Nat → Nat → Nat → Nat → Nat
  | 0, _, _, acc => acc
  | fuel + 1, b, e, acc =>
    if e = 0 then acc
    else powModAux m fuel (b * b % m) (e / 2) (if e % 2 = 1 then acc * b % m else acc)

/-- `b ^ e mod m` -/
def powMod (b e m : Nat) : Nat := powModAux m (e.log2 + 1) (b % m) e (1 % m)

/-- inverse modulo a PRIME `m` by Fermat (`a^(m-2)`); `modInv 0 m = 0`. -/
def modInv (a m : Nat) : Nat := powMod a (m - 2) m

@[inline] def fadd (a b : Nat) : Nat := (a + b) % p
@[inline] def fsub (a b : Nat) : Nat := (a + (p - b % p)) % p
@[inline] def fmul (a b : Nat) : Nat := (a * b) % p
@[inline] def fneg (a : Nat) : Nat := (p - a % p) % p
def finv (a : Nat) : Nat := modInv a p

/-- a square root of `a` mod p if one exists: `a^((p+1)/4)` (p ≡ 3 mod 4). -/
def fsqrt (a : Nat) : Option Nat :=
  let r := powMod a ((p + 1) / 4) p
  if r * r % p = a % p then some r else none

/-! ### points -/

/-- affine point; `none` is the point at infinity -/
abbrev Pt := Option (Nat × Nat)

def G : Pt := some (gx, gy)

def isOnCurve (x y : Nat) : Bool := y * y % p == (x * x % p * x + 7) % p

def onCurve : Pt → Bool
  | none => true
  | some (x, y) => x < p && y < p && isOnCurve x y

def neg : Pt → Pt
  | none => none
  | some (x, y) => some (x, fneg y)

/-- affine doubling (tangent rule); a point with y = 0 doubles to infinity. -/
def double : Pt → Pt
  | none => none
  | some (x, y) =>
    if y % p = 0 then none else
    let l := fmul (3 * (x * x % p)) (finv (2 * y))
    let x3 := fsub (fmul l l) (2 * x)
    some (x3, fsub (fmul l (fsub x x3)) y)

/-- affine group law: infinity is neutral, P + (−P) = ∞, P + P = double P, else chord rule. -/
def add : Pt → Pt → Pt
  | none, q => q
  | q, none => q
  | some (x1, y1), some (x2, y2) =>
    if x1 % p = x2 % p then
      if y1 % p = y2 % p then double (some (x1, y1)) else none
    else
      let l := fmul (fsub y2 y1) (finv (fsub x2 x1))
      let x3 := fsub (fsub (fmul l l) x1) x2
      some (x3, fsub (fmul l (fsub x1 x3)) y1)

def sub (a b : Pt) : Pt := add a (neg b)

/-- right-to-left double-and-add; structural on `fuel` (≥ bit length of `k`). -/
def mulAffineAux : Nat → Nat → Pt → Pt → Pt
  | 0, _, _, acc => acc
  | fuel + 1, k, q, acc =>
    if k = 0 then acc
    else mulAffineAux fuel (k / 2) (double q) (if k % 2 = 1 then add acc q else acc)

/-- REFERENCE scalar multiplication (affine double-and-add), any `k : Nat`. -/
def mulAffine (k : Nat) (q : Pt) : Pt := mulAffineAux (k.log2 + 1) k q none

/-! ### Jacobian fast path: (X, Y, Z) ↦ (X/Z², Y/Z³), Z = 0 is infinity -/

structure J where
  x : Nat
  y : Nat
  z : Nat

def J.inf : J := ⟨1, 1, 0⟩

def J.toPt (q : J) : Pt :=
  if q.z = 0 then none else
  let zi := finv q.z
  let zi2 := fmul zi zi
  some (fmul q.x zi2, fmul q.y (fmul zi2 zi))

/-- dbl-2009-l (a = 0) -/
def J.double (q : J) : J :=
  if q.z = 0 || q.y = 0 then J.inf else
  let a := fmul q.x q.x
  let b := fmul q.y q.y
  let c := fmul b b
  let t := fadd q.x b
  let d := fmul 2 (fsub (fsub (fmul t t) a) c)
  let e := fmul 3 a
  let x3 := fsub (fmul e e) (2 * d)
  ⟨x3, fsub (fmul e (fsub d x3)) (8 * c), fmul (2 * q.y) q.z⟩

/-- mixed addition of an affine point (x2, y2), both coordinates already reduced mod p -/
def J.addAff (q : J) (x2 y2 : Nat) : J :=
  if q.z = 0 then ⟨x2, y2, 1⟩ else
  let zz := fmul q.z q.z
  let u2 := fmul x2 zz
  let s2 := fmul y2 (fmul q.z zz)
  let h := fsub u2 q.x
  let r := fsub s2 q.y
  if h = 0 then
    if r = 0 then q.double else J.inf
  else
    let hh := fmul h h
    let hhh := fmul h hh
    let v := fmul q.x hh
    let x3 := fsub (fsub (fmul r r) hhh) (2 * v)
    ⟨x3, fsub (fmul r (fsub v x3)) (fmul q.y hhh), fmul q.z h⟩

/-- left-to-right double-and-add over the bits `i-1 … 0` of `k`; structural on `i`. -/
def jmulAux (k x y : Nat) : Nat → J → J
  | 0, acc => acc
  | i + 1, acc =>
    let d := acc.double
    jmulAux k x y i (if k.testBit i then d.addAff x y else d)

/-- scalar multiplication `k·P` for any `k : Nat` (so `mul n P = none`). Jacobian fast path. -/
def mul (k : Nat) : Pt → Pt
  | none => none
  | some (x, y) => (jmulAux k (x % p) (y % p) (k.log2 + 1) J.inf).toPt

def mulG (k : Nat) : Pt := mul k G

/-! ### x-lifting, parsing, serialisation -/

/-- the curve point with abscissa `x` and the requested y-parity; `none` if `x ≥ p` or
    `x³ + 7` is not a square. -/
def liftX (x : Nat) (odd : Bool) : Option (Nat × Nat) :=
  if x ≥ p then none else
  match fsqrt ((x * x % p * x + 7) % p) with
  | none => none
  | some y =>
    let y' := if (y % 2 == 1) == odd then y else fneg y
    some (x, y')

/-- big-endian natural number of a byte string -/
def beNat (bs : List UInt8) : Nat := bs.foldl (fun acc b => acc * 256 + b.toNat) 0

/-- the 32 low-order bytes of `v`, big-endian -/
def be32 (v : Nat) : List UInt8 :=
  (List.range 32).map (fun i => UInt8.ofNat (v >>> (8 * (31 - i)) % 256))

/-- SEC1 public key: 33-byte compressed (02/03), 65-byte uncompressed (04), 65-byte hybrid
    (06/07, tag parity must equal the parity of y). Coordinates must be < p and on the curve. -/
def parsePubKey (bs : List UInt8) : Option (Nat × Nat) :=
  match bs with
  | [] => none
  | tag :: rest =>
    if bs.length = 33 then
      if tag = 2 || tag = 3 then liftX (beNat rest) (tag = 3) else none
    else if bs.length = 65 then
      if tag = 4 || tag = 6 || tag = 7 then
        let x := beNat (rest.take 32)
        let y := beNat (rest.drop 32)
        if x ≥ p || y ≥ p then none
        else if (tag = 6 || tag = 7) && ((y % 2 == 1) != (tag == 7)) then none
        else if isOnCurve x y then some (x, y) else none
      else none
    else none

def serCompressed (q : Nat × Nat) : List UInt8 :=
  (if q.2 % 2 = 1 then 3 else 2) :: be32 q.1

def serUncompressed (q : Nat × Nat) : List UInt8 := 4 :: (be32 q.1 ++ be32 q.2)

def serHybrid (q : Nat × Nat) : List UInt8 :=
  (if q.2 % 2 = 1 then 7 else 6) :: (be32 q.1 ++ be32 q.2)

/-- BIP340 x-only encoding (32 bytes) -/
def xOnly (q : Nat × Nat) : List UInt8 := be32 q.1

end BV.C16.Secp
