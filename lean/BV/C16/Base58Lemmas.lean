/- C16 lemmas: base58 / Base58Check round trips. Core-only. -/
import BV.C16.Base58
namespace BV.C16.Lemmas
open BV.C16 Radix

theorem getD_eq_getElem' {α} (l : List α) (i : Nat) (d : α) (h : i < l.length) : l.getD i d = l[i] := by
  simp [List.getD_eq_getElem?_getD, List.getElem?_eq_getElem h]

theorem b58Alphabet_length : b58Alphabet.length = 58 := by decide
theorem b58Alphabet_nodup : b58Alphabet.Nodup := by decide

theorem b58Idx_b58Char (d : Nat) (h : d < 58) : b58Idx (b58Char d) = some d := by
  have hl : d < b58Alphabet.length := by rw [b58Alphabet_length]; exact h
  unfold b58Idx b58Char
  rw [getD_eq_getElem' _ _ _ hl, b58Alphabet_nodup.idxOf_getElem d hl]
  simp [h]

theorem b58Char_b58Idx {c : UInt8} {d : Nat} (h : b58Idx c = some d) : b58Char d = c ∧ d < 58 := by
  unfold b58Idx at h
  simp only [] at h
  split at h
  · rename_i hlt
    injection h with h
    have hl : b58Alphabet.idxOf c < b58Alphabet.length := by rw [b58Alphabet_length]; exact hlt
    subst h
    refine ⟨?_, hlt⟩
    unfold b58Char
    rw [getD_eq_getElem' _ _ _ hl]
    exact List.getElem_idxOf hl
  · cases h

theorem b58Digits_map_char : ∀ ds : List Nat, (∀ d ∈ ds, d < 58) → b58Digits (ds.map b58Char) = some ds
  | [], _ => rfl
  | d :: ds, h => by
    simp only [List.map_cons, b58Digits]
    rw [b58Idx_b58Char d (h d List.mem_cons_self),
        b58Digits_map_char ds (fun x hx => h x (List.mem_cons_of_mem _ hx))]

theorem b58Digits_some : ∀ (s : List UInt8) (ds : List Nat), b58Digits s = some ds →
    ds.map b58Char = s ∧ ∀ d ∈ ds, d < 58
  | [], ds, h => by simp [b58Digits] at h; subst h; simp
  | c :: cs, ds, h => by
    simp only [b58Digits] at h
    cases hc : b58Idx c with
    | none => simp [hc] at h
    | some d =>
      cases hcs : b58Digits cs with
      | none => simp [hc, hcs] at h
      | some ds' =>
        simp [hc, hcs] at h
        subst h
        have ⟨h1, h2⟩ := b58Digits_some cs ds' hcs
        have ⟨h3, h4⟩ := b58Char_b58Idx hc
        refine ⟨by simp [h1, h3], ?_⟩
        intro x hx
        rcases List.mem_cons.mp hx with h | h
        · subst h; exact h4
        · exact h2 x h

theorem b58Valid_iff (s : List UInt8) : b58Valid s = true ↔ ∃ ds, b58Digits s = some ds := by
  induction s with
  | nil => simp [b58Valid, b58Digits]
  | cons c cs ih =>
    unfold b58Valid at ih ⊢
    simp only [List.all_cons, Bool.and_eq_true, b58Digits]
    rw [ih]
    constructor
    · rintro ⟨h1, ds, h2⟩
      cases hc : b58Idx c with
      | none => simp [hc] at h1
      | some d => exact ⟨d :: ds, by simp [h2]⟩
    · rintro ⟨ds, h⟩
      cases hc : b58Idx c with
      | none => simp [hc] at h
      | some d =>
        cases hcs : b58Digits cs with
        | none => simp [hc, hcs] at h
        | some ds' => exact ⟨by simp, ds', rfl⟩

theorem map_toNat_lt (b : List UInt8) : ∀ d ∈ b.map UInt8.toNat, d < 256 := by
  intro d hd
  rcases List.mem_map.mp hd with ⟨x, _, rfl⟩
  exact x.toNat_lt

theorem map_ofNat_toNat (b : List UInt8) : (b.map UInt8.toNat).map UInt8.ofNat = b := by
  induction b with
  | nil => rfl
  | cons x xs ih => simp only [List.map_cons, ih, UInt8.ofNat_toNat]

theorem map_toNat_ofNat (ds : List Nat) (h : ∀ d ∈ ds, d < 256) : (ds.map UInt8.ofNat).map UInt8.toNat = ds := by
  induction ds with
  | nil => rfl
  | cons x xs ih =>
    simp only [List.map_cons]
    rw [ih (fun d hd => h d (List.mem_cons_of_mem _ hd))]
    have : x < 256 := h x List.mem_cons_self
    congr 1
    simp [UInt8.toNat_ofNat, Nat.mod_eq_of_lt this]

/-- `Decode (Encode b) = b` for every byte string. -/
theorem b58_decode_encode (b : List UInt8) : b58Decode (b58Encode b) = b := by
  unfold b58Decode b58Encode
  rw [b58Digits_map_char _ (conv_lt (by omega) _)]
  simp only []
  rw [conv_conv (by omega) (by omega) _ (map_toNat_lt b), map_ofNat_toNat]

/-- `Encode (Decode s) = s` for every string over the alphabet. -/
theorem b58_encode_decode (s : List UInt8) (h : b58Valid s = true) : b58Encode (b58Decode s) = s := by
  obtain ⟨ds, hds⟩ := (b58Valid_iff s).mp h
  have ⟨h1, h2⟩ := b58Digits_some s ds hds
  unfold b58Decode b58Encode
  rw [hds]
  simp only []
  rw [map_toNat_ofNat _ (conv_lt (by omega) _), conv_conv (by omega) (by omega) _ h2, h1]

theorem b58Decode_invalid (s : List UInt8) (h : b58Valid s = false) : b58Decode s = [] := by
  unfold b58Decode
  cases hd : b58Digits s with
  | none => rfl
  | some ds =>
    have := (b58Valid_iff s).mpr ⟨ds, hd⟩
    rw [h] at this; cases this

/-! ### Base58Check -/

/-- what `checkDecode` accepts: exactly the strings whose decoding is `version :: payload ++ H(version :: payload)`. -/
theorem checkDecode_ok_iff (H : List UInt8 → List UInt8) (hH : ∀ x, (H x).length = 4)
    (s : List UInt8) (p : List UInt8) (v : UInt8) :
    checkDecode H s = .ok (p, v) ↔ b58Decode s = v :: p ++ H (v :: p) := by
  unfold checkDecode
  simp only []
  constructor
  · intro h
    split at h
    · cases h
    · rename_i hlen
      split at h
      · cases h
      · rename_i version rest hdec
        split at h
        · cases h
        · rename_i hck
          have hck : H ((b58Decode s).take ((b58Decode s).length - 4)) = (b58Decode s).drop ((b58Decode s).length - 4) := by
            simpa using hck
          injection h with h
          injection h with h1 h2
          subst h2
          rw [hdec] at hck hlen ⊢
          simp only [List.length_cons] at hck hlen
          have e1 : rest.length + 1 - 4 = (rest.length - 4) + 1 := by omega
          rw [e1, List.take_succ_cons, List.drop_succ_cons, h1] at hck
          rw [hck]
          have := List.take_append_drop (rest.length - 4) rest
          rw [h1] at this
          rw [List.cons_append, this]
  · intro h
    have hlen : (b58Decode s).length = p.length + 5 := by rw [h]; simp [hH]
    rw [if_neg (by omega)]
    rw [h]
    simp only [List.cons_append, List.length_cons, List.length_append, hH]
    have e1 : p.length + 4 + 1 - 4 = p.length + 1 := by omega
    rw [e1]
    have t1 : List.take (p.length + 1) (v :: (p ++ H (v :: p))) = v :: p := by
      rw [List.take_succ_cons, List.take_left' rfl]
    have t2 : List.drop (p.length + 1) (v :: (p ++ H (v :: p))) = H (v :: p) := by
      rw [List.drop_succ_cons, List.drop_left' rfl]
    rw [t1, t2]
    simp only [ne_eq, not_true_eq_false, if_false]
    have e2 : p.length + 4 - 4 = p.length := by omega
    rw [e2, List.take_left' rfl]

theorem checkDecode_checkEncode (H : List UInt8 → List UInt8) (hH : ∀ x, (H x).length = 4)
    (p : List UInt8) (v : UInt8) : checkDecode H (checkEncode H p v) = .ok (p, v) := by
  rw [checkDecode_ok_iff H hH]
  unfold checkEncode
  rw [b58_decode_encode]

theorem checkDecode_valid (H : List UInt8 → List UInt8) (s : List UInt8) (r : List UInt8 × UInt8)
    (h : checkDecode H s = .ok r) : b58Valid s = true := by
  cases hv : b58Valid s with
  | true => rfl
  | false =>
    have := b58Decode_invalid s hv
    unfold checkDecode at h
    simp [this] at h

theorem checkEncode_checkDecode (H : List UInt8 → List UInt8) (hH : ∀ x, (H x).length = 4)
    (s p : List UInt8) (v : UInt8) (h : checkDecode H s = .ok (p, v)) : checkEncode H p v = s := by
  have hv := checkDecode_valid H s _ h
  have := (checkDecode_ok_iff H hH s p v).mp h
  unfold checkEncode
  rw [← this]
  exact b58_encode_decode s hv

end BV.C16.Lemmas
