/-
C16 model: the loops of base58.Encode / base58.Decode as written in Go — ten base-58 digits at a time through a
machine word (`58^10 < 2^63`), the big number only touched once per chunk. Core-only.
`Base58AlgoLemmas` proves these equal the arithmetic model `b58Encode` / `b58Decode`.
-/
import BV.C16.Base58
namespace BV.C16
open Radix

/-- `Decode`'s loop: `answer = answer * 58^n + total` for each chunk of `n ≤ 10` digits -/
def decodeChunks : Nat → List Nat → Nat → Nat
  | 0, _, acc => acc
  | f+1, ds, acc =>
    if ds = [] then acc else
    let c := ds.take 10
    let total := c.foldl (fun t d => t * 58 + d) 0
    decodeChunks f (ds.drop 10) (acc * 58 ^ c.length + total)

/-- `base58.Decode` as written -/
def b58DecodeAlgo (s : List UInt8) : List UInt8 :=
  match b58Digits s with
  | none => []
  | some ds =>
    (List.replicate (lz ds) 0 ++ toBE 256 (decodeChunks ds.length ds 0)).map UInt8.ofNat

/-- `Encode`'s loop: `x, mod = x / 58^10, x % 58^10`; ten digits of `mod`, or only its significant digits for the
last chunk. Digits come out least significant first. -/
def encodeChunks : Nat → Nat → List Nat
  | 0, _ => []
  | f+1, x =>
    if x = 0 then [] else
    let q := x / 58 ^ 10
    let m := x % 58 ^ 10
    if q = 0 then toLE 58 m else fixedLE 58 10 m ++ encodeChunks f q

/-- `base58.Encode` as written: digits, then one `'1'` per leading zero byte, then reversed -/
def b58EncodeAlgo (b : List UInt8) : List UInt8 :=
  let xs := b.map UInt8.toNat
  ((encodeChunks (ofBE 256 xs) (ofBE 256 xs) ++ List.replicate (lz xs) 0).reverse).map b58Char

end BV.C16
