/- C16 lemmas: PayToAddrScript / ExtractPkScriptAddrs round trip per address kind. Core-only. (generated shapes) -/
import BV.C16.ScriptLemmas
namespace BV.C16.Lemmas
open BV.C16

theorem len20 (h : List UInt8) (hl : h.length = 20) : ∃ x0 x1 x2 x3 x4 x5 x6 x7 x8 x9 x10 x11 x12 x13 x14 x15 x16 x17 x18 x19 : UInt8,
    h = [x0,x1,x2,x3,x4,x5,x6,x7,x8,x9,x10,x11,x12,x13,x14,x15,x16,x17,x18,x19] := by
  match h, hl with
  | [x0,x1,x2,x3,x4,x5,x6,x7,x8,x9,x10,x11,x12,x13,x14,x15,x16,x17,x18,x19], _ => exact ⟨_,_,_,_,_,_,_,_,_,_,_,_,_,_,_,_,_,_,_,_,rfl⟩

theorem len32 (h : List UInt8) (hl : h.length = 32) : ∃ x0 x1 x2 x3 x4 x5 x6 x7 x8 x9 x10 x11 x12 x13 x14 x15 x16 x17 x18 x19 x20 x21 x22 x23 x24 x25 x26 x27 x28 x29 x30 x31 : UInt8,
    h = [x0,x1,x2,x3,x4,x5,x6,x7,x8,x9,x10,x11,x12,x13,x14,x15,x16,x17,x18,x19,x20,x21,x22,x23,x24,x25,x26,x27,x28,x29,x30,x31] := by
  match h, hl with
  | [x0,x1,x2,x3,x4,x5,x6,x7,x8,x9,x10,x11,x12,x13,x14,x15,x16,x17,x18,x19,x20,x21,x22,x23,x24,x25,x26,x27,x28,x29,x30,x31], _ => exact ⟨_,_,_,_,_,_,_,_,_,_,_,_,_,_,_,_,_,_,_,_,_,_,_,_,_,_,_,_,_,_,_,_,rfl⟩

theorem len33 (h : List UInt8) (hl : h.length = 33) : ∃ x0 x1 x2 x3 x4 x5 x6 x7 x8 x9 x10 x11 x12 x13 x14 x15 x16 x17 x18 x19 x20 x21 x22 x23 x24 x25 x26 x27 x28 x29 x30 x31 x32 : UInt8,
    h = (x0 :: x1 :: x2 :: x3 :: x4 :: x5 :: x6 :: x7 :: x8 :: x9 :: x10 :: x11 :: x12 :: x13 :: x14 :: x15 :: x16 :: x17 :: x18 :: x19 :: x20 :: x21 :: x22 :: x23 :: x24 :: x25 :: x26 :: x27 :: x28 :: x29 :: x30 :: x31 :: x32 :: []) := by
  match h, hl with
  | (x0 :: x1 :: x2 :: x3 :: x4 :: x5 :: x6 :: x7 :: x8 :: x9 :: x10 :: x11 :: x12 :: x13 :: x14 :: x15 :: x16 :: x17 :: x18 :: x19 :: x20 :: x21 :: x22 :: x23 :: x24 :: x25 :: x26 :: x27 :: x28 :: x29 :: x30 :: x31 :: x32 :: []), _ => exact ⟨_,_,_,_,_,_,_,_,_,_,_,_,_,_,_,_,_,_,_,_,_,_,_,_,_,_,_,_,_,_,_,_,_,rfl⟩

theorem len65 (h : List UInt8) (hl : h.length = 65) : ∃ x0 x1 x2 x3 x4 x5 x6 x7 x8 x9 x10 x11 x12 x13 x14 x15 x16 x17 x18 x19 x20 x21 x22 x23 x24 x25 x26 x27 x28 x29 x30 x31 x32 x33 x34 x35 x36 x37 x38 x39 x40 x41 x42 x43 x44 x45 x46 x47 x48 x49 x50 x51 x52 x53 x54 x55 x56 x57 x58 x59 x60 x61 x62 x63 x64 : UInt8,
    h = (x0 :: x1 :: x2 :: x3 :: x4 :: x5 :: x6 :: x7 :: x8 :: x9 :: x10 :: x11 :: x12 :: x13 :: x14 :: x15 :: x16 :: x17 :: x18 :: x19 :: x20 :: x21 :: x22 :: x23 :: x24 :: x25 :: x26 :: x27 :: x28 :: x29 :: x30 :: x31 :: x32 :: x33 :: x34 :: x35 :: x36 :: x37 :: x38 :: x39 :: x40 :: x41 :: x42 :: x43 :: x44 :: x45 :: x46 :: x47 :: x48 :: x49 :: x50 :: x51 :: x52 :: x53 :: x54 :: x55 :: x56 :: x57 :: x58 :: x59 :: x60 :: x61 :: x62 :: x63 :: x64 :: []) := by
  match h, hl with
  | (x0 :: x1 :: x2 :: x3 :: x4 :: x5 :: x6 :: x7 :: x8 :: x9 :: x10 :: x11 :: x12 :: x13 :: x14 :: x15 :: x16 :: x17 :: x18 :: x19 :: x20 :: x21 :: x22 :: x23 :: x24 :: x25 :: x26 :: x27 :: x28 :: x29 :: x30 :: x31 :: x32 :: x33 :: x34 :: x35 :: x36 :: x37 :: x38 :: x39 :: x40 :: x41 :: x42 :: x43 :: x44 :: x45 :: x46 :: x47 :: x48 :: x49 :: x50 :: x51 :: x52 :: x53 :: x54 :: x55 :: x56 :: x57 :: x58 :: x59 :: x60 :: x61 :: x62 :: x63 :: x64 :: []), _ => exact ⟨_,_,_,_,_,_,_,_,_,_,_,_,_,_,_,_,_,_,_,_,_,_,_,_,_,_,_,_,_,_,_,_,_,_,_,_,_,_,_,_,_,_,_,_,_,_,_,_,_,_,_,_,_,_,_,_,_,_,_,_,_,_,_,_,_,rfl⟩


def scriptClassOf : Addr → ScriptClass
  | .pkh .. => .pubKeyHash | .sh .. => .scriptHash | .pk .. => .pubKey | .wpkh .. => .witnessV0PubKeyHash
  | .wsh .. => .witnessV0ScriptHash | .tr .. => .witnessV1Taproot | .p2a .. => .payToAnchor

def nreqOf : Addr → Nat
  | .p2a .. => 0
  | _ => 1

/-- the address is one `ExtractPkScriptAddrs(·, net)` can produce: network id / lower-cased HRP of `net` -/
def onNet : Addr → Net → Bool
  | .pkh _ id, n => id = n.pkh
  | .sh _ id, n => id = n.sh
  | .pk _ id, n => id = n.pkh
  | .wpkh h _, n => h = lowerStr n.hrp
  | .wsh h _, n => h = lowerStr n.hrp
  | .tr h _, n => h = lowerStr n.hrp
  | .p2a h, n => h = lowerStr n.hrp

theorem xtr_pkh (validPK : List UInt8 → Bool) (net : Net) (h : List UInt8) (hl : h.length = 20) :
    extractPkScriptAddrs validPK (payToAddrScript (.pkh h net.pkh)) net = (.pubKeyHash, [.pkh h net.pkh], 1) := by
  obtain ⟨x0,x1,x2,x3,x4,x5,x6,x7,x8,x9,x10,x11,x12,x13,x14,x15,x16,x17,x18,x19, rfl⟩ := len20 h hl
  rfl

theorem xtr_sh (validPK : List UInt8 → Bool) (net : Net) (h : List UInt8) (hl : h.length = 20) :
    extractPkScriptAddrs validPK (payToAddrScript (.sh h net.sh)) net = (.scriptHash, [.sh h net.sh], 1) := by
  obtain ⟨x0,x1,x2,x3,x4,x5,x6,x7,x8,x9,x10,x11,x12,x13,x14,x15,x16,x17,x18,x19, rfl⟩ := len20 h hl
  rfl

theorem xtr_wpkh (validPK : List UInt8 → Bool) (net : Net) (p : List UInt8) (hl : p.length = 20) :
    extractPkScriptAddrs validPK (payToAddrScript (.wpkh (lowerStr net.hrp) p)) net =
      (.witnessV0PubKeyHash, [.wpkh (lowerStr net.hrp) p], 1) := by
  have hms := extractMultisig_witness 0 0x14 p (by decide) (by decide) (by decide) (by simpa using hl)
  obtain ⟨x0,x1,x2,x3,x4,x5,x6,x7,x8,x9,x10,x11,x12,x13,x14,x15,x16,x17,x18,x19, rfl⟩ := len20 p hl
  unfold extractPkScriptAddrs payToAddrScript
  simp only [List.cons_append, List.nil_append, hms]
  rfl

theorem xtr_wsh (validPK : List UInt8 → Bool) (net : Net) (p : List UInt8) (hl : p.length = 32) :
    extractPkScriptAddrs validPK (payToAddrScript (.wsh (lowerStr net.hrp) p)) net =
      (.witnessV0ScriptHash, [.wsh (lowerStr net.hrp) p], 1) := by
  have hms := extractMultisig_witness 0 0x20 p (by decide) (by decide) (by decide) (by simpa using hl)
  obtain ⟨x0,x1,x2,x3,x4,x5,x6,x7,x8,x9,x10,x11,x12,x13,x14,x15,x16,x17,x18,x19,x20,x21,x22,x23,x24,x25,x26,x27,x28,x29,x30,x31, rfl⟩ := len32 p hl
  unfold extractPkScriptAddrs payToAddrScript
  simp only [List.cons_append, List.nil_append, hms]
  rfl

theorem xtr_tr (validPK : List UInt8 → Bool) (net : Net) (p : List UInt8) (hl : p.length = 32) :
    extractPkScriptAddrs validPK (payToAddrScript (.tr (lowerStr net.hrp) p)) net =
      (.witnessV1Taproot, [.tr (lowerStr net.hrp) p], 1) := by
  have hms := extractMultisig_witness 0x51 0x20 p (by decide) (by decide) (by decide) (by simpa using hl)
  obtain ⟨x0,x1,x2,x3,x4,x5,x6,x7,x8,x9,x10,x11,x12,x13,x14,x15,x16,x17,x18,x19,x20,x21,x22,x23,x24,x25,x26,x27,x28,x29,x30,x31, rfl⟩ := len32 p hl
  unfold extractPkScriptAddrs payToAddrScript
  simp only [List.cons_append, List.nil_append, hms]
  rfl

theorem xtr_p2a (validPK : List UInt8 → Bool) (net : Net) :
    extractPkScriptAddrs validPK (payToAddrScript (.p2a (lowerStr net.hrp))) net =
      (.payToAnchor, [.p2a (lowerStr net.hrp)], 0) := by
  rfl

theorem normPK_wf (s : List UInt8) (h : Addr.wf (.pk s 0) = true) : normPK s = s := by
  unfold Addr.wf at h
  match s with
  | [] => rfl
  | x :: t =>
    simp only [List.head?_cons, Bool.or_eq_true, Bool.and_eq_true, decide_eq_true_eq, Option.some.injEq] at h
    rcases h with ⟨_, h | h⟩ | ⟨_, h⟩ <;> (subst h; rfl)

theorem xtr_pk33 (validPK : List UInt8 → Bool) (net : Net) (s : List UInt8) (hl : s.length = 33)
    (hh : s.head? = some 2 ∨ s.head? = some 3) (hv : validPK s = true) :
    extractPkScriptAddrs validPK (payToAddrScript (.pk s net.pkh)) net = (.pubKey, [.pk s net.pkh], 1) := by
  obtain ⟨x0,x1,x2,x3,x4,x5,x6,x7,x8,x9,x10,x11,x12,x13,x14,x15,x16,x17,x18,x19,x20,x21,x22,x23,x24,x25,x26,x27,x28,x29,x30,x31,x32, rfl⟩ := len33 s hl
  simp only [List.head?_cons, Option.some.injEq] at hh
  rcases hh with rfl | rfl
  · have e : extractPkScriptAddrs validPK (payToAddrScript (.pk (2 :: x1 :: x2 :: x3 :: x4 :: x5 :: x6 :: x7 :: x8 :: x9 :: x10 :: x11 :: x12 :: x13 :: x14 :: x15 :: x16 :: x17 :: x18 :: x19 :: x20 :: x21 :: x22 :: x23 :: x24 :: x25 :: x26 :: x27 :: x28 :: x29 :: x30 :: x31 :: x32 :: []) net.pkh)) net =
      (.pubKey, if validPK (2 :: x1 :: x2 :: x3 :: x4 :: x5 :: x6 :: x7 :: x8 :: x9 :: x10 :: x11 :: x12 :: x13 :: x14 :: x15 :: x16 :: x17 :: x18 :: x19 :: x20 :: x21 :: x22 :: x23 :: x24 :: x25 :: x26 :: x27 :: x28 :: x29 :: x30 :: x31 :: x32 :: []) then [.pk (normPK (2 :: x1 :: x2 :: x3 :: x4 :: x5 :: x6 :: x7 :: x8 :: x9 :: x10 :: x11 :: x12 :: x13 :: x14 :: x15 :: x16 :: x17 :: x18 :: x19 :: x20 :: x21 :: x22 :: x23 :: x24 :: x25 :: x26 :: x27 :: x28 :: x29 :: x30 :: x31 :: x32 :: [])) net.pkh] else [], 1) := rfl
    rw [e, hv]; rfl
  · have e : extractPkScriptAddrs validPK (payToAddrScript (.pk (3 :: x1 :: x2 :: x3 :: x4 :: x5 :: x6 :: x7 :: x8 :: x9 :: x10 :: x11 :: x12 :: x13 :: x14 :: x15 :: x16 :: x17 :: x18 :: x19 :: x20 :: x21 :: x22 :: x23 :: x24 :: x25 :: x26 :: x27 :: x28 :: x29 :: x30 :: x31 :: x32 :: []) net.pkh)) net =
      (.pubKey, if validPK (3 :: x1 :: x2 :: x3 :: x4 :: x5 :: x6 :: x7 :: x8 :: x9 :: x10 :: x11 :: x12 :: x13 :: x14 :: x15 :: x16 :: x17 :: x18 :: x19 :: x20 :: x21 :: x22 :: x23 :: x24 :: x25 :: x26 :: x27 :: x28 :: x29 :: x30 :: x31 :: x32 :: []) then [.pk (normPK (3 :: x1 :: x2 :: x3 :: x4 :: x5 :: x6 :: x7 :: x8 :: x9 :: x10 :: x11 :: x12 :: x13 :: x14 :: x15 :: x16 :: x17 :: x18 :: x19 :: x20 :: x21 :: x22 :: x23 :: x24 :: x25 :: x26 :: x27 :: x28 :: x29 :: x30 :: x31 :: x32 :: [])) net.pkh] else [], 1) := rfl
    rw [e, hv]; rfl

theorem xtr_pk65 (validPK : List UInt8 → Bool) (net : Net) (s : List UInt8) (hl : s.length = 65)
    (hh : s.head? = some 4) (hv : validPK s = true) :
    extractPkScriptAddrs validPK (payToAddrScript (.pk s net.pkh)) net = (.pubKey, [.pk s net.pkh], 1) := by
  obtain ⟨x0,x1,x2,x3,x4,x5,x6,x7,x8,x9,x10,x11,x12,x13,x14,x15,x16,x17,x18,x19,x20,x21,x22,x23,x24,x25,x26,x27,x28,x29,x30,x31,x32,x33,x34,x35,x36,x37,x38,x39,x40,x41,x42,x43,x44,x45,x46,x47,x48,x49,x50,x51,x52,x53,x54,x55,x56,x57,x58,x59,x60,x61,x62,x63,x64, rfl⟩ := len65 s hl
  simp only [List.head?_cons, Option.some.injEq] at hh
  subst hh
  have e : extractPkScriptAddrs validPK (payToAddrScript (.pk (4 :: x1 :: x2 :: x3 :: x4 :: x5 :: x6 :: x7 :: x8 :: x9 :: x10 :: x11 :: x12 :: x13 :: x14 :: x15 :: x16 :: x17 :: x18 :: x19 :: x20 :: x21 :: x22 :: x23 :: x24 :: x25 :: x26 :: x27 :: x28 :: x29 :: x30 :: x31 :: x32 :: x33 :: x34 :: x35 :: x36 :: x37 :: x38 :: x39 :: x40 :: x41 :: x42 :: x43 :: x44 :: x45 :: x46 :: x47 :: x48 :: x49 :: x50 :: x51 :: x52 :: x53 :: x54 :: x55 :: x56 :: x57 :: x58 :: x59 :: x60 :: x61 :: x62 :: x63 :: x64 :: []) net.pkh)) net =
      (.pubKey, if validPK (4 :: x1 :: x2 :: x3 :: x4 :: x5 :: x6 :: x7 :: x8 :: x9 :: x10 :: x11 :: x12 :: x13 :: x14 :: x15 :: x16 :: x17 :: x18 :: x19 :: x20 :: x21 :: x22 :: x23 :: x24 :: x25 :: x26 :: x27 :: x28 :: x29 :: x30 :: x31 :: x32 :: x33 :: x34 :: x35 :: x36 :: x37 :: x38 :: x39 :: x40 :: x41 :: x42 :: x43 :: x44 :: x45 :: x46 :: x47 :: x48 :: x49 :: x50 :: x51 :: x52 :: x53 :: x54 :: x55 :: x56 :: x57 :: x58 :: x59 :: x60 :: x61 :: x62 :: x63 :: x64 :: []) then [.pk (normPK (4 :: x1 :: x2 :: x3 :: x4 :: x5 :: x6 :: x7 :: x8 :: x9 :: x10 :: x11 :: x12 :: x13 :: x14 :: x15 :: x16 :: x17 :: x18 :: x19 :: x20 :: x21 :: x22 :: x23 :: x24 :: x25 :: x26 :: x27 :: x28 :: x29 :: x30 :: x31 :: x32 :: x33 :: x34 :: x35 :: x36 :: x37 :: x38 :: x39 :: x40 :: x41 :: x42 :: x43 :: x44 :: x45 :: x46 :: x47 :: x48 :: x49 :: x50 :: x51 :: x52 :: x53 :: x54 :: x55 :: x56 :: x57 :: x58 :: x59 :: x60 :: x61 :: x62 :: x63 :: x64 :: [])) net.pkh] else [], 1) := rfl
  rw [e, hv]; rfl

/-- **address_script_roundtrip** -/
theorem extract_payTo (validPK : List UInt8 → Bool) (a : Addr) (net : Net) (hwf : a.wf = true)
    (hnet : onNet a net = true) (hpk : ∀ s id, a = .pk s id → validPK s = true) :
    extractPkScriptAddrs validPK (payToAddrScript a) net = (scriptClassOf a, [a], nreqOf a) := by
  cases a with
  | pkh h id =>
    simp only [onNet, decide_eq_true_eq] at hnet; subst hnet
    exact xtr_pkh validPK net h (by simpa [Addr.wf] using hwf)
  | sh h id =>
    simp only [onNet, decide_eq_true_eq] at hnet; subst hnet
    exact xtr_sh validPK net h (by simpa [Addr.wf] using hwf)
  | pk s id =>
    simp only [onNet, decide_eq_true_eq] at hnet; subst hnet
    have hv := hpk s _ rfl
    simp only [Addr.wf, Bool.or_eq_true, Bool.and_eq_true, decide_eq_true_eq] at hwf
    rcases hwf with ⟨h1, h2⟩ | ⟨h1, h2⟩
    · exact xtr_pk33 validPK net s h1 h2 hv
    · exact xtr_pk65 validPK net s h1 h2 hv
  | wpkh h p =>
    simp only [onNet, decide_eq_true_eq] at hnet; subst hnet
    exact xtr_wpkh validPK net p (by simpa [Addr.wf] using hwf)
  | wsh h p =>
    simp only [onNet, decide_eq_true_eq] at hnet; subst hnet
    exact xtr_wsh validPK net p (by simpa [Addr.wf] using hwf)
  | tr h p =>
    simp only [onNet, decide_eq_true_eq] at hnet; subst hnet
    exact xtr_tr validPK net p (by simpa [Addr.wf] using hwf)
  | p2a h =>
    simp only [onNet, decide_eq_true_eq] at hnet; subst hnet
    exact xtr_p2a validPK net

end BV.C16.Lemmas
