/-
C16 model: WIF (btcutil/wif.go) and BIP32 extended keys (btcutil/hdkeychain/extendedkey.go). Core-only.
`H` = 4-byte checksum (first four bytes of double SHA-256). Curve / HMAC / hash160 are parameters.
-/
import BV.C16.Base58
namespace BV.C16

/-- secp256k1 group order -/
def secpN : Nat := 0xFFFFFFFFFFFFFFFFFFFFFFFFFFFFFFFEBAAEDCE6AF48A03BBFD25E8CD0364141

def beNat (bs : List UInt8) : Nat := bs.foldl (fun acc b => acc * 256 + b.toNat) 0

/-- `0 < k < n`: what `ModNScalar.SetByteSlice` (no overflow) and `!IsZero` accept -/
def validScalar (k : List UInt8) : Bool := 0 < beNat k && beNat k < secpN

/-- split off exactly `n` bytes -/
def takeN (n : Nat) (l : List UInt8) : Option (List UInt8 × List UInt8) :=
  if l.length < n then none else some (l.take n, l.drop n)

/-! ### WIF -/

structure Wif where
  key : List UInt8
  compressed : Bool
  netID : UInt8
deriving DecidableEq, Repr

inductive WifErr | malformed | checksum
deriving DecidableEq, Repr

/-- `WIF.String` -/
def wifString (H : List UInt8 → List UInt8) (w : Wif) : List UInt8 :=
  let a := w.netID :: w.key ++ (if w.compressed then [1] else [])
  b58Encode (a ++ H a)

/-- `DecodeWIF` -/
def decodeWIF (H : List UInt8 → List UInt8) (s : List UInt8) : Except WifErr Wif :=
  let decoded := b58Decode s
  let go (compress : Bool) (bodyLen : Nat) : Except WifErr Wif :=
    let tosum := decoded.take bodyLen
    if H tosum ≠ decoded.drop bodyLen then .error .checksum else
    match decoded with
    | [] => .error .malformed
    | netID :: rest =>
      let key := rest.take 32
      if validScalar key then .ok ⟨key, compress, netID⟩ else .error .malformed
  if decoded.length = 38 then
    if (decoded.drop 33).head? ≠ some 1 then .error .malformed else go true 34
  else if decoded.length = 37 then go false 33
  else .error .malformed

/-! ### BIP32 extended keys: string form -/

structure XKey where
  version : List UInt8
  depth : UInt8
  parentFP : List UInt8
  childNum : Nat
  chainCode : List UInt8
  key : List UInt8
  isPrivate : Bool
deriving DecidableEq, Repr

def be32 (n : Nat) : List UInt8 :=
  [UInt8.ofNat (n / 2 ^ 24 % 256), UInt8.ofNat (n / 2 ^ 16 % 256), UInt8.ofNat (n / 2 ^ 8 % 256), UInt8.ofNat (n % 256)]

/-- left-pad with zero bytes to `n` bytes (`paddedAppend`) -/
def padLeft (n : Nat) (b : List UInt8) : List UInt8 := List.replicate (n - b.length) 0 ++ b

def xkeyPayload (k : XKey) : List UInt8 :=
  k.version ++ ([k.depth] ++ (k.parentFP ++ (be32 k.childNum ++ (k.chainCode ++
    (if k.isPrivate then 0 :: padLeft 32 k.key else k.key)))))

/-- `ExtendedKey.String` (for a non-zeroed key) -/
def xkeyString (H : List UInt8 → List UInt8) (k : XKey) : List UInt8 :=
  b58Encode (xkeyPayload k ++ H (xkeyPayload k))

inductive XKeyErr | keyLen | checksum | unusable | pubkey
deriving DecidableEq, Repr

/-- `NewKeyFromString` -/
def xkeyParse (H : List UInt8 → List UInt8) (validPK : List UInt8 → Bool) (s : List UInt8) : Except XKeyErr XKey :=
  let decoded := b58Decode s
  if decoded.length ≠ 82 then .error .keyLen else
  match takeN 78 decoded with
  | none => .error .keyLen
  | some (payload, ck) =>
    if H payload ≠ ck then .error .checksum else
    match takeN 4 payload with
    | none => .error .keyLen
    | some (version, r1) =>
    match r1 with
    | [] => .error .keyLen
    | depth :: r2 =>
    match takeN 4 r2 with
    | none => .error .keyLen
    | some (fp, r3) =>
    match takeN 4 r3 with
    | none => .error .keyLen
    | some (cn, r4) =>
    match takeN 32 r4 with
    | none => .error .keyLen
    | some (cc, keyData) =>
      match keyData with
      | 0 :: priv => if validScalar priv then .ok ⟨version, depth, fp, beNat cn, cc, priv, true⟩ else .error .unusable
      | _ => if validPK keyData then .ok ⟨version, depth, fp, beNat cn, cc, keyData, false⟩ else .error .pubkey

/-! ### BIP32 derivation over an abstract curve -/

structure Curve (Pt : Type) where
  n : Nat
  /-- `k ↦ k·G` -/
  baseMul : Nat → Pt
  add : Pt → Pt → Pt
  isInf : Pt → Bool
  /-- 33-byte compressed serialization -/
  ser : Pt → List UInt8
  parse : List UInt8 → Option Pt

def stripZeros : List UInt8 → List UInt8
  | 0 :: t => stripZeros t
  | l => l

/-- 32-byte big-endian -/
def nat32 (x : Nat) : List UInt8 := (Radix.fixedBE 256 32 x).map UInt8.ofNat

inductive DeriveErr | maxDepth | hardFromPub | invalidChild | badPub
deriving DecidableEq, Repr

def pubKeyBytes {Pt} (C : Curve Pt) (k : XKey) : List UInt8 :=
  if k.isPrivate then C.ser (C.baseMul (beNat k.key)) else k.key

/-- `ExtendedKey.Derive` (BIP32 CKDpriv / CKDpub). `hmac key data` = HMAC-SHA512, `h160` = RIPEMD160∘SHA256. -/
def derive {Pt} (C : Curve Pt) (hmac : List UInt8 → List UInt8 → List UInt8) (h160 : List UInt8 → List UInt8)
    (k : XKey) (i : Nat) : Except DeriveErr XKey :=
  if k.depth = 255 then .error .maxDepth else
  let hardened := i ≥ 2 ^ 31
  if !k.isPrivate && hardened then .error .hardFromPub else
  let pkb := pubKeyBytes C k
  let data := (if hardened then padLeft 33 k.key else pkb) ++ be32 i
  let ilr := hmac k.chainCode data
  let il := ilr.take 32
  let cc := ilr.drop 32
  let ilNum := beNat il
  if ilNum ≥ C.n then .error .invalidChild else
  let fp := (h160 pkb).take 4
  if k.isPrivate then
    let keyNum := beNat k.key
    if keyNum ≥ C.n then .error .invalidChild else
    .ok ⟨k.version, k.depth + 1, fp, i, cc, stripZeros (nat32 ((ilNum + keyNum) % C.n)), true⟩
  else
    let p := C.baseMul ilNum
    if C.isInf p then .error .invalidChild else
    match C.parse k.key with
    | none => .error .badPub
    | some q => .ok ⟨k.version, k.depth + 1, fp, i, cc, C.ser (C.add p q), false⟩

/-- `ExtendedKey.Neuter`; `pubVer` = `chaincfg.HDPrivateKeyToPublicKeyID` -/
def neuter {Pt} (C : Curve Pt) (pubVer : List UInt8 → Option (List UInt8)) (k : XKey) : Option XKey :=
  if !k.isPrivate then some k else
  match pubVer k.version with
  | none => none
  | some v => some ⟨v, k.depth, k.parentFP, k.childNum, k.chainCode, pubKeyBytes C k, false⟩

/-- `NewMaster` -/
def newMaster (hmac : List UInt8 → List UInt8 → List UInt8) (seed : List UInt8) (version : List UInt8) :
    Option XKey :=
  if seed.length < 16 || seed.length > 64 then none else
  let lr := hmac "Bitcoin seed".toUTF8.toList seed
  let sk := lr.take 32
  if validScalar sk then some ⟨version, 0, [0, 0, 0, 0], 0, lr.drop 32, sk, true⟩ else none

end BV.C16
