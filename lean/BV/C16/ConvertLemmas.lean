/- C16 lemmas: ConvertBits 8→5 (pad) and 5→8 (no pad) are mutually inverse where defined. Core-only. -/
import BV.C16.Bech32
namespace BV.C16.Lemmas
open BV.C16 Radix

theorem map_mod_id (b : Nat) (l : List Nat) (h : ∀ d ∈ l, d < b) : l.map (· % b) = l := by
  induction l with
  | nil => rfl
  | cons x xs ih =>
    simp only [List.map_cons]
    rw [Nat.mod_eq_of_lt (h x List.mem_cons_self), ih (fun d hd => h d (List.mem_cons_of_mem _ hd))]

theorem pow256 (n : Nat) : 256 ^ n = 2 ^ (8 * n) := by
  have : (256 : Nat) = 2 ^ 8 := by decide
  rw [this, Nat.pow_mul]
theorem pow32 (n : Nat) : 32 ^ n = 2 ^ (5 * n) := by
  have : (32 : Nat) = 2 ^ 5 := by decide
  rw [this, Nat.pow_mul]

/-- 8→5 with padding always succeeds; the result has ⌈8n/5⌉ symbols, all below 32. -/
theorem convertBits_8_5 (data : List Nat) (h : ∀ d ∈ data, d < 256) :
    convertBits data 8 5 true =
      .ok (fixedBE 32 ((8 * data.length + 4) / 5)
        (ofBE 256 data * 2 ^ ((8 * data.length + 4) / 5 * 5 - 8 * data.length))) := by
  unfold convertBits
  have e8 : (2 : Nat) ^ 8 = 256 := by decide
  have e5 : (2 : Nat) ^ 5 = 32 := by decide
  simp only [e8, e5, map_mod_id 256 data h]
  rfl

/-- **convertBits_roundtrip** (encode direction): regrouping bytes to 5-bit symbols with padding and back
without padding returns the bytes. -/
theorem convertBits_8_5_8 (data : List Nat) (h : ∀ d ∈ data, d < 256) :
    ∃ c, convertBits data 8 5 true = .ok c ∧ (∀ v ∈ c, v < 32) ∧
      c.length = (8 * data.length + 4) / 5 ∧ convertBits c 5 8 false = .ok data := by
  refine ⟨_, convertBits_8_5 data h, fixedBE_lt (by decide) _ _, fixedBE_length _ _ _, ?_⟩
  have hfin := fixedBE_ofBE (by decide : 0 < 256) data h
  generalize hn : data.length = n at *
  generalize hm : (8 * n + 4) / 5 = m
  have hk : m * 5 - 8 * n ≤ 4 := by omega
  have hk2 : 5 * m = 8 * n + (m * 5 - 8 * n) := by omega
  generalize hkk : m * 5 - 8 * n = k at *
  have hN : ofBE 256 data < 2 ^ (8 * n) := by
    have := ofBE_lt (by decide : 0 < 256) data h
    rwa [hn, pow256] at this
  generalize ofBE 256 data = N at *
  have hNk : N * 2 ^ k < 32 ^ m := by
    rw [pow32, hk2, Nat.pow_add]
    exact Nat.mul_lt_mul_of_pos_right hN (Nat.pow_pos (by decide))
  unfold convertBits
  have e8 : (2 : Nat) ^ 8 = 256 := by decide
  have e5 : (2 : Nat) ^ 5 = 32 := by decide
  simp only [e8, e5]
  rw [map_mod_id 32 _ (fixedBE_lt (by decide) _ _), ofBE_fixedBE (by decide) m _ hNk, fixedBE_length]
  have q1 : 5 * m / 8 = n := by omega
  have q2 : 5 * m % 8 = k := by omega
  simp only [q1, q2]
  have : (N * 2 ^ k) % 2 ^ k = 0 := Nat.mul_mod_left _ _
  have hk4 : ¬ k > 4 := by omega
  simp [this, hk4]
  rw [Nat.mul_div_cancel _ (Nat.pow_pos (by decide))]
  exact hfin

/-- **convertBits_roundtrip** (decode direction): whatever 5→8 without padding accepts re-encodes
(8→5 with padding) to exactly the same symbols; the rejected inputs are those with more than four spare bits
or non-zero spare bits. -/
theorem convertBits_5_8_5 (c d : List Nat) (hc : ∀ v ∈ c, v < 32)
    (h : convertBits c 5 8 false = .ok d) :
    (∀ v ∈ d, v < 256) ∧ d.length = 5 * c.length / 8 ∧ convertBits d 8 5 true = .ok c := by
  unfold convertBits at h
  have e8 : (2 : Nat) ^ 8 = 256 := by decide
  have e5 : (2 : Nat) ^ 5 = 32 := by decide
  simp only [e8, e5, map_mod_id 32 c hc] at h
  generalize hm : c.length = m at *
  have hM : ofBE 32 c < 2 ^ (5 * m) := by
    have := ofBE_lt (by decide : 0 < 32) c hc
    rwa [hm, pow32] at this
  have hcc := fixedBE_ofBE (by decide : 0 < 32) c hc
  rw [hm] at hcc
  generalize ofBE 32 c = M at *
  generalize hn : 5 * m / 8 = n at *
  generalize hk : 5 * m % 8 = k at *
  have hsplit : 5 * m = 8 * n + k := by omega
  simp at h
  split at h
  · cases h
  · rename_i hcond
    injection h with h
    have hk4 : k = 0 ∨ (k ≤ 4 ∧ M % 2 ^ k = 0) := by
      by_cases h0 : k = 0
      · left; exact h0
      · right
        constructor
        · apply Classical.byContradiction; intro h4
          exact hcond ⟨by omega, Or.inl (by omega)⟩
        · apply Classical.byContradiction; intro h4
          exact hcond ⟨by omega, Or.inr h4⟩
    have hdiv : M % 2 ^ k = 0 := by
      rcases hk4 with h0 | ⟨_, h1⟩
      · rw [h0]; simp [Nat.mod_one]
      · exact h1
    have hk4' : k ≤ 4 := by rcases hk4 with h0 | ⟨h1, _⟩ <;> omega
    have hQ : M / 2 ^ k < 256 ^ n := by
      rw [pow256, Nat.div_lt_iff_lt_mul (Nat.pow_pos (by decide)), ← Nat.pow_add, ← hsplit]; exact hM
    subst h
    refine ⟨fixedBE_lt (by decide) _ _, fixedBE_length _ _ _, ?_⟩
    rw [convertBits_8_5 _ (fixedBE_lt (by decide) _ _), fixedBE_length, ofBE_fixedBE (by decide) _ _ hQ]
    have q1 : (8 * n + 4) / 5 = m := by omega
    have q2 : m * 5 - 8 * n = k := by omega
    rw [q1, q2, Nat.div_mul_cancel (Nat.dvd_of_mod_eq_zero hdiv), hcc]

end BV.C16.Lemmas
