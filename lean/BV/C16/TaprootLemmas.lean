/- C16 lemmas: every leaf of every taproot tree has a verifying control block. Core-only. -/
import BV.C16.Taproot
namespace BV.C16.Lemmas
open BV.C16

theorem lexLt_asymm : ∀ a b : List UInt8, lexLt a b = true → lexLt b a = false
  | [], [], h => by simp [lexLt] at h
  | [], _ :: _, _ => rfl
  | _ :: _, [], h => by simp [lexLt] at h
  | x :: xs, y :: ys, h => by
    unfold lexLt at h ⊢
    by_cases h1 : x < y
    · have h2 : ¬ y < x := by
        rw [UInt8.lt_iff_toNat_lt] at h1 ⊢; omega
      simp [h1, h2]
    · by_cases h2 : y < x
      · simp [h1, h2] at h
      · simp only [h1, h2, if_false] at h ⊢
        exact lexLt_asymm xs ys h

theorem lexLt_total : ∀ a b : List UInt8, lexLt a b = false → lexLt b a = false → a = b
  | [], [], _, _ => rfl
  | [], _ :: _, h, _ => by simp [lexLt] at h
  | _ :: _, [], _, h => by simp [lexLt] at h
  | x :: xs, y :: ys, h, h' => by
    unfold lexLt at h h'
    by_cases h1 : x < y
    · simp [h1] at h
    · by_cases h2 : y < x
      · simp [h2] at h'
      · simp only [h1, h2, if_false] at h h'
        have : x = y := by
          rw [UInt8.lt_iff_toNat_lt] at h1 h2
          exact UInt8.toNat_inj.mp (by omega)
        rw [this, lexLt_total xs ys h h']

/-- `tapBranchHash` does not depend on the order of its arguments -/
theorem branchHash_comm (HB : List UInt8 → List UInt8 → List UInt8) (a b : List UInt8) :
    branchHash HB a b = branchHash HB b a := by
  unfold branchHash
  cases h1 : lexLt b a with
  | true => simp [lexLt_asymm b a h1]
  | false =>
    cases h2 : lexLt a b with
    | true => simp
    | false => rw [lexLt_total a b h2 h1]

section
variable (HL : UInt8 → List UInt8 → List UInt8) (HB : List UInt8 → List UInt8 → List UInt8)

theorem rootFromProof_snoc (i : Nat) (v : UInt8) (s : List UInt8) (path : List (List UInt8)) (sib : List UInt8) :
    rootFromProof HL HB ⟨i, v, s, path ++ [sib]⟩ = branchHash HB (rootFromProof HL HB ⟨i, v, s, path⟩) sib := by
  unfold rootFromProof
  simp only [List.foldl_append, List.foldl_cons, List.foldl_nil]

/-- the inclusion proof of every leaf recomputes the root -/
theorem proofs_root : ∀ (t : TapTree) (p : LeafProof), p ∈ t.proofs HL HB → rootFromProof HL HB p = t.hash HL HB
  | .leaf i v s, p, h => by
    simp only [TapTree.proofs, List.mem_singleton] at h
    subst h; rfl
  | .branch l r, p, h => by
    simp only [TapTree.proofs, List.mem_append, List.mem_map] at h
    rcases h with ⟨q, hq, rfl⟩ | ⟨q, hq, rfl⟩
    · have ih := proofs_root l q hq
      show rootFromProof HL HB ⟨q.idx, q.ver, q.script, q.path ++ [r.hash HL HB]⟩ = _
      rw [rootFromProof_snoc, ih]; rfl
    · have ih := proofs_root r q hq
      show rootFromProof HL HB ⟨q.idx, q.ver, q.script, q.path ++ [l.hash HL HB]⟩ = _
      rw [rootFromProof_snoc, ih, branchHash_comm]; rfl

/-- the leaves of a tree, left to right -/
def leavesOf : TapTree → List (Nat × UInt8 × List UInt8)
  | .leaf i v s => [(i, v, s)]
  | .branch l r => leavesOf l ++ leavesOf r

/-- every leaf has exactly one proof entry -/
theorem proofs_cover : ∀ t : TapTree, (t.proofs HL HB).map (fun p => (p.idx, p.ver, p.script)) = leavesOf t
  | .leaf i v s => rfl
  | .branch l r => by
    simp only [TapTree.proofs, List.map_append, List.map_map, leavesOf]
    rw [← proofs_cover l, ← proofs_cover r]; rfl

variable (outKey : List UInt8 → List UInt8 → List UInt8 × Bool)

/-- **taproot_leaf_proves** -/
theorem verifyLeaf_proofs (t : TapTree) (internalX : List UInt8) (p : LeafProof) (h : p ∈ t.proofs HL HB) :
    verifyLeaf HL HB outKey (controlBlock outKey internalX (t.hash HL HB) p)
      (outKey internalX (t.hash HL HB)).1 p.script = true := by
  have hr : rootFromProof HL HB ⟨0, p.ver, p.script, p.path⟩ = t.hash HL HB := by
    have := proofs_root HL HB t p h
    unfold rootFromProof at this ⊢; exact this
  unfold verifyLeaf controlBlock
  simp only [hr]
  simp
end

/-! the shape built by AssembleTaprootScriptTree keeps every leaf -/

def leavesOfList (ts : List TapTree) : List (Nat × UInt8 × List UInt8) := ts.flatMap leavesOf

theorem pairUp_leaves : ∀ ts : List TapTree, leavesOfList (pairUp ts) = leavesOfList ts
  | [] => rfl
  | [_] => rfl
  | [a, b] => by simp [pairUp, leavesOfList, leavesOf]
  | [a, b, c] => by simp [pairUp, leavesOfList, leavesOf]
  | a :: b :: c :: d :: rest => by
    have ih := pairUp_leaves (c :: d :: rest)
    unfold pairUp
    simp only [leavesOfList, List.flatMap_cons, leavesOf] at ih ⊢
    rw [ih]; simp
    all_goals (intro h; cases h)

theorem mergeQueue_leaves : ∀ (f : Nat) (ts : List TapTree) (t : TapTree), mergeQueue f ts = some t →
    (leavesOf t).Perm (leavesOfList ts)
  | _, [], t, h => by simp [mergeQueue] at h
  | f, [x], t, h => by
    cases f <;> (simp [mergeQueue] at h; subst h; simp [leavesOfList])
  | 0, _ :: _ :: _, t, h => by simp [mergeQueue] at h
  | f+1, a :: b :: rest, t, h => by
    simp only [mergeQueue] at h
    have ih := mergeQueue_leaves f _ t h
    refine ih.trans ?_
    simp only [leavesOfList, List.flatMap_append, List.flatMap_cons, List.flatMap_nil, leavesOf, List.append_nil]
    rw [← List.append_assoc (leavesOf a)]
    exact List.perm_append_comm

/-- the assembled tree has exactly the given leaves (as a multiset) -/
theorem assembleTree_leaves (ls : List TapTree) (t : TapTree) (h : assembleTree ls = some t) :
    (leavesOf t).Perm (leavesOfList ls) := by
  unfold assembleTree at h
  split at h
  · injection h with h; subst h; simp [leavesOfList]
  · have := mergeQueue_leaves _ _ t h
    rw [pairUp_leaves] at this; exact this

theorem pairUp_length : ∀ ts : List TapTree, (pairUp ts).length ≤ ts.length ∧ (ts ≠ [] → pairUp ts ≠ [])
  | [] => by simp [pairUp]
  | [_] => by simp [pairUp]
  | [a, b] => by simp [pairUp]
  | [a, b, c] => by simp [pairUp]
  | a :: b :: c :: d :: rest => by
    have ih := pairUp_length (c :: d :: rest)
    unfold pairUp
    simp only [List.length_cons] at ih ⊢
    constructor
    · omega
    · intro _ h; cases h
    all_goals (intro h; cases h)

theorem mergeQueue_total : ∀ (f : Nat) (ts : List TapTree), ts ≠ [] → ts.length ≤ f + 1 →
    ∃ t, mergeQueue f ts = some t
  | _, [], h, _ => absurd rfl h
  | f, [x], _, _ => by cases f <;> exact ⟨x, by simp [mergeQueue]⟩
  | 0, _ :: _ :: _, _, hl => by simp at hl
  | f+1, a :: b :: rest, _, hl => by
    simp only [mergeQueue]
    apply mergeQueue_total f
    · simp
    · simp only [List.length_append, List.length_cons, List.length_nil] at hl ⊢; omega

/-- `AssembleTaprootScriptTree` builds a tree for every non-empty list of leaves -/
theorem assembleTree_total (ls : List TapTree) (h : ls ≠ []) : ∃ t, assembleTree ls = some t := by
  unfold assembleTree
  split
  · exact ⟨_, rfl⟩
  · have := pairUp_length ls
    exact mergeQueue_total _ _ (this.2 h) (by omega)

end BV.C16.Lemmas
