#!/bin/bash
# MANIFEST.setup_cmd: offline build of everything the checks need (Lean library + proofs + driver, Go harnesses).
set -u
cd "$(dirname "$0")"
export GOFLAGS=-mod=mod GOPROXY=off GOSUMDB=off GOTOOLCHAIN=local
mkdir -p evidence replays lean/BV/Generated harness/bin
# go.sum for the harness module = union of /repo's go.sum files (+ extras for cached test-only modules)
cat /repo/go.sum /repo/*/go.sum $( [ -f harness/go.sum.extra ] && echo harness/go.sum.extra ) | sort -u > harness/go.sum
rc=0
for d in harness/cmd/*/; do
  n=$(basename "$d")
  (cd harness && go1.26 build -tags verif -o "bin/$n" "./cmd/$n") || { echo "setup: harness $n failed to build"; rc=1; continue; }
  case "$n" in c[0-9][0-9]) ID=$(echo "$n" | tr a-z A-Z); harness/bin/$n --emit-facts "lean/BV/Generated/$ID.lean" || rc=1;; esac
done
for p in lean/BV/C*/Props.lean; do
  ID=$(basename "$(dirname "$p")")
  low=$(echo "$ID" | tr A-Z a-z)
  (cd lean && lake build "drv_$low" "BV.$ID.Props") || { echo "setup: BV.$ID.Props failed"; rc=1; }
done
exit $rc
